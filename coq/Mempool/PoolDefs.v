(** Abstract MemPool bookkeeping (src/pop/mempool.cpp), one payload type.

    A payload is a number; [ht p] is the VBK height the in-flight view sorts by,
    [blk p] the VBK block the payload carries (block of proof / containing block /
    the block itself) and [par p] the block whose presence is the payload's
    missing context (the parent of [blk p]). What the block trees say is NOT modelled: every tree verdict
    is an input of the step (the set [base] of blocks the trees know, the set
    [stale] of payloads a connect pass cannot connect for reasons of the trees,
    the set [gone] of payloads cleanUp removes, a stateless verdict), so
    the theorems hold for every tree and every way it changes between calls.

    connected payloads: a duplicate-free list (stored_*_ is a map keyed by id);
    in-flight payloads: the ValueSortedMap model of VsmDefs with key = value = id.
    A failing VBK_ASSERT is the explicit result [PAbort].

    The last section models "erase while iterating" over a live node-based
    container with an explicit [Uaf] outcome (cleanUp, cleanupStale). *)
From Coq Require Import List NArith Bool.
From VB Require Import Mempool.VsmDefs.
Import ListNotations.
Local Open Scope N_scope.

Section Pool.
  Variable ht : N -> N.
  Variable par : N -> N.
  Variable blk : N -> N.   (* the VBK block a connected payload brings into the temporary tree (itself for a VbkBlock) *)

  Record pool := mkp { conn : list N; infl : vsm }.
  Definition pempty : pool := mkp [] empty.
  Inductive res := POk (s : pool) | PAbort.

  Definition mem (x : N) (l : list N) : bool := existsb (N.eqb x) l.
  Definition present (base c : list N) (x : N) : bool := mem x base || mem x (map blk c).
  Definition inflight (s : pool) (p : N) : bool :=
    match m_find p (vmap (infl s)) with Some _ => true | None => false end.
  Definition connected (s : pool) (p : N) : bool := mem p (conn s).
  (** MemPool::get / isKnown(onlyInMempool) *)
  Definition known (s : pool) (p : N) : bool := connected s p || inflight s p.

  Inductive verdict := Stateless | Stale | Fine.
  Definition fine (v : verdict) : bool := match v with Fine => true | _ => false end.

  (** submit<T>: stateless failure -> untouched; contextual check passes and the context is present ->
      connected[id] = p, inflight.erase(id); otherwise inflight.insert(id, p) *)
  Definition submit (base : list N) (v : verdict) (p : N) (s : pool) : res :=
    match v with
    | Stateless => POk s
    | _ =>
      if fine v && present base (conn s) (par p) then
        match erase ht p (infl s) with
        | Ok f => POk (mkp (if mem p (conn s) then conn s else p :: conn s) f)
        | Abort => PAbort
        end
      else
        match insert ht p p (infl s) with
        | Ok f => POk (mkp (conn s) f)
        | Abort => PAbort
        end
    end.

  Definition vd (stale : list N) (p : N) : verdict := if mem p stale then Stale else Fine.

  (** tryConnectPayloads: ONE pass over a copy of the height-sorted view, re-submitting each value *)
  Fixpoint connect_pass (base stale l : list N) (s : pool) : res :=
    match l with
    | [] => POk s
    | p :: r =>
      match submit base (vd stale p) p s with
      | POk s' => connect_pass base stale r s'
      | PAbort => PAbort
      end
    end.
  Definition tryConnect (base stale : list N) (s : pool) : res :=
    connect_pass base stale (vset (infl s)) s.

  Fixpoint erase_all (ks : list N) (f : vsm) : outcome :=
    match ks with
    | [] => Ok f
    | k :: r => match erase ht k f with Ok f' => erase_all r f' | Abort => Abort end
    end.

  (** cleanUp: connected payloads in [gone_c] (contextually invalid, or ATVs of a too old VBK block) leave the
      relations and maps, in-flight payloads in [gone_f] (contextually invalid) are erased *)
  Definition dropIds (ids : list N) (s : pool) : pool :=
    mkp (filter (fun p => negb (mem p ids)) (conn s)) (infl s).
  Definition cleanUp (gone_c gone_f : list N) (s : pool) : res :=
    match erase_all (filter (fun k => mem k gone_f) (map fst (vmap (infl s)))) (infl s) with
    | Ok f => POk (mkp (filter (fun p => negb (mem p gone_c)) (conn s)) f)
    | Abort => PAbort
    end.

  (** removeAll(popData): drop the ids from the connected maps, cleanUp, tryConnectPayloads *)
  Definition removeAll (ids base stale gone_c gone_f : list N) (s : pool) : res :=
    match cleanUp gone_c gone_f (dropIds ids s) with
    | POk s1 => tryConnect base stale s1
    | PAbort => PAbort
    end.

  (** generatePopData: tryConnectPayloads, (filterInvalidPayloads does not touch the pool), cleanUp *)
  Definition generate (base stale gone_c gone_f : list N) (s : pool) : res :=
    match tryConnect base stale s with
    | POk s1 => cleanUp gone_c gone_f s1
    | PAbort => PAbort
    end.

  Definition clear (s : pool) : res :=
    match VsmDefs.clear (infl s) with Ok f => POk (mkp [] f) | Abort => PAbort end.

  Inductive pop :=
  | Submit (base : list N) (v : verdict) (p : N)
  | Generate (base stale gone_c gone_f : list N)
  | RemoveAll (ids base stale gone_c gone_f : list N)
  | CleanUp (gone_c gone_f : list N)
  | Clear.

  Definition pstep (s : pool) (o : pop) : res :=
    match o with
    | Submit base v p => submit base v p s
    | Generate base stale gc gf => generate base stale gc gf s
    | RemoveAll ids base stale gc gf => removeAll ids base stale gc gf s
    | CleanUp gc gf => cleanUp gc gf s
    | Clear => clear s
    end.

  Fixpoint prun (s : pool) (ops : list pop) : res :=
    match ops with
    | [] => POk s
    | o :: r => match pstep s o with POk s' => prun s' r | PAbort => PAbort end
    end.

  (** the caller contract of submit: the payload is not connected (callers test isKnown first) *)
  Fixpoint contract (s : pool) (ops : list pop) : Prop :=
    match ops with
    | [] => True
    | o :: r =>
      (match o with Submit _ _ p => connected s p = false | _ => True end) /\
      match pstep s o with POk s' => contract s' r | PAbort => True end
    end.

  (** the decisions of one pass, without the container: (connected afterwards, kept in flight) *)
  Fixpoint pass (base stale l c : list N) : list N * list N :=
    match l with
    | [] => (c, [])
    | p :: r =>
      if negb (mem p stale) && present base c (par p) then pass base stale r (p :: c)
      else let '(c', k) := pass base stale r c in (c', p :: k)
    end.
End Pool.

(** ** erase while iterating over a live node-based container (std::set / std::unordered_map) *)
Section Iter.
  Inductive action := Keep | EraseAdvance | EraseThenUse.
  (** Keep: read the element, advance.   EraseAdvance: it = c.erase(it) (cleanupStale).
      EraseThenUse: erase the current element inside a range-for, then read it and advance from the erased
      node (cleanUp before 93a5aff7) *)
  Inductive iter_res := Done (kept : list N) | Uaf.

  Fixpoint iterate (act : N -> action) (nodes : list N) : iter_res :=
    match nodes with
    | [] => Done []
    | a :: r =>
      match act a with
      | Keep => match iterate act r with Done k => Done (a :: k) | Uaf => Uaf end
      | EraseAdvance => iterate act r
      | EraseThenUse => Uaf          (* the node of a was freed by erase; a is read afterwards *)
      end
    end.

  (** cleanUp, too-old branch, as coded now: read every ATV (Keep), then rel.atvs.clear() *)
  Definition cleanup_tooold (atvs stored : list N) : iter_res :=
    match iterate (fun _ => Keep) atvs with
    | Done visited => Done (filter (fun x => negb (existsb (N.eqb x) visited)) stored)
    | Uaf => Uaf
    end.
  (** before 93a5aff7 *)
  Definition cleanup_tooold_v0 (atvs stored : list N) : iter_res :=
    match iterate (fun _ => EraseThenUse) atvs with
    | Done visited => Done (filter (fun x => negb (existsb (N.eqb x) visited)) stored)
    | Uaf => Uaf
    end.
  (** cleanupStale<T>(container): it = !valid ? c.erase(it) : next(it) *)
  Definition cleanup_stale (valid : N -> bool) (nodes : list N) : iter_res :=
    iterate (fun a => if valid a then Keep else EraseAdvance) nodes.
End Iter.
