(** The three-typed bookkeeping of MemPool (src/pop/mempool.cpp, include/veriblock/pop/mempool.hpp,
    include/veriblock/pop/mempool_relations.hpp) with the relations structure:

      relations_   : VBK block id -> VbkPayloadsRelations { header; vtbs (vector); atvs (std::set) }
      vbkblocks_   : connected VBK blocks (key set)
      stored_vtbs_ / stored_atvs_        : connected VTBs / ATVs (key sets)
      vbkblocks_in_flight_ / vtbs_in_flight_ / atvs_in_flight_ : in-flight payloads (key sets; the container itself is
                     the ValueSortedMap of VsmDefs, C13_vsm_refines_map shows it refines a map for every history)

    Ids are numbers, one id space per payload type. [bop a] is the id of the block of proof an ATV carries,
    [cont t] the id of the containing block a VTB carries. Nothing the block trees say is modelled: every verdict is an
    input of the step (a submit verdict; for the connect pass a verdict that may depend on the current pool; for cleanUp
    the five predicates the loop evaluates). The theorems therefore hold for every tree and every way it changes
    between calls. A failing VBK_ASSERT is the explicit result [RAbort].
    Definitions only; proofs are in RelProofs.v. *)
From Coq Require Import List NArith Bool.
Import ListNotations.
Local Open Scope N_scope.

Definition rmem (x : N) (l : list N) : bool := existsb (N.eqb x) l.
(** map[key] = v  /  insert(key, v) on a key set *)
Definition sadd (x : N) (l : list N) : list N := if rmem x l then l else x :: l.
(** erase(key) *)
Definition sdel (x : N) (l : list N) : list N := filter (fun y => negb (y =? x)) l.
(** erase(key) for every key of [ids] *)
Definition del_all (ids l : list N) : list N := filter (fun y => negb (rmem y ids)) l.
Definition is_nil (l : list N) : bool := match l with [] => true | _ => false end.

Record rel := mkr { hdr : N; rvtbs : list N; ratvs : list N }.
Record mp := mkm { rels : list rel; vbks : list N; svtbs : list N; satvs : list N;
                   fb : list N; fv : list N; fa : list N }.
Definition mp0 : mp := mkm [] [] [] [] [] [] [].
Inductive rres := ROk (s : mp) | RAbort.

(** SubmitResult: FAILED_STATELESS, FAILED_STATEFUL, VALID *)
Inductive verdict := Stateless | Stateful | Fine.

(** what cleanUp asks the trees: tooOld (tip - oldBlocksWindow > height of the header), the header is in the stable VBK
    tree, checkContextually per payload type *)
Record oracle := mko { tooOld : N -> bool; onstable : N -> bool;
                       validB : N -> bool; validV : N -> bool; validA : N -> bool }.
(** what a resubmission in tryConnectPayloads is answered; it may depend on what the pass connected so far *)
Record coracle := mkco { vB : mp -> N -> verdict; stB : mp -> N -> bool;
                         vV : mp -> N -> verdict; vA : mp -> N -> verdict }.

Section Rel.
  Variable bop : N -> N.
  Variable cont : N -> N.

  Definition has_rel (b : N) (rs : list rel) : bool := existsb (fun r => hdr r =? b) rs.
  (** getOrPutVbkRelation: vbkblocks_.insert({id, block}); relations_[id] created when absent *)
  Definition put_rel (b : N) (s : mp) : mp :=
    mkm (if has_rel b (rels s) then rels s else mkr b [] [] :: rels s) (sadd b (vbks s))
        (svtbs s) (satvs s) (fb s) (fv s) (fa s).
  Definition on_rel (b : N) (f : rel -> rel) (rs : list rel) : list rel :=
    map (fun r => if hdr r =? b then f r else r) rs.
  (** rel.vtbs.push_back(vtb) *)
  Definition add_vtb (t : N) (r : rel) : rel := mkr (hdr r) (rvtbs r ++ [t]) (ratvs r).
  (** rel.atvs.insert(atv): a std::set ordered by fee, endorsed height and finally the ADDRESS of the shared_ptr, so a
      fresh pointer is always inserted; the position inside the set is not modelled *)
  Definition add_atv (a : N) (r : rel) : rel := mkr (hdr r) (rvtbs r) (a :: ratvs r).

  Definition submitA (v : verdict) (a : N) (s : mp) : mp :=
    match v with
    | Stateless => s
    | Stateful => mkm (rels s) (vbks s) (svtbs s) (satvs s) (fb s) (fv s) (sadd a (fa s))
    | Fine =>
      let s1 := put_rel (bop a) s in
      mkm (on_rel (bop a) (add_atv a) (rels s1)) (vbks s1) (svtbs s1) (sadd a (satvs s1))
          (fb s1) (fv s1) (sdel a (fa s1))
    end.
  Definition submitV (v : verdict) (t : N) (s : mp) : mp :=
    match v with
    | Stateless => s
    | Stateful => mkm (rels s) (vbks s) (svtbs s) (satvs s) (fb s) (sadd t (fv s)) (fa s)
    | Fine =>
      let s1 := put_rel (cont t) s in
      mkm (on_rel (cont t) (add_vtb t) (rels s1)) (vbks s1) (sadd t (svtbs s1)) (satvs s1)
          (fb s1) (sdel t (fv s1)) (fa s1)
    end.
  (** submit<VbkBlock>: a block the stable tree already has gets no relation; the in-flight entry is erased *)
  Definition submitB (v : verdict) (st : bool) (b : N) (s : mp) : mp :=
    match v with
    | Stateless => s
    | Stateful => mkm (rels s) (vbks s) (svtbs s) (satvs s) (sadd b (fb s)) (fv s) (fa s)
    | Fine =>
      let s1 := if st then s else put_rel b s in
      mkm (rels s1) (vbks s1) (svtbs s1) (satvs s1) (sdel b (fb s1)) (fv s1) (fa s1)
    end.

  (** tryConnectPayloads: resubmit a COPY of the in-flight VBK blocks, then of the VTBs, then of the ATVs *)
  Definition passB (c : coracle) (l : list N) (s : mp) : mp :=
    fold_left (fun s b => submitB (vB c s b) (stB c s b) b s) l s.
  Definition passV (c : coracle) (l : list N) (s : mp) : mp :=
    fold_left (fun s t => submitV (vV c s t) t s) l s.
  Definition passA (c : coracle) (l : list N) (s : mp) : mp :=
    fold_left (fun s a => submitA (vA c s a) a s) l s.
  Definition tryConnect (c : coracle) (s : mp) : mp :=
    let s1 := passB c (fb s) s in
    let s2 := passV c (fv s1) s1 in
    passA c (fa s2) s2.

  (** ** cleanUp, per relation: what remains of it (None = relations_.erase), which ATV / VTB ids leave the maps *)
  Definition cl_atvs0 (o : oracle) (r : rel) : list N := if tooOld o (hdr r) then [] else ratvs r.
  Definition cl_rel (o : oracle) (r : rel) : option rel :=
    if tooOld o (hdr r) && is_nil (rvtbs r) then None
    else
      let vt := filter (validV o) (rvtbs r) in
      let at' := filter (validA o) (cl_atvs0 o r) in
      if onstable o (hdr r) && (is_nil vt && is_nil at') then None else Some (mkr (hdr r) vt at').
  (** erased ATV ids: all of them when the block is too old, the contextually invalid ones otherwise *)
  Definition cl_ea (o : oracle) (r : rel) : list N :=
    if tooOld o (hdr r) then ratvs r else filter (fun a => negb (validA o a)) (ratvs r).
  (** erased VTB ids (the too-old-and-no-VTBs exit happens before the VTB sweep, with nothing to sweep) *)
  Definition cl_ev (o : oracle) (r : rel) : list N := filter (fun t => negb (validV o t)) (rvtbs r).
  Definition is_none (x : option rel) : bool := match x with None => true | Some _ => false end.

  Definition kept_rels (o : oracle) (rs : list rel) : list rel :=
    flat_map (fun r => match cl_rel o r with None => [] | Some x => [x] end) rs.
  Definition erased_blocks (o : oracle) (rs : list rel) : list N :=
    map hdr (filter (fun r => is_none (cl_rel o r)) rs).

  Definition cleanUp (o : oracle) (s : mp) : rres :=
    let rs := rels s in
    let s' := mkm (kept_rels o rs) (del_all (erased_blocks o rs) (vbks s))
                  (del_all (flat_map (cl_ev o) rs) (svtbs s)) (del_all (flat_map (cl_ea o) rs) (satvs s))
                  (filter (validB o) (fb s)) (filter (validV o) (fv s)) (filter (validA o) (fa s)) in
    (* VBK_ASSERT(relations_.size() == vbkblocks_.size()) *)
    if Nat.eqb (length (rels s')) (length (vbks s')) then ROk s' else RAbort.

  (** ** removeAll(PopData{context = pb, vtbs = pv, atvs = pa}): the first loop *)
  Definition rm_rel (pb pv pa : list N) (r : rel) : option rel :=
    let vt := filter (fun t => negb (rmem t pv)) (rvtbs r) in
    let at' := filter (fun a => negb (rmem a pa)) (ratvs r) in
    if rmem (hdr r) pb && (is_nil vt && is_nil at') then None else Some (mkr (hdr r) vt at').
  Definition dropPop (pb pv pa : list N) (s : mp) : mp :=
    let rs := rels s in
    mkm (flat_map (fun r => match rm_rel pb pv pa r with None => [] | Some x => [x] end) rs)
        (del_all (map hdr (filter (fun r => is_none (rm_rel pb pv pa r)) rs)) (vbks s))
        (del_all (flat_map (fun r => filter (fun t => rmem t pv) (rvtbs r)) rs) (svtbs s))
        (del_all (flat_map (fun r => filter (fun a => rmem a pa) (ratvs r)) rs) (satvs s))
        (fb s) (fv s) (fa s).
  Definition removeAll (pb pv pa : list N) (o : oracle) (c : coracle) (s : mp) : rres :=
    match cleanUp o (dropPop pb pv pa s) with
    | ROk s1 => ROk (tryConnect c s1)
    | RAbort => RAbort
    end.

  (** generatePopData, effect on the pool: tryConnectPayloads, (selection and filterInvalidPayloads read only), cleanUp *)
  Definition generate (c : coracle) (o : oracle) (s : mp) : rres := cleanUp o (tryConnect c s).

  Inductive rop :=
  | SubA (v : verdict) (a : N)
  | SubV (v : verdict) (t : N)
  | SubB (v : verdict) (st : bool) (b : N)
  | Gen (c : coracle) (o : oracle)
  | RemAll (pb pv pa : list N) (o : oracle) (c : coracle)
  | Clean (o : oracle)
  | Clr.

  Definition rstep (s : mp) (op : rop) : rres :=
    match op with
    | SubA v a => ROk (submitA v a s)
    | SubV v t => ROk (submitV v t s)
    | SubB v st b => ROk (submitB v st b s)
    | Gen c o => generate c o s
    | RemAll pb pv pa o c => removeAll pb pv pa o c s
    | Clean o => cleanUp o s
    | Clr => ROk mp0
    end.
  Fixpoint rrun (s : mp) (ops : list rop) : rres :=
    match ops with
    | [] => ROk s
    | op :: r => match rstep s op with ROk s' => rrun s' r | RAbort => RAbort end
    end.

  (** the caller contract (callers test isKnown first): an ATV / VTB is submitted from outside only while it is not
      connected. The resubmissions of the connect pass are not subject to it (they are shown to respect it). *)
  Definition allowed (s : mp) (op : rop) : Prop :=
    match op with
    | SubA _ a => ~ In a (satvs s)
    | SubV _ t => ~ In t (svtbs s)
    | _ => True
    end.
  Fixpoint rcontract (s : mp) (ops : list rop) : Prop :=
    match ops with
    | [] => True
    | op :: r => allowed s op /\ match rstep s op with ROk s' => rcontract s' r | RAbort => True end
    end.

  (** MemPool::get<T> != nullptr *)
  Definition knownA (s : mp) (a : N) : bool := rmem a (satvs s) || rmem a (fa s).
  Definition knownV (s : mp) (t : N) : bool := rmem t (svtbs s) || rmem t (fv s).
  Definition knownB (s : mp) (b : N) : bool := rmem b (vbks s) || rmem b (fb s).
  Definition rel_of (b : N) (s : mp) : option rel := find (fun r => hdr r =? b) (rels s).
End Rel.
