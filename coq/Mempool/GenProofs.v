(** What generatePopData hands out (GenDefs), for every pool content and every tree oracle. *)
From Coq Require Import List NArith Bool Permutation Lia.
From VB Require Import Mempool.CountDefs Mempool.CountProofs Mempool.RelDefs Mempool.RelProofs Mempool.RelMore
     Mempool.GenDefs.
Import ListNotations.
Local Open Scope N_scope.

Inductive subseq : list N -> list N -> Prop :=
| ss_nil : subseq [] []
| ss_skip x l1 l2 : subseq l1 l2 -> subseq l1 (x :: l2)
| ss_take x l1 l2 : subseq l1 l2 -> subseq (x :: l1) (x :: l2).

Lemma subseq_In l1 l2 : subseq l1 l2 -> forall x, In x l1 -> In x l2.
Proof. induction 1; simpl; intros y Hy; auto. destruct Hy; auto. Qed.
Lemma subseq_asc hgt l1 l2 : subseq l1 l2 -> asc hgt l2 -> asc hgt l1.
Proof.
  induction 1; simpl; auto.
  - intros [_ H2]; auto.
  - intros [H1 H2]. split; auto. intros y Hy. apply H1. eapply subseq_In; eauto.
Qed.

Lemma NoDup_snoc (x : N) l : NoDup l -> ~ In x l -> NoDup (l ++ [x]).
Proof. intros. apply (Permutation_NoDup (Permutation_cons_append l x)). constructor; auto. Qed.

Lemma fresh_NoDup (k' : list N) : forall kept : list N,
  (forall pre x post, k' = pre ++ x :: post -> ~ In x (kept ++ pre)) -> NoDup kept -> NoDup (kept ++ k').
Proof.
  induction k' as [|x k'' IH]; intros kept H ND; [rewrite app_nil_r; auto|].
  replace (kept ++ x :: k'') with ((kept ++ [x]) ++ k'') by (rewrite <- app_assoc; reflexivity).
  apply IH.
  - intros pre y post E. rewrite <- app_assoc. simpl. apply (H (x :: pre) y post). simpl. congruence.
  - apply NoDup_snoc; auto. specialize (H [] x k'' eq_refl). rewrite app_nil_r in H. auto.
Qed.

(** ** one stage of filterInvalidPayloads *)
Section Stage.
  Variable L : limits.
  Variable k : kind.
  Variable sz : N -> N.
  Variable adm : list N -> N -> bool.

  Lemma stage_spec cands : forall c kept,
    exists k', snd (stage L k sz adm cands c kept) = kept ++ k' /\ subseq k' cands /\
      (forall pre x post, k' = pre ++ x :: post -> adm (kept ++ pre) x = true /\ ~ In x (kept ++ pre)).
  Proof.
    induction cands as [|x r IH]; intros c kept; cbn [stage].
    - exists []. rewrite app_nil_r. split; [reflexivity|]. split; [constructor|].
      intros pre x post E. destruct pre; discriminate.
    - destruct (can_fit L c k (sz x) && negb (rmem x kept) && adm kept x) eqn:E.
      + destruct (IH (update c k (sz x)) (kept ++ [x])) as [k'' [E1 [S1 A1]]]. exists (x :: k'').
        split; [rewrite E1, <- app_assoc; reflexivity|]. split; [apply ss_take; auto|].
        intros pre y post Ek. destruct pre as [|p pre]; simpl in Ek; injection Ek as <- Ek.
        * rewrite app_nil_r. apply andb_true_iff in E. destruct E as [E Ea]. apply andb_true_iff in E.
          destruct E as [_ En]. apply negb_true_iff, rmem_false in En. auto.
        * specialize (A1 pre y post Ek). rewrite <- app_assoc in A1. exact A1.
      + destruct (IH c kept) as [k'' [E1 [S1 A1]]]. exists k''. split; [exact E1|]. split; [apply ss_skip; auto|exact A1].
  Qed.

  Definition kof (k2 : kind) (r : kept) : list N :=
    match k2 with KVbk => k_vbk r | KVtb => k_vtb r | KAtv => k_atv r end.

  Lemma fits_step c r size :
    agrees c r -> fits L r = true -> can_fit L c k size = true -> fits L (CountDefs.keep r k size) = true.
  Proof.
    intros A F C. pose proof (filter_fit_fits L [(k, size, true)] c r A F) as H.
    unfold filter_fit in H. cbn [filter_fit_with snd] in H. rewrite C in H. exact H.
  Qed.

  Lemma stage_count cands : forall c kept r,
    agrees c r -> fits L r = true ->
    exists r' k', agrees (fst (stage L k sz adm cands c kept)) r' /\ fits L r' = true /\
      snd (stage L k sz adm cands c kept) = kept ++ k' /\
      kof k r' = rev (map sz k') ++ kof k r /\ (forall k2, k2 <> k -> kof k2 r' = kof k2 r).
  Proof.
    induction cands as [|x rest IH]; intros c kept r A F; cbn [stage].
    - exists r, []. rewrite app_nil_r. split; [exact A|]. split; [exact F|]. split; [reflexivity|].
      split; [reflexivity|]. reflexivity.
    - destruct (can_fit L c k (sz x) && negb (rmem x kept) && adm kept x) eqn:E.
      + apply andb_true_iff in E. destruct E as [E _]. apply andb_true_iff in E. destruct E as [Cf _].
        destruct (IH (update c k (sz x)) (kept ++ [x]) (CountDefs.keep r k (sz x))) as [r' [k'' [A' [F' [E1 [K1 K2]]]]]].
        { apply agrees_step; auto. } { apply (fits_step c); auto. }
        exists r', (x :: k''). split; [exact A'|]. split; [exact F'|]. split; [|split].
        * rewrite E1, <- app_assoc. reflexivity.
        * rewrite K1. cbn [map rev]. rewrite <- app_assoc. destruct k; reflexivity.
        * intros k2 Hk. rewrite (K2 k2 Hk). destruct k, k2; try reflexivity; congruence.
      + apply IH; auto.
  Qed.
End Stage.

Lemma sum_app l1 l2 : sum (l1 ++ l2) = sum l1 + sum l2.
Proof. unfold sum. induction l1; cbn [app fold_right]; [reflexivity|]. rewrite IHl1. lia. Qed.
Lemma sum_rev l : sum (rev l) = sum l.
Proof.
  induction l; cbn [rev]; [reflexivity|]. rewrite sum_app, IHl. unfold sum. cbn [fold_right]. lia.
Qed.
Lemma len_rev_map (f : N -> N) l : len (rev (map f l)) = len l.
Proof. unfold len. rewrite rev_length, map_length. reflexivity. Qed.

Section Gen.
  Variable hgt : N -> N.
  Variable par : N -> N.
  Variable bop cont : N -> N.
  Variable szB szV szA : N -> N.
  Variable L : limits.
  Variable treeB : N -> bool.
  Variable dupB dupV dupA : N -> bool.
  Variable okB : list N -> N -> bool.
  Variable okV : list N -> list N -> N -> bool.
  Variable okA : list N -> list N -> list N -> N -> bool.

  Let gen := generatePop par bop cont szB szV szA L treeB dupB dupV dupA okB okV okA.
  Let aB := admB par treeB dupB okB.
  Let aV := admV cont treeB dupV okV.
  Let aA := admA bop treeB dupA okA.

  Lemma gen_spec order :
    subseq (o_ctx (gen order)) (map hdr order) /\
    subseq (o_vtbs (gen order)) (flat_map rvtbs order) /\
    subseq (o_atvs (gen order)) (flat_map ratvs order) /\
    NoDup (o_ctx (gen order)) /\ NoDup (o_vtbs (gen order)) /\ NoDup (o_atvs (gen order)) /\
    (forall pre b post, o_ctx (gen order) = pre ++ b :: post -> aB pre b = true) /\
    (forall pre t post, o_vtbs (gen order) = pre ++ t :: post -> aV (o_ctx (gen order)) pre t = true) /\
    (forall pre a post, o_atvs (gen order) = pre ++ a :: post ->
                        aA (o_ctx (gen order)) (o_vtbs (gen order)) pre a = true).
  Proof.
    unfold gen, generatePop, filterPop, raw. cbn [o_ctx o_vtbs o_atvs].
    destruct (stage_spec L KVbk szB aB (map hdr order) c0 []) as [kb [E1 [S1 A1]]].
    fold aB. destruct (stage L KVbk szB aB (map hdr order) c0 []) as [c1 kb'] eqn:G1.
    cbn [snd app] in E1. subst kb'.
    destruct (stage_spec L KVtb szV (aV kb) (flat_map rvtbs order) c1 []) as [kv [E2 [S2 A2]]].
    fold aV. destruct (stage L KVtb szV (aV kb) (flat_map rvtbs order) c1 []) as [c2 kv'] eqn:G2.
    cbn [snd app] in E2. subst kv'.
    destruct (stage_spec L KAtv szA (aA kb kv) (flat_map ratvs order) c2 []) as [ka [E3 [S3 A3]]].
    fold aA. destruct (stage L KAtv szA (aA kb kv) (flat_map ratvs order) c2 []) as [c3 ka'] eqn:G3.
    cbn [snd app] in E3. subst ka'. cbn [o_ctx o_vtbs o_atvs].
    repeat split; auto.
    - apply (fresh_NoDup kb []); [|constructor]. intros pre x post E. apply (A1 pre x post E).
    - apply (fresh_NoDup kv []); [|constructor]. intros pre x post E. apply (A2 pre x post E).
    - apply (fresh_NoDup ka []); [|constructor]. intros pre x post E. apply (A3 pre x post E).
    - intros pre b post E. apply (A1 pre b post E).
    - intros pre t post E. apply (A2 pre t post E).
    - intros pre a post E. apply (A3 pre a post E).
  Qed.

  (** nothing is handed out that the pool does not hold as a CONNECTED payload *)
  Lemma selection_from_pool_lemma s order :
    RInv bop cont s -> Permutation order (rels s) ->
    incl (o_ctx (gen order)) (vbks s) /\ incl (o_vtbs (gen order)) (svtbs s) /\ incl (o_atvs (gen order)) (satvs s).
  Proof.
    intros I P. destruct (gen_spec order) as [S1 [S2 [S3 _]]]. destruct I.
    repeat split; intros x Hx.
    - apply ri_same. apply (subseq_In _ _ S1) in Hx. apply in_map_iff in Hx. destruct Hx as [r [E Hr]].
      apply in_map_iff. exists r. split; auto. eapply Permutation_in; eauto.
    - apply ri_cv. apply (subseq_In _ _ S2) in Hx. apply in_flat_map in Hx. destruct Hx as [r [Hr Hx]].
      exists r. split; auto. eapply Permutation_in; eauto.
    - apply ri_ca. apply (subseq_In _ _ S3) in Hx. apply in_flat_map in Hx. destruct Hx as [r [Hr Hx]].
      exists r. split; auto. eapply Permutation_in; eauto.
  Qed.

  Lemma selection_valid_lemma order :
    asc hgt (map hdr order) ->
    let out := gen order in
    NoDup (o_ctx out) /\ NoDup (o_vtbs out) /\ NoDup (o_atvs out) /\
    asc hgt (o_ctx out) /\
    (forall pre b post, o_ctx out = pre ++ b :: post ->
       dupB b = false /\ (treeB b = true \/ treeB (par b) = true \/ In (par b) pre)) /\
    (forall t, In t (o_vtbs out) -> dupV t = false /\ (treeB (cont t) = true \/ In (cont t) (o_ctx out))) /\
    (forall a, In a (o_atvs out) -> dupA a = false /\ (treeB (bop a) = true \/ In (bop a) (o_ctx out))).
  Proof.
    intros As. destruct (gen_spec order) as [S1 [S2 [S3 [N1 [N2 [N3 [A1 [A2 A3]]]]]]]]. cbn zeta.
    repeat split; auto.
    - eapply subseq_asc; eauto.
    - specialize (A1 pre b post H). unfold aB, admB in A1. rewrite !andb_true_iff, negb_true_iff in A1. tauto.
    - specialize (A1 pre b post H). unfold aB, admB in A1.
      rewrite !andb_true_iff, !orb_true_iff, rmem_In in A1. tauto.
    - apply in_split in H. destruct H as [pre [post E]]. specialize (A2 pre t post E). unfold aV, admV in A2.
      rewrite !andb_true_iff, negb_true_iff in A2. tauto.
    - apply in_split in H. destruct H as [pre [post E]]. specialize (A2 pre t post E). unfold aV, admV in A2.
      rewrite !andb_true_iff, !orb_true_iff, rmem_In in A2. tauto.
    - apply in_split in H. destruct H as [pre [post E]]. specialize (A3 pre a post E). unfold aA, admA in A3.
      rewrite !andb_true_iff, negb_true_iff in A3. tauto.
    - apply in_split in H. destruct H as [pre [post E]]. specialize (A3 pre a post E). unfold aA, admA in A3.
      rewrite !andb_true_iff, !orb_true_iff, rmem_In in A3. tauto.
  Qed.

  (** assertPopDataFits never fires *)
  Lemma selection_fits_lemma order : 10 <= max_size L -> out_fits szB szV szA L (gen order) = true.
  Proof.
    intros M. unfold gen, generatePop, filterPop, raw. cbn [o_ctx o_vtbs o_atvs]. fold aB aV aA.
    destruct (stage_count L KVbk szB aB (map hdr order) c0 [] (mkk [] [] []) agrees0 (fits0 L M))
      as [r1 [kb [G1 [F1 [E1 [K1 O1]]]]]].
    destruct (stage L KVbk szB aB (map hdr order) c0 []) as [c1 kb'].
    cbn [fst snd app] in *. subst kb'.
    destruct (stage_count L KVtb szV (aV kb) (flat_map rvtbs order) c1 [] r1 G1 F1)
      as [r2 [kv [G2 [F2 [E2 [K2 O2]]]]]].
    destruct (stage L KVtb szV (aV kb) (flat_map rvtbs order) c1 []) as [c2 kv'].
    cbn [fst snd app] in *. subst kv'.
    destruct (stage_count L KAtv szA (aA kb kv) (flat_map ratvs order) c2 [] r2 G2 F2)
      as [r3 [ka [G3 [F3 [E3 [K3 O3]]]]]].
    destruct (stage L KAtv szA (aA kb kv) (flat_map ratvs order) c2 []) as [c3 ka'].
    cbn [fst snd app] in *. subst ka'.
    assert (Hb : k_vbk r3 = rev (map szB kb)).
    { change (k_vbk r3) with (kof KVbk r3). rewrite (O3 KVbk), (O2 KVbk) by discriminate.
      rewrite K1. cbn [kof k_vbk]. apply app_nil_r. }
    assert (Hv : k_vtb r3 = rev (map szV kv)).
    { change (k_vtb r3) with (kof KVtb r3). rewrite (O3 KVtb) by discriminate. rewrite K2.
      rewrite (O1 KVtb) by discriminate. cbn [kof k_vtb]. apply app_nil_r. }
    assert (Ha : k_atv r3 = rev (map szA ka)).
    { change (k_atv r3) with (kof KAtv r3). rewrite K3. rewrite (O2 KAtv), (O1 KAtv) by discriminate.
      cbn [kof k_atv]. apply app_nil_r. }
    unfold fits, est_kept, estimate in F3. rewrite Hb, Hv, Ha in F3.
    rewrite !len_rev_map, !sum_rev in F3.
    unfold out_fits, estimate. cbn [o_ctx o_vtbs o_atvs].
    replace (len (map szB kb)) with (len kb) by (unfold len; rewrite map_length; reflexivity).
    replace (len (map szV kv)) with (len kv) by (unfold len; rewrite map_length; reflexivity).
    replace (len (map szA ka)) with (len ka) by (unfold len; rewrite map_length; reflexivity).
    exact F3.
  Qed.

  (** valid as-is, on the oracles: every payload handed out was admitted by the tree in the state made by exactly the
      payloads handed out before it in body order (context, then VTBs, then ATVs) - the state a block carrying exactly
      this PopData is in when it applies that payload *)
  Lemma selection_replays_lemma order :
    let out := gen order in
    (forall pre b post, o_ctx out = pre ++ b :: post -> admB par treeB dupB okB pre b = true) /\
    (forall pre t post, o_vtbs out = pre ++ t :: post -> admV cont treeB dupV okV (o_ctx out) pre t = true) /\
    (forall pre a post, o_atvs out = pre ++ a :: post ->
                        admA bop treeB dupA okA (o_ctx out) (o_vtbs out) pre a = true).
  Proof. destruct (gen_spec order) as [_ [_ [_ [_ [_ [_ H]]]]]]. exact H. Qed.
End Gen.
