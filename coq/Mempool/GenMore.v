(** generatePopData: the effect on the pool, a sort witness, examples, and the dependence of the result on the
    submission order / on the unspecified order of equal heights. *)
From Coq Require Import List NArith Bool Permutation Lia.
From VB Require Import Mempool.CountDefs Mempool.RelDefs Mempool.RelProofs Mempool.RelMore Mempool.GenDefs
     Mempool.GenProofs.
Import ListNotations.
Local Open Scope N_scope.

(** ** height-sorted permutations exist *)
Section Sort.
  Variable hgt : N -> N.
  Lemma ins_perm r l : Permutation (ins_rel hgt r l) (r :: l).
  Proof.
    induction l as [|x t IH]; cbn [ins_rel]; [apply Permutation_refl|].
    destruct (hgt (hdr r) <? hgt (hdr x)); [apply Permutation_refl|].
    eapply perm_trans; [apply perm_skip, IH|apply perm_swap].
  Qed.
  Lemma ins_asc r l : asc hgt (map hdr l) -> asc hgt (map hdr (ins_rel hgt r l)).
  Proof.
    induction l as [|x t IH]; cbn [ins_rel map asc]; [intros _; split; [intros y []|exact I]|].
    intros [H1 H2]. destruct (N.ltb_spec (hgt (hdr r)) (hgt (hdr x))); cbn [map asc].
    - split; [|split; auto]. intros y [<-|Hy]; [lia|]. specialize (H1 y Hy). lia.
    - split; [|apply IH; auto]. intros y Hy.
      apply (Permutation_in _ (Permutation_map hdr (ins_perm r t))) in Hy. destruct Hy as [<-|Hy]; auto.
  Qed.
  Lemma sort_is_order_lemma rs : is_order hgt rs (sort_rels hgt rs).
  Proof.
    unfold is_order. induction rs as [|r t [P A]]; cbn [sort_rels fold_right]; [split; [constructor|exact I]|].
    split; [|apply ins_asc; exact A].
    eapply perm_trans; [apply ins_perm|apply perm_skip, P].
  Qed.
End Sort.

(** ** the effect of generatePopData on the pool: tryConnectPayloads, then cleanUp. It is NOT the identity (payloads
    whose context arrived are connected, stale ones are dropped) but no payload appears: every ATV / VTB known
    afterwards was known before *)
Lemma generate_pool_effect_lemma (bop cont : N -> N) c o s :
  RInv bop cont s -> DInv s ->
  exists s', generate bop cont c o s = ROk s' /\ RInv bop cont s' /\
    (forall a, KA s' a -> KA s a) /\ (forall t, KV s' t -> KV s t).
Proof.
  intros I D. destruct (rstep_inv bop cont s (Gen c o) I) as [s' [E I']]. exists s'. split; [exact E|].
  split; [exact I'|]. destruct (no_resurrection_lemma bop cont s (Gen c o) s' I D E) as [HA [HV _]].
  split; intros x Hx.
  - destruct (HA x Hx) as [H|[v H]]; [auto|discriminate].
  - destruct (HV x Hx) as [H|[v H]]; [auto|discriminate].
Qed.

(** every reachable pool: everything handed out is a connected payload of the pool *)
Lemma selection_from_pool_run_lemma :
  forall (par bop cont szB szV szA : N -> N) L treeB dupB dupV dupA okB okV okA ops s order,
    rrun bop cont mp0 ops = ROk s -> Permutation order (rels s) ->
    let out := generatePop par bop cont szB szV szA L treeB dupB dupV dupA okB okV okA order in
    incl (o_ctx out) (vbks s) /\ incl (o_vtbs out) (svtbs s) /\ incl (o_atvs out) (satvs s).
Proof.
  intros par bop cont szB szV szA L treeB dupB dupV dupA okB okV okA ops s order E P.
  destruct (rrun_inv bop cont ops mp0 (rinv0 bop cont)) as [s' [E' I]].
  rewrite E in E'. injection E' as <-. exact (selection_from_pool_lemma _ _ _ _ _ _ _ _ _ _ _ _ _ _ s order I P).
Qed.

(** ** examples *)
Definition xhgt (b : N) : N := b.
Definition xpar (b : N) : N := b - 1.
Definition xbop (a : N) : N := 7.
Definition xcont (t : N) : N := 8.
Definition xsz (x : N) : N := 100.
Definition xtree (b : N) : bool := b <=? 6.
Definition nodup (x : N) : bool := false.
Definition xgen (L : limits) (dupA : N -> bool) :=
  generatePop xpar xbop xcont xsz xsz xsz L xtree nodup nodup dupA
              (fun _ _ => true) (fun _ _ _ => true) (fun _ _ _ _ => true).
Definition wide : limits := mkl 10 10 10 100000.

(** the tree knows the VBK blocks up to 6. Connected in the pool: block 8 (submitted first), VTB 3 contained in block 8,
    ATVs 1 and 2 with block of proof 7; ATV 2 is already on the active chain. The result lists 7 before 8 (8 connects
    only through 7), the VTB, and ATV 1 only *)
Lemma gen_example :
  exists s, rrun xbop xcont mp0 [SubB Fine false 8; SubV Fine 3; SubA Fine 1; SubA Fine 2] = ROk s /\
    is_order xhgt (rels s) (sort_rels xhgt (rels s)) /\
    xgen wide (fun a => a =? 2) (sort_rels xhgt (rels s)) = mkout [7; 8] [3] [1] /\
    (* why the sort matters: offered in the order 8, 7 block 8 does not connect and takes its VTB with it *)
    xgen wide (fun a => a =? 2) [mkr 8 [3] []; mkr 7 [] [2; 1]] = mkout [7] [] [1].
Proof.
  eexists. split; [vm_compute; reflexivity|]. split; [apply sort_is_order_lemma|]. split; vm_compute; reflexivity.
Qed.

(** the result depends on the submission order: rel.vtbs is a vector in submission order and the VTB limit cuts it.
    Same pool content as sets, same tree, different PopData *)
Definition one_vtb : limits := mkl 10 1 10 100000.
Lemma order_dependent_example :
  exists s12 s21,
    rrun xbop xcont mp0 [SubB Fine false 7; SubV Fine 1; SubV Fine 2] = ROk s12 /\
    rrun xbop xcont mp0 [SubB Fine false 7; SubV Fine 2; SubV Fine 1] = ROk s21 /\
    (forall x, In x (vbks s12) <-> In x (vbks s21)) /\ (forall x, In x (svtbs s12) <-> In x (svtbs s21)) /\
    satvs s12 = satvs s21 /\ fb s12 = fb s21 /\ fv s12 = fv s21 /\ fa s12 = fa s21 /\
    xgen one_vtb nodup (sort_rels xhgt (rels s12)) = mkout [7; 8] [1] [] /\
    xgen one_vtb nodup (sort_rels xhgt (rels s21)) = mkout [7; 8] [2] [].
Proof.
  eexists. eexists. split; [vm_compute; reflexivity|]. split; [vm_compute; reflexivity|].
  cbn [vbks svtbs satvs fb fv fa]. repeat split; try (vm_compute; reflexivity); simpl; tauto.
Qed.

(** the result depends on the unspecified order of equal heights (relations_ is an unordered_map, std::sort is not
    stable): two fork blocks 5 and 6 of the same height whose common parent is in the tree, block limit 1 - both orders
    are height-sorted permutations of the SAME pool, the results differ *)
Definition one_vbk : limits := mkl 1 10 10 100000.
Definition fork_hgt (b : N) : N := 9.
Definition fork_gen :=
  generatePop (fun _ => 4) xbop xcont xsz xsz xsz one_vbk xtree nodup nodup nodup
              (fun _ _ => true) (fun _ _ _ => true) (fun _ _ _ _ => true).
Lemma equal_height_example :
  let rs := [mkr 5 [] []; mkr 6 [] []] in
  let rs' := [mkr 6 [] []; mkr 5 [] []] in
  is_order fork_hgt rs rs /\ is_order fork_hgt rs rs' /\
  fork_gen rs = mkout [5] [] [] /\ fork_gen rs' = mkout [6] [] [].
Proof.
  cbn zeta. split; [|split; [|split; vm_compute; reflexivity]].
  - split; [apply Permutation_refl|]. simpl. unfold fork_hgt. repeat split; intros; lia.
  - split; [apply perm_swap|]. simpl. unfold fork_hgt. repeat split; intros; lia.
Qed.
