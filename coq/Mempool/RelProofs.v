(** Invariants of the relations bookkeeping (RelDefs) for every operation sequence. *)
From Coq Require Import List NArith Bool Permutation Lia.
From VB Require Import Mempool.RelDefs.
Import ListNotations.
Local Open Scope N_scope.

(** ** key sets *)
Lemma rmem_In x l : rmem x l = true <-> In x l.
Proof.
  unfold rmem. rewrite existsb_exists. split.
  - intros [y [H1 H2]]. apply N.eqb_eq in H2. subst; auto.
  - intros H. exists x. split; auto. apply N.eqb_refl.
Qed.
Lemma rmem_false x l : rmem x l = false <-> ~ In x l.
Proof. rewrite <- rmem_In. destruct (rmem x l); intuition congruence. Qed.

Lemma sadd_In x y l : In y (sadd x l) <-> y = x \/ In y l.
Proof.
  unfold sadd. destruct (rmem x l) eqn:E.
  - apply rmem_In in E. split; [auto|]. intros [->|]; auto.
  - simpl. intuition congruence.
Qed.
Lemma sadd_NoDup x l : NoDup l -> NoDup (sadd x l).
Proof. unfold sadd. destruct (rmem x l) eqn:E; auto. intros. constructor; auto. apply rmem_false; auto. Qed.
Lemma sdel_In x y l : In y (sdel x l) <-> In y l /\ y <> x.
Proof. unfold sdel. rewrite filter_In, negb_true_iff, N.eqb_neq. tauto. Qed.
Lemma sdel_NoDup x l : NoDup l -> NoDup (sdel x l).
Proof. apply NoDup_filter. Qed.
Lemma del_all_In ids y l : In y (del_all ids l) <-> In y l /\ ~ In y ids.
Proof. unfold del_all. rewrite filter_In, negb_true_iff, rmem_false. tauto. Qed.
Lemma del_all_NoDup ids l : NoDup l -> NoDup (del_all ids l).
Proof. apply NoDup_filter. Qed.
Lemma is_nil_true l : is_nil l = true <-> l = [].
Proof. destruct l; simpl; split; congruence. Qed.

Lemma NoDup_map_inj {A B} (f : A -> B) l x y :
  NoDup (map f l) -> In x l -> In y l -> f x = f y -> x = y.
Proof.
  induction l as [|a l IH]; simpl; [tauto|]. intros ND Hx Hy E. inversion ND; subst.
  destruct Hx as [->|Hx], Hy as [->|Hy]; auto.
  - exfalso. apply H1. rewrite E. apply in_map; auto.
  - exfalso. apply H1. rewrite <- E. apply in_map; auto.
Qed.
Lemma NoDup_map_filter {A B} (f : A -> B) g l : NoDup (map f l) -> NoDup (map f (filter g l)).
Proof.
  induction l as [|a l IH]; simpl; auto. intros ND. inversion ND; subst.
  destruct (g a); simpl; auto. constructor; auto.
  intros H. apply H1. apply in_map_iff in H. destruct H as [z [<- Hz]]. apply filter_In in Hz. apply in_map; tauto.
Qed.

(** ** the shape of the invariant *)
Definition covers (proj : rel -> list N) (rs : list rel) (st : list N) : Prop :=
  forall x, In x st <-> exists r, In r rs /\ In x (proj r).
Definition homed (proj : rel -> list N) (key : N -> N) (rs : list rel) : Prop :=
  forall r x, In r rs -> In x (proj r) -> key x = hdr r.

Lemma has_rel_In b rs : has_rel b rs = true <-> In b (map hdr rs).
Proof.
  unfold has_rel. rewrite existsb_exists, in_map_iff. split; intros [r [H1 H2]]; exists r.
  - apply N.eqb_eq in H2. tauto.
  - rewrite H1, N.eqb_refl. tauto.
Qed.

(** shrinking every relation with [g] (None = the relation is erased) *)
Definition keep (g : rel -> option rel) (rs : list rel) : list rel :=
  flat_map (fun r => match g r with None => [] | Some x => [x] end) rs.
Definition dropped (g : rel -> option rel) (rs : list rel) : list N :=
  map hdr (filter (fun r => is_none (g r)) rs).

Lemma keep_In g rs r' : In r' (keep g rs) <-> exists r, In r rs /\ g r = Some r'.
Proof.
  unfold keep. rewrite in_flat_map. split; intros [r [H1 H2]]; exists r; split; auto.
  - destruct (g r); simpl in H2; [|tauto]. destruct H2 as [->|[]]; auto.
  - rewrite H2. simpl; auto.
Qed.

Section Keep.
  Variable g : rel -> option rel.
  Hypothesis g_hdr : forall r r', g r = Some r' -> hdr r' = hdr r.

  Lemma keep_hdr rs : map hdr (keep g rs) = map hdr (filter (fun r => negb (is_none (g r))) rs).
  Proof.
    induction rs as [|r rs IH]; simpl; auto. destruct (g r) eqn:E; simpl; auto.
    rewrite IH. f_equal. apply g_hdr; auto.
  Qed.
  Lemma keep_keys rs : NoDup (map hdr rs) -> NoDup (map hdr (keep g rs)).
  Proof. rewrite keep_hdr. apply NoDup_map_filter. Qed.

  Lemma keep_same rs vb :
    NoDup (map hdr rs) -> (forall b, In b vb <-> In b (map hdr rs)) ->
    forall b, In b (del_all (dropped g rs) vb) <-> In b (map hdr (keep g rs)).
  Proof.
    intros ND Hs b. rewrite del_all_In, Hs, keep_hdr. unfold dropped. rewrite !in_map_iff. split.
    - intros [[r [<- Hr]] Hn]. exists r. split; auto. apply filter_In. split; auto.
      destruct (is_none (g r)) eqn:E; auto. exfalso. apply Hn. exists r. split; auto. apply filter_In; auto.
    - intros [r [<- Hr]]. apply filter_In in Hr. destruct Hr as [Hr Hk]. split; [exists r; auto|].
      intros [r2 [E2 H2]]. apply filter_In in H2. destruct H2 as [H2 Hd].
      assert (r2 = r) by (eapply NoDup_map_inj; eauto). subst. rewrite Hd in Hk. discriminate.
  Qed.

  Variable proj : rel -> list N.
  Variable key : N -> N.
  Variable er : rel -> list N.
  Hypothesis er_sub : forall r x, In x (er r) -> In x (proj r).
  Hypothesis split_all : forall r x, In x (proj r) -> In x (er r) \/ exists r', g r = Some r' /\ In x (proj r').
  Hypothesis kept_sub : forall r r' x, g r = Some r' -> In x (proj r') -> In x (proj r) /\ ~ In x (er r).

  Lemma keep_covers rs st :
    NoDup (map hdr rs) -> homed proj key rs -> covers proj rs st ->
    covers proj (keep g rs) (del_all (flat_map er rs) st).
  Proof.
    intros ND Hh Hc x. rewrite del_all_In, in_flat_map. split.
    - intros [Hx Hn]. apply Hc in Hx. destruct Hx as [r [Hr Hx]].
      destruct (split_all r x Hx) as [He|[r' [Eg Hx']]].
      + exfalso. apply Hn. exists r; auto.
      + exists r'. split; auto. apply keep_In. exists r; auto.
    - intros [r' [Hr' Hx']]. apply keep_In in Hr'. destruct Hr' as [r [Hr Eg]].
      destruct (kept_sub r r' x Eg Hx') as [Hx Hne]. split.
      + apply Hc. exists r; auto.
      + intros [r2 [Hr2 He2]]. assert (r2 = r).
        { eapply NoDup_map_inj; eauto. rewrite <- (Hh r2 x Hr2 (er_sub _ _ He2)). apply Hh; auto. }
        subst. auto.
  Qed.
  Lemma keep_homed rs : homed proj key rs -> homed proj key (keep g rs).
  Proof.
    intros Hh r' x Hr' Hx'. apply keep_In in Hr'. destruct Hr' as [r [Hr Eg]].
    rewrite (g_hdr _ _ Eg). apply Hh; auto. eapply kept_sub; eauto.
  Qed.
End Keep.

Section Inv.
  Variable bop cont : N -> N.

  Record RInv (s : mp) : Prop := mkRI {
    ri_keys : NoDup (map hdr (rels s));
    ri_vb : NoDup (vbks s);
    ri_same : forall b, In b (vbks s) <-> In b (map hdr (rels s));
    ri_cv : covers rvtbs (rels s) (svtbs s);
    ri_ca : covers ratvs (rels s) (satvs s);
    ri_hv : homed rvtbs cont (rels s);
    ri_ha : homed ratvs bop (rels s);
    ri_sv : NoDup (svtbs s);
    ri_sa : NoDup (satvs s);
    ri_fb : NoDup (fb s);
    ri_fv : NoDup (fv s);
    ri_fa : NoDup (fa s) }.

  Lemma rinv0 : RInv mp0.
  Proof.
    constructor; unfold covers, homed; simpl; try apply NoDup_nil.
    - tauto.
    - intros x; split; [tauto|intros [r [[] _]]].
    - intros x; split; [tauto|intros [r [[] _]]].
    - intros r x [].
    - intros r x [].
  Qed.

  (** *** getOrPutVbkRelation *)
  Lemma put_rel_has b s : In b (map hdr (rels (put_rel b s))).
  Proof.
    unfold put_rel; simpl. destruct (has_rel b (rels s)) eqn:E; simpl; auto. apply has_rel_In; auto.
  Qed.
  Lemma put_rel_inv b s : RInv s -> RInv (put_rel b s).
  Proof.
    intros [K VB SM CV CA HV HA SV SA FB FV FA]. unfold put_rel.
    constructor; simpl; auto using sadd_NoDup.
    - destruct (has_rel b (rels s)) eqn:E; simpl; auto.
      constructor; auto. intros H. apply has_rel_In in H. congruence.
    - intros b'. rewrite sadd_In, SM. destruct (has_rel b (rels s)) eqn:E; simpl.
      + apply has_rel_In in E. split; [intros [->|]|]; auto.
      + split; intros [H|H]; auto.
    - intros x. rewrite (CV x). destruct (has_rel b (rels s)); [tauto|]. split; intros [r [H1 H2]].
      + exists r; simpl; auto.
      + destruct H1 as [<-|H1]; [destruct H2|]. exists r; auto.
    - intros x. rewrite (CA x). destruct (has_rel b (rels s)); [tauto|]. split; intros [r [H1 H2]].
      + exists r; simpl; auto.
      + destruct H1 as [<-|H1]; [destruct H2|]. exists r; auto.
    - destruct (has_rel b (rels s)); auto. intros r x [<-|Hr] Hx; [destruct Hx|]. apply HV; auto.
    - destruct (has_rel b (rels s)); auto. intros r x [<-|Hr] Hx; [destruct Hx|]. apply HA; auto.
  Qed.

  (** *** adding a payload to the relation of its block *)
  Lemma on_rel_In b f rs r' :
    In r' (on_rel b f rs) <-> exists r, In r rs /\ r' = (if hdr r =? b then f r else r).
  Proof. unfold on_rel. rewrite in_map_iff. split; intros [r [H1 H2]]; exists r; auto. Qed.
  Lemma on_rel_hdr b f rs : (forall r, hdr (f r) = hdr r) -> map hdr (on_rel b f rs) = map hdr rs.
  Proof.
    intros Hf. unfold on_rel. rewrite map_map. apply map_ext. intros r. destruct (hdr r =? b); auto.
  Qed.

  Section OnRel.
    Variable proj : rel -> list N.
    Variable key : N -> N.
    Variable f : rel -> rel.
    Variable t : N.
    Hypothesis f_hdr : forall r, hdr (f r) = hdr r.

    Lemma on_rel_covers_add b rs st :
      (forall r x, In x (proj (f r)) <-> x = t \/ In x (proj r)) ->
      In b (map hdr rs) -> covers proj rs st -> covers proj (on_rel b f rs) (sadd t st).
    Proof.
      intros Hf Hb Hc x. rewrite sadd_In. split.
      - intros [->|Hx].
        + apply in_map_iff in Hb. destruct Hb as [r [E Hr]]. exists (f r). split.
          * apply on_rel_In. exists r. split; auto. rewrite E, N.eqb_refl. auto.
          * apply Hf; auto.
        + apply Hc in Hx. destruct Hx as [r [Hr Hx]].
          exists (if hdr r =? b then f r else r). split; [apply on_rel_In; exists r; auto|].
          destruct (hdr r =? b); auto. apply Hf; auto.
      - intros [r' [Hr' Hx]]. apply on_rel_In in Hr'. destruct Hr' as [r [Hr ->]].
        destruct (hdr r =? b).
        + apply Hf in Hx. destruct Hx as [->|Hx]; auto. right. apply Hc. exists r; auto.
        + right. apply Hc. exists r; auto.
    Qed.
    Lemma on_rel_covers_same b rs st :
      (forall r, proj (f r) = proj r) -> covers proj rs st -> covers proj (on_rel b f rs) st.
    Proof.
      intros Hf Hc x. rewrite (Hc x). split.
      - intros [r [Hr Hx]]. exists (if hdr r =? b then f r else r). split; [apply on_rel_In; exists r; auto|].
        destruct (hdr r =? b); auto. rewrite Hf; auto.
      - intros [r' [Hr' Hx]]. apply on_rel_In in Hr'. destruct Hr' as [r [Hr ->]]. exists r. split; auto.
        destruct (hdr r =? b); auto. rewrite Hf in Hx; auto.
    Qed.
    Lemma on_rel_homed_add b rs :
      (forall r x, In x (proj (f r)) <-> x = t \/ In x (proj r)) ->
      key t = b -> homed proj key rs -> homed proj key (on_rel b f rs).
    Proof.
      intros Hf Hk Hh r' x Hr' Hx. apply on_rel_In in Hr'. destruct Hr' as [r [Hr ->]].
      destruct (hdr r =? b) eqn:E; [|apply Hh; auto]. rewrite f_hdr. apply Hf in Hx.
      destruct Hx as [->|Hx]; [|apply Hh; auto]. apply N.eqb_eq in E. congruence.
    Qed.
    Lemma on_rel_homed_same b rs :
      (forall r, proj (f r) = proj r) -> homed proj key rs -> homed proj key (on_rel b f rs).
    Proof.
      intros Hf Hh r' x Hr' Hx. apply on_rel_In in Hr'. destruct Hr' as [r [Hr ->]].
      destruct (hdr r =? b); [|apply Hh; auto]. rewrite f_hdr. rewrite Hf in Hx. apply Hh; auto.
    Qed.
  End OnRel.

  Lemma add_vtb_In t r x : In x (rvtbs (add_vtb t r)) <-> x = t \/ In x (rvtbs r).
  Proof. simpl. rewrite in_app_iff. simpl. split; [intros [H|[H|[]]]|intros [H|H]]; auto. Qed.
  Lemma add_atv_In a r x : In x (ratvs (add_atv a r)) <-> x = a \/ In x (ratvs r).
  Proof. simpl. split; intros [H|H]; auto. Qed.

  Lemma submitA_inv v a s : RInv s -> RInv (submitA bop v a s).
  Proof.
    intros I. destruct v; simpl; auto.
    - destruct I. constructor; simpl; auto using sadd_NoDup.
    - pose proof (put_rel_has (bop a) s) as Hb. destruct (put_rel_inv (bop a) s I).
      set (s1 := put_rel (bop a) s) in *.
      constructor; simpl; auto using sadd_NoDup, sdel_NoDup.
      + rewrite on_rel_hdr; auto.
      + rewrite on_rel_hdr; auto.
      + apply on_rel_covers_same; auto.
      + apply on_rel_covers_add; auto. apply add_atv_In.
      + apply on_rel_homed_same; auto.
      + apply on_rel_homed_add with (t := a); auto. apply add_atv_In.
  Qed.
  Lemma submitV_inv v t s : RInv s -> RInv (submitV cont v t s).
  Proof.
    intros I. destruct v; simpl; auto.
    - destruct I. constructor; simpl; auto using sadd_NoDup.
    - pose proof (put_rel_has (cont t) s) as Hb. destruct (put_rel_inv (cont t) s I).
      set (s1 := put_rel (cont t) s) in *.
      constructor; simpl; auto using sadd_NoDup, sdel_NoDup.
      + rewrite on_rel_hdr; auto.
      + rewrite on_rel_hdr; auto.
      + apply on_rel_covers_add; auto. apply add_vtb_In.
      + apply on_rel_covers_same; auto.
      + apply on_rel_homed_add with (t := t); auto. apply add_vtb_In.
      + apply on_rel_homed_same; auto.
  Qed.
  Lemma submitB_inv v st b s : RInv s -> RInv (submitB v st b s).
  Proof.
    intros I. destruct v; simpl; auto.
    - destruct I. constructor; simpl; auto using sadd_NoDup.
    - assert (I1 : RInv (if st then s else put_rel b s)) by (destruct st; auto using put_rel_inv).
      destruct I1. constructor; simpl; auto using sdel_NoDup.
  Qed.

  Lemma fold_inv {A} (P : mp -> Prop) (f : mp -> A -> mp) l :
    (forall s x, P s -> P (f s x)) -> forall s, P s -> P (fold_left f l s).
  Proof. intros Hf. induction l; simpl; auto. Qed.

  Lemma tryConnect_inv c s : RInv s -> RInv (tryConnect bop cont c s).
  Proof.
    intros I. unfold tryConnect, passA, passV, passB.
    apply fold_inv; [intros; apply submitA_inv; auto|].
    apply fold_inv; [intros; apply submitV_inv; auto|].
    apply fold_inv; [intros; apply submitB_inv; auto|]. auto.
  Qed.

  (** *** cleanUp *)
  Lemma is_nil_In x l : In x l -> is_nil l = false.
  Proof. destruct l; simpl; auto. intros []. Qed.

  Lemma cl_rel_hdr o r r' : cl_rel o r = Some r' -> hdr r' = hdr r.
  Proof.
    unfold cl_rel. destruct (tooOld o (hdr r) && is_nil (rvtbs r)); [discriminate|].
    match goal with |- context [if ?c then None else _] => destruct c end; [discriminate|].
    intros [= <-]. reflexivity.
  Qed.
  Lemma cl_ev_sub o r x : In x (cl_ev o r) -> In x (rvtbs r).
  Proof. unfold cl_ev. rewrite filter_In. tauto. Qed.
  Lemma cl_ev_split o r x :
    In x (rvtbs r) -> In x (cl_ev o r) \/ exists r', cl_rel o r = Some r' /\ In x (rvtbs r').
  Proof.
    intros Hx. destruct (validV o x) eqn:V.
    - right. unfold cl_rel. rewrite (is_nil_In x _ Hx), andb_false_r.
      assert (Hf : In x (filter (validV o) (rvtbs r))) by (apply filter_In; auto).
      rewrite (is_nil_In x _ Hf). simpl. rewrite andb_false_r. eexists. split; [reflexivity|]. simpl; auto.
    - left. unfold cl_ev. apply filter_In. rewrite V. auto.
  Qed.
  Lemma cl_ev_kept o r r' x : cl_rel o r = Some r' -> In x (rvtbs r') -> In x (rvtbs r) /\ ~ In x (cl_ev o r).
  Proof.
    unfold cl_rel, cl_ev. destruct (tooOld o (hdr r) && is_nil (rvtbs r)); [discriminate|].
    match goal with |- context [if ?c then None else _] => destruct c end; [discriminate|].
    intros [= <-]. simpl. rewrite !filter_In. intros [H1 H2]. split; auto. rewrite H2. simpl. intros [_ H]; discriminate.
  Qed.
  Lemma cl_ea_sub o r x : In x (cl_ea o r) -> In x (ratvs r).
  Proof. unfold cl_ea. destruct (tooOld o (hdr r)); auto. rewrite filter_In. tauto. Qed.
  Lemma cl_ea_split o r x :
    In x (ratvs r) -> In x (cl_ea o r) \/ exists r', cl_rel o r = Some r' /\ In x (ratvs r').
  Proof.
    intros Hx. unfold cl_ea, cl_rel, cl_atvs0. destruct (tooOld o (hdr r)) eqn:T; auto.
    destruct (validA o x) eqn:V.
    - right. simpl.
      assert (Hf : In x (filter (validA o) (ratvs r))) by (apply filter_In; auto).
      rewrite (is_nil_In x _ Hf). rewrite !andb_false_r. eexists. split; [reflexivity|]. simpl; auto.
    - left. apply filter_In. rewrite V. auto.
  Qed.
  Lemma cl_ea_kept o r r' x : cl_rel o r = Some r' -> In x (ratvs r') -> In x (ratvs r) /\ ~ In x (cl_ea o r).
  Proof.
    unfold cl_rel, cl_ea, cl_atvs0. destruct (tooOld o (hdr r) && is_nil (rvtbs r)); [discriminate|].
    match goal with |- context [if ?c then None else _] => destruct c end; [discriminate|].
    intros [= <-]. simpl. destruct (tooOld o (hdr r)); simpl; [tauto|].
    rewrite !filter_In. intros [H1 H2]. split; auto. rewrite H2. simpl. intros [_ H]; discriminate.
  Qed.

  Lemma len_same rs vb :
    NoDup (map hdr rs) -> NoDup vb -> (forall b, In b vb <-> In b (map hdr rs)) -> length rs = length vb.
  Proof.
    intros. rewrite <- (map_length hdr rs). apply Permutation_length. apply NoDup_Permutation; auto.
    intros; symmetry; auto.
  Qed.

  Definition clean_state (o : oracle) (s : mp) : mp :=
    mkm (keep (cl_rel o) (rels s)) (del_all (dropped (cl_rel o) (rels s)) (vbks s))
        (del_all (flat_map (cl_ev o) (rels s)) (svtbs s)) (del_all (flat_map (cl_ea o) (rels s)) (satvs s))
        (filter (validB o) (fb s)) (filter (validV o) (fv s)) (filter (validA o) (fa s)).

  Lemma clean_state_inv o s : RInv s -> RInv (clean_state o s).
  Proof.
    intros [K VB SM CV CA HV HA SV SA FB FV FA].
    constructor; simpl; auto using del_all_NoDup, NoDup_filter.
    - apply keep_keys; eauto using cl_rel_hdr.
    - apply keep_same; eauto using cl_rel_hdr.
    - apply keep_covers with (key := cont); eauto using cl_ev_sub, cl_ev_split, cl_ev_kept.
    - apply keep_covers with (key := bop); eauto using cl_ea_sub, cl_ea_split, cl_ea_kept.
    - apply keep_homed with (er := cl_ev o); eauto using cl_rel_hdr, cl_ev_kept.
    - apply keep_homed with (er := cl_ea o); eauto using cl_rel_hdr, cl_ea_kept.
  Qed.
  Lemma cleanUp_ok o s : RInv s -> cleanUp o s = ROk (clean_state o s).
  Proof.
    intros I. destruct (clean_state_inv o s I). unfold cleanUp.
    change (kept_rels o (rels s)) with (keep (cl_rel o) (rels s)).
    change (erased_blocks o (rels s)) with (dropped (cl_rel o) (rels s)).
    fold (clean_state o s). rewrite (len_same _ _ ri_keys0 ri_vb0 ri_same0), PeanoNat.Nat.eqb_refl. reflexivity.
  Qed.

  (** *** removeAll *)
  Lemma rm_rel_hdr pb pv pa r r' : rm_rel pb pv pa r = Some r' -> hdr r' = hdr r.
  Proof.
    unfold rm_rel. match goal with |- context [if ?c then None else _] => destruct c end; [discriminate|].
    intros [= <-]. reflexivity.
  Qed.
  Definition rm_ev (pv : list N) (r : rel) : list N := filter (fun t => rmem t pv) (rvtbs r).
  Definition rm_ea (pa : list N) (r : rel) : list N := filter (fun a => rmem a pa) (ratvs r).
  Lemma rm_ev_sub pv r x : In x (rm_ev pv r) -> In x (rvtbs r).
  Proof. unfold rm_ev. rewrite filter_In. tauto. Qed.
  Lemma rm_ea_sub pa r x : In x (rm_ea pa r) -> In x (ratvs r).
  Proof. unfold rm_ea. rewrite filter_In. tauto. Qed.
  Lemma rm_ev_split pb pv pa r x :
    In x (rvtbs r) -> In x (rm_ev pv r) \/ exists r', rm_rel pb pv pa r = Some r' /\ In x (rvtbs r').
  Proof.
    intros Hx. destruct (rmem x pv) eqn:V.
    - left. apply filter_In; auto.
    - right. unfold rm_rel.
      assert (Hf : In x (filter (fun t => negb (rmem t pv)) (rvtbs r))) by (apply filter_In; rewrite V; auto).
      rewrite (is_nil_In x _ Hf). simpl. rewrite andb_false_r. eexists. split; [reflexivity|]. simpl; auto.
  Qed.
  Lemma rm_ea_split pb pv pa r x :
    In x (ratvs r) -> In x (rm_ea pa r) \/ exists r', rm_rel pb pv pa r = Some r' /\ In x (ratvs r').
  Proof.
    intros Hx. destruct (rmem x pa) eqn:V.
    - left. apply filter_In; auto.
    - right. unfold rm_rel.
      assert (Hf : In x (filter (fun t => negb (rmem t pa)) (ratvs r))) by (apply filter_In; rewrite V; auto).
      rewrite (is_nil_In x _ Hf). rewrite !andb_false_r. eexists. split; [reflexivity|]. simpl; auto.
  Qed.
  Lemma rm_ev_kept pb pv pa r r' x :
    rm_rel pb pv pa r = Some r' -> In x (rvtbs r') -> In x (rvtbs r) /\ ~ In x (rm_ev pv r).
  Proof.
    unfold rm_rel, rm_ev. match goal with |- context [if ?c then None else _] => destruct c end; [discriminate|].
    intros [= <-]. simpl. rewrite !filter_In. intros [H1 H2]. split; auto. intros [_ H]. rewrite H in H2. discriminate.
  Qed.
  Lemma rm_ea_kept pb pv pa r r' x :
    rm_rel pb pv pa r = Some r' -> In x (ratvs r') -> In x (ratvs r) /\ ~ In x (rm_ea pa r).
  Proof.
    unfold rm_rel, rm_ea. match goal with |- context [if ?c then None else _] => destruct c end; [discriminate|].
    intros [= <-]. simpl. rewrite !filter_In. intros [H1 H2]. split; auto. intros [_ H]. rewrite H in H2. discriminate.
  Qed.

  Lemma dropPop_shape pb pv pa s :
    dropPop pb pv pa s =
    mkm (keep (rm_rel pb pv pa) (rels s)) (del_all (dropped (rm_rel pb pv pa) (rels s)) (vbks s))
        (del_all (flat_map (rm_ev pv) (rels s)) (svtbs s)) (del_all (flat_map (rm_ea pa) (rels s)) (satvs s))
        (fb s) (fv s) (fa s).
  Proof. reflexivity. Qed.

  Lemma dropPop_inv pb pv pa s : RInv s -> RInv (dropPop pb pv pa s).
  Proof.
    intros [K VB SM CV CA HV HA SV SA FB FV FA]. rewrite dropPop_shape.
    constructor; simpl; auto using del_all_NoDup.
    - apply keep_keys; eauto using rm_rel_hdr.
    - apply keep_same; eauto using rm_rel_hdr.
    - apply keep_covers with (key := cont); eauto using rm_ev_sub, rm_ev_split, rm_ev_kept.
    - apply keep_covers with (key := bop); eauto using rm_ea_sub, rm_ea_split, rm_ea_kept.
    - apply keep_homed with (er := rm_ev pv); eauto using rm_rel_hdr, rm_ev_kept.
    - apply keep_homed with (er := rm_ea pa); eauto using rm_rel_hdr, rm_ea_kept.
  Qed.

  (** *** every operation, every sequence *)
  Lemma rstep_inv s op : RInv s -> exists s', rstep bop cont s op = ROk s' /\ RInv s'.
  Proof.
    intros I. destruct op; simpl.
    - eexists; split; eauto using submitA_inv.
    - eexists; split; eauto using submitV_inv.
    - eexists; split; eauto using submitB_inv.
    - unfold generate. pose proof (tryConnect_inv c s I) as I1. rewrite cleanUp_ok by auto.
      eexists; split; eauto using clean_state_inv.
    - unfold removeAll. pose proof (dropPop_inv pb pv pa s I) as I1. rewrite cleanUp_ok by auto.
      eexists; split; eauto using clean_state_inv, tryConnect_inv.
    - rewrite cleanUp_ok by auto. eexists; split; eauto using clean_state_inv.
    - eexists; split; eauto using rinv0.
  Qed.
  Lemma rrun_inv ops : forall s, RInv s -> exists s', rrun bop cont s ops = ROk s' /\ RInv s'.
  Proof.
    induction ops as [|op ops IH]; simpl; intros s I; [eauto|].
    destruct (rstep_inv s op I) as [s1 [E I1]]. rewrite E. auto.
  Qed.
End Inv.
