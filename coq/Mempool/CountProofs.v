From Coq Require Import List NArith Bool Lia.
From VB Require Import Mempool.CountDefs.
Import ListNotations.
Local Open Scope N_scope.

Definition agrees (c : counter) (r : kept) : Prop :=
  n_vbk c = len (k_vbk r) /\ n_vtb c = len (k_vtb r) /\ n_atv c = len (k_atv r) /\
  s_vbk c = sum (k_vbk r) /\ s_vtb c = sum (k_vtb r) /\ s_atv c = sum (k_atv r).

Lemma len_cons x l : len (x :: l) = len l + 1.
Proof. unfold len. cbn [length]. lia. Qed.

Lemma agrees_step c r k size : agrees c r -> agrees (update c k size) (keep r k size).
Proof.
  intros (A & B & C & D & E & F). destruct k; unfold agrees; cbn [update keep n_vbk n_vtb n_atv s_vbk s_vtb s_atv k_vbk k_vtb k_atv];
    rewrite ?len_cons; cbn [sum fold_right]; unfold sum in *; repeat split; lia.
Qed.

Lemma filter_fit_agrees L cands : forall c r, agrees c r ->
  agrees (fst (filter_fit L cands c r)) (snd (filter_fit L cands c r)).
Proof.
  induction cands as [|[[k size] valid] rest IH]; intros c r A; cbn [filter_fit]; [exact A|].
  destruct (can_fit L c k size && valid); [apply IH, agrees_step, A | apply IH, A].
Qed.

Lemma popsize_estimate c r : agrees c r -> popsize c = est_kept r.
Proof.
  intros (A & B & C & D & E & F). unfold popsize, est_kept, estimate. rewrite A, B, C, D, E, F. lia.
Qed.

(** the running figure of CountingContext is the estimateSize of what has been kept so far *)
Lemma counting_exact_lemma L cands :
  let '(c, r) := filter_fit L cands c0 (mkk [] [] []) in popsize c = est_kept r.
Proof.
  pose proof (filter_fit_agrees L cands c0 (mkk [] [] [])) as H.
  destruct (filter_fit L cands c0 (mkk [] [] [])) as [c r]. cbn [fst snd] in H.
  apply popsize_estimate, H. unfold agrees. cbn. repeat split; reflexivity.
Qed.

(** as long as every count stays below 256 (no length prefix grows) the kept PopData fits: counts and bytes *)
Definition small (r : kept) : Prop := len (k_vbk r) < 256 /\ len (k_vtb r) < 256 /\ len (k_atv r) < 256.

Lemma prefix_small n : n < 256 -> prefix n = 2.
Proof. intro H. unfold prefix, trimmed_len. apply N.ltb_lt in H. rewrite H. reflexivity. Qed.

Lemma filter_fit_fits L cands : forall c r,
  agrees c r -> fits L r = true ->
  small (snd (filter_fit L cands c r)) ->
  fits L (snd (filter_fit L cands c r)) = true.
Proof.
  induction cands as [|[[k size] valid] rest IH]; intros c r A F Sm; cbn [filter_fit] in *; [exact F|].
  destruct (can_fit L c k size && valid) eqn:CF; [|apply IH; assumption].
  apply IH; [apply agrees_step, A | | exact Sm].
  apply andb_true_iff in CF. destruct CF as [CF _]. unfold can_fit in CF. apply andb_true_iff in CF. destruct CF as [Cn Cs].
  (* the lists only grow, so the counts before this step are small as well *)
  assert (small (keep r k size)) as Sk.
  { clear - Sm. revert Sm. generalize (update c k size) (keep r k size). intros c1 r1. revert c1 r1.
    induction rest as [|[[k' size'] valid'] rest' IH']; intros c1 r1; cbn [filter_fit snd]; [tauto|].
    destruct (can_fit L c1 k' size' && valid').
    - intro H. specialize (IH' _ _ H). unfold small in *. destruct k'; cbn [keep k_vbk k_vtb k_atv] in IH'; rewrite ?len_cons in IH'; lia.
    - apply IH'. }
  pose proof (popsize_estimate c r A) as PE.
  destruct A as (A1 & A2 & A3 & A4 & A5 & A6).
  unfold fits in *. apply andb_true_iff in F. destruct F as [F Fs]. apply andb_true_iff in F. destruct F as [F F3].
  apply andb_true_iff in F. destruct F as [F1 F2].
  apply N.leb_le in F1, F2, F3, Fs, Cs.
  unfold small in Sk.
  destruct k; cbn [keep k_vbk k_vtb k_atv] in *; rewrite ?len_cons in *; apply N.ltb_lt in Cn;
    repeat (apply andb_true_iff; split); apply N.leb_le; try lia;
    unfold est_kept, estimate in *; cbn [k_vbk k_vtb k_atv] in *; rewrite ?len_cons;
    unfold popsize in *; rewrite A1, A2, A3, A4, A5, A6 in *;
    cbn [sum fold_right]; unfold sum in *;
    destruct Sk as (S1 & S2 & S3);
    rewrite ?(prefix_small (len _ + 1)) by lia;
    rewrite ?(prefix_small (len (k_vbk r))), ?(prefix_small (len (k_vtb r))), ?(prefix_small (len (k_atv r))) in * by lia;
    lia.
Qed.

Lemma generated_fits_lemma L cands :
  10 <= max_size L ->
  small (snd (filter_fit L cands c0 (mkk [] [] []))) ->
  fits L (snd (filter_fit L cands c0 (mkk [] [] []))) = true.
Proof.
  intros M Sm. apply filter_fit_fits; [unfold agrees; cbn; repeat split; reflexivity | | exact Sm].
  unfold fits. cbn [k_vbk k_vtb k_atv].
  replace (est_kept {| k_vbk := []; k_vtb := []; k_atv := [] |}) with 10 by reflexivity.
  replace (len []) with 0 by reflexivity.
  rewrite !andb_true_iff. repeat split; apply N.leb_le; lia.
Qed.

(** without the bound on the counts the statement is false: the 256th payload of a kind makes the length prefix
    one byte longer, which canFit does not account for (it prices the prefix of the CURRENT count) *)
Definition witness_cands : list (kind * N * bool) := repeat (KAtv, 1, true) 256.
Definition witness_limits : limits := mkl 200 200 1000 266.
Lemma counting_prefix_refuted_lemma :
  fits witness_limits (snd (filter_fit witness_limits witness_cands c0 (mkk [] [] []))) = false /\
  len (k_atv (snd (filter_fit witness_limits witness_cands c0 (mkk [] [] [])))) = 256.
Proof. split; vm_compute; reflexivity. Qed.

(** ** the temporary block leaves no trace *)
Section M.
  Variable S P : Type.
  Variable add_temp remove_temp : S -> S.
  Variable exec : P -> S -> option S.
  Variable unexec : P -> S -> S.
  Hypothesis temp_inverse : forall s, remove_temp (add_temp s) = s.
  Hypothesis exec_inverse : forall p s s', exec p s = Some s' -> unexec p s' = s.

  Lemma apply_unapply ps : forall s ap,
    unapply_all S P unexec (snd (apply_all S P exec ps s ap)) (fst (apply_all S P exec ps s ap)) =
    unapply_all S P unexec ap s.
  Proof.
    induction ps as [|p r IH]; intros s ap; cbn [apply_all]; [reflexivity|].
    destruct (exec p s) as [s'|] eqn:E; [|apply IH].
    rewrite IH. cbn [unapply_all]. rewrite (exec_inverse _ _ _ E). reflexivity.
  Qed.

  Lemma generate_pure_lemma s ps : generate_machine S P add_temp remove_temp exec unexec s ps = s.
  Proof.
    unfold generate_machine. pose proof (apply_unapply ps (add_temp s) []) as H.
    destruct (apply_all S P exec ps (add_temp s) []) as [s1 ap]. cbn [fst snd] in H.
    rewrite H. cbn [unapply_all]. apply temp_inverse.
  Qed.
End M.

(** the hypotheses are satisfiable by a non-trivial machine: a counter with a temp flag *)
Example machine_instance :
  generate_machine (N * bool) N (fun s => (fst s, true)) (fun s => (fst s, false))
                   (fun p s => if p <? 10 then Some (fst s + p, snd s) else None)
                   (fun p s => (fst s - p, snd s)) (5, false) [1; 20; 3] = (5, false).
Proof. vm_compute. reflexivity. Qed.
