From Coq Require Import List NArith Bool Lia.
From VB Require Import Mempool.CountDefs.
Import ListNotations.
Local Open Scope N_scope.

Definition agrees (c : counter) (r : kept) : Prop :=
  n_vbk c = len (k_vbk r) /\ n_vtb c = len (k_vtb r) /\ n_atv c = len (k_atv r) /\
  s_vbk c = sum (k_vbk r) /\ s_vtb c = sum (k_vtb r) /\ s_atv c = sum (k_atv r).

Lemma len_cons x l : len (x :: l) = len l + 1.
Proof. unfold len. cbn [length]. lia. Qed.

Lemma agrees_step c r k size : agrees c r -> agrees (update c k size) (keep r k size).
Proof.
  intros (A & B & C & D & E & F). destruct k; unfold agrees; cbn [update keep n_vbk n_vtb n_atv s_vbk s_vtb s_atv k_vbk k_vtb k_atv];
    rewrite ?len_cons; cbn [sum fold_right]; unfold sum in *; repeat split; lia.
Qed.

Lemma filter_fit_agrees cf L cands : forall c r, agrees c r ->
  agrees (fst (filter_fit_with cf L cands c r)) (snd (filter_fit_with cf L cands c r)).
Proof.
  induction cands as [|[[k size] valid] rest IH]; intros c r A; cbn [filter_fit_with]; [exact A|].
  destruct (cf L c k size && valid); [apply IH, agrees_step, A | apply IH, A].
Qed.

Lemma popsize_estimate c r : agrees c r -> popsize c = est_kept r.
Proof.
  intros (A & B & C & D & E & F). unfold popsize, est_kept, estimate. rewrite A, B, C, D, E, F. lia.
Qed.

Lemma agrees0 : agrees c0 (mkk [] [] []).
Proof. unfold agrees. cbn. repeat split; reflexivity. Qed.

(** the running figure of CountingContext is the estimateSize of what has been kept so far (for either canFit) *)
Lemma counting_exact_lemma L cands :
  let '(c, r) := filter_fit L cands c0 (mkk [] [] []) in popsize c = est_kept r.
Proof.
  pose proof (filter_fit_agrees can_fit L cands c0 (mkk [] [] []) agrees0) as H. unfold filter_fit.
  destruct (filter_fit_with can_fit L cands c0 (mkk [] [] [])) as [c r]. cbn [fst snd] in H.
  apply popsize_estimate, H.
Qed.

(** the length prefix never shrinks *)
Lemma trimmed_len_mono n : trimmed_len n <= trimmed_len (n + 1).
Proof.
  unfold trimmed_len.
  repeat (match goal with |- context [?a <? ?b] => destruct (N.ltb_spec a b) end; try lia).
Qed.
Lemma growth_exact n : prefix n + growth n = prefix (n + 1).
Proof. unfold growth, prefix. pose proof (trimmed_len_mono n). lia. Qed.

Lemma popsize_update c k size : popsize (update c k size) = popsize c + (size + growth (count_of c k)).
Proof.
  destruct k; unfold popsize; cbn [update count_of n_vbk n_vtb n_atv s_vbk s_vtb s_atv];
    [pose proof (growth_exact (n_vbk c)) | pose proof (growth_exact (n_vtb c)) | pose proof (growth_exact (n_atv c))]; lia.
Qed.

Lemma fits0 L : 10 <= max_size L -> fits L (mkk [] [] []) = true.
Proof.
  intro M. unfold fits. cbn [k_vbk k_vtb k_atv].
  replace (est_kept {| k_vbk := []; k_vtb := []; k_atv := [] |}) with 10 by reflexivity.
  replace (len []) with 0 by reflexivity.
  rewrite !andb_true_iff. repeat split; apply N.leb_le; lia.
Qed.

(** as coded now: whatever is kept passes assertPopDataFits - no bound on the counts *)
Lemma filter_fit_fits L cands : forall c r,
  agrees c r -> fits L r = true ->
  fits L (snd (filter_fit L cands c r)) = true.
Proof.
  unfold filter_fit.
  induction cands as [|[[k size] valid] rest IH]; intros c r A F; cbn [filter_fit_with snd]; [exact F|].
  destruct (can_fit L c k size && valid) eqn:CF; [|apply IH; assumption].
  apply IH; [apply agrees_step, A|].
  apply andb_true_iff in CF. destruct CF as [CF _]. unfold can_fit in CF. apply andb_true_iff in CF. destruct CF as [Cn Cs].
  pose proof (popsize_estimate _ _ (agrees_step c r k size A)) as PE. rewrite popsize_update in PE.
  apply N.leb_le in Cs.
  destruct A as (A1 & A2 & A3 & _).
  unfold fits in *. apply andb_true_iff in F. destruct F as [F Fs]. apply andb_true_iff in F. destruct F as [F F3].
  apply andb_true_iff in F. destruct F as [F1 F2]. apply N.leb_le in F1, F2, F3.
  assert (est_kept (keep r k size) <=? max_size L = true) as -> by (apply N.leb_le; lia).
  rewrite andb_true_r.
  destruct k; cbn [count_ok] in Cn; apply N.ltb_lt in Cn; cbn [keep k_vbk k_vtb k_atv]; rewrite ?len_cons;
    repeat (apply andb_true_iff; split); apply N.leb_le; lia.
Qed.

Lemma generated_fits_lemma L cands :
  10 <= max_size L ->
  fits L (snd (filter_fit L cands c0 (mkk [] [] []))) = true.
Proof. intro M. apply filter_fit_fits; [exact agrees0 | apply fits0; exact M]. Qed.

(** before the repair the statement was false: the 256th payload of a kind that fits exactly makes the length prefix
    one byte longer, which the old canFit did not account for *)
Definition witness_cands : list (kind * N * bool) := repeat (KAtv, 1, true) 256.
Definition witness_limits : limits := mkl 200 200 1000 266.
Lemma counting_prefix_refuted_lemma :
  fits witness_limits (snd (filter_fit_v0 witness_limits witness_cands c0 (mkk [] [] []))) = false /\
  len (k_atv (snd (filter_fit_v0 witness_limits witness_cands c0 (mkk [] [] [])))) = 256.
Proof. split; vm_compute; reflexivity. Qed.
(** the same candidates with canFit as coded now: the 256th does not fit, 255 are kept *)
Example witness_now :
  fits witness_limits (snd (filter_fit witness_limits witness_cands c0 (mkk [] [] []))) = true /\
  len (k_atv (snd (filter_fit witness_limits witness_cands c0 (mkk [] [] [])))) = 255.
Proof. split; vm_compute; reflexivity. Qed.

(** ** the temporary block leaves no trace *)
Section M.
  Variable S P : Type.
  Variable add_temp remove_temp : S -> S.
  Variable exec : P -> S -> option S.
  Variable unexec : P -> S -> S.
  Hypothesis temp_inverse : forall s, remove_temp (add_temp s) = s.
  Hypothesis exec_inverse : forall p s s', exec p s = Some s' -> unexec p s' = s.

  Lemma apply_unapply ps : forall s ap,
    unapply_all S P unexec (snd (apply_all S P exec ps s ap)) (fst (apply_all S P exec ps s ap)) =
    unapply_all S P unexec ap s.
  Proof.
    induction ps as [|p r IH]; intros s ap; cbn [apply_all]; [reflexivity|].
    destruct (exec p s) as [s'|] eqn:E; [|apply IH].
    rewrite IH. cbn [unapply_all]. rewrite (exec_inverse _ _ _ E). reflexivity.
  Qed.

  (** every payload kept by the filter was executed on the temporary block in the final order: executing exactly
      the kept list on the same state succeeds and reaches the same state (exec is a function) *)
  Variable pre : P -> list P -> bool.
  Lemma filter_apply_exec ps : forall s ap,
    exists mid, snd (filter_apply S P exec pre ps s ap) = mid ++ ap /\
                exec_all S P exec (rev mid) s = Some (fst (filter_apply S P exec pre ps s ap)).
  Proof.
    induction ps as [|p r IH]; intros s ap; cbn [filter_apply].
    - exists []. split; reflexivity.
    - destruct (pre p ap); [|apply IH].
      destruct (exec p s) as [s'|] eqn:E; [|apply IH].
      destruct (IH s' (p :: ap)) as (mid & A & B). exists (mid ++ [p]). split.
      + rewrite A, <- app_assoc. reflexivity.
      + rewrite rev_app_distr. cbn [rev app exec_all]. rewrite E. exact B.
  Qed.

  Lemma generated_applies_lemma s ps :
    exec_all S P exec (generated S P add_temp exec pre s ps) (add_temp s) =
    Some (fst (filter_apply S P exec pre ps (add_temp s) [])).
  Proof.
    unfold generated. destruct (filter_apply_exec ps (add_temp s) []) as (mid & A & B).
    rewrite A, app_nil_r. exact B.
  Qed.

  Lemma generate_pure_lemma s ps : generate_machine S P add_temp remove_temp exec unexec s ps = s.
  Proof.
    unfold generate_machine. pose proof (apply_unapply ps (add_temp s) []) as H.
    destruct (apply_all S P exec ps (add_temp s) []) as [s1 ap]. cbn [fst snd] in H.
    rewrite H. cbn [unapply_all]. apply temp_inverse.
  Qed.
End M.

(** the hypotheses are satisfiable by a non-trivial machine: a counter with a temp flag *)
Example machine_instance :
  generate_machine (N * bool) N (fun s => (fst s, true)) (fun s => (fst s, false))
                   (fun p s => if p <? 10 then Some (fst s + p, snd s) else None)
                   (fun p s => (fst s - p, snd s)) (5, false) [1; 20; 3] = (5, false).
Proof. vm_compute. reflexivity. Qed.

(** ** filter order = block execution order *)
Section O.
  Variable S P : Type.
  Variable exec : P -> S -> option S.
  Variable pre : P -> list P -> bool.

  Lemma exec_all_app a b s :
    exec_all S P exec (a ++ b) s = match exec_all S P exec a s with Some s' => exec_all S P exec b s' | None => None end.
  Proof.
    revert s. induction a as [|p r IH]; intro s; cbn [app exec_all]; [reflexivity|].
    destruct (exec p s); [apply IH | reflexivity].
  Qed.

  Lemma stage_exec ps s prev :
    exec_all S P exec (rev (snd (stage S P exec pre ps s prev))) s = Some (fst (stage S P exec pre ps s prev)).
  Proof.
    unfold stage. destruct (filter_apply_exec S P exec (fun p ap => pre p (ap ++ prev)) ps s []) as (mid & A & B).
    rewrite A, app_nil_r. exact B.
  Qed.

  (** the kept lists of a three-stage filter, executed in the order they were filtered in, reach the filter's state *)
  Lemma filter3_exec l1 l2 l3 s :
    let '(s3, k1, k2, k3) := filter3 S P exec pre l1 l2 l3 s in
    exec_all S P exec (k1 ++ k2 ++ k3) s = Some s3.
  Proof.
    unfold filter3.
    pose proof (stage_exec l1 s []) as H1. destruct (stage S P exec pre l1 s []) as [s1 m1]. cbn [fst snd] in H1.
    pose proof (stage_exec l2 s1 m1) as H2. destruct (stage S P exec pre l2 s1 m1) as [s2 m2]. cbn [fst snd] in H2.
    pose proof (stage_exec l3 s2 (m2 ++ m1)) as H3. destruct (stage S P exec pre l3 s2 (m2 ++ m1)) as [s3 m3]. cbn [fst snd] in H3.
    rewrite exec_all_app, H1, exec_all_app, H2. exact H3.
  Qed.

  Lemma generated_applies_ordered_lemma ctx vtbs atvs s :
    let '(s3, kc, kv, ka) := filter_as_coded S P exec pre ctx vtbs atvs s in
    exec_body S P exec kc kv ka s = Some s3.
  Proof. unfold filter_as_coded, exec_body. apply filter3_exec. Qed.
End O.

(** with another filter order the statement is false: ATVs applied before VTBs let a VTB through whose containing
    block is known only as an ATV's block of proof; the block body (VTBs before ATVs) then fails *)
Lemma generated_applies_other_order_refuted_lemma :
  let '(s3, kc, kv, ka) := filter_atvs_first (list N) N om_exec (fun _ _ => true) [] [3] [1] [] in
  kv = [3] /\ ka = [1] /\ exec_body (list N) N om_exec kc kv ka [] = None.
Proof. vm_compute. repeat split; reflexivity. Qed.
(** the same candidates filtered in the order of the code: the VTB is dropped and the body executes *)
Example generated_applies_order_witness :
  let '(s3, kc, kv, ka) := filter_as_coded (list N) N om_exec (fun _ _ => true) [] [3] [1] [] in
  kv = [] /\ ka = [1] /\ exec_body (list N) N om_exec kc kv ka [] = Some s3.
Proof. vm_compute. repeat split; reflexivity. Qed.

