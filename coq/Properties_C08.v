(** C08 — property theorems only; each closed by [exact] of a lemma proved in Tree/*.v.
    Model: Tree/TreeDefs.v (BaseBlockTree flag algebra, kinds ALT and POW).  [Inv_flags] = proper tree + heights +
    "every child of a failed block carries FAILED_CHILD" + "live blocks are at least VALID_TREE".  (The converse
    "FAILED_CHILD only below a failed block" is NOT an invariant of the code: removeSubtree drops FAILED_POP of the
    removed blocks and keeps the FAILED_CHILD of their descendants.)
    Not proved here (named in META of props/C08.py): the tip-set / active-tip part of inv_reval_id, the
    descendant-closure form of invalidate_exact (given pointwise below), best_chain_never_invalid. *)
From Coq Require Import ZArith NArith List Bool.
From VB Require Import Tree.TreeDefs Tree.TreeInv Tree.TreePass Tree.TreeProofs.
Import ListNotations.

(* invalidateSubtree, every early exit included, re-establishes the flag invariant: afterwards every child of a failed
   block carries FAILED_CHILD - so everything below the invalidated block is failed *)
Theorem C08_invalidate_keeps_flag_invariant :
  forall s id r ord s', Inv_flags s -> invalidate s id r ord = Done s' -> Inv_flags s'.
Proof. exact invalidate_inv. Qed.
Print Assumptions C08_invalidate_keeps_flag_invariant.

(* revalidateSubtree (early exits: flag absent / other failure flags present) re-establishes it as well:
   descendants that are invalid for another reason stay invalid, the others lose FAILED_CHILD *)
Theorem C08_revalidate_keeps_flag_invariant :
  forall s id r ord s', Inv_flags s -> revalidate s id r ord = Done s' -> Inv_flags s'.
Proof. exact revalidate_inv. Qed.
Print Assumptions C08_revalidate_keeps_flag_invariant.

(* invalidate_exact / revalidate_exact, pointwise form: the traversal rewrites exactly the blocks whose parent is the
   target or a rewritten block below which the traversal continued, and it rewrites only FAILED_CHILD *)
Theorem C08_traversal_exact_partial :
  forall f stop t l, wf l -> forall p y, find_blk p l = Some y ->
    find_blk p (fst (gpass f stop t l)) =
      Some (if vis (snd (gpass f stop t l)) y then with_st y (f (bst y)) else y)
    /\ memN p (snd (gpass f stop t l)) = (p =? t)%N || (vis (snd (gpass f stop t l)) y && negb (stop (bst y))).
Proof. exact gpass_find. Qed.
Print Assumptions C08_traversal_exact_partial.

Theorem C08_mark_pass_is_traversal :
  forall t l, fst (fst (mark_pass t l)) = fst (gpass (set_fchild true) failed t l) /\
              snd (fst (mark_pass t l)) = snd (gpass (set_fchild true) failed t l).
Proof. exact mark_pass_gpass. Qed.
Print Assumptions C08_mark_pass_is_traversal.

Theorem C08_reval_pass_is_traversal :
  forall k l0 t l tps, fst (fst (reval_pass k l0 t l tps)) = fst (gpass (set_fchild false) reval_stop t l) /\
                       snd (reval_pass k l0 t l tps) = snd (gpass (set_fchild false) reval_stop t l).
Proof. exact reval_pass_gpass. Qed.
Print Assumptions C08_reval_pass_is_traversal.

(* in every state of the invariant: the children of a failed block carry FAILED_CHILD *)
Theorem C08_failed_parent_failed_child :
  forall s, Inv_flags s -> forall p x q y,
    find_blk p (blocks s) = Some x -> bparent x = Some q -> find_blk q (blocks s) = Some y ->
    failed (bst y) = true -> fchild (bst x) = true.
Proof. exact failed_parent_failed_child. Qed.
Print Assumptions C08_failed_parent_failed_child.

(* nested_inv_reval (partial: invariant form): every interleaving of invalidations, revalidations, removals and state
   switches, with both reasons, on both trees, keeps the flag invariant *)
Theorem C08_nested_inv_reval_partial :
  forall ops, Forall flag_op ops -> forall s, Inv_flags s -> Inv_flags (run s ops).
Proof. exact run_inv_partial. Qed.
Print Assumptions C08_nested_inv_reval_partial.
