(** C08 — property theorems only; each closed by [exact] of a lemma proved in Tree/*.v.
    Model: Tree/TreeDefs.v (BaseBlockTree flag algebra, kinds ALT and POW).
    [Inv_flags] = proper tree + heights follow parents + "every child of a failed block carries FAILED_CHILD" +
    "live blocks are at least VALID_TREE, removed blocks do not carry FAILED_POP".
    (The converse "FAILED_CHILD only below a failed block" is NOT an invariant of the code: removeSubtree drops
    FAILED_POP of the removed blocks and keeps the FAILED_CHILD of their descendants; [back_in l b] states the absence
    of such stale flags inside subtree(b).)   [sub l b p] = p is b or a descendant of b.
    [tips_ok k l tps] = the tips conjunct of Inv_tree: tps = { b | canBeATip b and no child canBeATip }. *)
From Coq Require Import ZArith NArith List Bool.
From VB Require Import Tree.TreeDefs Tree.TreeInv Tree.TreePass Tree.TreeProofs Tree.TreeExact Tree.TreeRestore
  Tree.TreeMono Tree.TreeSteps Tree.TreeChain Tree.TreeTips Tree.TreeTipsOps Tree.TreeTipsUp Tree.TreeRestoreTips.
Import ListNotations.

(* invalidate_exact: outside subtree(b) no failure flag changes; b gets the reason and nothing else; every proper
   descendant keeps its own flags and carries FAILED_CHILD afterwards. All early exits included, both trees. *)
Theorem C08_invalidate_exact :
  forall s id r ord s', Inv_flags s -> invalidate s id r ord = Done s' ->
  forall p y, find_blk p (blocks s) = Some y ->
  exists y', find_blk p (blocks s') = Some y' /\ skel y' = skel y /\
    (sub (blocks s) id p = false -> ffl (bst y') = ffl (bst y)) /\
    (p = id -> has_reason r (bst y') = true /\ fchild (bst y') = fchild (bst y) /\
               forall r', r' <> r -> has_reason r' (bst y') = has_reason r' (bst y)) /\
    (sub (blocks s) id p = true -> p <> id ->
       fblock (bst y') = fblock (bst y) /\ fpop (bst y') = fpop (bst y) /\ fchild (bst y') = true).
Proof. exact invalidate_exact. Qed.
Print Assumptions C08_invalidate_exact.

(* revalidate_exact: only b loses the reason; own flags of every other block and FAILED_CHILD outside subtree(b) are
   unchanged (early exits: reason absent = no-op; other failure flags present = only the flag of b) *)
Theorem C08_revalidate_exact :
  forall s id r x, Inv_flags s -> find_blk id (blocks s) = Some x -> has_reason r (bst x) = true ->
  forall p y, find_blk p (blocks s) = Some y ->
  exists y2, find_blk p (blocks (revalidate_core s id r)) = Some y2 /\ skel y2 = skel y /\
    (p <> id -> fblock (bst y2) = fblock (bst y) /\ fpop (bst y2) = fpop (bst y)) /\
    (p = id -> has_reason r (bst y2) = false /\ fchild (bst y2) = fchild (bst y) /\
               forall r', r' <> r -> has_reason r' (bst y2) = has_reason r' (bst y)) /\
    (sub (blocks s) id p = false -> fchild (bst y2) = fchild (bst y)).
Proof. exact revalidate_core_exact. Qed.
Print Assumptions C08_revalidate_exact.

Theorem C08_revalidate_blocks :
  forall s id r ord s2 x, find_blk id (blocks s) = Some x -> has_reason r (bst x) = true ->
  revalidate s id r ord = Done s2 -> blocks s2 = blocks (revalidate_core s id r).
Proof. exact revalidate_blocks. Qed.
Print Assumptions C08_revalidate_blocks.

(* ... and inside subtree(b) FAILED_CHILD is afterwards carried exactly below failed blocks: descendants that are
   invalid for another reason (and everything below them) stay invalid, all others are valid again *)
Theorem C08_revalidate_descendants :
  forall s id r x, Inv_flags s -> find_blk id (blocks s) = Some x -> has_reason r (bst x) = true ->
  all_marked (blocks s) id -> back_in (blocks (revalidate_core s id r)) id.
Proof. exact revalidate_core_back_in. Qed.
Print Assumptions C08_revalidate_descendants.

(* inv_reval_id (failure flags): revalidate (invalidate s b r) b r gives EVERY block its three failure flags back *)
Theorem C08_inv_reval_id_flags :
  forall s id r o1 o2 s1 s2 x,
  Inv_flags s -> find_blk id (blocks s) = Some x -> has_reason r (bst x) = false ->
  back_in (blocks s) id ->
  invalidate s id r o1 = Done s1 -> revalidate s1 id r o2 = Done s2 ->
  forall p y, find_blk p (blocks s) = Some y ->
    exists y2, find_blk p (blocks s2) = Some y2 /\ skel y2 = skel y /\ ffl (bst y2) = ffl (bst y).
Proof. exact inv_reval_id_flags. Qed.
Print Assumptions C08_inv_reval_id_flags.

(* inv_reval_id (tip set): ... and the tip set is the one of s. The active tip: if b was on the best chain,
   invalidateSubtree moved it to the parent of b (C08_set_state_to_tip); revalidateSubtree leaves it there in the ALT tree
   (its determineBestChain does nothing) and re-determines it by chain work over the restored tips in the PoW tree *)
Theorem C08_inv_reval_id_tips :
  forall s id r o1 o2 s1 s2 x,
  Inv_flags s -> tips_ok (tkind s) (blocks s) (tips s) ->
  find_blk id (blocks s) = Some x -> has_reason r (bst x) = false -> back_in (blocks s) id ->
  invalidate s id r o1 = Done s1 -> revalidate s1 id r o2 = Done s2 ->
  forall q, memN q (tips s2) = memN q (tips s).
Proof. exact inv_reval_id_tips. Qed.
Print Assumptions C08_inv_reval_id_tips.

(* the tip set stays exact under invalidation / revalidation (both trees, all early exits) *)
Theorem C08_invalidate_tips :
  forall s id r ord s', Inv_flags s -> tips_ok (tkind s) (blocks s) (tips s) ->
  invalidate s id r ord = Done s' -> tips_ok (tkind s') (blocks s') (tips s') /\ tkind s' = tkind s.
Proof. exact invalidate_tips_ok. Qed.
Print Assumptions C08_invalidate_tips.

Theorem C08_revalidate_tips :
  forall s id r ord s', Inv_flags s -> tips_ok (tkind s) (blocks s) (tips s) ->
  revalidate s id r ord = Done s' -> tips_ok (tkind s') (blocks s') (tips s') /\ tkind s' = tkind s.
Proof. exact revalidate_tips_ok. Qed.
Print Assumptions C08_revalidate_tips.

(* the algebra behind nested invalidations / revalidations: FAILED_CHILD is a function of the own flags
   (two states with the same own flags, the same flags outside subtree(t) and no stale flag inside agree everywhere) *)
Theorem C08_flags_determined_by_own_flags :
  forall t l l2, wf l -> same_skel l l2 -> fl_ok l -> fl_ok l2 -> back_in l t -> back_in l2 t ->
  (forall p y y2, find_blk p l = Some y -> find_blk p l2 = Some y2 ->
     fblock (bst y) = fblock (bst y2) /\ fpop (bst y) = fpop (bst y2)) ->
  (forall p y y2, find_blk p l = Some y -> find_blk p l2 = Some y2 -> sub l t p = false \/ p = t ->
     fchild (bst y) = fchild (bst y2)) ->
  forall n p y y2, (length (path l p) <= n)%nat -> find_blk p l = Some y -> find_blk p l2 = Some y2 ->
    fchild (bst y) = fchild (bst y2).
Proof. exact ffl_unique. Qed.
Print Assumptions C08_flags_determined_by_own_flags.

(* the traversal of both operations, pointwise and in descendant form *)
Theorem C08_traversal_pointwise :
  forall f stop t l, wf l -> forall p y, find_blk p l = Some y ->
    find_blk p (fst (gpass f stop t l)) =
      Some (if vis (snd (gpass f stop t l)) y then with_st y (f (bst y)) else y)
    /\ memN p (snd (gpass f stop t l)) = (p =? t)%N || (vis (snd (gpass f stop t l)) y && negb (stop (bst y))).
Proof. exact gpass_find. Qed.
Print Assumptions C08_traversal_pointwise.

Theorem C08_traversal_exact :
  forall v stop t l, wf l -> forall p y, find_blk p l = Some y ->
  exists y', find_blk p (fst (gpass (set_fchild v) stop t l)) = Some y' /\
    (sub l t p = false \/ p = t -> y' = y) /\
    skel y' = skel y /\ fblock (bst y') = fblock (bst y) /\ fpop (bst y') = fpop (bst y) /\
    level (bst y') = level (bst y) /\ deleted (bst y') = deleted (bst y) /\ active (bst y') = active (bst y) /\
    haspl (bst y') = haspl (bst y) /\
    (fchild (bst y') = fchild (bst y) \/ fchild (bst y') = v).
Proof. exact gpass_exact. Qed.
Print Assumptions C08_traversal_exact.

Theorem C08_mark_pass_is_traversal :
  forall t l, fst (fst (mark_pass t l)) = fst (gpass (set_fchild true) failed t l) /\
              snd (fst (mark_pass t l)) = snd (gpass (set_fchild true) failed t l).
Proof. exact mark_pass_gpass. Qed.
Print Assumptions C08_mark_pass_is_traversal.

Theorem C08_reval_pass_is_traversal :
  forall k l0 t l tps, fst (fst (reval_pass k l0 t l tps)) = fst (gpass (set_fchild false) reval_stop t l) /\
                       snd (reval_pass k l0 t l tps) = snd (gpass (set_fchild false) reval_stop t l).
Proof. exact reval_pass_gpass. Qed.
Print Assumptions C08_reval_pass_is_traversal.

(* best_chain_never_invalid: after every prefix of every history (all operations, both trees) no block of the best
   chain root..tip is failed ... *)
Theorem C08_best_chain_never_invalid :
  forall ops s, Inv_flags s -> tip_ok s ->
  forall a z, In a (path (blocks (run s ops)) (tip (run s ops))) -> find_blk a (blocks (run s ops)) = Some z ->
    failed (bst z) = false.
Proof. exact best_chain_never_invalid. Qed.
Print Assumptions C08_best_chain_never_invalid.

(* ... and also in the intermediate state inside invalidateSubtree (after setState(prev), before the marking) *)
Theorem C08_best_chain_inside_invalidate :
  forall s id x pp s1, Inv_flags s -> tip_ok s ->
  find_blk id (blocks s) = Some x -> bparent x = Some pp -> is_valid L_TREE (bst x) = true ->
  (if on_chain s id then set_state_to s pp else Done s) = Done s1 ->
  Inv_flags s1 /\ tip_ok s1.
Proof. exact invalidate_intermediate_tip_ok. Qed.
Print Assumptions C08_best_chain_inside_invalidate.

(* where the active tip goes: setState(prev) puts it on the parent (ALT: it stays there; POW: updateTips re-determines) *)
Theorem C08_set_state_to_tip : forall s to s1, set_state_to s to = Done s1 -> tip s1 = to.
Proof. exact set_state_to_tip. Qed.
Print Assumptions C08_set_state_to_tip.

(* nested_inv_reval: arbitrary interleavings of ALL operations keep the invariant and a non-failed best-chain tip *)
Theorem C08_nested_inv_reval :
  forall ops s, Inv_flags s /\ tip_ok s -> Inv_flags (run s ops) /\ tip_ok (run s ops).
Proof. exact run_good. Qed.
Print Assumptions C08_nested_inv_reval.
