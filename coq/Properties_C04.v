(** C04 — property theorems only; each closed by [exact] of a lemma proved in Rules/RulesProofs.v. *)
From Coq Require Import ZArith List.
From VB Require Import Rules.RulesDefs Rules.RulesProofs.
From VB Require Pop.SmDefs Pop.SmProofs Pop.SmWf Pop.SmTruth Rules.RulesFull Rules.RulesHist.
From VB Require Import Rules.ForkDefs Rules.ForkProofs.
Import ListNotations.
Local Open Scope Z_scope.

(** the commands' checks as coded accept a block body iff it satisfies the declarative rule set *)
Theorem C04_exec_ok_iff_ctx_valid :
  forall W P s c b, (exists s', exec_block W P s c b = inl s') <-> ctx_valid W P s c b.
Proof. exact exec_ok_iff_ctx_valid. Qed.
Print Assumptions C04_exec_ok_iff_ctx_valid.

(** ... and then has exactly the declared effects *)
Theorem C04_exec_block_iff :
  forall W P s c b s', exec_block W P s c b = inl s' <-> ctx_valid W P s c b /\ s' = after_block s b.
Proof. exact exec_block_iff. Qed.
Print Assumptions C04_exec_block_iff.

(** a block violating a rule is refused together with everything built on it: applying (setState to) the block
    or any descendant fails, and it fails at that block *)
Theorem C04_invalid_block_refused :
  forall W P pre s c b post,
    chain_valid W P s pre -> ~ ctx_valid W P (after_chain s pre) c b ->
    exists e, apply_chain W P s (pre ++ (c, b) :: post) = VRefused c e.
Proof. exact invalid_block_refused. Qed.
Print Assumptions C04_invalid_block_refused.

Theorem C04_refused_names_invalid :
  forall W P ch s c e, apply_chain W P s ch = VRefused c e ->
    exists pre b post, ch = pre ++ (c, b) :: post /\ chain_valid W P s pre /\ ~ ctx_valid W P (after_chain s pre) c b.
Proof. exact refused_names_invalid. Qed.
Print Assumptions C04_refused_names_invalid.

(** the same invariant on a simple activation machine that re-applies candidates from the root *)
Theorem C04_simple_machine_invariant :
  forall W P ops, let m := run W P m0 ops in
    chain_valid W P st0 (m_chain m) /\ m_st m = after_chain st0 (m_chain m).
Proof. exact active_payloads_valid_partial. Qed.
Print Assumptions C04_simple_machine_invariant.

(** tie to the as-coded POP state machine (Pop/Sm*.v: applyBlock/unapplyBlock/apply/unapply/setState/
    comparePopScore with every VBK_ASSERT explicit): the command groups of a body, translated to the machine's
    reference-count commands, all execute iff the body is contextually valid *)
Theorem C04_groups_execute_iff_ctx_valid :
  forall W P s c b pp, RulesFull.R pp (vknown s) ->
    ((exists pp', SmDefs.gsexec SmDefs.pstate SmDefs.ccmd SmDefs.cexec SmDefs.cunexec [] (RulesFull.tr W P s c b) pp = (pp', true))
     <-> ctx_valid W P s c b).
Proof. exact RulesFull.groups_execute_iff_ctx_valid. Qed.
Print Assumptions C04_groups_execute_iff_ctx_valid.

(** FULL statement: in every state reachable by any history of connectBlock / setState / comparePopScore (any
    scorer) of the as-coded machine whose blocks carry the translation of their payload bodies, the active chain
    root..tip consists of contextually valid blocks only *)
Theorem C04_active_payloads_valid :
  forall W P bodyof s,
    SmProofs.reachable RulesFull.base0 s -> RulesFull.compiled W P bodyof s ->
    chain_valid W P st0 (RulesFull.active_bodies bodyof s).
Proof. exact RulesFull.active_payloads_valid. Qed.
Print Assumptions C04_active_payloads_valid.

(** the same over histories: run ANY sequence of connectBlock (handing over the translated groups of the block's
    body in its chain context at that time) / setState / comparePopScore from the bootstrap state *)
Theorem C04_history_active_payloads_valid :
  forall W P bodyof r h ops s,
    RulesHist.ops_ok W P bodyof (SmDefs.c_init r h RulesFull.base0) ops ->
    SmProofs.run (SmDefs.c_init r h RulesFull.base0) ops = SmDefs.Ok s ->
    chain_valid W P st0 (RulesFull.active_bodies bodyof s).
Proof. exact RulesHist.history_active_payloads_valid. Qed.
Print Assumptions C04_history_active_payloads_valid.

(** ... and every applied block is valid in the context made by the bodies below it *)
Theorem C04_active_block_valid :
  forall W P bodyof s,
    SmProofs.reachable RulesFull.base0 s -> RulesFull.compiled W P bodyof s ->
    forall j b, SmDefs.find SmDefs.ccmd (SmDefs.blocks _ _ s) j = Some b -> SmDefs.b_act _ b = true ->
      j <> SmDefs.root _ _ s ->
      ctx_valid W P (RulesFull.rctx bodyof (SmWf.cores s) (SmTruth.depth s (SmDefs.b_par _ b)) (SmDefs.b_par _ b))
                (RulesFull.zid j) (bodyof j).
Proof. exact RulesFull.active_block_valid. Qed.
Print Assumptions C04_active_block_valid.

Theorem C04_refused_not_activated :
  forall W P m pre c b post,
    chain_valid W P st0 pre -> ~ ctx_valid W P (after_chain st0 pre) c b ->
    activate W P m (pre ++ (c, b) :: post) = (m, false).
Proof. exact refused_not_activated. Qed.
Print Assumptions C04_refused_not_activated.

(** forks next to the active chain (Rules/ForkDefs.v: forks become known, are removed again, candidates are
    activated): whether a candidate is accepted does not depend on which other forks exist, existed or were removed,
    nor on what was active before — only on its own chain root..leaf *)
Theorem C04_verdict_independent_of_other_forks :
  forall W P h1 h2 ch,
    snd (fstep W P (frun W P fm0 h1) (FActivate ch)) = snd (fstep W P (frun W P fm0 h2) (FActivate ch)).
Proof. exact verdict_independent_of_other_forks. Qed.
Print Assumptions C04_verdict_independent_of_other_forks.

Theorem C04_verdict_iff_own_chain_valid :
  forall W P h ch, snd (fstep W P (frun W P fm0 h) (FActivate ch)) = true <-> chain_valid W P st0 ch.
Proof. exact verdict_iff_own_chain_valid. Qed.
Print Assumptions C04_verdict_iff_own_chain_valid.

Theorem C04_fork_machine_active_valid :
  forall W P ops, let m := f_m (frun W P fm0 ops) in
    chain_valid W P st0 (m_chain m) /\ m_st m = after_chain st0 (m_chain m).
Proof. exact fork_machine_active_valid. Qed.
Print Assumptions C04_fork_machine_active_valid.

(** "no payload id twice in the chain" refers to the bodies below the block on its OWN chain and to nothing else *)
Theorem C04_dup_rule_own_chain :
  forall pre b,
    no_dup_on_chain (after_chain st0 pre) b <->
    (forall i, In i (body_ids b) -> forall c' b', In (c', b') pre -> ~ In i (body_ids b')).
Proof. exact dup_rule_own_chain. Qed.
Print Assumptions C04_dup_rule_own_chain.

(** the payload index shared by all forks AS CODED (PayloadsIndex: id -> set of containing blocks, add on
    acceptBlock, remove per block with the key cleaned up only when its set is empty; isStatefulDuplicate = some
    containing block is on the chain below): after ANY history of blocks being accepted and dropped, its answer for
    a block whose ancestors are held is exactly the per-chain duplicate check of exec_block *)
Theorem C04_shared_index_dup_check_is_own_chain :
  forall ops pre b,
    (forall c bd, In (c, bd) pre -> hfind (h_blocks (hrun held0 ops)) c = Some bd) ->
    ix_block_dup (h_index (hrun held0 ops)) (map fst pre) b
    = existsb (fun i => pmem i (seen (after_chain st0 pre))) (body_ids b).
Proof. exact shared_index_dup_check_is_own_chain. Qed.
Print Assumptions C04_shared_index_dup_check_is_own_chain.
