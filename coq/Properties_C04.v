(** C04 — property theorems only; each closed by [exact] of a lemma proved in Rules/RulesProofs.v. *)
From Coq Require Import ZArith List.
From VB Require Import Rules.RulesDefs Rules.RulesProofs.
Import ListNotations.
Local Open Scope Z_scope.

(** the commands' checks as coded accept a block body iff it satisfies the declarative rule set *)
Theorem C04_exec_ok_iff_ctx_valid :
  forall W P s c b, (exists s', exec_block W P s c b = inl s') <-> ctx_valid W P s c b.
Proof. exact exec_ok_iff_ctx_valid. Qed.
Print Assumptions C04_exec_ok_iff_ctx_valid.

(** ... and then has exactly the declared effects *)
Theorem C04_exec_block_iff :
  forall W P s c b s', exec_block W P s c b = inl s' <-> ctx_valid W P s c b /\ s' = after_block s b.
Proof. exact exec_block_iff. Qed.
Print Assumptions C04_exec_block_iff.

(** a block violating a rule is refused together with everything built on it: applying (setState to) the block
    or any descendant fails, and it fails at that block *)
Theorem C04_invalid_block_refused :
  forall W P pre s c b post,
    chain_valid W P s pre -> ~ ctx_valid W P (after_chain s pre) c b ->
    exists e, apply_chain W P s (pre ++ (c, b) :: post) = VRefused c e.
Proof. exact invalid_block_refused. Qed.
Print Assumptions C04_invalid_block_refused.

Theorem C04_refused_names_invalid :
  forall W P ch s c e, apply_chain W P s ch = VRefused c e ->
    exists pre b post, ch = pre ++ (c, b) :: post /\ chain_valid W P s pre /\ ~ ctx_valid W P (after_chain s pre) c b.
Proof. exact refused_names_invalid. Qed.
Print Assumptions C04_refused_names_invalid.

(** invariant over all activation histories: the active chain consists of contextually valid blocks only.
    FULL statement wanted: the same over the real op set (acceptBlock, setState, comparePopScore, invalidate,
    removeSubtree, finalization) with unapply/apply instead of re-application from the root.  [_partial]: the
    activation machine re-applies candidates from the root; the missing link is the exact-inverse law of
    unapply (model of the POP state machine, C01/C02). *)
Theorem C04_active_payloads_valid_partial :
  forall W P ops, let m := run W P m0 ops in
    chain_valid W P st0 (m_chain m) /\ m_st m = after_chain st0 (m_chain m).
Proof. exact active_payloads_valid_partial. Qed.
Print Assumptions C04_active_payloads_valid_partial.

Theorem C04_refused_not_activated :
  forall W P m pre c b post,
    chain_valid W P st0 pre -> ~ ctx_valid W P (after_chain st0 pre) c b ->
    activate W P m (pre ++ (c, b) :: post) = (m, false).
Proof. exact refused_not_activated. Qed.
Print Assumptions C04_refused_not_activated.
