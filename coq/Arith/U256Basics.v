(** Value-level correctness of the byte-array operations of U256Defs.v, part 1:
    carry chains (+=, ++, --, ~, unary -, -=, *= uint32, *= U256) and compareTo.
    Everything is proved for byte lists of ANY length [n] modulo [256^n] by
    induction over the list; U256Proofs.v instantiates n = 32. *)
From Coq Require Import ZArith Lia List Bool.
From VB Require Import Base.Bits Arith.U256Defs.
Import ListNotations.
Local Open Scope Z_scope.
Ltac Zify.zify_post_hook ::= Z.div_mod_to_equations.

Definition P256 (n : nat) : Z := 256 ^ Z.of_nat n.

Lemma P256_0 : P256 0 = 1.
Proof. reflexivity. Qed.

Lemma P256_S n : P256 (S n) = 256 * P256 n.
Proof. unfold P256. rewrite Nat2Z.inj_succ, Z.pow_succ_r by lia. reflexivity. Qed.

Lemma P256_pos n : 0 < P256 n.
Proof. unfold P256. apply Z.pow_pos_nonneg; lia. Qed.

Lemma P256_add n m : P256 (n + m) = P256 n * P256 m.
Proof. unfold P256. rewrite Nat2Z.inj_add, Z.pow_add_r by lia. reflexivity. Qed.

Lemma P256_pow2 n : P256 n = 2 ^ (8 * Z.of_nat n).
Proof. unfold P256. change 256 with (2 ^ 8). rewrite <- Z.pow_mul_r by lia. reflexivity. Qed.

Lemma bytes_ok_cons x r : bytes_ok (x :: r) <-> byte_ok x /\ bytes_ok r.
Proof.
  unfold bytes_ok. split.
  - intros H. inversion H; subst. split; assumption.
  - intros [H1 H2]. constructor; assumption.
Qed.

Lemma bytes_ok_nil : bytes_ok [].
Proof. constructor. Qed.

Lemma bytes_ok_app a b : bytes_ok (a ++ b) <-> bytes_ok a /\ bytes_ok b.
Proof. unfold bytes_ok. apply Forall_app. Qed.

Lemma uval_bound a : bytes_ok a -> 0 <= uval a < P256 (length a).
Proof.
  induction a as [|x r IH]; intros H.
  - cbn [uval length]. rewrite P256_0. lia.
  - apply bytes_ok_cons in H. destruct H as [Hx Hr]. specialize (IH Hr).
    cbn [uval length]. rewrite P256_S. unfold byte_ok in Hx. lia.
Qed.

Lemma uval_app a b : uval (a ++ b) = uval a + P256 (length a) * uval b.
Proof.
  induction a as [|x r IH].
  - cbn [app uval length]. rewrite P256_0. lia.
  - cbn [app uval length]. rewrite IH, P256_S. lia.
Qed.

Lemma zeros_ok n : bytes_ok (zeros n) /\ length (zeros n) = n /\ uval (zeros n) = 0.
Proof.
  unfold zeros. induction n as [|n IH].
  - cbn [repeat uval length]. split; [apply bytes_ok_nil|split; reflexivity].
  - destruct IH as (H1 & H2 & H3). cbn [repeat uval length]. split; [|split].
    + apply bytes_ok_cons. split; [unfold byte_ok; lia|exact H1].
    + rewrite H2. reflexivity.
    + rewrite H3. reflexivity.
Qed.

Lemma mod_step n M : 0 < M -> n mod (256 * M) = n mod 256 + 256 * ((n / 256) mod M).
Proof. intros H. rewrite Z.rem_mul_r by lia. reflexivity. Qed.

Lemma land255 n : Z.land n 255 = n mod 256.
Proof. change 255 with (2 ^ 8 - 1). apply land_ones_mod. lia. Qed.

Lemma shiftr8 n : Z.shiftr n 8 = n / 256.
Proof. rewrite Z.shiftr_div_pow2 by lia. reflexivity. Qed.

Lemma w64_small z : 0 <= z < 2 ^ 64 -> w64 z = z.
Proof. intros H. unfold w64. apply Z.mod_small. exact H. Qed.

(** the shape every carry-chain step reduces to *)
Lemma chain_step n q M r :
  0 < M -> r = (n / 256 + q) mod M ->
  n mod 256 + 256 * r = (n + 256 * q) mod (256 * M).
Proof.
  intros HM ->. rewrite mod_step by exact HM.
  replace ((n + 256 * q) mod 256) with (n mod 256) by lia.
  replace ((n + 256 * q) / 256) with (n / 256 + q) by lia.
  reflexivity.
Qed.

(** * operator+= *)
Lemma add_c_spec : forall a b c,
  bytes_ok a -> bytes_ok b -> length a = length b -> 0 <= c <= 1 ->
  uval (add_c c a b) = (c + uval a + uval b) mod P256 (length a)
  /\ bytes_ok (add_c c a b) /\ length (add_c c a b) = length a.
Proof.
  induction a as [|x a IH]; intros b c Ha Hb Hl Hc.
  - cbn [add_c uval length]. rewrite P256_0, Z.mod_1_r. repeat split. apply bytes_ok_nil.
  - destruct b as [|y b]; [discriminate Hl|].
    apply bytes_ok_cons in Ha. destruct Ha as [Hx Ha].
    apply bytes_ok_cons in Hb. destruct Hb as [Hy Hb].
    unfold byte_ok in Hx, Hy. cbn [length] in Hl.
    cbn [add_c]. rewrite w64_small by (change (2 ^ 64) with 18446744073709551616; lia).
    rewrite land255, shiftr8.
    set (n := c + x + y).
    destruct (IH b (n / 256) Ha Hb ltac:(lia) ltac:(subst n; lia)) as (Hv & Hbk & Hlen).
    split; [|split].
    + cbn [uval length]. rewrite P256_S.
      replace (c + (x + 256 * uval a) + (y + 256 * uval b)) with (n + 256 * (uval a + uval b)) by (subst n; lia).
      apply chain_step; [apply P256_pos|]. rewrite Hv. f_equal. lia.
    + apply bytes_ok_cons. split; [unfold byte_ok; lia|exact Hbk].
    + cbn [length]. rewrite Hlen. reflexivity.
Qed.

Lemma uadd_spec a b :
  bytes_ok a -> bytes_ok b -> length a = length b ->
  uval (uadd a b) = (uval a + uval b) mod P256 (length a)
  /\ bytes_ok (uadd a b) /\ length (uadd a b) = length a.
Proof.
  intros Ha Hb Hl. unfold uadd.
  destruct (add_c_spec a b 0 Ha Hb Hl ltac:(lia)) as (H1 & H2 & H3).
  rewrite H1. repeat split; try assumption.
Qed.

(** * operator++ / operator-- *)
Lemma inc_spec : forall a, bytes_ok a ->
  uval (inc a) = (uval a + 1) mod P256 (length a) /\ bytes_ok (inc a) /\ length (inc a) = length a.
Proof.
  induction a as [|x a IH]; intros Ha.
  - cbn [inc uval length]. rewrite P256_0, Z.mod_1_r. repeat split. apply bytes_ok_nil.
  - apply bytes_ok_cons in Ha. destruct Ha as [Hx Ha]. unfold byte_ok in Hx.
    destruct (IH Ha) as (Hv & Hb & Hl). pose proof (uval_bound a Ha) as Hbd.
    pose proof (P256_pos (length a)) as HP.
    cbn [inc]. unfold w8.
    destruct (Z.eqb_spec ((x + 1) mod 256) 0) as [E|E].
    + split; [|split].
      * cbn [uval length]. rewrite P256_S, E.
        replace (x + 256 * uval a + 1) with (0 + 256 * (uval a + 1)) by lia.
        change 0 with (0 mod 256) at 1.
        apply chain_step; [exact HP|]. rewrite Hv. f_equal.
      * apply bytes_ok_cons. split; [unfold byte_ok; lia|exact Hb].
      * cbn [length]. rewrite Hl. reflexivity.
    + split; [|split].
      * cbn [uval length]. rewrite P256_S.
        rewrite (Z.mod_small (x + 256 * uval a + 1)) by nia. lia.
      * apply bytes_ok_cons. split; [unfold byte_ok; lia|exact Ha].
      * reflexivity.
Qed.

Lemma dec_spec : forall a, bytes_ok a ->
  uval (dec a) = (uval a - 1) mod P256 (length a) /\ bytes_ok (dec a) /\ length (dec a) = length a.
Proof.
  induction a as [|x a IH]; intros Ha.
  - cbn [dec uval length]. rewrite P256_0, Z.mod_1_r. repeat split. apply bytes_ok_nil.
  - apply bytes_ok_cons in Ha. destruct Ha as [Hx Ha]. unfold byte_ok in Hx.
    destruct (IH Ha) as (Hv & Hb & Hl). pose proof (uval_bound a Ha) as Hbd.
    pose proof (P256_pos (length a)) as HP.
    cbn [dec]. unfold w8.
    destruct (Z.eqb_spec ((x - 1) mod 256) 255) as [E|E].
    + assert (x = 0) by lia. subst x.
      split; [|split].
      * cbn [uval length]. rewrite P256_S, E.
        replace (0 + 256 * uval a - 1) with (255 + 256 * (uval a - 1)) by lia.
        change 255 with (255 mod 256) at 1.
        apply chain_step; [exact HP|]. rewrite Hv. f_equal.
      * apply bytes_ok_cons. split; [unfold byte_ok; lia|exact Hb].
      * cbn [length]. rewrite Hl. reflexivity.
    + assert (1 <= x) by lia.
      split; [|split].
      * cbn [uval length]. rewrite P256_S.
        rewrite (Z.mod_small (x + 256 * uval a - 1)) by nia. lia.
      * apply bytes_ok_cons. split; [unfold byte_ok; lia|exact Ha].
      * reflexivity.
Qed.

(** * operator~ and unary operator- *)
Lemma bnot_spec : forall a, bytes_ok a ->
  uval (bnot a) = P256 (length a) - 1 - uval a /\ bytes_ok (bnot a) /\ length (bnot a) = length a.
Proof.
  induction a as [|x a IH]; intros Ha.
  - cbn [bnot map uval length]. rewrite P256_0. repeat split. apply bytes_ok_nil.
  - apply bytes_ok_cons in Ha. destruct Ha as [Hx Ha]. unfold byte_ok in Hx.
    destruct (IH Ha) as (Hv & Hb & Hl). unfold bnot in *. cbn [map uval length].
    assert (Hn : w8 (Z.lnot x) = 255 - x) by (unfold w8, Z.lnot; lia).
    rewrite Hn, Hv, P256_S, map_length. split; [lia|]. split; [|reflexivity].
    apply bytes_ok_cons. split; [unfold byte_ok; lia|exact Hb].
Qed.

Lemma neg_spec a : bytes_ok a ->
  uval (neg a) = (- uval a) mod P256 (length a) /\ bytes_ok (neg a) /\ length (neg a) = length a.
Proof.
  intros Ha. unfold neg. destruct (bnot_spec a Ha) as (Hv & Hb & Hl).
  destruct (inc_spec (bnot a) Hb) as (Hv2 & Hb2 & Hl2).
  rewrite Hv2, Hl2, Hl, Hv. split; [|split; [exact Hb2|reflexivity]].
  replace (P256 (length a) - 1 - uval a + 1) with (- uval a + 1 * P256 (length a)) by lia.
  apply Z.mod_add. pose proof (P256_pos (length a)). lia.
Qed.

(** * operator-= *)
Lemma usub_spec a b :
  bytes_ok a -> bytes_ok b -> length a = length b ->
  uval (usub a b) = (uval a - uval b) mod P256 (length a)
  /\ bytes_ok (usub a b) /\ length (usub a b) = length a.
Proof.
  intros Ha Hb Hl. unfold usub. destruct (neg_spec b Hb) as (Hv & Hbn & Hln).
  destruct (uadd_spec a (neg b) Ha Hbn ltac:(lia)) as (H1 & H2 & H3).
  rewrite H1, Hv, <- Hl. split; [|split; assumption].
  rewrite Z.add_mod_idemp_r by (pose proof (P256_pos (length a)); lia).
  f_equal.
Qed.

(** * operator*=(uint32_t) *)
Lemma mul32_c_spec : forall a c b32,
  bytes_ok a -> 0 <= c < 2 ^ 32 -> 0 <= b32 < 2 ^ 32 ->
  uval (mul32_c c b32 a) = (c + b32 * uval a) mod P256 (length a)
  /\ bytes_ok (mul32_c c b32 a) /\ length (mul32_c c b32 a) = length a.
Proof.
  induction a as [|x a IH]; intros c b32 Ha Hc Hb.
  - cbn [mul32_c uval length]. rewrite P256_0, Z.mod_1_r. repeat split. apply bytes_ok_nil.
  - apply bytes_ok_cons in Ha. destruct Ha as [Hx Ha]. unfold byte_ok in Hx.
    change (2 ^ 32) with 4294967296 in *.
    assert (Hbx : 0 <= b32 * x <= 4294967295 * 255) by nia.
    cbn [mul32_c].
    rewrite (w64_small (b32 * x)) by (change (2 ^ 64) with 18446744073709551616; lia).
    rewrite w64_small by (change (2 ^ 64) with 18446744073709551616; lia).
    rewrite land255, shiftr8.
    set (n := c + b32 * x) in *.
    destruct (IH (n / 256) b32 Ha ltac:(subst n; lia) Hb) as (Hv & Hbk & Hlen).
    split; [|split].
    + cbn [uval length]. rewrite P256_S.
      replace (c + b32 * (x + 256 * uval a)) with (n + 256 * (b32 * uval a)) by (subst n; lia).
      apply chain_step; [apply P256_pos|]. exact Hv.
    + apply bytes_ok_cons. split; [unfold byte_ok; lia|exact Hbk].
    + cbn [length]. rewrite Hlen. reflexivity.
Qed.

Lemma mul32_spec a b32 : bytes_ok a -> 0 <= b32 < 2 ^ 32 ->
  uval (mul32 a b32) = (uval a * b32) mod P256 (length a)
  /\ bytes_ok (mul32 a b32) /\ length (mul32 a b32) = length a.
Proof.
  intros Ha Hb. unfold mul32.
  destruct (mul32_c_spec a 0 b32 Ha ltac:(lia) Hb) as (H1 & H2 & H3).
  rewrite H1. split; [f_equal; lia|split; assumption].
Qed.

(** * operator*=(const ArithUint256&) *)
Lemma mul_row_spec : forall acc b c d,
  bytes_ok acc -> bytes_ok b -> (length acc <= length b)%nat -> 0 <= c < 256 -> 0 <= d < 256 ->
  uval (mul_row c d acc b) = (c + uval acc + d * uval b) mod P256 (length acc)
  /\ bytes_ok (mul_row c d acc b) /\ length (mul_row c d acc b) = length acc.
Proof.
  induction acc as [|x acc IH]; intros b c d Ha Hb Hl Hc Hd.
  - cbn [mul_row uval length]. rewrite P256_0, Z.mod_1_r. repeat split. apply bytes_ok_nil.
  - destruct b as [|y b]; [cbn [length] in Hl; lia|].
    apply bytes_ok_cons in Ha. destruct Ha as [Hx Ha].
    apply bytes_ok_cons in Hb. destruct Hb as [Hy Hb].
    unfold byte_ok in Hx, Hy. cbn [length] in Hl.
    assert (Hdy : 0 <= d * y <= 255 * 255) by nia.
    cbn [mul_row].
    rewrite (w64_small (d * y)) by (change (2 ^ 64) with 18446744073709551616; lia).
    rewrite w64_small by (change (2 ^ 64) with 18446744073709551616; lia).
    rewrite land255, shiftr8.
    set (n := c + x + d * y) in *.
    destruct (IH b (n / 256) d Ha Hb ltac:(lia) ltac:(subst n; lia) Hd) as (Hv & Hbk & Hlen).
    split; [|split].
    + cbn [uval length]. rewrite P256_S.
      replace (c + (x + 256 * uval acc) + d * (y + 256 * uval b))
        with (n + 256 * (uval acc + d * uval b)) by (subst n; lia).
      apply chain_step; [apply P256_pos|]. rewrite Hv. f_equal. lia.
    + apply bytes_ok_cons. split; [unfold byte_ok; lia|exact Hbk].
    + cbn [length]. rewrite Hlen. reflexivity.
Qed.

Lemma mul_loop_spec : forall this acc b,
  bytes_ok this -> bytes_ok acc -> bytes_ok b -> length this = length acc -> (length acc <= length b)%nat ->
  uval (mul_loop this acc b) = (uval acc + uval this * uval b) mod P256 (length acc)
  /\ bytes_ok (mul_loop this acc b) /\ length (mul_loop this acc b) = length acc.
Proof.
  induction this as [|d this IH]; intros acc b Ht Ha Hb Hl Hlb.
  - destruct acc; [|discriminate Hl]. cbn [mul_loop uval length].
    rewrite P256_0, Z.mod_1_r. repeat split. apply bytes_ok_nil.
  - apply bytes_ok_cons in Ht. destruct Ht as [Hd Ht]. unfold byte_ok in Hd.
    destruct (mul_row_spec acc b 0 d Ha Hb Hlb ltac:(lia) Hd) as (Hv & Hbk & Hlen).
    cbn [mul_loop].
    destruct (mul_row 0 d acc b) as [|r0 row] eqn:E.
    { destruct acc; [discriminate Hl|discriminate Hlen]. }
    destruct acc as [|x acc]; [discriminate Hl|].
    apply bytes_ok_cons in Hbk. destruct Hbk as [Hr0 Hrow]. unfold byte_ok in Hr0.
    cbn [length] in Hl, Hlen, Hlb.
    destruct (IH row b Ht Hrow Hb ltac:(lia) ltac:(lia)) as (Hv2 & Hbk2 & Hlen2).
    assert (Hrl : length row = length acc) by lia.
    split; [|split].
    + cbn [uval length]. cbn [uval length] in Hv. rewrite P256_S in *.
      rewrite Hv2, Hrl.
      pose proof (P256_pos (length acc)) as HP.
      (* r0 + 256 * row = (x + 256 acc + d * b) mod (256 M) *)
      replace (x + 256 * uval acc + (d + 256 * uval this) * uval b)
        with ((0 + (x + 256 * uval acc) + d * uval b) + (256 * (uval this * uval b))) by lia.
      rewrite <- (Z.add_mod_idemp_l (0 + (x + 256 * uval acc) + d * uval b)) by lia.
      rewrite <- Hv.
      replace (r0 + 256 * uval row + 256 * (uval this * uval b))
        with (r0 + 256 * (uval row + uval this * uval b)) by lia.
      rewrite <- (Z.mod_small r0 256) at 1 by lia.
      apply chain_step; [exact HP|]. f_equal.
      rewrite (Z.div_small r0 256) by lia. lia.
    + apply bytes_ok_cons. split; [unfold byte_ok; lia|exact Hbk2].
    + cbn [length]. rewrite Hlen2, Hrl. reflexivity.
Qed.

Lemma umul_spec a b : bytes_ok a -> bytes_ok b -> length a = length b ->
  uval (umul a b) = (uval a * uval b) mod P256 (length a)
  /\ bytes_ok (umul a b) /\ length (umul a b) = length a.
Proof.
  intros Ha Hb Hl. unfold umul.
  destruct (zeros_ok (length a)) as (Z1 & Z2 & Z3).
  destruct (mul_loop_spec a (zeros (length a)) b Ha Z1 Hb ltac:(lia) ltac:(lia)) as (H1 & H2 & H3).
  rewrite H1, Z2, Z3 in *. split; [f_equal|split; assumption].
Qed.

(** * compareTo *)
Definition sgn_of (c : comparison) : Z := match c with Lt => -1 | Eq => 0 | Gt => 1 end.

Lemma cmp_spec : forall a b, bytes_ok a -> bytes_ok b -> length a = length b ->
  cmp a b = sgn_of (uval a ?= uval b).
Proof.
  induction a as [|x a IH]; intros b Ha Hb Hl.
  - destruct b; [|discriminate Hl]. reflexivity.
  - destruct b as [|y b]; [discriminate Hl|].
    apply bytes_ok_cons in Ha. destruct Ha as [Hx Ha].
    apply bytes_ok_cons in Hb. destruct Hb as [Hy Hb].
    unfold byte_ok in Hx, Hy. cbn [length] in Hl.
    cbn [cmp uval]. rewrite (IH b Ha Hb ltac:(lia)).
    destruct (Z.compare_spec (uval a) (uval b)) as [E|E|E]; cbn [sgn_of Z.eqb].
    + rewrite E. destruct (Z.ltb_spec x y).
      * destruct (Z.compare_spec (x + 256 * uval b) (y + 256 * uval b)); try lia; reflexivity.
      * destruct (Z.ltb_spec y x);
        destruct (Z.compare_spec (x + 256 * uval b) (y + 256 * uval b)); try lia; reflexivity.
    + destruct (Z.compare_spec (x + 256 * uval a) (y + 256 * uval b)); try lia; reflexivity.
    + destruct (Z.compare_spec (x + 256 * uval a) (y + 256 * uval b)); try lia; reflexivity.
Qed.
