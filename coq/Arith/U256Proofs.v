(** ArithUint256 at its real width: the theorems of U256Basics/U256Shift/U256Div
    instantiated for well-formed 32-byte arrays ([wf]) and modulus 2^256. *)
From Coq Require Import ZArith Lia List Bool.
From VB Require Import Base.Bits Arith.CompactDefs Arith.U256Defs Arith.U256Basics Arith.U256Shift Arith.U256Coded Arith.U256Div.
Import ListNotations.
Local Open Scope Z_scope.

Lemma P256_32 : P256 WIDTH = 2 ^ 256.
Proof. reflexivity. Qed.

Lemma wf_bound a : wf a -> 0 <= uval a < 2 ^ 256.
Proof. intros [Hb Hl]. rewrite <- P256_32, <- Hl. apply uval_bound. exact Hb. Qed.

Ltac use_spec H La :=
  let Hv := fresh in let Hb := fresh in let Hl := fresh in
  destruct H as (Hv & Hb & Hl);
  split; [rewrite Hv; rewrite ?La; try rewrite P256_32; reflexivity
         |split; [exact Hb|rewrite Hl; exact La]].

Theorem add_exact a b : wf a -> wf b -> uval (uadd a b) = (uval a + uval b) mod 2 ^ 256 /\ wf (uadd a b).
Proof. intros [Ha La] [Hb Lb]. use_spec (uadd_spec a b Ha Hb ltac:(congruence)) La. Qed.

Theorem sub_exact a b : wf a -> wf b -> uval (usub a b) = (uval a - uval b) mod 2 ^ 256 /\ wf (usub a b).
Proof. intros [Ha La] [Hb Lb]. use_spec (usub_spec a b Ha Hb ltac:(congruence)) La. Qed.

Theorem neg_exact a : wf a -> uval (neg a) = (- uval a) mod 2 ^ 256 /\ wf (neg a).
Proof. intros [Ha La]. use_spec (neg_spec a Ha) La. Qed.

Theorem not_exact a : wf a -> uval (bnot a) = 2 ^ 256 - 1 - uval a /\ wf (bnot a).
Proof. intros [Ha La]. use_spec (bnot_spec a Ha) La. Qed.

Theorem inc_exact a : wf a -> uval (inc a) = (uval a + 1) mod 2 ^ 256 /\ wf (inc a).
Proof. intros [Ha La]. use_spec (inc_spec a Ha) La. Qed.

Theorem dec_exact a : wf a -> uval (dec a) = (uval a - 1) mod 2 ^ 256 /\ wf (dec a).
Proof. intros [Ha La]. use_spec (dec_spec a Ha) La. Qed.

Theorem mul32_exact a w : wf a -> 0 <= w < 2 ^ 32 ->
  uval (mul32 a w) = (uval a * w) mod 2 ^ 256 /\ wf (mul32 a w).
Proof. intros [Ha La] Hw. use_spec (mul32_spec a w Ha Hw) La. Qed.

Theorem mul_exact a b : wf a -> wf b -> uval (umul a b) = (uval a * uval b) mod 2 ^ 256 /\ wf (umul a b).
Proof. intros [Ha La] [Hb Lb]. use_spec (umul_spec a b Ha Hb ltac:(congruence)) La. Qed.

(** every shift amount an [unsigned int] can hold, in particular >= 256 *)
Theorem shl_exact a sh : wf a -> 0 <= sh -> uval (shl a sh) = (uval a * 2 ^ sh) mod 2 ^ 256 /\ wf (shl a sh).
Proof. intros [Ha La] Hs. use_spec (shl_spec a sh Ha Hs) La. Qed.

Theorem shr_exact a sh : wf a -> 0 <= sh -> uval (shr a sh) = uval a / 2 ^ sh /\ wf (shr a sh).
Proof. intros [Ha La] Hs. use_spec (shr_spec a sh Ha Hs) La. Qed.

Theorem cmp_exact a b : wf a -> wf b ->
  cmp a b = match uval a ?= uval b with Lt => -1 | Eq => 0 | Gt => 1 end.
Proof. intros [Ha La] [Hb Lb]. apply (cmp_spec a b Ha Hb). congruence. Qed.

Theorem bits_exact a : wf a -> ubits a = (if uval a =? 0 then 0 else Z.log2 (uval a) + 1).
Proof.
  intros Hw. destruct Hw as [Ha La]. rewrite (ubits_spec a Ha). unfold bits.
  pose proof (uval_bound a Ha).
  destruct (Z.eqb_spec (uval a) 0); destruct (Z.leb_spec (uval a) 0); try lia; reflexivity.
Qed.

Theorem getLow64_exact a : wf a -> getLow64 a = uval a mod 2 ^ 64.
Proof. intros [Ha La]. apply getLow64_spec; [exact Ha|rewrite La; unfold WIDTH; lia]. Qed.

Theorem of_u64_exact b : 0 <= b < 2 ^ 64 -> uval (of_u64 b) = b /\ wf (of_u64 b).
Proof. intros Hb. destruct (of_u64_spec b Hb) as (H1 & H2 & H3). split; [exact H1|split; assumption]. Qed.

(** division: quotient is exact, division by zero is the explicit [Throw] outcome *)
Theorem div_exact a b : wf a -> wf b ->
  match udiv a b with
  | Throw => uval b = 0
  | Done q => 0 < uval b /\ uval q = uval a / uval b /\ wf q
  end.
Proof.
  intros [Ha La] [Hb Lb]. pose proof (udiv_spec a b Ha Hb ltac:(congruence)) as H.
  destruct (udiv a b) as [q|]; [|exact H].
  destruct H as (H1 & H2 & H3 & H4). split; [exact H1|split; [exact H2|split; [exact H3|congruence]]].
Qed.

Theorem div_throws_iff a b : wf a -> wf b -> (udiv a b = Throw <-> uval b = 0).
Proof.
  intros Wa Wb. pose proof (div_exact a b Wa Wb) as H. split.
  - intros E. rewrite E in H. exact H.
  - intros E. destruct (udiv a b); [destruct H; lia|reflexivity].
Qed.

(** byte-level compact codec agrees with the value-level one of CompactDefs.v *)
Theorem fromBits_bytes c : 0 <= c < 2 ^ 32 ->
  let '(t, neg, ovf) := fromBits_b c in
  let '(t', neg', ovf') := fromBits c in
  uval t = t' /\ neg = neg' /\ ovf = ovf' /\ wf t.
Proof.
  intros Hc. pose proof (fromBits_b_spec c Hc) as H.
  destruct (fromBits_b c) as [[t n] o]. destruct (fromBits c) as [[t' n'] o'].
  destruct H as (H1 & H2 & H3 & H4 & H5). repeat split; assumption.
Qed.

Theorem toBits_bytes a neg : wf a -> toBits_b a neg = toBits (uval a) neg.
Proof. intros [Ha La]. apply toBits_b_spec; assumption. Qed.

(** the hypotheses are satisfiable by non-trivial values *)
Example wf_example : wf (of_u64 1234567890123) /\ uval (of_u64 1234567890123) = 1234567890123.
Proof. destruct (of_u64_exact 1234567890123 ltac:(split; [discriminate|reflexivity])) as [H1 H2]. split; assumption. Qed.

(** the literal loops ([shl], [shr], [ubits]: what the theorems above are about)
    coincide with the gather formulations [shl_g], [shr_g], [ubits_g] *)
Theorem shifts_coded_eq_gather a sh : wf a -> 0 <= sh ->
  shl a sh = shl_g a sh /\ shr a sh = shr_g a sh /\ ubits a = ubits_g a.
Proof.
  intros [Ha La] Hs. split; [apply shl_coded_eq_gather; assumption|].
  split; [apply shr_coded_eq_gather; assumption|apply ubits_coded_eq_gather; assumption].
Qed.
