(** Compact ("nBits") target encoding: ArithUint256::fromBits / toBits
    (src/pop/arith_uint256.cpp:18-40,178-199), modelled over Z with the C++
    widths written out. Executable; no proofs in this file. *)
From Coq Require Import ZArith Bool.
Local Open Scope Z_scope.

Definition two256 : Z := 2 ^ 256.
Definition two32 : Z := 2 ^ 32.
Definition u256 (z : Z) : Z := z mod two256.
Definition u32 (z : Z) : Z := z mod two32.
Definition u64 (z : Z) : Z := z mod 2 ^ 64.

(** [bits v]: position of the highest set bit plus one, 0 for 0 *)
Definition bits (v : Z) : Z := if v <=? 0 then 0 else Z.log2 v + 1.

(** fromBits: (target, negative, overflow); [c] is a uint32_t *)
Definition fromBits (c : Z) : Z * bool * bool :=
  let nSize := Z.shiftr c 24 in
  let nWord0 := Z.land c 8388607 (* 0x007fffff *) in
  let nWord := if nSize <=? 3 then Z.shiftr nWord0 (8 * (3 - nSize)) else nWord0 in
  let target := if nSize <=? 3 then nWord else u256 (Z.shiftl nWord (8 * (nSize - 3))) in
  let negative := negb (nWord =? 0) && negb (Z.land c 8388608 =? 0) in
  let overflow := negb (nWord =? 0) &&
                  ((34 <? nSize) || ((255 <? nWord) && (33 <? nSize)) || ((65535 <? nWord) && (32 <? nSize))) in
  (target, negative, overflow).

(** toBits of a value [0 <= v < 2^256] *)
Definition toBits (v : Z) (negative : bool) : Z :=
  let nSize := (bits v + 7) / 8 in
  let nCompact :=
    if nSize <=? 3 then u32 (Z.shiftl (u32 (u64 v)) (8 * (3 - nSize)))
    else u32 (u64 (Z.shiftr v (8 * (nSize - 3)))) in
  let '(nCompact, nSize) :=
    if negb (Z.land nCompact 8388608 =? 0) then (Z.shiftr nCompact 8, nSize + 1) else (nCompact, nSize) in
  let nCompact := Z.lor nCompact (Z.shiftl nSize 24) in
  Z.lor nCompact (if negative && negb (Z.land nCompact 8388607 =? 0) then 8388608 else 0).
