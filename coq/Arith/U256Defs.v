(** ArithUint256 (include/veriblock/pop/arith_uint256.hpp, src/pop/arith_uint256.cpp)
    as coded: the number is the array [data_] of 32 bytes, least significant byte
    first, here a [list Z] of length 32 with every element in [0,256). Every
    operation below follows the C++ loop (carry chains, byte-wise scans); the
    functions are written for any length so that the proofs go by induction over
    the byte list, and are used at length 32. Executable; no proofs in this file. *)
From Coq Require Import ZArith List Bool.
Import ListNotations.
Local Open Scope Z_scope.

Definition WIDTH : nat := 32.   (* SHA256_HASH_SIZE *)

(** a throwing operation ([uint_error]) *)
Inductive result (A : Type) : Type :=
| Done (a : A)
| Throw.
Arguments Done {A} a.
Arguments Throw {A}.

(** little-endian value *)
Fixpoint uval (l : list Z) : Z :=
  match l with [] => 0 | x :: r => x + 256 * uval r end.

Definition byte_ok (x : Z) : Prop := 0 <= x < 256.
Definition bytes_ok (l : list Z) : Prop := Forall byte_ok l.
Definition wf (l : list Z) : Prop := bytes_ok l /\ length l = WIDTH.

Definition w64 (z : Z) : Z := z mod 2 ^ 64.   (* uint64_t wrap *)
Definition w8 (z : Z) : Z := z mod 256.       (* (uint8_t) *)

Definition zeros (n : nat) : list Z := repeat 0 n.

(** ArithUint256(uint64_t b) / operator=(uint64_t): data_[i] = (uint8_t)(b >> 8i), rest 0 *)
Definition of_u64 (b : Z) : list Z :=
  [w8 b; w8 (Z.shiftr b 8); w8 (Z.shiftr b 16); w8 (Z.shiftr b 24);
   w8 (Z.shiftr b 32); w8 (Z.shiftr b 40); w8 (Z.shiftr b 48); w8 (Z.shiftr b 56)]
  ++ zeros (WIDTH - 8).

(** getLow64: the first eight bytes read as a little-endian uint64 (two uint32 loads) *)
Definition getLow64 (a : list Z) : Z :=
  let p1 := uval (firstn 4 a) in
  let p2 := uval (firstn 4 (skipn 4 a)) in
  Z.lor p1 (w64 (Z.shiftl p2 32)).

(** operator~ : ret.data_[i] = ~data_[i]  (int promotion, stored back as uint8_t) *)
Definition bnot (a : list Z) : list Z := map (fun x => w8 (Z.lnot x)) a.

(** operator++ : for (i = 0; i < N && ++data_[i] == 0; ++i) {} *)
Fixpoint inc (a : list Z) : list Z :=
  match a with
  | [] => []
  | x :: r => let x' := w8 (x + 1) in if x' =? 0 then x' :: inc r else x' :: r
  end.

(** operator-- : for (i = 0; i < N && --data_[i] == 0xff; ++i) {} *)
Fixpoint dec (a : list Z) : list Z :=
  match a with
  | [] => []
  | x :: r => let x' := w8 (x - 1) in if x' =? 255 then x' :: dec r else x' :: r
  end.

(** unary operator- : ~ on every byte, then ++ *)
Definition neg (a : list Z) : list Z := inc (bnot a).

(** operator+= : uint64 carry chain, n = carry + data_[i] + b.data_[i] *)
Fixpoint add_c (carry : Z) (a b : list Z) : list Z :=
  match a, b with
  | x :: a', y :: b' =>
    let n := w64 (carry + x + y) in
    Z.land n 255 :: add_c (Z.shiftr n 8) a' b'
  | _, _ => []
  end.
Definition uadd (a b : list Z) : list Z := add_c 0 a b.

(** operator-= : *this += -b *)
Definition usub (a b : list Z) : list Z := uadd a (neg b).

(** operator*=(uint32_t b32): n = carry + (uint64_t)b32 * data_[i] *)
Fixpoint mul32_c (carry b32 : Z) (a : list Z) : list Z :=
  match a with
  | [] => []
  | x :: r =>
    let n := w64 (carry + w64 (b32 * x)) in
    Z.land n 255 :: mul32_c (Z.shiftr n 8) b32 r
  end.
Definition mul32 (a : list Z) (b32 : Z) : list Z := mul32_c 0 b32 a.

(** operator*=(const ArithUint256& b): for every byte j of *this the inner carry
    chain adds data_[j] * b into the accumulator a.data_[j..] and stops at the end
    of the accumulator (i + j < N). [acc] is a.data_[j..]. *)
Fixpoint mul_row (carry d : Z) (acc b : list Z) : list Z :=
  match acc, b with
  | x :: acc', y :: b' =>
    let n := w64 (carry + x + w64 (d * y)) in
    Z.land n 255 :: mul_row (Z.shiftr n 8) d acc' b'
  | _, _ => []
  end.
Fixpoint mul_loop (this acc b : list Z) : list Z :=
  match this with
  | [] => acc
  | d :: this' =>
    match mul_row 0 d acc b with
    | [] => []
    | r0 :: row' => r0 :: mul_loop this' row' b
    end
  end.
Definition umul (a b : list Z) : list Z := mul_loop a (zeros (length a)) b.

(** compareTo: scan from the most significant byte; the first difference decides *)
Fixpoint cmp (a b : list Z) : Z :=
  match a, b with
  | x :: a', y :: b' =>
    let c := cmp a' b' in
    if c =? 0 then (if x <? y then -1 else if y <? x then 1 else 0) else c
  | _, _ => 0
  end.

(** bits(), recursive formulation [ubits_g] (proved equal to the coded scan [ubits] below): highest non-zero byte [pos], then for (nbits = 7; nbits > 0; nbits--)
    if (data_[pos] & 1U << nbits) return 8*pos + nbits + 1; return 8*pos + 1 *)
Fixpoint bits_byte (nb : nat) (x : Z) : Z :=
  match nb with
  | O => 1
  | S m => if negb (Z.land x (Z.shiftl 1 (Z.of_nat nb)) =? 0) then Z.of_nat nb + 1 else bits_byte m x
  end.
Fixpoint bits_from (pos : Z) (a : list Z) : Z :=
  match a with
  | [] => 0
  | x :: r =>
    let h := bits_from (pos + 1) r in          (* the scan visits the higher bytes first *)
    if negb (h =? 0) then h
    else if negb (x =? 0) then 8 * pos + bits_byte 7 x else 0
  end.
Definition ubits_g (a : list Z) : Z := bits_from 0 a.

(** bits() exactly as coded: for (pos = N-1; pos >= 0; pos--) if (data_[pos] != 0)
    { ...return 8*pos + nbits + 1...; return 8*pos + 1; } return 0.
    [l] is the array reversed (most significant byte first), so the position of
    its head is the length of its tail. *)
Fixpoint bits_scan (l : list Z) : Z :=
  match l with
  | [] => 0
  | x :: r => if negb (x =? 0) then 8 * Z.of_nat (length r) + bits_byte 7 x else bits_scan r
  end.
Definition ubits (a : list Z) : Z := bits_scan (rev a).

(** data_[i] |= m *)
Fixpoint or_nth (i : nat) (m : Z) (q : list Z) : list Z :=
  match q with
  | [] => []
  | x :: r => match i with O => w8 (Z.lor x m) :: r | S j => x :: or_nth j m r end
  end.

(** operator<<= and operator>>= in two formulations: [shl_g]/[shr_g] gather per
    destination byte (proof-friendly), [shl]/[shr] further below are the C++
    loops literally (scatter per source byte with |= into the zeroed array);
    both are proved to compute the same value.
    operator<<= : k = shift / 8 whole bytes, s = shift % 8 ubits. Every source byte
    a[i] contributes (uint8_t)(a[i] << s) to data_[i+k] and, if s != 0,
    a[i] >> (8 - s) to data_[i+k+1]; writes beyond the array are skipped. The
    model gathers per destination byte what the C++ loop scatters per source byte. *)
Fixpoint shl_bits (s carry : Z) (a : list Z) : list Z :=
  match a with
  | [] => []
  | x :: r =>
    Z.lor (w8 (Z.shiftl x s)) carry ::
      shl_bits s (if s =? 0 then 0 else Z.shiftr x (8 - s)) r
  end.
Definition shl_bytes (k : Z) (a : list Z) : list Z :=
  let n := length a in
  if Z.of_nat n <=? k then zeros n
  else firstn n (zeros (Z.to_nat k) ++ a).
Definition shl_g (a : list Z) (shift : Z) : list Z :=
  shl_bits (shift mod 8) 0 (shl_bytes (shift / 8) a).

(** operator>>= : a[i] contributes a[i] >> s to data_[i-k] and, if s != 0,
    (uint8_t)(a[i] << (8 - s)) to data_[i-k-1] *)
Fixpoint shr_bits (s : Z) (a : list Z) : list Z :=
  match a with
  | [] => []
  | x :: r =>
    Z.lor (Z.shiftr x s) (if s =? 0 then 0 else w8 (Z.shiftl (hd 0 r) (8 - s))) :: shr_bits s r
  end.
Definition shr_bytes (k : Z) (a : list Z) : list Z :=
  let n := length a in
  if Z.of_nat n <=? k then zeros n
  else skipn (Z.to_nat k) a ++ zeros (Z.to_nat k).
Definition shr_g (a : list Z) (shift : Z) : list Z :=
  shr_bits (shift mod 8) (shr_bytes (shift / 8) a).

(** operator<<= exactly as coded:
      a = *this; data_ = 0; k = shift / 8; shift = shift % 8;
      for (i = 0; i < N; i++) {
        if (i + k + 1 < N && shift != 0) data_[i + k + 1] |= (a.data_[i] >> (8 - shift));
        if (i + k < N)                   data_[i + k]     |= (uint8_t)(a.data_[i] << shift);
      }
    [src] is a.data_[i..], [n] = N. *)
Fixpoint shl_loop (i k s n : Z) (src data : list Z) : list Z :=
  match src with
  | [] => data
  | x :: r =>
    let data1 := if (i + k + 1 <? n) && negb (s =? 0)
                 then or_nth (Z.to_nat (i + k + 1)) (Z.shiftr x (8 - s)) data else data in
    let data2 := if i + k <? n
                 then or_nth (Z.to_nat (i + k)) (w8 (Z.shiftl x s)) data1 else data1 in
    shl_loop (i + 1) k s n r data2
  end.
Definition shl (a : list Z) (shift : Z) : list Z :=
  shl_loop 0 (shift / 8) (shift mod 8) (Z.of_nat (length a)) a (zeros (length a)).

(** operator>>= exactly as coded:
      for (i = 0; i < N; i++) {
        if (i - k - 1 >= 0 && shift != 0) data_[i - k - 1] |= (uint8_t)(a.data_[i] << (8 - shift));
        if (i - k >= 0)                   data_[i - k]     |= (a.data_[i] >> shift);
      } *)
Fixpoint shr_loop (i k s : Z) (src data : list Z) : list Z :=
  match src with
  | [] => data
  | x :: r =>
    let data1 := if (0 <=? i - k - 1) && negb (s =? 0)
                 then or_nth (Z.to_nat (i - k - 1)) (w8 (Z.shiftl x (8 - s))) data else data in
    let data2 := if 0 <=? i - k
                 then or_nth (Z.to_nat (i - k)) (Z.shiftr x s) data1 else data1 in
    shr_loop (i + 1) k s r data2
  end.
Definition shr (a : list Z) (shift : Z) : list Z :=
  shr_loop 0 (shift / 8) (shift mod 8) a (zeros (length a)).

(** operator/= : shift-subtract long division. [fuel] bounds the while loop
    (shift + 1 iterations). *)
Fixpoint div_loop (fuel : nat) (shift : Z) (num dv q : list Z) : list Z :=
  match fuel with
  | O => q
  | S f =>
    if shift <? 0 then q
    else
      let '(num1, q1) :=
        if 0 <=? cmp num dv                                   (* num >= udiv *)
        then (usub num dv, or_nth (Z.to_nat (shift / 8)) (Z.shiftl 1 (Z.land shift 7)) q)
        else (num, q) in
      div_loop f (shift - 1) num1 (shr dv 1) q1
  end.
Definition udiv (a b : list Z) : result (list Z) :=
  let num_bits := ubits a in
  let div_bits := ubits b in
  if div_bits =? 0 then Throw
  else if num_bits <? div_bits then Done (zeros (length a))
  else
    let shift := num_bits - div_bits in
    Done (div_loop (S (Z.to_nat shift)) shift a (shl b shift) (zeros (length a))).

(** byte-level fromBits / toBits (arith_uint256.cpp:18-40, 178-199) on top of the
    operations above; [CompactDefs.fromBits/toBits] are their value-level
    counterparts. *)
Definition fromBits_b (c : Z) : list Z * bool * bool :=
  let nSize := Z.shiftr c 24 in
  let nWord0 := Z.land c 8388607 in
  let nWord := if nSize <=? 3 then Z.shiftr nWord0 (8 * (3 - nSize)) else nWord0 in
  let target := if nSize <=? 3 then of_u64 nWord else shl (of_u64 nWord) (8 * (nSize - 3)) in
  let negative := negb (nWord =? 0) && negb (Z.land c 8388608 =? 0) in
  let overflow := negb (nWord =? 0) &&
                  ((34 <? nSize) || ((255 <? nWord) && (33 <? nSize)) || ((65535 <? nWord) && (32 <? nSize))) in
  (target, negative, overflow).

Definition toBits_b (a : list Z) (negative : bool) : Z :=
  let nSize := (ubits a + 7) / 8 in
  let nCompact :=
    if nSize <=? 3 then (Z.shiftl ((getLow64 a) mod 2 ^ 32) (8 * (3 - nSize))) mod 2 ^ 32
    else (getLow64 (shr a (8 * (nSize - 3)))) mod 2 ^ 32 in
  let '(nCompact, nSize) :=
    if negb (Z.land nCompact 8388608 =? 0) then (Z.shiftr nCompact 8, nSize + 1) else (nCompact, nSize) in
  let nCompact := Z.lor nCompact (Z.shiftl nSize 24) in
  Z.lor nCompact (if negative && negb (Z.land nCompact 8388607 =? 0) then 8388608 else 0).
