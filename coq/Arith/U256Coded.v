(** Value-level correctness of the LITERAL C++ loops of U256Defs.v: operator<<=
    and operator>>= (scatter per source byte with |= into the zeroed array) and
    bits() (scan from the most significant byte). Same statements as for the
    gather formulations of U256Shift.v; corollaries: both formulations coincide. *)
From Coq Require Import ZArith Lia List Bool.
From VB Require Import Base.Bits Arith.CompactDefs Arith.U256Defs Arith.U256Basics Arith.U256Shift.
Import ListNotations.
Local Open Scope Z_scope.
Ltac Zify.zify_post_hook ::= Z.div_mod_to_equations.

(** * data_[i] |= m *)
Lemma lor_lt_pow2 a b n : 0 <= n -> 0 <= a < 2 ^ n -> 0 <= b < 2 ^ n -> 0 <= Z.lor a b < 2 ^ n.
Proof.
  intros Hn Ha Hb.
  assert (H0 : 0 <= Z.lor a b) by (apply Z.lor_nonneg; lia).
  split; [exact H0|].
  destruct (Z.eq_dec (Z.lor a b) 0) as [E|E]; [rewrite E; apply Z.pow_pos_nonneg; lia|].
  apply Z.log2_lt_pow2; [lia|].
  rewrite Z.log2_lor by lia.
  destruct (Z.eq_dec n 0) as [->|Hn0].
  { change (2 ^ 0) with 1 in *. assert (a = 0) by lia. assert (b = 0) by lia. subst. cbn in E. lia. }
  apply Z.max_lub_lt.
  - destruct (Z.eq_dec a 0) as [->|Ha0]; [cbn; lia|apply Z.log2_lt_pow2; lia].
  - destruct (Z.eq_dec b 0) as [->|Hb0]; [cbn; lia|apply Z.log2_lt_pow2; lia].
Qed.

Lemma or_nth_spec : forall q i m, bytes_ok q -> (i < length q)%nat -> 0 <= m < 256 ->
  uval (or_nth i m q) = Z.lor (uval q) (m * P256 i)
  /\ bytes_ok (or_nth i m q) /\ length (or_nth i m q) = length q.
Proof.
  induction q as [|x r IH]; intros i m Hq Hi Hm.
  - cbn [length] in Hi. lia.
  - apply bytes_ok_cons in Hq. destruct Hq as [Hx Hr]. unfold byte_ok in Hx.
    pose proof (uval_bound r Hr) as Hbd.
    assert (Hxr : x + 256 * uval r = Z.lor x (Z.shiftl (uval r) 8)).
    { rewrite lor_shiftl_add by (change (2 ^ 8) with 256; lia). change (2 ^ 8) with 256. lia. }
    destruct i as [|j].
    + pose proof (lor_lt_pow2 x m 8 ltac:(lia) ltac:(change (2 ^ 8) with 256; lia)
                    ltac:(change (2 ^ 8) with 256; lia)) as Hl.
      change (2 ^ 8) with 256 in Hl.
      cbn [or_nth uval length]. unfold w8. rewrite (Z.mod_small (Z.lor x m)) by lia.
      rewrite P256_0, Z.mul_1_r. split; [|split].
      * rewrite Hxr. rewrite <- Z.lor_assoc, (Z.lor_comm (Z.shiftl (uval r) 8) m), Z.lor_assoc.
        rewrite lor_shiftl_add by (change (2 ^ 8) with 256; lia). change (2 ^ 8) with 256. lia.
      * apply bytes_ok_cons. split; [unfold byte_ok; lia|exact Hr].
      * reflexivity.
    + cbn [length] in Hi.
      destruct (IH j m Hr ltac:(lia) Hm) as (Hv & Hb & Hl).
      cbn [or_nth uval length]. split; [|split].
      * rewrite Hv, Hxr, P256_S.
        replace (m * (256 * P256 j)) with (Z.shiftl (m * P256 j) 8)
          by (rewrite Z.shiftl_mul_pow2 by lia; change (2 ^ 8) with 256; lia).
        rewrite <- Z.lor_assoc, <- Z.shiftl_lor.
        rewrite lor_shiftl_add by (change (2 ^ 8) with 256; lia). change (2 ^ 8) with 256. lia.
      * apply bytes_ok_cons. split; [exact Hx|exact Hb].
      * rewrite Hl. reflexivity.
Qed.


(** * byte lists of equal length with equal value are equal *)
Lemma uval_inj : forall a b, bytes_ok a -> bytes_ok b -> length a = length b ->
  uval a = uval b -> a = b.
Proof.
  induction a as [|x a IH]; intros b Ha Hb Hl Hv.
  - destruct b; [reflexivity|discriminate Hl].
  - destruct b as [|y b]; [discriminate Hl|].
    apply bytes_ok_cons in Ha. destruct Ha as [Hx Ha].
    apply bytes_ok_cons in Hb. destruct Hb as [Hy Hb].
    unfold byte_ok in Hx, Hy. cbn [length] in Hl. cbn [uval] in Hv.
    assert (x = y) by lia. subst y.
    f_equal. apply IH; [exact Ha|exact Hb|lia|lia].
Qed.

(** * bits() as coded *)
Lemma log2_digit R P x n : 0 <= n -> P = 2 ^ n -> 0 <= R < P -> 0 < x ->
  Z.log2 (R + P * x) = Z.log2 x + n.
Proof.
  intros Hn HP HR Hx.
  pose proof (Z.log2_nonneg x) as Hl0.
  destruct (Z.log2_spec x Hx) as [Hlo Hhi].
  set (l := Z.log2 x) in *.
  apply Z.log2_unique; [lia|].
  replace (Z.succ (l + n)) with (Z.succ l + n) by lia.
  rewrite !Z.pow_add_r by lia. rewrite <- HP.
  assert (0 < P) by (subst P; apply Z.pow_pos_nonneg; lia).
  nia.
Qed.

Lemma bits_scan_spec : forall l, bytes_ok l -> bits_scan l = bits (uval (rev l)).
Proof.
  induction l as [|x r IH]; intros Hl.
  - reflexivity.
  - apply bytes_ok_cons in Hl. destruct Hl as [Hx Hr]. unfold byte_ok in Hx.
    assert (Hrr : bytes_ok (rev r)).
    { unfold bytes_ok in *. apply Forall_rev. exact Hr. }
    pose proof (uval_bound (rev r) Hrr) as Hbd. rewrite rev_length in Hbd.
    cbn [bits_scan rev]. rewrite uval_app, rev_length. cbn [uval].
    rewrite Z.mul_0_r, Z.add_0_r.
    destruct (Z.eqb_spec x 0) as [E|E]; cbn [negb].
    + subst x. rewrite Z.mul_0_r, Z.add_0_r. apply IH. exact Hr.
    + rewrite bits_byte_spec by lia.
      pose proof (P256_pos (length r)) as HP.
      unfold bits. destruct (Z.leb_spec (uval (rev r) + P256 (length r) * x) 0) as [H|H]; [nia|].
      rewrite (log2_digit (uval (rev r)) (P256 (length r)) x (8 * Z.of_nat (length r)));
        [lia|lia|apply P256_pow2|exact Hbd|lia].
Qed.

Theorem ubits_spec a : bytes_ok a -> ubits a = bits (uval a).
Proof.
  intros Ha. unfold ubits. rewrite bits_scan_spec.
  - rewrite rev_involutive. reflexivity.
  - unfold bytes_ok in *. apply Forall_rev. exact Ha.
Qed.

Corollary ubits_coded_eq_gather a : bytes_ok a -> ubits a = ubits_g a.
Proof. intros Ha. rewrite ubits_spec, ubits_g_spec by exact Ha. reflexivity. Qed.

(** * operator<<= as coded *)
(** one source byte [x] split by the bit shift [s] *)
Lemma split_byte s x : 0 <= s < 8 -> 0 <= x < 256 ->
  let hi := Z.shiftr x (8 - s) in
  let lo := w8 (Z.shiftl x s) in
  0 <= hi < 256 /\ 0 <= lo < 256 /\ (s = 0 -> hi = 0)
  /\ lo = (x mod 2 ^ (8 - s)) * 2 ^ s
  /\ lo + 256 * hi = x * 2 ^ s.
Proof.
  intros Hs Hx. cbv zeta. unfold w8.
  rewrite Z.shiftr_div_pow2, Z.shiftl_mul_pow2 by lia.
  assert (HS : 0 < 2 ^ s) by (apply Z.pow_pos_nonneg; lia).
  assert (HT : 0 < 2 ^ (8 - s)) by (apply Z.pow_pos_nonneg; lia).
  assert (H256 : 256 = 2 ^ (8 - s) * 2 ^ s).
  { rewrite <- Z.pow_add_r by lia. replace (8 - s + s) with 8 by lia. reflexivity. }
  assert (Hlo : (x * 2 ^ s) mod 256 = (x mod 2 ^ (8 - s)) * 2 ^ s).
  { rewrite H256 at 1. apply Z.mul_mod_distr_r; lia. }
  rewrite Hlo.
  set (S := 2 ^ s) in *. set (T := 2 ^ (8 - s)) in *.
  pose proof (Z.div_mod x T ltac:(lia)) as Hdm.
  pose proof (Z.mod_pos_bound x T HT) as Hmb.
  assert (Hq : 0 <= x / T) by (apply Z.div_pos; lia).
  split; [|split; [|split; [|split]]].
  - split; [exact Hq|]. apply Z.div_lt_upper_bound; [exact HT|]. nia.
  - nia.
  - intros ->. subst T. change (2 ^ (8 - 0)) with 256. apply Z.div_small. lia.
  - reflexivity.
  - rewrite H256. nia.
Qed.

Lemma shl_iter_Z s x e A : 0 <= s < 8 -> 0 <= x < 256 -> 0 <= e -> 0 <= A < 2 ^ (e + s) ->
  let hi := Z.shiftr x (8 - s) in
  let lo := w8 (Z.shiftl x s) in
  Z.lor A (lo * 2 ^ e) = A + lo * 2 ^ e
  /\ Z.lor (Z.lor A (hi * 2 ^ (e + 8))) (lo * 2 ^ e) = A + x * 2 ^ s * 2 ^ e.
Proof.
  intros Hs Hx He HA.
  destruct (split_byte s x Hs Hx) as (Hhi & Hlo & _ & Hlo2 & Hsum).
  cbv zeta.
  set (hi := Z.shiftr x (8 - s)) in *. set (lo := w8 (Z.shiftl x s)) in *.
  assert (HS : 0 < 2 ^ s) by (apply Z.pow_pos_nonneg; lia).
  assert (HT : 0 < 2 ^ (8 - s)) by (apply Z.pow_pos_nonneg; lia).
  assert (HE : 0 < 2 ^ e) by (apply Z.pow_pos_nonneg; lia).
  assert (H256 : 256 = 2 ^ (8 - s) * 2 ^ s).
  { rewrite <- Z.pow_add_r by lia. replace (8 - s + s) with 8 by lia. reflexivity. }
  assert (Hes : 2 ^ (e + s) = 2 ^ e * 2 ^ s) by (apply Z.pow_add_r; lia).
  assert (He8 : 2 ^ (e + 8) = 2 ^ e * 256) by (rewrite Z.pow_add_r by lia; reflexivity).
  pose proof (Z.mod_pos_bound x (2 ^ (8 - s)) HT) as Hmb.
  assert (H1 : Z.lor A (lo * 2 ^ e) = A + lo * 2 ^ e).
  { replace (lo * 2 ^ e) with ((x mod 2 ^ (8 - s)) * 2 ^ (e + s)) by (rewrite Hlo2, Hes; ring).
    rewrite Z.lor_comm, lor_low_high by lia. ring. }
  split; [exact H1|].
  rewrite <- Z.lor_assoc, (Z.lor_comm (hi * 2 ^ (e + 8))), Z.lor_assoc, H1.
  rewrite Z.lor_comm, lor_low_high.
  - rewrite He8. nia.
  - lia.
  - rewrite He8. rewrite Hes in HA. rewrite Hlo2.
    set (S := 2 ^ s) in *. set (T := 2 ^ (8 - s)) in *. set (E := 2 ^ e) in *.
    set (m := x mod T) in *. nia.
Qed.

Lemma uval_snoc pre x : uval (pre ++ [x]) = uval pre + P256 (length pre) * x.
Proof. rewrite uval_app. cbn [uval]. rewrite Z.mul_0_r, Z.add_0_r. reflexivity. Qed.

Lemma shl_loop_spec : forall src pre data i k s N,
  bytes_ok pre -> bytes_ok src -> bytes_ok data -> length data = N ->
  (length pre + length src = N)%nat -> i = Z.of_nat (length pre) -> 0 <= k -> 0 <= s < 8 ->
  uval data = (uval pre * 2 ^ (8 * k + s)) mod P256 N ->
  let r := shl_loop i k s (Z.of_nat N) src data in
  uval r = (uval (pre ++ src) * 2 ^ (8 * k + s)) mod P256 N /\ bytes_ok r /\ length r = N.
Proof.
  induction src as [|x src IH]; intros pre data i k s N Hpre Hsrc Hdata Hlen HN Hi Hk Hs Hinv.
  - cbn [shl_loop]. rewrite app_nil_r. cbv zeta. split; [exact Hinv|split; assumption].
  - apply bytes_ok_cons in Hsrc. destruct Hsrc as [Hx Hsrc]. unfold byte_ok in Hx.
    cbn [length] in HN.
    cbn [shl_loop]. cbv zeta.
    replace (pre ++ x :: src) with ((pre ++ [x]) ++ src) by (rewrite <- app_assoc; reflexivity).
    match goal with |- context [shl_loop (i + 1) k s (Z.of_nat N) src ?d] => set (data2 := d) end.
    assert (Hstep : uval data2 = (uval (pre ++ [x]) * 2 ^ (8 * k + s)) mod P256 N
                    /\ bytes_ok data2 /\ length data2 = N).
    { subst data2.
      pose proof (uval_bound pre Hpre) as HV. rewrite P256_pow2, <- Hi in HV.
      pose proof (P256_pos N) as HM.
      set (V := uval pre) in *. set (sh := 8 * k + s) in *. set (M := P256 N) in *.
      set (A := uval data) in *.
      set (e := 8 * (i + k)).
      assert (Hsh : 0 < 2 ^ sh) by (apply Z.pow_pos_nonneg; lia).
      assert (HE : 0 < 2 ^ e) by (apply Z.pow_pos_nonneg; lia).
      assert (HS : 0 < 2 ^ s) by (apply Z.pow_pos_nonneg; lia).
      assert (HPi : P256 (length pre) * 2 ^ sh = 2 ^ s * 2 ^ e).
      { rewrite P256_pow2, <- Hi, <- !Z.pow_add_r by lia. f_equal. lia. }
      assert (HA : 0 <= A < 2 ^ (e + s)).
      { rewrite Hinv. split; [apply Z.mod_pos_bound; exact HM|].
        apply Z.le_lt_trans with (V * 2 ^ sh); [apply Z.mod_le; nia|].
        replace (e + s) with (8 * i + sh) by lia. rewrite Z.pow_add_r by lia. nia. }
      destruct (split_byte s x Hs Hx) as (Hhi & Hlo & Hs0 & _ & Hsum).
      destruct (shl_iter_Z s x e A Hs Hx ltac:(lia) HA) as [L1 L2].
      set (hi := Z.shiftr x (8 - s)) in *. set (lo := w8 (Z.shiftl x s)) in *.
      rewrite uval_snoc. fold V.
      assert (Htgt : (V + P256 (length pre) * x) * 2 ^ sh = V * 2 ^ sh + x * 2 ^ s * 2 ^ e).
      { replace ((V + P256 (length pre) * x) * 2 ^ sh)
          with (V * 2 ^ sh + x * (P256 (length pre) * 2 ^ sh)) by ring.
        rewrite HPi. ring. }
      assert (HAM : 0 <= A < M) by (rewrite Hinv; apply Z.mod_pos_bound; exact HM).
      rewrite Htgt. clear Htgt.
      pose proof (Z.div_mod (V * 2 ^ sh) M ltac:(lia)) as Hdm. rewrite <- Hinv in Hdm.
      set (Q := V * 2 ^ sh / M) in *.
      clearbody Q. clear Hinv.
      assert (HMpow : M = 2 ^ (8 * Z.of_nat N)) by (apply P256_pow2).
      destruct (Z.ltb_spec (i + k) (Z.of_nat N)) as [Hlt|Hge].
      2:{ (* nothing is written *)
        replace (i + k + 1 <? Z.of_nat N) with false by (symmetry; apply Z.ltb_ge; lia).
        cbn [andb]. split; [|split; assumption].
        assert (HEM : 2 ^ e = 2 ^ (e - 8 * Z.of_nat N) * M).
        { rewrite HMpow, <- Z.pow_add_r by lia. f_equal. lia. }
        apply Z.mod_unique_pos with (q := Q + x * 2 ^ s * 2 ^ (e - 8 * Z.of_nat N)); [exact HAM|].
        rewrite HEM at 1. rewrite Hdm. fold A. ring. }
      assert (HPe : P256 (Z.to_nat (i + k)) = 2 ^ e) by (apply P256_Zpow; lia).
      destruct (Z.ltb_spec (i + k + 1) (Z.of_nat N)) as [Hlt1|Hge1].
      - (* both parts fit *)
        assert (HPe1 : P256 (Z.to_nat (i + k + 1)) = 2 ^ (e + 8)).
        { rewrite P256_Zpow by lia. f_equal. lia. }
        assert (Hres : exists d, uval d = A + x * 2 ^ s * 2 ^ e /\ bytes_ok d /\ length d = N
                  /\ d = or_nth (Z.to_nat (i + k)) lo
                           (if true && negb (s =? 0) then or_nth (Z.to_nat (i + k + 1)) hi data else data)).
        { destruct (Z.eqb_spec s 0) as [E0|E0]; cbn [andb negb].
          - destruct (or_nth_spec data (Z.to_nat (i + k)) lo Hdata ltac:(lia) Hlo) as (U1 & U2 & U3).
            eexists; split; [|split; [|split; [|reflexivity]]]; [|exact U2|lia].
            rewrite U1, HPe. fold A. rewrite L1, <- Hsum, (Hs0 E0). ring.
          - destruct (or_nth_spec data (Z.to_nat (i + k + 1)) hi Hdata ltac:(lia) Hhi) as (U1 & U2 & U3).
            destruct (or_nth_spec _ (Z.to_nat (i + k)) lo U2 ltac:(lia) Hlo) as (W1 & W2 & W3).
            eexists; split; [|split; [|split; [|reflexivity]]]; [|exact W2|lia].
            rewrite W1, U1, HPe, HPe1. fold A. exact L2. }
        destruct Hres as (d & D1 & D2 & D3 & ->) in |- *.
        match goal with |- uval ?d = _ /\ _ => set (dd := d) in * end.
        split; [|split; assumption].
        pose proof (uval_bound dd D2) as Hb. rewrite D3 in Hb. fold M in Hb.
        rewrite D1 in *.
        apply Z.mod_unique_pos with (q := Q); [clear - Hb HA HE HS Hx; nia|].
        rewrite Hdm. ring.
      - (* only the low part fits *)
        cbn [andb].
        destruct (or_nth_spec data (Z.to_nat (i + k)) lo Hdata ltac:(lia) Hlo) as (U1 & U2 & U3).
        split; [|split; [exact U2|lia]].
        pose proof (uval_bound _ U2) as Hb. rewrite U3, Hlen in Hb. fold M in Hb.
        rewrite U1, HPe in *. fold A in Hb |- *. rewrite L1 in *.
        assert (HEM : M = 256 * 2 ^ e).
        { rewrite HMpow. replace (8 * Z.of_nat N) with (8 + e) by lia.
          rewrite Z.pow_add_r by lia. reflexivity. }
        apply Z.mod_unique_pos with (q := Q + hi); [clear - Hb HA HE Hlo; nia|].
        rewrite Hdm, HEM, <- Hsum. ring. }
    destruct Hstep as (S1 & S2 & S3).
    apply (IH (pre ++ [x]) data2 (i + 1) k s N); try assumption.
    + apply bytes_ok_app. split; [exact Hpre|].
      apply bytes_ok_cons. split; [exact Hx|apply bytes_ok_nil].
    + rewrite app_length. cbn [length]. lia.
    + rewrite app_length. cbn [length]. lia.
Qed.

Theorem shl_spec a sh : bytes_ok a -> 0 <= sh ->
  uval (shl a sh) = (uval a * 2 ^ sh) mod P256 (length a)
  /\ bytes_ok (shl a sh) /\ length (shl a sh) = length a.
Proof.
  intros Ha Hsh. unfold shl.
  destruct (zeros_ok (length a)) as (Z1 & Z2 & Z3).
  pose proof (shl_loop_spec a [] (zeros (length a)) 0 (sh / 8) (sh mod 8) (length a)
                bytes_ok_nil Ha Z1 Z2 ltac:(reflexivity) ltac:(reflexivity) ltac:(lia) ltac:(lia)) as H.
  cbn [uval app] in H. rewrite Z3 in H.
  replace (8 * (sh / 8) + sh mod 8) with sh in H by lia.
  apply H. rewrite Z.mul_0_l. symmetry. apply Z.mod_0_l. pose proof (P256_pos (length a)). lia.
Qed.

Corollary shl_coded_eq_gather a sh : bytes_ok a -> 0 <= sh -> shl a sh = shl_g a sh.
Proof.
  intros Ha Hsh.
  destruct (shl_spec a sh Ha Hsh) as (H1 & H2 & H3).
  destruct (shl_g_spec a sh Ha Hsh) as (G1 & G2 & G3).
  apply uval_inj; [exact H2|exact G2|lia|lia].
Qed.

(** * operator>>= as coded *)
Lemma split_byte_r s x : 0 <= s < 8 -> 0 <= x < 256 ->
  let hi := Z.shiftr x s in
  let lo := w8 (Z.shiftl x (8 - s)) in
  0 <= hi < 256 /\ 0 <= lo < 256 /\ (s = 0 -> lo = 0)
  /\ lo = (x mod 2 ^ s) * 2 ^ (8 - s)
  /\ lo + 256 * hi = x * 2 ^ (8 - s).
Proof.
  intros Hs Hx. cbv zeta. unfold w8.
  rewrite Z.shiftr_div_pow2, Z.shiftl_mul_pow2 by lia.
  assert (HS : 0 < 2 ^ s) by (apply Z.pow_pos_nonneg; lia).
  assert (HT : 0 < 2 ^ (8 - s)) by (apply Z.pow_pos_nonneg; lia).
  assert (H256 : 256 = 2 ^ s * 2 ^ (8 - s)).
  { rewrite <- Z.pow_add_r by lia. replace (s + (8 - s)) with 8 by lia. reflexivity. }
  assert (Hlo : (x * 2 ^ (8 - s)) mod 256 = (x mod 2 ^ s) * 2 ^ (8 - s)).
  { rewrite H256 at 1. apply Z.mul_mod_distr_r; lia. }
  rewrite Hlo.
  set (S := 2 ^ s) in *. set (T := 2 ^ (8 - s)) in *.
  pose proof (Z.div_mod x S ltac:(lia)) as Hdm.
  pose proof (Z.mod_pos_bound x S HS) as Hmb.
  assert (Hq : 0 <= x / S) by (apply Z.div_pos; lia).
  split; [|split; [|split; [|split]]].
  - split; [exact Hq|]. apply Z.div_lt_upper_bound; [exact HS|]. nia.
  - nia.
  - intros ->. subst S. change (2 ^ 0) with 1. rewrite Z.mod_1_r. reflexivity.
  - reflexivity.
  - rewrite H256. nia.
Qed.

Lemma shr_iter_Z s x e A : 0 <= s < 8 -> 0 <= x < 256 -> 0 <= e -> 0 <= A < 2 ^ (e + 8 - s) ->
  let hi := Z.shiftr x s in
  let lo := w8 (Z.shiftl x (8 - s)) in
  Z.lor A (hi * 2 ^ (e + 8)) = A + hi * 2 ^ (e + 8)
  /\ Z.lor (Z.lor A (lo * 2 ^ e)) (hi * 2 ^ (e + 8)) = A + x * 2 ^ (8 - s) * 2 ^ e.
Proof.
  intros Hs Hx He HA.
  destruct (split_byte_r s x Hs Hx) as (Hhi & Hlo & _ & Hlo2 & Hsum).
  cbv zeta.
  set (hi := Z.shiftr x s) in *. set (lo := w8 (Z.shiftl x (8 - s))) in *.
  assert (HS : 0 < 2 ^ s) by (apply Z.pow_pos_nonneg; lia).
  assert (HT : 0 < 2 ^ (8 - s)) by (apply Z.pow_pos_nonneg; lia).
  assert (HE : 0 < 2 ^ e) by (apply Z.pow_pos_nonneg; lia).
  assert (H256 : 256 = 2 ^ s * 2 ^ (8 - s)).
  { rewrite <- Z.pow_add_r by lia. replace (s + (8 - s)) with 8 by lia. reflexivity. }
  assert (Hes : 2 ^ (e + 8 - s) = 2 ^ e * 2 ^ (8 - s)).
  { rewrite <- Z.pow_add_r by lia. f_equal. lia. }
  assert (He8 : 2 ^ (e + 8) = 2 ^ e * 256) by (rewrite Z.pow_add_r by lia; reflexivity).
  pose proof (Z.mod_pos_bound x (2 ^ s) HS) as Hmb.
  assert (HA8 : 0 <= A < 2 ^ (e + 8)).
  { rewrite He8. rewrite Hes in HA. set (S := 2 ^ s) in *. set (T := 2 ^ (8 - s)) in *.
    set (E := 2 ^ e) in *. nia. }
  split.
  { rewrite Z.lor_comm, lor_low_high by lia. ring. }
  assert (H1 : Z.lor A (lo * 2 ^ e) = A + lo * 2 ^ e).
  { replace (lo * 2 ^ e) with ((x mod 2 ^ s) * 2 ^ (e + 8 - s)) by (rewrite Hlo2, Hes; ring).
    rewrite Z.lor_comm, lor_low_high by lia. ring. }
  rewrite H1. rewrite Z.lor_comm, lor_low_high.
  - rewrite He8, <- Hsum. ring.
  - lia.
  - rewrite He8. rewrite Hes in HA. rewrite Hlo2.
    set (S := 2 ^ s) in *. set (T := 2 ^ (8 - s)) in *. set (E := 2 ^ e) in *.
    set (m := x mod S) in *. nia.
Qed.

Lemma shr_loop_spec : forall src pre data i k s N,
  bytes_ok pre -> bytes_ok src -> bytes_ok data -> length data = N ->
  (length pre + length src = N)%nat -> i = Z.of_nat (length pre) -> 0 <= k -> 0 <= s < 8 ->
  uval data = uval pre / 2 ^ (8 * k + s) ->
  let r := shr_loop i k s src data in
  uval r = uval (pre ++ src) / 2 ^ (8 * k + s) /\ bytes_ok r /\ length r = N.
Proof.
  induction src as [|x src IH]; intros pre data i k s N Hpre Hsrc Hdata Hlen HN Hi Hk Hs Hinv.
  - cbn [shr_loop]. rewrite app_nil_r. cbv zeta. split; [exact Hinv|split; assumption].
  - apply bytes_ok_cons in Hsrc. destruct Hsrc as [Hx Hsrc]. unfold byte_ok in Hx.
    cbn [length] in HN.
    cbn [shr_loop]. cbv zeta.
    replace (pre ++ x :: src) with ((pre ++ [x]) ++ src) by (rewrite <- app_assoc; reflexivity).
    match goal with |- context [shr_loop (i + 1) k s src ?d] => set (data2 := d) end.
    assert (Hstep : uval data2 = uval (pre ++ [x]) / 2 ^ (8 * k + s)
                    /\ bytes_ok data2 /\ length data2 = N).
    { subst data2.
      pose proof (uval_bound pre Hpre) as HV. rewrite P256_pow2, <- Hi in HV.
      rewrite uval_snoc, P256_pow2, <- Hi.
      set (V := uval pre) in *. set (sh := 8 * k + s) in *.
      set (A := uval data) in *.
      assert (Hsh : 0 < 2 ^ sh) by (apply Z.pow_pos_nonneg; lia).
      assert (HPi : 0 < 2 ^ (8 * i)) by (apply Z.pow_pos_nonneg; lia).
      destruct (split_byte_r s x Hs Hx) as (Hhi & Hlo & Hs0 & _ & Hsum).
      set (hi := Z.shiftr x s) in *. set (lo := w8 (Z.shiftl x (8 - s))) in *.
      destruct (Z.leb_spec 0 (i - k)) as [Hge|Hlt].
      2:{ (* i < k : nothing is written, both sides are 0 *)
        replace (0 <=? i - k - 1) with false by (symmetry; apply Z.leb_gt; lia).
        cbn [andb]. split; [|split; assumption].
        assert (Hle : 2 ^ (8 * i) * 256 <= 2 ^ sh).
        { change 256 with (2 ^ 8). rewrite <- Z.pow_add_r by lia. apply Z.pow_le_mono_r; lia. }
        fold A. rewrite Hinv. rewrite !Z.div_small; [reflexivity| |]; nia. }
      destruct (Z.leb_spec 0 (i - k - 1)) as [Hge1|Hlt1].
      - (* i > k *)
        set (e := 8 * (i - k - 1)).
        assert (HE : 0 < 2 ^ e) by (apply Z.pow_pos_nonneg; lia).
        assert (HPe : P256 (Z.to_nat (i - k - 1)) = 2 ^ e) by (apply P256_Zpow; lia).
        assert (HPe1 : P256 (Z.to_nat (i - k)) = 2 ^ (e + 8)).
        { rewrite P256_Zpow by lia. f_equal. lia. }
        assert (H8i : 2 ^ (8 * i) = 2 ^ (e + 8 - s) * 2 ^ sh).
        { rewrite <- Z.pow_add_r by lia. f_equal. lia. }
        assert (HA : 0 <= A < 2 ^ (e + 8 - s)).
        { rewrite Hinv. split; [apply Z.div_pos; lia|].
          apply Z.div_lt_upper_bound; [exact Hsh|]. rewrite Z.mul_comm, <- H8i. lia. }
        destruct (shr_iter_Z s x e A Hs Hx ltac:(lia) HA) as [L1 L2].
        fold hi in L1, L2. fold lo in L2.
        assert (Htgt : (V + 2 ^ (8 * i) * x) / 2 ^ sh = A + x * 2 ^ (8 - s) * 2 ^ e).
        { rewrite H8i.
          replace (V + 2 ^ (e + 8 - s) * 2 ^ sh * x) with (V + (x * 2 ^ (e + 8 - s)) * 2 ^ sh) by ring.
          rewrite Z.div_add by lia. rewrite <- Hinv. f_equal.
          replace (e + 8 - s) with (8 - s + e) by lia. rewrite Z.pow_add_r by lia. ring. }
        rewrite Htgt.
        destruct (Z.eqb_spec s 0) as [E0|E0]; cbn [andb negb].
        + destruct (or_nth_spec data (Z.to_nat (i - k)) hi Hdata ltac:(lia) Hhi) as (U1 & U2 & U3).
          split; [|split; [exact U2|lia]].
          rewrite U1, HPe1. fold A. rewrite L1.
          specialize (Hs0 E0). rewrite Hs0 in Hsum.
          rewrite <- Hsum. replace (e + 8) with (8 + e) by lia. rewrite Z.pow_add_r by lia.
          change (2 ^ 8) with 256. ring.
        + destruct (or_nth_spec data (Z.to_nat (i - k - 1)) lo Hdata ltac:(lia) Hlo) as (U1 & U2 & U3).
          destruct (or_nth_spec _ (Z.to_nat (i - k)) hi U2 ltac:(lia) Hhi) as (W1 & W2 & W3).
          split; [|split; [exact W2|lia]].
          rewrite W1, U1, HPe, HPe1. fold A. exact L2.
      - (* i = k *)
        cbn [andb]. assert (Hik : i - k = 0) by lia. rewrite Hik. change (Z.to_nat 0) with 0%nat.
        destruct (or_nth_spec data 0%nat hi Hdata ltac:(lia) Hhi) as (U1 & U2 & U3).
        split; [|split; [exact U2|lia]].
        rewrite U1, P256_0, Z.mul_1_r. fold A.
        assert (HA0 : A = 0).
        { rewrite Hinv. apply Z.div_small. split; [lia|].
          assert (2 ^ (8 * i) <= 2 ^ sh) by (apply Z.pow_le_mono_r; lia). lia. }
        rewrite HA0, Z.lor_0_l.
        assert (Hshs : 2 ^ sh = 2 ^ (8 * i) * 2 ^ s).
        { rewrite <- Z.pow_add_r by lia. f_equal. lia. }
        rewrite Hshs, <- Z.div_div by (try apply Z.pow_pos_nonneg; lia).
        replace (V + 2 ^ (8 * i) * x) with (V + x * 2 ^ (8 * i)) by ring.
        rewrite Z.div_add by lia. rewrite (Z.div_small V) by lia.
        unfold hi. rewrite Z.shiftr_div_pow2 by lia. reflexivity. }
    destruct Hstep as (S1 & S2 & S3).
    apply (IH (pre ++ [x]) data2 (i + 1) k s N); try assumption.
    + apply bytes_ok_app. split; [exact Hpre|].
      apply bytes_ok_cons. split; [exact Hx|apply bytes_ok_nil].
    + rewrite app_length. cbn [length]. lia.
    + rewrite app_length. cbn [length]. lia.
Qed.

Theorem shr_spec a sh : bytes_ok a -> 0 <= sh ->
  uval (shr a sh) = uval a / 2 ^ sh
  /\ bytes_ok (shr a sh) /\ length (shr a sh) = length a.
Proof.
  intros Ha Hsh. unfold shr.
  destruct (zeros_ok (length a)) as (Z1 & Z2 & Z3).
  pose proof (shr_loop_spec a [] (zeros (length a)) 0 (sh / 8) (sh mod 8) (length a)
                bytes_ok_nil Ha Z1 Z2 ltac:(reflexivity) ltac:(reflexivity) ltac:(lia) ltac:(lia)) as H.
  cbn [uval app] in H. rewrite Z3 in H.
  replace (8 * (sh / 8) + sh mod 8) with sh in H by lia.
  apply H. symmetry. apply Z.div_0_l. apply Z.pow_nonzero; lia.
Qed.

Corollary shr_coded_eq_gather a sh : bytes_ok a -> 0 <= sh -> shr a sh = shr_g a sh.
Proof.
  intros Ha Hsh.
  destruct (shr_spec a sh Ha Hsh) as (H1 & H2 & H3).
  destruct (shr_g_spec a sh Ha Hsh) as (G1 & G2 & G3).
  apply uval_inj; [exact H2|exact G2|lia|lia].
Qed.
