(** Proofs about the compact-target codec of CompactDefs.v. *)
From Coq Require Import ZArith Lia Bool.
From VB Require Import Base.Bits Arith.CompactDefs.
Local Open Scope Z_scope.
Ltac Zify.zify_post_hook ::= Z.div_mod_to_equations.

(** the canonical positive compact values: what [toBits] produces for a
    non-zero target that fits: size 3..33, mantissa with its top byte or the one
    below non-zero, sign bit clear, no overflow *)
Definition canonical_pos (c : Z) : Prop :=
  let s := c / 2 ^ 24 in
  let m := c mod 2 ^ 24 in
  0 <= c < 2 ^ 32 /\ 3 <= s <= 33 /\ 2 ^ 15 <= m < 2 ^ 23 /\ (2 ^ 16 <= m -> s <= 32).

Lemma bits_mul_pow2 m k : 0 < m -> 0 <= k -> bits (m * 2 ^ k) = Z.log2 m + k + 1.
Proof.
  intros Hm Hk. unfold bits.
  pose proof (Z.pow_pos_nonneg 2 k ltac:(lia) Hk) as HP.
  destruct (Z.leb_spec (m * 2 ^ k) 0) as [H|H]; [nia|].
  rewrite Z.log2_mul_pow2 by lia. lia.
Qed.

Lemma log2_range m lo hi : 0 <= lo -> 2 ^ lo <= m < 2 ^ hi -> lo <= Z.log2 m < hi.
Proof.
  intros Hlo [H1 H2].
  assert (0 < m) by (pose proof (Z.pow_pos_nonneg 2 lo); lia).
  split.
  - apply Z.log2_le_pow2; lia.
  - apply Z.log2_lt_pow2; lia.
Qed.

Lemma decompose c : 0 <= c < 2 ^ 32 ->
  Z.shiftr c 24 = c / 2 ^ 24 /\
  (c mod 2 ^ 24 < 2 ^ 23 -> Z.land c 8388607 = c mod 2 ^ 24 /\ Z.land c 8388608 = 0).
Proof.
  intros Hc. split; [apply Z.shiftr_div_pow2; lia|].
  intros Hm. split.
  - change 8388607 with (2 ^ 23 - 1). rewrite land_ones_mod by lia. lia.
  - change 8388608 with (2 ^ 23). rewrite land_pow2 by lia.
    assert (Z.testbit c 23 = false) as ->; [|reflexivity].
    rewrite <- (Z.mod_pow2_bits_low c 24 23) by lia. apply testbit_low. lia.
Qed.

Lemma size_short s : (15 + 8 * (s - 3) + 1 + 7) / 8 = s - 1.
Proof. lia. Qed.

Lemma size_exact l s : 16 <= l < 23 -> (l + 8 * (s - 3) + 1 + 7) / 8 = s.
Proof. lia. Qed.

Lemma toBits_fromBits c :
  canonical_pos c ->
  let '(t, neg, ovf) := fromBits c in
  neg = false /\ ovf = false /\ 0 < t < 2 ^ 256 /\ toBits t false = c.
Proof.
  unfold canonical_pos. cbv zeta. intros (Hc & Hs & Hm & Hms).
  destruct (decompose c Hc) as [Hsh Hland]. destruct (Hland (proj2 Hm)) as [Hl1 Hl2]. clear Hland.
  set (s := c / 2 ^ 24) in *. set (m := c mod 2 ^ 24) in *.
  assert (Hcsm : c = s * 2 ^ 24 + m) by (subst s m; change (2 ^ 24) with 16777216; lia).
  unfold fromBits. rewrite Hsh, Hl1, Hl2. cbn [Z.eqb negb andb].
  assert (Hm0 : (m =? 0) = false) by (apply Z.eqb_neq; change (2 ^ 15) with 32768 in Hm; lia).
  (* value of the target *)
  set (k := 8 * (s - 3)).
  assert (Hk : 0 <= k) by (subst k; lia).
  assert (HP : 0 < 2 ^ k) by (apply Z.pow_pos_nonneg; lia).
  assert (Ht : (if s <=? 3 then (if s <=? 3 then Z.shiftr m (8 * (3 - s)) else m)
                else u256 (Z.shiftl (if s <=? 3 then Z.shiftr m (8 * (3 - s)) else m) k)) = m * 2 ^ k
               /\ m * 2 ^ k < 2 ^ 256).
  { assert (Hlt : m * 2 ^ k < 2 ^ 256).
    { destruct (Z_lt_le_dec m (2 ^ 16)) as [Hsm|Hbg].
      - assert (2 ^ k <= 2 ^ 240) by (apply Z.pow_le_mono_r; subst k; lia).
        replace (2 ^ 256) with (2 ^ 16 * 2 ^ 240) by reflexivity. nia.
      - assert (2 ^ k <= 2 ^ 232) by (apply Z.pow_le_mono_r; subst k; lia).
        replace (2 ^ 256) with (2 ^ 24 * 2 ^ 232) by reflexivity.
        assert (m < 2 ^ 24) by (change (2 ^ 23) with 8388608 in Hm; change (2 ^ 24) with 16777216; lia). nia. }
    split; [|exact Hlt].
    destruct (Z.leb_spec s 3) as [Hle|Hgt].
    - assert (s = 3) by lia. subst k. replace (8 * (3 - s)) with 0 by lia. replace (8 * (s - 3)) with 0 by lia.
      rewrite Z.shiftr_0_r. change (2 ^ 0) with 1. lia.
    - rewrite Z.shiftl_mul_pow2 by exact Hk. unfold u256, two256. apply Z.mod_small.
      change (2 ^ 15) with 32768 in Hm. nia. }
  destruct Ht as [Ht Htlt].
  set (nW := if s <=? 3 then Z.shiftr m (8 * (3 - s)) else m) in *.
  assert (HnW : nW = m).
  { subst nW. destruct (Z.leb_spec s 3); [|reflexivity]. replace (8 * (3 - s)) with 0 by lia. apply Z.shiftr_0_r. }
  rewrite Ht. rewrite HnW, Hm0. cbn [negb andb].
  (* overflow flag *)
  assert (Hovf : ((34 <? s) || (255 <? m) && (33 <? s) || (65535 <? m) && (32 <? s)) = false).
  { destruct (Z.ltb_spec 34 s); [lia|]. destruct (Z.ltb_spec 33 s); [lia|].
    rewrite andb_false_r. cbn [orb].
    destruct (Z.ltb_spec 65535 m); [|reflexivity]. change (2 ^ 16) with 65536 in Hms.
    destruct (Z.ltb_spec 32 s); [lia|reflexivity]. }
  rewrite Hovf.
  split; [reflexivity|]. split; [reflexivity|].
  assert (Hmpos : 0 < m) by (change (2 ^ 15) with 32768 in Hm; lia).
  split; [split; [nia|exact Htlt]|].
  (* toBits *)
  unfold toBits.
  destruct (Z_lt_le_dec m (2 ^ 16)) as [Hsm|Hbg].
  - (* mantissa 0x8000..0xffff: size comes out one short, sign bit set, corrected *)
    assert (Hlog : Z.log2 m = 15).
    { apply Z.log2_unique; [lia|]. change (Z.succ 15) with 16. lia. }
    assert (Hsz : (bits (m * 2 ^ k) + 7) / 8 = s - 1).
    { rewrite bits_mul_pow2 by lia. rewrite Hlog. unfold k. apply size_short. }
    rewrite !Hsz.
    assert (Hnc : (if s - 1 <=? 3
                   then u32 (Z.shiftl (u32 (u64 (m * 2 ^ k))) (8 * (3 - (s - 1))))
                   else u32 (u64 (Z.shiftr (m * 2 ^ k) (8 * (s - 1 - 3))))) = m * 256).
    { destruct (Z.leb_spec (s - 1) 3) as [Hle|Hgt].
      - assert (Hs34 : s = 3 \/ s = 4) by lia. destruct Hs34 as [->| ->]; subst k.
        + change (2 ^ (8 * (3 - 3))) with 1. rewrite Z.mul_1_r.
          change (2 ^ 16) with 65536 in Hsm.
          unfold u32, u64, two32. rewrite (Z.mod_small m (2 ^ 64)) by lia.
          rewrite (Z.mod_small m (2 ^ 32)) by lia.
          change (8 * (3 - (3 - 1))) with 8. rewrite Z.shiftl_mul_pow2 by lia. change (2 ^ 8) with 256.
          apply Z.mod_small. lia.
        + change (2 ^ (8 * (4 - 3))) with 256. change (8 * (3 - (4 - 1))) with 0. rewrite Z.shiftl_0_r.
          change (2 ^ 16) with 65536 in Hsm.
          unfold u32, u64, two32. rewrite (Z.mod_small (m * 256) (2 ^ 64)) by lia.
          rewrite Z.mod_mod by lia. apply Z.mod_small. lia.
      - replace (2 ^ k) with (256 * 2 ^ (8 * (s - 1 - 3))).
        2:{ subst k. replace (8 * (s - 3)) with (8 + 8 * (s - 1 - 3)) by lia.
            rewrite pow2_split by lia. reflexivity. }
        replace (m * (256 * 2 ^ (8 * (s - 1 - 3)))) with (m * 256 * 2 ^ (8 * (s - 1 - 3))) by lia.
        rewrite shiftr_mul_pow2 by lia.
        change (2 ^ 16) with 65536 in Hsm.
        unfold u32, u64, two32. rewrite (Z.mod_small (m * 256) (2 ^ 64)) by lia. apply Z.mod_small. lia. }
    rewrite Hnc.
    change 8388608 with (2 ^ 23). rewrite land_pow2 by lia.
    assert (Z.testbit (m * 256) 23 = true) as ->.
    { apply testbit_high; [lia|]. change (2 ^ 15) with 32768 in Hm. change (2 ^ 16) with 65536 in Hsm.
      change (2 ^ 23) with 8388608. change (2 ^ (23 + 1)) with 16777216. lia. }
    change (2 ^ 23 =? 0) with false. cbn [negb].
    replace (Z.shiftr (m * 256) 8) with m by (change 256 with (2 ^ 8); symmetry; apply shiftr_mul_pow2; lia).
    replace (s - 1 + 1) with s by lia.
    rewrite lor_shiftl_add by (change (2 ^ 16) with 65536 in Hsm; change (2 ^ 24) with 16777216; lia).
    cbn [andb]. rewrite Z.lor_0_r. lia.
  - (* mantissa 0x10000..0x7fffff *)
    pose proof (log2_range m 16 23 ltac:(lia) (conj Hbg (proj2 Hm))) as Hlog.
    assert (Hsz : (bits (m * 2 ^ k) + 7) / 8 = s).
    { rewrite bits_mul_pow2 by lia. unfold k. apply (size_exact _ s Hlog). }
    rewrite !Hsz.
    destruct (Z.leb_spec s 3) as [Hle|Hgt].
    + assert (s = 3) by lia. subst k. replace (8 * (s - 3)) with 0 by lia. replace (8 * (3 - s)) with 0 by lia.
      change (2 ^ 0) with 1. rewrite Z.mul_1_r, Z.shiftl_0_r.
      change (2 ^ 23) with 8388608 in Hm.
      unfold u32, u64, two32. rewrite (Z.mod_small m (2 ^ 64)) by lia. rewrite Z.mod_mod by lia.
      rewrite (Z.mod_small m (2 ^ 32)) by lia.
      change 8388608 with (2 ^ 23). rewrite land_pow2 by lia.
      rewrite testbit_low by (change (2 ^ 23) with 8388608; lia). cbn [Z.eqb negb].
      rewrite lor_shiftl_add by (change (2 ^ 24) with 16777216; lia).
      cbn [andb]. rewrite Z.lor_0_r. lia.
    + fold k. rewrite shiftr_mul_pow2 by exact Hk.
      change (2 ^ 23) with 8388608 in Hm.
      unfold u32, u64, two32. rewrite (Z.mod_small m (2 ^ 64)) by lia.
      rewrite (Z.mod_small m (2 ^ 32)) by lia.
      change 8388608 with (2 ^ 23). rewrite land_pow2 by lia.
      rewrite testbit_low by (change (2 ^ 23) with 8388608; lia). cbn [Z.eqb negb].
      rewrite lor_shiftl_add by (change (2 ^ 24) with 16777216; lia).
      cbn [andb]. rewrite Z.lor_0_r. lia.
Qed.
