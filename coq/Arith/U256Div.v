(** Value-level correctness of U256Defs.v, part 3: operator/= (shift-subtract
    long division; division by zero throws) and the byte-level compact codec. *)
From Coq Require Import ZArith Lia List Bool.
From VB Require Import Base.Bits Arith.CompactDefs Arith.U256Defs Arith.U256Basics Arith.U256Shift Arith.U256Coded.
Import ListNotations.
Local Open Scope Z_scope.
Ltac Zify.zify_post_hook ::= Z.div_mod_to_equations.

(** the bit that [data_[shift / 8] |= 1 << (shift & 7)] sets *)
Lemma setbit_spec q s : bytes_ok q -> 0 <= s < 8 * Z.of_nat (length q) ->
  (exists c, uval q = c * 2 ^ (s + 1)) ->
  uval (or_nth (Z.to_nat (s / 8)) (Z.shiftl 1 (Z.land s 7)) q) = uval q + 2 ^ s
  /\ bytes_ok (or_nth (Z.to_nat (s / 8)) (Z.shiftl 1 (Z.land s 7)) q)
  /\ length (or_nth (Z.to_nat (s / 8)) (Z.shiftl 1 (Z.land s 7)) q) = length q.
Proof.
  intros Hq Hs [c Hc].
  assert (Hland : Z.land s 7 = s mod 8).
  { change 7 with (2 ^ 3 - 1). rewrite land_ones_mod by lia. reflexivity. }
  rewrite Hland, Z.shiftl_mul_pow2, Z.mul_1_l by lia.
  assert (Hm : 0 <= 2 ^ (s mod 8) < 256).
  { split; [apply Z.pow_nonneg; lia|]. change 256 with (2 ^ 8). apply Z.pow_lt_mono_r; lia. }
  assert (Hi : (Z.to_nat (s / 8) < length q)%nat).
  { apply Nat2Z.inj_lt. rewrite Z2Nat.id by (apply Z.div_pos; lia). apply Z.div_lt_upper_bound; lia. }
  destruct (or_nth_spec q (Z.to_nat (s / 8)) (2 ^ (s mod 8)) Hq Hi Hm) as (Hv & Hb & Hl).
  split; [|split; assumption].
  rewrite Hv, P256_Zpow by lia. rewrite <- Z.pow_add_r by lia.
  replace (s mod 8 + 8 * (s / 8)) with s by lia.
  rewrite Hc. replace (2 ^ s) with (1 * 2 ^ s) at 1 by lia.
  replace (c * 2 ^ (s + 1)) with ((2 * c) * 2 ^ s) by (rewrite Z.pow_add_r by lia; change (2 ^ 1) with 2; lia).
  rewrite <- Z.shiftl_mul_pow2, <- Z.shiftl_mul_pow2 by lia.
  rewrite <- Z.shiftl_lor. rewrite !Z.shiftl_mul_pow2 by lia.
  assert (Hodd : Z.lor (2 * c) 1 = 2 * c + 1).
  { rewrite Z.lor_comm.
    pose proof (lor_shiftl_add 1 c 1 ltac:(lia) ltac:(change (2 ^ 1) with 2; lia)) as H.
    rewrite Z.shiftl_mul_pow2 in H by lia. change (2 ^ 1) with 2 in H.
    replace (2 * c) with (c * 2) by lia. rewrite H. lia. }
  rewrite Hodd. lia.
Qed.

(** * the division loop *)
Lemma div_loop_spec : forall f s num dv q N D,
  bytes_ok num -> bytes_ok dv -> bytes_ok q ->
  length dv = length num -> length q = length num ->
  s = Z.of_nat f - 1 -> s < 8 * Z.of_nat (length num) ->
  0 < D ->
  (0 <= s -> uval dv = D * 2 ^ s) ->
  N = uval q * D + uval num ->
  uval num < D * 2 ^ (s + 1) ->
  (exists c, uval q = c * 2 ^ (s + 1)) ->
  uval (div_loop f s num dv q) = N / D
  /\ bytes_ok (div_loop f s num dv q) /\ length (div_loop f s num dv q) = length num.
Proof.
  induction f as [|f IH]; intros s num dv q N D Hn Hd Hq Hld Hlq Hs Hs8 HD Hdv HN Hlt Hc.
  - cbn [div_loop]. split; [|split; assumption].
    assert (s = -1) by lia. subst s. change (2 ^ (-1 + 1)) with 1 in Hlt.
    pose proof (uval_bound num Hn). apply Z.div_unique with (r := uval num); lia.
  - assert (Hs0 : 0 <= s) by lia.
    cbn [div_loop]. destruct (Z.ltb_spec s 0) as [Hneg|_]; [lia|].
    pose proof (uval_bound num Hn) as Hbn. pose proof (uval_bound dv Hd) as Hbd.
    specialize (Hdv Hs0).
    assert (HP : 0 < 2 ^ s) by (apply Z.pow_pos_nonneg; lia).
    assert (HP1 : 2 ^ (s + 1) = 2 * 2 ^ s) by (rewrite Z.pow_add_r by lia; change (2 ^ 1) with 2; lia).
    rewrite (cmp_spec num dv Hn Hd ltac:(lia)).
    destruct (shr_spec dv 1 Hd ltac:(lia)) as (Hsv & Hsb & Hsl).
    change (2 ^ 1) with 2 in Hsv.
    assert (Hdv' : 0 <= s - 1 -> uval (shr dv 1) = D * 2 ^ (s - 1)).
    { intros Hs1. rewrite Hsv, Hdv. replace s with ((s - 1) + 1) at 1 by lia.
      rewrite Z.pow_add_r by lia. change (2 ^ 1) with 2.
      replace (D * (2 ^ (s - 1) * 2)) with ((D * 2 ^ (s - 1)) * 2) by lia. apply Z.div_mul. lia. }
    destruct Hc as [c Hc].
    destruct (Z.compare_spec (uval num) (uval dv)) as [E|E|E]; cbn [sgn_of Z.leb Z.compare].
    + (* num = div *)
      destruct (usub_spec num dv Hn Hd ltac:(lia)) as (Huv & Hub & Hul).
      destruct (setbit_spec q s Hq ltac:(lia) (ex_intro _ c Hc)) as (Hqv & Hqb & Hql).
      rewrite <- Hul. apply (IH (s - 1) (usub num dv) (shr dv 1) _ N D); try assumption; try lia.
      * rewrite Hqv, Huv, E, Z.sub_diag, Z.mod_0_l by (pose proof (P256_pos (length num)); lia). lia.
      * rewrite Huv, E, Z.sub_diag, Z.mod_0_l by (pose proof (P256_pos (length num)); lia).
        replace (s - 1 + 1) with s by lia. nia.
      * exists (2 * c + 1). rewrite Hqv, Hc. replace (s - 1 + 1) with s by lia. lia.
    + (* num < div *)
      apply (IH (s - 1) num (shr dv 1) q N D); try assumption; try lia.
      * replace (s - 1 + 1) with s by lia. lia.
      * exists (2 * c). replace (s - 1 + 1) with s by lia. lia.
    + (* num > div *)
      destruct (usub_spec num dv Hn Hd ltac:(lia)) as (Huv & Hub & Hul).
      destruct (setbit_spec q s Hq ltac:(lia) (ex_intro _ c Hc)) as (Hqv & Hqb & Hql).
      rewrite (Z.mod_small (uval num - uval dv)) in Huv by lia.
      rewrite <- Hul. apply (IH (s - 1) (usub num dv) (shr dv 1) _ N D); try assumption; try lia.
      all: replace (s - 1 + 1) with s by lia.
      all: try (exists (2 * c + 1); rewrite Hqv, Hc; lia).
      all: rewrite ?Hqv, ?Huv; lia.
Qed.

Lemma bits_pos_bounds v : 0 < v -> 1 <= bits v /\ 2 ^ (bits v - 1) <= v < 2 ^ bits v.
Proof.
  intros Hv. unfold bits. destruct (Z.leb_spec v 0); [lia|].
  pose proof (Z.log2_nonneg v). destruct (Z.log2_spec v Hv) as [H1 H2].
  replace (Z.log2 v + 1 - 1) with (Z.log2 v) by lia.
  replace (Z.log2 v + 1) with (Z.succ (Z.log2 v)) by lia. lia.
Qed.

Lemma bits_zero v : 0 <= v -> (bits v = 0 <-> v = 0).
Proof.
  intros Hv. unfold bits. destruct (Z.leb_spec v 0); [lia|].
  pose proof (Z.log2_nonneg v). lia.
Qed.

Theorem udiv_spec a b : bytes_ok a -> bytes_ok b -> length a = length b ->
  match udiv a b with
  | Throw => uval b = 0
  | Done q => 0 < uval b /\ uval q = uval a / uval b /\ bytes_ok q /\ length q = length a
  end.
Proof.
  intros Ha Hb Hl. unfold udiv.
  rewrite (ubits_spec a Ha), (ubits_spec b Hb).
  pose proof (uval_bound a Ha) as Hba. pose proof (uval_bound b Hb) as Hbb.
  destruct (Z.eqb_spec (bits (uval b)) 0) as [E|E].
  - cbv iota. apply (proj1 (bits_zero (uval b) ltac:(lia))) in E. exact E.
  - cbv iota. assert (HD : 0 < uval b) by (destruct (Z.eq_dec (uval b) 0) as [E0|E0]; [apply (proj2 (bits_zero (uval b) ltac:(lia))) in E0; lia|lia]).
    destruct (bits_pos_bounds _ HD) as (Hdb1 & Hdlo & Hdhi).
    destruct (zeros_ok (length a)) as (Z1 & Z2 & Z3).
    destruct (Z.ltb_spec (bits (uval a)) (bits (uval b))) as [Hlt|Hge]; cbv iota.
    + split; [exact HD|]. split; [|split; assumption].
      rewrite Z3. symmetry. apply Z.div_small. split; [lia|].
      destruct (Z.eq_dec (uval a) 0) as [E0|E0]; [lia|].
      destruct (bits_pos_bounds (uval a) ltac:(lia)) as (_ & _ & Hahi).
      assert (2 ^ bits (uval a) <= 2 ^ (bits (uval b) - 1)) by (apply Z.pow_le_mono_r; lia). lia.
    + split; [exact HD|].
      assert (HN : 0 < uval a).
      { destruct (Z.eq_dec (uval a) 0) as [E0|E0]; [|lia]. rewrite E0 in Hge. cbn in Hge. lia. }
      destruct (bits_pos_bounds _ HN) as (Hnb1 & Hnlo & Hnhi).
      set (nb := bits (uval a)) in *. set (db := bits (uval b)) in *.
      set (s := nb - db).
      assert (Hnb8 : nb <= 8 * Z.of_nat (length a)).
      { rewrite P256_pow2 in Hba.
        destruct (Z_le_gt_dec nb (8 * Z.of_nat (length a))) as [|Hgt]; [assumption|].
        assert (2 ^ (8 * Z.of_nat (length a)) <= 2 ^ (nb - 1)) by (apply Z.pow_le_mono_r; lia). lia. }
      destruct (shl_spec b s Hb ltac:(subst s; lia)) as (Hsv & Hsb & Hsl).
      assert (Hpow : 2 ^ nb = 2 ^ db * 2 ^ s) by (rewrite <- Z.pow_add_r by (subst s; lia); f_equal; subst s; lia).
      assert (Hps : 0 < 2 ^ s) by (apply Z.pow_pos_nonneg; subst s; lia).
      assert (Hfit : uval b * 2 ^ s < P256 (length b)).
      { rewrite <- Hl, P256_pow2.
        assert (2 ^ nb <= 2 ^ (8 * Z.of_nat (length a))) by (apply Z.pow_le_mono_r; lia). nia. }
      rewrite Z.mod_small in Hsv by nia.
      replace (length a) with (length a) at 2 by reflexivity.
      assert (Hgoal := div_loop_spec (S (Z.to_nat s)) s a (shl b s) (zeros (length a)) (uval a) (uval b)
                         Ha Hsb Z1 ltac:(lia) Z2 ltac:(subst s; lia) ltac:(subst s; lia) HD
                         (fun _ => Hsv) ltac:(rewrite Z3; lia)).
      apply Hgoal.
      * assert (Hdb2 : 2 ^ db = 2 * 2 ^ (db - 1)).
        { replace db with ((db - 1) + 1) at 1 by lia. rewrite Z.pow_add_r by lia. change (2 ^ 1) with 2. lia. }
        rewrite Z.pow_add_r by (subst s; lia). change (2 ^ 1) with 2. nia.
      * exists 0. rewrite Z3. lia.
Qed.

(** * byte-level compact codec = value-level compact codec of CompactDefs.v *)
Theorem fromBits_b_spec c : 0 <= c < 2 ^ 32 ->
  let '(t, neg, ovf) := fromBits_b c in
  let '(t', neg', ovf') := fromBits c in
  uval t = t' /\ neg = neg' /\ ovf = ovf' /\ bytes_ok t /\ length t = WIDTH.
Proof.
  intros Hc. unfold fromBits_b, fromBits.
  set (nSize := Z.shiftr c 24).
  set (nWord0 := Z.land c 8388607).
  assert (Hw0 : 0 <= nWord0 < 2 ^ 23).
  { subst nWord0. change 8388607 with (2 ^ 23 - 1). rewrite land_ones_mod by lia.
    apply Z.mod_pos_bound. lia. }
  assert (HnS : 0 <= nSize).
  { subst nSize. rewrite Z.shiftr_div_pow2 by lia. apply Z.div_pos; lia. }
  set (nWord := if nSize <=? 3 then Z.shiftr nWord0 (8 * (3 - nSize)) else nWord0).
  assert (Hw : 0 <= nWord < 2 ^ 64).
  { subst nWord. change (2 ^ 23) with 8388608 in Hw0. change (2 ^ 64) with 18446744073709551616.
    destruct (Z.leb_spec nSize 3); [|lia].
    rewrite Z.shiftr_div_pow2 by lia.
    assert (0 < 2 ^ (8 * (3 - nSize))) by (apply Z.pow_pos_nonneg; lia).
    split; [apply Z.div_pos; lia|].
    assert (nWord0 / 2 ^ (8 * (3 - nSize)) <= nWord0) by (apply Z.div_le_upper_bound; nia). lia. }
  destruct (of_u64_spec nWord Hw) as (Hov & Hob & Hol).
  destruct (Z.leb_spec nSize 3) as [Hle|Hgt].
  - repeat split; assumption.
  - destruct (shl_spec (of_u64 nWord) (8 * (nSize - 3)) Hob ltac:(lia)) as (Hsv & Hsb & Hsl).
    split; [|repeat split; try assumption; lia].
    rewrite Hsv, Hov, Hol. unfold u256, two256. rewrite Z.shiftl_mul_pow2 by lia. reflexivity.
Qed.

Theorem toBits_b_spec a neg : bytes_ok a -> length a = WIDTH -> toBits_b a neg = toBits (uval a) neg.
Proof.
  intros Ha Hl. unfold toBits_b, toBits.
  rewrite (ubits_spec a Ha).
  set (nSize := (bits (uval a) + 7) / 8).
  assert (HnS : 0 <= nSize).
  { subst nSize. unfold bits. destruct (Z.leb_spec (uval a) 0); [lia|].
    pose proof (Z.log2_nonneg (uval a)). lia. }
  rewrite (getLow64_spec a Ha) by (rewrite Hl; unfold WIDTH; lia).
  destruct (Z.leb_spec nSize 3) as [Hle|Hgt].
  - reflexivity.
  - destruct (shr_spec a (8 * (nSize - 3)) Ha ltac:(lia)) as (Hsv & Hsb & Hsl).
    rewrite (getLow64_spec _ Hsb) by (rewrite Hsl, Hl; unfold WIDTH; lia).
    rewrite Hsv. unfold u32, u64, two32. rewrite <- (Z.shiftr_div_pow2 (uval a)) by lia. reflexivity.
Qed.
