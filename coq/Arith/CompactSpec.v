(** Full specification of the compact-target codec of CompactDefs.v
    (ArithUint256::fromBits / toBits, src/pop/arith_uint256.cpp:18-40,178-199):
    - [fromBits_spec]   : what [fromBits] returns for EVERY uint32, by structure
                          (size byte, sign bit, 23-bit mantissa); the overflow flag is
                          characterised by the mathematical value m * 256^(s-3) >= 2^256;
    - [toBits_struct]   : [toBits] as size/sign/mantissa, [toBits_range], [toBits_sign];
    - [fromBits_toBits] : decode (encode v) = v truncated to its leading bytes. *)
From Coq Require Import ZArith Lia Bool.
From VB Require Import Base.Bits Arith.CompactDefs.
Local Open Scope Z_scope.
Ltac Zify.zify_post_hook ::= Z.div_mod_to_equations.

(** * Generic helpers *)

Lemma testbit_leb a i : 0 <= i -> 0 <= a < 2 ^ (i + 1) -> Z.testbit a i = (2 ^ i <=? a).
Proof.
  intros Hi Ha. destruct (Z.leb_spec (2 ^ i) a) as [H|H].
  - apply testbit_high; lia.
  - apply testbit_low; lia.
Qed.

Lemma pow2_pos k : 0 <= k -> 0 < 2 ^ k.
Proof. intros. apply Z.pow_pos_nonneg; lia. Qed.

(** * Structure of a compact value *)

(** size byte [s], sign bit [sg], 23-bit mantissa [m] *)
Definition compact (s sg m : Z) : Z := s * 2 ^ 24 + sg * 2 ^ 23 + m.

Lemma compact_fields s sg m :
  0 <= s < 256 -> 0 <= sg <= 1 -> 0 <= m < 2 ^ 23 ->
  let c := compact s sg m in
  0 <= c < 2 ^ 32 /\
  Z.shiftr c 24 = s /\ Z.land c 8388607 = m /\ Z.land c 8388608 = sg * 8388608 /\
  Z.testbit c 23 = (sg =? 1).
Proof.
  intros Hs Hsg Hm c. subst c. unfold compact.
  change (2 ^ 23) with 8388608 in *. change (2 ^ 24) with 16777216.
  change (2 ^ 32) with 4294967296.
  set (c := s * 16777216 + sg * 8388608 + m).
  assert (Hc : 0 <= c < 4294967296) by (subst c; lia).
  assert (Hbit : Z.testbit c 23 = (sg =? 1)).
  { pose proof (Z.testbit_spec' c 23 ltac:(lia)) as Hb. change (2 ^ 23) with 8388608 in Hb.
    destruct (Z.testbit c 23); cbn [Z.b2z] in Hb; destruct (Z.eqb_spec sg 1); subst c; lia. }
  split; [exact Hc|]. split; [|split; [|split]].
  - rewrite Z.shiftr_div_pow2 by lia. change (2 ^ 24) with 16777216. subst c. lia.
  - change 8388607 with (2 ^ 23 - 1). rewrite land_ones_mod by lia.
    change (2 ^ 23) with 8388608. subst c. lia.
  - change 8388608 with (2 ^ 23) at 1. rewrite land_pow2 by lia. rewrite Hbit.
    change (2 ^ 23) with 8388608. destruct (Z.eqb_spec sg 1); lia.
  - exact Hbit.
Qed.

(** every uint32 is of that form *)
Lemma fromBits_total c : 0 <= c < 2 ^ 32 ->
  exists s sg m, 0 <= s < 256 /\ 0 <= sg <= 1 /\ 0 <= m < 2 ^ 23 /\
                 c = s * 2 ^ 24 + sg * 2 ^ 23 + m.
Proof.
  intros Hc. exists (c / 2 ^ 24), ((c / 2 ^ 23) mod 2), (c mod 2 ^ 23).
  change (2 ^ 23) with 8388608. change (2 ^ 24) with 16777216.
  change (2 ^ 32) with 4294967296 in Hc. lia.
Qed.

(** * (1) fromBits for every uint32 *)

(** the three-way test of the C++ code is "m * 256^(s-3) does not fit in 256 bits" *)
Lemma overflow_test_math s m :
  3 < s < 256 -> 0 < m < 2 ^ 23 ->
  ((34 <? s) || (255 <? m) && (33 <? s) || (65535 <? m) && (32 <? s))
  = (2 ^ 256 <=? m * 2 ^ (8 * (s - 3))).
Proof.
  intros Hs Hm. change (2 ^ 23) with 8388608 in Hm.
  destruct (Z_le_gt_dec s 32) as [H32|H32].
  { (* fits *)
    assert (2 ^ (8 * (s - 3)) <= 2 ^ 232) by (apply Z.pow_le_mono_r; lia).
    pose proof (pow2_pos (8 * (s - 3)) ltac:(lia)).
    replace (2 ^ 256) with (16777216 * 2 ^ 232) by reflexivity.
    destruct (Z.leb_spec (16777216 * 2 ^ 232) (m * 2 ^ (8 * (s - 3)))); [nia|].
    destruct (Z.ltb_spec 34 s); [lia|]. destruct (Z.ltb_spec 33 s); [lia|].
    destruct (Z.ltb_spec 32 s); [lia|]. rewrite !andb_false_r. reflexivity. }
  destruct (Z.eq_dec s 33) as [->|H33].
  { change (8 * (33 - 3)) with 240. replace (2 ^ 256) with (65536 * 2 ^ 240) by reflexivity.
    pose proof (pow2_pos 240 ltac:(lia)). set (P := 2 ^ 240) in *.
    change (34 <? 33) with false. change (33 <? 33) with false. change (32 <? 33) with true.
    rewrite andb_false_r, andb_true_r. cbn [orb].
    destruct (Z.ltb_spec 65535 m); destruct (Z.leb_spec (65536 * P) (m * P)); try reflexivity; nia. }
  destruct (Z.eq_dec s 34) as [->|H34].
  { change (8 * (34 - 3)) with 248. replace (2 ^ 256) with (256 * 2 ^ 248) by reflexivity.
    pose proof (pow2_pos 248 ltac:(lia)). set (P := 2 ^ 248) in *.
    change (34 <? 34) with false. change (33 <? 34) with true. change (32 <? 34) with true.
    rewrite !andb_true_r. cbn [orb].
    destruct (Z.ltb_spec 255 m); destruct (Z.ltb_spec 65535 m);
      destruct (Z.leb_spec (256 * P) (m * P)); try reflexivity; try lia; nia. }
  (* s >= 35: any non-zero mantissa overflows *)
  assert (2 ^ 256 <= 2 ^ (8 * (s - 3))) by (apply Z.pow_le_mono_r; lia).
  destruct (Z.ltb_spec 34 s); [|lia]. cbn [orb].
  destruct (Z.leb_spec (2 ^ 256) (m * 2 ^ (8 * (s - 3)))); [reflexivity|].
  set (P := 2 ^ 256) in *. nia.
Qed.

(** the (shifted) mantissa word [nWord] of the C++ code *)
Definition word (s m : Z) : Z := if s <=? 3 then m / 2 ^ (8 * (3 - s)) else m.

Theorem fromBits_spec s sg m :
  0 <= s < 256 -> 0 <= sg <= 1 -> 0 <= m < 2 ^ 23 ->
  let w := word s m in
  fromBits (s * 2 ^ 24 + sg * 2 ^ 23 + m) =
    ((if s <=? 3 then w else (m * 2 ^ (8 * (s - 3))) mod 2 ^ 256),
     negb (w =? 0) && (sg =? 1),
     negb (w =? 0) && (if s <=? 3 then false else 2 ^ 256 <=? m * 2 ^ (8 * (s - 3)))).
Proof.
  intros Hs Hsg Hm w.
  destruct (compact_fields s sg m Hs Hsg Hm) as (_ & Hsh & Hl1 & Hl2 & _).
  unfold compact in *. unfold fromBits. rewrite Hsh, Hl1, Hl2.
  assert (Hneg : negb (sg * 8388608 =? 0) = (sg =? 1)).
  { destruct (Z.eqb_spec sg 1); destruct (Z.eqb_spec (sg * 8388608) 0); try reflexivity; lia. }
  rewrite Hneg. subst w. unfold word.
  destruct (Z.leb_spec s 3) as [Hle|Hgt].
  - (* small sizes: the mantissa is shifted right, nothing can overflow *)
    rewrite Z.shiftr_div_pow2 by lia.
    destruct (Z.ltb_spec 34 s); [lia|]. destruct (Z.ltb_spec 33 s); [lia|].
    destruct (Z.ltb_spec 32 s); [lia|]. rewrite !andb_false_r. reflexivity.
  - rewrite Z.shiftl_mul_pow2 by lia. unfold u256, two256.
    destruct (Z.eqb_spec m 0) as [->|Hm0]; [reflexivity|].
    cbn [negb andb]. rewrite overflow_test_math by lia. reflexivity.
Qed.

(** same with the overflow component written exactly as
    "mantissa word non-zero and m * 256^(s-3) >= 2^256"
    (for s <= 3 the product is at most m, so the comparison is false) *)
Corollary fromBits_spec' s sg m :
  0 <= s < 256 -> 0 <= sg <= 1 -> 0 <= m < 2 ^ 23 ->
  let w := word s m in
  fromBits (s * 2 ^ 24 + sg * 2 ^ 23 + m) =
    ((if s <=? 3 then w else (m * 2 ^ (8 * (s - 3))) mod 2 ^ 256),
     negb (w =? 0) && (sg =? 1),
     negb (w =? 0) && (2 ^ 256 <=? m * 2 ^ (8 * (s - 3)))).
Proof.
  intros Hs Hsg Hm w. subst w. rewrite fromBits_spec by assumption. cbv zeta.
  destruct (Z.leb_spec s 3) as [Hle|Hgt]; [|reflexivity].
  destruct (Z.eq_dec s 3) as [->|Hne].
  - change (2 ^ (8 * (3 - 3))) with 1. rewrite Z.mul_1_r.
    destruct (Z.leb_spec (2 ^ 256) m) as [H|H]; [|reflexivity].
    change (2 ^ 23) with 8388608 in Hm. assert (8388608 <= 2 ^ 256) by (vm_compute; discriminate). lia.
  - rewrite (Z.pow_neg_r 2 (8 * (s - 3))) by lia. rewrite Z.mul_0_r. reflexivity.
Qed.

(** Prop reading of the two flags *)
Corollary fromBits_flags s sg m :
  0 <= s < 256 -> 0 <= sg <= 1 -> 0 <= m < 2 ^ 23 ->
  let '(_, neg, ovf) := fromBits (s * 2 ^ 24 + sg * 2 ^ 23 + m) in
  (neg = true <-> word s m <> 0 /\ sg = 1) /\
  (ovf = true <-> 3 < s /\ m <> 0 /\ 2 ^ 256 <= m * 2 ^ (8 * (s - 3))).
Proof.
  intros Hs Hsg Hm. rewrite fromBits_spec by assumption. cbv zeta.
  split.
  - rewrite andb_true_iff, negb_true_iff, Z.eqb_neq, Z.eqb_eq. reflexivity.
  - unfold word. destruct (Z.leb_spec s 3) as [Hle|Hgt].
    + rewrite andb_false_r. split; [discriminate|lia].
    + rewrite andb_true_iff, negb_true_iff, Z.eqb_neq, Z.leb_le. split; [intros []|intros (_ & ? & ?)]; auto.
Qed.

(** * Structure of [toBits] *)

(** byte length of [v] *)
Definition nbytes (v : Z) : Z := (bits v + 7) / 8.
(** is the top bit of the top byte set (then the mantissa would look negative
    and toBits moves to the next size) *)
Definition topset (v : Z) : bool := Z.testbit v (8 * nbytes v - 1).
(** size byte produced by toBits *)
Definition csize (v : Z) : Z := if topset v then nbytes v + 1 else nbytes v.
(** mantissa produced by toBits: the leading (at most 3) bytes of [v] seen from size [csize v] *)
Definition cmant (v : Z) : Z :=
  let k := csize v in if k <=? 3 then v * 2 ^ (8 * (3 - k)) else v / 2 ^ (8 * (k - 3)).
(** [v] with everything below its leading bytes cleared: what survives encoding *)
Definition trunc (v : Z) : Z :=
  let k := csize v in if k <=? 3 then v else (v / 2 ^ (8 * (k - 3))) * 2 ^ (8 * (k - 3)).

(** [trunc] written out in terms of the C++ quantities only *)
Lemma trunc_unfold v :
  let n := (bits v + 7) / 8 in
  let k := if Z.testbit v (8 * n - 1) then n + 1 else n in
  trunc v = if k <=? 3 then v else (v / 2 ^ (8 * (k - 3))) * 2 ^ (8 * (k - 3)).
Proof. reflexivity. Qed.

Lemma nbytes_bounds v : 0 < v < 2 ^ 256 ->
  1 <= nbytes v <= 32 /\ 2 ^ (8 * (nbytes v - 1)) <= v < 2 ^ (8 * nbytes v).
Proof.
  intros Hv. unfold nbytes, bits.
  destruct (Z.leb_spec v 0) as [H|_]; [lia|].
  pose proof (Z.log2_spec v ltac:(lia)) as [Hlo Hhi].
  pose proof (Z.log2_nonneg v) as Hl0.
  assert (Hl : Z.log2 v < 256) by (apply Z.log2_lt_pow2; lia).
  set (l := Z.log2 v) in *. set (n := (l + 1 + 7) / 8).
  assert (Hn : 8 * (n - 1) <= l < 8 * n) by (subst n; lia).
  split; [lia|]. split.
  - apply Z.le_trans with (2 ^ l); [apply Z.pow_le_mono_r; lia|exact Hlo].
  - apply Z.lt_le_trans with (2 ^ Z.succ l); [exact Hhi|apply Z.pow_le_mono_r; lia].
Qed.

(** final assembly steps of toBits: or-ing in the size byte and the sign bit *)
Lemma assemble m k (neg : bool) :
  0 <= m < 2 ^ 23 -> 0 <= k < 256 ->
  let c1 := Z.lor m (Z.shiftl k 24) in
  Z.lor c1 (if neg && negb (Z.land c1 8388607 =? 0) then 8388608 else 0)
  = compact k (if neg && negb (m =? 0) then 1 else 0) m.
Proof.
  intros Hm Hk c1. subst c1.
  rewrite lor_shiftl_add by (change (2 ^ 23) with 8388608 in Hm; change (2 ^ 24) with 16777216; lia).
  destruct (compact_fields k 0 m Hk ltac:(lia) Hm) as (_ & _ & Hl1 & Hl2 & _).
  unfold compact in *. rewrite Z.mul_0_l, Z.add_0_r in Hl1, Hl2.
  rewrite (Z.add_comm m). rewrite Hl1.
  destruct (neg && negb (m =? 0)).
  - rewrite lor_add_disjoint by exact Hl2. change (2 ^ 23) with 8388608. lia.
  - rewrite Z.lor_0_r. lia.
Qed.

(** the mantissa before the sign-bit correction, for a non-zero value *)
Lemma mant0_small v n : 1 <= n <= 3 -> 0 <= v < 2 ^ (8 * n) ->
  u32 (Z.shiftl (u32 (u64 v)) (8 * (3 - n))) = v * 2 ^ (8 * (3 - n)) /\
  0 <= v * 2 ^ (8 * (3 - n)) < 2 ^ 24.
Proof.
  intros Hn Hv.
  assert (Hcases : n = 1 \/ n = 2 \/ n = 3) by lia.
  unfold u32, u64, two32. change (2 ^ 24) with 16777216.
  destruct Hcases as [->|[->| ->]].
  - change (8 * 1) with 8 in Hv. change (2 ^ 8) with 256 in Hv.
    change (8 * (3 - 1)) with 16. rewrite Z.shiftl_mul_pow2 by lia. change (2 ^ 16) with 65536.
    rewrite (Z.mod_small v (2 ^ 64)) by lia. rewrite (Z.mod_small v (2 ^ 32)) by lia.
    split; [apply Z.mod_small|]; lia.
  - change (8 * 2) with 16 in Hv. change (2 ^ 16) with 65536 in Hv.
    change (8 * (3 - 2)) with 8. rewrite Z.shiftl_mul_pow2 by lia. change (2 ^ 8) with 256.
    rewrite (Z.mod_small v (2 ^ 64)) by lia. rewrite (Z.mod_small v (2 ^ 32)) by lia.
    split; [apply Z.mod_small|]; lia.
  - change (8 * 3) with 24 in Hv. change (2 ^ 24) with 16777216 in Hv.
    change (8 * (3 - 3)) with 0. rewrite Z.shiftl_0_r. change (2 ^ 0) with 1.
    rewrite (Z.mod_small v (2 ^ 64)) by lia. rewrite Z.mod_mod by lia.
    rewrite (Z.mod_small v (2 ^ 32)) by lia. lia.
Qed.

Lemma mant0_big v n : 3 < n -> 0 <= v < 2 ^ (8 * n) ->
  u32 (u64 (Z.shiftr v (8 * (n - 3)))) = v / 2 ^ (8 * (n - 3)) /\
  0 <= v / 2 ^ (8 * (n - 3)) < 2 ^ 24.
Proof.
  intros Hn Hv. rewrite Z.shiftr_div_pow2 by lia.
  pose proof (pow2_pos (8 * (n - 3)) ltac:(lia)) as HP.
  assert (Hq : 0 <= v / 2 ^ (8 * (n - 3)) < 2 ^ 24).
  { split; [apply Z.div_pos; lia|]. apply Z.div_lt_upper_bound; [lia|].
    rewrite <- pow2_split by lia. replace (8 * (n - 3) + 24) with (8 * n) by lia. lia. }
  split; [|exact Hq]. change (2 ^ 24) with 16777216 in Hq.
  unfold u32, u64, two32. rewrite (Z.mod_small _ (2 ^ 64)) by lia. apply Z.mod_small. lia.
Qed.

Lemma top_small v n : 1 <= n <= 3 ->
  (2 ^ (8 * n - 1) <=? v) = (2 ^ 23 <=? v * 2 ^ (8 * (3 - n))).
Proof.
  intros Hn. replace (2 ^ 23) with (2 ^ (8 * n - 1) * 2 ^ (8 * (3 - n)))
    by (rewrite <- pow2_split by lia; f_equal; lia).
  pose proof (pow2_pos (8 * (3 - n)) ltac:(lia)) as HE. set (E := 2 ^ (8 * (3 - n))) in *.
  set (T := 2 ^ (8 * n - 1)).
  destruct (Z.leb_spec T v); destruct (Z.leb_spec (T * E) (v * E)); try reflexivity; nia.
Qed.

Lemma top_big v n : 3 < n -> 0 <= v ->
  (2 ^ (8 * n - 1) <=? v) = (2 ^ 23 <=? v / 2 ^ (8 * (n - 3))).
Proof.
  intros Hn Hv. replace (2 ^ (8 * n - 1)) with (2 ^ (8 * (n - 3)) * 2 ^ 23)
    by (rewrite <- pow2_split by lia; f_equal; lia).
  pose proof (pow2_pos (8 * (n - 3)) ltac:(lia)) as HP. set (P := 2 ^ (8 * (n - 3))) in *.
  destruct (Z.leb_spec (P * 2 ^ 23) v) as [H|H]; destruct (Z.leb_spec (2 ^ 23) (v / P)) as [H'|H'];
    try reflexivity; exfalso.
  - pose proof (Z.div_le_lower_bound v P (2 ^ 23) HP H). lia.
  - pose proof (Z.div_lt_upper_bound v P (2 ^ 23) HP H). lia.
Qed.

(** the mantissa before the sign-bit correction *)
Definition mant0 (v : Z) : Z :=
  let n := nbytes v in if n <=? 3 then v * 2 ^ (8 * (3 - n)) else v / 2 ^ (8 * (n - 3)).

Lemma mant0_facts v : 0 < v < 2 ^ 256 ->
  0 <= mant0 v < 2 ^ 24 /\ topset v = (2 ^ 23 <=? mant0 v) /\
  cmant v = (if 2 ^ 23 <=? mant0 v then mant0 v / 256 else mant0 v).
Proof.
  intros Hv. destruct (nbytes_bounds v Hv) as (Hn & Hlo & Hhi).
  assert (Htop : topset v = (2 ^ (8 * nbytes v - 1) <=? v)).
  { unfold topset. apply testbit_leb; [lia|]. replace (8 * nbytes v - 1 + 1) with (8 * nbytes v) by lia. lia. }
  unfold cmant, csize. rewrite Htop. unfold mant0. clear Htop.
  set (n := nbytes v) in *. clearbody n.
  destruct (Z.leb_spec n 3) as [Hle|Hgt].
  - destruct (mant0_small v n ltac:(lia) ltac:(lia)) as [_ Hr].
    rewrite (top_small v n) by lia.
    split; [exact Hr|]. split; [reflexivity|].
    destruct (Z.leb_spec (2 ^ 23) (v * 2 ^ (8 * (3 - n)))) as [Ht|Ht].
    + destruct (Z.leb_spec (n + 1) 3) as [Hle'|Hgt'].
      * replace (8 * (3 - n)) with (8 * (3 - (n + 1)) + 8) by lia.
        rewrite pow2_split by lia. change (2 ^ 8) with 256.
        rewrite Z.mul_assoc. symmetry. apply Z.div_mul. lia.
      * assert (n = 3) by lia. subst n. change (2 ^ (8 * (3 - 3))) with 1.
        change (2 ^ (8 * (3 + 1 - 3))) with 256. rewrite Z.mul_1_r. reflexivity.
    + destruct (Z.leb_spec n 3); [reflexivity|lia].
  - destruct (mant0_big v n Hgt ltac:(lia)) as [_ Hr].
    rewrite (top_big v n) by lia.
    split; [exact Hr|]. split; [reflexivity|].
    destruct (Z.leb_spec (2 ^ 23) (v / 2 ^ (8 * (n - 3)))) as [Ht|Ht].
    + destruct (Z.leb_spec (n + 1) 3); [lia|].
      replace (8 * (n + 1 - 3)) with (8 * (n - 3) + 8) by lia.
      rewrite pow2_split by lia. change (2 ^ 8) with 256.
      pose proof (pow2_pos (8 * (n - 3)) ltac:(lia)).
      rewrite Z.div_div by lia. reflexivity.
    + destruct (Z.leb_spec n 3); [lia|reflexivity].
Qed.

Lemma csize_range v : 0 <= v < 2 ^ 256 -> 0 <= csize v <= 33.
Proof.
  intros Hv. destruct (Z.eq_dec v 0) as [->|Hne].
  - change (csize 0) with 0. lia.
  - destruct (nbytes_bounds v ltac:(lia)) as (Hn & _). unfold csize. destruct (topset v); lia.
Qed.

Lemma cmant_range v : 0 <= v < 2 ^ 256 -> 0 <= cmant v < 2 ^ 23.
Proof.
  intros Hv. destruct (Z.eq_dec v 0) as [->|Hne].
  - change (cmant 0) with 0. lia.
  - destruct (mant0_facts v ltac:(lia)) as (Hr & _ & ->).
    change (2 ^ 24) with 16777216 in Hr. change (2 ^ 23) with 8388608.
    destruct (Z.leb_spec 8388608 (mant0 v)); lia.
Qed.

(** toBits = size byte, sign bit (only with a non-zero mantissa), mantissa *)
Theorem toBits_struct v neg : 0 <= v < 2 ^ 256 ->
  toBits v neg = compact (csize v) (if neg && negb (cmant v =? 0) then 1 else 0) (cmant v).
Proof.
  intros Hv. destruct (Z.eq_dec v 0) as [->|Hne].
  { destruct neg; vm_compute; reflexivity. }
  pose proof (csize_range v Hv) as Hk. pose proof (cmant_range v Hv) as Hm.
  destruct (mant0_facts v ltac:(lia)) as (Hr & Htop & Hcm).
  destruct (nbytes_bounds v ltac:(lia)) as (Hn & Hlo & Hhi).
  rewrite <- (assemble (cmant v) (csize v) neg Hm ltac:(lia)). cbv zeta.
  unfold toBits. fold (nbytes v).
  assert (H0 : (if nbytes v <=? 3
                then u32 (Z.shiftl (u32 (u64 v)) (8 * (3 - nbytes v)))
                else u32 (u64 (Z.shiftr v (8 * (nbytes v - 3))))) = mant0 v).
  { unfold mant0. destruct (Z.leb_spec (nbytes v) 3).
    - apply mant0_small; lia.
    - apply mant0_big; lia. }
  rewrite H0. change 8388608 with (2 ^ 23) at 1. rewrite land_pow2 by lia.
  rewrite (testbit_leb (mant0 v) 23) by (change (23 + 1) with 24; lia).
  unfold csize in *. rewrite Htop in *. rewrite Hcm in *.
  destruct (Z.leb_spec (2 ^ 23) (mant0 v)) as [Ht|Ht].
  - change (2 ^ 23 =? 0) with false. cbn [negb]. cbv beta iota.
    rewrite Z.shiftr_div_pow2 by lia. change (2 ^ 8) with 256. reflexivity.
  - change (0 =? 0) with true. cbn [negb]. cbv beta iota. reflexivity.
Qed.

(** * (4) and (2): range and sign bit of [toBits] *)

Lemma sign_of_range (neg : bool) m : 0 <= (if neg && negb (m =? 0) then 1 else 0) <= 1.
Proof. destruct (neg && negb (m =? 0)); lia. Qed.

Lemma toBits_fields v neg : 0 <= v < 2 ^ 256 ->
  let c := toBits v neg in
  0 <= c < 2 ^ 32 /\ Z.shiftr c 24 = csize v /\ Z.land c 8388607 = cmant v /\
  Z.land c 8388608 = (if neg && negb (cmant v =? 0) then 8388608 else 0) /\
  Z.testbit c 23 = neg && negb (cmant v =? 0).
Proof.
  intros Hv c. subst c. rewrite toBits_struct by exact Hv.
  pose proof (csize_range v Hv) as Hk. pose proof (cmant_range v Hv) as Hm.
  destruct (compact_fields (csize v) _ (cmant v) ltac:(lia) (sign_of_range neg (cmant v)) Hm)
    as (Hc & Hsh & Hl1 & Hl2 & Hb).
  split; [exact Hc|]. split; [exact Hsh|]. split; [exact Hl1|].
  rewrite Hl2, Hb. destruct (neg && negb (cmant v =? 0)); split; reflexivity.
Qed.

Theorem toBits_range v neg : 0 <= v < 2 ^ 256 -> 0 <= toBits v neg < 2 ^ 32.
Proof. intros Hv. apply (toBits_fields v neg Hv). Qed.

Theorem toBits_sign v neg : 0 <= v < 2 ^ 256 ->
  let c := toBits v neg in
  0 <= c < 2 ^ 32 /\
  (Z.land c 8388608 <> 0 <-> neg = true /\ Z.land c 8388607 <> 0) /\
  (Z.testbit c 23 = true <-> neg = true /\ Z.land c 8388607 <> 0) /\
  Z.land (toBits v false) 8388608 = 0 /\
  Z.testbit (toBits v false) 23 = false /\
  Z.land (toBits v true) 8388607 = Z.land (toBits v false) 8388607 /\
  toBits v true = toBits v false + (if Z.land (toBits v false) 8388607 =? 0 then 0 else 2 ^ 23).
Proof.
  intros Hv c. subst c.
  destruct (toBits_fields v neg Hv) as (Hc & _ & Hl1 & Hl2 & Hb).
  destruct (toBits_fields v false Hv) as (_ & _ & Hf1 & Hf2 & Hfb).
  destruct (toBits_fields v true Hv) as (_ & _ & Ht1 & _ & _).
  cbv zeta in *. cbn [andb] in Hf2, Hfb.
  split; [exact Hc|]. rewrite Hl1, Hl2, Hb, Hf1, Ht1.
  split; [|split; [|split; [exact Hf2|split; [exact Hfb|split; [reflexivity|]]]]].
  - destruct neg; cbn [andb]; [|split; [lia|intros [? _]; discriminate]].
    destruct (Z.eqb_spec (cmant v) 0); cbn [negb]; split; try lia; intros [_ ?]; lia.
  - rewrite andb_true_iff, negb_true_iff, Z.eqb_neq. reflexivity.
  - rewrite !toBits_struct by exact Hv. unfold compact. cbn [andb].
    destruct (cmant v =? 0); cbn [negb]; lia.
Qed.

(** * (3) decoding an encoding *)

Lemma trunc_cmant v : 0 <= v < 2 ^ 256 ->
  (if csize v <=? 3 then word (csize v) (cmant v) else cmant v * 2 ^ (8 * (csize v - 3))) = trunc v.
Proof.
  intros Hv. pose proof (csize_range v Hv) as Hk. unfold trunc, word, cmant.
  destruct (Z.leb_spec (csize v) 3) as [Hle|Hgt]; [|reflexivity].
  apply Z.div_mul. pose proof (pow2_pos (8 * (3 - csize v)) ltac:(lia)). lia.
Qed.

Lemma trunc_le v : 0 <= v -> 0 <= trunc v <= v.
Proof.
  intros Hv. unfold trunc. destruct (Z.leb_spec (csize v) 3) as [Hle|Hgt]; [lia|].
  pose proof (pow2_pos (8 * (csize v - 3)) ltac:(lia)) as HP. set (P := 2 ^ (8 * (csize v - 3))) in *.
  pose proof (Z.mul_div_le v P HP). pose proof (Z.div_pos v P Hv HP). nia.
Qed.

(** the truncation error is below one unit of the last kept byte *)
Theorem trunc_bounds v : 0 <= v ->
  if csize v <=? 3 then trunc v = v
  else trunc v <= v < trunc v + 2 ^ (8 * (csize v - 3)).
Proof.
  intros Hv. unfold trunc. destruct (Z.leb_spec (csize v) 3) as [Hle|Hgt]; [reflexivity|].
  pose proof (pow2_pos (8 * (csize v - 3)) ltac:(lia)) as HP. set (P := 2 ^ (8 * (csize v - 3))) in *.
  pose proof (Z.div_mod v P ltac:(lia)). pose proof (Z.mod_pos_bound v P HP). nia.
Qed.

Lemma word_cmant_zero v : 0 <= v < 2 ^ 256 ->
  (word (csize v) (cmant v) =? 0) = (trunc v =? 0) /\ (cmant v =? 0) = (trunc v =? 0).
Proof.
  intros Hv. pose proof (csize_range v Hv) as Hk. pose proof (cmant_range v Hv) as Hm.
  rewrite <- (trunc_cmant v Hv). unfold word.
  destruct (Z.leb_spec (csize v) 3) as [Hle|Hgt].
  - split; [reflexivity|]. unfold cmant.
    destruct (Z.leb_spec (csize v) 3); [|lia].
    pose proof (pow2_pos (8 * (3 - csize v)) ltac:(lia)) as HP. set (P := 2 ^ (8 * (3 - csize v))) in *.
    rewrite Z.div_mul by lia.
    destruct (Z.eqb_spec (v * P) 0); destruct (Z.eqb_spec v 0); try reflexivity; nia.
  - pose proof (pow2_pos (8 * (csize v - 3)) ltac:(lia)) as HP. set (P := 2 ^ (8 * (csize v - 3))) in *.
    assert ((cmant v =? 0) = (cmant v * P =? 0)) as <-; [|split; reflexivity].
    destruct (Z.eqb_spec (cmant v) 0); destruct (Z.eqb_spec (cmant v * P) 0); try reflexivity; nia.
Qed.

(** general form, both signs *)
Theorem fromBits_toBits_gen v neg : 0 <= v < 2 ^ 256 ->
  fromBits (toBits v neg) = (trunc v, neg && negb (trunc v =? 0), false).
Proof.
  intros Hv. pose proof (csize_range v Hv) as Hk. pose proof (cmant_range v Hv) as Hm.
  rewrite toBits_struct by exact Hv. unfold compact.
  rewrite fromBits_spec by (try apply sign_of_range; lia). cbv zeta.
  destruct (word_cmant_zero v Hv) as [Hw Hc]. rewrite Hw, Hc.
  pose proof (trunc_cmant v Hv) as Ht. pose proof (trunc_le v ltac:(lia)) as Hle.
  f_equal; [f_equal|].
  - destruct (Z.leb_spec (csize v) 3); [exact Ht|]. rewrite Ht. apply Z.mod_small. lia.
  - destruct neg; destruct (trunc v =? 0); reflexivity.
  - destruct (Z.leb_spec (csize v) 3); [apply andb_false_r|]. rewrite Ht.
    destruct (Z.leb_spec (2 ^ 256) (trunc v)); [lia|apply andb_false_r].
Qed.

Theorem fromBits_toBits v : 0 <= v < 2 ^ 256 ->
  fromBits (toBits v false) = (trunc v, false, false).
Proof. intros Hv. rewrite fromBits_toBits_gen by exact Hv. reflexivity. Qed.

Corollary fromBits_toBits_neg v : 0 <= v < 2 ^ 256 -> trunc v <> 0 ->
  fromBits (toBits v true) = (trunc v, true, false).
Proof.
  intros Hv Hne. rewrite fromBits_toBits_gen by exact Hv.
  destruct (Z.eqb_spec (trunc v) 0); [contradiction|reflexivity].
Qed.

(** values of at most 3 significant bytes (top bit clear) survive exactly *)
Corollary fromBits_toBits_exact v : 0 <= v < 2 ^ 23 ->
  fromBits (toBits v false) = (v, false, false).
Proof.
  intros Hv. assert (Hv' : 0 <= v < 2 ^ 256).
  { assert (2 ^ 23 <= 2 ^ 256) by (apply Z.pow_le_mono_r; lia). lia. }
  rewrite fromBits_toBits by exact Hv'. f_equal. f_equal.
  unfold trunc. destruct (Z.leb_spec (csize v) 3) as [Hle|Hgt]; [reflexivity|exfalso].
  destruct (Z.eq_dec v 0) as [->|Hne]; [revert Hgt; change (csize 0) with 0; lia|].
  destruct (nbytes_bounds v ltac:(lia)) as (Hn & Hlo & Hhi).
  destruct (mant0_facts v ltac:(lia)) as (Hr & Htop & _).
  unfold csize, mant0 in *. rewrite Htop in Hgt.
  assert (Hn3 : nbytes v <= 3).
  { destruct (Z_le_gt_dec (nbytes v) 3); [assumption|exfalso].
    assert (2 ^ 24 <= 2 ^ (8 * (nbytes v - 1))) by (apply Z.pow_le_mono_r; lia).
    change (2 ^ 24) with 16777216 in *. change (2 ^ 23) with 8388608 in *. lia. }
  destruct (Z.leb_spec (nbytes v) 3); [|lia].
  destruct (Z.leb_spec (2 ^ 23) (v * 2 ^ (8 * (3 - nbytes v)))) as [Ht|Ht]; [|lia].
  assert (nbytes v = 3) by lia.
  replace (8 * (3 - nbytes v)) with 0 in Ht by lia. change (2 ^ 0) with 1 in Ht. lia.
Qed.

(** * Concrete instances (hypotheses are satisfiable, statements evaluate as expected) *)

(* 0x1d00ffff: the Bitcoin genesis target, s = 0x1d, sg = 0, m = 0x00ffff *)
Example ex_genesis : fromBits 486604799 = (65535 * 2 ^ 208, false, false) /\
                     486604799 = compact 29 0 65535 /\
                     toBits (65535 * 2 ^ 208) false = 486604799.
Proof. vm_compute. repeat split. Qed.

(* 0x04923456: sign bit set, s = 4, m = 0x123456 -> -0x12345600 *)
Example ex_negative : fromBits 76690518 = (305419776, true, false) /\
                      76690518 = compact 4 1 1193046 /\
                      toBits 305419776 true = 76690518.
Proof. vm_compute. repeat split. Qed.

(* 0xff123456: overflow, s = 255, m = 0x123456 *)
Example ex_overflow : snd (fromBits 4279383126) = true /\ 4279383126 = compact 255 0 1193046 /\
                      (2 ^ 256 <=? 1193046 * 2 ^ (8 * (255 - 3))) = true.
Proof. vm_compute. repeat split. Qed.

(* 0x01803456: s = 1, sg = 1, m = 0x003456; the word is m >> 16 = 0, so the value is 0
   and neither flag is set although the sign bit is *)
Example ex_small : fromBits 25179222 = (0, false, false) /\ word 1 13398 = 0.
Proof. vm_compute. repeat split. Qed.

(* truncation: 0x12345678 keeps 3 bytes; 0x80 needs size 2 *)
Example ex_trunc : trunc 305419896 = 305419776 /\ toBits 305419896 false = 68301910 /\
                   toBits 128 false = 33587200 /\ trunc 128 = 128 /\
                   fromBits (toBits 305419896 true) = (305419776, true, false).
Proof. vm_compute. repeat split. Qed.

(* largest value: 2^256 - 1 encodes with size 33 and decodes to 0xffff << 240 *)
Example ex_max : toBits (2 ^ 256 - 1) false = compact 33 0 65535 /\
                 trunc (2 ^ 256 - 1) = 65535 * 2 ^ 240.
Proof. vm_compute. repeat split. Qed.
