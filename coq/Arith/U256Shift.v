(** Value-level correctness of U256Defs.v, part 2: <<=, >>= (every shift amount),
    bits(), getLow64, the uint64 constructor. *)
From Coq Require Import ZArith Lia List Bool.
From VB Require Import Base.Bits Arith.CompactDefs Arith.U256Defs Arith.U256Basics.
Import ListNotations.
Local Open Scope Z_scope.
Ltac Zify.zify_post_hook ::= Z.div_mod_to_equations.

(** finite sweeps over [0, n) *)
Fixpoint all_below (n : nat) (f : Z -> bool) : bool :=
  match n with O => true | S m => f (Z.of_nat m) && all_below m f end.

Lemma all_below_spec n f : all_below n f = true -> forall x, 0 <= x < Z.of_nat n -> f x = true.
Proof.
  induction n as [|n IH]; intros H x Hx.
  - cbn in Hx. lia.
  - cbn [all_below] in H. apply andb_prop in H. destruct H as [H1 H2].
    destruct (Z.eq_dec x (Z.of_nat n)) as [->|Hne]; [exact H1|].
    apply IH; [exact H2|lia].
Qed.

(** * prefixes and suffixes *)
Lemma uval_firstn : forall n l, bytes_ok l -> (n <= length l)%nat ->
  uval (firstn n l) = uval l mod P256 n.
Proof.
  induction n as [|n IH]; intros l Hl Hn.
  - cbn [firstn uval]. rewrite P256_0, Z.mod_1_r. reflexivity.
  - destruct l as [|x r]; [cbn [length] in Hn; lia|].
    apply bytes_ok_cons in Hl. destruct Hl as [Hx Hr]. unfold byte_ok in Hx.
    cbn [length] in Hn. cbn [firstn uval]. rewrite P256_S, (IH r Hr ltac:(lia)).
    rewrite <- (Z.mod_small x 256) at 1 by lia.
    apply chain_step; [apply P256_pos|]. rewrite (Z.div_small x 256) by lia. reflexivity.
Qed.

Lemma firstn_ok : forall n l, bytes_ok l -> bytes_ok (firstn n l).
Proof.
  induction n as [|n IH]; intros l H; [apply bytes_ok_nil|].
  destruct l as [|x r]; [apply bytes_ok_nil|].
  apply bytes_ok_cons in H. destruct H as [Hx Hr]. cbn [firstn].
  apply bytes_ok_cons. split; [exact Hx|apply IH; exact Hr].
Qed.

Lemma skipn_ok : forall n l, bytes_ok l -> bytes_ok (skipn n l).
Proof.
  induction n as [|n IH]; intros l H; [exact H|].
  destruct l as [|x r]; [apply bytes_ok_nil|].
  apply bytes_ok_cons in H. destruct H as [Hx Hr]. cbn [skipn]. apply IH. exact Hr.
Qed.

Lemma uval_skipn : forall n l, bytes_ok l -> (n <= length l)%nat ->
  uval (skipn n l) = uval l / P256 n.
Proof.
  induction n as [|n IH]; intros l Hl Hn.
  - cbn [skipn]. rewrite P256_0, Z.div_1_r. reflexivity.
  - destruct l as [|x r]; [cbn [length] in Hn; lia|].
    apply bytes_ok_cons in Hl. destruct Hl as [Hx Hr]. unfold byte_ok in Hx.
    cbn [length] in Hn. cbn [skipn uval]. rewrite P256_S, (IH r Hr ltac:(lia)).
    pose proof (P256_pos n) as HP.
    rewrite <- Z.div_div by lia. f_equal. lia.
Qed.

(** * operator<<= *)
Lemma eight_cases s : 0 <= s < 8 -> s = 0 \/ s = 1 \/ s = 2 \/ s = 3 \/ s = 4 \/ s = 5 \/ s = 6 \/ s = 7.
Proof. lia. Qed.

Lemma lor_low_high a b n : 0 <= n -> 0 <= a < 2 ^ n -> Z.lor (b * 2 ^ n) a = b * 2 ^ n + a.
Proof.
  intros Hn Ha. rewrite Z.lor_comm, Z.add_comm. apply lor_add_disjoint.
  apply land_low_mul_pow2; assumption.
Qed.

Lemma shl_byte_step s x c : 0 <= s < 8 -> 0 <= x < 256 -> 0 <= c < 2 ^ s ->
  Z.lor (w8 (Z.shiftl x s)) c = (c + x * 2 ^ s) mod 256
  /\ (if s =? 0 then 0 else Z.shiftr x (8 - s)) = (c + x * 2 ^ s) / 256.
Proof.
  intros Hs Hx Hc. unfold w8. rewrite Z.shiftl_mul_pow2 by lia.
  destruct (eight_cases s Hs) as [->|[->|[->|[->|[->|[->|[->| ->]]]]]]];
    cbn [Z.eqb Z.sub Z.opp Z.pos_sub Z.add Pos.add Pos.succ Pos.pred_double Z.succ_double Z.pred_double Z.double];
    try rewrite Z.shiftr_div_pow2 by lia.
  - change (2 ^ 0) with 1 in *. assert (c = 0) by lia. subst c. rewrite Z.lor_0_r. split; lia.
  - replace ((x * 2 ^ 1) mod 256) with ((x mod 128) * 2 ^ 1) by (change (2 ^ 1) with 2; lia).
    rewrite lor_low_high by lia. change (2 ^ 1) with 2 in *. change (2 ^ 7) with 128. split; lia.
  - replace ((x * 2 ^ 2) mod 256) with ((x mod 64) * 2 ^ 2) by (change (2 ^ 2) with 4; lia).
    rewrite lor_low_high by lia. change (2 ^ 2) with 4 in *. change (2 ^ 6) with 64. split; lia.
  - replace ((x * 2 ^ 3) mod 256) with ((x mod 32) * 2 ^ 3) by (change (2 ^ 3) with 8; lia).
    rewrite lor_low_high by lia. change (2 ^ 3) with 8 in *. change (2 ^ 5) with 32. split; lia.
  - replace ((x * 2 ^ 4) mod 256) with ((x mod 16) * 2 ^ 4) by (change (2 ^ 4) with 16; lia).
    rewrite lor_low_high by lia. change (2 ^ 4) with 16 in *. split; lia.
  - replace ((x * 2 ^ 5) mod 256) with ((x mod 8) * 2 ^ 5) by (change (2 ^ 5) with 32; lia).
    rewrite lor_low_high by lia. change (2 ^ 5) with 32 in *. change (2 ^ 3) with 8. split; lia.
  - replace ((x * 2 ^ 6) mod 256) with ((x mod 4) * 2 ^ 6) by (change (2 ^ 6) with 64; lia).
    rewrite lor_low_high by lia. change (2 ^ 6) with 64 in *. change (2 ^ 2) with 4. split; lia.
  - replace ((x * 2 ^ 7) mod 256) with ((x mod 2) * 2 ^ 7) by (change (2 ^ 7) with 128; lia).
    rewrite lor_low_high by lia. change (2 ^ 7) with 128 in *. change (2 ^ 1) with 2. split; lia.
Qed.

Lemma shl_bits_spec : forall a s c, bytes_ok a -> 0 <= s < 8 -> 0 <= c < 2 ^ s ->
  uval (shl_bits s c a) = (c + uval a * 2 ^ s) mod P256 (length a)
  /\ bytes_ok (shl_bits s c a) /\ length (shl_bits s c a) = length a.
Proof.
  induction a as [|x a IH]; intros s c Ha Hs Hc.
  - cbn [shl_bits uval length]. rewrite P256_0, Z.mod_1_r. repeat split. apply bytes_ok_nil.
  - apply bytes_ok_cons in Ha. destruct Ha as [Hx Ha]. unfold byte_ok in Hx.
    destruct (shl_byte_step s x c Hs Hx Hc) as [Hlo Hhi].
    assert (HP : 0 < 2 ^ s) by (apply Z.pow_pos_nonneg; lia).
    assert (H8 : 2 ^ s <= 128).
    { change 128 with (2 ^ 7). apply Z.pow_le_mono_r; lia. }
    set (n := c + x * 2 ^ s) in *.
    assert (Hn : 0 <= n < 256 * 2 ^ s) by (subst n; nia).
    cbn [shl_bits]. rewrite Hlo, Hhi.
    destruct (IH s (n / 256) Ha Hs ltac:(lia)) as (Hv & Hbk & Hlen).
    split; [|split].
    + cbn [uval length]. rewrite P256_S.
      replace (c + (x + 256 * uval a) * 2 ^ s) with (n + 256 * (uval a * 2 ^ s)) by (subst n; lia).
      apply chain_step; [apply P256_pos|]. exact Hv.
    + apply bytes_ok_cons. split; [unfold byte_ok; lia|exact Hbk].
    + cbn [length]. rewrite Hlen. reflexivity.
Qed.

Lemma P256_Zpow k : 0 <= k -> P256 (Z.to_nat k) = 2 ^ (8 * k).
Proof. intros Hk. rewrite P256_pow2, Z2Nat.id by exact Hk. reflexivity. Qed.

Lemma shl_bytes_spec a k : bytes_ok a -> 0 <= k ->
  uval (shl_bytes k a) = (uval a * 2 ^ (8 * k)) mod P256 (length a)
  /\ bytes_ok (shl_bytes k a) /\ length (shl_bytes k a) = length a.
Proof.
  intros Ha Hk. unfold shl_bytes.
  destruct (zeros_ok (length a)) as (Z1 & Z2 & Z3).
  destruct (Z.leb_spec (Z.of_nat (length a)) k) as [Hge|Hlt].
  - rewrite Z3. split; [|split; assumption].
    symmetry. rewrite P256_pow2.
    replace (8 * k) with ((8 * k - 8 * Z.of_nat (length a)) + 8 * Z.of_nat (length a)) by lia.
    rewrite Z.pow_add_r by lia. rewrite Z.mul_assoc. apply Z.mod_mul.
    apply Z.pow_nonzero; lia.
  - destruct (zeros_ok (Z.to_nat k)) as (K1 & K2 & K3).
    assert (Hok : bytes_ok (zeros (Z.to_nat k) ++ a)) by (apply bytes_ok_app; split; assumption).
    split; [|split].
    + rewrite uval_firstn; [|exact Hok|rewrite app_length; lia].
      rewrite uval_app, K2, K3, P256_Zpow by lia. f_equal. lia.
    + apply firstn_ok. exact Hok.
    + rewrite firstn_length, app_length. lia.
Qed.

Lemma pow2_divmod8 sh : 0 <= sh -> 2 ^ sh = 2 ^ (8 * (sh / 8)) * 2 ^ (sh mod 8).
Proof. intros H. rewrite <- Z.pow_add_r by lia. f_equal. lia. Qed.

Theorem shl_g_spec a sh : bytes_ok a -> 0 <= sh ->
  uval (shl_g a sh) = (uval a * 2 ^ sh) mod P256 (length a)
  /\ bytes_ok (shl_g a sh) /\ length (shl_g a sh) = length a.
Proof.
  intros Ha Hsh. unfold shl_g.
  destruct (shl_bytes_spec a (sh / 8) Ha ltac:(lia)) as (Hv & Hb & Hl).
  destruct (shl_bits_spec (shl_bytes (sh / 8) a) (sh mod 8) 0 Hb ltac:(lia)
              ltac:(split; [lia|apply Z.pow_pos_nonneg; lia])) as (Hv2 & Hb2 & Hl2).
  rewrite Hv2, Hl2, Hl, Hv. split; [|split; [exact Hb2|reflexivity]].
  rewrite Z.add_0_l, Z.mul_mod_idemp_l by (pose proof (P256_pos (length a)); lia).
  f_equal. rewrite (pow2_divmod8 sh Hsh). lia.
Qed.

(** * operator>>= *)
Lemma hd_mod r : bytes_ok r -> hd 0 r = uval r mod 256.
Proof.
  destruct r as [|y r]; intros H; [reflexivity|].
  apply bytes_ok_cons in H. destruct H as [Hy _]. unfold byte_ok in Hy.
  cbn [hd uval]. lia.
Qed.

Lemma shr_byte_step s x v : 0 <= s < 8 -> 0 <= x < 256 -> 0 <= v ->
  let o := Z.lor (Z.shiftr x s) (if s =? 0 then 0 else w8 (Z.shiftl (v mod 256) (8 - s))) in
  0 <= o < 256 /\ o + 256 * (v / 2 ^ s) = (x + 256 * v) / 2 ^ s.
Proof.
  intros Hs Hx Hv. cbv zeta. unfold w8. rewrite Z.shiftr_div_pow2 by lia.
  destruct (eight_cases s Hs) as [->|[->|[->|[->|[->|[->|[->| ->]]]]]]];
    cbn [Z.eqb Z.sub Z.opp Z.pos_sub Z.add Pos.add Pos.succ Pos.pred_double Z.succ_double Z.pred_double Z.double];
    try rewrite Z.shiftl_mul_pow2 by lia.
  - rewrite Z.lor_0_r. change (2 ^ 0) with 1. rewrite !Z.div_1_r. lia.
  - replace ((v mod 256 * 2 ^ 7) mod 256) with ((v mod 2) * 2 ^ 7) by (change (2 ^ 7) with 128; lia).
    rewrite Z.lor_comm, lor_low_high by (change (2 ^ 1) with 2; change (2 ^ 7) with 128; lia).
    change (2 ^ 1) with 2; change (2 ^ 7) with 128. lia.
  - replace ((v mod 256 * 2 ^ 6) mod 256) with ((v mod 4) * 2 ^ 6) by (change (2 ^ 6) with 64; lia).
    rewrite Z.lor_comm, lor_low_high by (change (2 ^ 2) with 4; change (2 ^ 6) with 64; lia).
    change (2 ^ 2) with 4; change (2 ^ 6) with 64. lia.
  - replace ((v mod 256 * 2 ^ 5) mod 256) with ((v mod 8) * 2 ^ 5) by (change (2 ^ 5) with 32; lia).
    rewrite Z.lor_comm, lor_low_high by (change (2 ^ 3) with 8; change (2 ^ 5) with 32; lia).
    change (2 ^ 3) with 8; change (2 ^ 5) with 32. lia.
  - replace ((v mod 256 * 2 ^ 4) mod 256) with ((v mod 16) * 2 ^ 4) by (change (2 ^ 4) with 16; lia).
    rewrite Z.lor_comm, lor_low_high by (change (2 ^ 4) with 16; lia).
    change (2 ^ 4) with 16. lia.
  - replace ((v mod 256 * 2 ^ 3) mod 256) with ((v mod 32) * 2 ^ 3) by (change (2 ^ 3) with 8; lia).
    rewrite Z.lor_comm, lor_low_high by (change (2 ^ 5) with 32; change (2 ^ 3) with 8; lia).
    change (2 ^ 5) with 32; change (2 ^ 3) with 8. lia.
  - replace ((v mod 256 * 2 ^ 2) mod 256) with ((v mod 64) * 2 ^ 2) by (change (2 ^ 2) with 4; lia).
    rewrite Z.lor_comm, lor_low_high by (change (2 ^ 6) with 64; change (2 ^ 2) with 4; lia).
    change (2 ^ 6) with 64; change (2 ^ 2) with 4. lia.
  - replace ((v mod 256 * 2 ^ 1) mod 256) with ((v mod 128) * 2 ^ 1) by (change (2 ^ 1) with 2; lia).
    rewrite Z.lor_comm, lor_low_high by (change (2 ^ 7) with 128; change (2 ^ 1) with 2; lia).
    change (2 ^ 7) with 128; change (2 ^ 1) with 2. lia.
Qed.

Lemma shr_bits_spec : forall a s, bytes_ok a -> 0 <= s < 8 ->
  uval (shr_bits s a) = uval a / 2 ^ s
  /\ bytes_ok (shr_bits s a) /\ length (shr_bits s a) = length a.
Proof.
  induction a as [|x a IH]; intros s Ha Hs.
  - cbn [shr_bits uval length]. rewrite Z.div_0_l by (apply Z.pow_nonzero; lia).
    repeat split. apply bytes_ok_nil.
  - apply bytes_ok_cons in Ha. destruct Ha as [Hx Ha]. unfold byte_ok in Hx.
    destruct (IH s Ha Hs) as (Hv & Hbk & Hlen).
    pose proof (uval_bound a Ha) as Hbd.
    cbn [shr_bits]. rewrite (hd_mod a Ha).
    destruct (shr_byte_step s x (uval a) Hs Hx ltac:(lia)) as [Ho1 Ho2].
    split; [|split].
    + cbn [uval]. rewrite Hv. exact Ho2.
    + apply bytes_ok_cons. split; [exact Ho1|exact Hbk].
    + cbn [length]. rewrite Hlen. reflexivity.
Qed.

Lemma shr_bytes_spec a k : bytes_ok a -> 0 <= k ->
  uval (shr_bytes k a) = uval a / 2 ^ (8 * k)
  /\ bytes_ok (shr_bytes k a) /\ length (shr_bytes k a) = length a.
Proof.
  intros Ha Hk. unfold shr_bytes.
  destruct (zeros_ok (length a)) as (Z1 & Z2 & Z3).
  pose proof (uval_bound a Ha) as Hbd.
  destruct (Z.leb_spec (Z.of_nat (length a)) k) as [Hge|Hlt].
  - rewrite Z3. split; [|split; assumption].
    symmetry. apply Z.div_small. split; [lia|].
    rewrite P256_pow2 in Hbd.
    assert (2 ^ (8 * Z.of_nat (length a)) <= 2 ^ (8 * k)) by (apply Z.pow_le_mono_r; lia). lia.
  - destruct (zeros_ok (Z.to_nat k)) as (K1 & K2 & K3).
    split; [|split].
    + rewrite uval_app, K3, uval_skipn by (try exact Ha; lia). rewrite P256_Zpow by lia. lia.
    + apply bytes_ok_app. split; [apply skipn_ok; exact Ha|exact K1].
    + rewrite app_length, skipn_length, K2. lia.
Qed.

Theorem shr_g_spec a sh : bytes_ok a -> 0 <= sh ->
  uval (shr_g a sh) = uval a / 2 ^ sh
  /\ bytes_ok (shr_g a sh) /\ length (shr_g a sh) = length a.
Proof.
  intros Ha Hsh. unfold shr_g.
  destruct (shr_bytes_spec a (sh / 8) Ha ltac:(lia)) as (Hv & Hb & Hl).
  destruct (shr_bits_spec (shr_bytes (sh / 8) a) (sh mod 8) Hb ltac:(lia)) as (Hv2 & Hb2 & Hl2).
  rewrite Hv2, Hl2, Hl, Hv. split; [|split; [exact Hb2|reflexivity]].
  rewrite Z.div_div by (try apply Z.pow_pos_nonneg; lia).
  rewrite <- pow2_divmod8 by exact Hsh. reflexivity.
Qed.

(** * bits() *)
Lemma bits_byte_sweep :
  all_below 256 (fun x => (x =? 0) || (bits_byte 7 x =? Z.log2 x + 1)) = true.
Proof. vm_compute. reflexivity. Qed.

Lemma bits_byte_spec x : 0 < x < 256 -> bits_byte 7 x = Z.log2 x + 1.
Proof.
  intros Hx. pose proof (all_below_spec 256 _ bits_byte_sweep x ltac:(lia)) as H.
  cbv beta in H. apply orb_prop in H. destruct H as [H|H].
  - apply Z.eqb_eq in H. lia.
  - apply Z.eqb_eq in H. exact H.
Qed.

Lemma bits_from_spec : forall a pos, bytes_ok a -> 0 <= pos ->
  bits_from pos a = if uval a =? 0 then 0 else 8 * pos + Z.log2 (uval a) + 1.
Proof.
  induction a as [|x a IH]; intros pos Ha Hpos.
  - reflexivity.
  - apply bytes_ok_cons in Ha. destruct Ha as [Hx Ha]. unfold byte_ok in Hx.
    pose proof (uval_bound a Ha) as Hbd.
    cbn [bits_from uval]. rewrite (IH (pos + 1) Ha ltac:(lia)).
    destruct (Z.eqb_spec (uval a) 0) as [E|E].
    + rewrite E. cbn [Z.eqb negb]. rewrite Z.mul_0_r, Z.add_0_r.
      destruct (Z.eqb_spec x 0) as [Ex|Ex]; cbn [negb]; [reflexivity|].
      rewrite bits_byte_spec by lia. lia.
    + assert (Hpos' : 0 < uval a) by lia.
      pose proof (Z.log2_nonneg (uval a)) as Hl0.
      destruct (Z.log2_spec (uval a) Hpos') as [Hlo Hhi].
      set (l := Z.log2 (uval a)) in *.
      assert (Hlog : Z.log2 (x + 256 * uval a) = 8 + l).
      { apply Z.log2_unique; [lia|].
        replace (Z.succ (8 + l)) with (8 + Z.succ l) by lia.
        rewrite !Z.pow_add_r by lia. change (2 ^ 8) with 256. lia. }
      destruct (Z.eqb_spec (8 * (pos + 1) + l + 1) 0) as [E2|E2]; [lia|]. cbn [negb].
      destruct (Z.eqb_spec (x + 256 * uval a) 0) as [E3|E3]; [lia|].
      rewrite Hlog. lia.
Qed.

Theorem ubits_g_spec a : bytes_ok a -> ubits_g a = bits (uval a).
Proof.
  intros Ha. unfold ubits_g, bits. rewrite (bits_from_spec a 0 Ha ltac:(lia)).
  pose proof (uval_bound a Ha) as Hbd.
  destruct (Z.eqb_spec (uval a) 0) as [E|E]; destruct (Z.leb_spec (uval a) 0); try lia; reflexivity.
Qed.

(** * getLow64 and the uint64 constructor *)
Theorem getLow64_spec a : bytes_ok a -> (8 <= length a)%nat -> getLow64 a = uval a mod 2 ^ 64.
Proof.
  intros Ha Hl. unfold getLow64.
  rewrite uval_firstn by (try exact Ha; lia).
  rewrite uval_firstn by (try apply skipn_ok; try exact Ha; rewrite ?skipn_length; lia).
  rewrite uval_skipn by (try exact Ha; lia).
  change (P256 4) with (2 ^ 32).
  pose proof (uval_bound a Ha) as Hbd.
  set (v := uval a) in *.
  rewrite Z.shiftl_mul_pow2 by lia.
  rewrite w64_small by (change (2 ^ 64) with (2 ^ 32 * 2 ^ 32); change (2 ^ 32) with 4294967296; lia).
  rewrite <- Z.shiftl_mul_pow2 by lia.
  rewrite lor_shiftl_add by (change (2 ^ 32) with 4294967296; lia).
  change (2 ^ 64) with (2 ^ 32 * 2 ^ 32). rewrite Z.rem_mul_r by lia. lia.
Qed.

Theorem of_u64_spec b : 0 <= b < 2 ^ 64 ->
  uval (of_u64 b) = b /\ bytes_ok (of_u64 b) /\ length (of_u64 b) = WIDTH.
Proof.
  intros Hb. unfold of_u64.
  destruct (zeros_ok (WIDTH - 8)) as (Z1 & Z2 & Z3).
  split; [|split].
  - rewrite uval_app, Z3. cbn [uval]. unfold w8.
    rewrite !Z.shiftr_div_pow2 by lia.
    change (2 ^ 64) with 18446744073709551616 in Hb.
    change (2 ^ 8) with 256. change (2 ^ 16) with 65536. change (2 ^ 24) with 16777216.
    change (2 ^ 32) with 4294967296. change (2 ^ 40) with 1099511627776.
    change (2 ^ 48) with 281474976710656. change (2 ^ 56) with 72057594037927936.
    lia.
  - apply bytes_ok_app. split; [|exact Z1].
    unfold w8. repeat (apply bytes_ok_cons; split; [unfold byte_ok; lia|]). apply bytes_ok_nil.
  - rewrite app_length, Z2. reflexivity.
Qed.
