(** C06 — untrusted bytes never over-read or over-allocate in the parsers.
    Property theorems only; each closed by [exact] of a lemma proved in Serde/.
    [c06_ok c] = forall bs, safe bs (dec c bs), where [safe bs r] (Serde/CodecSpec.v) says: r is
    [Value x rest] with [rest] a suffix of [bs] (consumed <= available), or [Invalid];
    never [Oob] (read outside the buffer), never [BadAlloc] (reserve above alloc_cap). *)
From Coq Require Import ZArith List.
From VB Require Import Gen.Consts Serde.StreamDefs Serde.CodecSpec Serde.StreamProofs Serde.EntityDefs Serde.Theorems Serde.FitsProofs Serde.StoredDefs Serde.StoredTheorems Serde.AddrNorm Text.TextCommon Text.AddressDefs.
Local Open Scope Z_scope.

Theorem C06_primitives_total : forall bs,
  (forall n, safe bs (read_slice n bs)) /\ (forall t n, safe bs (read_be t n bs)) /\ (forall t, safe bs (read_le t bs)) /\
  (forall mn mx, safe bs (read_sbl mn mx bs)) /\ (forall t, safe bs (read_single_be t bs)) /\
  (forall mn mx, safe bs (read_var_len mn mx bs)) /\ (forall mn mx, safe bs (read_count mn mx bs)).
Proof. exact primitives_safe. Qed.
Print Assumptions C06_primitives_total.

Theorem C06_alloc_bounded : forall mn mx bs c r, mx < 2 ^ 31 -> read_count mn mx bs = Value c r -> 0 <= c /\ mn <= c <= mx.
Proof. exact read_count_bounded. Qed.
Print Assumptions C06_alloc_bounded.

Theorem C06_declared_limits_below_cap :
  MAX_LAYER_COUNT_MERKLE <= alloc_cap /\ MAX_BTC_BLOCKS_IN_VBKPOPTX <= alloc_cap /\
  MAX_POPDATA_VBK <= alloc_cap /\ MAX_POPDATA_VTB <= alloc_cap /\ MAX_POPDATA_ATV <= alloc_cap /\ 255 <= alloc_cap.
Proof. exact declared_limits_below_cap. Qed.
Print Assumptions C06_declared_limits_below_cap.

Theorem C06_array_of_total : forall A (c : codec A) mn mx, mx <= alloc_cap -> codec_ok c ->
  c06_ok (c_counted (c_count mn mx) c_empty c).
Proof. exact array_c06. Qed.
Print Assumptions C06_array_of_total.

Theorem C06_parse_total_Address : forall addr_norm, addr_norm_sound addr_norm -> c06_ok (c_address addr_norm).
Proof. exact address_c06. Qed.
Print Assumptions C06_parse_total_Address.
Theorem C06_parse_total_Output : forall addr_norm, addr_norm_sound addr_norm -> c06_ok (c_output addr_norm).
Proof. exact output_c06. Qed.
Print Assumptions C06_parse_total_Output.
Theorem C06_parse_total_BtcTx : c06_ok c_btctx.
Proof. exact btctx_c06. Qed.
Print Assumptions C06_parse_total_BtcTx.
Theorem C06_parse_total_BtcBlock : c06_ok c_btcblock.
Proof. exact btcblock_c06. Qed.
Print Assumptions C06_parse_total_BtcBlock.
Theorem C06_parse_total_VbkBlock : c06_ok c_vbkblock.
Proof. exact vbkblock_c06. Qed.
Print Assumptions C06_parse_total_VbkBlock.
Theorem C06_parse_total_MerklePath : c06_ok c_merklepath.
Proof. exact merklepath_c06. Qed.
Print Assumptions C06_parse_total_MerklePath.
Theorem C06_parse_total_VbkMerklePath : c06_ok c_vbkmerklepath.
Proof. exact vbkmerklepath_c06. Qed.
Print Assumptions C06_parse_total_VbkMerklePath.
Theorem C06_parse_total_PublicationData : c06_ok c_pubdata.
Proof. exact pubdata_c06. Qed.
Print Assumptions C06_parse_total_PublicationData.
Theorem C06_parse_total_VbkTx : forall addr_norm, addr_norm_sound addr_norm -> c06_ok (c_vbktx addr_norm).
Proof. exact vbktx_c06. Qed.
Print Assumptions C06_parse_total_VbkTx.
Theorem C06_parse_total_VbkPopTx : forall addr_norm, addr_norm_sound addr_norm -> c06_ok (c_vbkpoptx addr_norm).
Proof. exact vbkpoptx_c06. Qed.
Print Assumptions C06_parse_total_VbkPopTx.
Theorem C06_parse_total_ATV : forall addr_norm, addr_norm_sound addr_norm -> c06_ok (c_atv addr_norm).
Proof. exact atv_c06. Qed.
Print Assumptions C06_parse_total_ATV.
Theorem C06_parse_total_VTB : forall addr_norm, addr_norm_sound addr_norm -> c06_ok (c_vtb addr_norm).
Proof. exact vtb_c06. Qed.
Print Assumptions C06_parse_total_VTB.
Theorem C06_parse_total_PopData : forall addr_norm, addr_norm_sound addr_norm -> c06_ok (c_popdata addr_norm).
Proof. exact popdata_c06. Qed.
Print Assumptions C06_parse_total_PopData.
Theorem C06_parse_total_AltBlock : c06_ok c_altblock.
Proof. exact altblock_c06. Qed.
Print Assumptions C06_parse_total_AltBlock.
Theorem C06_parse_total_KeystoneContainer : c06_ok c_keystones.
Proof. exact keystones_c06. Qed.
Print Assumptions C06_parse_total_KeystoneContainer.
Theorem C06_parse_total_ContextInfoContainer : c06_ok c_ctxinfo.
Proof. exact ctxinfo_c06. Qed.
Print Assumptions C06_parse_total_ContextInfoContainer.
Theorem C06_parse_total_AuthenticatedContextInfoContainer : c06_ok c_authctx.
Proof. exact authctx_c06. Qed.
Print Assumptions C06_parse_total_AuthenticatedContextInfoContainer.
Theorem C06_parse_total_VbkEndorsement : c06_ok c_vbk_endorsement.
Proof. exact vbk_endorsement_c06. Qed.
Print Assumptions C06_parse_total_VbkEndorsement.
Theorem C06_parse_total_AltEndorsement : c06_ok c_alt_endorsement.
Proof. exact alt_endorsement_c06. Qed.
Print Assumptions C06_parse_total_AltEndorsement.
Theorem C06_parse_total_StoredBlockIndex_Btc : c06_ok c_stored_btc.
Proof. exact stored_btc_c06. Qed.
Print Assumptions C06_parse_total_StoredBlockIndex_Btc.
Theorem C06_parse_total_StoredBlockIndex_Vbk : c06_ok c_stored_vbk.
Proof. exact stored_vbk_c06. Qed.
Print Assumptions C06_parse_total_StoredBlockIndex_Vbk.
Theorem C06_parse_total_StoredBlockIndex_Alt : c06_ok c_stored_alt.
Proof. exact stored_alt_c06. Qed.
Print Assumptions C06_parse_total_StoredBlockIndex_Alt.

(** which address wire forms are accepted, over the address model of property C18: (type byte, bytes) is accepted iff
    Address::fromString accepts EncodeBase58|59(bytes) (by wire type) — the resulting type comes from the TEXT *)
Theorem C06_address_accepted_wire_forms : forall sha256 ty b t' b', addr_norm_c18 sha256 ty b = Some (t', b') ->
  exists text a, text_of_wire ty b = Ok text /\ addr_from_string sha256 text = Ok a /\
                 t' = AddressDefs.addr_type a /\ (ty = ADDR_STANDARD \/ ty = ADDR_MULTISIG).
Proof. exact addr_norm_c18_accepts. Qed.
Print Assumptions C06_address_accepted_wire_forms.

(** the same parsers with the CONCRETE address normalisation [addr_norm_c18 sha256] (what DeserializeFromVbkEncoding(Address) computes,
    over the C18 text model): its premise [addr_norm_sound] is proved for every sha256 (Serde/AddrNormProofs.v), so nothing but
    [sha256] stays abstract *)
From VB Require Serde.AddrNormProofs Serde.AddrNormConcrete.
Theorem C06_addr_norm_sound_discharged : forall sha256, addr_norm_sound (addr_norm_c18 sha256).
Proof. exact AddrNormProofs.addr_norm_c18_sound. Qed.
Print Assumptions C06_addr_norm_sound_discharged.
Theorem C06_parse_total_Address_concrete : forall sha256, c06_ok (c_address (addr_norm_c18 sha256)).
Proof. exact AddrNormConcrete.address_c06_concrete. Qed.
Print Assumptions C06_parse_total_Address_concrete.
Theorem C06_parse_total_Output_concrete : forall sha256, c06_ok (c_output (addr_norm_c18 sha256)).
Proof. exact AddrNormConcrete.output_c06_concrete. Qed.
Print Assumptions C06_parse_total_Output_concrete.
Theorem C06_parse_total_VbkTx_concrete : forall sha256, c06_ok (c_vbktx (addr_norm_c18 sha256)).
Proof. exact AddrNormConcrete.vbktx_c06_concrete. Qed.
Print Assumptions C06_parse_total_VbkTx_concrete.
Theorem C06_parse_total_VbkPopTx_concrete : forall sha256, c06_ok (c_vbkpoptx (addr_norm_c18 sha256)).
Proof. exact AddrNormConcrete.vbkpoptx_c06_concrete. Qed.
Print Assumptions C06_parse_total_VbkPopTx_concrete.
Theorem C06_parse_total_ATV_concrete : forall sha256, c06_ok (c_atv (addr_norm_c18 sha256)).
Proof. exact AddrNormConcrete.atv_c06_concrete. Qed.
Print Assumptions C06_parse_total_ATV_concrete.
Theorem C06_parse_total_VTB_concrete : forall sha256, c06_ok (c_vtb (addr_norm_c18 sha256)).
Proof. exact AddrNormConcrete.vtb_c06_concrete. Qed.
Print Assumptions C06_parse_total_VTB_concrete.
Theorem C06_parse_total_PopData_concrete : forall sha256, c06_ok (c_popdata (addr_norm_c18 sha256)).
Proof. exact AddrNormConcrete.popdata_c06_concrete. Qed.
Print Assumptions C06_parse_total_PopData_concrete.

(** * TIME bounds: the decoders counted (Serde/StepsDefs.v: one step per byte delivered by a read and per
    entered iteration of an element loop), and containsSplit as coded with an iteration/work counter
    (Stateless/SplitStepsDefs.v). [steps_bound s c a b] := forall bs, fst (s_run s bs) = dec c bs /\
    0 <= snd (s_run s bs) <= a * len bs + b — the counted run returns what the decoder of the theorems above
    returns, on every byte string. *)
From VB Require Serde.StepsDefs Serde.StepsProofs Serde.StepsTheorems Serde.StepsExamples
  Stateless.EmbedDefs Stateless.SplitStepsDefs Stateless.SplitSteps.
Import Serde.StepsDefs Serde.StepsTheorems.

Theorem C06_steps_linear : forall addr_norm,
  steps_bound (s_vbktx addr_norm) (c_vbktx addr_norm) 6 1 /\ steps_bound (s_vbkpoptx addr_norm) (c_vbkpoptx addr_norm) 6 2 /\
  steps_bound (s_atv addr_norm) (c_atv addr_norm) 6 2 /\ steps_bound (s_vtb addr_norm) (c_vtb addr_norm) 6 3 /\
  steps_bound (s_popdata addr_norm) (c_popdata addr_norm) 7 8.
Proof. exact steps_linear. Qed.
Print Assumptions C06_steps_linear.

Theorem C06_steps_linear_parts : forall addr_norm,
  steps_bound (s_output addr_norm) (c_output addr_norm) 2 0 /\ steps_bound s_vbkblock c_vbkblock 2 0 /\
  steps_bound s_btcblock c_btcblock 2 0 /\ steps_bound s_merklepath c_merklepath 4 1 /\
  steps_bound s_vbkmerklepath c_vbkmerklepath 2 1 /\ steps_bound s_pubdata c_pubdata 2 0.
Proof. exact steps_linear_parts. Qed.
Print Assumptions C06_steps_linear_parts.

(** the generic readArrayOf over any linear element reader that consumes >= 1 byte on success *)
Theorem C06_steps_array_of : forall A mn mx a b m (P : list byte -> sres A) p,
  refines P p -> 0 <= a -> 0 <= b -> 1 <= m -> lin a b m P ->
  forall bs, fst (read_array_of_s mn mx P bs) = read_array_of mn mx p bs /\
             0 <= snd (read_array_of_s mn mx P bs) <= Z.max 2 (a + amort b m) * len bs + (b + 1).
Proof. exact @array_steps. Qed.
Print Assumptions C06_steps_array_of.

(** the element loop costs the same bound whatever count it is started with *)
Theorem C06_steps_count_independent : forall A a b m (P : list byte -> sres A),
  0 <= a -> 0 <= b -> 1 <= m -> lin a b m P ->
  forall n bs, 0 <= snd (read_n_s P n bs) <= (a + amort b m) * len bs + (b + 1).
Proof. exact @loop_steps_count_independent. Qed.
Print Assumptions C06_steps_count_independent.

(** the range check before reserve() and the loop: a count outside [min, max] ends the array within 9 steps *)
Theorem C06_steps_count_out_of_range : forall A mn mx (P : list byte -> sres A) bs c r,
  fst (read_single_be_s I32 bs) = StreamDefs.Value c r -> check_range c mn mx = false ->
  read_array_of_s mn mx P bs = (StreamDefs.Invalid, snd (read_single_be_s I32 bs)) /\ snd (read_single_be_s I32 bs) <= 9.
Proof. exact @array_count_out_of_range. Qed.
Print Assumptions C06_steps_count_out_of_range.

(** without that check, 5 bytes buy 2^31 iterations of an element that succeeds on no bytes *)
Theorem C06_steps_unchecked_count_refuted :
  len huge_count = 5 /\ 2 ^ 31 <= snd (read_array_unchecked_s (s_run s_empty) huge_count) /\
  read_array_of_s 0 MAX_POPDATA_VTB (s_run s_empty) huge_count = (StreamDefs.Invalid, 9).
Proof. exact unchecked_count_refuted. Qed.
Print Assumptions C06_steps_unchecked_count_refuted.

Theorem C06_steps_example_PopData :
  len StepsExamples.ex_bytes = 2661 /\
  s_run (s_popdata StepsExamples.an0) StepsExamples.ex_bytes = (StreamDefs.Value StepsExamples.ex_pop nil, 5428) /\
  dec (c_popdata StepsExamples.an0) StepsExamples.ex_bytes = StreamDefs.Value StepsExamples.ex_pop nil /\
  5428 <= 7 * len StepsExamples.ex_bytes + 8.
Proof. exact StepsExamples.popdata_steps_example. Qed.
Print Assumptions C06_steps_example_PopData.

Import Stateless.EmbedDefs Stateless.SplitStepsDefs.

(** the loop of containsSplit: one iteration moves the loop-head position forward by 1..3 bytes and leaves it
    inside the buffer (lastPos is taken AFTER the three magic bytes) *)
Theorem C06_split_measure_decreases : forall g data tx pos pos' w,
  scan_step false g data tx pos = Continue pos' w ->
  5 < scan_measure tx pos /\ scan_measure tx pos - 3 <= scan_measure tx pos' < scan_measure tx pos.
Proof. exact SplitSteps.scan_step_progress. Qed.
Print Assumptions C06_split_measure_decreases.

(** the fuel [containsSplit] is given is never exhausted; the counted loop returns its verdict (all inputs) *)
Theorem C06_split_terminates : forall data tx,
  exists v n w, containsSplit_w data tx = Done v n w /\ containsSplit data tx = v /\ 1 <= n <= Z.max 1 (zlen tx - 4).
Proof. exact SplitSteps.split_terminates. Qed.
Print Assumptions C06_split_terminates.

(** total work <= |tx| * (2656 + 2|data|) / 3  (2656: 15 chunks x (1 + 23 bit reads + 127 copied bytes), 43-byte table) *)
Theorem C06_split_steps_bound : forall data tx,
  zlen data < 2 ^ 32 -> zlen tx < 2 ^ 32 - 2 ^ 11 ->
  exists v n w, containsSplit_w data tx = Done v n w /\ containsSplit data tx = v /\
                1 <= n <= Z.max 1 (zlen tx - 4) /\ 0 <= w /\ 3 * w <= zlen tx * (2656 + 2 * zlen data).
Proof. exact SplitSteps.split_steps_bound. Qed.
Print Assumptions C06_split_steps_bound.

(** lastPos taken BEFORE the magic: on 92 7a 59 10 00 + 80 zero bytes the loop state repeats and no fuel suffices *)
Theorem C06_split_rewind_to_magic_start_refuted :
  exists data tx pos w,
    length data = 80%nat /\ 5 < scan_measure tx pos /\
    scan_step true true data tx pos = Continue pos w /\
    (forall fuel, scan_run true true data tx pos fuel = OutOfFuel) /\
    containsSplit_w data tx = Done (VFalse 0) 79 251.
Proof. exact SplitSteps.split_rewind_refuted. Qed.
Print Assumptions C06_split_rewind_to_magic_start_refuted.

Theorem C06_split_steps_example :
  containsSplit_w EmbedProofs.f11_data EmbedBits.honest_split_tx = Done VTrue 82 276 /\
  3 * 276 <= zlen EmbedBits.honest_split_tx * (2656 + 2 * zlen EmbedProofs.f11_data).
Proof. exact SplitSteps.honest_split_steps. Qed.
Print Assumptions C06_split_steps_example.
