(** C06 — untrusted bytes never over-read or over-allocate in the parsers.
    Property theorems only; each closed by [exact] of a lemma proved in Serde/.
    [c06_ok c] = forall bs, safe bs (dec c bs), where [safe bs r] (Serde/CodecSpec.v) says: r is
    [Value x rest] with [rest] a suffix of [bs] (consumed <= available), or [Invalid];
    never [Oob] (read outside the buffer), never [BadAlloc] (reserve above alloc_cap). *)
From Coq Require Import ZArith List.
From VB Require Import Gen.Consts Serde.StreamDefs Serde.CodecSpec Serde.StreamProofs Serde.EntityDefs Serde.Theorems Serde.FitsProofs Serde.StoredDefs Serde.StoredTheorems Serde.AddrNorm Text.TextCommon Text.AddressDefs.
Local Open Scope Z_scope.

Theorem C06_primitives_total : forall bs,
  (forall n, safe bs (read_slice n bs)) /\ (forall t n, safe bs (read_be t n bs)) /\ (forall t, safe bs (read_le t bs)) /\
  (forall mn mx, safe bs (read_sbl mn mx bs)) /\ (forall t, safe bs (read_single_be t bs)) /\
  (forall mn mx, safe bs (read_var_len mn mx bs)) /\ (forall mn mx, safe bs (read_count mn mx bs)).
Proof. exact primitives_safe. Qed.
Print Assumptions C06_primitives_total.

Theorem C06_alloc_bounded : forall mn mx bs c r, mx < 2 ^ 31 -> read_count mn mx bs = Value c r -> 0 <= c /\ mn <= c <= mx.
Proof. exact read_count_bounded. Qed.
Print Assumptions C06_alloc_bounded.

Theorem C06_declared_limits_below_cap :
  MAX_LAYER_COUNT_MERKLE <= alloc_cap /\ MAX_BTC_BLOCKS_IN_VBKPOPTX <= alloc_cap /\
  MAX_POPDATA_VBK <= alloc_cap /\ MAX_POPDATA_VTB <= alloc_cap /\ MAX_POPDATA_ATV <= alloc_cap /\ 255 <= alloc_cap.
Proof. exact declared_limits_below_cap. Qed.
Print Assumptions C06_declared_limits_below_cap.

Theorem C06_array_of_total : forall A (c : codec A) mn mx, mx <= alloc_cap -> codec_ok c ->
  c06_ok (c_counted (c_count mn mx) c_empty c).
Proof. exact array_c06. Qed.
Print Assumptions C06_array_of_total.

Theorem C06_parse_total_Address : forall addr_norm, addr_norm_sound addr_norm -> c06_ok (c_address addr_norm).
Proof. exact address_c06. Qed.
Print Assumptions C06_parse_total_Address.
Theorem C06_parse_total_Output : forall addr_norm, addr_norm_sound addr_norm -> c06_ok (c_output addr_norm).
Proof. exact output_c06. Qed.
Print Assumptions C06_parse_total_Output.
Theorem C06_parse_total_BtcTx : c06_ok c_btctx.
Proof. exact btctx_c06. Qed.
Print Assumptions C06_parse_total_BtcTx.
Theorem C06_parse_total_BtcBlock : c06_ok c_btcblock.
Proof. exact btcblock_c06. Qed.
Print Assumptions C06_parse_total_BtcBlock.
Theorem C06_parse_total_VbkBlock : c06_ok c_vbkblock.
Proof. exact vbkblock_c06. Qed.
Print Assumptions C06_parse_total_VbkBlock.
Theorem C06_parse_total_MerklePath : c06_ok c_merklepath.
Proof. exact merklepath_c06. Qed.
Print Assumptions C06_parse_total_MerklePath.
Theorem C06_parse_total_VbkMerklePath : c06_ok c_vbkmerklepath.
Proof. exact vbkmerklepath_c06. Qed.
Print Assumptions C06_parse_total_VbkMerklePath.
Theorem C06_parse_total_PublicationData : c06_ok c_pubdata.
Proof. exact pubdata_c06. Qed.
Print Assumptions C06_parse_total_PublicationData.
Theorem C06_parse_total_VbkTx : forall addr_norm, addr_norm_sound addr_norm -> c06_ok (c_vbktx addr_norm).
Proof. exact vbktx_c06. Qed.
Print Assumptions C06_parse_total_VbkTx.
Theorem C06_parse_total_VbkPopTx : forall addr_norm, addr_norm_sound addr_norm -> c06_ok (c_vbkpoptx addr_norm).
Proof. exact vbkpoptx_c06. Qed.
Print Assumptions C06_parse_total_VbkPopTx.
Theorem C06_parse_total_ATV : forall addr_norm, addr_norm_sound addr_norm -> c06_ok (c_atv addr_norm).
Proof. exact atv_c06. Qed.
Print Assumptions C06_parse_total_ATV.
Theorem C06_parse_total_VTB : forall addr_norm, addr_norm_sound addr_norm -> c06_ok (c_vtb addr_norm).
Proof. exact vtb_c06. Qed.
Print Assumptions C06_parse_total_VTB.
Theorem C06_parse_total_PopData : forall addr_norm, addr_norm_sound addr_norm -> c06_ok (c_popdata addr_norm).
Proof. exact popdata_c06. Qed.
Print Assumptions C06_parse_total_PopData.
Theorem C06_parse_total_AltBlock : c06_ok c_altblock.
Proof. exact altblock_c06. Qed.
Print Assumptions C06_parse_total_AltBlock.
Theorem C06_parse_total_KeystoneContainer : c06_ok c_keystones.
Proof. exact keystones_c06. Qed.
Print Assumptions C06_parse_total_KeystoneContainer.
Theorem C06_parse_total_ContextInfoContainer : c06_ok c_ctxinfo.
Proof. exact ctxinfo_c06. Qed.
Print Assumptions C06_parse_total_ContextInfoContainer.
Theorem C06_parse_total_AuthenticatedContextInfoContainer : c06_ok c_authctx.
Proof. exact authctx_c06. Qed.
Print Assumptions C06_parse_total_AuthenticatedContextInfoContainer.
Theorem C06_parse_total_VbkEndorsement : c06_ok c_vbk_endorsement.
Proof. exact vbk_endorsement_c06. Qed.
Print Assumptions C06_parse_total_VbkEndorsement.
Theorem C06_parse_total_AltEndorsement : c06_ok c_alt_endorsement.
Proof. exact alt_endorsement_c06. Qed.
Print Assumptions C06_parse_total_AltEndorsement.
Theorem C06_parse_total_StoredBlockIndex_Btc : c06_ok c_stored_btc.
Proof. exact stored_btc_c06. Qed.
Print Assumptions C06_parse_total_StoredBlockIndex_Btc.
Theorem C06_parse_total_StoredBlockIndex_Vbk : c06_ok c_stored_vbk.
Proof. exact stored_vbk_c06. Qed.
Print Assumptions C06_parse_total_StoredBlockIndex_Vbk.
Theorem C06_parse_total_StoredBlockIndex_Alt : c06_ok c_stored_alt.
Proof. exact stored_alt_c06. Qed.
Print Assumptions C06_parse_total_StoredBlockIndex_Alt.

(** which address wire forms are accepted, over the address model of property C18: (type byte, bytes) is accepted iff
    Address::fromString accepts EncodeBase58|59(bytes) (by wire type) — the resulting type comes from the TEXT *)
Theorem C06_address_accepted_wire_forms : forall sha256 ty b t' b', addr_norm_c18 sha256 ty b = Some (t', b') ->
  exists text a, text_of_wire ty b = Ok text /\ addr_from_string sha256 text = Ok a /\
                 t' = AddressDefs.addr_type a /\ (ty = ADDR_STANDARD \/ ty = ADDR_MULTISIG).
Proof. exact addr_norm_c18_accepts. Qed.
Print Assumptions C06_address_accepted_wire_forms.

(** the same parsers with the CONCRETE address normalisation [addr_norm_c18 sha256] (what DeserializeFromVbkEncoding(Address) computes,
    over the C18 text model): its premise [addr_norm_sound] is proved for every sha256 (Serde/AddrNormProofs.v), so nothing but
    [sha256] stays abstract *)
From VB Require Serde.AddrNormProofs Serde.AddrNormConcrete.
Theorem C06_addr_norm_sound_discharged : forall sha256, addr_norm_sound (addr_norm_c18 sha256).
Proof. exact AddrNormProofs.addr_norm_c18_sound. Qed.
Print Assumptions C06_addr_norm_sound_discharged.
Theorem C06_parse_total_Address_concrete : forall sha256, c06_ok (c_address (addr_norm_c18 sha256)).
Proof. exact AddrNormConcrete.address_c06_concrete. Qed.
Print Assumptions C06_parse_total_Address_concrete.
Theorem C06_parse_total_Output_concrete : forall sha256, c06_ok (c_output (addr_norm_c18 sha256)).
Proof. exact AddrNormConcrete.output_c06_concrete. Qed.
Print Assumptions C06_parse_total_Output_concrete.
Theorem C06_parse_total_VbkTx_concrete : forall sha256, c06_ok (c_vbktx (addr_norm_c18 sha256)).
Proof. exact AddrNormConcrete.vbktx_c06_concrete. Qed.
Print Assumptions C06_parse_total_VbkTx_concrete.
Theorem C06_parse_total_VbkPopTx_concrete : forall sha256, c06_ok (c_vbkpoptx (addr_norm_c18 sha256)).
Proof. exact AddrNormConcrete.vbkpoptx_c06_concrete. Qed.
Print Assumptions C06_parse_total_VbkPopTx_concrete.
Theorem C06_parse_total_ATV_concrete : forall sha256, c06_ok (c_atv (addr_norm_c18 sha256)).
Proof. exact AddrNormConcrete.atv_c06_concrete. Qed.
Print Assumptions C06_parse_total_ATV_concrete.
Theorem C06_parse_total_VTB_concrete : forall sha256, c06_ok (c_vtb (addr_norm_c18 sha256)).
Proof. exact AddrNormConcrete.vtb_c06_concrete. Qed.
Print Assumptions C06_parse_total_VTB_concrete.
Theorem C06_parse_total_PopData_concrete : forall sha256, c06_ok (c_popdata (addr_norm_c18 sha256)).
Proof. exact AddrNormConcrete.popdata_c06_concrete. Qed.
Print Assumptions C06_parse_total_PopData_concrete.
