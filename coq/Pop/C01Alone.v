(** C01 by composition, part 5: the stand-alone re-validation of a candidate that outscores the active chain.
    comparePopScore unapplies the not fully valid top of the candidate branch, unapplies the active chain down to the
    fork and applies that top again: the outcome is "the bodies of root..candidate replay from the bootstrap state",
    whatever part of the branch had been validated before (truthfulness of the fully-valid level, C20). *)
From Coq Require Import List ZArith NArith Bool Lia Permutation.
Import ListNotations.
From VB Require Import Pop.SmDefs Pop.SmProofs Pop.SmWf Pop.SmTruth Pop.SmCmp Pop.SmAll Pop.SmCoh Pop.SmFull Pop.SmMarks Pop.SmTree
     Pop.SmReact Pop.SmAbort Pop.SmTwin Pop.SmCmpTotal Pop.C01Compose Pop.C01Verdict Pop.C01Fork.
Local Open Scope Z_scope.

(** * applying blocks = replaying their bodies on P *)
Lemma applyBlock_gs : forall s x s1 o1 b,
    c_applyBlock s x = Ok (s1, o1) -> bfind (blocks _ _ s) x = Some b -> is_failed _ b = false ->
    exists p', gsexec pstate ccmd cexec cunexec [] (b_gs _ b) (pst _ _ s) = (p', o1) /\ (o1 = true -> pst _ _ s1 = p').
Proof.
  intros s x s1 o1 b H F Hf. unfold c_applyBlock, applyBlock in H. rewrite F in H.
  destruct (N.eqb x (root pstate ccmd s)); [discriminate|].
  destruct (bfind (blocks pstate ccmd s) (b_par ccmd b)) as [pb|]; [|discriminate].
  destruct (negb (b_act ccmd pb)); [discriminate|].
  destruct (b_act ccmd b); [discriminate|].
  destruct (child_active ccmd (blocks pstate ccmd s) x); [discriminate|].
  destruct (b_fc ccmd b); [discriminate|]. rewrite Hf in H.
  destruct (N.ltb (b_lvl ccmd b) L_CONNECTED); [discriminate|].
  destruct (gsexec pstate ccmd cexec cunexec [] (b_gs ccmd b) (pst pstate ccmd s)) as [p' g].
  destruct g; cbn [negb] in H.
  - match type of H with (if ?c then _ else _) = _ => destruct c end; [discriminate|]. inversion H; subst.
    exists p'. split; [reflexivity|intros _; reflexivity].
  - destruct (invalidate_pop pstate ccmd _ x); cbn in H; [|discriminate]. inversion H; subst.
    exists p'. split; [reflexivity|discriminate].
Qed.

Lemma apply_path_replay : forall path s from t ok,
    (forall x, In x path -> exists b, bfind (blocks _ _ s) x = Some b /\ is_failed _ b = false) ->
    apply_path pstate ccmd cexec cunexec s from path = Ok (t, ok) ->
    (ok = true <-> exists p, replay (map (gs_of s) path) (pst _ _ s) = Some p).
Proof.
  induction path as [|x r IH]; intros s from t ok Hc H; cbn in H.
  - inversion H; subst. split; [intros _; eexists; reflexivity|reflexivity].
  - destruct (applyBlock pstate ccmd cexec cunexec s x) as [[s1 o1]|] eqn:E; cbn [bind] in H; [|discriminate].
    destruct (Hc x (or_introl eq_refl)) as (b & Fb & Hf).
    destruct (applyBlock_gs s x s1 o1 b E Fb Hf) as (p' & Eg & Hp).
    cbn [map replay]. unfold gs_of at 1. rewrite Fb, Eg.
    destruct o1.
    + rewrite <- (Hp eq_refl).
      assert (Hc1 : forall y, In y r -> exists b1, bfind (blocks _ _ s1) y = Some b1 /\ is_failed _ b1 = false).
      { intros y Hy. destruct (Hc y (or_intror Hy)) as (by0 & Fy & Hfy).
        destruct (proj1 (applyBlock_ok_inv _ _ _ E) y by0 Fy) as (b1 & F1 & _ & Hf1). exists b1. split; [exact F1|congruence]. }
      assert (Hg : map (gs_of s) r = map (gs_of s1) r).
      { apply map_ext_in. intros y Hy. destruct (Hc y (or_intror Hy)) as (by0 & Fy & _).
        destruct (proj1 (applyBlock_ok_inv _ _ _ E) y by0 Fy) as (b1 & F1 & G1 & _). unfold gs_of. rewrite Fy, F1. symmetry. exact G1. }
      rewrite Hg. exact (IH s1 from t ok Hc1 H).
    + destruct (bfind (blocks pstate ccmd s1) x); [|discriminate].
      destruct (unapply pstate ccmd cunexec s1 _ from); cbn [bind] in H; [|discriminate]. inversion H; subst.
      split; [discriminate|intros (p & Hp'); discriminate].
Qed.

Lemma apply_replay : forall s from c n t ok,
    n = Z.to_nat (hgt (cores s) c - hgt (cores s) from) -> ((0 < n)%nat \/ from = c) ->
    clean s c n ->
    apply pstate ccmd cexec cunexec s from c = Ok (t, ok) ->
    (ok = true <-> exists p, replay (map (gs_of s) (rev (map (fun i => up (cores s) i c) (seq 0 n)))) (pst _ _ s) = Some p).
Proof.
  intros s from c n t ok Hn Hpos Cl H. unfold apply in H.
  destruct (N.eqb from c) eqn:Efc.
  { apply N.eqb_eq in Efc. subst from. rewrite Z.sub_diag in Hn. cbn in Hn. subst n. inversion H; subst.
    split; [intros _; eexists; reflexivity|reflexivity]. }
  destruct Hpos as [Hpos|Hpos]; [|apply N.eqb_neq in Efc; congruence].
  destruct (bfind (blocks pstate ccmd s) from) as [bf|] eqn:Ff; [|discriminate].
  destruct (bfind (blocks pstate ccmd s) c) as [bt|] eqn:Fc; [|discriminate].
  rewrite (Cl O bt Hpos Fc) in H.
  destruct (negb (Z.ltb (b_h ccmd bf) (b_h ccmd bt))); [discriminate|].
  rewrite (hgt_find _ _ _ Ff), (hgt_find _ _ _ Fc) in Hn. rewrite <- Hn in H.
  destruct (path_up ccmd (blocks pstate ccmd s) n c) as [upl|] eqn:Eu; [|discriminate].
  pose proof Eu as Eu'. apply path_up_ups in Eu'. rewrite <- Eu'.
  assert (Hall : forall x, In x (rev upl) -> exists b, bfind (blocks _ _ s) x = Some b /\ is_failed _ b = false).
  { intros x Hx. apply in_rev in Hx. rewrite Eu' in Hx. apply in_map_iff in Hx. destruct Hx as (k & <- & Hk). apply in_seq in Hk.
    assert (Hlen : length upl = n) by (rewrite Eu', map_length, seq_length; reflexivity).
    assert (Hnth : nth_error upl k = Some (up (cores s) k c)).
    { rewrite Eu'. rewrite nth_error_map. rewrite (nth_error_nth' (seq 0 n) O) by (rewrite seq_length; lia). rewrite seq_nth by lia. reflexivity. }
    (* the block exists because path_up found it *)
    assert (Hf : forall m x0 l0, path_up ccmd (blocks pstate ccmd s) m x0 = Some l0 -> forall y, In y l0 -> exists b, bfind (blocks _ _ s) y = Some b).
    { clear. induction m as [|m IH]; intros x0 l0 H y Hy; cbn in H; [inversion H; subst; destruct Hy|].
      destruct (bfind (blocks pstate ccmd s) x0) as [b|] eqn:F; [|discriminate].
      destruct (path_up ccmd (blocks pstate ccmd s) m (b_par ccmd b)) as [r|] eqn:E; cbn in H; [|discriminate]. inversion H; subst.
      destruct Hy as [<-|Hy]; [exists b; exact F|exact (IH _ _ E y Hy)]. }
    destruct (Hf _ _ _ Eu (up (cores s) k c) (nth_error_In _ _ Hnth)) as (b & Fb). exists b. split; [exact Fb|].
    apply (Cl k b); [lia|exact Fb]. }
  destruct (rev upl) as [|x r] eqn:Er; [discriminate|].
  destruct (bfind (blocks pstate ccmd s) x); [|discriminate]. destruct (N.eqb _ from); [|discriminate].
  exact (apply_path_replay (x :: r) s from t ok Hall H).
Qed.

Lemma replay_perm : forall gss p q p', Permutation p q -> replay gss p = Some p' ->
    exists q', replay gss q = Some q' /\ Permutation p' q'.
Proof.
  induction gss as [|gs r IH]; intros p q p' HP H; cbn in H.
  - inversion H; subst. exists q. split; [reflexivity|exact HP].
  - destruct (gsexec pstate ccmd cexec cunexec [] gs p) as [p1 g] eqn:E. destruct g; [|discriminate].
    destruct (gsexec_perm _ [] [] _ _ _ HP E) as (q1 & E' & HP1). cbn. rewrite E'. exact (IH _ _ _ HP1 H).
Qed.
Lemma replay_perm_iff : forall gss p q, Permutation p q ->
    ((exists p', replay gss p = Some p') <-> (exists q', replay gss q = Some q')).
Proof.
  intros gss p q HP. split; intros (x & Hx).
  - destruct (replay_perm _ _ _ _ HP Hx) as (y & Hy & _). exists y. exact Hy.
  - destruct (replay_perm _ _ _ _ (Permutation_sym HP) Hx) as (y & Hy & _). exists y. exact Hy.
Qed.

Lemma map_seq_shift : forall (A : Type) (f : nat -> A) j n a, map f (seq (j + a) n) = map (fun i => f (j + i)%nat) (seq a n).
Proof. intros A f j n. induction n as [|n IH]; intros a; [reflexivity|]. cbn. f_equal. rewrite <- IH. f_equal. f_equal. lia. Qed.

(** the bodies of root..c = the bodies of root..(j-th ancestor of c) followed by those of the j blocks above it *)
Lemma bgs_split : forall s c j dv,
    bgs s (j + dv) c = bgs s dv (up (cores s) j c) ++ map (gs_of s) (rev (map (fun i => up (cores s) i c) (seq 0 j))).
Proof.
  intros s c j dv. unfold bgs. rewrite !anc_list_ups.
  replace (S (j + dv)) with (j + S dv)%nat by lia. rewrite seq_app, map_app, map_app, rev_app_distr. f_equal.
  - f_equal. f_equal. cbn [Nat.add]. rewrite <- (Nat.add_0_r j) at 1. rewrite map_seq_shift. apply map_ext. intros i. apply up_add.
  - rewrite map_rev. reflexivity.
Qed.

Lemma static_trace_apply : forall s a b t ok, apply pstate ccmd cexec cunexec s a b = Ok (t, ok) ->
    map (static ccmd) (blocks _ _ t) = map (static ccmd) (blocks _ _ s).
Proof.
  intros s a b t ok H.
  exact (Inv_apply_range pstate ccmd cexec cunexec (staticInv (map (static ccmd) (blocks _ _ s)))
           (staticInv_apply _) (staticInv_unapply _) s a b t ok eq_refl H).
Qed.
Lemma static_trace_uw : forall fuel s cur to pred t w, unapplyWhile pstate ccmd cunexec fuel s cur to pred = Ok (t, w) ->
    map (static ccmd) (blocks _ _ t) = map (static ccmd) (blocks _ _ s).
Proof.
  intros fuel s cur to pred t w H.
  exact (Inv_unapplyWhile pstate ccmd cunexec (staticInv (map (static ccmd) (blocks _ _ s))) (staticInv_unapply _) fuel s cur to pred t w eq_refl H).
Qed.
Lemma static_trace_unapply : forall s a b t, unapply pstate ccmd cunexec s a b = Ok t ->
    map (static ccmd) (blocks _ _ t) = map (static ccmd) (blocks _ _ s).
Proof.
  intros s a b t H.
  exact (Inv_unapply_range pstate ccmd cunexec (staticInv (map (static ccmd) (blocks _ _ s))) (staticInv_unapply _) s a b t eq_refl H).
Qed.

(** a successful apply leaves every failed mark as it was *)
Lemma apply_path_ok_failed : forall path s from t,
    apply_path pstate ccmd cexec cunexec s from path = Ok (t, true) ->
    forall j b, bfind (blocks _ _ s) j = Some b -> exists b', bfind (blocks _ _ t) j = Some b' /\ is_failed _ b' = is_failed _ b.
Proof.
  induction path as [|x r IH]; intros s from t H j b F; cbn in H.
  - inversion H; subst. exists b. split; [exact F|reflexivity].
  - destruct (applyBlock pstate ccmd cexec cunexec s x) as [[s1 o1]|] eqn:E; cbn [bind] in H; [|discriminate].
    destruct o1.
    + destruct (proj1 (applyBlock_ok_inv _ _ _ E) j b F) as (b1 & F1 & _ & Hf1).
      destruct (IH s1 from t H j b1 F1) as (b' & F' & Hf'). exists b'. split; [exact F'|congruence].
    + destruct (bfind (blocks pstate ccmd s1) x); [|discriminate].
      destruct (unapply pstate ccmd cunexec s1 _ from); cbn [bind] in H; [|discriminate]. inversion H.
Qed.
Lemma apply_ok_failed : forall s a c t,
    apply pstate ccmd cexec cunexec s a c = Ok (t, true) ->
    forall j b, bfind (blocks _ _ s) j = Some b -> exists b', bfind (blocks _ _ t) j = Some b' /\ is_failed _ b' = is_failed _ b.
Proof.
  intros s a c t H j b F. unfold apply in H.
  destruct (N.eqb a c); [inversion H; subst; exists b; split; [exact F|reflexivity]|].
  destruct (bfind (blocks pstate ccmd s) a); [|discriminate]. destruct (bfind (blocks pstate ccmd s) c) as [bt|]; [|discriminate].
  destruct (is_failed ccmd bt); [inversion H|].
  destruct (negb _); [discriminate|]. destruct (path_up ccmd _ _ c) as [upl|]; [|discriminate].
  destruct (rev upl) as [|x r]; [discriminate|]. destruct (bfind (blocks pstate ccmd s) x); [|discriminate].
  destruct (N.eqb _ a); [|discriminate]. exact (apply_path_ok_failed _ _ _ _ H j b F).
Qed.

(** * the re-validation of a winning candidate = replay of root..candidate from the bootstrap state *)
Theorem revalidation_replay : forall base s c bc fork t s2 vf s3 s4 ok2,
    reachable base s -> bfind (blocks _ _ s) c = Some bc ->
    lca ccmd (blocks _ _ s) (2 * fuel_of _ _ s) (tip _ _ s) c = Some fork ->
    clean_all s c ->
    apply pstate ccmd cexec cunexec s fork c = Ok (t, true) ->
    unapplyWhile pstate ccmd cunexec (fuel_of _ _ t) t c fork (not_full ccmd) = Ok (s2, vf) ->
    unapply pstate ccmd cunexec s2 (tip _ _ s) fork = Ok s3 ->
    apply pstate ccmd cexec cunexec s3 vf c = Ok (s4, ok2) ->
    (ok2 = true <-> exists p, replay (bgs s (depth s c) c) base = Some p).
Proof.
  intros base s c bc fork t s2 vf s3 s4 ok2 R Fc L Cl A1 U2 U3 A4.
  pose proof (reachable_good _ _ R) as G0. pose proof G0 as (Q & C & K & T & _). pose proof Q as (W & Ta & Hn).
  destruct Ta as (et & Ct & _). pose proof (find_cfind _ _ _ Fc) as Cc.
  pose proof (dep_bound s _ _ W K Ct) as Db1. pose proof (dep_bound s _ _ W K Cc) as Db2.
  destruct (dep_facts s _ _ W K Ct) as (D1 & _). destruct (dep_facts s _ _ W K Cc) as (D2 & _).
  destruct (lca_spec s W K (2 * fuel_of pstate ccmd s) (tip _ _ s) c _ _ Ct Cc) as (fork' & ka & kb & Hl & Hf1 & Hf2 & Ka & Kb & Hmax).
  { unfold fuel_of. lia. }
  rewrite L in Hl. injection Hl as Ef. rewrite <- Ef in Hf1, Hf2, Hmax. clear Ef fork'.
  (* the trace, with the twin invariant *)
  pose proof (twin_init base s G0 c fork ka kb Hf1 Hf2) as T0.
  destruct (twin_apply base s G0 c fork ka kb (core bc) Cc Hf1 Hf2 Ka Kb Hmax s O T0) as (t' & ok1 & E & Ht1 & _).
  rewrite A1 in E. injection E as <- <-. specialize (Ht1 eq_refl). pose proof Ht1 as (F1 & _).
  destruct (twin_uwB base s G0 c fork ka kb (core bc) Cc Hf1 Hf2 Ka Kb Hmax kb t O O (not_full ccmd) (fuel_of pstate ccmd t) Ht1)
    as (s2' & j & E2 & T2 & Hj & _).
  { lia. }
  { unfold fuel_of. rewrite (frame_len s t W F1). lia. }
  cbn [up] in E2. rewrite U2 in E2. injection E2 as <- Evf. pose proof T2 as (F2 & _).
  destruct (twin_unapplyA_range base s G0 c fork ka kb (core bc) Cc Hf1 Hf2 Ka Kb Hmax ka s2 O j (fuel_of pstate ccmd s2) T2) as (s3' & E3 & T3).
  { lia. }
  { unfold fuel_of. rewrite (frame_len s s2 W F2). lia. }
  cbn [up] in E3.
  assert (Eu3 : unapply pstate ccmd cunexec s2 (tip pstate ccmd s) fork = Ok s3') by (unfold unapply; rewrite E3; cbn; rewrite N.eqb_refl; reflexivity).
  rewrite U3 in Eu3. injection Eu3 as <-.
  pose proof (twin_alone_B base s G0 c fork ka kb (core bc) Cc Hf1 Hf2 Ka Kb s3 j T3) as A3. rewrite <- Evf in A3.
  pose proof T3 as (F3 & (WI3 & C3 & TR3) & _).
  pose proof (fr_static _ _ F3) as S3.
  (* static part and heights *)
  assert (St3 : map (static ccmd) (blocks _ _ s3) = map (static ccmd) (blocks _ _ s)).
  { rewrite (static_trace_unapply _ _ _ _ U3), (static_trace_uw _ _ _ _ _ _ _ U2). exact (static_trace_apply _ _ _ _ _ A1). }
  assert (Hjd : Z.of_nat j <= dep s c) by lia.
  destruct (up_hgt_dep s c _ j W K Cc Hjd) as (Hhv & (ev & Cv)). rewrite <- Evf in Hhv, Cv.
  assert (Hdep : depth s c = (j + depth s vf)%nat).
  { unfold depth. fold (dep s c). unfold dep in *. lia. }
  (* the block vf is at the fully-valid level in s3 *)
  assert (Lv2 : lvl_ge L_FULL vf s2).
  { destruct (uw_stop _ _ _ _ _ _ _ U2) as [Evf2|(bw & Fw & Hp)].
    - rewrite Evf2. eapply lvl_ge_uw; [|exact U2]. eapply lvl_ge_apply_range; [|exact A1].
      rewrite Hf1. exact (chain_lvl s Q K T ka).
    - exists bw. split; [exact Fw|]. unfold not_full in Hp. apply negb_false_iff in Hp. unfold valid_upto in Hp.
      apply andb_true_iff in Hp. apply N.leb_le. exact (proj2 Hp). }
  assert (Lv : lvl_ge L_FULL vf s3) by (eapply lvl_ge_unapply_range; [exact Lv2|exact U3]).
  destruct Lv as (bv & Fv & Hlv). destruct (find_some_in _ _ _ Fv) as (Inv & Idv).
  destruct (TR3 bv Inv ltac:(apply N.leb_le; exact Hlv)) as (p0 & Hp0). rewrite Idv in Hp0.
  rewrite (depth_static s s3 vf St3 (fr_root _ _ F3)), (bgs_static s s3 _ _ St3) in Hp0.
  (* P of s3 = the effects of root..vf *)
  assert (HP3 : Permutation p0 (pst _ _ s3)).
  { pose proof (replay_items _ _ _ Hp0) as I0. rewrite app_nil_r in I0 || idtac.
    destruct C3 as [PC _]. pose proof (active_items_chain (at_blk s3 vf) A3) as AC. cbn [at_blk blocks] in AC.
    eapply perm_trans; [exact I0|]. eapply perm_trans; [|symmetry; exact PC]. apply Permutation_app_tail.
    eapply perm_trans; [|symmetry; exact AC].
    unfold bgs, chain_gs, chain. cbn [at_blk tip root]. fold (cores s3).
    assert (EC : cores (at_blk s3 vf) = cores s3) by reflexivity. rewrite EC.
    change (Z.to_nat (hgt (cores s3) vf - hgt (cores s3) (root pstate ccmd s3))) with (depth s3 vf).
    rewrite (depth_static s s3 vf St3 (fr_root _ _ F3)).
    rewrite (anc_list_static _ _ _ _ S3).
    assert (EG : map (gs_of (at_blk s3 vf)) (anc_list (cores s) (depth s vf) vf) = map (gs_of s) (anc_list (cores s) (depth s vf) vf)).
    { apply map_ext. intros y. unfold gs_of. cbn [at_blk blocks]. change (match bfind (blocks pstate ccmd s3) y with Some b => b_gs ccmd b | None => [] end) with (gs_of s3 y).
      apply gs_of_static. exact St3. }
    rewrite EG. apply flat_map_rev_perm. }
  (* the second apply = replay of the top j bodies *)
  assert (Hclean3 : clean s3 c j).
  { intros k b Hk Fb. rewrite (up_static _ _ _ _ S3) in Fb.
    destruct (static_find _ _ _ _ (eq_sym St3) Fb) as (b0 & Fb0).
    destruct (apply_ok_failed _ _ _ _ A1 _ _ Fb0) as (b1 & Fb1 & Hf1').
    pose proof (md_trans _ _ _ _ (md_uw _ _ _ _ _ _ _ U2) (md_unapply_range _ _ _ _ U3)) as M.
    destruct (md_nobody_failed _ _ _ _ _ M Fb1 Fb) as [Hf3 _].
    rewrite Hf3, Hf1'. exact (Cl (S k) k b0 (Nat.lt_succ_diag_r k) Fb0). }
  assert (Hn3 : j = Z.to_nat (hgt (cores s3) c - hgt (cores s3) vf)).
  { rewrite !(hgt_static _ _ _ S3), Hhv. lia. }
  assert (Hpos : (0 < j)%nat \/ vf = c) by (destruct j as [|j']; [right; rewrite Evf; reflexivity|left; lia]).
  rewrite (apply_replay s3 vf c j s4 ok2 Hn3 Hpos Hclean3 A4).
  assert (EG : map (gs_of s3) (rev (map (fun i => up (cores s3) i c) (seq 0 j))) =
               map (gs_of s) (rev (map (fun i => up (cores s) i c) (seq 0 j)))).
  { rewrite (map_ext _ _ (fun i => up_static _ _ i c S3)). apply map_ext. intros y. apply gs_of_static. exact St3. }
  rewrite EG. rewrite <- (replay_perm_iff _ _ _ HP3).
  rewrite Hdep, bgs_split, <- Evf, replay_app, Hp0. reflexivity.
Qed.
