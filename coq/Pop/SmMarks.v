(** POP state machine — C02: validity marks change only on the target / candidate branch. *)
From Coq Require Import List ZArith NArith Bool Lia Permutation.
Import ListNotations.
From VB Require Import Pop.SmDefs Pop.SmProofs Pop.SmWf Pop.SmTruth Pop.SmCmp Pop.SmAll Pop.SmCoh Pop.SmFull.
Local Open Scope Z_scope.

Ltac dbind H :=
  match type of H with
  | bind ?e _ = Ok _ => let E := fresh "E" in destruct e eqn:E; cbn [bind] in H; [|discriminate]
  end.

(** [md T s s']: between s and s' nothing of the tree changed except validity marks, and those only as follows:
    levels were raised only on blocks of T; FAILED_POP was set only on blocks of T; FAILED_CHILD was set only on proper
    descendants of a block of T that got FAILED_POP; nothing was cleared or lowered; FAILED_BLOCK is untouched. *)
Definition fp_new (s s' : cst) (x : N) : Prop :=
  (exists bx, bfind (blocks _ _ s) x = Some bx /\ b_fp _ bx = false) /\
  (exists bx', bfind (blocks _ _ s') x = Some bx' /\ b_fp _ bx' = true).

Definition md (T : N -> Prop) (s s' : cst) : Prop :=
  map (static ccmd) (blocks _ _ s') = map (static ccmd) (blocks _ _ s) /\
  forall j b b', bfind (blocks _ _ s) j = Some b -> bfind (blocks _ _ s') j = Some b' ->
    b_fb _ b' = b_fb _ b /\
    N.le (b_lvl _ b) (b_lvl _ b') /\ (b_lvl _ b <> b_lvl _ b' -> T j) /\
    (b_fp _ b = true -> b_fp _ b' = true) /\ (b_fp _ b' = true -> b_fp _ b = true \/ T j) /\
    (b_fc _ b = true -> b_fc _ b' = true) /\
    (b_fc _ b' = true -> b_fc _ b = true \/
                          exists x k, T x /\ fp_new s s' x /\ (0 < k)%nat /\ up (cores s) k j = x).

Lemma static_find : forall (l l' : list cblk) j b,
    map (static ccmd) l' = map (static ccmd) l -> bfind l j = Some b -> exists b', bfind l' j = Some b'.
Proof.
  induction l as [|x r IH]; intros l' j b H F; destruct l' as [|x' r']; cbn in H; try discriminate.
  assert (Hx : static ccmd x' = static ccmd x) by exact (f_equal (fun t => hd (static ccmd x) t) H).
  assert (Hr : map (static ccmd) r' = map (static ccmd) r) by exact (f_equal (@tl _) H).
  assert (Hid : b_id ccmd x' = b_id ccmd x) by exact (f_equal (fun t => fst (fst (fst t))) Hx).
  cbn in F |- *. rewrite Hid. destruct (N.eqb (b_id ccmd x) j); [eexists; reflexivity|eapply IH; eassumption].
Qed.

Lemma md_refl : forall T s, md T s s.
Proof.
  intros T s. split; [reflexivity|]. intros j b b' F F'. rewrite F in F'. inversion F'; subst b'.
  repeat split; auto; try lia; try (intro; congruence).
Qed.

Lemma md_weaken : forall (T T' : N -> Prop) s s', (forall j, T j -> T' j) -> md T s s' -> md T' s s'.
Proof.
  intros T T' s s' HT (HS & H). split; [exact HS|]. intros j b b' F F'.
  destruct (H j b b' F F') as (A & B & C & D & E & G & I). repeat split; auto.
  - intros Hx. destruct (E Hx) as [|]; auto.
  - intros Hx. destruct (I Hx) as [|(x & k & Tx & Nx & Hk & Hu)]; [left; assumption|right]. exists x, k. auto.
Qed.

Lemma md_trans : forall T s s1 s2, md T s s1 -> md T s1 s2 -> md T s s2.
Proof.
  intros T s s1 s2 (S1 & H1) (S2 & H2). split; [congruence|]. intros j b b2 F F2.
  destruct (static_find _ _ j b S1 F) as (b1 & F1).
  destruct (H1 j b b1 F F1) as (A1 & B1 & C1 & D1 & E1 & G1 & I1).
  destruct (H2 j b1 b2 F1 F2) as (A2 & B2 & C2 & D2 & E2 & G2 & I2).
  pose proof (same_static_of_static _ _ S1) as SS1.
  repeat split.
  - congruence.
  - lia.
  - intros Hne. destruct (N.eq_dec (b_lvl ccmd b) (b_lvl ccmd b1)) as [e|n]; [apply C2; congruence|apply C1; exact n].
  - auto.
  - intros Hx. destruct (E2 Hx) as [Hy|Hy]; [apply E1; exact Hy|right; exact Hy].
  - auto.
  - intros Hx. destruct (I2 Hx) as [Hy|(x & k & Tx & (Nx1 & Nx2) & Hk & Hu)].
    + destruct (I1 Hy) as [Hz|(x & k & Tx & (Nx1 & Nx2) & Hk & Hu)]; [left; exact Hz|right].
      exists x, k. split; [exact Tx|]. split; [|split; [exact Hk|exact Hu]]. split; [exact Nx1|].
      destruct Nx2 as (bx1 & Fx1 & Px1). destruct (static_find _ _ x bx1 S2 Fx1) as (bx2 & Fx2).
      exists bx2. split; [exact Fx2|]. destruct (H2 x bx1 bx2 Fx1 Fx2) as (_ & _ & _ & D & _). apply D. exact Px1.
    + right. exists x, k. split; [exact Tx|]. split; [|split; [exact Hk|]].
      * destruct Nx1 as (bx1 & Fx1 & Px1). split; [|exact Nx2].
        assert (exists bx, bfind (blocks pstate ccmd s) x = Some bx).
        { assert (S1' : map (static ccmd) (blocks pstate ccmd s) = map (static ccmd) (blocks pstate ccmd s1)) by (symmetry; exact S1).
          eapply static_find; eassumption. }
        destruct H as (bx & Fx). exists bx. split; [exact Fx|].
        destruct (H1 x bx bx1 Fx Fx1) as (_ & _ & _ & D & _). destruct (b_fp ccmd bx) eqn:P; [rewrite (D eq_refl) in Px1; discriminate|reflexivity].
      * rewrite <- Hu. symmetry. unfold cores. apply up_static. exact SS1.
Qed.

(** ** single steps *)
Definition nobody : N -> Prop := fun _ => False.

Lemma md_unapply : forall s i s', c_unapplyBlock s i = Ok s' -> md nobody s s'.
Proof.
  intros s i s' H. pose proof (staticInv_unapply _ _ _ _ (eq_refl : staticInv (map (static ccmd) (blocks _ _ s)) s) H) as HS.
  unfold staticInv in HS. split; [exact HS|].
  unfold c_unapplyBlock, unapplyBlock in H.
  destruct (bfind (blocks pstate ccmd s) i) as [bi|]; [|discriminate].
  destruct (N.eqb i (root pstate ccmd s)); [discriminate|].
  destruct (negb (b_act ccmd bi)); [discriminate|].
  destruct (bfind (blocks pstate ccmd s) (b_par ccmd bi)) as [pb|]; [|discriminate].
  destruct (negb (b_act ccmd pb)); [discriminate|].
  destruct (child_active ccmd (blocks pstate ccmd s) i); [discriminate|].
  destruct (N.eqb (napp pstate ccmd s) 0); [discriminate|].
  inversion H; subst s'; clear H. intros j b b' F F'. cbn [blocks] in F'. rewrite find_upd_any in F' by reflexivity. rewrite F in F'. cbn in F'.
  inversion F'; subst b'. destruct (N.eqb (b_id ccmd b) i); cbn; repeat split; auto; try lia; try (intro; congruence).
Qed.

Lemma md_apply_ok : forall s i s', c_applyBlock s i = Ok (s', true) ->
    md (eq i) s s' /\ (lvl_ge L_FULL i s -> md nobody s s').
Proof.
  intros s i s' H. pose proof (staticInv_apply _ _ _ _ _ (eq_refl : staticInv (map (static ccmd) (blocks _ _ s)) s) H) as HS.
  unfold staticInv in HS.
  unfold c_applyBlock, applyBlock in H.
  destruct (bfind (blocks pstate ccmd s) i) as [bi|] eqn:Fi; [|discriminate].
  destruct (N.eqb i (root pstate ccmd s)); [discriminate|].
  destruct (bfind (blocks pstate ccmd s) (b_par ccmd bi)) as [pb|]; [|discriminate].
  destruct (negb (b_act ccmd pb)); [discriminate|].
  destruct (b_act ccmd bi); [discriminate|].
  destruct (child_active ccmd (blocks pstate ccmd s) i); [discriminate|].
  destruct (b_fc ccmd bi); [discriminate|].
  destruct (is_failed ccmd bi); [discriminate|].
  destruct (N.ltb (b_lvl ccmd bi) L_CONNECTED); [discriminate|].
  destruct (gsexec pstate ccmd cexec cunexec [] (b_gs ccmd bi) (pst pstate ccmd s)) as [p' okg].
  destruct okg; cbn [negb] in H; [|destruct (invalidate_pop pstate ccmd _ i); cbn in H; [inversion H|discriminate]].
  match type of H with (if ?c then _ else _) = _ => destruct c end; [discriminate|]. inversion H; subst s'; clear H.
  match goal with |- context [raise_lvl ccmd ?u] => set (up0 := u) end.
  assert (Hup : N.le up0 L_FULL) by (unfold up0; destruct (valid_upto ccmd pb L_FULL && _); unfold L_FULL, L_MAYBE; lia).
  assert (G : forall j b b', bfind (blocks pstate ccmd s) j = Some b ->
              bfind (upd ccmd (blocks pstate ccmd s) i (fun x => set_act ccmd true (raise_lvl ccmd up0 x))) j = Some b' ->
              b' = (if N.eqb (b_id ccmd b) i then apf up0 b else b)).
  { intros j b b' F F'. rewrite find_upd_any in F' by reflexivity. rewrite F in F'. cbn in F'. inversion F'. reflexivity. }
  split.
  - split; [exact HS|]. intros j b b' F F'. cbn [blocks] in F'. rewrite (G _ _ _ F F').
    destruct (N.eqb (b_id ccmd b) i) eqn:E.
    + apply N.eqb_eq in E. rewrite (bfind_id _ _ _ F) in E. pose proof (apf_lvl_ge up0 b).
      repeat split; auto; try (intro; congruence).
    + repeat split; auto; try lia; try (intro; congruence).
  - intros (bf & Fbf & Hl). rewrite Fi in Fbf. inversion Fbf; subst bf.
    split; [exact HS|]. intros j b b' F F'. cbn [blocks] in F'. rewrite (G _ _ _ F F').
    destruct (N.eqb (b_id ccmd b) i) eqn:E.
    + apply N.eqb_eq in E. rewrite (bfind_id _ _ _ F) in E. subst j. rewrite Fi in F. inversion F; subst b.
      assert (Hsame : b_lvl ccmd (apf up0 bi) = b_lvl ccmd bi).
      { unfold apf. cbn. destruct (N.ltb (b_lvl ccmd bi) up0) eqn:E1; [apply N.ltb_lt in E1; lia|reflexivity]. }
      repeat split; auto; try (rewrite Hsame; lia); try (intro; congruence).
    + repeat split; auto; try lia; try (intro; congruence).
Qed.

Lemma marks_up : forall (l : list cblk) i t e,
    (forall y, In y t -> parent (map core l) (b_id _ y) = b_par _ y) ->
    (forall k, In k e -> exists n, (0 < n)%nat /\ up (map core l) n k = i) ->
    forall j, In j (marks i e t) -> exists n, (0 < n)%nat /\ up (map core l) n j = i.
Proof.
  intros l i t. induction t as [|y t IH]; intros e Ht He j Hj; cbn [marks] in Hj; [destruct Hj|].
  assert (Ht' : forall y0, In y0 t -> parent (map core l) (b_id ccmd y0) = b_par ccmd y0) by (intros; apply Ht; right; assumption).
  destruct (N.eqb (b_par ccmd y) i || existsb (N.eqb (b_par ccmd y)) e) eqn:C.
  - assert (Hy : exists n, (0 < n)%nat /\ up (map core l) n (b_id ccmd y) = i).
    { apply orb_true_iff in C. destruct C as [C|C].
      - apply N.eqb_eq in C. exists 1%nat. split; [lia|]. cbn. rewrite (Ht y (or_introl eq_refl)). exact C.
      - apply existsb_exists in C. destruct C as (k & Hk & Ek). apply N.eqb_eq in Ek. subst k.
        destruct (He _ Hk) as (n & Hn & Hu). exists (S n). split; [lia|]. cbn. rewrite (Ht y (or_introl eq_refl)). exact Hu. }
    destruct Hj as [<-|Hj]; [exact Hy|].
    eapply IH; [exact Ht'| |exact Hj]. intros k Hk. destruct (is_failed ccmd y); [apply He; exact Hk|].
    destruct Hk as [<-|Hk]; [exact Hy|apply He; exact Hk].
  - eapply IH; [exact Ht'|exact He|exact Hj].
Qed.

Lemma md_apply_fail : forall s i s', wf s -> c_applyBlock s i = Ok (s', false) -> md (eq i) s s'.
Proof.
  intros s i s' W H. pose proof (staticInv_apply _ _ _ _ _ (eq_refl : staticInv (map (static ccmd) (blocks _ _ s)) s) H) as HS.
  unfold staticInv in HS. split; [exact HS|].
  assert (ND : NoDup (ids (blocks _ _ s))).
  { destruct W as (ND & _). unfold ids. unfold cores in ND. rewrite map_map in ND. exact ND. }
  unfold c_applyBlock, applyBlock in H.
  destruct (bfind (blocks pstate ccmd s) i) as [bi|] eqn:Fi; [|discriminate].
  destruct (N.eqb i (root pstate ccmd s)); [discriminate|].
  destruct (bfind (blocks pstate ccmd s) (b_par ccmd bi)) as [pb|]; [|discriminate].
  destruct (negb (b_act ccmd pb)); [discriminate|].
  destruct (b_act ccmd bi); [discriminate|].
  destruct (child_active ccmd (blocks pstate ccmd s) i); [discriminate|].
  destruct (b_fc ccmd bi); [discriminate|].
  destruct (is_failed ccmd bi) eqn:Hf.
  { inversion H; subst s'. intros j b b' F F'. rewrite F in F'. inversion F'; subst b'. repeat split; auto; try lia; try (intro; congruence). }
  destruct (N.ltb (b_lvl ccmd bi) L_CONNECTED); [discriminate|].
  destruct (gsexec pstate ccmd cexec cunexec [] (b_gs ccmd bi) (pst pstate ccmd s)) as [p' okg].
  destruct okg; cbn [negb] in H.
  { match type of H with (if ?c then _ else _) = _ => destruct c end; discriminate. }
  unfold invalidate_pop in H. cbn [blocks with_pst] in H. rewrite Fi in H.
  assert (Hfp : b_fp ccmd bi = false).
  { unfold is_failed in Hf. apply orb_false_iff in Hf. destruct Hf as [Hf _]. apply orb_false_iff in Hf. apply Hf. }
  rewrite Hfp, Hf in H.
  destruct (on_active_chain pstate ccmd _ i); [discriminate|].
  destruct (N.eqb (b_lvl ccmd bi) L_FULL); cbn in H; inversion H; subst s'; clear H.
  set (l := blocks pstate ccmd s). set (l1 := upd ccmd l i (set_fp ccmd)). set (M := marks i [] l1).
  assert (ND1 : NoDup (ids l1)) by (unfold l1; rewrite ids_upd by reflexivity; exact ND).
  intros j b b' F F'. cbn [blocks with_blocks with_pst] in F'. fold l in F, F'. fold l1 in F'.
  rewrite find_mark_desc in F' by exact ND1. unfold l1 in F' at 2. rewrite find_upd_any in F' by reflexivity. rewrite F in F'. cbn in F'.
  inversion F'; subst b'; clear F'. fold l1. fold M.
  assert (HM : existsb (N.eqb j) M = true -> exists x k, i = x /\ fp_new s (with_blocks pstate ccmd (with_pst pstate ccmd s (pst pstate ccmd s)) (mark_desc ccmd i [] l1)) x /\ (0 < k)%nat /\ up (cores s) k j = x).
  { intros HE. apply existsb_exists in HE. destruct HE as (j' & Hj' & Ej). apply N.eqb_eq in Ej. subst j'.
    destruct (marks_up l i l1 []) with (j := j) as (n & Hn & Hu); [| |exact Hj'|].
    - intros y Hy. unfold l1 in Hy. apply in_upd in Hy. destruct Hy as (y0 & Hy0 & ->).
      assert (Hid : b_id ccmd (if N.eqb (b_id ccmd y0) i then set_fp ccmd y0 else y0) = b_id ccmd y0) by (destruct (N.eqb (b_id ccmd y0) i); reflexivity).
      assert (Hpa : b_par ccmd (if N.eqb (b_id ccmd y0) i then set_fp ccmd y0 else y0) = b_par ccmd y0) by (destruct (N.eqb (b_id ccmd y0) i); reflexivity).
      rewrite Hid, Hpa. unfold parent. rewrite cfind_core. pose proof (find_in_blocks _ _ ND Hy0) as Fy. fold l in Fy. rewrite Fy. reflexivity.
    - intros k [].
    - exists i, n. split; [reflexivity|]. split; [|split; [exact Hn|exact Hu]]. split.
      + exists bi. split; [exact Fi|exact Hfp].
      + cbn [blocks with_blocks]. rewrite find_mark_desc by exact ND1. unfold l1 at 2. rewrite find_upd_any by reflexivity. pose proof Fi as Fi2. fold l in Fi2. rewrite Fi2. cbn.
        rewrite (bfind_id _ _ _ Fi), N.eqb_refl. eexists. split; [reflexivity|]. destruct (existsb (N.eqb i) (marks i [] l1)); reflexivity. }
  destruct (existsb (N.eqb j) M) eqn:EM; destruct (N.eqb (b_id ccmd b) i) eqn:E; cbn;
    repeat split; auto; try lia; try (intro; congruence);
    try (intros _; right; apply N.eqb_eq in E; rewrite (bfind_id _ _ _ F) in E; symmetry; exact E);
    try (intros _; right; apply HM; reflexivity).
Qed.

(** ** walks *)
Lemma md_uw : forall fuel s cur to pred s' w,
    unapplyWhile pstate ccmd cunexec fuel s cur to pred = Ok (s', w) -> md nobody s s'.
Proof.
  intros fuel s cur to pred s' w H.
  apply (Inv_unapplyWhile pstate ccmd cunexec (fun x => md nobody s x)
           (fun x i x' Hx Hu => md_trans _ _ _ _ Hx (md_unapply _ _ _ Hu)) fuel s cur to pred s' w (md_refl _ _) H).
Qed.
Lemma md_unapply_range : forall s a b s', unapply pstate ccmd cunexec s a b = Ok s' -> md nobody s s'.
Proof.
  intros s a b s' H.
  apply (Inv_unapply_range pstate ccmd cunexec (fun x => md nobody s x)
           (fun x i x' Hx Hu => md_trans _ _ _ _ Hx (md_unapply _ _ _ Hu)) s a b s' (md_refl _ _) H).
Qed.

Lemma md_apply_path : forall path s from s' ok,
    winv s -> apply_path pstate ccmd cexec cunexec s from path = Ok (s', ok) -> md (fun j => In j path) s s'.
Proof.
  induction path as [|x r IH]; intros s from s' ok WI H; cbn in H.
  - inversion H; subst. apply md_refl.
  - dbind H. destruct a as [s1 ok1]. destruct ok1.
    + eapply md_trans.
      * eapply md_weaken; [|exact (proj1 (md_apply_ok _ _ _ E))]. intros j <-. left. reflexivity.
      * eapply md_weaken; [|eapply IH; [eapply winv_apply; eassumption|exact H]]. intros j Hj. right. exact Hj.
    + destruct (bfind (blocks pstate ccmd s1) x); [|discriminate]. dbind H. inversion H; subst.
      eapply md_trans.
      * eapply md_weaken; [|exact (md_apply_fail _ _ _ (proj1 WI) E)]. intros j <-. left. reflexivity.
      * eapply md_weaken; [|exact (md_unapply_range _ _ _ _ E0)]. intros j [].
Qed.

Lemma md_apply_path_full : forall path s from s',
    apply_path pstate ccmd cexec cunexec s from path = Ok (s', true) ->
    (forall x, In x path -> lvl_ge L_FULL x s) -> md nobody s s'.
Proof.
  induction path as [|x r IH]; intros s from s' H Hl; cbn in H.
  - inversion H; subst. apply md_refl.
  - dbind H. destruct a as [s1 ok1]. destruct ok1.
    + eapply md_trans; [exact (proj2 (md_apply_ok _ _ _ E) (Hl x (or_introl eq_refl)))|].
      eapply IH; [exact H|]. intros y Hy. eapply lvl_ge_apply; [apply Hl; right; exact Hy|exact E].
    + destruct (bfind (blocks pstate ccmd s1) x); [|discriminate]. dbind H. discriminate.
Qed.

Definition branch (s : cst) (t : N) : N -> Prop := fun j => exists k, j = up (cores s) k t.

Lemma path_up_in : forall s n c upl,
    path_up ccmd (blocks _ _ s) n c = Some upl -> forall x, In x upl -> branch s c x.
Proof.
  intros s n. induction n as [|n IH]; intros c upl H x Hx; cbn in H.
  - inversion H; subst. destruct Hx.
  - destruct (bfind (blocks pstate ccmd s) c) as [b|] eqn:Fc; [|discriminate].
    destruct (path_up ccmd (blocks pstate ccmd s) n (b_par ccmd b)) as [upl'|] eqn:E; cbn in H; [|discriminate].
    inversion H; subst. destruct Hx as [<-|Hx]; [exists O; reflexivity|].
    destruct (IH _ _ E _ Hx) as (k & ->). exists (S k). cbn.
    assert (Hp : parent (cores s) c = b_par ccmd b) by (unfold parent; rewrite (find_cfind _ _ _ Fc); reflexivity).
    rewrite Hp. reflexivity.
Qed.

Lemma md_apply_range : forall s a b s' ok,
    winv s -> apply pstate ccmd cexec cunexec s a b = Ok (s', ok) ->
    md (branch s b) s s' /\ (ok = true -> (forall k, lvl_ge L_FULL (up (cores s) k b) s) -> md nobody s s').
Proof.
  intros s a b s' ok WI H. unfold apply in H.
  destruct (N.eqb a b); [inversion H; subst; split; [apply md_refl|intros; apply md_refl]|].
  destruct (bfind (blocks pstate ccmd s) a) as [bf|]; [|discriminate].
  destruct (bfind (blocks pstate ccmd s) b) as [bt|]; [|discriminate].
  destruct (is_failed ccmd bt); [inversion H; subst; split; [apply md_refl|intros; apply md_refl]|].
  destruct (negb (Z.ltb (b_h ccmd bf) (b_h ccmd bt))); [discriminate|].
  destruct (path_up ccmd (blocks pstate ccmd s) _ b) as [upl|] eqn:Eup; [|discriminate].
  destruct (rev upl) as [|x r] eqn:Erev; [discriminate|].
  destruct (bfind (blocks pstate ccmd s) x) as [bx|]; [|discriminate].
  destruct (N.eqb (b_par ccmd bx) a); [|discriminate].
  assert (Hin : forall y, In y (x :: r) -> branch s b y).
  { intros y Hy. rewrite <- Erev in Hy. apply in_rev in Hy. eapply path_up_in; eassumption. }
  split.
  - eapply md_weaken; [|eapply md_apply_path; eassumption]. exact Hin.
  - intros -> Hl. eapply md_apply_path_full; [exact H|]. intros y Hy. destruct (Hin y Hy) as (k & ->). apply Hl.
Qed.

Lemma branch_static : forall s s' t j, same_static (cores s) (cores s') -> branch s' t j -> branch s t j.
Proof. intros s s' t j S (k & ->). exists k. apply up_static. exact S. Qed.
Lemma md_static : forall T s s', md T s s' -> same_static (cores s) (cores s').
Proof. intros T s s' (HS & _). unfold cores. apply same_static_of_static. exact HS. Qed.

(** ** PopStateMachine::setState, setState *)
Lemma md_sm_setState : forall s a b s' ok,
    winv s -> (forall k, lvl_ge L_FULL (up (cores s) k a) s) ->
    sm_setState pstate ccmd cexec cunexec s a b = Ok (s', ok) -> md (branch s b) s s'.
Proof.
  intros s a b s' ok WI Hl H. unfold sm_setState in H.
  destruct (N.eqb a b); [inversion H; subst; apply md_refl|].
  destruct (lca ccmd (blocks pstate ccmd s) _ a b) as [fork|]; [|discriminate].
  dbind H. rename a0 into s1. pose proof (md_unapply_range _ _ _ _ E) as M1.
  pose proof (winv_unapply_range _ _ _ _ WI E) as WI1.
  dbind H. destruct a0 as [s2 ok2]. destruct (md_apply_range _ _ _ _ _ WI1 E0) as [M2 _].
  pose proof (md_static _ _ _ M1) as S1.
  assert (M12 : md (branch s b) s s2).
  { eapply md_trans; [eapply md_weaken; [|exact M1]; intros j []|].
    eapply md_weaken; [|exact M2]. intros j Hj. eapply branch_static; eassumption. }
  destruct ok2; [inversion H; subst; exact M12|].
  dbind H. destruct a0 as [s3 ok3]. destruct ok3; inversion H; subst; clear H.
  pose proof (winv_apply_range _ _ _ _ _ WI1 E0) as WI2.
  destruct (md_apply_range _ _ _ _ _ WI2 E1) as [_ M3].
  eapply md_trans; [exact M12|]. eapply md_weaken; [|apply M3; [reflexivity|]]; [intros j []|].
  intros k. pose proof (md_static _ _ _ M12) as S2. rewrite (up_static _ _ k a S2).
  eapply lvl_ge_apply_range; [|exact E0]. eapply lvl_ge_unapply_range; [|exact E]. apply Hl.
Qed.

Theorem md_setState : forall s to s' ok,
    quiet s -> scoh s -> tf s -> c_setState s to = Ok (s', ok) -> md (branch s to) s s'.
Proof.
  intros s to s' ok Q C T H. pose proof Q as (W & _). unfold c_setState, setState in H.
  destruct (bfind (blocks pstate ccmd s) (tip pstate ccmd s)) as [bt|]; [|discriminate].
  destruct (bfind (blocks pstate ccmd s) to) as [b0|]; [|discriminate].
  destruct (negb _); [discriminate|].
  match type of H with bind ?e _ = _ => destruct e as [[s1 ok1]|] eqn:E end; cbn [bind] in H; [|discriminate].
  assert (M1 : md (branch s to) s s1).
  { destruct (N.eqb (tip pstate ccmd s) to); [inversion E; subst; apply md_refl|].
    eapply md_sm_setState; [split; eassumption| |exact E]. apply chain_lvl; assumption. }
  destruct (bfind (blocks pstate ccmd s1) to) as [bto|]; [|discriminate].
  destruct ok1.
  - destruct (valid_upto ccmd bto L_FULL); inversion H; subst. exact M1.
  - destruct (negb (is_failed ccmd bto)); [discriminate|]. destruct (negb _); inversion H; subst. exact M1.
Qed.

(** ** comparePopScore *)
Lemma md_tip : forall T s s4 t n, md T s s4 -> md T s (mkSt pstate ccmd (blocks _ _ s4) (root _ _ s4) t n (pst _ _ s4)).
Proof. intros T s s4 t n H. exact H. Qed.

Lemma md_compare_fork : forall sc cr s c bc bt s' r,
    quiet s -> scoh s -> tf s ->
    compare_fork pstate ccmd cexec cunexec sc cr s c bc bt = Ok (s', r) -> md (branch s c) s s'.
Proof.
  intros sc cr s c bc bt s' r Q C T H. pose proof Q as (W & _). assert (WI : winv s) by (split; assumption).
  pose proof (chain_lvl s Q C T) as CL.
  unfold compare_fork in H.
  destruct (lca ccmd (blocks pstate ccmd s) _ (tip pstate ccmd s) c) as [fork|]; [|discriminate].
  destruct (bfind (blocks pstate ccmd s) fork) as [bf|]; [|discriminate].
  destruct (negb (cr _ _) && negb (cr _ _)); [inversion H; subst; apply md_refl|].
  dbind H. destruct a as [s1 ok1]. destruct (md_apply_range _ _ _ _ _ WI E) as [M1 _].
  pose proof (winv_apply_range _ _ _ _ _ WI E) as WI1.
  destruct ok1; cbn [negb] in H; [|inversion H; subst; exact M1].
  destruct (Z.leb 0 (sc s1 c)).
  - dbind H. inversion H; subst. eapply md_trans; [exact M1|]. eapply md_weaken; [|exact (md_unapply_range _ _ _ _ E0)]. intros j [].
  - dbind H. destruct a as [s2 vf]. pose proof (md_uw _ _ _ _ _ _ _ E0) as M2. pose proof (winv_uw _ _ _ _ _ _ _ WI1 E0) as WI2.
    dbind H. rename a into s3. pose proof (md_unapply_range _ _ _ _ E1) as M3. pose proof (winv_unapply_range _ _ _ _ WI2 E1) as WI3.
    assert (M13 : md (branch s c) s s3).
    { eapply md_trans; [exact M1|]. eapply md_trans; eapply md_weaken; try eassumption; intros j []. }
    dbind H. destruct a as [s4 ok2]. destruct (md_apply_range _ _ _ _ _ WI3 E2) as [M4 _].
    pose proof (winv_apply_range _ _ _ _ _ WI3 E2) as WI4.
    assert (M14 : md (branch s c) s s4).
    { eapply md_trans; [exact M13|]. eapply md_weaken; [|exact M4]. intros j Hj. eapply branch_static; [exact (md_static _ _ _ M13)|exact Hj]. }
    destruct ok2; [inversion H; subst; apply md_tip; exact M14|].
    dbind H. rename a into s5. pose proof (md_unapply_range _ _ _ _ E3) as M5. pose proof (winv_unapply_range _ _ _ _ WI4 E3) as WI5.
    dbind H. destruct a as [s6 ok3]. destruct ok3; inversion H; subst; clear H.
    destruct (md_apply_range _ _ _ _ _ WI5 E4) as [_ M6].
    assert (M15 : md (branch s c) s s5) by (eapply md_trans; [exact M14|]; eapply md_weaken; [|exact M5]; intros j []).
    eapply md_trans; [exact M15|]. eapply md_weaken; [|apply M6; [reflexivity|]]; [intros j []|].
    intros k. rewrite (up_static _ _ k (tip pstate ccmd s) (md_static _ _ _ M15)).
    eapply lvl_ge_unapply_range; [|exact E3]. eapply lvl_ge_apply_range; [|exact E2]. eapply lvl_ge_unapply_range; [|exact E1].
    eapply lvl_ge_uw; [|exact E0]. eapply lvl_ge_apply_range; [|exact E]. apply CL.
Qed.

Theorem md_compare : forall sc cr s c s' r,
    quiet s -> scoh s -> tf s -> c_compare sc cr s (Some c) = Ok (s', r) -> md (branch s c) s s'.
Proof.
  intros sc cr s c s' r Q C T H. pose proof Q as (W & _). unfold c_compare, compare in H.
  destruct (bfind (blocks pstate ccmd s) c) as [bc|]; [|discriminate].
  destruct (bfind (blocks pstate ccmd s) (tip pstate ccmd s)) as [bt|]; [|discriminate].
  destruct (is_failed ccmd bc); [inversion H; subst; apply md_refl|].
  destruct (N.eqb (tip pstate ccmd s) c); [inversion H; subst; apply md_refl|].
  destruct (on_active_chain pstate ccmd s c); [inversion H; subst; apply md_refl|].
  destruct (anc_at ccmd (blocks pstate ccmd s) _ c (b_h ccmd bt)) as [a|]; [|eapply md_compare_fork; eassumption].
  destruct (N.eqb a (tip pstate ccmd s)); [|eapply md_compare_fork; eassumption].
  dbind H. destruct a0 as [s1 ok]. destruct (md_apply_range _ _ _ _ _ (conj W C) E) as [M1 _].
  destruct ok; inversion H; subst; [apply md_tip|]; exact M1.
Qed.

(** ** C02: the marks clause over reachable states *)
Theorem setState_marks : forall base s to s' ok,
    reachable base s -> c_setState s to = Ok (s', ok) -> md (branch s to) s s'.
Proof. intros base s to s' ok R H. destruct (reachable_good _ _ R) as (Q & _ & K & T & _). eapply md_setState; eassumption. Qed.

Theorem compare_marks : forall base sc cr s c s' r,
    reachable base s -> c_compare sc cr s (Some c) = Ok (s', r) -> md (branch s c) s s'.
Proof. intros base sc cr s c s' r R H. destruct (reachable_good _ _ R) as (Q & _ & K & T & _). eapply md_compare; eassumption. Qed.
