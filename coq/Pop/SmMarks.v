(** POP state machine — C02: validity marks change only on the target / candidate branch. *)
From Coq Require Import List ZArith NArith Bool Lia Permutation.
Import ListNotations.
From VB Require Import Pop.SmDefs Pop.SmProofs Pop.SmWf Pop.SmTruth Pop.SmCmp Pop.SmAll Pop.SmCoh Pop.SmFull.
Local Open Scope Z_scope.

Ltac dbind H :=
  match type of H with
  | bind ?e _ = Ok _ => let E := fresh "E" in destruct e eqn:E; cbn [bind] in H; [|discriminate]
  end.

(** [md T s s']: between s and s' nothing of the tree changed except validity marks, and those only as follows:
    levels were raised only on blocks of T; FAILED_POP was set only on blocks of T; FAILED_CHILD was set only on proper
    descendants of a block of T that got FAILED_POP; nothing was cleared or lowered; FAILED_BLOCK is untouched. *)
Definition fp_new (s s' : cst) (x : N) : Prop :=
  (exists bx, bfind (blocks _ _ s) x = Some bx /\ b_fp _ bx = false) /\
  (exists bx', bfind (blocks _ _ s') x = Some bx' /\ b_fp _ bx' = true).

Definition md (T : N -> Prop) (s s' : cst) : Prop :=
  map (static ccmd) (blocks _ _ s') = map (static ccmd) (blocks _ _ s) /\
  forall j b b', bfind (blocks _ _ s) j = Some b -> bfind (blocks _ _ s') j = Some b' ->
    b_fb _ b' = b_fb _ b /\
    N.le (b_lvl _ b) (b_lvl _ b') /\ (b_lvl _ b <> b_lvl _ b' -> T j) /\
    (b_fp _ b = true -> b_fp _ b' = true) /\ (b_fp _ b' = true -> b_fp _ b = true \/ T j) /\
    (b_fc _ b = true -> b_fc _ b' = true) /\
    (b_fc _ b' = true -> b_fc _ b = true \/
                          exists x k, T x /\ fp_new s s' x /\ (0 < k)%nat /\ up (cores s) k j = x).

Lemma static_find : forall (l l' : list cblk) j b,
    map (static ccmd) l' = map (static ccmd) l -> bfind l j = Some b -> exists b', bfind l' j = Some b'.
Proof.
  induction l as [|x r IH]; intros l' j b H F; destruct l' as [|x' r']; cbn in H; try discriminate.
  assert (Hx : static ccmd x' = static ccmd x) by exact (f_equal (fun t => hd (static ccmd x) t) H).
  assert (Hr : map (static ccmd) r' = map (static ccmd) r) by exact (f_equal (@tl _) H).
  assert (Hid : b_id ccmd x' = b_id ccmd x) by exact (f_equal (fun t => fst (fst (fst t))) Hx).
  cbn in F |- *. rewrite Hid. destruct (N.eqb (b_id ccmd x) j); [eexists; reflexivity|eapply IH; eassumption].
Qed.

Lemma md_refl : forall T s, md T s s.
Proof.
  intros T s. split; [reflexivity|]. intros j b b' F F'. rewrite F in F'. inversion F'; subst b'.
  repeat split; auto; try lia; try (intro; congruence).
Qed.

Lemma md_weaken : forall (T T' : N -> Prop) s s', (forall j, T j -> T' j) -> md T s s' -> md T' s s'.
Proof.
  intros T T' s s' HT (HS & H). split; [exact HS|]. intros j b b' F F'.
  destruct (H j b b' F F') as (A & B & C & D & E & G & I). repeat split; auto.
  - intros Hx. destruct (E Hx) as [|]; auto.
  - intros Hx. destruct (I Hx) as [|(x & k & Tx & Nx & Hk & Hu)]; [left; assumption|right]. exists x, k. auto.
Qed.

Lemma md_trans : forall T s s1 s2, md T s s1 -> md T s1 s2 -> md T s s2.
Proof.
  intros T s s1 s2 (S1 & H1) (S2 & H2). split; [congruence|]. intros j b b2 F F2.
  destruct (static_find _ _ j b S1 F) as (b1 & F1).
  destruct (H1 j b b1 F F1) as (A1 & B1 & C1 & D1 & E1 & G1 & I1).
  destruct (H2 j b1 b2 F1 F2) as (A2 & B2 & C2 & D2 & E2 & G2 & I2).
  pose proof (same_static_of_static _ _ S1) as SS1.
  repeat split.
  - congruence.
  - lia.
  - intros Hne. destruct (N.eq_dec (b_lvl ccmd b) (b_lvl ccmd b1)) as [e|n]; [apply C2; congruence|apply C1; exact n].
  - auto.
  - intros Hx. destruct (E2 Hx) as [Hy|Hy]; [apply E1; exact Hy|right; exact Hy].
  - auto.
  - intros Hx. destruct (I2 Hx) as [Hy|(x & k & Tx & (Nx1 & Nx2) & Hk & Hu)].
    + destruct (I1 Hy) as [Hz|(x & k & Tx & (Nx1 & Nx2) & Hk & Hu)]; [left; exact Hz|right].
      exists x, k. split; [exact Tx|]. split; [|split; [exact Hk|exact Hu]]. split; [exact Nx1|].
      destruct Nx2 as (bx1 & Fx1 & Px1). destruct (static_find _ _ x bx1 S2 Fx1) as (bx2 & Fx2).
      exists bx2. split; [exact Fx2|]. destruct (H2 x bx1 bx2 Fx1 Fx2) as (_ & _ & _ & D & _). apply D. exact Px1.
    + right. exists x, k. split; [exact Tx|]. split; [|split; [exact Hk|]].
      * destruct Nx1 as (bx1 & Fx1 & Px1). split; [|exact Nx2].
        assert (exists bx, bfind (blocks pstate ccmd s) x = Some bx).
        { assert (S1' : map (static ccmd) (blocks pstate ccmd s) = map (static ccmd) (blocks pstate ccmd s1)) by (symmetry; exact S1).
          eapply static_find; eassumption. }
        destruct H as (bx & Fx). exists bx. split; [exact Fx|].
        destruct (H1 x bx bx1 Fx Fx1) as (_ & _ & _ & D & _). destruct (b_fp ccmd bx) eqn:P; [rewrite (D eq_refl) in Px1; discriminate|reflexivity].
      * rewrite <- Hu. symmetry. unfold cores. apply up_static. exact SS1.
Qed.
