(** POP state machine — structural invariants of the tree part (ids, parents, heights, ACTIVE flags,
    appliedBlockCount) and the counting argument "the applied blocks are exactly root..tip". *)
From Coq Require Import List ZArith NArith Bool Lia Permutation.
Import ListNotations.
From VB Require Import Pop.SmDefs Pop.SmProofs.
Local Open Scope Z_scope.

(** the part of a block that matters here: (id, parent, height, ACTIVE) *)
Definition ent : Type := (N * N * Z * bool)%type.
Definition e_id (e : ent) : N := fst (fst (fst e)).
Definition e_par (e : ent) : N := snd (fst (fst e)).
Definition e_h (e : ent) : Z := snd (fst e).
Definition e_act (e : ent) : bool := snd e.
Definition core (b : blk ccmd) : ent := (b_id _ b, b_par _ b, b_h _ b, b_act _ b).
Definition cores (s : cst) : list ent := map core (blocks _ _ s).

Fixpoint cfind (l : list ent) (i : N) : option ent :=
  match l with
  | [] => None
  | e :: r => if N.eqb (e_id e) i then Some e else cfind r i
  end.
Definition cupd (l : list ent) (i : N) (v : bool) : list ent :=
  map (fun e => if N.eqb (e_id e) i then (e_id e, e_par e, e_h e, v) else e) l.
Definition nact (l : list ent) : nat := length (filter e_act l).

Lemma cfind_core : forall (l : list (blk ccmd)) i, cfind (map core l) i = option_map core (find ccmd l i).
Proof.
  induction l as [|b r IH]; intros i; [reflexivity|].
  cbn [map cfind find]. change (e_id (core b)) with (b_id ccmd b).
  destruct (N.eqb (b_id ccmd b) i); [reflexivity|apply IH].
Qed.
Lemma core_strip : forall b, core (strip ccmd b) = core b.
Proof. reflexivity. Qed.
Lemma cores_strip_eq : forall l l' : list (blk ccmd),
    map (strip ccmd) l = map (strip ccmd) l' -> map core l = map core l'.
Proof.
  intros l l' H. assert (E : forall x : list (blk ccmd), map core x = map core (map (strip ccmd) x)).
  { intros x. rewrite map_map. apply map_ext. intros. reflexivity. }
  rewrite (E l), (E l'), H. reflexivity.
Qed.
Lemma cores_upd : forall (l : list (blk ccmd)) i f v,
    (forall b, b_id _ (f b) = b_id _ b /\ b_par _ (f b) = b_par _ b /\ b_h _ (f b) = b_h _ b /\ b_act _ (f b) = v) ->
    map core (upd ccmd l i f) = cupd (map core l) i v.
Proof.
  intros l i f v Hf. unfold upd, cupd. rewrite !map_map. apply map_ext. intros b.
  change (e_id (core b)) with (b_id ccmd b). destruct (N.eqb (b_id ccmd b) i); [|reflexivity].
  destruct (Hf b) as (A & B & C & D). unfold core, e_id, e_par, e_h. cbn. rewrite A, B, C, D. reflexivity.
Qed.

Lemma cfind_some : forall l i e, cfind l i = Some e -> e_id e = i /\ In e l.
Proof.
  induction l as [|h r IH]; intros i e H; cbn in H; [discriminate|].
  destruct (N.eqb (e_id h) i) eqn:E.
  - inversion H; subst. apply N.eqb_eq in E. split; [exact E|left; reflexivity].
  - apply IH in H. destruct H. split; [assumption|right; assumption].
Qed.
Lemma cfind_in : forall l e, NoDup (map e_id l) -> In e l -> cfind l (e_id e) = Some e.
Proof.
  induction l as [|h r IH]; intros e ND HI; [destruct HI|]. cbn in ND. inversion ND as [|? ? Hn ND']; subst.
  cbn. destruct HI as [HI|HI].
  - subst. rewrite N.eqb_refl. reflexivity.
  - destruct (N.eqb (e_id h) (e_id e)) eqn:E.
    + apply N.eqb_eq in E. exfalso. apply Hn. rewrite E. apply in_map. exact HI.
    + apply IH; assumption.
Qed.
Lemma cfind_cupd : forall l i v j,
    cfind (cupd l i v) j =
    option_map (fun e => if N.eqb (e_id e) i then (e_id e, e_par e, e_h e, v) else e) (cfind l j).
Proof.
  induction l as [|h r IH]; intros i v j; [reflexivity|].
  cbn [cupd map cfind]. fold (cupd r i v).
  destruct (N.eqb (e_id h) i) eqn:E.
  - change (e_id (e_id h, e_par h, e_h h, v)) with (e_id h).
    destruct (N.eqb (e_id h) j) eqn:E2; cbn [option_map]; [rewrite E; reflexivity|apply IH].
  - destruct (N.eqb (e_id h) j) eqn:E2; cbn [option_map]; [rewrite E; reflexivity|apply IH].
Qed.
Lemma ids_cupd : forall l i v, map e_id (cupd l i v) = map e_id l.
Proof.
  intros. unfold cupd. rewrite map_map. apply map_ext. intros e. destruct (N.eqb (e_id e) i); reflexivity.
Qed.

Lemma nact_cupd_on : forall l i e, NoDup (map e_id l) -> cfind l i = Some e -> e_act e = false ->
    nact (cupd l i true) = S (nact l).
Proof.
  induction l as [|h r IH]; intros i e ND H Ha; cbn in H; [discriminate|].
  cbn in ND. inversion ND as [|? ? Hn ND']; subst. unfold nact, cupd. cbn [map filter].
  destruct (N.eqb (e_id h) i) eqn:E.
  - inversion H; subst. unfold e_act at 1. cbn. rewrite Ha. cbn. f_equal. f_equal.
    apply N.eqb_eq in E. subst i. clear - Hn. induction r as [|x r IH]; [reflexivity|]. cbn in *.
    destruct (N.eqb (e_id x) (e_id e)) eqn:E; [apply N.eqb_eq in E; exfalso; apply Hn; left; exact E|].
    rewrite IH; [reflexivity|]. intro. apply Hn. right. assumption.
  - fold (cupd r i true). change (length (filter e_act (cupd r i true))) with (nact (cupd r i true)) in *.
    destruct (e_act h); cbn; fold (cupd r i true);
      change (length (filter e_act (cupd r i true))) with (nact (cupd r i true));
      rewrite (IH _ _ ND' H Ha); reflexivity.
Qed.
Lemma nact_cupd_off : forall l i e, NoDup (map e_id l) -> cfind l i = Some e -> e_act e = true ->
    S (nact (cupd l i false)) = nact l.
Proof.
  induction l as [|h r IH]; intros i e ND H Ha; cbn in H; [discriminate|].
  cbn in ND. inversion ND as [|? ? Hn ND']; subst. unfold nact, cupd. cbn [map filter].
  destruct (N.eqb (e_id h) i) eqn:E.
  - inversion H; subst. unfold e_act at 1. cbn. rewrite Ha. cbn. f_equal. f_equal.
    apply N.eqb_eq in E. subst i. clear - Hn. induction r as [|x r IH]; [reflexivity|]. cbn in *.
    destruct (N.eqb (e_id x) (e_id e)) eqn:E; [apply N.eqb_eq in E; exfalso; apply Hn; left; exact E|].
    rewrite IH; [reflexivity|]. intro. apply Hn. right. assumption.
  - fold (cupd r i false). 
    destruct (e_act h); cbn; fold (cupd r i false);
      change (length (filter e_act (cupd r i false))) with (nact (cupd r i false));
      change (length (filter e_act r)) with (nact r);
      rewrite <- (IH _ _ ND' H Ha); reflexivity.
Qed.

(** ** well-formedness of (ids, parents, heights, ACTIVE flags, counter) *)
Definition wfc (l : list ent) (r : N) (n : N) : Prop :=
  NoDup (map e_id l) /\
  (exists h, cfind l r = Some (r, r, h, true)) /\
  (forall e, In e l -> e_id e <> r ->
     exists pe, cfind l (e_par e) = Some pe /\ e_h e = e_h pe + 1 /\ (e_act e = true -> e_act pe = true)) /\
  n = N.of_nat (nact l).

Definition setact (i : N) (v : bool) (e : ent) : ent :=
  if N.eqb (e_id e) i then (e_id e, e_par e, e_h e, v) else e.
Lemma setact_static : forall i v e, e_id (setact i v e) = e_id e /\ e_par (setact i v e) = e_par e /\ e_h (setact i v e) = e_h e.
Proof. intros. unfold setact. destruct (N.eqb (e_id e) i); auto. Qed.
Lemma cupd_in : forall l i v e', In e' (cupd l i v) -> exists e0, In e0 l /\ e' = setact i v e0.
Proof. intros l i v e' H. unfold cupd in H. apply in_map_iff in H. destruct H as (e0 & A & B). exists e0. split; [exact B|symmetry; exact A]. Qed.
Lemma cfind_cupd' : forall l i v j, cfind (cupd l i v) j = option_map (setact i v) (cfind l j).
Proof. intros. apply cfind_cupd. Qed.

Lemma wfc_on : forall l r n i e,
    wfc l r n -> cfind l i = Some e -> e_act e = false -> i <> r ->
    (exists pe, cfind l (e_par e) = Some pe /\ e_act pe = true) ->
    wfc (cupd l i true) r (N.succ n).
Proof.
  intros l r n i e (ND & (h & HR) & HP & HN) Hi Ha Hir (pe & Hpe & Hpa).
  split; [rewrite ids_cupd; exact ND|]. split; [|split].
  - exists h. rewrite cfind_cupd', HR. cbn. unfold setact. change (e_id (r, r, h, true)) with r.
    destruct (N.eqb r i) eqn:E; [apply N.eqb_eq in E; congruence|reflexivity].
  - intros e' Hin Hne. apply cupd_in in Hin. destruct Hin as (e0 & Hin0 & ->).
    destruct (setact_static i true e0) as (Sid & Spar & Sh). rewrite Sid in Hne. rewrite Spar, Sh.
    destruct (HP e0 Hin0 Hne) as (pe0 & Hf0 & Hh0 & Hact0).
    exists (setact i true pe0). rewrite cfind_cupd', Hf0. split; [reflexivity|].
    destruct (setact_static i true pe0) as (_ & _ & Sh'). rewrite Sh'. split; [exact Hh0|].
    intros Hact. unfold setact at 1. destruct (N.eqb (e_id pe0) i); [reflexivity|].
    unfold setact in Hact. destruct (N.eqb (e_id e0) i) eqn:E0.
    + apply N.eqb_eq in E0. assert (e0 = e).
      { pose proof (cfind_in _ _ ND Hin0) as F. rewrite E0, Hi in F. inversion F. reflexivity. }
      subst e0. rewrite Hpe in Hf0. inversion Hf0; subst. exact Hpa.
    + apply Hact0. exact Hact.
  - rewrite (nact_cupd_on _ _ _ ND Hi Ha). rewrite Nat2N.inj_succ. f_equal. exact HN.
Qed.

Lemma wfc_off : forall l r n i e,
    wfc l r n -> cfind l i = Some e -> e_act e = true -> i <> r ->
    (forall c, In c l -> e_par c = i -> e_id c <> i -> e_act c = false) ->
    wfc (cupd l i false) r (N.pred n).
Proof.
  intros l r n i e (ND & (h & HR) & HP & HN) Hi Ha Hir Hch.
  split; [rewrite ids_cupd; exact ND|]. split; [|split].
  - exists h. rewrite cfind_cupd', HR. cbn. unfold setact. change (e_id (r, r, h, true)) with r.
    destruct (N.eqb r i) eqn:E; [apply N.eqb_eq in E; congruence|reflexivity].
  - intros e' Hin Hne. apply cupd_in in Hin. destruct Hin as (e0 & Hin0 & ->).
    destruct (setact_static i false e0) as (Sid & Spar & Sh). rewrite Sid in Hne. rewrite Spar, Sh.
    destruct (HP e0 Hin0 Hne) as (pe0 & Hf0 & Hh0 & Hact0).
    exists (setact i false pe0). rewrite cfind_cupd', Hf0. split; [reflexivity|].
    destruct (setact_static i false pe0) as (_ & _ & Sh'). rewrite Sh'. split; [exact Hh0|].
    intros Hact. unfold setact in Hact. destruct (N.eqb (e_id e0) i) eqn:E0; [discriminate Hact|].
    apply N.eqb_neq in E0. unfold setact. destruct (N.eqb (e_id pe0) i) eqn:E1.
    + exfalso. apply N.eqb_eq in E1. apply cfind_some in Hf0. destruct Hf0 as [Hid _].
      assert (e_act e0 = false) by (apply Hch; [exact Hin0|congruence|exact E0]). congruence.
    + apply Hact0. exact Hact.
  - pose proof (nact_cupd_off _ _ _ ND Hi Ha) as Hc. subst n. rewrite <- Hc. rewrite Nat2N.inj_succ, N.pred_succ. reflexivity.
Qed.

Lemma wfc_snoc : forall l r n i p h pe,
    wfc l r n -> cfind l i = None -> cfind l p = Some pe -> h = e_h pe + 1 ->
    wfc (l ++ [(i, p, h, false)]) r n.
Proof.
  intros l r n i p h pe (ND & (hr & HR) & HP & HN) Hi Hp Hh.
  assert (Hni : ~ In i (map e_id l)).
  { intro Hin. apply in_map_iff in Hin. destruct Hin as (e & He & Hin). pose proof (cfind_in _ _ ND Hin) as F. rewrite He, Hi in F. discriminate. }
  assert (cfind_app : forall j e, cfind l j = Some e -> cfind (l ++ [(i, p, h, false)]) j = Some e).
  { clear. induction l as [|x r IH]; intros j e H; cbn in *; [discriminate|]. destruct (N.eqb (e_id x) j); [exact H|apply IH; exact H]. }
  split; [rewrite map_app; apply NoDup_snoc; assumption|]. split; [|split].
  - exists hr. apply cfind_app. exact HR.
  - intros e Hin Hne. apply in_app_or in Hin. destruct Hin as [Hin|[<-|[]]].
    + destruct (HP e Hin Hne) as (pe0 & A & B & C). exists pe0. split; [apply cfind_app; exact A|split; assumption].
    + exists pe. split; [apply cfind_app; exact Hp|]. split; [exact Hh|]. intro Hx. discriminate Hx.
  - unfold nact in *. rewrite filter_app. cbn. rewrite app_nil_r. exact HN.
Qed.

Definition wf (s : cst) : Prop := wfc (cores s) (root _ _ s) (napp _ _ s).

(** static part of the tree as seen through ids *)
Definition sfind (l : list ent) (i : N) : option (N * Z) := option_map (fun e => (e_par e, e_h e)) (cfind l i).
Definition same_static (l l' : list ent) : Prop := forall j, sfind l' j = sfind l j.
Lemma same_static_refl : forall l, same_static l l.
Proof. intros l j. reflexivity. Qed.
Lemma same_static_trans : forall a b c, same_static a b -> same_static b c -> same_static a c.
Proof. intros a b c H1 H2 j. rewrite H2. apply H1. Qed.
Lemma same_static_cupd : forall l i v, same_static l (cupd l i v).
Proof.
  intros l i v j. unfold sfind. rewrite cfind_cupd'. destruct (cfind l j) as [e|]; [|reflexivity]. cbn.
  destruct (setact_static i v e) as (_ & A & B). rewrite A, B. reflexivity.
Qed.

Definition hgt (l : list ent) (i : N) : Z := match cfind l i with Some e => e_h e | None => 0 end.
Definition is_act (l : list ent) (i : N) : Prop := exists e, cfind l i = Some e /\ e_act e = true.
Lemma find_cfind : forall s i b, find ccmd (blocks _ _ s) i = Some b -> cfind (cores s) i = Some (core b).
Proof. intros s i b H. unfold cores. rewrite cfind_core, H. reflexivity. Qed.

(** ** the block-level steps on the core list *)
Lemma child_active_core : forall (l : list (blk ccmd)) i,
    child_active ccmd l i = false ->
    forall c, In c (map core l) -> e_par c = i -> e_id c <> i -> e_act c = false.
Proof.
  intros l i H c Hin Hp Hn. apply in_map_iff in Hin. destruct Hin as (b & <- & Hb).
  unfold child_active in H. rewrite <- not_true_iff_false in H. rewrite existsb_exists in H.
  change (e_act (core b)) with (b_act ccmd b). change (e_par (core b)) with (b_par ccmd b) in Hp.
  change (e_id (core b)) with (b_id ccmd b) in Hn.
  destruct (b_act ccmd b) eqn:A; [|reflexivity]. exfalso. apply H. exists b. split; [exact Hb|].
  rewrite A. apply N.eqb_eq in Hp. apply N.eqb_neq in Hn. rewrite Hp, Hn. reflexivity.
Qed.

Lemma apply_ok_core : forall s i s',
    wf s -> c_applyBlock s i = Ok (s', true) ->
    wf s' /\ cores s' = cupd (cores s) i true /\ napp _ _ s' = N.succ (napp _ _ s) /\
    root _ _ s' = root _ _ s /\ tip _ _ s' = tip _ _ s /\
    exists e, cfind (cores s) i = Some e /\ e_act e = false.
Proof.
  intros s i s' W H. unfold c_applyBlock, applyBlock in H.
  destruct (find ccmd (blocks pstate ccmd s) i) as [b|] eqn:Fi; [|discriminate].
  destruct (N.eqb i (root pstate ccmd s)) eqn:R; [discriminate|]. apply N.eqb_neq in R.
  destruct (find ccmd (blocks pstate ccmd s) (b_par ccmd b)) as [pb|] eqn:Fp; [|discriminate].
  destruct (negb (b_act ccmd pb)) eqn:Pa; [discriminate|]. apply negb_false_iff in Pa.
  destruct (b_act ccmd b) eqn:Ha; [discriminate|].
  destruct (child_active ccmd (blocks pstate ccmd s) i); [discriminate|].
  destruct (b_fc ccmd b); [discriminate|].
  destruct (is_failed ccmd b); [discriminate|].
  destruct (N.ltb (b_lvl ccmd b) L_CONNECTED); [discriminate|].
  destruct (gsexec pstate ccmd cexec cunexec [] (b_gs ccmd b) (pst pstate ccmd s)) as [p' ok].
  destruct ok; cbn [negb] in H.
  - destruct (N.ltb (b_lvl ccmd b) _ && N.ltb (b_lvl ccmd pb) _); [discriminate|].
    inversion H; subst; clear H.
    match goal with |- wf ?S /\ _ => assert (C : cores S = cupd (cores s) i true) end.
    { unfold cores. cbn [blocks]. apply cores_upd. intros. repeat split; reflexivity. }
    assert (Fe : cfind (cores s) i = Some (core b)) by (unfold cores; rewrite cfind_core, Fi; reflexivity).
    split; [|split; [exact C|split; [reflexivity|split; [reflexivity|split; [reflexivity|]]]]].
    + unfold wf. rewrite C. cbn [root napp]. eapply wfc_on; [exact W|exact Fe|exact Ha|exact R|].
      exists (core pb). split; [|exact Pa]. unfold cores. rewrite cfind_core. cbn. rewrite Fp. reflexivity.
    + exists (core b). split; [exact Fe|exact Ha].
  - destruct (invalidate_pop pstate ccmd _ i); cbn in H; [|discriminate]. inversion H.
Qed.

Lemma apply_fail_core : forall s i s',
    c_applyBlock s i = Ok (s', false) ->
    cores s' = cores s /\ napp _ _ s' = napp _ _ s /\ root _ _ s' = root _ _ s /\ tip _ _ s' = tip _ _ s.
Proof.
  intros s i s' H. apply c_applyBlock_atomic in H. destruct H as (_ & A & B & C & D).
  split; [apply cores_strip_eq; exact D|auto].
Qed.

Lemma unapply_core : forall s i s',
    wf s -> c_unapplyBlock s i = Ok s' ->
    wf s' /\ cores s' = cupd (cores s) i false /\ N.succ (napp _ _ s') = napp _ _ s /\
    root _ _ s' = root _ _ s /\ tip _ _ s' = tip _ _ s /\ i <> root _ _ s /\
    exists e, cfind (cores s) i = Some e /\ e_act e = true /\ is_act (cores s) (e_par e).
Proof.
  intros s i s' W H. unfold c_unapplyBlock, unapplyBlock in H.
  destruct (find ccmd (blocks pstate ccmd s) i) as [b|] eqn:Fi; [|discriminate].
  destruct (N.eqb i (root pstate ccmd s)) eqn:R; [discriminate|]. apply N.eqb_neq in R.
  destruct (negb (b_act ccmd b)) eqn:Ha; [discriminate|]. apply negb_false_iff in Ha.
  destruct (find ccmd (blocks pstate ccmd s) (b_par ccmd b)) as [pb|] eqn:Fp; [|discriminate].
  destruct (negb (b_act ccmd pb)) eqn:Pa; [discriminate|]. apply negb_false_iff in Pa.
  destruct (child_active ccmd (blocks pstate ccmd s) i) eqn:CA; [discriminate|].
  destruct (N.eqb (napp pstate ccmd s) 0) eqn:N0; [discriminate|]. apply N.eqb_neq in N0.
  inversion H; subst; clear H.
  match goal with |- wf ?S /\ _ => assert (C : cores S = cupd (cores s) i false) end.
  { unfold cores. cbn [blocks]. apply cores_upd. intros. repeat split; reflexivity. }
  assert (Fe : cfind (cores s) i = Some (core b)) by (unfold cores; rewrite cfind_core, Fi; reflexivity).
  split; [|split; [exact C|split; [cbn; apply N.succ_pred; exact N0|split; [reflexivity|split; [reflexivity|split; [exact R|]]]]]].
  - unfold wf. rewrite C. cbn [root napp]. eapply wfc_off; [exact W|exact Fe|exact Ha|exact R|].
    apply child_active_core. exact CA.
  - exists (core b). split; [exact Fe|]. split; [exact Ha|].
    exists (core pb). split; [apply find_cfind; exact Fp|exact Pa].
Qed.

(** ** heights and the applied counter along the walks *)

Lemma hgt_static : forall l l' j, same_static l l' -> hgt l' j = hgt l j.
Proof.
  intros l l' j H. specialize (H j). unfold sfind in H. unfold hgt.
  destruct (cfind l' j), (cfind l j); cbn in H; try discriminate; [inversion H; reflexivity|reflexivity].
Qed.

Lemma wf_parent_height : forall s x e,
    wf s -> cfind (cores s) x = Some e -> x <> root _ _ s -> hgt (cores s) x = hgt (cores s) (e_par e) + 1.
Proof.
  intros s x e (ND & _ & HP & _) Hx Hr. pose proof (cfind_some _ _ _ Hx) as [Hid Hin].
  destruct (HP e Hin) as (pe & Hpe & Hh & _); [congruence|].
  unfold hgt. rewrite Hx, Hpe. exact Hh.
Qed.


Record frame (s s' : cst) : Prop := mkFrame {
  fr_wf : wf s';
  fr_static : same_static (cores s) (cores s');
  fr_root : root _ _ s' = root _ _ s;
  fr_tip : tip _ _ s' = tip _ _ s }.

Lemma frame_refl : forall s, wf s -> frame s s.
Proof. intros s W. constructor; [exact W|apply same_static_refl|reflexivity|reflexivity]. Qed.
Lemma frame_trans : forall a b c, frame a b -> frame b c -> frame a c.
Proof.
  intros a b c [W1 S1 R1 T1] [W2 S2 R2 T2]. constructor; [exact W2|eapply same_static_trans; eassumption|congruence|congruence].
Qed.

Lemma is_act_cupd_other : forall l i v j, is_act l j -> (v = true \/ j <> i) -> is_act (cupd l i v) j.
Proof.
  intros l i v j (e & He & Ha) Hv. exists (setact i v e). rewrite cfind_cupd', He. split; [reflexivity|].
  unfold setact. destruct (N.eqb (e_id e) i) eqn:E; [|exact Ha].
  destruct Hv as [->|Hn]; [reflexivity|]. apply N.eqb_eq in E. apply cfind_some in He. destruct He. congruence.
Qed.

Ltac dbind H :=
  match type of H with
  | bind ?e _ = Ok _ => let E := fresh "E" in destruct e eqn:E; cbn [bind] in H; [|discriminate]
  end.

Lemma uw_arith : forall fuel s cur to pred s' w,
    wf s -> unapplyWhile pstate ccmd cunexec fuel s cur to pred = Ok (s', w) ->
    frame s s' /\ Z.of_N (napp _ _ s) = Z.of_N (napp _ _ s') + (hgt (cores s) cur - hgt (cores s) w) /\
    (is_act (cores s) cur -> is_act (cores s') w).
Proof.
  induction fuel as [|f IH]; intros s cur to pred s' w W H; cbn in H.
  - destruct (N.eqb cur to) eqn:E; [|discriminate]. inversion H; subst. apply N.eqb_eq in E. subst.
    split; [apply frame_refl; exact W|split; [lia|auto]].
  - destruct (N.eqb cur to) eqn:E.
    { inversion H; subst. apply N.eqb_eq in E. subst. split; [apply frame_refl; exact W|split; [lia|auto]]. }
    destruct (find ccmd (blocks pstate ccmd s) cur) as [bc|] eqn:Fc; [|discriminate].
    destruct (find ccmd (blocks pstate ccmd s) to) as [bt|]; [|discriminate].
    destruct (Z.leb (b_h ccmd bc) (b_h ccmd bt)); [discriminate|].
    destruct (negb (pred bc)).
    { inversion H; subst. split; [apply frame_refl; exact W|split; [lia|auto]]. }
    dbind H. destruct (unapply_core _ _ _ W E0) as (W1 & C1 & N1 & R1 & T1 & Hr & (e1 & He1 & _ & Hpa)).
    destruct (IH _ _ _ _ _ _ W1 H) as (F & A & IA).
    assert (S1 : same_static (cores s) (cores a)) by (rewrite C1; apply same_static_cupd).
    pose proof (wf_parent_height _ _ _ W (find_cfind _ _ _ Fc) Hr) as Hh. cbn in Hh.
    change (e_par (core bc)) with (b_par ccmd bc) in Hh.
    rewrite (find_cfind _ _ _ Fc) in He1. inversion He1; subst e1. change (e_par (core bc)) with (b_par ccmd bc) in Hpa.
    split; [|split].
    + eapply frame_trans; [|exact F]. constructor; assumption.
    + rewrite !(hgt_static _ _ _ S1) in A. lia.
    + intros _. apply IA. rewrite C1. apply is_act_cupd_other; [exact Hpa|right]. intro Heq. rewrite Heq in Hh. lia.
Qed.

Lemma unapply_arith : forall s a b s',
    wf s -> unapply pstate ccmd cunexec s a b = Ok s' ->
    frame s s' /\ Z.of_N (napp _ _ s) = Z.of_N (napp _ _ s') + (hgt (cores s) a - hgt (cores s) b) /\
    (is_act (cores s) a -> is_act (cores s') b).
Proof.
  intros s a b s' W H. unfold unapply in H. dbind H. destruct a0 as [s1 w]. cbn in H.
  destruct (N.eqb w b) eqn:Ew; inversion H; subst. apply N.eqb_eq in Ew. subst.
  eapply uw_arith; eassumption.
Qed.

Fixpoint linked (l : list ent) (cur : N) (path : list N) : Prop :=
  match path with
  | [] => True
  | x :: r => (exists e, cfind l x = Some e /\ e_par e = cur) /\ linked l x r
  end.
Lemma linked_static : forall l l' path cur, same_static l l' -> linked l cur path -> linked l' cur path.
Proof.
  intros l l' path. induction path as [|x r IH]; intros cur S H; [exact I|]. destruct H as [(e & He & Hp) Hl].
  split; [|apply IH; assumption]. specialize (S x). unfold sfind in S. rewrite He in S.
  destruct (cfind l' x) as [e'|]; cbn in S; [|discriminate]. inversion S. exists e'. split; [reflexivity|congruence].
Qed.

Lemma last_cons_default : forall (l : list N) y d d', last (y :: l) d = last (y :: l) d'.
Proof. induction l as [|z r IH]; intros y d d'; [reflexivity|]. change (last (z :: r) d = last (z :: r) d'). apply IH. Qed.

Lemma ap_arith : forall path s from s' ok cur,
    wf s -> linked (cores s) cur path -> apply_path pstate ccmd cexec cunexec s from path = Ok (s', ok) ->
    frame s s' /\
    (ok = true -> Z.of_N (napp _ _ s') = Z.of_N (napp _ _ s) + Z.of_nat (length path) /\
                  (path <> [] -> is_act (cores s') (last path cur)) /\
                  (forall j, is_act (cores s) j -> is_act (cores s') j)) /\
    (ok = false -> Z.of_N (napp _ _ s) = Z.of_N (napp _ _ s') + (hgt (cores s) cur - hgt (cores s) from) /\
                   (is_act (cores s) cur -> is_act (cores s') from)).
Proof.
  induction path as [|x r IH]; intros s from s' ok cur W L H; cbn in H.
  - inversion H; subst. split; [apply frame_refl; exact W|]. split; [|discriminate].
    intros _. split; [cbn; lia|]. split; [intro C; congruence|auto].
  - dbind H. destruct a as [s1 ok1]. destruct L as [(e & He & Hp) Lr]. destruct ok1.
    + destruct (apply_ok_core _ _ _ W E) as (W1 & C1 & N1 & R1 & T1 & (e0 & He0 & Ha0)).
      assert (S1 : same_static (cores s) (cores s1)) by (rewrite C1; apply same_static_cupd).
      assert (F1 : frame s s1) by (constructor; assumption).
      destruct (IH _ _ _ _ x W1 (linked_static _ _ _ _ S1 Lr) H) as (F & Ht & Hf).
      split; [eapply frame_trans; eassumption|]. split.
      * intros Hok. destruct (Ht Hok) as (A & B & C). split; [cbn [length]; lia|]. split.
        -- intros _. destruct r as [|y r']; [|change (last (x :: y :: r') cur) with (last (y :: r') cur);
                                                  rewrite (last_cons_default r' y cur x); apply B; discriminate].
           cbn. apply C. rewrite C1. exists (setact x true e0). rewrite cfind_cupd', He0. split; [reflexivity|].
           unfold setact. apply cfind_some in He0. destruct He0 as [Hid _]. rewrite Hid, N.eqb_refl. reflexivity.
        -- intros j Hj. apply C. rewrite C1. apply is_act_cupd_other; [exact Hj|left; reflexivity].
      * intros Hok. destruct (Hf Hok) as [Hf1 Hf2]. rewrite !(hgt_static _ _ _ S1) in Hf1.
        assert (Hxa : is_act (cores s1) x).
        { rewrite C1. exists (setact x true e0). rewrite cfind_cupd', He0. split; [reflexivity|].
          unfold setact. apply cfind_some in He0. destruct He0 as [Hid _]. rewrite Hid, N.eqb_refl. reflexivity. }
        split; [|intros _; exact (Hf2 Hxa)].
        assert (Hxr : x <> root _ _ s).
        { intro. subst x. unfold c_applyBlock, applyBlock in E.
          destruct (find ccmd (blocks pstate ccmd s) (root pstate ccmd s)); [|discriminate].
          rewrite N.eqb_refl in E. discriminate. }
        pose proof (wf_parent_height _ _ _ W He Hxr) as Hh. rewrite Hp in Hh. lia.
    + destruct (apply_fail_core _ _ _ E) as (C1 & N1 & R1 & T1).
      assert (W1 : wf s1) by (unfold wf; rewrite C1, R1, N1; exact W).
      destruct (find ccmd (blocks pstate ccmd s1) x) as [bx|] eqn:Fx; [|discriminate].
      dbind H. inversion H; subst s' ok; clear H. subst cur.
      destruct (unapply_arith _ _ _ _ W1 E0) as (F & A & IA).
      assert (F1 : frame s s1) by (constructor; [exact W1|rewrite C1; apply same_static_refl|exact R1|exact T1]).
      split; [eapply frame_trans; eassumption|]. split; [discriminate|]. intros _.
      pose proof (find_cfind _ _ _ Fx) as Hx. rewrite C1, He in Hx. inversion Hx; subst e.
      change (e_par (core bx)) with (b_par ccmd bx). rewrite C1, N1 in A. rewrite C1 in IA. split; [exact A|exact IA].
Qed.

(** ** apply (range) *)
Lemma path_up_length : forall (l : list (blk ccmd)) n i up, path_up ccmd l n i = Some up -> length up = n.
Proof.
  induction n as [|n IH]; intros i up H; cbn in H.
  - inversion H. reflexivity.
  - destruct (find ccmd l i) as [b|]; [|discriminate].
    destruct (path_up ccmd l n (b_par ccmd b)) as [up'|] eqn:E; cbn in H; [|discriminate].
    inversion H; subst. cbn. f_equal. eapply IH. exact E.
Qed.
Lemma linked_snoc : forall l a c x,
    linked l c a -> (exists e, cfind l x = Some e /\ e_par e = last a c) -> linked l c (a ++ [x]).
Proof.
  intros l a. induction a as [|y r IH]; intros c x H Hx; cbn.
  - split; [exact Hx|exact I].
  - destruct H as [Hy Hr]. split; [exact Hy|]. apply IH; [exact Hr|].
    destruct Hx as (e & He & Hp). exists e. split; [exact He|].
    rewrite Hp. destruct r as [|z r']; [reflexivity|].
    change (last (y :: z :: r') c) with (last (z :: r') c). apply last_cons_default.
Qed.
Lemma last_rev_cons : forall (t : list N) p d, last (rev (p :: t)) d = p.
Proof. intros. cbn. apply last_last. Qed.

Lemma path_up_linked : forall s n i up from,
    path_up ccmd (blocks _ _ s) n i = Some up ->
    (forall x bx, last up x = x -> up <> [] -> find ccmd (blocks _ _ s) (last up i) = Some bx -> True) ->
    (exists bx, find ccmd (blocks _ _ s) (last up i) = Some bx /\ b_par _ bx = from) ->
    up <> [] ->
    linked (cores s) from (rev up) /\ last (rev up) from = i.
Proof.
  intros s n. induction n as [|n IH]; intros i up from H _ Hl Hne; cbn in H.
  - inversion H; subst. congruence.
  - destruct (find ccmd (blocks pstate ccmd s) i) as [b|] eqn:Fi; [|discriminate].
    destruct (path_up ccmd (blocks pstate ccmd s) n (b_par ccmd b)) as [up'|] eqn:E; cbn in H; [|discriminate].
    inversion H; subst up; clear H.
    split; [|apply last_rev_cons].
    cbn [rev]. destruct up' as [|p t].
    + cbn. split; [|exact I]. destruct Hl as (bx & Fx & Hp). cbn in Fx. rewrite Fi in Fx. inversion Fx; subst bx.
      exists (core b). split; [apply find_cfind; exact Fi|exact Hp].
    + assert (Hp : p = b_par ccmd b).
      { destruct n as [|n']; cbn in E; [discriminate|].
        destruct (find ccmd (blocks pstate ccmd s) (b_par ccmd b)); [|discriminate].
        destruct (path_up ccmd (blocks pstate ccmd s) n' _); cbn in E; [|discriminate]. inversion E. reflexivity. }
      destruct (IH (b_par ccmd b) (p :: t) from E (fun _ _ _ _ _ => I)) as [L _].
      * destruct Hl as (bx & Fx & Hpx). exists bx. split; [|exact Hpx].
        change (last (i :: p :: t) i) with (last (p :: t) i) in Fx. rewrite (last_cons_default t p i (b_par ccmd b)) in Fx. exact Fx.
      * discriminate.
      * apply linked_snoc; [exact L|]. exists (core b). split; [apply find_cfind; exact Fi|].
        rewrite last_rev_cons. symmetry. exact Hp.
Qed.

Lemma apply_arith : forall s a b s' ok,
    wf s -> apply pstate ccmd cexec cunexec s a b = Ok (s', ok) ->
    frame s s' /\
    (ok = true -> Z.of_N (napp _ _ s') = Z.of_N (napp _ _ s) + (hgt (cores s) b - hgt (cores s) a) /\
                  (a <> b -> is_act (cores s') b) /\
                  (forall j, is_act (cores s) j -> is_act (cores s') j)) /\
    (ok = false -> napp _ _ s' = napp _ _ s /\ (is_act (cores s) a -> is_act (cores s') a)).
Proof.
  intros s a b s' ok W H. unfold apply in H.
  destruct (N.eqb a b) eqn:Eab.
  { inversion H; subst. apply N.eqb_eq in Eab. subst. split; [apply frame_refl; exact W|]. split; [|discriminate].
    intros _. split; [lia|]. split; [congruence|auto]. }
  apply N.eqb_neq in Eab.
  destruct (find ccmd (blocks pstate ccmd s) a) as [bf|] eqn:Fa; [|discriminate].
  destruct (find ccmd (blocks pstate ccmd s) b) as [bt|] eqn:Fb; [|discriminate].
  destruct (is_failed ccmd bt).
  { inversion H; subst. split; [apply frame_refl; exact W|]. split; [discriminate|]. intros _. split; [reflexivity|auto]. }
  destruct (negb (Z.ltb (b_h ccmd bf) (b_h ccmd bt))) eqn:Hlt; [discriminate|].
  apply negb_false_iff in Hlt. apply Z.ltb_lt in Hlt.
  destruct (path_up ccmd (blocks pstate ccmd s) _ b) as [up|] eqn:Eup; [|discriminate].
  destruct (rev up) as [|x r] eqn:Erev; [discriminate|].
  destruct (find ccmd (blocks pstate ccmd s) x) as [bx|] eqn:Fx; [|discriminate].
  destruct (N.eqb (b_par ccmd bx) a) eqn:Epx; [|discriminate]. apply N.eqb_eq in Epx.
  assert (Hne : up <> []) by (intro; subst up; discriminate).
  assert (Hlast : last up b = x).
  { rewrite <- (rev_involutive up), Erev. cbn [rev]. apply last_last. }
  destruct (path_up_linked s _ b up a Eup (fun _ _ _ _ _ => I)) as [L Lb].
  { exists bx. rewrite Hlast. split; assumption. }
  { exact Hne. }
  rewrite Erev in L, Lb.
  destruct (ap_arith _ _ _ _ _ a W L H) as (F & Ht & Hf).
  split; [exact F|]. split.
  - intros Hok. destruct (Ht Hok) as (A & B & C). split; [|split; [|exact C]].
    + pose proof (path_up_length _ _ _ _ Eup) as Hlen.
      assert (length (x :: r) = length up) by (rewrite <- Erev; apply rev_length).
      rewrite H0, Hlen in A. rewrite A.
      unfold hgt. rewrite (find_cfind _ _ _ Fa), (find_cfind _ _ _ Fb). cbn. rewrite Z2Nat.id by lia. reflexivity.
    + intros _. rewrite <- Lb. apply B. discriminate.
  - intros Hok. destruct (Hf Hok) as [Hf1 Hf2]. split; [lia|exact Hf2].
Qed.

(** ** PopStateMachine::setState *)
Lemma sm_arith : forall s a b s' ok,
    wf s -> is_act (cores s) a -> sm_setState pstate ccmd cexec cunexec s a b = Ok (s', ok) ->
    frame s s' /\
    (ok = true -> Z.of_N (napp _ _ s') = Z.of_N (napp _ _ s) + (hgt (cores s) b - hgt (cores s) a) /\ is_act (cores s') b) /\
    (ok = false -> napp _ _ s' = napp _ _ s /\ is_act (cores s') a).
Proof.
  intros s a b s' ok W Ha H. unfold sm_setState in H.
  destruct (N.eqb a b) eqn:Eab.
  { inversion H; subst. apply N.eqb_eq in Eab. subst. split; [apply frame_refl; exact W|]. split; [|discriminate].
    intros _. split; [lia|exact Ha]. }
  destruct (lca ccmd (blocks pstate ccmd s) _ a b) as [fork|]; [|discriminate].
  dbind H. destruct (unapply_arith _ _ _ _ W E) as (F1 & A1 & I1).
  dbind H. destruct a1 as [s2 ok2].
  pose proof (fr_wf _ _ F1) as W1.
  destruct (apply_arith _ _ _ _ _ W1 E0) as (F2 & T2 & N2).
  pose proof (fr_static _ _ F1) as S1.
  destruct ok2.
  - inversion H; subst; clear H. split; [eapply frame_trans; eassumption|]. split; [|discriminate]. intros _.
    destruct (T2 eq_refl) as (A2 & B2 & C2). rewrite !(hgt_static _ _ _ S1) in A2. split; [lia|].
    destruct (N.eq_dec fork b) as [->|Hn]; [apply C2; apply I1; exact Ha|apply B2; exact Hn].
  - destruct (N2 eq_refl) as [A2 B2].
    dbind H. destruct a1 as [s3 ok3]. pose proof (fr_wf _ _ F2) as W2.
    destruct (apply_arith _ _ _ _ _ W2 E1) as (F3 & T3 & _).
    destruct ok3; inversion H; subst; clear H.
    split; [eapply frame_trans; [eassumption|eapply frame_trans; eassumption]|]. split; [discriminate|]. intros _.
    destruct (T3 eq_refl) as (A3 & B3 & C3).
    pose proof (fr_static _ _ F2) as S2.
    rewrite !(hgt_static _ _ _ S2), !(hgt_static _ _ _ S1) in A3. split; [apply N2Z.inj; lia|].
    destruct (N.eq_dec fork a) as [->|Hn]; [apply C3; apply B2; apply I1; exact Ha|apply B3; exact Hn].
Qed.

(** ** the quiescent invariant: between top-level calls the tree is well formed, the tip is applied and the
    applied counter equals the length of root..tip *)
Definition quiet (s : cst) : Prop :=
  wf s /\ is_act (cores s) (tip _ _ s) /\
  Z.of_N (napp _ _ s) = hgt (cores s) (tip _ _ s) - hgt (cores s) (root _ _ s) + 1.

Lemma root_h_hgt : forall s, root_h _ _ s = hgt (cores s) (root _ _ s).
Proof.
  intros s. unfold root_h, hgt, cores. rewrite cfind_core.
  destruct (find ccmd (blocks pstate ccmd s) (root pstate ccmd s)); reflexivity.
Qed.

Lemma quiet_setState : forall s to s' ok,
    quiet s -> c_setState s to = Ok (s', ok) ->
    quiet s' /\ same_static (cores s) (cores s') /\ root _ _ s' = root _ _ s /\
    (ok = true -> tip _ _ s' = to) /\ (ok = false -> tip _ _ s' = tip _ _ s /\ napp _ _ s' = napp _ _ s).
Proof.
  intros s to s' ok (W & Ta & Hn) H. unfold c_setState, setState in H.
  destruct (find ccmd (blocks pstate ccmd s) (tip pstate ccmd s)) as [bt|] eqn:Ft; [|discriminate].
  destruct (find ccmd (blocks pstate ccmd s) to) as [b0|] eqn:F0; [|discriminate].
  destruct (negb _); [discriminate|].
  match type of H with bind ?e _ = _ => destruct e as [[s1 ok1]|] eqn:E end; cbn [bind] in H; [|discriminate].
  assert (X : frame s s1 /\
              (ok1 = true -> Z.of_N (napp _ _ s1) = Z.of_N (napp _ _ s) + (hgt (cores s) to - hgt (cores s) (tip _ _ s)) /\ is_act (cores s1) to) /\
              (ok1 = false -> napp _ _ s1 = napp _ _ s /\ is_act (cores s1) (tip _ _ s))).
  { destruct (N.eqb (tip pstate ccmd s) to) eqn:Et.
    - inversion E; subst. apply N.eqb_eq in Et. split; [apply frame_refl; exact W|]. split; [|discriminate].
      intros _. rewrite <- Et. split; [lia|exact Ta].
    - eapply sm_arith; eassumption. }
  destruct X as (F & Xt & Xf). destruct F as [W1 S1 R1 T1].
  destruct (find ccmd (blocks pstate ccmd s1) to) as [bto|] eqn:Fto; [|discriminate].
  destruct ok1.
  - destruct (valid_upto ccmd bto L_FULL); inversion H; subst; clear H.
    destruct (Xt eq_refl) as [A B].
    assert (Hc : chain_count pstate ccmd s1 to = napp _ _ s1).
    { unfold chain_count. rewrite Fto, root_h_hgt, R1. rewrite (hgt_static _ _ _ S1).
      assert (b_h ccmd bto = hgt (cores s) to).
      { rewrite <- (hgt_static _ _ _ S1). unfold hgt. rewrite (find_cfind _ _ _ Fto). reflexivity. }
      rewrite H. apply N2Z.inj. rewrite Z2N.id by lia. lia. }
    split; [|split; [exact S1|split; [exact R1|split; [reflexivity|discriminate]]]].
    unfold quiet, wf, cores. cbn [blocks root tip napp]. fold (cores s1). rewrite Hc.
    split; [exact W1|]. split; [exact B|]. rewrite R1, !(hgt_static _ _ _ S1). lia.
  - destruct (negb (is_failed ccmd bto)); [discriminate|].
    destruct (negb _); inversion H; subst; clear H.
    destruct (Xf eq_refl) as [A B].
    split; [|split; [exact S1|split; [exact R1|split; [discriminate|intros _; split; assumption]]]].
    split; [exact W1|]. rewrite T1, R1, A, !(hgt_static _ _ _ S1). split; [exact B|exact Hn].
Qed.

Lemma cfind_app_some : forall l x j e, cfind l j = Some e -> cfind (l ++ [x]) j = Some e.
Proof. induction l as [|y r IH]; intros x j e H; cbn in *; [discriminate|]. destruct (N.eqb (e_id y) j); [exact H|apply IH; exact H]. Qed.

Lemma quiet_connect : forall s i par dup gs s',
    quiet s -> c_connect s i par dup gs = Ok s' -> quiet s' /\ tip _ _ s' = tip _ _ s /\ root _ _ s' = root _ _ s.
Proof.
  intros s i par dup gs s' (W & Ta & Hn) H. unfold c_connect, connect in H.
  destruct (find ccmd (blocks pstate ccmd s) par) as [pb|] eqn:Fp; [|discriminate].
  destruct (find ccmd (blocks pstate ccmd s) i) eqn:Fi; [discriminate|].
  inversion H; subst; clear H. split; [|split; reflexivity].
  assert (C : cores (with_blocks pstate ccmd s (blocks pstate ccmd s ++ [mkBlk ccmd i par (b_h ccmd pb + 1) L_CONNECTED false dup (is_failed ccmd pb) false gs]))
              = cores s ++ [(i, par, b_h ccmd pb + 1, false)]).
  { unfold cores. cbn [blocks with_blocks]. rewrite map_app. reflexivity. }
  unfold quiet, wf. rewrite C. cbn [root tip napp with_blocks].
  split; [|split].
  - eapply wfc_snoc; [exact W| |apply find_cfind; exact Fp|reflexivity].
    unfold cores. rewrite cfind_core, Fi. reflexivity.
  - destruct Ta as (e & He & Hact). exists e. split; [apply cfind_app_some; exact He|exact Hact].
  - assert (Hh : forall j e, cfind (cores s) j = Some e -> hgt (cores s ++ [(i, par, b_h ccmd pb + 1, false)]) j = hgt (cores s) j).
    { intros j e He. unfold hgt. rewrite (cfind_app_some _ _ _ _ He), He. reflexivity. }
    destruct Ta as (e & He & _). destruct W as (_ & (hr & HR) & _). rewrite (Hh _ _ He), (Hh _ _ HR). exact Hn.
Qed.

(** ** the counting argument: in a quiet state the applied blocks are exactly root..tip *)
Definition parent (l : list ent) (i : N) : N := match cfind l i with Some e => e_par e | None => i end.
Fixpoint anc_list (l : list ent) (n : nat) (i : N) : list N :=
  match n with
  | O => [i]
  | S m => i :: anc_list l m (parent l i)
  end.
Definition chain (s : cst) : list N :=
  anc_list (cores s) (Z.to_nat (hgt (cores s) (tip _ _ s) - hgt (cores s) (root _ _ s))) (tip _ _ s).
Definition act_ids (l : list ent) : list N := map e_id (filter e_act l).

Lemma anc_list_length : forall l n i, length (anc_list l n i) = S n.
Proof. induction n as [|n IH]; intros i; cbn; [reflexivity|]. rewrite IH. reflexivity. Qed.

Lemma act_ids_in : forall l j, NoDup (map e_id l) -> (In j (act_ids l) <-> is_act l j).
Proof.
  intros l j ND. unfold act_ids, is_act. rewrite in_map_iff. split.
  - intros (e & <- & Hin). apply filter_In in Hin. destruct Hin as [Hin Ha]. exists e. split; [apply cfind_in; assumption|exact Ha].
  - intros (e & He & Ha). apply cfind_some in He. destruct He as [Hid Hin]. exists e. split; [exact Hid|]. apply filter_In. split; assumption.
Qed.
Lemma act_ids_nodup : forall l, NoDup (map e_id l) -> NoDup (act_ids l).
Proof.
  unfold act_ids. induction l as [|e r IH]; intros ND; cbn in *; [constructor|].
  inversion ND as [|? ? Hn ND']; subst. destruct (e_act e); cbn; [|apply IH; exact ND'].
  constructor; [|apply IH; exact ND']. intro Hin. apply Hn. apply in_map_iff in Hin. destruct Hin as (x & Hx & Hin).
  apply filter_In in Hin. destruct Hin as [Hin _]. apply in_map_iff. exists x. split; assumption.
Qed.

(* all elements of the chain hanging below an applied block are applied, with heights decreasing by one *)
Lemma anc_list_active : forall s n i,
    wf s -> is_act (cores s) i -> Z.of_nat n <= hgt (cores s) i - hgt (cores s) (root _ _ s) ->
    (forall j, In j (anc_list (cores s) n i) -> is_act (cores s) j /\ hgt (cores s) i - Z.of_nat n <= hgt (cores s) j <= hgt (cores s) i) /\
    NoDup (anc_list (cores s) n i).
Proof.
  intros s n. induction n as [|n IH]; intros i W Ha Hn.
  - split; [|constructor; [intros []|constructor]]. intros j [<-|[]]. split; [exact Ha|lia].
  - assert (Hir : i <> root _ _ s) by (intro; subst i; lia).
    destruct Ha as (e & He & Hact).
    pose proof (wf_parent_height _ _ _ W He Hir) as Hh.
    destruct W as (ND & HR & HP & HN). pose proof (cfind_some _ _ _ He) as [Hid Hin].
    destruct (HP e Hin) as (pe & Hpe & _ & Hpa); [congruence|].
    assert (Hp : parent (cores s) i = e_par e) by (unfold parent; rewrite He; reflexivity).
    assert (Hpact : is_act (cores s) (e_par e)) by (exists pe; split; [exact Hpe|apply Hpa; exact Hact]).
    destruct (IH (e_par e) (conj ND (conj HR (conj HP HN))) Hpact) as [A B]; [lia|].
    cbn [anc_list]. rewrite Hp. split.
    + intros j [<-|Hj]; [split; [exists e; split; assumption|lia]|].
      destruct (A j Hj) as [A1 A2]. split; [exact A1|lia].
    + constructor; [|exact B]. intro Hj. destruct (A i Hj) as [_ A2]. lia.
Qed.

Theorem applied_exactly : forall s, quiet s -> forall j, is_act (cores s) j <-> In j (chain s).
Proof.
  intros s (W & Ta & Hn) j. unfold chain.
  set (n := Z.to_nat (hgt (cores s) (tip _ _ s) - hgt (cores s) (root _ _ s))).
  assert (Hge : 0 <= hgt (cores s) (tip _ _ s) - hgt (cores s) (root _ _ s)).
  { destruct W as (_ & (hr & HR) & _ & HN0). apply cfind_some in HR. destruct HR as [_ Hin].
    assert (In (root pstate ccmd s, root pstate ccmd s, hr, true) (filter e_act (cores s))) by (apply filter_In; split; [exact Hin|reflexivity]).
    assert (1 <= nact (cores s))%nat by (unfold nact; destruct (filter e_act (cores s)); [destruct H|cbn; lia]).
    assert (1 <= Z.of_N (napp pstate ccmd s)) by (rewrite HN0, nat_N_Z; lia). lia. }
  destruct (anc_list_active s n (tip _ _ s) W Ta) as [A B]; [unfold n; rewrite Z2Nat.id by lia; lia|].
  pose proof W as (ND & _ & _ & HN).
  split.
  - intros Hj. apply (act_ids_in _ _ ND) in Hj.
    refine (NoDup_length_incl B _ _ j Hj).
    + rewrite anc_list_length. unfold act_ids. rewrite map_length. fold (nact (cores s)).
      assert (Z.of_nat (nact (cores s)) = Z.of_nat (S n)); [|lia].
      rewrite <- nat_N_Z, <- HN, Hn. unfold n. rewrite Nat2Z.inj_succ, Z2Nat.id by lia. lia.
    + intros x Hx. apply (act_ids_in _ _ ND). apply A. exact Hx.
  - intros Hj. apply A. exact Hj.
Qed.

(** ** histories without comparisons: the quiet invariant holds throughout *)
Fixpoint no_compare (ops : list op) : Prop :=
  match ops with
  | [] => True
  | OCompare _ _ _ :: _ => False
  | _ :: r => no_compare r
  end.

Lemma quiet_init : forall r h base, quiet (c_init r h base).
Proof.
  intros r h base. unfold quiet, wf, cores, c_init, init. cbn [blocks root tip napp map core b_id b_par b_h b_act].
  split; [|split].
  - split; [cbn; constructor; [intros []|constructor]|]. split; [exists h; cbn; rewrite N.eqb_refl; reflexivity|].
    split; [|reflexivity]. intros e [<-|[]] Hne. exfalso. apply Hne. reflexivity.
  - exists (r, r, h, true). cbn. rewrite N.eqb_refl. split; reflexivity.
  - unfold hgt. cbn. rewrite N.eqb_refl. cbn. lia.
Qed.

Lemma quiet_run : forall ops s s', no_compare ops -> quiet s -> run s ops = Ok s' -> quiet s'.
Proof.
  induction ops as [|o r IH]; intros s s' NC Q H; cbn in H.
  - inversion H; subst. exact Q.
  - destruct (step_op s o) as [s1|] eqn:E; cbn in H; [|discriminate].
    destruct o as [i par dup gs|to|c sc cr]; cbn in E, NC; [| |destruct NC].
    + eapply IH; [exact NC| |exact H]. eapply quiet_connect; eassumption.
    + destruct (c_setState s to) as [[s2 ok]|] eqn:E2; cbn in E; [|discriminate]. inversion E; subst.
      eapply IH; [exact NC| |exact H]. eapply quiet_setState; eassumption.
Qed.

Lemma anc_list_static : forall l l' n i, same_static l l' -> anc_list l' n i = anc_list l n i.
Proof.
  intros l l' n. induction n as [|n IH]; intros i S; [reflexivity|]. cbn. f_equal.
  assert (parent l' i = parent l i).
  { specialize (S i). unfold sfind in S. unfold parent. destruct (cfind l' i), (cfind l i); cbn in S; try discriminate; [inversion S; reflexivity|reflexivity]. }
  rewrite H. apply IH. exact S.
Qed.

(** C02, full statement for setState from a quiet state (any tree, any payloads, any failing position):
    success = the target is the tip and EXACTLY root..target is applied; failure = tip, counter and the applied set are
    exactly what they were. *)
Theorem setState_applied_exactly : forall s to s' ok,
    quiet s -> c_setState s to = Ok (s', ok) ->
    quiet s' /\
    (forall j, is_act (cores s') j <-> In j (chain s')) /\
    (ok = true -> tip _ _ s' = to) /\
    (ok = false -> tip _ _ s' = tip _ _ s /\ napp _ _ s' = napp _ _ s /\
                   forall j, is_act (cores s') j <-> is_act (cores s) j).
Proof.
  intros s to s' ok Q H. destruct (quiet_setState _ _ _ _ Q H) as (Q' & S & R & Ht & Hf).
  split; [exact Q'|]. split; [apply applied_exactly; exact Q'|]. split; [exact Ht|].
  intros Hok. destruct (Hf Hok) as [T N]. split; [exact T|]. split; [exact N|].
  intros j. rewrite (applied_exactly _ Q'), (applied_exactly _ Q). unfold chain.
  rewrite T, R, !(hgt_static _ _ _ S), (anc_list_static _ _ _ _ S). reflexivity.
Qed.

(** ** failure leaves P unchanged (as a multiset) *)
Definition staticInv (L : list (N * N * Z * list (list ccmd))) (s : cst) : Prop :=
  map (static ccmd) (blocks _ _ s) = L.
Lemma static_upd : forall (l : list (blk ccmd)) i f,
    (forall b, static ccmd (f b) = static ccmd b) -> map (static ccmd) (upd ccmd l i f) = map (static ccmd) l.
Proof.
  intros l i f Hf. unfold upd. rewrite map_map. apply map_ext. intros b. destruct (N.eqb (b_id ccmd b) i); [apply Hf|reflexivity].
Qed.
Lemma static_strip_eq : forall l l' : list (blk ccmd),
    map (strip ccmd) l = map (strip ccmd) l' -> map (static ccmd) l = map (static ccmd) l'.
Proof.
  intros l l' H. assert (E : forall x : list (blk ccmd), map (static ccmd) x = map (static ccmd) (map (strip ccmd) x)).
  { intros x. rewrite map_map. apply map_ext. intros. reflexivity. }
  rewrite (E l), (E l'), H. reflexivity.
Qed.
Lemma staticInv_apply : forall L s i s' ok, staticInv L s -> c_applyBlock s i = Ok (s', ok) -> staticInv L s'.
Proof.
  intros L s i s' ok HI H. destruct ok.
  - unfold c_applyBlock, applyBlock in H.
    destruct (find ccmd (blocks pstate ccmd s) i) as [b|]; [|discriminate].
    destruct (N.eqb i (root pstate ccmd s)); [discriminate|].
    destruct (find ccmd (blocks pstate ccmd s) (b_par ccmd b)) as [pb|]; [|discriminate].
    destruct (negb (b_act ccmd pb)); [discriminate|].
    destruct (b_act ccmd b); [discriminate|].
    destruct (child_active ccmd (blocks pstate ccmd s) i); [discriminate|].
    destruct (b_fc ccmd b); [discriminate|].
    destruct (is_failed ccmd b); [discriminate|].
    destruct (N.ltb (b_lvl ccmd b) L_CONNECTED); [discriminate|].
    destruct (gsexec pstate ccmd cexec cunexec [] (b_gs ccmd b) (pst pstate ccmd s)) as [p' ok].
    destruct ok; cbn [negb] in H.
    + destruct (N.ltb (b_lvl ccmd b) _ && N.ltb (b_lvl ccmd pb) _); [discriminate|]. inversion H; subst.
      unfold staticInv. cbn [blocks]. rewrite static_upd; [exact HI|reflexivity].
    + destruct (invalidate_pop pstate ccmd _ i); cbn in H; [|discriminate]. inversion H.
  - apply c_applyBlock_atomic in H. destruct H as (_ & _ & _ & _ & Hs). unfold staticInv.
    rewrite (static_strip_eq _ _ Hs). exact HI.
Qed.
Lemma staticInv_unapply : forall L s i s', staticInv L s -> c_unapplyBlock s i = Ok s' -> staticInv L s'.
Proof.
  intros L s i s' HI H. unfold c_unapplyBlock, unapplyBlock in H.
  destruct (find ccmd (blocks pstate ccmd s) i) as [b|]; [|discriminate].
  destruct (N.eqb i (root pstate ccmd s)); [discriminate|].
  destruct (negb (b_act ccmd b)); [discriminate|].
  destruct (find ccmd (blocks pstate ccmd s) (b_par ccmd b)) as [pb|]; [|discriminate].
  destruct (negb (b_act ccmd pb)); [discriminate|].
  destruct (child_active ccmd (blocks pstate ccmd s) i); [discriminate|].
  destruct (N.eqb (napp pstate ccmd s) 0); [discriminate|].
  inversion H; subst. unfold staticInv. cbn [blocks]. rewrite static_upd; [exact HI|reflexivity].
Qed.
Lemma static_setState : forall s to s' ok,
    c_setState s to = Ok (s', ok) -> map (static ccmd) (blocks _ _ s') = map (static ccmd) (blocks _ _ s).
Proof.
  intros s to s' ok H.
  exact (Inv_setState pstate ccmd cexec cunexec (staticInv (map (static ccmd) (blocks _ _ s)))
           (staticInv_apply _) (staticInv_unapply _) (fun s t n H => H) s to s' ok eq_refl H).
Qed.

Lemma active_items_ext : forall l l' : list (blk ccmd),
    map core l' = map core l -> map (static ccmd) l' = map (static ccmd) l -> active_items l' = active_items l.
Proof.
  induction l as [|b r IH]; intros l' Hc Hs; destruct l' as [|b' r']; cbn in Hc, Hs; try discriminate; [reflexivity|].
  inversion Hc. inversion Hs. cbn [active_items flat_map].
  fold (active_items r'). fold (active_items r). rewrite (IH r') by assumption.
  replace (b_act ccmd b') with (b_act ccmd b) by congruence. replace (b_gs ccmd b') with (b_gs ccmd b) by congruence. reflexivity.
Qed.

Lemma cores_eq_of_act : forall l l' : list ent,
    map (fun e => (e_id e, e_par e, e_h e)) l' = map (fun e => (e_id e, e_par e, e_h e)) l ->
    NoDup (map e_id l) -> (forall j, is_act l' j <-> is_act l j) -> l' = l.
Proof.
  intros l l' Hm ND Hact.
  assert (NDp : NoDup (map e_id l')).
  { assert (map e_id l' = map e_id l); [|congruence].
    assert (E : forall x : list ent, map e_id x = map (fun t : N * N * Z => fst (fst t)) (map (fun e => (e_id e, e_par e, e_h e)) x)).
    { intros x. rewrite map_map. reflexivity. }
    rewrite (E l'), (E l), Hm. reflexivity. }
  assert (G : forall a b : list ent,
             map (fun e => (e_id e, e_par e, e_h e)) a = map (fun e => (e_id e, e_par e, e_h e)) b ->
             (forall e, In e a -> (e_act e = true <-> is_act l' (e_id e))) ->
             (forall e, In e b -> (e_act e = true <-> is_act l (e_id e))) -> a = b).
  { induction a as [|x a IH]; intros b Hab Ha Hb; destruct b as [|y b]; cbn in Hab; try discriminate; [reflexivity|].
    inversion Hab. f_equal; [|apply IH; [assumption|intros; apply Ha; right; assumption|intros; apply Hb; right; assumption]].
    destruct x as [[[xi xp] xh] xa], y as [[[yi yp] yh] ya]. unfold e_id, e_par, e_h in *. cbn in *. subst.
    f_equal. specialize (Ha (yi, yp, yh, xa) (or_introl eq_refl)). specialize (Hb (yi, yp, yh, ya) (or_introl eq_refl)).
    cbn in Ha, Hb. rewrite Hact in Ha. destruct xa, ya; try reflexivity.
    - symmetry. apply Hb. apply Ha. reflexivity.
    - apply Ha. apply Hb. reflexivity. }
  apply G; [exact Hm| |].
  - intros e Hin. split.
    + intros Ha. exists e. split; [apply cfind_in; assumption|exact Ha].
    + intros (e2 & He2 & Ha2). rewrite (cfind_in _ _ NDp Hin) in He2. inversion He2; subst. exact Ha2.
  - intros e Hin. split.
    + intros Ha. exists e. split; [apply cfind_in; assumption|exact Ha].
    + intros (e2 & He2 & Ha2). rewrite (cfind_in _ _ ND Hin) in He2. inversion He2; subst. exact Ha2.
Qed.

Theorem setState_failure_P_unchanged : forall base s to s',
    quiet s -> canon base s -> c_setState s to = Ok (s', false) ->
    cores s' = cores s /\ Permutation (pst _ _ s') (pst _ _ s).
Proof.
  intros base s to s' Q C H.
  destruct (setState_applied_exactly _ _ _ _ Q H) as (Q' & _ & _ & Hf). destruct (Hf eq_refl) as (_ & _ & Hact).
  pose proof (static_setState _ _ _ _ H) as Hs.
  assert (Hc : cores s' = cores s).
  { apply cores_eq_of_act; [|destruct Q as ((ND & _) & _); exact ND|exact Hact].
    unfold cores. rewrite !map_map.
    assert (E : forall x : list (blk ccmd), map (fun b => (e_id (core b), e_par (core b), e_h (core b))) x
                                         = map (fun t : N * N * Z * list (list ccmd) => fst t) (map (static ccmd) x)).
    { intros x. rewrite map_map. reflexivity. }
    rewrite (E (blocks _ _ s')), (E (blocks _ _ s)), Hs. reflexivity. }
  split; [exact Hc|].
  pose proof (canon_setState _ _ _ _ _ C H) as [P' _]. destruct C as [P0 _].
  eapply perm_trans; [exact P'|]. eapply perm_trans; [|symmetry; exact P0].
  apply Permutation_app_tail. rewrite (active_items_ext _ _ Hc Hs). reflexivity.
Qed.

(** ** C01: the protecting state is a function of the active chain *)
Definition gs_of (s : cst) (j : N) : list (list ccmd) :=
  match find ccmd (blocks _ _ s) j with Some b => b_gs _ b | None => [] end.
(** the payloads (command groups) of tip, parent(tip), ..., root *)
Definition chain_gs (s : cst) : list (list (list ccmd)) := map (gs_of s) (chain s).

Lemma active_items_filter : forall l : list (blk ccmd),
    active_items l = flat_map (fun b => block_items (b_gs _ b)) (filter (b_act ccmd) l).
Proof.
  induction l as [|b r IH]; [reflexivity|]. cbn [active_items flat_map filter]. fold (active_items r). rewrite IH.
  destruct (b_act ccmd b); reflexivity.
Qed.
Lemma flat_map_perm : forall (A B : Type) (f : A -> list B) l l', Permutation l l' -> Permutation (flat_map f l) (flat_map f l').
Proof.
  intros A B f l l' H. induction H; cbn.
  - constructor.
  - apply Permutation_app_head. assumption.
  - rewrite !app_assoc. apply Permutation_app_tail. apply Permutation_app_comm.
  - eapply perm_trans; eassumption.
Qed.
Lemma find_in_blocks : forall (l : list (blk ccmd)) b, NoDup (ids l) -> In b l -> find ccmd l (b_id _ b) = Some b.
Proof.
  induction l as [|h r IH]; intros b ND HI; [destruct HI|]. cbn in ND. inversion ND as [|? ? Hn ND']; subst.
  cbn. destruct HI as [HI|HI].
  - subst. rewrite N.eqb_refl. reflexivity.
  - destruct (N.eqb (b_id ccmd h) (b_id ccmd b)) eqn:E.
    + apply N.eqb_eq in E. exfalso. apply Hn. rewrite E. apply in_map. exact HI.
    + apply IH; assumption.
Qed.
Lemma find_some_in : forall (l : list (blk ccmd)) i b, find ccmd l i = Some b -> In b l /\ b_id _ b = i.
Proof.
  induction l as [|h r IH]; intros i b H; cbn in H; [discriminate|].
  destruct (N.eqb (b_id ccmd h) i) eqn:E.
  - inversion H; subst. apply N.eqb_eq in E. split; [left; reflexivity|exact E].
  - apply IH in H. destruct H. split; [right; assumption|assumption].
Qed.

Definition found (s : cst) (js : list N) : list (blk ccmd) :=
  flat_map (fun j => match find ccmd (blocks _ _ s) j with Some b => [b] | None => [] end) js.
Lemma found_items : forall s js,
    flat_map block_items (map (gs_of s) js) = flat_map (fun b => block_items (b_gs _ b)) (found s js).
Proof.
  intros s js. unfold found. induction js as [|j r IH]; [reflexivity|]. cbn. rewrite flat_map_app, IH. unfold gs_of.
  destruct (find ccmd (blocks pstate ccmd s) j); cbn; [rewrite app_nil_r|]; reflexivity.
Qed.
Lemma found_nodup : forall s js, NoDup js -> NoDup (found s js).
Proof.
  intros s js. unfold found. induction js as [|j r IH]; intros NDc; [constructor|].
  inversion NDc as [|? ? Hn NDr]; subst. cbn. destruct (find ccmd (blocks pstate ccmd s) j) as [b|] eqn:F; cbn; [|apply IH; exact NDr].
  constructor; [|apply IH; exact NDr]. intro Hin. apply Hn. apply in_flat_map in Hin. destruct Hin as (k & Hk & Hb).
  destruct (find ccmd (blocks pstate ccmd s) k) as [b2|] eqn:F2; [|destruct Hb]. destruct Hb as [<-|[]].
  apply find_some_in in F. apply find_some_in in F2. destruct F, F2. congruence.
Qed.

Theorem active_items_chain : forall s,
    quiet s -> Permutation (active_items (blocks _ _ s)) (flat_map block_items (chain_gs s)).
Proof.
  intros s Q. pose proof (applied_exactly s Q) as AE. destruct Q as (W & Ta & Hn).
  pose proof W as (ND & _).
  assert (NDi : NoDup (ids (blocks _ _ s))).
  { unfold ids. unfold cores in ND. rewrite map_map in ND. exact ND. }
  rewrite active_items_filter. unfold chain_gs.
  rewrite found_items. apply flat_map_perm.
  assert (NDc : NoDup (chain s)).
  { unfold chain. apply anc_list_active; [exact W|exact Ta|].
    assert (0 <= hgt (cores s) (tip _ _ s) - hgt (cores s) (root _ _ s)).
    { destruct W as (_ & (hr & HR) & _ & HN0). apply cfind_some in HR. destruct HR as [_ Hin].
      assert (In (root pstate ccmd s, root pstate ccmd s, hr, true) (filter e_act (cores s))) by (apply filter_In; split; [exact Hin|reflexivity]).
      assert (1 <= nact (cores s))%nat by (unfold nact; destruct (filter e_act (cores s)); [destruct H|cbn; lia]).
      assert (1 <= Z.of_N (napp pstate ccmd s)) by (rewrite HN0, nat_N_Z; lia). lia. }
    rewrite Z2Nat.id by lia. lia. }
  apply NoDup_Permutation.
  - apply (NoDup_map_inv (b_id ccmd)).
    assert (S : forall l : list (blk ccmd), NoDup (map (b_id ccmd) l) -> NoDup (map (b_id ccmd) (filter (b_act ccmd) l))).
    { induction l as [|x r IH]; intros H; cbn in *; [constructor|]. inversion H as [|? ? Hnx H']; subst.
      destruct (b_act ccmd x); cbn; [|apply IH; exact H']. constructor; [|apply IH; exact H'].
      intro Hin. apply Hnx. apply in_map_iff in Hin. destruct Hin as (y & Hy & Hin). apply filter_In in Hin. destruct Hin.
      apply in_map_iff. exists y. split; assumption. }
    apply S. exact NDi.
  - apply found_nodup. exact NDc.
  - intros b. unfold found. rewrite filter_In, in_flat_map. split.
    + intros [Hin Ha]. exists (b_id ccmd b). pose proof (find_in_blocks _ _ NDi Hin) as F. rewrite F. split; [|left; reflexivity].
      apply AE. exists (core b). split; [apply find_cfind; exact F|exact Ha].
    + intros (j & Hj & Hb). destruct (find ccmd (blocks pstate ccmd s) j) as [b2|] eqn:F; [|destruct Hb]. destruct Hb as [<-|[]].
      apply AE in Hj. destruct Hj as (e & He & Ha). rewrite (find_cfind _ _ _ F) in He. inversion He; subst e.
      apply find_some_in in F. destruct F. split; [assumption|exact Ha].
Qed.

(** C01: two histories (without comparisons) ending with the same active chain - the same payloads on root..tip -
    end with the same protecting state: same reference count of every SP block, same endorsement multiset.
    In particular the fresh instance that is only shown the final chain. *)
Theorem history_independence_chain : forall base r1 h1 ops1 s1 r2 h2 ops2 s2,
    no_compare ops1 -> no_compare ops2 ->
    run (c_init r1 h1 base) ops1 = Ok s1 -> run (c_init r2 h2 base) ops2 = Ok s2 ->
    chain_gs s1 = chain_gs s2 ->
    Permutation (pst _ _ s1) (pst _ _ s2) /\ (forall x, count_ref x (pst _ _ s1) = count_ref x (pst _ _ s2)).
Proof.
  intros base r1 h1 ops1 s1 r2 h2 ops2 s2 N1 N2 R1 R2 Hc.
  apply history_independence_applied with (base := base).
  - exists r1, h1, ops1. exact R1.
  - exists r2, h2, ops2. exact R2.
  - eapply perm_trans; [apply active_items_chain; eapply quiet_run; [exact N1|apply quiet_init|exact R1]|].
    rewrite Hc. symmetry. apply active_items_chain. eapply quiet_run; [exact N2|apply quiet_init|exact R2].
Qed.

Theorem applied_exactly_run : forall base r h ops s,
    no_compare ops -> run (c_init r h base) ops = Ok s ->
    quiet s /\ forall j, is_act (cores s) j <-> In j (chain s).
Proof.
  intros base r h ops s NC R. assert (Q : quiet s) by (eapply quiet_run; [exact NC|apply quiet_init|exact R]).
  split; [exact Q|apply applied_exactly; exact Q].
Qed.
