(** POP state machine — two applied chains (comparePopScore applies the candidate next to the active chain):
    monotonicity of command groups, the applied set as a list of ids. *)
From Coq Require Import List ZArith NArith Bool Lia Permutation.
Import ListNotations.
From VB Require Import Pop.SmDefs Pop.SmProofs Pop.SmWf Pop.SmTruth Pop.SmCmp Pop.SmAll Pop.SmCoh Pop.SmFull Pop.SmMarks Pop.SmTree Pop.SmReact Pop.SmAbort.
Local Open Scope Z_scope.

(** ** more items in P never make a command group fail *)
Lemma mem_app_l : forall x p e, mem x p = true -> mem x (p ++ e) = true.
Proof. intros x p e H. unfold mem in *. rewrite existsb_app, H. reflexivity. Qed.

Lemma cexec_mono : forall c p p' e, cexec c p = Some p' -> cexec c (p ++ e) = Some (p' ++ e).
Proof.
  intros [v par|en cn b|v|] p p' e H; cbn in *.
  - destruct (mem (IRef v) p || mem (IRef par) p) eqn:M; inversion H; subst.
    assert (mem (IRef v) (p ++ e) || mem (IRef par) (p ++ e) = true).
    { apply orb_true_iff in M. apply orb_true_iff. destruct M as [M|M]; [left|right]; apply mem_app_l; exact M. }
    rewrite H0. reflexivity.
  - destruct (mem (IRef b) p) eqn:M; inversion H; subst. rewrite (mem_app_l _ _ e M). reflexivity.
  - destruct (mem (IRef v) p) eqn:M; inversion H; subst. rewrite (mem_app_l _ _ e M). reflexivity.
  - discriminate.
Qed.
Lemma gexec_mono : forall todo done done' p p' e,
    gexec pstate ccmd cexec cunexec done todo p = (p', true) ->
    gexec pstate ccmd cexec cunexec done' todo (p ++ e) = (p' ++ e, true).
Proof.
  induction todo as [|c r IH]; intros done done' p p' e H; cbn in H |- *.
  - inversion H; subst. reflexivity.
  - destruct (cexec c p) as [p1|] eqn:E; [|discriminate]. rewrite (cexec_mono _ _ _ e E). eapply IH. exact H.
Qed.
Lemma gsexec_mono : forall todo done done' p p' e,
    gsexec pstate ccmd cexec cunexec done todo p = (p', true) ->
    gsexec pstate ccmd cexec cunexec done' todo (p ++ e) = (p' ++ e, true).
Proof.
  induction todo as [|g r IH]; intros done done' p p' e H; cbn in H |- *.
  - inversion H; subst. reflexivity.
  - destruct (group_execute pstate ccmd cexec cunexec g p) as [p1 ok] eqn:E. destruct ok; [|discriminate].
    unfold group_execute in *. rewrite (gexec_mono _ _ [] _ _ e E). eapply IH. exact H.
Qed.

(** ** the effects of the applied blocks, from any duplicate-free list of exactly the applied ids *)
Lemma active_items_ids : forall s L,
    wf s -> NoDup L -> (forall j, is_act (cores s) j <-> In j L) ->
    Permutation (active_items (blocks _ _ s)) (flat_map block_items (map (gs_of s) L)).
Proof.
  intros s L W NDc AE. pose proof W as (ND & _).
  assert (NDi : NoDup (ids (blocks _ _ s))) by (unfold ids; unfold cores in ND; rewrite map_map in ND; exact ND).
  rewrite active_items_filter. rewrite found_items. apply flat_map_perm.
  apply NoDup_Permutation.
  - apply (NoDup_map_inv (b_id ccmd)).
    assert (S : forall l : list (blk ccmd), NoDup (map (b_id ccmd) l) -> NoDup (map (b_id ccmd) (filter (b_act ccmd) l))).
    { induction l as [|x r IH]; intros H; cbn in *; [constructor|]. inversion H as [|? ? Hnx H']; subst.
      destruct (b_act ccmd x); cbn; [|apply IH; exact H']. constructor; [|apply IH; exact H'].
      intro Hin. apply Hnx. apply in_map_iff in Hin. destruct Hin as (y & Hy & Hin). apply filter_In in Hin. destruct Hin.
      apply in_map_iff. exists y. split; assumption. }
    apply S. exact NDi.
  - apply found_nodup. exact NDc.
  - intros b. unfold found. rewrite filter_In, in_flat_map. split.
    + intros [Hin Ha]. exists (b_id ccmd b). pose proof (find_in_blocks _ _ NDi Hin) as F. rewrite F. split; [|left; reflexivity].
      apply AE. exists (core b). split; [apply find_cfind; exact F|exact Ha].
    + intros (j & Hj & Hb). destruct (find ccmd (blocks pstate ccmd s) j) as [b2|] eqn:F; [|destruct Hb]. destruct Hb as [<-|[]].
      apply AE in Hj. destruct Hj as (e & He & Ha). rewrite (find_cfind _ _ _ F) in He. inversion He; subst e.
      apply find_some_in in F. destruct F. split; [assumption|exact Ha].
Qed.

Lemma NoDup_append : forall (A : Type) (l1 l2 : list A),
    NoDup l1 -> NoDup l2 -> (forall x, In x l1 -> In x l2 -> False) -> NoDup (l1 ++ l2).
Proof.
  intros A l1. induction l1 as [|x r IH]; intros l2 N1 N2 D; cbn; [exact N2|]. inversion N1 as [|? ? Hn N1']; subst.
  constructor.
  - intro Hin. apply in_app_or in Hin. destruct Hin as [Hin|Hin]; [exact (Hn Hin)|exact (D x (or_introl eq_refl) Hin)].
  - apply IH; [exact N1'|exact N2|]. intros y Hy1 Hy2. exact (D y (or_intror Hy1) Hy2).
Qed.

Lemma incl_perm_split : forall (A : Type) (Lp L : list A), NoDup Lp -> incl Lp L -> exists rest, Permutation L (Lp ++ rest).
Proof.
  intros A Lp. induction Lp as [|x r IH]; intros L ND Hi; [exists L; reflexivity|].
  inversion ND as [|? ? Hn ND']; subst.
  assert (Hx : In x L) by (apply Hi; left; reflexivity). apply in_split in Hx. destruct Hx as (l1 & l2 & ->).
  destruct (IH (l1 ++ l2) ND') as (rest & Hp).
  { intros y Hy. assert (In y (l1 ++ x :: l2)) by (apply Hi; right; exact Hy). apply in_app_or in H. apply in_or_app.
    destruct H as [H|[H|H]]; [left; exact H|subst; contradiction|right; exact H]. }
  exists rest. cbn. eapply perm_trans; [apply Permutation_sym; apply Permutation_middle|]. constructor. exact Hp.
Qed.

(** the command groups of a fully valid block succeed whenever its parent's chain is applied - whatever else is *)
Lemma groups_succeed_sub : forall base s p x b,
    wf s -> canon base s -> truthful base s -> is_act (cores s) p ->
    0 <= hgt (cores s) p - hgt (cores s) (root _ _ s) ->
    bfind (blocks _ _ s) x = Some b -> b_par _ b = p -> x <> root _ _ s -> N.le L_FULL (b_lvl _ b) ->
    exists p', gsexec pstate ccmd cexec cunexec [] (b_gs _ b) (pst _ _ s) = (p', true).
Proof.
  intros base s p x b W C T Hpa Hd0 Fb Hp Hxr Hl.
  pose proof (find_cfind _ _ _ Fb) as Cb. pose proof (find_some_in _ _ _ Fb) as [Hin Hid].
  pose proof (wf_parent_height _ _ _ W Cb Hxr) as Hph. change (e_par (core b)) with (b_par ccmd b) in Hph. rewrite Hp in Hph.
  assert (Hl' : N.leb L_FULL (b_lvl ccmd b) = true) by (apply N.leb_le; exact Hl).
  destruct (T b Hin Hl') as (p' & Hp'). rewrite Hid in Hp'.
  assert (Hd : depth s x = S (depth s p)).
  { unfold depth. rewrite Hph.
    replace (hgt (cores s) p + 1 - hgt (cores s) (root pstate ccmd s)) with (Z.succ (hgt (cores s) p - hgt (cores s) (root pstate ccmd s))) by lia.
    rewrite Z2Nat.inj_succ by lia. reflexivity. }
  rewrite Hd in Hp'. unfold bgs in Hp'. cbn [anc_list map rev] in Hp'.
  assert (Hpar : parent (cores s) x = p) by (unfold parent; rewrite Cb; exact Hp).
  rewrite Hpar in Hp'. fold (bgs s (depth s p) p) in Hp'. rewrite replay_app in Hp'.
  destruct (replay (bgs s (depth s p) p) base) as [pr0|] eqn:Hr0; [|discriminate].
  assert (Hg : gs_of s x = b_gs ccmd b) by (unfold gs_of; rewrite Fb; reflexivity).
  rewrite Hg in Hp'. cbn in Hp'.
  destruct (gsexec pstate ccmd cexec cunexec [] (b_gs ccmd b) pr0) as [q ok] eqn:E. destruct ok; [|discriminate].
  (* the applied ids: the chain of p plus the rest *)
  destruct (anc_list_active s (depth s p) p W Hpa) as [AL NDp].
  { unfold depth. rewrite Z2Nat.id by exact Hd0. lia. }
  pose proof W as (ND & _).
  assert (Hincl : incl (anc_list (cores s) (depth s p) p) (act_ids (cores s))).
  { intros j Hj. apply (act_ids_in _ _ ND). apply AL. exact Hj. }
  destruct (incl_perm_split _ _ _ NDp Hincl) as (rest & HP).
  assert (NDL : NoDup (anc_list (cores s) (depth s p) p ++ rest)) by (eapply Permutation_NoDup; [exact HP|apply act_ids_nodup; exact ND]).
  assert (AE : forall j, is_act (cores s) j <-> In j (anc_list (cores s) (depth s p) p ++ rest)).
  { intros j. rewrite <- (act_ids_in _ _ ND). split; intro Hj; [eapply Permutation_in; [exact HP|exact Hj]|eapply Permutation_in; [symmetry; exact HP|exact Hj]]. }
  pose proof (active_items_ids s _ W NDL AE) as HA. rewrite map_app, flat_map_app in HA.
  set (extra := flat_map block_items (map (gs_of s) rest)) in *.
  assert (HPp : Permutation (pr0 ++ extra) (pst _ _ s)).
  { destruct C as [CP _]. symmetry. eapply perm_trans; [exact CP|]. eapply perm_trans; [apply Permutation_app_tail; exact HA|].
    rewrite <- app_assoc. eapply perm_trans; [apply Permutation_app_head; apply Permutation_app_comm|]. rewrite app_assoc.
    apply Permutation_app_tail. symmetry. eapply perm_trans; [apply replay_items; exact Hr0|].
    apply Permutation_app_tail. unfold bgs. apply flat_map_rev_perm. }
  pose proof (gsexec_mono _ [] [] _ _ extra E) as E2.
  destruct (gsexec_perm _ [] [] _ _ _ HPp E2) as (q' & E' & _). exists q'. exact E'.
Qed.

Lemma anc_at_ss : forall (l l' : list cblk) fuel i h,
    same_static (map core l) (map core l') -> anc_at ccmd l' fuel i h = anc_at ccmd l fuel i h.
Proof.
  intros l l' fuel. induction fuel as [|f IH]; intros i h S; cbn;
    pose proof (S i) as Si; unfold sfind in Si; rewrite !cfind_core in Si;
    destruct (bfind l i) as [b|], (bfind l' i) as [b'|]; cbn in Si; try discriminate; try reflexivity;
    inversion Si as [[Hp Hh]]; change (e_h (core b')) with (b_h ccmd b') in Hh; change (e_h (core b)) with (b_h ccmd b) in Hh;
    change (e_par (core b')) with (b_par ccmd b') in Hp; change (e_par (core b)) with (b_par ccmd b) in Hp; rewrite Hh; try reflexivity.
  rewrite Hp. destruct (Z.eqb (b_h ccmd b) h); [reflexivity|]. destruct (Z.ltb (b_h ccmd b) h); [reflexivity|]. apply IH. exact S.
Qed.

Lemma oac_ss : forall s s' x,
    same_static (cores s) (cores s') -> tip _ _ s' = tip _ _ s -> length (blocks _ _ s') = length (blocks _ _ s) ->
    on_active_chain pstate ccmd s' x = on_active_chain pstate ccmd s x.
Proof.
  intros s s' x S T L. unfold on_active_chain, fuel_of. rewrite T, L.
  pose proof (S x) as Sx. unfold sfind, cores in Sx. rewrite !cfind_core in Sx.
  destruct (bfind (blocks pstate ccmd s) x) as [b|], (bfind (blocks pstate ccmd s') x) as [b'|]; cbn in Sx; try discriminate; try reflexivity.
  inversion Sx as [[Hp Hh]]. change (e_h (core b')) with (b_h ccmd b') in Hh. change (e_h (core b)) with (b_h ccmd b) in Hh. rewrite Hh.
  rewrite (anc_at_ss _ _ _ _ _ S). reflexivity.
Qed.

(** ** the state while the candidate chain is applied next to the active chain *)
Section Twin.
  Variable base : pstate.
  Variable s0 : cst.
  Hypothesis G0 : good base s0.
  Variables (c fork : N) (ka kb : nat).
  Notation l0 := (cores s0).
  Notation t := (tip pstate ccmd s0).
  Notation r0 := (root pstate ccmd s0).
  Variable ec : ent.
  Hypothesis Hc : cfind l0 c = Some ec.
  Hypothesis Hf1 : fork = up l0 ka t.
  Hypothesis Hf2 : fork = up l0 kb c.
  Hypothesis Ka : Z.of_nat ka <= dep s0 t.
  Hypothesis Kb : Z.of_nat kb <= dep s0 c.
  Hypothesis Hmax : forall g i j, g = up l0 i t -> g = up l0 j c -> Z.of_nat i <= dep s0 t -> Z.of_nat j <= dep s0 c ->
                                  hgt l0 g <= hgt l0 fork.

  Let W0 : wf s0 := proj1 (proj1 G0).
  Let K0 : scoh s0 := proj1 (proj2 (proj2 G0)).

  Lemma t_found : exists et, cfind l0 t = Some et.
  Proof. pose proof (proj1 G0) as Q. destruct Q as (_ & (e & He & _) & _). exists e. exact He. Qed.

  Lemma hgt_t : forall i, Z.of_nat i <= dep s0 t -> hgt l0 (up l0 i t) = hgt l0 t - Z.of_nat i.
  Proof. intros i Hi. destruct t_found as (et & Het). exact (proj1 (up_hgt_dep s0 t et i W0 K0 Het Hi)). Qed.
  Lemma hgt_c : forall i, Z.of_nat i <= dep s0 c -> hgt l0 (up l0 i c) = hgt l0 c - Z.of_nat i.
  Proof. intros i Hi. exact (proj1 (up_hgt_dep s0 c ec i W0 K0 Hc Hi)). Qed.
  Lemma hgt_fork_t : hgt l0 fork = hgt l0 t - Z.of_nat ka.
  Proof. rewrite Hf1. apply hgt_t. exact Ka. Qed.
  Lemma hgt_fork_c : hgt l0 fork = hgt l0 c - Z.of_nat kb.
  Proof. rewrite Hf2. apply hgt_c. exact Kb. Qed.

  (* a block strictly above the fork on the candidate branch is not an ancestor-or-self of the tip *)
  Lemma branches_disjoint : forall i k, (i < kb)%nat -> Z.of_nat k <= dep s0 t -> up l0 i c <> up l0 k t.
  Proof.
    intros i k Hi Hk Heq. pose proof (Hmax (up l0 k t) k i eq_refl (eq_sym Heq) Hk ltac:(lia)) as Hle.
    rewrite <- Heq, hgt_c, hgt_fork_c in Hle by lia. lia.
  Qed.

  Definition twin (s : cst) (ia ib : nat) : Prop :=
    frame s0 s /\ ginv base s /\ (ia <= ka)%nat /\ (ib <= kb)%nat /\
    (forall k, is_act (cores s) (up l0 (ia + k) t)) /\
    (forall i, (ib <= i < kb)%nat -> is_act (cores s) (up l0 i c)) /\
    Z.of_N (napp _ _ s) = (hgt l0 t - Z.of_nat ia - hgt l0 r0 + 1) + Z.of_nat (kb - ib).

  Lemma twin_exact : forall s ia ib, twin s ia ib ->
      forall j, is_act (cores s) j -> (exists k, j = up l0 (ia + k) t) \/ (exists i, (ib <= i < kb)%nat /\ j = up l0 i c).
  Proof.
    intros s ia ib (F & G & Hia & Hib & HA & HB & Hn) j Hj.
    pose proof G as ((W & _) & _ & _). pose proof (fr_static _ _ F) as S.
    pose proof (fun x => hgt_static _ _ x S) as HS.
    set (a := up l0 ia t).
    assert (Haa : is_act (cores s) a) by (unfold a; replace ia with (ia + 0)%nat by lia; apply HA).
    assert (Hha : hgt l0 a = hgt l0 t - Z.of_nat ia) by (apply hgt_t; lia).
    destruct t_found as (et & Het). destruct (dep_facts s0 t et W0 K0 Het) as (Dt0 & _ & _).
    set (na := Z.to_nat (hgt l0 t - Z.of_nat ia - hgt l0 r0)).
    assert (Hna : Z.of_nat na = hgt l0 t - Z.of_nat ia - hgt l0 r0) by (unfold na, dep in *; rewrite Z2Nat.id; lia).
    destruct (anc_list_active s na a W Haa) as [AL NDA].
    { rewrite (fr_root _ _ F), !HS. lia. }
    rewrite (anc_list_static _ _ na a S) in AL, NDA.
    set (LB := map (fun i => up l0 i c) (seq ib (kb - ib))).
    assert (NDB : NoDup LB).
    { unfold LB. apply NoDup_map_inj_in; [|apply seq_NoDup]. intros x y Hx Hy Hxy. apply in_seq in Hx. apply in_seq in Hy.
      pose proof (hgt_c x ltac:(lia)) as E1. pose proof (hgt_c y ltac:(lia)) as E2. rewrite Hxy in E1. lia. }
    assert (HinA : forall x, In x (anc_list l0 na a) -> exists k, (k <= na)%nat /\ x = up l0 (ia + k) t).
    { intros x Hx. destruct (anc_list_up _ _ _ _ Hx) as (k & Hk & ->). exists k. split; [exact Hk|]. unfold a. rewrite up_add. reflexivity. }
    assert (NDL : NoDup (anc_list l0 na a ++ LB)).
    { apply NoDup_append; [exact NDA|exact NDB|]. intros x Hx1 Hx2. destruct (HinA x Hx1) as (k & Hk & Ex).
      unfold LB in Hx2. apply in_map_iff in Hx2. destruct Hx2 as (i & Ei & Hi). apply in_seq in Hi.
      apply (branches_disjoint i (ia + k)); [lia|unfold dep in *; lia|congruence]. }
    pose proof W as (ND & _ & _ & HN).
    assert (Hincl : incl (anc_list l0 na a ++ LB) (act_ids (cores s))).
    { intros x Hx. apply (act_ids_in _ _ ND). apply in_app_or in Hx. destruct Hx as [Hx|Hx].
      - destruct (HinA x Hx) as (k & _ & ->). apply HA.
      - unfold LB in Hx. apply in_map_iff in Hx. destruct Hx as (i & <- & Hi). apply in_seq in Hi. apply HB. lia. }
    assert (Hlen : (length (act_ids (cores s)) <= length (anc_list l0 na a ++ LB))%nat).
    { rewrite app_length, anc_list_length. unfold LB. rewrite map_length, seq_length. unfold act_ids. rewrite map_length. fold (nact (cores s)).
      assert (Z.of_nat (nact (cores s)) = Z.of_N (napp pstate ccmd s)) by (rewrite HN, nat_N_Z; reflexivity). lia. }
    apply (act_ids_in _ _ ND) in Hj.
    pose proof (NoDup_length_incl NDL Hlen Hincl j Hj) as Hin. apply in_app_or in Hin. destruct Hin as [Hin|Hin].
    - left. destruct (HinA j Hin) as (k & _ & ->). exists k. reflexivity.
    - right. unfold LB in Hin. apply in_map_iff in Hin. destruct Hin as (i & <- & Hi). apply in_seq in Hi. exists i. split; [lia|reflexivity].
  Qed.

  (** generic facts about a twin state *)
  Lemma c_not_root : forall i, (i < kb)%nat -> up l0 i c <> r0.
  Proof. intros i Hi. destruct (dep_facts s0 c ec W0 K0 Hc) as (_ & _ & Hmin). apply Hmin. lia. Qed.
  Lemma t_not_root : forall i, (i < ka)%nat -> up l0 i t <> r0.
  Proof. intros i Hi. destruct t_found as (et & Het). destruct (dep_facts s0 t et W0 K0 Het) as (_ & _ & Hmin). apply Hmin. lia. Qed.

  Lemma up_t_cases : forall k, (Z.of_nat k <= dep s0 t /\ hgt l0 (up l0 k t) = hgt l0 t - Z.of_nat k) \/ up l0 k t = r0.
  Proof.
    intros k. destruct (Z_le_gt_dec (Z.of_nat k) (dep s0 t)) as [l|g]; [left; split; [exact l|apply hgt_t; exact l]|right].
    destruct t_found as (et & Het). eapply up_beyond; try eassumption. lia.
  Qed.

  Lemma c_vs_t : forall i k, (i < kb)%nat -> up l0 i c <> up l0 k t.
  Proof.
    intros i k Hi. destruct (up_t_cases k) as [[Hk _]|Hr]; [apply branches_disjoint; assumption|]. rewrite Hr. apply c_not_root. exact Hi.
  Qed.

  Lemma static_parent : forall s x, frame s0 s -> parent (cores s) x = parent l0 x.
  Proof. intros s x F. apply parent_static. exact (fr_static _ _ F). Qed.

  Lemma twin_find : forall s x, frame s0 s -> (exists e, cfind l0 x = Some e) -> exists b, bfind (blocks _ _ s) x = Some b /\ b_par _ b = parent l0 x /\ b_h _ b = hgt l0 x.
  Proof.
    intros s x F (e & He). pose proof (fr_static _ _ F x) as Sx. unfold sfind in Sx. rewrite He in Sx.
    destruct (cfind (cores s) x) as [e'|] eqn:He'; [|discriminate]. cbn in Sx. inversion Sx as [[Hp Hh]].
    destruct (core_find _ _ _ He') as (b & Fb & Cb). exists b. split; [exact Fb|]. unfold parent, hgt. rewrite He. rewrite <- Cb in Hp, Hh. split; [exact Hp|exact Hh].
  Qed.

  Lemma up_c_found : forall i, (i <= kb)%nat -> exists e, cfind l0 (up l0 i c) = Some e.
  Proof. intros i Hi. apply (up_hgt_dep s0 c ec i W0 K0 Hc). lia. Qed.
  Lemma up_t_found : forall i, (i <= ka)%nat -> exists e, cfind l0 (up l0 i t) = Some e.
  Proof. intros i Hi. destruct t_found as (et & Het). apply (up_hgt_dep s0 t et i W0 K0 Het). lia. Qed.

  (* the parent of the B-top is applied *)
  Lemma twin_parent_act : forall s ia ib, twin s ia (S ib) -> is_act (cores s) (up l0 (S ib) c).
  Proof.
    intros s ia ib (F & G & Hia & Hib & HA & HB & Hn). destruct (Nat.eq_dec (S ib) kb) as [e|n].
    - rewrite e, <- Hf2, Hf1. replace ka with (ia + (ka - ia))%nat by lia. apply HA.
    - apply HB. lia.
  Qed.

  (** no applied child, in a twin state, of a block that is a top of one of the two chains *)
  Lemma twin_no_child : forall s ia ib x, twin s ia ib -> x <> r0 ->
      (forall k, up l0 (ia + k) t <> r0 -> parent l0 (up l0 (ia + k) t) <> x) ->
      (forall i, (ib <= i < kb)%nat -> parent l0 (up l0 i c) <> x) ->
      child_active ccmd (blocks _ _ s) x = false.
  Proof.
    intros s ia ib x T Hxr HAp HBp. pose proof T as (F & G & _). pose proof G as ((W & _) & _ & _).
    apply not_true_iff_false. intro H. unfold child_active in H. apply existsb_exists in H.
    destruct H as (cb & Hin & Hcc). apply andb_prop in Hcc. destruct Hcc as [Hcc Ac]. apply andb_prop in Hcc. destruct Hcc as [Pc Nc].
    apply N.eqb_eq in Pc.
    assert (ND : NoDup (ids (blocks _ _ s))) by (destruct W as (ND & _); unfold ids; unfold cores in ND; rewrite map_map in ND; exact ND).
    pose proof (find_in_blocks _ _ ND Hin) as Fc. pose proof (find_cfind _ _ _ Fc) as Cc.
    assert (Hca : is_act (cores s) (b_id ccmd cb)) by (exists (core cb); split; [exact Cc|exact Ac]).
    assert (Hcr : b_id ccmd cb <> r0).
    { intro Heq. destruct (wf_act_closed _ W) as (_ & Pr & _). apply Hxr. rewrite <- Pc.
      pose proof Fc as Fc2. rewrite Heq, <- (fr_root _ _ F) in Fc2. rewrite (Pr cb Fc2). apply (fr_root _ _ F). }
    assert (Hpar : parent l0 (b_id ccmd cb) = x).
    { rewrite <- (static_parent s _ F). unfold parent. rewrite Cc. exact Pc. }
    destruct (twin_exact s ia ib T _ Hca) as [(k & Hk)|(i & Hi & Hk)]; rewrite Hk in Hpar, Hcr.
    - exact (HAp k Hcr Hpar).
    - exact (HBp i Hi Hpar).
  Qed.

  Lemma parent_up_c : forall i, parent l0 (up l0 i c) = up l0 (S i) c.
  Proof. intros i. rewrite up_succ_r. reflexivity. Qed.
  Lemma parent_up_t : forall i, parent l0 (up l0 i t) = up l0 (S i) t.
  Proof. intros i. rewrite up_succ_r. reflexivity. Qed.

  (* B-part blocks are pairwise different and different from the fork *)
  Lemma c_inj : forall i j, (i <= kb)%nat -> (j <= kb)%nat -> up l0 i c = up l0 j c -> i = j.
  Proof. intros i j Hi Hj H. pose proof (hgt_c i ltac:(lia)) as E1. pose proof (hgt_c j ltac:(lia)) as E2. rewrite H in E1. lia. Qed.

  (** unapply the top of the candidate part *)
  Lemma twin_unapplyB : forall s ia ib, twin s ia ib -> (ib < kb)%nat ->
      exists s', c_unapplyBlock s (up l0 ib c) = Ok s' /\ twin s' ia (S ib).
  Proof.
    intros s ia ib T Hlt. pose proof T as (F & G & Hia & Hib & HA & HB & Hn). pose proof G as ((W & K) & _ & _).
    set (x := up l0 ib c).
    assert (Hxa : is_act (cores s) x) by (apply HB; lia).
    assert (Hxr : x <> r0) by (apply c_not_root; exact Hlt).
    destruct (is_act_find _ _ Hxa) as (b & Fb & Ab). pose proof (find_cfind _ _ _ Fb) as Cb.
    assert (Hpar : b_par ccmd b = up l0 (S ib) c).
    { rewrite <- parent_up_c. fold x. rewrite <- (static_parent s x F). unfold parent. rewrite Cb. reflexivity. }
    assert (Hpact : is_act (cores s) (up l0 (S ib) c)).
    { destruct (Nat.eq_dec (S ib) kb) as [e|n].
      - rewrite e, <- Hf2, Hf1. replace ka with (ia + (ka - ia))%nat by lia. apply HA.
      - apply HB. lia. }
    destruct (is_act_find _ _ Hpact) as (pb & Fpb & Apb). rewrite <- Hpar in Fpb.
    assert (Hnc : child_active ccmd (blocks _ _ s) x = false).
    { apply (twin_no_child s ia ib x T Hxr).
      - intros k _ Hp. rewrite parent_up_t in Hp. exact (c_vs_t ib (S (ia + k)) Hlt (eq_sym Hp)).
      - intros i Hi Hp. rewrite parent_up_c in Hp. apply c_inj in Hp; lia. }
    assert (Hn0 : napp _ _ s <> 0%N).
    { destruct t_found as (et & Het). destruct (dep_facts s0 t et W0 K0 Het) as (Dt & _). unfold dep in *. lia. }
    assert (E : exists s', c_unapplyBlock s x = Ok s').
    { unfold c_unapplyBlock, unapplyBlock. rewrite Fb. rewrite <- (fr_root _ _ F) in Hxr. apply N.eqb_neq in Hxr. rewrite Hxr. rewrite Ab. cbn [negb]. rewrite Fpb, Apb. cbn [negb].
      rewrite Hnc. apply N.eqb_neq in Hn0. rewrite Hn0. eexists. reflexivity. }
    destruct E as (s' & E). exists s'. split; [exact E|].
    destruct (unapply_core _ _ _ W E) as (W1 & C1 & N1 & R1 & T1 & _ & _).
    assert (S1 : same_static (cores s) (cores s')) by (rewrite C1; apply same_static_cupd).
    split; [eapply frame_trans; [exact F|constructor; assumption]|]. split; [eapply ginv_unapply; eassumption|].
    split; [exact Hia|]. split; [lia|]. split; [|split].
    - intros k. rewrite C1. apply is_act_cupd_other; [apply HA|right]. intro Heq. exact (c_vs_t ib (ia + k) Hlt (eq_sym Heq)).
    - intros i Hi. rewrite C1. apply is_act_cupd_other; [apply HB; lia|right]. intro Heq. apply c_inj in Heq; lia.
    - lia.
  Qed.

  (** unapply the top of the active-chain part *)
  Lemma twin_unapplyA : forall s ia ib, twin s ia ib -> (ia < ka)%nat ->
      exists s', c_unapplyBlock s (up l0 ia t) = Ok s' /\ twin s' (S ia) ib.
  Proof.
    intros s ia ib T Hlt. pose proof T as (F & G & Hia & Hib & HA & HB & Hn). pose proof G as ((W & K) & _ & _).
    set (x := up l0 ia t).
    assert (Hxa : is_act (cores s) x) by (unfold x; replace ia with (ia + 0)%nat by lia; apply HA).
    assert (Hxr : x <> r0) by (apply t_not_root; exact Hlt).
    destruct (is_act_find _ _ Hxa) as (b & Fb & Ab). pose proof (find_cfind _ _ _ Fb) as Cb.
    assert (Hpar : b_par ccmd b = up l0 (S ia) t).
    { rewrite <- parent_up_t. fold x. rewrite <- (static_parent s x F). unfold parent. rewrite Cb. reflexivity. }
    assert (Hpact : is_act (cores s) (up l0 (S ia) t)) by (replace (S ia) with (ia + 1)%nat by lia; apply HA).
    destruct (is_act_find _ _ Hpact) as (pb & Fpb & Apb). rewrite <- Hpar in Fpb.
    pose proof (hgt_t ia ltac:(lia)) as Hhx. fold x in Hhx.
    assert (Hnc : child_active ccmd (blocks _ _ s) x = false).
    { apply (twin_no_child s ia ib x T Hxr).
      - intros k Hr Hp. rewrite parent_up_t in Hp. destruct (up_t_cases (S (ia + k))) as [[Hk Hh]|Hr2].
        + rewrite Hp, Hhx in Hh. lia.
        + rewrite Hp in Hr2. exact (Hxr Hr2).
      - intros i Hi Hp. rewrite parent_up_c in Hp. destruct (Nat.eq_dec (S i) kb) as [e|n].
        + rewrite e, <- Hf2 in Hp. pose proof hgt_fork_t as Hf. rewrite Hp, Hhx in Hf. lia.
        + exact (c_vs_t (S i) ia ltac:(lia) Hp). }
    assert (Hn0 : napp _ _ s <> 0%N).
    { destruct t_found as (et & Het). destruct (dep_facts s0 t et W0 K0 Het) as (Dt & _). unfold dep in *. lia. }
    assert (E : exists s', c_unapplyBlock s x = Ok s').
    { unfold c_unapplyBlock, unapplyBlock. rewrite Fb. rewrite <- (fr_root _ _ F) in Hxr. apply N.eqb_neq in Hxr. rewrite Hxr. rewrite Ab. cbn [negb]. rewrite Fpb, Apb. cbn [negb].
      rewrite Hnc. apply N.eqb_neq in Hn0. rewrite Hn0. eexists. reflexivity. }
    destruct E as (s' & E). exists s'. split; [exact E|].
    destruct (unapply_core _ _ _ W E) as (W1 & C1 & N1 & R1 & T1 & _ & _).
    assert (S1 : same_static (cores s) (cores s')) by (rewrite C1; apply same_static_cupd).
    split; [eapply frame_trans; [exact F|constructor; assumption]|]. split; [eapply ginv_unapply; eassumption|].
    split; [lia|]. split; [exact Hib|]. split; [|split].
    - intros k. rewrite C1. apply is_act_cupd_other; [replace (S ia + k)%nat with (ia + S k)%nat by lia; apply HA|right].
      intro Heq. destruct (up_t_cases (S ia + k)) as [[Hk Hh]|Hr2]; [rewrite Heq, Hhx in Hh; lia|rewrite Heq in Hr2; exact (Hxr Hr2)].
    - intros i Hi. rewrite C1. apply is_act_cupd_other; [apply HB; exact Hi|right]. intro Heq. exact (c_vs_t i ia ltac:(lia) Heq).
    - lia.
  Qed.

  (** apply the next block of the candidate next to the active chain *)
  Lemma twin_applyB : forall s ia ib b,
      twin s ia (S ib) -> bfind (blocks _ _ s) (up l0 ib c) = Some b -> is_failed _ b = false ->
      on_active_chain pstate ccmd s (up l0 ib c) = false ->
      exists s' ok, c_applyBlock s (up l0 ib c) = Ok (s', ok) /\
                    (ok = true -> twin s' ia ib) /\ (ok = false -> twin s' ia (S ib) /\ failed_in s' (up l0 ib c)).
  Proof.
    intros s ia ib b T Fb Hnf Hoac. pose proof T as (F & G & Hia & Hib & HA & HB & Hn). pose proof G as ((W & K) & C & U).
    assert (Hlt : (ib < kb)%nat) by lia.
    set (x := up l0 ib c) in *.
    assert (Hxr : x <> r0) by (apply c_not_root; exact Hlt).
    pose proof (find_cfind _ _ _ Fb) as Cb.
    assert (Hpar : b_par ccmd b = up l0 (S ib) c).
    { rewrite <- parent_up_c. fold x. rewrite <- (static_parent s x F). unfold parent. rewrite Cb. reflexivity. }
    pose proof (twin_parent_act s ia ib T) as Hpact.
    destruct (is_act_find _ _ Hpact) as (pb & Fpb & Apb). rewrite <- Hpar in Fpb.
    assert (Hina : b_act ccmd b = false).
    { destruct (b_act ccmd b) eqn:Ab; [|reflexivity]. exfalso.
      assert (Hxa : is_act (cores s) x) by (exists (core b); split; [exact Cb|exact Ab]).
      destruct (twin_exact s ia (S ib) T _ Hxa) as [(k & Hk)|(i & Hi & Hk)].
      - exact (c_vs_t ib (ia + k) Hlt Hk).
      - apply c_inj in Hk; lia. }
    assert (Hnc : child_active ccmd (blocks _ _ s) x = false).
    { apply (twin_no_child s ia (S ib) x T Hxr).
      - intros k _ Hp. rewrite parent_up_t in Hp. exact (c_vs_t ib (S (ia + k)) Hlt (eq_sym Hp)).
      - intros i Hi Hp. rewrite parent_up_c in Hp. apply c_inj in Hp; lia. }
    assert (Hfc : b_fc ccmd b = false) by (unfold is_failed in Hnf; apply orb_false_iff in Hnf; apply Hnf).
    assert (Hfp : b_fp ccmd b = false).
    { unfold is_failed in Hnf. apply orb_false_iff in Hnf. destruct Hnf as [Hnf' _]. apply orb_false_iff in Hnf'. apply Hnf'. }
    assert (Hl2 : N.ltb (b_lvl ccmd b) L_CONNECTED = false).
    { apply N.ltb_ge. destruct K as (_ & _ & _ & _ & _ & C5). exact (C5 _ _ Fb). }
    assert (Hpl : N.le L_MAYBE (b_lvl ccmd pb)).
    { destruct K as (_ & _ & _ & _ & C3 & _). exact (proj2 (C3 _ _ Fpb Apb)). }
    assert (Hxrs : x <> root _ _ s) by (rewrite (fr_root _ _ F); exact Hxr).
    assert (E : exists s' ok, c_applyBlock s x = Ok (s', ok)).
    { unfold c_applyBlock, applyBlock. rewrite Fb. pose proof Hxrs as Hxr'. apply N.eqb_neq in Hxr'. rewrite Hxr'. rewrite Fpb, Apb. cbn [negb].
      rewrite Hina, Hnc, Hfc, Hnf, Hl2.
      destruct (gsexec pstate ccmd cexec cunexec [] (b_gs ccmd b) (pst pstate ccmd s)) as [p' okg] eqn:Eg.
      destruct okg; cbn [negb].
      - match goal with |- context [N.ltb (b_lvl ccmd b) ?u && N.ltb (b_lvl ccmd pb) ?u] => assert (Hu : N.ltb (b_lvl ccmd b) u && N.ltb (b_lvl ccmd pb) u = false) end.
        { destruct (valid_upto ccmd pb L_FULL) eqn:Vp; cbn [andb].
          - destruct (Z.eqb (b_h ccmd b) _).
            + apply andb_false_iff. right. apply N.ltb_ge. unfold valid_upto in Vp. apply andb_prop in Vp. apply N.leb_le. apply Vp.
            + apply andb_false_iff. right. apply N.ltb_ge. exact Hpl.
          - apply andb_false_iff. right. apply N.ltb_ge. exact Hpl. }
        rewrite Hu. eexists. eexists. reflexivity.
      - unfold invalidate_pop. cbn [blocks with_pst]. rewrite Fb, Hfp, Hnf.
        match goal with |- context [on_active_chain pstate ccmd ?S x] => replace (on_active_chain pstate ccmd S x) with false by (symmetry; exact Hoac) end.
        destruct (N.eqb (b_lvl ccmd b) L_FULL) eqn:El.
        + exfalso. apply N.eqb_eq in El.
          destruct (up_c_found (S ib) ltac:(lia)) as (ep & Hep).
          destruct (dep_facts s0 _ _ W0 K0 Hep) as (Dp & _).
          pose proof (fr_static _ _ F) as Sst. pose proof (fun y => hgt_static _ _ y Sst) as HS.
          destruct (groups_succeed_sub base s (up l0 (S ib) c) x b W C U Hpact) as (p'' & Eg'); try assumption.
          * rewrite (fr_root _ _ F), !HS. unfold dep in Dp. exact Dp.
          * lia.
          * rewrite Eg in Eg'. discriminate.
        + cbn [bind]. eexists. eexists. reflexivity. }
    destruct E as (s' & ok & E). exists s', ok. split; [exact E|].
    pose proof (ginv_apply _ _ _ _ _ G E) as G'.
    destruct ok.
    - split; [|discriminate]. intros _.
      destruct (apply_ok_core _ _ _ W E) as (W1 & C1 & N1 & R1 & T1 & (e0 & He0 & _)).
      assert (S1 : same_static (cores s) (cores s')) by (rewrite C1; apply same_static_cupd).
      split; [eapply frame_trans; [exact F|constructor; assumption]|]. split; [exact G'|]. split; [exact Hia|]. split; [lia|]. split; [|split].
      + intros k. rewrite C1. apply is_act_cupd_other; [apply HA|left; reflexivity].
      + intros i Hi. rewrite C1. destruct (Nat.eq_dec i ib) as [->|n].
        * fold x. exists (setact x true e0). rewrite cfind_cupd', He0. split; [reflexivity|].
          unfold setact. apply cfind_some in He0. destruct He0 as [Hid _]. rewrite Hid, N.eqb_refl. reflexivity.
        * apply is_act_cupd_other; [apply HB; lia|left; reflexivity].
      + rewrite N1. lia.
    - split; [discriminate|]. intros _.
      destruct (apply_fail_core _ _ _ E) as (C1 & N1 & R1 & T1).
      assert (W1 : wf s') by (unfold wf; rewrite C1, R1, N1; exact W).
      split; [|exact (apply_fail_failed s x s' W E)].
      split; [eapply frame_trans; [exact F|constructor; [exact W1|rewrite C1; apply same_static_refl|exact R1|exact T1]]|].
      split; [exact G'|]. split; [exact Hia|]. split; [exact Hib|]. rewrite C1, N1. split; [exact HA|split; [exact HB|exact Hn]].
  Qed.

  (** ** walks in twin states *)
  Lemma twin_blocks_len : forall s, frame s0 s -> length (blocks _ _ s) = length (blocks _ _ s0).
  Proof.
    intros s F. pose proof (fr_static _ _ F) as Sst.
    (* same ids list length: use the cores *)
    assert (H : forall j, sfind (cores s) j = sfind l0 j) by exact Sst.
    destruct F as [W _ _ _]. destruct W as (ND & _). destruct W0 as (ND0 & _).
    assert (I1 : incl (map e_id (cores s)) (map e_id l0)).
    { intros j Hj. apply in_map_iff in Hj. destruct Hj as (e & <- & He). pose proof (cfind_in _ _ ND He) as Fe.
      specialize (H (e_id e)). unfold sfind in H. rewrite Fe in H. destruct (cfind l0 (e_id e)) as [e'|] eqn:E'; [|discriminate].
      apply cfind_some in E'. destruct E' as [Hid Hin]. rewrite <- Hid. apply in_map. exact Hin. }
    assert (I2 : incl (map e_id l0) (map e_id (cores s))).
    { intros j Hj. apply in_map_iff in Hj. destruct Hj as (e & <- & He). pose proof (cfind_in _ _ ND0 He) as Fe.
      specialize (H (e_id e)). unfold sfind in H. rewrite Fe in H. destruct (cfind (cores s) (e_id e)) as [e'|] eqn:E'; [|discriminate].
      apply cfind_some in E'. destruct E' as [Hid Hin]. rewrite <- Hid. apply in_map. exact Hin. }
    pose proof (NoDup_incl_length ND I1) as L1. pose proof (NoDup_incl_length ND0 I2) as L2.
    rewrite !map_length in L1, L2. unfold cores in L1, L2. rewrite !map_length in L1, L2. lia.
  Qed.

  (* unapplyWhile on the candidate part: stops at the fork or where the predicate says so; never aborts *)
  Lemma twin_uwB : forall n s ia ib pred fuel, twin s ia ib -> (kb - ib <= n)%nat -> (n <= fuel)%nat ->
      exists s' j, unapplyWhile pstate ccmd cunexec fuel s (up l0 ib c) fork pred = Ok (s', up l0 j c) /\
                   twin s' ia j /\ (ib <= j <= kb)%nat /\ ((forall bb, pred bb = true) -> j = kb).
  Proof.
    induction n as [|n IH]; intros s ia ib pred fuel T Hn Hf.
    - pose proof T as (_ & _ & _ & Hib & _). assert (ib = kb) by lia. subst ib.
      exists s, kb. rewrite <- Hf2. split; [destruct fuel; cbn; rewrite N.eqb_refl; rewrite Hf2; reflexivity|]. split; [exact T|]. split; [lia|reflexivity].
    - pose proof T as (F & G & Hia & Hib & HA & HB & Hnn).
      destruct (Nat.eq_dec ib kb) as [->|Hne].
      { exists s, kb. rewrite <- Hf2. split; [destruct fuel; cbn; rewrite N.eqb_refl; rewrite Hf2; reflexivity|]. split; [exact T|]. split; [lia|reflexivity]. }
      destruct fuel as [|f]; [lia|]. cbn [unapplyWhile].
      assert (Hneq : N.eqb (up l0 ib c) fork = false).
      { apply N.eqb_neq. rewrite Hf2. intro Heq. apply c_inj in Heq; lia. }
      rewrite Hneq.
      destruct (twin_find s (up l0 ib c) F (up_c_found ib ltac:(lia))) as (bc & Fc & Pc & Hc').
      destruct (twin_find s fork F) as (bt & Ft & _ & Ht'). { rewrite Hf2. apply up_c_found. lia. }
      rewrite Fc, Ft.
      assert (Hlt : Z.leb (b_h ccmd bc) (b_h ccmd bt) = false).
      { apply Z.leb_gt. rewrite Hc', Ht', hgt_fork_c, hgt_c by lia. lia. }
      rewrite Hlt.
      destruct (pred bc) eqn:Hp; cbn [negb].
      + destruct (twin_unapplyB s ia ib T ltac:(lia)) as (s1 & E1 & T1).
        change (unapplyBlock pstate ccmd cunexec s (up l0 ib c)) with (c_unapplyBlock s (up l0 ib c)). rewrite E1. cbn [bind].
        rewrite Pc, parent_up_c.
        destruct (IH s1 ia (S ib) pred f T1 ltac:(lia) ltac:(lia)) as (s' & j & E' & T' & Hj & Hall).
        exists s', j. split; [exact E'|]. split; [exact T'|]. split; [lia|exact Hall].
      + exists s, ib. split; [reflexivity|]. split; [exact T|]. split; [lia|]. intros Hall. rewrite Hall in Hp. discriminate.
  Qed.

  Lemma twin_unapplyB_range : forall s ia ib, twin s ia ib ->
      exists s', unapply pstate ccmd cunexec s (up l0 ib c) fork = Ok s' /\ twin s' ia kb.
  Proof.
    intros s ia ib T. pose proof T as (F & _).
    destruct (twin_uwB (kb - ib) s ia ib (fun _ => true) (fuel_of pstate ccmd s) T (Nat.le_refl _)) as (s' & j & E & T' & _ & Hall).
    { unfold fuel_of. rewrite (twin_blocks_len s F). pose proof (dep_bound s0 c ec W0 K0 Hc). lia. }
    specialize (Hall (fun _ => eq_refl)). subst j. rewrite <- Hf2 in E.
    exists s'. unfold unapply. rewrite E. cbn. rewrite N.eqb_refl. split; [reflexivity|exact T'].
  Qed.

  Lemma twin_unapplyA_range : forall n s ia ib fuel, twin s ia ib -> (ka - ia <= n)%nat -> (n <= fuel)%nat ->
      exists s', unapplyWhile pstate ccmd cunexec fuel s (up l0 ia t) fork (fun _ => true) = Ok (s', fork) /\ twin s' ka ib.
  Proof.
    induction n as [|n IH]; intros s ia ib fuel T Hn Hf.
    - pose proof T as (_ & _ & Hia & _). assert (ia = ka) by lia. subst ia.
      exists s. rewrite <- Hf1. split; [destruct fuel; cbn; rewrite N.eqb_refl; reflexivity|exact T].
    - pose proof T as (F & G & Hia & Hib & HA & HB & Hnn).
      destruct (Nat.eq_dec ia ka) as [->|Hne].
      { exists s. rewrite <- Hf1. split; [destruct fuel; cbn; rewrite N.eqb_refl; reflexivity|exact T]. }
      destruct fuel as [|f]; [lia|]. cbn [unapplyWhile].
      assert (Hneq : N.eqb (up l0 ia t) fork = false).
      { apply N.eqb_neq. intro Heq. pose proof hgt_fork_t as Hh. rewrite <- Heq, hgt_t in Hh by lia. lia. }
      rewrite Hneq.
      destruct (twin_find s (up l0 ia t) F (up_t_found ia ltac:(lia))) as (bc & Fc & Pc & Hc').
      destruct (twin_find s fork F) as (bt & Ft & _ & Ht'). { rewrite Hf1. apply up_t_found. lia. }
      rewrite Fc, Ft.
      assert (Hlt : Z.leb (b_h ccmd bc) (b_h ccmd bt) = false).
      { apply Z.leb_gt. rewrite Hc', Ht', hgt_fork_t, hgt_t by lia. lia. }
      rewrite Hlt. cbn [negb].
      destruct (twin_unapplyA s ia ib T ltac:(lia)) as (s1 & E1 & T1).
      change (unapplyBlock pstate ccmd cunexec s (up l0 ia t)) with (c_unapplyBlock s (up l0 ia t)). rewrite E1. cbn [bind].
      rewrite Pc, parent_up_t.
      destruct (IH s1 (S ia) ib f T1 ltac:(lia) ltac:(lia)) as (s' & E' & T').
      exists s'. split; [exact E'|exact T'].
  Qed.

  (** ** applying the candidate branch next to the active chain *)
  Definition path_from (ib : nat) : list N := rev (map (fun i => up l0 i c) (seq 0 ib)).
  Lemma path_from_S : forall ib, path_from (S ib) = up l0 ib c :: path_from ib.
  Proof. intros ib. unfold path_from. rewrite seq_S, map_app, rev_app_distr. reflexivity. Qed.

  Lemma twin_oac : forall s i, frame s0 s -> (i < kb)%nat -> on_active_chain pstate ccmd s (up l0 i c) = false.
  Proof.
    intros s i F Hi. rewrite (oac_ss s0 s _ (fr_static _ _ F) (fr_tip _ _ F) (twin_blocks_len s F)).
    destruct (up_c_found i ltac:(lia)) as (ei & Hei). destruct (core_find _ _ _ Hei) as (bi & Fbi & Cbi).
    unfold on_active_chain. rewrite Fbi.
    assert (Hbh : b_h ccmd bi = hgt l0 (up l0 i c)) by (unfold hgt; rewrite Hei, <- Cbi; reflexivity).
    rewrite Hbh.
    destruct (anc_at ccmd (blocks pstate ccmd s0) (fuel_of pstate ccmd s0) t (hgt l0 (up l0 i c))) as [a|] eqn:Ea; [|reflexivity].
    apply N.eqb_neq. intro Heq. subst a.
    exact (above_fork_not_active_chain s0 t c fork ka kb i W0 K0 t_found (ex_intro _ _ Hc) Hf1 Hf2 Ka Kb Hmax Hi _ Ea).
  Qed.

  Lemma twin_apply_path : forall ib s ia, (ib <= kb)%nat -> twin s ia ib ->
      (forall i, (i < ib)%nat -> exists b, bfind (blocks _ _ s) (up l0 i c) = Some b /\ is_failed _ b = false) ->
      exists s' ok, apply_path pstate ccmd cexec cunexec s fork (path_from ib) = Ok (s', ok) /\
                    (ok = true -> twin s' ia 0) /\
                    (ok = false -> twin s' ia kb /\ exists i, (i < ib)%nat /\ failed_in s' (up l0 i c)).
  Proof.
    induction ib as [|ib IH]; intros s ia Hib T Hnf.
    - exists s, true. cbn. split; [reflexivity|]. split; [intros _; exact T|discriminate].
    - rewrite path_from_S. destruct (Hnf ib ltac:(lia)) as (b & Fb & Hf).
      pose proof T as (F & G & _).
      destruct (twin_applyB s ia ib b T Fb Hf (twin_oac s ib F ltac:(lia))) as (s1 & ok1 & E1 & Ht1 & Hf1').
      cbn [apply_path]. change (applyBlock pstate ccmd cexec cunexec s (up l0 ib c)) with (c_applyBlock s (up l0 ib c)). rewrite E1. cbn [bind].
      assert (HSb : map (static ccmd) (blocks _ _ s1) = map (static ccmd) (blocks _ _ s))
        by exact (staticInv_apply _ _ _ _ _ (eq_refl : staticInv (map (static ccmd) (blocks _ _ s)) s) E1).
      destruct ok1.
      + specialize (Ht1 eq_refl).
        destruct (IH s1 ia ltac:(lia) Ht1) as (s' & ok & E' & Ht' & Hf').
        { intros i Hi. destruct (Hnf i ltac:(lia)) as (bi & Fbi & Hfi). destruct (static_find _ _ _ bi HSb Fbi) as (bi1 & Fbi1).
          exists bi1. split; [exact Fbi1|]. rewrite (apply_ok_flags _ _ _ _ _ _ E1 Fbi Fbi1). exact Hfi. }
        exists s', ok. split; [exact E'|]. split; [exact Ht'|]. intros Hok. destruct (Hf' Hok) as (Tk & (i & Hi & Fi)). split; [exact Tk|]. exists i. split; [lia|exact Fi].
      + destruct (Hf1' eq_refl) as (T1 & Fx1). pose proof T1 as (F1 & G1 & _).
        destruct (twin_find s1 (up l0 ib c) F1 (up_c_found ib ltac:(lia))) as (bx & Fx & Px & _). rewrite Fx, Px, parent_up_c.
        destruct (twin_unapplyB_range s1 ia (S ib) T1) as (s2 & E2 & T2).
        rewrite E2. cbn [bind]. exists s2, false. split; [reflexivity|]. split; [discriminate|]. intros _. split; [exact T2|].
        exists ib. split; [lia|]. destruct Fx1 as (bx1 & Fbx1 & Hfx1).
        pose proof (md_unapply_range _ _ _ _ E2) as M2. destruct (static_find _ _ _ bx1 (proj1 M2) Fbx1) as (bx2 & Fbx2).
        exists bx2. split; [exact Fbx2|]. rewrite (proj1 (md_nobody_failed _ _ _ _ _ M2 Fbx1 Fbx2)). exact Hfx1.
  Qed.

  Lemma twin_apply : forall s ia, twin s ia kb ->
      exists s' ok, apply pstate ccmd cexec cunexec s fork c = Ok (s', ok) /\
                    (ok = true -> twin s' ia 0) /\ (ok = false -> twin s' ia kb).
  Proof.
    intros s ia T. pose proof T as (F & G & _). pose proof G as ((W & K) & _ & _).
    pose proof (fr_static _ _ F) as Sst. pose proof (fun y => hgt_static _ _ y Sst) as HS.
    destruct kb as [|m] eqn:Ekb.
    { cbn in Hf2. exists s, true. unfold apply. rewrite Hf2, N.eqb_refl. split; [reflexivity|]. split; [intros _; exact T|discriminate]. }
    rewrite <- Ekb in *.
    unfold apply.
    assert (Hab : N.eqb fork c = false).
    { apply N.eqb_neq. intro Heq. pose proof hgt_fork_c as Hh. rewrite Heq in Hh. lia. }
    rewrite Hab.
    destruct (twin_find s fork F) as (ba & Fa & _ & Ha'). { rewrite Hf2. apply up_c_found. lia. }
    destruct (twin_find s c F (ex_intro _ _ Hc)) as (bb & Fb & _ & Hb'). rewrite Fa, Fb.
    destruct (is_failed ccmd bb) eqn:Hfb.
    { exists s, false. split; [reflexivity|]. split; [discriminate|intros _; exact T]. }
    assert (Hlt : negb (Z.ltb (b_h ccmd ba) (b_h ccmd bb)) = false).
    { apply negb_false_iff. apply Z.ltb_lt. rewrite Ha', Hb', hgt_fork_c. lia. }
    rewrite Hlt.
    assert (Hn' : Z.to_nat (b_h ccmd bb - b_h ccmd ba) = kb) by (rewrite Ha', Hb', hgt_fork_c; lia). rewrite Hn'.
    assert (Hfound : forall i, (i < kb)%nat -> exists e, cfind (cores s) (up (cores s) i c) = Some e).
    { intros i Hi. rewrite (up_static _ _ i c Sst). destruct (up_c_found i ltac:(lia)) as (e & He).
      pose proof (Sst (up l0 i c)) as Sx. unfold sfind in Sx. rewrite He in Sx. destruct (cfind (cores s) (up l0 i c)); [eexists; reflexivity|discriminate]. }
    rewrite (path_up_seq s kb c Hfound).
    assert (Hrev : rev (map (fun i => up (cores s) i c) (seq 0 kb)) = path_from kb).
    { unfold path_from. f_equal. apply map_ext. intros i. apply up_static. exact Sst. }
    rewrite Hrev. rewrite Ekb, path_from_S, <- Ekb.
    assert (Hm : m = (kb - 1)%nat) by lia.
    destruct (twin_find s (up l0 m c) F (up_c_found m ltac:(lia))) as (bx & Fx & Px & _). rewrite Fx.
    assert (Hpx : N.eqb (b_par ccmd bx) fork = true).
    { apply N.eqb_eq. rewrite Px, parent_up_c, Hf2. f_equal. lia. }
    rewrite Hpx. rewrite <- path_from_S. replace (S m) with kb by lia.
    (* nothing on the candidate branch above the fork is failed *)
    assert (Cc : cfind (cores s) c = Some (core bb)) by (apply find_cfind; exact Fb).
    assert (Hnf : forall i, (i < kb)%nat -> exists b, bfind (blocks _ _ s) (up l0 i c) = Some b /\ is_failed _ b = false).
    { intros i Hi. rewrite <- (up_static _ _ i c Sst). apply (anc_valid s c bb W K Fb Hfb).
      unfold dep. rewrite (fr_root _ _ F), !HS. unfold dep in Kb. lia. }
    destruct (twin_apply_path kb s ia (Nat.le_refl _) T Hnf) as (s' & ok & E' & Ht' & Hf').
    exists s', ok. split; [exact E'|]. split; [exact Ht'|]. intros Hok. exact (proj1 (Hf' Hok)).
  Qed.

  (* the ends of the twin walks are single-chain states *)
  Lemma twin_alone_B : forall s ib, twin s ka ib -> alone s (up l0 ib c).
  Proof.
    intros s ib (F & G & _ & Hib & HA & HB & Hn). pose proof G as ((W & _) & _ & _).
    pose proof (fr_static _ _ F) as Sst. pose proof (fun y => hgt_static _ _ y Sst) as HS.
    apply alone_unfold. split; [exact W|]. split.
    - destruct (Nat.eq_dec ib kb) as [->|n]; [rewrite <- Hf2, Hf1; replace ka with (ka + 0)%nat by lia; apply HA|apply HB; lia].
    - rewrite (fr_root _ _ F), !HS, Hn, hgt_c by lia. pose proof hgt_fork_t. pose proof hgt_fork_c. lia.
  Qed.
  Lemma twin_alone_A : forall s ia, twin s ia kb -> alone s (up l0 ia t).
  Proof.
    intros s ia (F & G & Hia & _ & HA & _ & Hn). pose proof G as ((W & _) & _ & _).
    pose proof (fr_static _ _ F) as Sst. pose proof (fun y => hgt_static _ _ y Sst) as HS.
    apply alone_unfold. split; [exact W|]. split.
    - replace ia with (ia + 0)%nat by lia. apply HA.
    - rewrite (fr_root _ _ F), !HS, Hn, hgt_t by lia. replace (kb - kb)%nat with O by lia. lia.
  Qed.
  Lemma twin_init : twin s0 0 kb.
  Proof.
    pose proof G0 as (Q & C & K & T & U). pose proof Q as (W & Ta & Hn).
    split; [apply frame_refl; exact W|]. split; [split; [split; assumption|split; assumption]|]. split; [lia|]. split; [lia|].
    split; [intros k; apply chain_up_active; exact Q|]. split; [intros i Hi; lia|]. replace (kb - kb)%nat with O by lia. lia.
  Qed.
End Twin.
