(** POP state machine — two applied chains (comparePopScore applies the candidate next to the active chain):
    monotonicity of command groups, the applied set as a list of ids. *)
From Coq Require Import List ZArith NArith Bool Lia Permutation.
Import ListNotations.
From VB Require Import Pop.SmDefs Pop.SmProofs Pop.SmWf Pop.SmTruth Pop.SmCmp Pop.SmAll Pop.SmCoh Pop.SmFull Pop.SmMarks Pop.SmTree Pop.SmReact Pop.SmAbort.
Local Open Scope Z_scope.

(** ** more items in P never make a command group fail *)
Lemma mem_app_l : forall x p e, mem x p = true -> mem x (p ++ e) = true.
Proof. intros x p e H. unfold mem in *. rewrite existsb_app, H. reflexivity. Qed.

Lemma cexec_mono : forall c p p' e, cexec c p = Some p' -> cexec c (p ++ e) = Some (p' ++ e).
Proof.
  intros [v par|en cn b|v|] p p' e H; cbn in *.
  - destruct (mem (IRef v) p || mem (IRef par) p) eqn:M; inversion H; subst.
    assert (mem (IRef v) (p ++ e) || mem (IRef par) (p ++ e) = true).
    { apply orb_true_iff in M. apply orb_true_iff. destruct M as [M|M]; [left|right]; apply mem_app_l; exact M. }
    rewrite H0. reflexivity.
  - destruct (mem (IRef b) p) eqn:M; inversion H; subst. rewrite (mem_app_l _ _ e M). reflexivity.
  - destruct (mem (IRef v) p) eqn:M; inversion H; subst. rewrite (mem_app_l _ _ e M). reflexivity.
  - discriminate.
Qed.
Lemma gexec_mono : forall todo done done' p p' e,
    gexec pstate ccmd cexec cunexec done todo p = (p', true) ->
    gexec pstate ccmd cexec cunexec done' todo (p ++ e) = (p' ++ e, true).
Proof.
  induction todo as [|c r IH]; intros done done' p p' e H; cbn in H |- *.
  - inversion H; subst. reflexivity.
  - destruct (cexec c p) as [p1|] eqn:E; [|discriminate]. rewrite (cexec_mono _ _ _ e E). eapply IH. exact H.
Qed.
Lemma gsexec_mono : forall todo done done' p p' e,
    gsexec pstate ccmd cexec cunexec done todo p = (p', true) ->
    gsexec pstate ccmd cexec cunexec done' todo (p ++ e) = (p' ++ e, true).
Proof.
  induction todo as [|g r IH]; intros done done' p p' e H; cbn in H |- *.
  - inversion H; subst. reflexivity.
  - destruct (group_execute pstate ccmd cexec cunexec g p) as [p1 ok] eqn:E. destruct ok; [|discriminate].
    unfold group_execute in *. rewrite (gexec_mono _ _ [] _ _ e E). eapply IH. exact H.
Qed.

(** ** the effects of the applied blocks, from any duplicate-free list of exactly the applied ids *)
Lemma active_items_ids : forall s L,
    wf s -> NoDup L -> (forall j, is_act (cores s) j <-> In j L) ->
    Permutation (active_items (blocks _ _ s)) (flat_map block_items (map (gs_of s) L)).
Proof.
  intros s L W NDc AE. pose proof W as (ND & _).
  assert (NDi : NoDup (ids (blocks _ _ s))) by (unfold ids; unfold cores in ND; rewrite map_map in ND; exact ND).
  rewrite active_items_filter. rewrite found_items. apply flat_map_perm.
  apply NoDup_Permutation.
  - apply (NoDup_map_inv (b_id ccmd)).
    assert (S : forall l : list (blk ccmd), NoDup (map (b_id ccmd) l) -> NoDup (map (b_id ccmd) (filter (b_act ccmd) l))).
    { induction l as [|x r IH]; intros H; cbn in *; [constructor|]. inversion H as [|? ? Hnx H']; subst.
      destruct (b_act ccmd x); cbn; [|apply IH; exact H']. constructor; [|apply IH; exact H'].
      intro Hin. apply Hnx. apply in_map_iff in Hin. destruct Hin as (y & Hy & Hin). apply filter_In in Hin. destruct Hin.
      apply in_map_iff. exists y. split; assumption. }
    apply S. exact NDi.
  - apply found_nodup. exact NDc.
  - intros b. unfold found. rewrite filter_In, in_flat_map. split.
    + intros [Hin Ha]. exists (b_id ccmd b). pose proof (find_in_blocks _ _ NDi Hin) as F. rewrite F. split; [|left; reflexivity].
      apply AE. exists (core b). split; [apply find_cfind; exact F|exact Ha].
    + intros (j & Hj & Hb). destruct (find ccmd (blocks pstate ccmd s) j) as [b2|] eqn:F; [|destruct Hb]. destruct Hb as [<-|[]].
      apply AE in Hj. destruct Hj as (e & He & Ha). rewrite (find_cfind _ _ _ F) in He. inversion He; subst e.
      apply find_some_in in F. destruct F. split; [assumption|exact Ha].
Qed.
