(** C20 over ALL histories: a block that has once reported full validity (level CAN_BE_APPLIED, target of a successful
    setState, or winner of a comparison) can be activated again from EVERY later state of EVERY continuation of the
    history, unless it carries a failure mark there. *)
From Coq Require Import List ZArith NArith Bool Lia.
Import ListNotations.
From VB Require Import Pop.SmDefs Pop.SmProofs Pop.SmWf Pop.SmTruth Pop.SmCmp Pop.SmAll Pop.SmCoh Pop.SmFull Pop.SmReact Pop.SmLaterDefs.
Local Open Scope Z_scope.

Lemma run_app : forall a b s s1, run s a = Ok s1 -> run s (a ++ b) = run s1 b.
Proof.
  induction a as [|o r IH]; intros b s s1 H; cbn in *.
  - inversion H; subst. reflexivity.
  - destruct (step_op s o) as [s2|]; cbn in *; [|discriminate]. apply IH. exact H.
Qed.

Lemma reachable_run : forall base s ops s', reachable base s -> run s ops = Ok s' -> reachable base s'.
Proof.
  intros base s ops s' (r & h & ops0 & R) H. exists r, h, (ops0 ++ ops). rewrite (run_app _ _ _ _ R). exact H.
Qed.

Lemma lvl_ge_connect : forall u j s i par dup gs s', lvl_ge u j s -> c_connect s i par dup gs = Ok s' -> lvl_ge u j s'.
Proof.
  intros u j s i par dup gs s' (b & Fb & Hl) H. unfold c_connect, connect in H.
  destruct (bfind (blocks pstate ccmd s) par) as [pb|]; [|discriminate].
  destruct (bfind (blocks pstate ccmd s) i); [discriminate|]. inversion H; subst. unfold lvl_ge. cbn [blocks with_blocks].
  exists b. split; [apply find_app_some; exact Fb|exact Hl].
Qed.

(** validity levels are never lowered, by any history *)
Lemma lvl_ge_run : forall u j ops s s', lvl_ge u j s -> run s ops = Ok s' -> lvl_ge u j s'.
Proof.
  induction ops as [|o r IH]; intros s s' L H; cbn in H.
  - inversion H; subst. exact L.
  - destruct (step_op s o) as [s1|] eqn:E; cbn in H; [|discriminate].
    eapply IH; [|exact H]. destruct o as [i par dup gs|to|c sc cr]; cbn in E.
    + eapply lvl_ge_connect; eassumption.
    + destruct (c_setState s to) as [[s2 ok]|] eqn:E2; cbn in E; [|discriminate]. inversion E; subst.
      eapply lvl_ge_setState; eassumption.
    + destruct (c_compare sc cr s c) as [[s2 rr]|] eqn:E2; cbn in E; [|discriminate]. inversion E; subst.
      eapply lvl_ge_compare; eassumption.
Qed.

(** ** the three ways in which the library reports a chain as fully valid *)
Inductive reported_full (s : cst) (t : N) : Prop :=
| RF_level : lvl_ge L_FULL t s -> reported_full s t
| RF_setState : forall s0, c_setState s0 t = Ok (s, true) -> reported_full s t
| RF_compare : forall s0 sc cr r, c_compare sc cr s0 (Some t) = Ok (s, r) -> r < 0 -> reported_full s t.

Lemma setState_true_full : forall s0 t s, c_setState s0 t = Ok (s, true) -> lvl_ge L_FULL t s.
Proof.
  intros s0 t s H. unfold c_setState, setState in H.
  destruct (bfind (blocks pstate ccmd s0) (tip pstate ccmd s0)) as [bt|]; [|discriminate].
  destruct (bfind (blocks pstate ccmd s0) t) as [b0|]; [|discriminate].
  destruct (negb _); [discriminate|].
  match type of H with bind ?e _ = _ => destruct e as [[s1 ok1]|] end; cbn [bind] in H; [|discriminate].
  destruct (bfind (blocks pstate ccmd s1) t) as [bto|] eqn:F; [|discriminate].
  destruct ok1.
  - destruct (valid_upto ccmd bto L_FULL) eqn:V; [|discriminate]. inversion H; subst.
    exists bto. split; [exact F|]. unfold valid_upto in V. apply andb_prop in V. destruct V as [_ V]. apply N.leb_le. exact V.
  - destruct (negb (is_failed ccmd bto)); [discriminate|].
    destruct (negb _); [discriminate|]. inversion H.
Qed.

Lemma reported_full_level : forall base s t, reachable base s -> reported_full s t -> lvl_ge L_FULL t s.
Proof.
  intros base s t R [L|s0 H|s0 sc cr r H Hr].
  - exact L.
  - eapply setState_true_full; exact H.
  - destruct (reachable_good _ _ R) as (Q & C & K & T & U).
    (* the winner is the new tip, and the tip of a reachable state is at the fully-valid level *)
    assert (Ht : Some t = Some (tip _ _ s)).
    { revert H Hr. clear. intros H Hr. unfold c_compare, compare in H.
      destruct (bfind (blocks pstate ccmd s0) t) as [bc|]; [|discriminate].
      destruct (bfind (blocks pstate ccmd s0) (tip pstate ccmd s0)) as [bt|]; [|discriminate].
      destruct (is_failed ccmd bc); [inversion H; subst; lia|].
      destruct (N.eqb (tip pstate ccmd s0) t); [inversion H; subst; lia|].
      destruct (on_active_chain pstate ccmd s0 t); [inversion H; subst; lia|].
      assert (CF : forall s r, compare_fork pstate ccmd cexec cunexec sc cr s0 t bc bt = Ok (s, r) -> r < 0 -> Some t = Some (tip _ _ s)).
      { clear. intros s r H Hr. unfold compare_fork in H.
        destruct (lca ccmd _ _ _ _) as [fork|]; [|discriminate].
        destruct (bfind _ fork) as [bf|]; [|discriminate].
        destruct (negb _ && negb _); [inversion H; subst; lia|].
        match type of H with bind ?e _ = _ => destruct e as [[s1 ok]|] end; cbn [bind] in H; [|discriminate].
        destruct (negb ok); [inversion H; subst; lia|].
        destruct (Z.leb 0 (sc s1 t)) eqn:Z0.
        - match type of H with bind ?e _ = _ => destruct e as [s2|] end; cbn [bind] in H; [|discriminate].
          inversion H; subst. apply Z.leb_le in Z0. lia.
        - match type of H with bind ?e _ = _ => destruct e as [[s2 vf]|] end; cbn [bind] in H; [|discriminate].
          match type of H with bind ?e _ = _ => destruct e as [s3|] end; cbn [bind] in H; [|discriminate].
          match type of H with bind ?e _ = _ => destruct e as [[s4 ok2]|] end; cbn [bind] in H; [|discriminate].
          destruct ok2; [inversion H; subst; reflexivity|].
          match type of H with bind ?e _ = _ => destruct e as [s5|] end; cbn [bind] in H; [|discriminate].
          match type of H with bind ?e _ = _ => destruct e as [[s6 ok3]|] end; cbn [bind] in H; [|discriminate].
          destruct ok3; [inversion H; subst; lia|discriminate]. }
      destruct (anc_at ccmd _ _ t (b_h ccmd bt)) as [a|]; [|eapply CF; eassumption].
      destruct (N.eqb a (tip pstate ccmd s0)); [|eapply CF; eassumption].
      match type of H with bind ?e _ = _ => destruct e as [[s1 ok]|] end; cbn [bind] in H; [|discriminate].
      destruct ok; inversion H; subst; [reflexivity|lia]. }
    injection Ht as Ht'. unfold tf in T. rewrite <- Ht' in T. exact T.
Qed.

(** ** (a) re-activation from every later state of every continuation *)
Theorem later_reactivation : forall base s t ops s2 b2,
    reachable base s -> reported_full s t ->
    run s ops = Ok s2 ->
    bfind (blocks _ _ s2) t = Some b2 -> is_failed _ b2 = false ->
    exists s3, c_setState s2 t = Ok (s3, true).
Proof.
  intros base s t ops s2 b2 R RF H F NF.
  pose proof (reported_full_level _ _ _ R RF) as L.
  destruct (lvl_ge_run _ _ _ _ _ L H) as (b & Fb & Hl). rewrite F in Fb. inversion Fb; subst b.
  eapply reactivation; [eapply reachable_run; eassumption|exact F|].
  unfold valid_upto. rewrite NF. cbn. apply N.leb_le. exact Hl.
Qed.

(** a block that reported full validity stays reported (the claim is never silently withdrawn) *)
Theorem reported_full_persists : forall base s t ops s2,
    reachable base s -> reported_full s t -> run s ops = Ok s2 -> lvl_ge L_FULL t s2.
Proof. intros base s t ops s2 R RF H. eapply lvl_ge_run; [eapply reported_full_level; eassumption|exact H]. Qed.

(** ** the sweep of the check: a `false` answer can only come from a failure mark *)
Theorem react_seq_sound : forall base ids s s' l,
    reachable base s -> react_seq s ids = Ok (s', l) ->
    reachable base s' /\ map fst l = ids /\
    forall t, In (t, false) l -> lvl_ge L_FULL t s ->
              exists ops s1 b1, run s ops = Ok s1 /\ bfind (blocks _ _ s1) t = Some b1 /\ is_failed _ b1 = true.
Proof.
  induction ids as [|t r IH]; intros s s' l R H; cbn in H.
  - inversion H; subst. split; [exact R|]. split; [reflexivity|]. intros t [].
  - destruct (c_setState s t) as [[s1 ok]|] eqn:E; cbn [bind fst snd] in H; [|discriminate].
    destruct (react_seq s1 r) as [[s2 l2]|] eqn:E2; cbn [bind fst snd] in H; [|discriminate].
    inversion H; subst; clear H.
    assert (Rn : run s [OSetState t] = Ok s1) by (cbn; rewrite E; reflexivity).
    pose proof (reachable_run _ _ _ _ R Rn) as R1.
    destruct (IH _ _ _ R1 E2) as (R2 & M2 & X2).
    split; [exact R2|]. split; [cbn; rewrite M2; reflexivity|].
    intros x [Hx|Hx] L.
    + inversion Hx; subst. destruct L as (b & Fb & Hl).
      destruct (is_failed ccmd b) eqn:Fl.
      * exists [], s, b. split; [reflexivity|]. split; assumption.
      * destruct (reactivation base s x b R Fb) as (s3 & E3).
        { unfold valid_upto. rewrite Fl. cbn. apply N.leb_le. exact Hl. }
        rewrite E3 in E. discriminate.
    + destruct (X2 x Hx (lvl_ge_run _ _ _ _ _ L Rn)) as (ops & s3 & b3 & A & B & C).
      exists (OSetState t :: ops), s3, b3. split; [|split; assumption].
      cbn. rewrite E. cbn. exact A.
Qed.

(** ** non-vacuity: in the history [ex_ops] of SmProofs block 6 is the target of a successful setState within the first
    8 ops (level CAN_BE_APPLIED); five ops later (switches, a failing switch, comparisons with either verdict) the tip is
    15, block 6 is off the chain, not applied and not failed - and setState 6 returns true. *)
Definition ex_later_check : bool :=
  match run (c_init 0 0%Z ex_base) (firstn 8 ex_ops) with
  | Ok s =>
    match run s (skipn 8 (firstn 13 ex_ops)) with
    | Ok s2 =>
      match bfind (blocks _ _ s) 6%N, bfind (blocks _ _ s2) 6%N, c_setState s2 6%N with
      | Some b, Some b2, Ok (s3, true) =>
        N.leb L_FULL (b_lvl _ b) && negb (is_failed _ b2) && negb (b_act _ b2) && N.eqb (tip _ _ s2) 15 && N.eqb (tip _ _ s3) 6
        && Nat.eqb (length (skipn 8 (firstn 13 ex_ops))) 5
      | _, _, _ => false
      end
    | Abort _ => false
    end
  | Abort _ => false
  end.
Example later_reactivation_satisfiable : ex_later_check = true.
Proof. vm_compute. reflexivity. Qed.

(* the sweep over every fully valid block of that later state: all answers true, and the switch back succeeds *)
Example react_sweep_example :
  match run (c_init 0 0%Z ex_base) (firstn 13 ex_ops) with
  | Ok s => match react s (full_ids s) with
            | Ok (s', l, back) => (map fst l, forallb snd l, back, tip _ _ s') = (full_ids s, true, true, tip _ _ s) /\ (2 < length l)%nat
            | Abort _ => False
            end
  | Abort _ => False
  end.
Proof. vm_compute. split; [reflexivity|lia]. Qed.
