(** C01 by composition, part 2: the fork-resolution verdict against a given candidate.

    comparePopScore applies the candidate's branch next to the active chain ([apply s fork c]), builds the two
    publication views (ReducedPublicationView of [fork..tip] and of [fork..candidate]) from the protecting state
    and runs the scoring core on them (Score/CmpDefs.v [impl], property C03).  This file
      - defines the publication views as a projection of the POP model's state ([pub_view]) with explicit adapters,
        and the scorer [score_of] that the POP machine's [compare] takes as its [score] argument;
      - proves that applying the same candidate branch in two states with the same protecting multiset succeeds or
        fails alike PROVIDED NO BLOCK OF THE BRANCH CARRIES A CACHED FAILED MARK ([clean]), and leaves the same
        protecting multiset;
      - concludes that validation outcome and score of a given candidate are the same in any two reachable states
        with the same active chain (the verdict of comparePopScore as a whole: C01Fork/C01Alone/C01Outer/C01Full.v).

    Adapters (Section variables): [cfg] scoring table and finality delay, [ki] keystone interval, [ta]
    EnableTimeAdjustment, [alt_time j] timestamp of ALT block j, [spv refs b] height of SP block b on the best SP
    chain ([None]: not on it), [sp_times refs] timestamps of the best SP chain by height; the last two are functions
    of the reference counts (premises [sp_determined], [sp_times_determined]: the carve-out of the property text). *)
From Coq Require Import List ZArith NArith Bool Lia Permutation.
Import ListNotations.
From VB Require Import Pop.SmDefs Pop.SmProofs Pop.SmWf Pop.SmTruth Pop.SmCmp Pop.SmAll Pop.SmCoh Pop.SmFull Pop.SmTree
     Pop.C01Compose.
From VB Require Score.CInt Score.KeystoneDefs Score.CmpDefs Score.ViewDefs Score.ViewProofs.
Local Open Scope Z_scope.

(** * applying the same blocks on two states with the same protecting multiset *)

(** what the relational argument needs of a block that is about to be applied in both states *)
Definition okpair (s s' : cst) (x : N) : Prop :=
  exists b b', bfind (blocks _ _ s) x = Some b /\ bfind (blocks _ _ s') x = Some b' /\
               b_gs _ b = b_gs _ b' /\ is_failed _ b = false /\ is_failed _ b' = false.

Lemma applyBlock_ok_inv : forall s i s', c_applyBlock s i = Ok (s', true) ->
    (forall j b, bfind (blocks _ _ s) j = Some b ->
                 exists b', bfind (blocks _ _ s') j = Some b' /\ b_gs _ b' = b_gs _ b /\ is_failed _ b' = is_failed _ b) /\
    exists bi, bfind (blocks _ _ s) i = Some bi /\ pst _ _ s' = rev (block_items (b_gs _ bi)) ++ pst _ _ s.
Proof.
  intros s i s' H. unfold c_applyBlock, applyBlock in H.
  destruct (bfind (blocks pstate ccmd s) i) as [bi|] eqn:Fi; [|discriminate].
  destruct (N.eqb i (root pstate ccmd s)); [discriminate|].
  destruct (bfind (blocks pstate ccmd s) (b_par ccmd bi)) as [pb|]; [|discriminate].
  destruct (negb (b_act ccmd pb)); [discriminate|].
  destruct (b_act ccmd bi); [discriminate|].
  destruct (child_active ccmd (blocks pstate ccmd s) i); [discriminate|].
  destruct (b_fc ccmd bi); [discriminate|].
  destruct (is_failed ccmd bi); [discriminate|].
  destruct (N.ltb (b_lvl ccmd bi) L_CONNECTED); [discriminate|].
  destruct (gsexec pstate ccmd cexec cunexec [] (b_gs ccmd bi) (pst pstate ccmd s)) as [p' okg] eqn:Eg.
  destruct okg; cbn [negb] in H; [|destruct (invalidate_pop pstate ccmd _ i); cbn in H; [inversion H|discriminate]].
  match type of H with (if ?c then _ else _) = _ => destruct c end; [discriminate|]. inversion H; subst s'; clear H.
  cbn [blocks pst]. split.
  - intros j b F. rewrite find_upd_any by reflexivity. rewrite F. cbn.
    destruct (N.eqb (b_id ccmd b) i); eexists; (split; [reflexivity|split; reflexivity]).
  - exists bi. split; [reflexivity|]. apply gsexec_items in Eg. exact Eg.
Qed.

Lemma applyBlock_rel : forall s s' x t ok t' ok',
    Permutation (pst _ _ s) (pst _ _ s') -> okpair s s' x ->
    c_applyBlock s x = Ok (t, ok) -> c_applyBlock s' x = Ok (t', ok') ->
    ok = ok' /\ (ok = true -> Permutation (pst _ _ t) (pst _ _ t')).
Proof.
  intros s s' x t ok t' ok' HP (b & b' & F & F' & Hgs & Hf & Hf') H H'.
  assert (G : forall (u u' : cst) (bu bu' : cblk) v okv,
             Permutation (pst _ _ u) (pst _ _ u') -> bfind (blocks _ _ u) x = Some bu -> bfind (blocks _ _ u') x = Some bu' ->
             b_gs _ bu = b_gs _ bu' -> is_failed _ bu' = false ->
             c_applyBlock u x = Ok (v, true) -> c_applyBlock u' x = Ok (t', okv) ->
             okv = true /\ Permutation (pst _ _ v) (pst _ _ t')).
  { clear. intros u u' bu bu' v okv HP F F' Hgs Hf' H H'.
    unfold c_applyBlock, applyBlock in H, H'. rewrite F in H. rewrite F' in H'.
    destruct (N.eqb x (root pstate ccmd u)); [discriminate|]. destruct (N.eqb x (root pstate ccmd u')); [discriminate|].
    destruct (bfind (blocks pstate ccmd u) (b_par ccmd bu)) as [pb|]; [|discriminate].
    destruct (bfind (blocks pstate ccmd u') (b_par ccmd bu')) as [pb'|]; [|discriminate].
    destruct (negb (b_act ccmd pb)); [discriminate|]. destruct (negb (b_act ccmd pb')); [discriminate|].
    destruct (b_act ccmd bu); [discriminate|]. destruct (b_act ccmd bu'); [discriminate|].
    destruct (child_active ccmd (blocks pstate ccmd u) x); [discriminate|].
    destruct (child_active ccmd (blocks pstate ccmd u') x); [discriminate|].
    destruct (b_fc ccmd bu); [discriminate|]. destruct (b_fc ccmd bu'); [discriminate|].
    destruct (is_failed ccmd bu); [discriminate|]. rewrite Hf' in H'.
    destruct (N.ltb (b_lvl ccmd bu) L_CONNECTED); [discriminate|]. destruct (N.ltb (b_lvl ccmd bu') L_CONNECTED); [discriminate|].
    destruct (gsexec pstate ccmd cexec cunexec [] (b_gs ccmd bu) (pst pstate ccmd u)) as [p1 g1] eqn:E1.
    destruct g1; cbn [negb] in H; [|destruct (invalidate_pop pstate ccmd _ x); cbn in H; [inversion H|discriminate]].
    destruct (gsexec_perm _ [] [] _ _ _ HP E1) as (q1 & E1' & HP1). rewrite <- Hgs in H'. rewrite E1' in H'. cbn [negb] in H'.
    match type of H with (if ?c then _ else _) = _ => destruct c end; [discriminate|]. inversion H; subst v; clear H.
    match type of H' with (if ?c then _ else _) = _ => destruct c end; [discriminate|]. inversion H'; subst t' okv; clear H'.
    cbn [pst]. split; [reflexivity|exact HP1]. }
  destruct ok.
  - destruct (G s s' b b' t ok' HP F F' Hgs Hf' H H') as [-> HP1]. split; [reflexivity|intros _; exact HP1].
  - destruct ok'; [|split; [reflexivity|discriminate]]. exfalso.
    assert (G' : forall (u u' : cst) (bu bu' : cblk) v v' okv,
               Permutation (pst _ _ u) (pst _ _ u') -> bfind (blocks _ _ u) x = Some bu -> bfind (blocks _ _ u') x = Some bu' ->
               b_gs _ bu = b_gs _ bu' -> is_failed _ bu' = false ->
               c_applyBlock u x = Ok (v, true) -> c_applyBlock u' x = Ok (v', okv) -> okv = true).
    { clear. intros u u' bu bu' v v' okv HP F F' Hgs Hf' H H'.
      unfold c_applyBlock, applyBlock in H, H'. rewrite F in H. rewrite F' in H'.
      destruct (N.eqb x (root pstate ccmd u)); [discriminate|]. destruct (N.eqb x (root pstate ccmd u')); [discriminate|].
      destruct (bfind (blocks pstate ccmd u) (b_par ccmd bu)) as [pb|]; [|discriminate].
      destruct (bfind (blocks pstate ccmd u') (b_par ccmd bu')) as [pb'|]; [|discriminate].
      destruct (negb (b_act ccmd pb)); [discriminate|]. destruct (negb (b_act ccmd pb')); [discriminate|].
      destruct (b_act ccmd bu); [discriminate|]. destruct (b_act ccmd bu'); [discriminate|].
      destruct (child_active ccmd (blocks pstate ccmd u) x); [discriminate|].
      destruct (child_active ccmd (blocks pstate ccmd u') x); [discriminate|].
      destruct (b_fc ccmd bu); [discriminate|]. destruct (b_fc ccmd bu'); [discriminate|].
      destruct (is_failed ccmd bu); [discriminate|]. rewrite Hf' in H'.
      destruct (N.ltb (b_lvl ccmd bu) L_CONNECTED); [discriminate|]. destruct (N.ltb (b_lvl ccmd bu') L_CONNECTED); [discriminate|].
      destruct (gsexec pstate ccmd cexec cunexec [] (b_gs ccmd bu) (pst pstate ccmd u)) as [p1 g1] eqn:E1.
      destruct g1; cbn [negb] in H; [|destruct (invalidate_pop pstate ccmd _ x); cbn in H; [inversion H|discriminate]].
      destruct (gsexec_perm _ [] [] _ _ _ HP E1) as (q1 & E1' & HP1). rewrite <- Hgs in H'. rewrite E1' in H'. cbn [negb] in H'.
      match type of H' with (if ?c then _ else _) = _ => destruct c end; [discriminate|]. inversion H'. reflexivity. }
    pose proof (G' s' s b' b t' t false (Permutation_sym HP) F' F (eq_sym Hgs) Hf H' H). discriminate.
Qed.

(** the same path applied in both states *)
Lemma apply_path_rel : forall path s s' from from' t ok t' ok',
    Permutation (pst _ _ s) (pst _ _ s') ->
    (forall x, In x path -> okpair s s' x) ->
    apply_path pstate ccmd cexec cunexec s from path = Ok (t, ok) ->
    apply_path pstate ccmd cexec cunexec s' from' path = Ok (t', ok') ->
    ok = ok' /\ (ok = true -> Permutation (pst _ _ t) (pst _ _ t')).
Proof.
  induction path as [|x r IH]; intros s s' from from' t ok t' ok' HP Hok H H'; cbn in H, H'.
  - inversion H; inversion H'; subst. split; [reflexivity|intros _; exact HP].
  - destruct (applyBlock pstate ccmd cexec cunexec s x) as [[s1 o1]|] eqn:E; cbn [bind] in H; [|discriminate].
    destruct (applyBlock pstate ccmd cexec cunexec s' x) as [[s1' o1']|] eqn:E'; cbn [bind] in H'; [|discriminate].
    destruct (applyBlock_rel s s' x s1 o1 s1' o1' HP (Hok x (or_introl eq_refl)) E E') as [<- HP1].
    destruct o1.
    + apply (IH s1 s1' from from' t ok t' ok' (HP1 eq_refl)); [|exact H|exact H'].
      intros y Hy. destruct (Hok y (or_intror Hy)) as (b & b' & F & F' & Hgs & Hf & Hf').
      destruct (proj1 (applyBlock_ok_inv _ _ _ E) y b F) as (b1 & F1 & G1 & Hf1).
      destruct (proj1 (applyBlock_ok_inv _ _ _ E') y b' F') as (b1' & F1' & G1' & Hf1').
      exists b1, b1'. split; [exact F1|]. split; [exact F1'|]. split; [congruence|]. split; congruence.
    + destruct (bfind (blocks pstate ccmd s1) x); [|discriminate]. destruct (bfind (blocks pstate ccmd s1') x); [|discriminate].
      destruct (unapply pstate ccmd cunexec s1 _ from); cbn [bind] in H; [|discriminate].
      destruct (unapply pstate ccmd cunexec s1' _ from'); cbn [bind] in H'; [|discriminate].
      inversion H; inversion H'; subst. split; [reflexivity|discriminate].
Qed.

(** [path_up] lists c, parent c, ... *)
Lemma path_up_ups : forall s n c upl,
    path_up ccmd (blocks _ _ s) n c = Some upl -> upl = map (fun i => up (cores s) i c) (seq 0 n).
Proof.
  intros s n. induction n as [|n IH]; intros c upl H; cbn in H; [inversion H; reflexivity|].
  destruct (bfind (blocks pstate ccmd s) c) as [b|] eqn:Fc; [|discriminate].
  destruct (path_up ccmd (blocks pstate ccmd s) n (b_par ccmd b)) as [r|] eqn:E; cbn in H; [|discriminate].
  inversion H; subst upl. cbn [seq map up]. f_equal. rewrite (IH _ _ E).
  assert (Hp : parent (cores s) c = b_par ccmd b) by (unfold parent; rewrite (find_cfind _ _ _ Fc); reflexivity).
  rewrite <- seq_shift, map_map. apply map_ext. intros i. cbn [up]. rewrite Hp. reflexivity.
Qed.

Lemma hgt_find : forall s j b, bfind (blocks _ _ s) j = Some b -> hgt (cores s) j = b_h _ b.
Proof. intros s j b F. unfold hgt. rewrite (find_cfind _ _ _ F). reflexivity. Qed.

(** [apply from c] in two states: same verdict, same resulting multiset *)
Lemma apply_rel : forall s s' from c n t ok t' ok',
    Permutation (pst _ _ s) (pst _ _ s') ->
    n = Z.to_nat (hgt (cores s) c - hgt (cores s) from) -> n = Z.to_nat (hgt (cores s') c - hgt (cores s') from) ->
    (forall k, (k < n)%nat -> up (cores s') k c = up (cores s) k c) ->
    (forall k, (k < n)%nat -> okpair s s' (up (cores s) k c)) ->
    apply pstate ccmd cexec cunexec s from c = Ok (t, ok) ->
    apply pstate ccmd cexec cunexec s' from c = Ok (t', ok') ->
    ok = ok' /\ (ok = true -> Permutation (pst _ _ t) (pst _ _ t')).
Proof.
  intros s s' from c n t ok t' ok' HP Hn Hn' Hup Hok H H'. unfold apply in H, H'.
  destruct (N.eqb from c).
  { inversion H; inversion H'; subst. split; [reflexivity|intros _; exact HP]. }
  destruct (bfind (blocks pstate ccmd s) from) as [bf|] eqn:Ff; [|discriminate].
  destruct (bfind (blocks pstate ccmd s) c) as [bt|] eqn:Fc; [|discriminate].
  destruct (bfind (blocks pstate ccmd s') from) as [bf'|] eqn:Ff'; [|discriminate].
  destruct (bfind (blocks pstate ccmd s') c) as [bt'|] eqn:Fc'; [|discriminate].
  rewrite (hgt_find _ _ _ Ff), (hgt_find _ _ _ Fc) in Hn. rewrite (hgt_find _ _ _ Ff'), (hgt_find _ _ _ Fc') in Hn'.
  assert (Hc0 : (0 < n)%nat -> is_failed _ bt = false /\ is_failed _ bt' = false).
  { intros Hpos. destruct (Hok O Hpos) as (b & b' & F & F' & _ & Hf & Hf'). cbn in F, F'. rewrite Fc in F. rewrite Fc' in F'.
    inversion F; inversion F'; subst. split; assumption. }
  destruct (is_failed ccmd bt) eqn:Eft.
  { inversion H; subst t ok. destruct (is_failed ccmd bt') eqn:Eft'; [inversion H'; subst; split; [reflexivity|discriminate]|].
    destruct (negb (Z.ltb (b_h ccmd bf') (b_h ccmd bt'))) eqn:El; [discriminate|]. apply negb_false_iff, Z.ltb_lt in El.
    destruct (Hc0 ltac:(lia)) as [A _]. congruence. }
  destruct (is_failed ccmd bt') eqn:Eft'.
  { destruct (negb (Z.ltb (b_h ccmd bf) (b_h ccmd bt))) eqn:El; [discriminate|]. apply negb_false_iff, Z.ltb_lt in El.
    destruct (Hc0 ltac:(lia)) as [_ A]. congruence. }
  destruct (negb (Z.ltb (b_h ccmd bf) (b_h ccmd bt))); [discriminate|].
  destruct (negb (Z.ltb (b_h ccmd bf') (b_h ccmd bt'))); [discriminate|].
  rewrite <- Hn in H. rewrite <- Hn' in H'.
  destruct (path_up ccmd (blocks pstate ccmd s) n c) as [upl|] eqn:Eu; [|discriminate].
  destruct (path_up ccmd (blocks pstate ccmd s') n c) as [upl'|] eqn:Eu'; [|discriminate].
  apply path_up_ups in Eu. apply path_up_ups in Eu'.
  assert (Heq : upl' = upl).
  { subst upl upl'. apply map_ext_in. intros k Hk. apply in_seq in Hk. apply Hup. lia. }
  rewrite Heq in H'. clear Heq Eu'.
  destruct (rev upl) as [|x r] eqn:Er; [discriminate|].
  destruct (bfind (blocks pstate ccmd s) x); [|discriminate]. destruct (bfind (blocks pstate ccmd s') x); [|discriminate].
  destruct (N.eqb _ from); [|discriminate]. destruct (N.eqb _ from); [|discriminate].
  apply (apply_path_rel (x :: r) s s' from from t ok t' ok' HP); [|exact H|exact H'].
  intros y Hy. rewrite <- Er in Hy. apply in_rev in Hy. rewrite Eu in Hy. apply in_map_iff in Hy. destruct Hy as (k & <- & Hk).
  apply in_seq in Hk. apply Hok. lia.
Qed.

(** * chains with identities *)
(** (id, height, payloads) of x, parent x, ..., root; [active_chain s = chain_of s (tip s)] *)
Definition chain_of (s : cst) (x : N) : list (N * Z * list (list ccmd)) :=
  map (fun j => (j, hgt (cores s) j, gs_of s j)) (anc_list (cores s) (depth s x) x).
Lemma active_chain_of : forall s, active_chain s = chain_of s (tip _ _ s).
Proof. reflexivity. Qed.

(** (id, height) of x, parent x, ..., root *)
Definition line (s : cst) (x : N) : list (N * Z) :=
  map (fun j => (j, hgt (cores s) j)) (anc_list (cores s) (depth s x) x).
Lemma line_chain_of : forall s x, line s x = map fst (chain_of s x).
Proof. intros s x. unfold line, chain_of. rewrite map_map. reflexivity. Qed.

Lemma line_frame : forall s t x, frame s t -> line t x = line s x.
Proof.
  intros s t x F. pose proof (fr_static _ _ F) as S. unfold line, depth.
  rewrite (fr_root _ _ F), !(hgt_static _ _ _ S), (anc_list_static _ _ _ _ S).
  apply map_ext. intros j. rewrite (hgt_static _ _ _ S). reflexivity.
Qed.

Lemma anc_list_ups : forall l m c, anc_list l m c = map (fun k => up l k c) (seq 0 (S m)).
Proof.
  intros l m. induction m as [|m IH]; intros c; [reflexivity|].
  change (anc_list l (S m) c) with (c :: anc_list l m (parent l c)). rewrite IH.
  change (seq 0 (S (S m))) with (0%nat :: seq 1 (S m)). cbn [map up]. f_equal.
  rewrite <- seq_shift, map_map. reflexivity.
Qed.

Lemma map_seq_inj : forall (A : Type) (f g : nat -> A) n, map f (seq 0 n) = map g (seq 0 n) -> forall k, (k < n)%nat -> f k = g k.
Proof.
  intros A f g n H k Hk. assert (E : nth_error (map f (seq 0 n)) k = nth_error (map g (seq 0 n)) k) by (rewrite H; reflexivity).
  rewrite !nth_error_map in E. rewrite (nth_error_nth' (seq 0 n) O) in E by (rewrite seq_length; exact Hk).
  rewrite seq_nth in E by exact Hk. cbn in E. inversion E. reflexivity.
Qed.

(** no block among the n topmost blocks of c's chain carries a failed mark (BLOCK_FAILED_BLOCK / _POP / _CHILD) *)
Definition clean (s : cst) (c : N) (n : nat) : Prop :=
  forall k b, (k < n)%nat -> bfind (blocks _ _ s) (up (cores s) k c) = Some b -> is_failed _ b = false.

(** what two states with the same candidate chain share along it *)
Lemma chain_of_agree : forall s1 s2 c e1 e2,
    wf s1 -> scoh s1 -> wf s2 -> scoh s2 ->
    cfind (cores s1) c = Some e1 -> cfind (cores s2) c = Some e2 ->
    chain_of s1 c = chain_of s2 c ->
    depth s1 c = depth s2 c /\
    forall k, (k <= depth s1 c)%nat ->
      up (cores s2) k c = up (cores s1) k c /\
      hgt (cores s1) (up (cores s1) k c) = hgt (cores s1) c - Z.of_nat k /\
      hgt (cores s2) (up (cores s1) k c) = hgt (cores s2) c - Z.of_nat k /\
      hgt (cores s1) (up (cores s1) k c) = hgt (cores s2) (up (cores s1) k c) /\
      exists b b', bfind (blocks _ _ s1) (up (cores s1) k c) = Some b /\ bfind (blocks _ _ s2) (up (cores s1) k c) = Some b' /\
                   b_gs _ b = b_gs _ b'.
Proof.
  intros s1 s2 c e1 e2 W1 K1 W2 K2 C1 C2 H. unfold chain_of in H. rewrite !anc_list_ups, !map_map in H.
  assert (Hd : depth s1 c = depth s2 c).
  { apply (f_equal (@length _)) in H. rewrite !map_length, !seq_length in H. lia. }
  split; [exact Hd|]. intros k Hk. rewrite <- Hd in H.
  pose proof (map_seq_inj _ _ _ _ H k ltac:(lia)) as E. cbn in E.
  pose proof (f_equal (fun t : N * Z * list (list ccmd) => fst (fst t)) E) as E1.
  pose proof (f_equal (fun t : N * Z * list (list ccmd) => snd t) E) as E3.
  pose proof (f_equal (fun t : N * Z * list (list ccmd) => snd (fst t)) E) as E2. cbn in E1, E2, E3. clear E.
  destruct (dep_facts s1 c e1 W1 K1 C1) as (D1 & _). destruct (dep_facts s2 c e2 W2 K2 C2) as (D2 & _).
  assert (Hk1 : Z.of_nat k <= dep s1 c) by (unfold depth in Hk; fold (dep s1 c) in Hk; lia).
  assert (Hk2 : Z.of_nat k <= dep s2 c) by (rewrite Hd in Hk; unfold depth in Hk; fold (dep s2 c) in Hk; lia).
  destruct (up_hgt_dep s1 c e1 k W1 K1 C1 Hk1) as (Hh1 & (x1 & Hx1)).
  destruct (up_hgt_dep s2 c e2 k W2 K2 C2 Hk2) as (Hh2 & (x2 & Hx2)).
  split; [congruence|]. split; [exact Hh1|]. rewrite <- E1 in Hh2, Hx2, E2. split; [exact Hh2|]. split; [exact E2|].
  destruct (core_find _ _ _ Hx1) as (b & Fb & _). destruct (core_find _ _ _ Hx2) as (b' & Fb' & _).
  exists b, b'. split; [exact Fb|]. split; [exact Fb'|].
  unfold gs_of in E3. rewrite <- E1 in E3. rewrite Fb, Fb' in E3. exact E3.
Qed.

(** * C01: the candidate's branch validates alike, and leaves the same protecting multiset *)
Theorem candidate_validation_history_independent : forall base s1 s2 c fork t1 ok1 t2 ok2,
    reachable base s1 -> reachable base s2 -> active_chain s1 = active_chain s2 ->
    (exists b, bfind (blocks _ _ s1) c = Some b) -> (exists b, bfind (blocks _ _ s2) c = Some b) ->
    chain_of s1 c = chain_of s2 c ->
    In fork (map (fun t => fst (fst t)) (chain_of s1 c)) ->
    clean s1 c (Z.to_nat (hgt (cores s1) c - hgt (cores s1) fork)) ->
    clean s2 c (Z.to_nat (hgt (cores s1) c - hgt (cores s1) fork)) ->
    apply pstate ccmd cexec cunexec s1 fork c = Ok (t1, ok1) ->
    apply pstate ccmd cexec cunexec s2 fork c = Ok (t2, ok2) ->
    ok1 = ok2 /\ (ok1 = true -> Permutation (pst _ _ t1) (pst _ _ t2)) /\ frame s1 t1 /\ frame s2 t2.
Proof.
  intros base s1 s2 c fork t1 ok1 t2 ok2 R1 R2 HA (bc1 & Fc1) (bc2 & Fc2) HC Hfork Cl1 Cl2 A1 A2.
  destruct (reachable_good _ _ R1) as (Q1 & _ & K1 & _). destruct (reachable_good _ _ R2) as (Q2 & _ & K2 & _).
  pose proof Q1 as (W1 & _). pose proof Q2 as (W2 & _).
  destruct (history_independence base s1 s2 R1 R2 (active_chain_gs _ _ HA)) as [HP _].
  destruct (chain_of_agree s1 s2 c _ _ W1 K1 W2 K2 (find_cfind _ _ _ Fc1) (find_cfind _ _ _ Fc2) HC) as (Hd & Hag).
  (* the fork is m blocks below c *)
  unfold chain_of in Hfork. rewrite anc_list_ups, !map_map in Hfork. apply in_map_iff in Hfork.
  destruct Hfork as (m & Hm & Hin). cbn in Hm. apply in_seq in Hin. assert (Hmd : (m <= depth s1 c)%nat) by lia.
  destruct (Hag m Hmd) as (U & H1 & H2 & _ & _). rewrite Hm in H1, H2.
  set (n := Z.to_nat (hgt (cores s1) c - hgt (cores s1) fork)) in *.
  assert (Hn : n = m) by (unfold n; lia).
  destruct (apply_rel s1 s2 fork c n t1 ok1 t2 ok2 HP eq_refl) as [Hok Hperm]; try assumption.
  - lia.
  - intros k Hk. apply (Hag k). lia.
  - intros k Hk. destruct (Hag k ltac:(lia)) as (Uk & _ & _ & _ & b & b' & Fb & Fb' & Hgs).
    exists b, b'. split; [exact Fb|]. split; [exact Fb'|]. split; [exact Hgs|]. split.
    + apply (Cl1 k b Hk Fb).
    + apply (Cl2 k b' Hk). rewrite Uk. exact Fb'.
  - split; [exact Hok|]. split; [exact Hperm|].
    split; [exact (proj1 (apply_arith _ _ _ _ _ W1 A1))|exact (proj1 (apply_arith _ _ _ _ _ W2 A2))].
Qed.

(** * the scoring input: publication views as a projection of the POP state *)
Definition slice := list (N * Z).   (* (id, height), tip first, fork last *)
Definition on_line (L : slice) (j : N) : bool := existsb (fun a => N.eqb (fst a) j) L.
(** the part of a line from its tip down to block f *)
Fixpoint upto (f : N) (L : slice) : slice :=
  match L with
  | [] => []
  | jh :: r => if N.eqb (fst jh) f then [jh] else jh :: upto f r
  end.
(** highest block of line LB that also lies on line LA *)
Definition fork_of (LA LB : slice) : option N :=
  option_map fst (List.find (fun jh => on_line LA (fst jh)) LB).
Definition slice_tip_h (S : slice) : Z := match S with [] => 0 | jh :: _ => snd jh end.
Definition slice_fork_h (S : slice) : Z := snd (last S (0%N, 0)).

Definition sp_times_determined (sp_times : (N -> nat) -> list Z) : Prop :=
  forall f g : N -> nat, (forall x, f x = g x) -> sp_times f = sp_times g.

Section Scoring.
  Variable cfg : VB.Score.CmpDefs.config.
  Variable ki : Z.
  Variable ta : bool.
  Variable alt_time : N -> Z.
  Variable spv : (N -> nat) -> N -> option Z.
  Variable sp_times : (N -> nat) -> list Z.

  (** getProtoKeystoneContext: endorsements of the blocks k .. k + ki + 1 of this chain slice ... *)
  Definition in_period (S : slice) (k : Z) (e : N) : bool :=
    existsb (fun jh => N.eqb (fst jh) e && (k <=? snd jh) && (snd jh <=? VB.Score.KeystoneDefs.m_highestConnecting k ki)) S.
  (** ... contained in the same slice, block of proof on the best SP chain: heights of the blocks of proof
      (a list; the C++ collects a set, [ktx] is a minimum and does not see duplicates or order) *)
  Definition kst_bops (p : pstate) (S : slice) (k : Z) : list nat :=
    flat_map (fun it => match it with
                        | IEnd e c b =>
                          if in_period S k e && on_line S c
                          then match spv (refs p) b with Some h => [Z.to_nat h] | None => [] end
                          else []
                        | IRef _ => []
                        end) p.
  Definition kst_time (S : slice) (k : Z) : Z :=
    match List.find (fun jh => snd jh =? k) S with Some jh => alt_time (fst jh) | None => 0 end.
  (** firstBlockPublicationHeight of keystone k (Score/ViewDefs.v [ktx] = getKeystoneContext as coded) *)
  Definition kst_pub (p : pstate) (S : slice) (k : Z) : Z :=
    match VB.Score.ViewDefs.ktx ta (sp_times (refs p)) (kst_time S k) (kst_bops p S k) with
    | Some m => Z.of_nat m
    | None => VB.Score.CmpDefs.NO_ENDORSEMENT
    end.
  (** ReducedPublicationView of a slice: one context per keystone firstKeystone, firstKeystone + ki, ..., lastKeystone *)
  Definition pub_view (p : pstate) (S : slice) : list (option Z) :=
    map (fun i => Some (kst_pub p S (VB.Score.KeystoneDefs.view_first (slice_fork_h S) ki + Z.of_nat i * ki)))
        (seq 0 (Z.to_nat (VB.Score.KeystoneDefs.view_size (slice_fork_h S) (slice_tip_h S) ki))).

  (** comparePopScoreImpl on the views of [fork..tip] of line LA and [fork..tip] of line LB *)
  Definition core_score (p : pstate) (LA LB : slice) : option (VB.Score.CInt.res Z) :=
    match fork_of LA LB with
    | Some f => Some (VB.Score.CmpDefs.impl cfg (pub_view p (upto f LA)) (pub_view p (upto f LB)))
    | None => None
    end.
  (** adapter to the machine's [score : st -> N -> Z]: evaluated in the state with both chains applied;
      undefined behaviour of the scoring core / no common block is mapped to 0 *)
  Definition score_of (t : cst) (c : N) : Z :=
    match core_score (pst _ _ t) (line t (tip _ _ t)) (line t c) with
    | Some (VB.Score.CInt.Ok r) => r
    | _ => 0
    end.
  Definition crossed_of (b t : Z) : bool := VB.Score.KeystoneDefs.m_crossed b t ki.

  Hypothesis SD : sp_determined spv.
  Hypothesis TD : sp_times_determined sp_times.

  Lemma kst_bops_perm : forall p q S k, Permutation p q -> Permutation (kst_bops p S k) (kst_bops q S k).
  Proof.
    intros p q S k H. unfold kst_bops.
    rewrite (flat_map_ext _ (fun it => match it with
                        | IEnd e c b =>
                          if in_period S k e && on_line S c
                          then match spv (refs q) b with Some h => [Z.to_nat h] | None => [] end
                          else []
                        | IRef _ => []
                        end)).
    - apply flat_map_perm. exact H.
    - intros [x|e c b]; [reflexivity|]. rewrite (SD (refs p) (refs q) (fun x => count_ref_perm x _ _ H) b). reflexivity.
  Qed.

  (** the scoring input depends on the protecting state only as a multiset *)
  Lemma pub_view_perm : forall p q S, Permutation p q -> pub_view p S = pub_view q S.
  Proof.
    intros p q S H. unfold pub_view. apply map_ext. intros i. f_equal. unfold kst_pub.
    rewrite (TD (refs p) (refs q) (fun x => count_ref_perm x _ _ H)).
    rewrite (VB.Score.ViewProofs.ktx_order_independent ta _ _ _ _ (kst_bops_perm p q S _ H)). reflexivity.
  Qed.

  Lemma core_score_perm : forall p q LA LB, Permutation p q -> core_score p LA LB = core_score q LA LB.
  Proof.
    intros p q LA LB H. unfold core_score. destruct (fork_of LA LB) as [f|]; [|reflexivity].
    rewrite (pub_view_perm p q _ H), (pub_view_perm p q _ H). reflexivity.
  Qed.

  (** C01: the scoring input and the score of a given candidate are functions of the active chain and the candidate's
      chain *)
  Theorem candidate_score_history_independent : forall base s1 s2 c fork t1 t2,
      reachable base s1 -> reachable base s2 -> active_chain s1 = active_chain s2 ->
      (exists b, bfind (blocks _ _ s1) c = Some b) -> (exists b, bfind (blocks _ _ s2) c = Some b) ->
      chain_of s1 c = chain_of s2 c ->
      In fork (map (fun t => fst (fst t)) (chain_of s1 c)) ->
      clean s1 c (Z.to_nat (hgt (cores s1) c - hgt (cores s1) fork)) ->
      clean s2 c (Z.to_nat (hgt (cores s1) c - hgt (cores s1) fork)) ->
      apply pstate ccmd cexec cunexec s1 fork c = Ok (t1, true) ->
      apply pstate ccmd cexec cunexec s2 fork c = Ok (t2, true) ->
      (forall S, pub_view (pst _ _ t1) S = pub_view (pst _ _ t2) S) /\
      core_score (pst _ _ t1) (line t1 (tip _ _ t1)) (line t1 c) = core_score (pst _ _ t2) (line t2 (tip _ _ t2)) (line t2 c) /\
      score_of t1 c = score_of t2 c.
  Proof.
    intros base s1 s2 c fork t1 t2 R1 R2 HA B1 B2 HC Hf Cl1 Cl2 A1 A2.
    destruct (candidate_validation_history_independent base s1 s2 c fork t1 true t2 true R1 R2 HA B1 B2 HC Hf Cl1 Cl2 A1 A2)
      as (_ & HP & F1 & F2). specialize (HP eq_refl).
    assert (L : line t1 (tip _ _ t1) = line t2 (tip _ _ t2) /\ line t1 c = line t2 c).
    { rewrite (fr_tip _ _ F1), (fr_tip _ _ F2), !(line_frame _ _ _ F1), !(line_frame _ _ _ F2), !line_chain_of.
      rewrite <- !active_chain_of, HA, HC. split; reflexivity. }
    destruct L as [LA LB].
    assert (E : core_score (pst _ _ t1) (line t1 (tip _ _ t1)) (line t1 c) = core_score (pst _ _ t2) (line t2 (tip _ _ t2)) (line t2 c))
      by (rewrite LA, LB; apply core_score_perm; exact HP).
    split; [intros S; apply pub_view_perm; exact HP|]. split; [exact E|]. unfold score_of. rewrite E. reflexivity.
  Qed.
End Scoring.
