(** C01 by composition, part 3: the verdict of the general fork case of comparePopScore ([compare_fork] of the POP
    machine, run with the scorer [score_of] built from the Score model) in two reachable states with the same active
    chain, against a candidate whose chain is the same in both and carries no cached failed mark. *)
From Coq Require Import List ZArith NArith Bool Lia Permutation.
Import ListNotations.
From VB Require Import Pop.SmDefs Pop.SmProofs Pop.SmWf Pop.SmTruth Pop.SmCmp Pop.SmAll Pop.SmCoh Pop.SmFull Pop.SmTree
     Pop.C01Compose Pop.C01Verdict.
Local Open Scope Z_scope.

(** the outcomes of the general fork case, read off the code *)
Lemma compare_fork_shape : forall sc cr s c bc bt s' r,
    compare_fork pstate ccmd cexec cunexec sc cr s c bc bt = Ok (s', r) ->
    exists fork bf,
      lca ccmd (blocks _ _ s) (2 * fuel_of _ _ s) (tip _ _ s) c = Some fork /\ bfind (blocks _ _ s) fork = Some bf /\
      ((negb (cr (b_h _ bf) (b_h _ bt)) && negb (cr (b_h _ bf) (b_h _ bc)) = true /\ r = 0) \/
       (negb (cr (b_h _ bf) (b_h _ bt)) && negb (cr (b_h _ bf) (b_h _ bc)) = false /\
        exists t ok, apply pstate ccmd cexec cunexec s fork c = Ok (t, ok) /\
          ((ok = false /\ r = 1) \/
           (ok = true /\ ((0 <= sc t c /\ r = sc t c) \/ (sc t c < 0 /\ (r = sc t c \/ r = 1))))))).
Proof.
  intros sc cr s c bc bt s' r H. unfold compare_fork in H.
  destruct (lca ccmd (blocks pstate ccmd s) _ (tip pstate ccmd s) c) as [fork|] eqn:El; [|discriminate].
  destruct (bfind (blocks pstate ccmd s) fork) as [bf|] eqn:Ef; [|discriminate].
  exists fork, bf. split; [reflexivity|]. split; [exact Ef|].
  destruct (negb (cr _ _) && negb (cr _ _)).
  { inversion H. left. split; reflexivity. }
  right. split; [reflexivity|].
  dbind H. destruct a as [t ok]. exists t, ok. split; [reflexivity|].
  destruct ok; cbn [negb] in H; [|inversion H; left; split; reflexivity].
  right. split; [reflexivity|].
  destruct (Z.leb 0 (sc t c)) eqn:Sg.
  - apply Z.leb_le in Sg. dbind H. inversion H. left. split; [exact Sg|reflexivity].
  - apply Z.leb_gt in Sg. right. split; [exact Sg|].
    dbind H. destruct a as [s2 vf]. dbind H. dbind H. destruct a0 as [s4 ok2].
    destruct ok2; [inversion H; left; reflexivity|].
    dbind H. dbind H. destruct a1 as [s6 ok3]. destruct ok3; [inversion H; right; reflexivity|discriminate].
Qed.

(** the fork block found by [lca] is the same in both states *)
Lemma fork_agree : forall base s1 s2 c f1 f2,
    reachable base s1 -> reachable base s2 -> active_chain s1 = active_chain s2 ->
    (exists b, bfind (blocks _ _ s1) c = Some b) -> (exists b, bfind (blocks _ _ s2) c = Some b) ->
    chain_of s1 c = chain_of s2 c ->
    lca ccmd (blocks _ _ s1) (2 * fuel_of _ _ s1) (tip _ _ s1) c = Some f1 ->
    lca ccmd (blocks _ _ s2) (2 * fuel_of _ _ s2) (tip _ _ s2) c = Some f2 ->
    f1 = f2 /\ tip _ _ s1 = tip _ _ s2 /\
    In f1 (map (fun t => fst (fst t)) (chain_of s1 c)) /\
    hgt (cores s1) f1 = hgt (cores s2) f1 /\ hgt (cores s1) (tip _ _ s1) = hgt (cores s2) (tip _ _ s1) /\
    hgt (cores s1) c = hgt (cores s2) c.
Proof.
  intros base s1 s2 c f1 f2 R1 R2 HA (bc1 & Fc1) (bc2 & Fc2) HC L1 L2.
  destruct (reachable_good _ _ R1) as (Q1 & _ & K1 & _). destruct (reachable_good _ _ R2) as (Q2 & _ & K2 & _).
  pose proof Q1 as (W1 & Ta1 & _). pose proof Q2 as (W2 & Ta2 & _).
  destruct Ta1 as (et1 & Ct1 & _). destruct Ta2 as (et2 & Ct2 & _).
  pose proof (find_cfind _ _ _ Fc1) as Cc1. pose proof (find_cfind _ _ _ Fc2) as Cc2.
  assert (Ht : tip _ _ s1 = tip _ _ s2).
  { pose proof (active_chain_ids _ _ HA) as Hi. unfold chain in Hi. rewrite !anc_list_ups in Hi. cbn in Hi. inversion Hi. reflexivity. }
  rewrite !active_chain_of in HA. rewrite <- Ht in HA, L2, Ct2.
  destruct (chain_of_agree s1 s2 _ _ _ W1 K1 W2 K2 Ct1 Ct2 HA) as (Hdt & Agt).
  destruct (chain_of_agree s1 s2 _ _ _ W1 K1 W2 K2 Cc1 Cc2 HC) as (Hdc & Agc).
  pose proof (dep_bound s1 _ _ W1 K1 Ct1) as B1t. pose proof (dep_bound s1 _ _ W1 K1 Cc1) as B1c.
  pose proof (dep_bound s2 _ _ W2 K2 Ct2) as B2t. pose proof (dep_bound s2 _ _ W2 K2 Cc2) as B2c.
  destruct (dep_facts s1 _ _ W1 K1 Ct1) as (D1t & _). destruct (dep_facts s1 _ _ W1 K1 Cc1) as (D1c & _).
  destruct (dep_facts s2 _ _ W2 K2 Ct2) as (D2t & _). destruct (dep_facts s2 _ _ W2 K2 Cc2) as (D2c & _).
  destruct (lca_spec s1 W1 K1 (2 * fuel_of _ _ s1) (tip _ _ s1) c _ _ Ct1 Cc1) as (g1 & ka1 & kb1 & Hl1 & Ha1 & Hb1 & Ka1 & Kb1 & M1).
  { unfold fuel_of. lia. }
  destruct (lca_spec s2 W2 K2 (2 * fuel_of _ _ s2) (tip _ _ s1) c _ _ Ct2 Cc2) as (g2 & ka2 & kb2 & Hl2 & Ha2 & Hb2 & Ka2 & Kb2 & M2).
  { unfold fuel_of. lia. }
  rewrite L1 in Hl1. rewrite L2 in Hl2. injection Hl1 as Eg1. injection Hl2 as Eg2.
  rewrite <- Eg1 in Ha1, Hb1, M1. rewrite <- Eg2 in Ha2, Hb2, M2. clear Eg1 Eg2 g1 g2.
  assert (Dt : dep s1 (tip _ _ s1) = dep s2 (tip _ _ s1)).
  { unfold depth in Hdt. fold (dep s1 (tip _ _ s1)) in Hdt. fold (dep s2 (tip _ _ s1)) in Hdt. lia. }
  assert (Dc : dep s1 c = dep s2 c).
  { unfold depth in Hdc. fold (dep s1 c) in Hdc. fold (dep s2 c) in Hdc. lia. }
  assert (Lt : forall k, Z.of_nat k <= dep s1 (tip _ _ s1) -> (k <= depth s1 (tip _ _ s1))%nat) by (intros k Hk; unfold depth; fold (dep s1 (tip _ _ s1)); lia).
  assert (Lc : forall k, Z.of_nat k <= dep s1 c -> (k <= depth s1 c)%nat) by (intros k Hk; unfold depth; fold (dep s1 c); lia).
  destruct (Agt O ltac:(lia)) as (_ & _ & _ & Eht & _). destruct (Agc O ltac:(lia)) as (_ & _ & _ & Ehc & _). cbn in Eht, Ehc.
  (* heights of the two forks *)
  destruct (Agt ka1 (Lt _ Ka1)) as (Ua1 & Ha1h & Ha1h' & Ea1 & _). rewrite <- Ha1 in Ua1, Ha1h, Ha1h', Ea1.
  destruct (Agc kb1 (Lc _ Kb1)) as (Ub1 & _). rewrite <- Hb1 in Ub1.
  destruct (Agt ka2 (Lt ka2 ltac:(lia))) as (Ua2 & Ha2h & Ha2h' & Ea2 & _). rewrite <- Ha2 in Ua2.
  destruct (Agc kb2 (Lc kb2 ltac:(lia))) as (Ub2 & _). rewrite <- Hb2 in Ub2.
  (* f1 is a common ancestor in s2, f2 is one in s1 *)
  pose proof (M2 f1 ka1 kb1 (eq_sym Ua1) (eq_sym Ub1) ltac:(lia) ltac:(lia)) as Le2.
  pose proof (M1 f2 ka2 kb2 Ua2 Ub2 ltac:(lia) ltac:(lia)) as Le1.
  rewrite <- Ua2 in Ha2h, Ha2h'.
  assert (Hk : ka1 = ka2) by lia. subst ka2.
  assert (Hf : f1 = f2) by congruence.
  split; [exact Hf|]. split; [exact Ht|]. split.
  - unfold chain_of. rewrite anc_list_ups, !map_map. apply in_map_iff. exists kb1. split; [cbn; symmetry; exact Hb1|].
    apply in_seq. pose proof (Lc _ Kb1). lia.
  - split; [exact Ea1|]. split; [exact Eht|exact Ehc].
Qed.

Section ForkVerdict.
  Variable cfg : VB.Score.CmpDefs.config.
  Variable ki : Z.
  Variable ta : bool.
  Variable alt_time : N -> Z.
  Variable spv : (N -> nat) -> N -> option Z.
  Variable sp_times : (N -> nat) -> list Z.
  Hypothesis SD : sp_determined spv.
  Hypothesis TD : sp_times_determined sp_times.

  Notation sc := (score_of cfg ki ta alt_time spv sp_times).
  Notation cr := (crossed_of ki).

  (** no block of c's chain carries a failed mark *)
  Definition clean_all (s : cst) (c : N) : Prop := forall n, clean s c n.

  (** C01, verdict of the general fork case.  PARTIAL: when the candidate outscores the active chain the code
      re-validates the never-validated part of the candidate without the active chain's payloads; that outcome is not
      related here (it needs the truthfulness of the fully-valid level, C20, across the two states), so the conclusion
      allows exactly that disagreement: one instance answers the (negative) score, the other 1. *)
  Theorem fork_verdict_history_independent_partial : forall base s1 s2 c bc1 bt1 bc2 bt2 s1' r1 s2' r2,
      reachable base s1 -> reachable base s2 -> active_chain s1 = active_chain s2 ->
      bfind (blocks _ _ s1) c = Some bc1 -> bfind (blocks _ _ s2) c = Some bc2 ->
      bfind (blocks _ _ s1) (tip _ _ s1) = Some bt1 -> bfind (blocks _ _ s2) (tip _ _ s2) = Some bt2 ->
      chain_of s1 c = chain_of s2 c ->
      clean_all s1 c -> clean_all s2 c ->
      compare_fork pstate ccmd cexec cunexec sc cr s1 c bc1 bt1 = Ok (s1', r1) ->
      compare_fork pstate ccmd cexec cunexec sc cr s2 c bc2 bt2 = Ok (s2', r2) ->
      r1 = r2 \/ (r1 < 0 /\ r2 = 1) \/ (r1 = 1 /\ r2 < 0).
  Proof.
    intros base s1 s2 c bc1 bt1 bc2 bt2 s1' r1 s2' r2 R1 R2 HA Fc1 Fc2 Ft1 Ft2 HC Cl1 Cl2 H1 H2.
    destruct (compare_fork_shape _ _ _ _ _ _ _ _ H1) as (f1 & bf1 & L1 & Ff1 & O1).
    destruct (compare_fork_shape _ _ _ _ _ _ _ _ H2) as (f2 & bf2 & L2 & Ff2 & O2).
    destruct (fork_agree base s1 s2 c f1 f2 R1 R2 HA (ex_intro _ _ Fc1) (ex_intro _ _ Fc2) HC L1 L2) as (<- & Ht & Hin & Ehf & Eht & Ehc).
    rewrite <- Ht in Ft2.
    rewrite <- (hgt_find _ _ _ Ff1), <- (hgt_find _ _ _ Ft1), <- (hgt_find _ _ _ Fc1) in O1.
    rewrite <- (hgt_find _ _ _ Ff2), <- (hgt_find _ _ _ Ft2), <- (hgt_find _ _ _ Fc2), <- Ehf, <- Eht, <- Ehc in O2.
    destruct O1 as [[C1 ->]|[C1 (t1 & ok1 & A1 & O1)]]; destruct O2 as [[C2 ->]|[C2 (t2 & ok2 & A2 & O2)]]; try congruence.
    { left. reflexivity. }
    destruct (candidate_validation_history_independent base s1 s2 c f1 t1 ok1 t2 ok2 R1 R2 HA
                (ex_intro _ _ Fc1) (ex_intro _ _ Fc2) HC Hin (Cl1 _) (Cl2 _) A1 A2) as (Hok & _).
    subst ok2. destruct ok1.
    2:{ destruct O1 as [[_ ->]|[? _]]; [|discriminate]. destruct O2 as [[_ ->]|[? _]]; [|discriminate]. left. reflexivity. }
    destruct O1 as [[? _]|[_ O1]]; [discriminate|]. destruct O2 as [[? _]|[_ O2]]; [discriminate|].
    destruct (candidate_score_history_independent cfg ki ta alt_time spv sp_times SD TD base s1 s2 c f1 t1 t2 R1 R2 HA
                (ex_intro _ _ Fc1) (ex_intro _ _ Fc2) HC Hin (Cl1 _) (Cl2 _) A1 A2) as (_ & _ & Es).
    rewrite <- Es in O2.
    destruct O1 as [[G1 ->]|[G1 [->| ->]]]; destruct O2 as [[G2 ->]|[G2 [->| ->]]]; try lia; left; reflexivity.
  Qed.
End ForkVerdict.
