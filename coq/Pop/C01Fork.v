(** C01 by composition, part 3: the fork block that comparePopScore computes ([lca] of the POP machine) is the same in
    two reachable states with the same active chain, for a candidate whose chain is the same in both. *)
From Coq Require Import List ZArith NArith Bool Lia Permutation.
Import ListNotations.
From VB Require Import Pop.SmDefs Pop.SmProofs Pop.SmWf Pop.SmTruth Pop.SmCmp Pop.SmAll Pop.SmCoh Pop.SmFull Pop.SmTree
     Pop.C01Compose Pop.C01Verdict.
Local Open Scope Z_scope.

(** the fork block found by [lca] is the same in both states *)
Lemma fork_agree : forall base s1 s2 c f1 f2,
    reachable base s1 -> reachable base s2 -> active_chain s1 = active_chain s2 ->
    (exists b, bfind (blocks _ _ s1) c = Some b) -> (exists b, bfind (blocks _ _ s2) c = Some b) ->
    chain_of s1 c = chain_of s2 c ->
    lca ccmd (blocks _ _ s1) (2 * fuel_of _ _ s1) (tip _ _ s1) c = Some f1 ->
    lca ccmd (blocks _ _ s2) (2 * fuel_of _ _ s2) (tip _ _ s2) c = Some f2 ->
    f1 = f2 /\ tip _ _ s1 = tip _ _ s2 /\
    In f1 (map (fun t => fst (fst t)) (chain_of s1 c)) /\
    hgt (cores s1) f1 = hgt (cores s2) f1 /\ hgt (cores s1) (tip _ _ s1) = hgt (cores s2) (tip _ _ s1) /\
    hgt (cores s1) c = hgt (cores s2) c.
Proof.
  intros base s1 s2 c f1 f2 R1 R2 HA (bc1 & Fc1) (bc2 & Fc2) HC L1 L2.
  destruct (reachable_good _ _ R1) as (Q1 & _ & K1 & _). destruct (reachable_good _ _ R2) as (Q2 & _ & K2 & _).
  pose proof Q1 as (W1 & Ta1 & _). pose proof Q2 as (W2 & Ta2 & _).
  destruct Ta1 as (et1 & Ct1 & _). destruct Ta2 as (et2 & Ct2 & _).
  pose proof (find_cfind _ _ _ Fc1) as Cc1. pose proof (find_cfind _ _ _ Fc2) as Cc2.
  assert (Ht : tip _ _ s1 = tip _ _ s2).
  { pose proof (active_chain_ids _ _ HA) as Hi. unfold chain in Hi. rewrite !anc_list_ups in Hi. cbn in Hi. inversion Hi. reflexivity. }
  rewrite !active_chain_of in HA. rewrite <- Ht in HA, L2, Ct2.
  destruct (chain_of_agree s1 s2 _ _ _ W1 K1 W2 K2 Ct1 Ct2 HA) as (Hdt & Agt).
  destruct (chain_of_agree s1 s2 _ _ _ W1 K1 W2 K2 Cc1 Cc2 HC) as (Hdc & Agc).
  pose proof (dep_bound s1 _ _ W1 K1 Ct1) as B1t. pose proof (dep_bound s1 _ _ W1 K1 Cc1) as B1c.
  pose proof (dep_bound s2 _ _ W2 K2 Ct2) as B2t. pose proof (dep_bound s2 _ _ W2 K2 Cc2) as B2c.
  destruct (dep_facts s1 _ _ W1 K1 Ct1) as (D1t & _). destruct (dep_facts s1 _ _ W1 K1 Cc1) as (D1c & _).
  destruct (dep_facts s2 _ _ W2 K2 Ct2) as (D2t & _). destruct (dep_facts s2 _ _ W2 K2 Cc2) as (D2c & _).
  destruct (lca_spec s1 W1 K1 (2 * fuel_of _ _ s1) (tip _ _ s1) c _ _ Ct1 Cc1) as (g1 & ka1 & kb1 & Hl1 & Ha1 & Hb1 & Ka1 & Kb1 & M1).
  { unfold fuel_of. lia. }
  destruct (lca_spec s2 W2 K2 (2 * fuel_of _ _ s2) (tip _ _ s1) c _ _ Ct2 Cc2) as (g2 & ka2 & kb2 & Hl2 & Ha2 & Hb2 & Ka2 & Kb2 & M2).
  { unfold fuel_of. lia. }
  rewrite L1 in Hl1. rewrite L2 in Hl2. injection Hl1 as Eg1. injection Hl2 as Eg2.
  rewrite <- Eg1 in Ha1, Hb1, M1. rewrite <- Eg2 in Ha2, Hb2, M2. clear Eg1 Eg2 g1 g2.
  assert (Dt : dep s1 (tip _ _ s1) = dep s2 (tip _ _ s1)).
  { unfold depth in Hdt. fold (dep s1 (tip _ _ s1)) in Hdt. fold (dep s2 (tip _ _ s1)) in Hdt. lia. }
  assert (Dc : dep s1 c = dep s2 c).
  { unfold depth in Hdc. fold (dep s1 c) in Hdc. fold (dep s2 c) in Hdc. lia. }
  assert (Lt : forall k, Z.of_nat k <= dep s1 (tip _ _ s1) -> (k <= depth s1 (tip _ _ s1))%nat) by (intros k Hk; unfold depth; fold (dep s1 (tip _ _ s1)); lia).
  assert (Lc : forall k, Z.of_nat k <= dep s1 c -> (k <= depth s1 c)%nat) by (intros k Hk; unfold depth; fold (dep s1 c); lia).
  destruct (Agt O ltac:(lia)) as (_ & _ & _ & Eht & _). destruct (Agc O ltac:(lia)) as (_ & _ & _ & Ehc & _). cbn in Eht, Ehc.
  (* heights of the two forks *)
  destruct (Agt ka1 (Lt _ Ka1)) as (Ua1 & Ha1h & Ha1h' & Ea1 & _). rewrite <- Ha1 in Ua1, Ha1h, Ha1h', Ea1.
  destruct (Agc kb1 (Lc _ Kb1)) as (Ub1 & _). rewrite <- Hb1 in Ub1.
  destruct (Agt ka2 (Lt ka2 ltac:(lia))) as (Ua2 & Ha2h & Ha2h' & Ea2 & _). rewrite <- Ha2 in Ua2.
  destruct (Agc kb2 (Lc kb2 ltac:(lia))) as (Ub2 & _). rewrite <- Hb2 in Ub2.
  (* f1 is a common ancestor in s2, f2 is one in s1 *)
  pose proof (M2 f1 ka1 kb1 (eq_sym Ua1) (eq_sym Ub1) ltac:(lia) ltac:(lia)) as Le2.
  pose proof (M1 f2 ka2 kb2 Ua2 Ub2 ltac:(lia) ltac:(lia)) as Le1.
  rewrite <- Ua2 in Ha2h, Ha2h'.
  assert (Hk : ka1 = ka2) by lia. subst ka2.
  assert (Hf : f1 = f2) by congruence.
  split; [exact Hf|]. split; [exact Ht|]. split.
  - unfold chain_of. rewrite anc_list_ups, !map_map. apply in_map_iff. exists kb1. split; [cbn; symmetry; exact Hb1|].
    apply in_seq. pose proof (Lc _ Kb1). lia.
  - split; [exact Ea1|]. split; [exact Eht|exact Ehc].
Qed.

(** no block of c's chain carries a failed mark (BLOCK_FAILED_BLOCK / _POP / _CHILD) *)
Definition clean_all (s : cst) (c : N) : Prop := forall n, clean s c n.
