(** POP state machine — C20: the fully-valid level is truthful (replaying root..b alone succeeds). *)
From Coq Require Import List ZArith NArith Bool Lia Permutation.
Import ListNotations.
From VB Require Import Pop.SmDefs Pop.SmProofs Pop.SmWf.
Local Open Scope Z_scope.

(** ** success of command groups does not depend on the order of the items of P *)
Lemma mem_perm : forall x p q, Permutation p q -> mem x p = mem x q.
Proof.
  intros x p q H. unfold mem. induction H; cbn.
  - reflexivity.
  - rewrite IHPermutation. reflexivity.
  - destruct (item_eqb x y), (item_eqb x x0); reflexivity.
  - congruence.
Qed.
Lemma cexec_perm : forall c p q p', Permutation p q -> cexec c p = Some p' ->
    exists q', cexec c q = Some q' /\ Permutation p' q'.
Proof.
  intros [v par|e c b|v|] p q p' HP H; cbn in *.
  - rewrite <- !(mem_perm _ _ _ HP). destruct (mem (IRef v) p || mem (IRef par) p); inversion H; subst.
    eexists. split; [reflexivity|constructor; exact HP].
  - rewrite <- !(mem_perm _ _ _ HP). destruct (mem (IRef b) p); inversion H; subst.
    eexists. split; [reflexivity|constructor; exact HP].
  - rewrite <- !(mem_perm _ _ _ HP). destruct (mem (IRef v) p); inversion H; subst.
    eexists. split; [reflexivity|exact HP].
  - discriminate.
Qed.
Lemma gexec_perm : forall todo done done' p q p', Permutation p q ->
    gexec pstate ccmd cexec cunexec done todo p = (p', true) ->
    exists q', gexec pstate ccmd cexec cunexec done' todo q = (q', true) /\ Permutation p' q'.
Proof.
  induction todo as [|c r IH]; intros done done' p q p' HP H; cbn in H.
  - inversion H; subst. exists q. split; [reflexivity|exact HP].
  - destruct (cexec c p) as [p1|] eqn:E; [|discriminate].
    destruct (cexec_perm _ _ _ _ HP E) as (q1 & E' & HP1). cbn. rewrite E'. eapply IH; eassumption.
Qed.
Lemma gsexec_perm : forall todo done done' p q p', Permutation p q ->
    gsexec pstate ccmd cexec cunexec done todo p = (p', true) ->
    exists q', gsexec pstate ccmd cexec cunexec done' todo q = (q', true) /\ Permutation p' q'.
Proof.
  induction todo as [|g r IH]; intros done done' p q p' HP H; cbn in H.
  - inversion H; subst. exists q. split; [reflexivity|exact HP].
  - destruct (group_execute pstate ccmd cexec cunexec g p) as [p1 ok] eqn:E. destruct ok; [|discriminate].
    destruct (gexec_perm _ _ [] _ _ _ HP E) as (q1 & E' & HP1). cbn. unfold group_execute. rewrite E'. eapply IH; eassumption.
Qed.

(** ** replaying a list of block bodies from a given state *)
Fixpoint replay (gss : list (list (list ccmd))) (p : pstate) : option pstate :=
  match gss with
  | [] => Some p
  | gs :: r => match gsexec pstate ccmd cexec cunexec [] gs p with
               | (p', true) => replay r p'
               | (_, false) => None
               end
  end.
Lemma replay_app : forall a b p,
    replay (a ++ b) p = match replay a p with Some p' => replay b p' | None => None end.
Proof.
  induction a as [|gs r IH]; intros b p; cbn; [reflexivity|].
  destruct (gsexec pstate ccmd cexec cunexec [] gs p) as [p' ok]. destruct ok; [apply IH|reflexivity].
Qed.
Lemma replay_items : forall gss p p', replay gss p = Some p' -> Permutation p' (flat_map block_items gss ++ p).
Proof.
  induction gss as [|gs r IH]; intros p p' H; cbn in H.
  - inversion H; subst. reflexivity.
  - destruct (gsexec pstate ccmd cexec cunexec [] gs p) as [p1 ok] eqn:E. destruct ok; [|discriminate].
    apply IH in H. apply gsexec_items in E. subst p1. eapply perm_trans; [exact H|].
    cbn [flat_map]. rewrite <- !app_assoc. rewrite app_assoc. rewrite (app_assoc (block_items gs)).
    apply Permutation_app_tail. eapply perm_trans; [apply Permutation_app_comm|].
    apply Permutation_app_tail. symmetry. apply Permutation_rev.
Qed.

(** the bodies of root..i, for a block i that is n levels above the root *)
Definition bgs (s : cst) (n : nat) (i : N) : list (list (list ccmd)) :=
  rev (map (gs_of s) (anc_list (cores s) n i)).
Definition depth (s : cst) (i : N) : nat := Z.to_nat (hgt (cores s) i - hgt (cores s) (root _ _ s)).

(** C20: every block at the fully-valid level can be applied on its own ancestry alone from the bootstrap state *)
Definition truthful (base : pstate) (s : cst) : Prop :=
  forall b, In b (blocks _ _ s) -> N.leb L_FULL (b_lvl _ b) = true ->
            exists p', replay (bgs s (depth s (b_id _ b)) (b_id _ b)) base = Some p'.

(** ** what [truthful] depends on *)
Lemma same_static_of_static : forall bl bl' : list (blk ccmd),
    map (static ccmd) bl' = map (static ccmd) bl -> same_static (map core bl) (map core bl').
Proof.
  induction bl as [|b r IH]; intros bl' H j; destruct bl' as [|b' r']; cbn in H; try discriminate; [reflexivity|].
  inversion H as [[H1 H2 H3 H4 H5]]. unfold sfind. cbn [map cfind].
  change (e_id (core b')) with (b_id ccmd b'). change (e_id (core b)) with (b_id ccmd b). rewrite H1.
  destruct (N.eqb (b_id ccmd b) j).
  - cbn. unfold e_par, e_h, core. cbn. rewrite H2, H3. reflexivity.
  - apply (IH r' H5 j).
Qed.
Lemma gs_of_static : forall s s' j,
    map (static ccmd) (blocks _ _ s') = map (static ccmd) (blocks _ _ s) -> gs_of s' j = gs_of s j.
Proof.
  intros s s' j. unfold gs_of. generalize (blocks pstate ccmd s) (blocks pstate ccmd s').
  induction l as [|b r IH]; intros l' H; destruct l' as [|b' r']; cbn in H; try discriminate; [reflexivity|].
  inversion H as [[H1 H2 H3 H4 H5]]. cbn. rewrite H1. destruct (N.eqb (b_id ccmd b) j); [exact H4|apply IH; exact H5].
Qed.
Lemma bgs_static : forall s s' n i,
    map (static ccmd) (blocks _ _ s') = map (static ccmd) (blocks _ _ s) -> bgs s' n i = bgs s n i.
Proof.
  intros s s' n i H. unfold bgs. f_equal.
  rewrite (anc_list_static (cores s) (cores s') n i (same_static_of_static _ _ H)).
  apply map_ext. intros j. apply gs_of_static. exact H.
Qed.
Lemma depth_static : forall s s' i,
    map (static ccmd) (blocks _ _ s') = map (static ccmd) (blocks _ _ s) -> root _ _ s' = root _ _ s -> depth s' i = depth s i.
Proof.
  intros s s' i H R. unfold depth. rewrite R. rewrite !(hgt_static _ _ _ (same_static_of_static _ _ H)). reflexivity.
Qed.

Lemma truthful_ext : forall base s s',
    map (static ccmd) (blocks _ _ s') = map (static ccmd) (blocks _ _ s) -> root _ _ s' = root _ _ s ->
    (forall b', In b' (blocks _ _ s') -> N.leb L_FULL (b_lvl _ b') = true ->
                exists b0, In b0 (blocks _ _ s) /\ b_id _ b0 = b_id _ b' /\ N.leb L_FULL (b_lvl _ b0) = true) ->
    truthful base s -> truthful base s'.
Proof.
  intros base s s' H R HL T b' Hin Hl. destruct (HL b' Hin Hl) as (b0 & Hin0 & Hid & Hl0).
  destruct (T b0 Hin0 Hl0) as (p' & Hp). exists p'.
  rewrite (depth_static _ _ _ H R), (bgs_static _ _ _ _ H), <- Hid. exact Hp.
Qed.

Lemma in_upd : forall (l : list (blk ccmd)) i f b', In b' (upd ccmd l i f) ->
    exists b0, In b0 l /\ b' = (if N.eqb (b_id _ b0) i then f b0 else b0).
Proof. intros l i f b' H. unfold upd in H. apply in_map_iff in H. destruct H as (b0 & A & B). exists b0. split; [exact B|symmetry; exact A]. Qed.

Lemma wf_napp_pos : forall s, wf s -> 1 <= Z.of_N (napp _ _ s).
Proof.
  intros s (_ & (hr & HR) & _ & HN0). apply cfind_some in HR. destruct HR as [_ Hin].
  assert (In (root pstate ccmd s, root pstate ccmd s, hr, true) (filter e_act (cores s))) by (apply filter_In; split; [exact Hin|reflexivity]).
  assert (1 <= nact (cores s))%nat by (unfold nact; destruct (filter e_act (cores s)); [destruct H|cbn; lia]).
  rewrite HN0, nat_N_Z. lia.
Qed.

(** the key step: applyBlock raises to the fully-valid level only when the replay of root..block succeeds *)
Lemma raise_truthful : forall base s i b pb p',
    wf s -> canon base s -> truthful base s ->
    find ccmd (blocks _ _ s) i = Some b -> find ccmd (blocks _ _ s) (b_par _ b) = Some pb ->
    i <> root _ _ s -> b_act _ pb = true -> valid_upto _ pb L_FULL = true ->
    b_h _ b = root_h _ _ s + Z.of_N (napp _ _ s) ->
    gsexec pstate ccmd cexec cunexec [] (b_gs _ b) (pst _ _ s) = (p', true) ->
    exists pr, replay (bgs s (depth s i) i) base = Some pr.
Proof.
  intros base s i b pb p' W C T Fi Fp Hir Pa Pv Hh E.
  set (cur := b_par ccmd b).
  pose proof (find_cfind _ _ _ Fi) as Ci. pose proof (find_cfind _ _ _ Fp) as Cp.
  pose proof (wf_parent_height _ _ _ W Ci Hir) as Hph. change (e_par (core b)) with cur in Hph.
  assert (Hi : hgt (cores s) i = b_h ccmd b) by (unfold hgt; rewrite Ci; reflexivity).
  assert (Hc : hgt (cores s) cur = b_h ccmd pb) by (unfold hgt, cur; rewrite Cp; reflexivity).
  rewrite root_h_hgt in Hh.
  (* the state seen from the parent: nothing but root..parent is applied *)
  set (sc := mkSt pstate ccmd (blocks _ _ s) (root _ _ s) cur (napp _ _ s) (pst _ _ s)).
  assert (Q : quiet sc).
  { unfold quiet, wf, cores, sc. cbn [blocks root tip napp]. fold (cores s). split; [exact W|]. split.
    - exists (core pb). split; [exact Cp|exact Pa].
    - lia. }
  pose proof (active_items_chain sc Q) as HA. change (blocks pstate ccmd sc) with (blocks pstate ccmd s) in HA.
  assert (Hcg : chain_gs sc = map (gs_of s) (anc_list (cores s) (depth s cur) cur)) by reflexivity.
  rewrite Hcg in HA.
  (* the parent is fully valid: its replay succeeds *)
  assert (Hpl : N.leb L_FULL (b_lvl ccmd pb) = true).
  { unfold valid_upto in Pv. apply andb_prop in Pv. destruct Pv as [_ Pv]. exact Pv. }
  pose proof (find_some_in _ _ _ Fp) as [Hpin Hpid].
  destruct (T pb Hpin Hpl) as (pr0 & Hr0). rewrite Hpid in Hr0. fold cur in Hr0.
  (* P is a permutation of the result of that replay *)
  assert (HP : Permutation (pst _ _ s) pr0).
  { destruct C as [CP _]. eapply perm_trans; [exact CP|]. symmetry. eapply perm_trans; [apply replay_items; exact Hr0|].
    apply Permutation_app_tail. unfold bgs. eapply perm_trans; [apply flat_map_rev_perm|]. symmetry. exact HA. }
  destruct (gsexec_perm _ [] [] _ _ _ HP E) as (q' & E' & _).
  exists q'.
  assert (Hd : depth s i = S (depth s cur)).
  { unfold depth. rewrite Hph. pose proof (wf_napp_pos s W) as Hpos.
    assert (0 <= hgt (cores s) cur - hgt (cores s) (root pstate ccmd s)) by lia.
    replace (hgt (cores s) cur + 1 - hgt (cores s) (root pstate ccmd s)) with (Z.succ (hgt (cores s) cur - hgt (cores s) (root pstate ccmd s))) by lia.
    rewrite Z2Nat.inj_succ by lia. reflexivity. }
  rewrite Hd. unfold bgs. cbn [anc_list map rev].
  assert (Hpar : parent (cores s) i = cur) by (unfold parent; rewrite Ci; reflexivity).
  rewrite Hpar. fold (bgs s (depth s cur) cur). rewrite replay_app, Hr0.
  assert (Hg : gs_of s i = b_gs ccmd b) by (unfold gs_of; rewrite Fi; reflexivity).
  rewrite Hg. cbn. rewrite E'. reflexivity.
Qed.

Lemma truthful_apply : forall base s i s' ok,
    wf s -> canon base s -> truthful base s -> c_applyBlock s i = Ok (s', ok) -> truthful base s'.
Proof.
  intros base s i s' ok W C T H. destruct ok.
  - pose proof (staticInv_apply _ _ _ _ _ (eq_refl : staticInv (map (static ccmd) (blocks _ _ s)) s) H) as HS.
    unfold staticInv in HS.
    destruct (apply_ok_core _ _ _ W H) as (_ & _ & _ & HR & _).
    unfold c_applyBlock, applyBlock in H.
    destruct (find ccmd (blocks pstate ccmd s) i) as [b|] eqn:Fi; [|discriminate].
    destruct (N.eqb i (root pstate ccmd s)) eqn:R; [discriminate|]. apply N.eqb_neq in R.
    destruct (find ccmd (blocks pstate ccmd s) (b_par ccmd b)) as [pb|] eqn:Fp; [|discriminate].
    destruct (negb (b_act ccmd pb)) eqn:Pa; [discriminate|]. apply negb_false_iff in Pa.
    destruct (b_act ccmd b); [discriminate|].
    destruct (child_active ccmd (blocks pstate ccmd s) i); [discriminate|].
    destruct (b_fc ccmd b); [discriminate|].
    destruct (is_failed ccmd b); [discriminate|].
    destruct (N.ltb (b_lvl ccmd b) L_CONNECTED); [discriminate|].
    destruct (gsexec pstate ccmd cexec cunexec [] (b_gs ccmd b) (pst pstate ccmd s)) as [p' ok] eqn:E.
    destruct ok; cbn [negb] in H; [|destruct (invalidate_pop pstate ccmd _ i); cbn in H; [inversion H|discriminate]].
    destruct (N.ltb (b_lvl ccmd b) _ && N.ltb (b_lvl ccmd pb) _); [discriminate|].
    inversion H; subst s'; clear H.
    intros b' Hin Hl. cbn [blocks] in Hin. apply in_upd in Hin. destruct Hin as (b0 & Hin0 & ->).
    rewrite (depth_static _ _ _ HS HR), (bgs_static _ _ _ _ HS).
    destruct (N.eqb (b_id ccmd b0) i) eqn:E0.
    + apply N.eqb_eq in E0. cbn [b_id set_act raise_lvl]. rewrite E0.
      assert (b0 = b).
      { destruct C as [_ ND]. pose proof (find_in_blocks _ _ ND Hin0) as F. rewrite E0, Fi in F. inversion F. reflexivity. }
      subst b0. cbn [b_lvl set_act raise_lvl] in Hl.
      destruct (N.leb L_FULL (b_lvl ccmd b)) eqn:Lb.
      * destruct (T b Hin0 Lb) as (pp & Hp). rewrite E0 in Hp. exists pp. exact Hp.
      * destruct (valid_upto ccmd pb L_FULL && Z.eqb (b_h ccmd b) (root_h pstate ccmd s + Z.of_N (napp pstate ccmd s))) eqn:Full.
        -- apply andb_prop in Full. destruct Full as [Pv Hh]. apply Z.eqb_eq in Hh.
           eapply raise_truthful; eassumption.
        -- exfalso. apply N.leb_gt in Lb. unfold L_FULL, L_MAYBE in *.
           destruct (N.ltb (b_lvl ccmd b) 3) eqn:L3; [cbn in Hl; discriminate|].
           apply N.ltb_ge in L3. apply N.leb_le in Hl. lia.
    + destruct (T b0 Hin0 Hl) as (pp & Hp). exists pp. exact Hp.
  - pose proof H as H0. apply c_applyBlock_atomic in H. destruct H as (_ & _ & _ & HR & Hs).
    eapply truthful_ext; [apply static_strip_eq; exact Hs|exact HR| |exact T].
    intros b' Hin Hl.
    assert (Hm : In (strip ccmd b') (map (strip ccmd) (blocks _ _ s))) by (rewrite <- Hs; apply in_map; exact Hin).
    apply in_map_iff in Hm. destruct Hm as (b0 & Hst & Hin0). exists b0. split; [exact Hin0|].
    assert (b_id ccmd b0 = b_id ccmd b' /\ b_lvl ccmd b0 = b_lvl ccmd b') by (split; [exact (f_equal (b_id ccmd) Hst)|exact (f_equal (b_lvl ccmd) Hst)]).
    destruct H as [A B]. split; [exact A|rewrite B; exact Hl].
Qed.

Lemma truthful_unapply : forall base s i s',
    truthful base s -> c_unapplyBlock s i = Ok s' -> truthful base s'.
Proof.
  intros base s i s' T H.
  pose proof (staticInv_unapply _ _ _ _ (eq_refl : staticInv (map (static ccmd) (blocks _ _ s)) s) H) as HS.
  unfold staticInv in HS.
  unfold c_unapplyBlock, unapplyBlock in H.
  destruct (find ccmd (blocks pstate ccmd s) i) as [b|]; [|discriminate].
  destruct (N.eqb i (root pstate ccmd s)); [discriminate|].
  destruct (negb (b_act ccmd b)); [discriminate|].
  destruct (find ccmd (blocks pstate ccmd s) (b_par ccmd b)) as [pb|]; [|discriminate].
  destruct (negb (b_act ccmd pb)); [discriminate|].
  destruct (child_active ccmd (blocks pstate ccmd s) i); [discriminate|].
  destruct (N.eqb (napp pstate ccmd s) 0); [discriminate|].
  inversion H; subst s'; clear H.
  eapply truthful_ext; [exact HS|reflexivity| |exact T].
  intros b' Hin Hl. cbn [blocks] in Hin. apply in_upd in Hin. destruct Hin as (b0 & Hin0 & ->).
  exists b0. split; [exact Hin0|]. destruct (N.eqb (b_id ccmd b0) i); split; try reflexivity; exact Hl.
Qed.

(** the three invariants together are preserved by every block-level step, hence by every walk *)
Definition tinv (base : pstate) (s : cst) : Prop := wf s /\ canon base s /\ truthful base s.
Lemma tinv_apply : forall base s i s' ok, tinv base s -> c_applyBlock s i = Ok (s', ok) -> tinv base s'.
Proof.
  intros base s i s' ok (W & C & T) H. split; [|split].
  - destruct ok; [exact (proj1 (apply_ok_core _ _ _ W H))|].
    destruct (apply_fail_core _ _ _ H) as (C1 & N1 & R1 & _). unfold wf. rewrite C1, R1, N1. exact W.
  - eapply canon_apply; eassumption.
  - eapply truthful_apply; eassumption.
Qed.
Lemma tinv_unapply : forall base s i s', tinv base s -> c_unapplyBlock s i = Ok s' -> tinv base s'.
Proof.
  intros base s i s' (W & C & T) H. split; [|split].
  - exact (proj1 (unapply_core _ _ _ W H)).
  - eapply canon_unapply; eassumption.
  - eapply truthful_unapply; eassumption.
Qed.

Lemma truthful_setState : forall base s to s' ok,
    quiet s -> canon base s -> truthful base s -> c_setState s to = Ok (s', ok) -> truthful base s'.
Proof.
  intros base s to s' ok Q C T H. pose proof Q as (W & _).
  unfold c_setState, setState in H.
  destruct (find ccmd (blocks pstate ccmd s) (tip pstate ccmd s)) as [bt|]; [|discriminate].
  destruct (find ccmd (blocks pstate ccmd s) to) as [b0|]; [|discriminate].
  destruct (negb _); [discriminate|].
  match type of H with bind ?e _ = _ => destruct e as [[s1 ok1]|] eqn:E end; cbn [bind] in H; [|discriminate].
  assert (T1 : tinv base s1).
  { destruct (N.eqb (tip pstate ccmd s) to); [inversion E; subst; split; [exact W|split; assumption]|].
    exact (Inv_sm_setState pstate ccmd cexec cunexec (tinv base) (tinv_apply base) (tinv_unapply base) s _ _ s1 ok1
             (conj W (conj C T)) E). }
  destruct T1 as (_ & _ & T1).
  destruct (find ccmd (blocks pstate ccmd s1) to) as [bto|]; [|discriminate].
  destruct ok1.
  - destruct (valid_upto ccmd bto L_FULL); inversion H; subst; clear H.
    eapply truthful_ext; [reflexivity|reflexivity| |exact T1].
    intros b' Hin Hl. exists b'. split; [exact Hin|split; [reflexivity|exact Hl]].
  - destruct (negb (is_failed ccmd bto)); [discriminate|]. destruct (negb _); inversion H; subst. exact T1.
Qed.

(** ** connectBlock *)
Lemma find_app_some : forall (l : list (blk ccmd)) x j b, find ccmd l j = Some b -> find ccmd (l ++ [x]) j = Some b.
Proof. induction l as [|y r IH]; intros x j b H; cbn in *; [discriminate|]. destruct (N.eqb (b_id ccmd y) j); [exact H|apply IH; exact H]. Qed.

Lemma anc_list_app : forall l x n i,
    (forall j e, cfind l j = Some e -> exists pe, cfind l (e_par e) = Some pe) ->
    (exists e, cfind l i = Some e) -> anc_list (l ++ [x]) n i = anc_list l n i.
Proof.
  intros l x n. induction n as [|n IH]; intros i Hcl (e & He); [reflexivity|]. cbn.
  assert (Hp : parent (l ++ [x]) i = parent l i).
  { unfold parent. rewrite (cfind_app_some _ x _ _ He), He. reflexivity. }
  rewrite Hp. f_equal. apply IH; [exact Hcl|]. unfold parent. rewrite He. eapply Hcl. exact He.
Qed.

Lemma wf_closed : forall s, wf s -> forall j e, cfind (cores s) j = Some e -> exists pe, cfind (cores s) (e_par e) = Some pe.
Proof.
  intros s (ND & (hr & HR) & HP & _) j e He. pose proof (cfind_some _ _ _ He) as [Hid Hin].
  destruct (N.eq_dec (e_id e) (root _ _ s)) as [Heq|Hne].
  - pose proof (cfind_in _ _ ND Hin) as F. rewrite Heq, HR in F. inversion F; subst e. exists (root pstate ccmd s, root pstate ccmd s, hr, true). exact HR.
  - destruct (HP e Hin Hne) as (pe & Hpe & _). exists pe. exact Hpe.
Qed.

Lemma truthful_connect : forall base s i par dup gs s',
    wf s -> truthful base s -> c_connect s i par dup gs = Ok s' -> truthful base s'.
Proof.
  intros base s i par dup gs s' W T H. unfold c_connect, connect in H.
  destruct (find ccmd (blocks pstate ccmd s) par) as [pb|] eqn:Fp; [|discriminate].
  destruct (find ccmd (blocks pstate ccmd s) i) eqn:Fi; [discriminate|].
  inversion H; subst s'; clear H.
  set (nb := mkBlk ccmd i par (b_h ccmd pb + 1) L_CONNECTED false dup (is_failed ccmd pb) false gs).
  intros b' Hin Hl. cbn [blocks with_blocks] in Hin. apply in_app_or in Hin. destruct Hin as [Hin|[<-|[]]]; [|cbn in Hl; discriminate].
  destruct (T b' Hin Hl) as (pp & Hp). exists pp.
  assert (NDi : NoDup (ids (blocks _ _ s))).
  { destruct W as (ND & _). unfold ids. unfold cores in ND. rewrite map_map in ND. exact ND. }
  pose proof (find_in_blocks _ _ NDi Hin) as Fb. pose proof (find_cfind _ _ _ Fb) as Cb.
  assert (C' : cores (with_blocks pstate ccmd s (blocks pstate ccmd s ++ [nb])) = cores s ++ [core nb]).
  { unfold cores. cbn [blocks with_blocks]. rewrite map_app. reflexivity. }
  assert (Hh : forall j e, cfind (cores s) j = Some e -> hgt (cores s ++ [core nb]) j = hgt (cores s) j).
  { intros j e He. unfold hgt. rewrite (cfind_app_some _ _ _ _ He), He. reflexivity. }
  assert (Hd : depth (with_blocks pstate ccmd s (blocks pstate ccmd s ++ [nb])) (b_id ccmd b') = depth s (b_id ccmd b')).
  { unfold depth. rewrite C'. cbn [root with_blocks]. destruct W as (_ & (hr & HR) & _). rewrite (Hh _ _ Cb), (Hh _ _ HR). reflexivity. }
  rewrite Hd. unfold bgs. rewrite C'.
  rewrite (anc_list_app _ _ _ _ (wf_closed s W) (ex_intro _ _ Cb)).
  assert (Hg : forall j, In j (anc_list (cores s) (depth s (b_id ccmd b')) (b_id ccmd b')) ->
                         gs_of (with_blocks pstate ccmd s (blocks pstate ccmd s ++ [nb])) j = gs_of s j).
  { intros j Hj. unfold gs_of. cbn [blocks with_blocks].
    assert (exists e, cfind (cores s) j = Some e).
    { clear - Hj W Cb. revert Hj. generalize (depth s (b_id ccmd b')). intros n. revert Cb. generalize (core b'). generalize (b_id ccmd b').
      induction n as [|n IH]; intros k e Ck Hj; cbn in Hj.
      - destruct Hj as [<-|[]]. exists e. exact Ck.
      - destruct Hj as [<-|Hj]; [exists e; exact Ck|].
        destruct (wf_closed s W _ _ Ck) as (pe & Hpe). apply (IH (parent (cores s) k) pe); [|exact Hj].
        unfold parent. rewrite Ck. exact Hpe. }
    destruct H as (e & He). unfold cores in He. rewrite cfind_core in He.
    destruct (find ccmd (blocks pstate ccmd s) j) as [bj|] eqn:Fj; [|discriminate].
    rewrite (find_app_some _ _ _ _ Fj). reflexivity. }
  rewrite (map_ext_in _ _ _ Hg). exact Hp.
Qed.

(** ** C20: full_validity_truthful over all histories of connectBlock / setState *)
Lemma tq_run : forall base ops s s', no_compare ops ->
    quiet s -> canon base s -> truthful base s -> run s ops = Ok s' ->
    quiet s' /\ canon base s' /\ truthful base s'.
Proof.
  induction ops as [|o r IH]; intros s s' NC Q C T H; cbn in H.
  - inversion H; subst. auto.
  - destruct (step_op s o) as [s1|] eqn:E; cbn in H; [|discriminate].
    destruct o as [i par dup gs|to|c sc cr]; cbn in E, NC; [| |destruct NC].
    + eapply IH; [exact NC| | | |exact H].
      * eapply quiet_connect; eassumption.
      * eapply canon_connect; eassumption.
      * eapply truthful_connect; [exact (proj1 Q)|exact T|exact E].
    + destruct (c_setState s to) as [[s2 ok]|] eqn:E2; cbn in E; [|discriminate]. inversion E; subst.
      eapply IH; [exact NC| | | |exact H].
      * eapply quiet_setState; eassumption.
      * eapply canon_setState; eassumption.
      * eapply truthful_setState; eassumption.
Qed.

Theorem full_validity_truthful : forall base r h ops s,
    no_compare ops -> run (c_init r h base) ops = Ok s ->
    forall b, In b (blocks _ _ s) -> N.leb L_FULL (b_lvl _ b) = true ->
              exists p', replay (bgs s (depth s (b_id _ b)) (b_id _ b)) base = Some p'.
Proof.
  intros base r h ops s NC R.
  assert (X : quiet s /\ canon base s /\ truthful base s).
  { eapply tq_run; [exact NC|apply quiet_init| | |exact R].
    - split; cbn; [reflexivity|constructor; [intros []|constructor]].
    - intros b [<-|[]] _. exists base. unfold depth, bgs, hgt, cores, c_init, init. cbn [blocks root map core b_id b_par b_h b_act cfind e_id fst snd].
      rewrite N.eqb_refl. cbn [e_h snd fst]. rewrite Z.sub_diag. cbn [Z.to_nat anc_list map rev app].
      unfold gs_of. cbn [blocks find b_id]. rewrite N.eqb_refl. reflexivity. }
  exact (proj2 (proj2 X)).
Qed.
