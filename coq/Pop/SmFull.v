(** POP state machine — the active chain is fully valid in every reachable state. *)
From Coq Require Import List ZArith NArith Bool Lia Permutation.
Import ListNotations.
From VB Require Import Pop.SmDefs Pop.SmProofs Pop.SmWf Pop.SmTruth Pop.SmCmp Pop.SmCoh.
Local Open Scope Z_scope.

Ltac dbind H :=
  match type of H with
  | bind ?e _ = Ok _ => let E := fresh "E" in destruct e eqn:E; cbn [bind] in H; [|discriminate]
  end.

Lemma find_strip_eq : forall (l l' : list cblk) j,
    map (strip ccmd) l' = map (strip ccmd) l ->
    option_map (strip ccmd) (bfind l' j) = option_map (strip ccmd) (bfind l j).
Proof.
  induction l as [|x r IH]; intros l' j H; destruct l' as [|x' r']; cbn in H; try discriminate; [reflexivity|].
  assert (Hx : strip ccmd x' = strip ccmd x) by exact (f_equal (fun t => hd (strip ccmd x) t) H).
  assert (Hr : map (strip ccmd) r' = map (strip ccmd) r) by exact (f_equal (@tl _) H). cbn [bfind].
  assert (Hid : b_id ccmd x' = b_id ccmd x) by exact (f_equal (b_id ccmd) Hx). rewrite Hid.
  destruct (N.eqb (b_id ccmd x) j); [cbn; f_equal; exact Hx|apply IH; exact Hr].
Qed.

(** levels never decrease *)
Definition lvl_ge (u : N) (j : N) (s : cst) : Prop := exists b, bfind (blocks _ _ s) j = Some b /\ N.le u (b_lvl _ b).

Lemma lvl_ge_apply : forall u j s i s' ok, lvl_ge u j s -> c_applyBlock s i = Ok (s', ok) -> lvl_ge u j s'.
Proof.
  intros u j s i s' ok (b & Fb & Hl) H. destruct ok.
  - unfold c_applyBlock, applyBlock in H.
    destruct (bfind (blocks pstate ccmd s) i) as [bi|]; [|discriminate].
    destruct (N.eqb i (root pstate ccmd s)); [discriminate|].
    destruct (bfind (blocks pstate ccmd s) (b_par ccmd bi)) as [pb|]; [|discriminate].
    destruct (negb (b_act ccmd pb)); [discriminate|].
    destruct (b_act ccmd bi); [discriminate|].
    destruct (child_active ccmd (blocks pstate ccmd s) i); [discriminate|].
    destruct (b_fc ccmd bi); [discriminate|].
    destruct (is_failed ccmd bi); [discriminate|].
    destruct (N.ltb (b_lvl ccmd bi) L_CONNECTED); [discriminate|].
    destruct (gsexec pstate ccmd cexec cunexec [] (b_gs ccmd bi) (pst pstate ccmd s)) as [p' okg].
    destruct okg; cbn [negb] in H; [|destruct (invalidate_pop pstate ccmd _ i); cbn in H; [inversion H|discriminate]].
    match type of H with (if ?c then _ else _) = _ => destruct c end; [discriminate|]. inversion H; subst s'; clear H.
    unfold lvl_ge. cbn [blocks]. rewrite find_upd_any by reflexivity. rewrite Fb. cbn.
    eexists. split; [reflexivity|]. destruct (N.eqb (b_id ccmd b) i); [|exact Hl].
    match goal with |- N.le u (b_lvl ccmd (set_act ccmd true (raise_lvl ccmd ?up b))) => pose proof (apf_lvl_ge up b) as Hge end.
    unfold apf in Hge. lia.
  - apply c_applyBlock_atomic in H. destruct H as (_ & _ & _ & _ & Hs).
    pose proof (find_strip_eq _ _ j Hs) as E. rewrite Fb in E.
    destruct (bfind (blocks pstate ccmd s') j) as [b'|] eqn:Fb'; [|discriminate]. cbn in E.
    assert (E0 : strip ccmd b' = strip ccmd b) by congruence.
    assert (E' : b_lvl ccmd b' = b_lvl ccmd b) by exact (f_equal (b_lvl ccmd) E0).
    exists b'. split; [exact Fb'|]. rewrite E'. exact Hl.
Qed.
Lemma lvl_ge_unapply : forall u j s i s', lvl_ge u j s -> c_unapplyBlock s i = Ok s' -> lvl_ge u j s'.
Proof.
  intros u j s i s' (b & Fb & Hl) H. unfold c_unapplyBlock, unapplyBlock in H.
  destruct (bfind (blocks pstate ccmd s) i) as [bi|]; [|discriminate].
  destruct (N.eqb i (root pstate ccmd s)); [discriminate|].
  destruct (negb (b_act ccmd bi)); [discriminate|].
  destruct (bfind (blocks pstate ccmd s) (b_par ccmd bi)) as [pb|]; [|discriminate].
  destruct (negb (b_act ccmd pb)); [discriminate|].
  destruct (child_active ccmd (blocks pstate ccmd s) i); [discriminate|].
  destruct (N.eqb (napp pstate ccmd s) 0); [discriminate|].
  inversion H; subst. unfold lvl_ge. cbn [blocks]. rewrite find_upd_any by reflexivity. rewrite Fb. cbn.
  eexists. split; [reflexivity|]. destruct (N.eqb (b_id ccmd b) i); exact Hl.
Qed.
Lemma lvl_ge_tip : forall u j (s : cst) t n, lvl_ge u j s -> lvl_ge u j (mkSt pstate ccmd (blocks _ _ s) (root _ _ s) t n (pst _ _ s)).
Proof. intros u j s t n H. exact H. Qed.

Lemma lvl_ge_apply_path : forall u j path s from s' ok,
    lvl_ge u j s -> apply_path pstate ccmd cexec cunexec s from path = Ok (s', ok) -> lvl_ge u j s'.
Proof. intros u j path s from s' ok. apply (Inv_apply_path pstate ccmd cexec cunexec (lvl_ge u j) (lvl_ge_apply u j) (lvl_ge_unapply u j)). Qed.
Lemma lvl_ge_apply_range : forall u j s a b s' ok,
    lvl_ge u j s -> apply pstate ccmd cexec cunexec s a b = Ok (s', ok) -> lvl_ge u j s'.
Proof. intros u j s a b s' ok. apply (Inv_apply_range pstate ccmd cexec cunexec (lvl_ge u j) (lvl_ge_apply u j) (lvl_ge_unapply u j)). Qed.
Lemma lvl_ge_unapply_range : forall u j s a b s',
    lvl_ge u j s -> unapply pstate ccmd cunexec s a b = Ok s' -> lvl_ge u j s'.
Proof. intros u j s a b s'. apply (Inv_unapply_range pstate ccmd cunexec (lvl_ge u j) (lvl_ge_unapply u j)). Qed.
Lemma lvl_ge_uw : forall u j fuel s cur to pred s' w,
    lvl_ge u j s -> unapplyWhile pstate ccmd cunexec fuel s cur to pred = Ok (s', w) -> lvl_ge u j s'.
Proof. intros u j fuel s cur to pred s' w. apply (Inv_unapplyWhile pstate ccmd cunexec (lvl_ge u j) (lvl_ge_unapply u j)). Qed.
Lemma lvl_ge_setState : forall u j s to s' ok, lvl_ge u j s -> c_setState s to = Ok (s', ok) -> lvl_ge u j s'.
Proof. intros u j s to s' ok. apply (Inv_setState pstate ccmd cexec cunexec (lvl_ge u j) (lvl_ge_apply u j) (lvl_ge_unapply u j) (lvl_ge_tip u j)). Qed.
Lemma lvl_ge_compare : forall u j sc cr s c s' r, lvl_ge u j s -> c_compare sc cr s c = Ok (s', r) -> lvl_ge u j s'.
Proof.
  intros u j sc cr s c s' r.
  apply (Inv_compare pstate ccmd cexec cunexec (lvl_ge u j) (lvl_ge_apply u j) (lvl_ge_unapply u j) sc cr (fun s0 t H => lvl_ge_tip u j s0 t _ H)).
Qed.
