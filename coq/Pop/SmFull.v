(** POP state machine — the active chain is fully valid in every reachable state. *)
From Coq Require Import List ZArith NArith Bool Lia Permutation.
Import ListNotations.
From VB Require Import Pop.SmDefs Pop.SmProofs Pop.SmWf Pop.SmTruth Pop.SmCmp Pop.SmAll Pop.SmCoh.
Local Open Scope Z_scope.

Ltac dbind H :=
  match type of H with
  | bind ?e _ = Ok _ => let E := fresh "E" in destruct e eqn:E; cbn [bind] in H; [|discriminate]
  end.

Lemma find_strip_eq : forall (l l' : list cblk) j,
    map (strip ccmd) l' = map (strip ccmd) l ->
    option_map (strip ccmd) (bfind l' j) = option_map (strip ccmd) (bfind l j).
Proof.
  induction l as [|x r IH]; intros l' j H; destruct l' as [|x' r']; cbn in H; try discriminate; [reflexivity|].
  assert (Hx : strip ccmd x' = strip ccmd x) by exact (f_equal (fun t => hd (strip ccmd x) t) H).
  assert (Hr : map (strip ccmd) r' = map (strip ccmd) r) by exact (f_equal (@tl _) H). cbn [bfind].
  assert (Hid : b_id ccmd x' = b_id ccmd x) by exact (f_equal (b_id ccmd) Hx). rewrite Hid.
  destruct (N.eqb (b_id ccmd x) j); [cbn; f_equal; exact Hx|apply IH; exact Hr].
Qed.

(** levels never decrease *)
Definition lvl_ge (u : N) (j : N) (s : cst) : Prop := exists b, bfind (blocks _ _ s) j = Some b /\ N.le u (b_lvl _ b).

Lemma lvl_ge_apply : forall u j s i s' ok, lvl_ge u j s -> c_applyBlock s i = Ok (s', ok) -> lvl_ge u j s'.
Proof.
  intros u j s i s' ok (b & Fb & Hl) H. destruct ok.
  - unfold c_applyBlock, applyBlock in H.
    destruct (bfind (blocks pstate ccmd s) i) as [bi|]; [|discriminate].
    destruct (N.eqb i (root pstate ccmd s)); [discriminate|].
    destruct (bfind (blocks pstate ccmd s) (b_par ccmd bi)) as [pb|]; [|discriminate].
    destruct (negb (b_act ccmd pb)); [discriminate|].
    destruct (b_act ccmd bi); [discriminate|].
    destruct (child_active ccmd (blocks pstate ccmd s) i); [discriminate|].
    destruct (b_fc ccmd bi); [discriminate|].
    destruct (is_failed ccmd bi); [discriminate|].
    destruct (N.ltb (b_lvl ccmd bi) L_CONNECTED); [discriminate|].
    destruct (gsexec pstate ccmd cexec cunexec [] (b_gs ccmd bi) (pst pstate ccmd s)) as [p' okg].
    destruct okg; cbn [negb] in H; [|destruct (invalidate_pop pstate ccmd _ i); cbn in H; [inversion H|discriminate]].
    match type of H with (if ?c then _ else _) = _ => destruct c end; [discriminate|]. inversion H; subst s'; clear H.
    unfold lvl_ge. cbn [blocks]. rewrite find_upd_any by reflexivity. rewrite Fb. cbn.
    eexists. split; [reflexivity|]. destruct (N.eqb (b_id ccmd b) i); [|exact Hl].
    match goal with |- N.le u (b_lvl ccmd (set_act ccmd true (raise_lvl ccmd ?up b))) => pose proof (apf_lvl_ge up b) as Hge end.
    unfold apf in Hge. lia.
  - apply c_applyBlock_atomic in H. destruct H as (_ & _ & _ & _ & Hs).
    pose proof (find_strip_eq _ _ j Hs) as E. rewrite Fb in E.
    destruct (bfind (blocks pstate ccmd s') j) as [b'|] eqn:Fb'; [|discriminate]. cbn in E.
    assert (E0 : strip ccmd b' = strip ccmd b) by congruence.
    assert (E' : b_lvl ccmd b' = b_lvl ccmd b) by exact (f_equal (b_lvl ccmd) E0).
    exists b'. split; [exact Fb'|]. rewrite E'. exact Hl.
Qed.
Lemma lvl_ge_unapply : forall u j s i s', lvl_ge u j s -> c_unapplyBlock s i = Ok s' -> lvl_ge u j s'.
Proof.
  intros u j s i s' (b & Fb & Hl) H. unfold c_unapplyBlock, unapplyBlock in H.
  destruct (bfind (blocks pstate ccmd s) i) as [bi|]; [|discriminate].
  destruct (N.eqb i (root pstate ccmd s)); [discriminate|].
  destruct (negb (b_act ccmd bi)); [discriminate|].
  destruct (bfind (blocks pstate ccmd s) (b_par ccmd bi)) as [pb|]; [|discriminate].
  destruct (negb (b_act ccmd pb)); [discriminate|].
  destruct (child_active ccmd (blocks pstate ccmd s) i); [discriminate|].
  destruct (N.eqb (napp pstate ccmd s) 0); [discriminate|].
  inversion H; subst. unfold lvl_ge. cbn [blocks]. rewrite find_upd_any by reflexivity. rewrite Fb. cbn.
  eexists. split; [reflexivity|]. destruct (N.eqb (b_id ccmd b) i); exact Hl.
Qed.
Lemma lvl_ge_tip : forall u j (s : cst) t n, lvl_ge u j s -> lvl_ge u j (mkSt pstate ccmd (blocks _ _ s) (root _ _ s) t n (pst _ _ s)).
Proof. intros u j s t n H. exact H. Qed.

Lemma lvl_ge_apply_path : forall u j path s from s' ok,
    lvl_ge u j s -> apply_path pstate ccmd cexec cunexec s from path = Ok (s', ok) -> lvl_ge u j s'.
Proof. intros u j path s from s' ok. apply (Inv_apply_path pstate ccmd cexec cunexec (lvl_ge u j) (lvl_ge_apply u j) (lvl_ge_unapply u j)). Qed.
Lemma lvl_ge_apply_range : forall u j s a b s' ok,
    lvl_ge u j s -> apply pstate ccmd cexec cunexec s a b = Ok (s', ok) -> lvl_ge u j s'.
Proof. intros u j s a b s' ok. apply (Inv_apply_range pstate ccmd cexec cunexec (lvl_ge u j) (lvl_ge_apply u j) (lvl_ge_unapply u j)). Qed.
Lemma lvl_ge_unapply_range : forall u j s a b s',
    lvl_ge u j s -> unapply pstate ccmd cunexec s a b = Ok s' -> lvl_ge u j s'.
Proof. intros u j s a b s'. apply (Inv_unapply_range pstate ccmd cunexec (lvl_ge u j) (lvl_ge_unapply u j)). Qed.
Lemma lvl_ge_uw : forall u j fuel s cur to pred s' w,
    lvl_ge u j s -> unapplyWhile pstate ccmd cunexec fuel s cur to pred = Ok (s', w) -> lvl_ge u j s'.
Proof. intros u j fuel s cur to pred s' w. apply (Inv_unapplyWhile pstate ccmd cunexec (lvl_ge u j) (lvl_ge_unapply u j)). Qed.
Lemma lvl_ge_setState : forall u j s to s' ok, lvl_ge u j s -> c_setState s to = Ok (s', ok) -> lvl_ge u j s'.
Proof. intros u j s to s' ok. apply (Inv_setState pstate ccmd cexec cunexec (lvl_ge u j) (lvl_ge_apply u j) (lvl_ge_unapply u j) (lvl_ge_tip u j)). Qed.
Lemma lvl_ge_compare : forall u j sc cr s c s' r, lvl_ge u j s -> c_compare sc cr s c = Ok (s', r) -> lvl_ge u j s'.
Proof.
  intros u j sc cr s c s' r.
  apply (Inv_compare pstate ccmd cexec cunexec (lvl_ge u j) (lvl_ge_apply u j) (lvl_ge_unapply u j) sc cr (fun s0 t H => lvl_ge_tip u j s0 t _ H)).
Qed.

(** ** a chain applied alone becomes fully valid *)
Lemma is_act_find : forall s j, is_act (cores s) j -> exists b, bfind (blocks _ _ s) j = Some b /\ b_act _ b = true.
Proof.
  intros s j (e & He & Ha). destruct (core_find _ _ _ He) as (b & Fb & Cb). exists b. split; [exact Fb|].
  rewrite <- Cb in Ha. exact Ha.
Qed.

Lemma ap_full : forall path s from s' cur,
    winv s -> is_act (cores s) cur -> lvl_ge L_FULL cur s ->
    Z.of_N (napp _ _ s) = hgt (cores s) cur - hgt (cores s) (root _ _ s) + 1 ->
    linked (cores s) cur path ->
    apply_path pstate ccmd cexec cunexec s from path = Ok (s', true) ->
    forall x, In x path -> lvl_ge L_FULL x s'.
Proof.
  induction path as [|x r IH]; intros s from s' cur WI Ha Hl Hn L H y Hy; [destruct Hy|]. cbn in H.
  dbind H. destruct a as [s1 ok1]. destruct ok1.
  2:{ destruct (bfind (blocks pstate ccmd s1) x); [|discriminate]. dbind H. discriminate. }
  destruct L as [(e & He & Hp) Lr]. pose proof WI as (W & C).
  destruct (core_find _ _ _ He) as (b & Fb & Cb).
  assert (Hpb : b_par ccmd b = cur) by (rewrite <- Hp, <- Cb; reflexivity).
  destruct (is_act_find _ _ Ha) as (pb & Fpb & Apb). rewrite <- Hpb in Fpb.
  assert (Hxr : x <> root _ _ s).
  { intro. subst x. unfold c_applyBlock, applyBlock in E. rewrite Fb, N.eqb_refl in E. discriminate. }
  pose proof (wf_parent_height _ _ _ W He Hxr) as Hh. rewrite Hp in Hh.
  destruct (applyBlock_level _ _ _ _ _ E Fb Fpb) as (b' & Fb' & Ab' & Lb').
  assert (Hfull : valid_upto ccmd pb L_FULL && Z.eqb (b_h ccmd b) (root_h pstate ccmd s + Z.of_N (napp pstate ccmd s)) = true).
  { apply andb_true_iff. split.
    - unfold valid_upto. apply andb_true_iff. split.
      + destruct C as (_ & _ & _ & _ & C3 & _). rewrite Hpb in Fpb. destruct (C3 _ _ Fpb Apb) as [Hv _]. rewrite Hv. reflexivity.
      + destruct Hl as (pb2 & Fpb2 & Hl2). rewrite Hpb in Fpb. rewrite Fpb in Fpb2. inversion Fpb2; subst pb2. apply N.leb_le. exact Hl2.
    - apply Z.eqb_eq. rewrite root_h_hgt. assert (hgt (cores s) x = b_h ccmd b) by (unfold hgt; rewrite He, <- Cb; reflexivity). lia. }
  cbv zeta in Lb'. rewrite Hfull in Lb'.
  assert (Hx1 : lvl_ge L_FULL x s1).
  { exists b'. split; [exact Fb'|]. rewrite Lb'. destruct (N.ltb (b_lvl ccmd b) L_FULL) eqn:E1; [lia|apply N.ltb_ge in E1; exact E1]. }
  destruct (apply_ok_core _ _ _ W E) as (W1 & C1 & N1 & R1 & T1 & _).
  assert (S1 : same_static (cores s) (cores s1)) by (rewrite C1; apply same_static_cupd).
  pose proof (fun j => hgt_static _ _ j S1) as HS.
  destruct Hy as [<-|Hy].
  - eapply lvl_ge_apply_path; eassumption.
  - eapply (IH s1 from s' x); [eapply winv_apply; eassumption| | | |apply (linked_static _ _ _ _ S1 Lr)|exact H|exact Hy].
    + exists (core b'). split; [apply find_cfind; exact Fb'|exact Ab'].
    + exact Hx1.
    + rewrite N1, R1, ?HS. lia.
Qed.

Lemma apply_full : forall s a b s',
    winv s -> is_act (cores s) a -> lvl_ge L_FULL a s ->
    Z.of_N (napp _ _ s) = hgt (cores s) a - hgt (cores s) (root _ _ s) + 1 ->
    apply pstate ccmd cexec cunexec s a b = Ok (s', true) -> lvl_ge L_FULL b s'.
Proof.
  intros s a b s' WI Ha Hl Hn H. pose proof WI as (W & _). pose proof H as H0. unfold apply in H.
  destruct (N.eqb a b) eqn:Eab.
  { inversion H; subst. apply N.eqb_eq in Eab. subst. exact Hl. }
  destruct (bfind (blocks pstate ccmd s) a) as [bf|] eqn:Fa; [|discriminate].
  destruct (bfind (blocks pstate ccmd s) b) as [bt|] eqn:Fb; [|discriminate].
  destruct (is_failed ccmd bt); [discriminate|].
  destruct (negb (Z.ltb (b_h ccmd bf) (b_h ccmd bt))); [discriminate|].
  destruct (path_up ccmd (blocks pstate ccmd s) _ b) as [upl|] eqn:Eup; [|discriminate].
  destruct (rev upl) as [|x r] eqn:Erev; [discriminate|].
  destruct (bfind (blocks pstate ccmd s) x) as [bx|] eqn:Fx; [|discriminate].
  destruct (N.eqb (b_par ccmd bx) a) eqn:Epx; [|discriminate]. apply N.eqb_eq in Epx.
  assert (Hne : upl <> []) by (intro; subst upl; discriminate).
  assert (Hlast : last upl b = x) by (rewrite <- (rev_involutive upl), Erev; cbn [rev]; apply last_last).
  destruct (path_up_linked s _ b upl a Eup (fun _ _ _ _ _ => I)) as [L Lb].
  { exists bx. rewrite Hlast. split; assumption. }
  { exact Hne. }
  rewrite Erev in L, Lb.
  eapply (ap_full _ _ _ _ a WI Ha Hl Hn L H). rewrite <- Lb.
  clear. generalize x. induction r as [|y r IH]; intros x0; [left; reflexivity|]. right. apply IH.
Qed.

Lemma uw_stop : forall fuel s cur to pred s' w,
    unapplyWhile pstate ccmd cunexec fuel s cur to pred = Ok (s', w) ->
    w = to \/ exists bw, bfind (blocks _ _ s') w = Some bw /\ pred bw = false.
Proof.
  induction fuel as [|f IH]; intros s cur to pred s' w H; cbn in H.
  - destruct (N.eqb cur to); [|discriminate]. inversion H. left. reflexivity.
  - destruct (N.eqb cur to); [inversion H; left; reflexivity|].
    destruct (bfind (blocks pstate ccmd s) cur) as [bc|] eqn:Fc; [|discriminate].
    destruct (bfind (blocks pstate ccmd s) to) as [bt|]; [|discriminate].
    destruct (Z.leb (b_h ccmd bc) (b_h ccmd bt)); [discriminate|].
    destruct (negb (pred bc)) eqn:Hp.
    { inversion H; subst. right. exists bc. split; [exact Fc|]. apply negb_true_iff in Hp. exact Hp. }
    dbind H. eapply IH. exact H.
Qed.

(** every block reached from a fully valid tip by parent pointers is at the fully-valid level *)
Lemma chain_lvl : forall s, quiet s -> scoh s -> lvl_ge L_FULL (tip _ _ s) s ->
    forall k, lvl_ge L_FULL (up (cores s) k (tip _ _ s)) s.
Proof.
  intros s Q C T k. induction k as [|k IH]; [exact T|]. rewrite up_succ_r.
  destruct IH as (b & Fb & Hl). unfold parent. rewrite (find_cfind _ _ _ Fb). change (e_par (core b)) with (b_par ccmd b).
  destruct (N.eq_dec (up (cores s) k (tip _ _ s)) (root _ _ s)) as [Heq|Hne].
  - destruct Q as (W & _). destruct (wf_act_closed _ W) as (_ & Pr & _). rewrite Heq in Fb. rewrite (Pr _ Fb), <- Heq.
    exists b. rewrite Heq. split; [exact Fb|exact Hl].
  - pose proof (chain_up_active s Q (S k)) as Ha. rewrite up_succ_r in Ha. unfold parent in Ha. rewrite (find_cfind _ _ _ Fb) in Ha.
    change (e_par (core b)) with (b_par ccmd b) in Ha. destruct (is_act_find _ _ Ha) as (pb & Fpb & _).
    destruct C as (_ & _ & _ & C2 & _). specialize (C2 _ _ _ Fb Hne Fpb). exists pb. split; [exact Fpb|lia].
Qed.

(** ** the tip is fully valid in every reachable state *)
Definition tf (s : cst) : Prop := lvl_ge L_FULL (tip _ _ s) s.

Lemma tf_setState : forall base s to s' ok, canon base s -> tf s -> c_setState s to = Ok (s', ok) -> tf s'.
Proof.
  intros base s to s' ok C T H. destruct (setState_outcome _ _ _ _ _ C H) as (_ & Ht & Hf). destruct ok.
  - destruct (Ht eq_refl) as (Tp & _ & (b & Fb & Vb)). unfold tf. rewrite Tp. exists b. split; [exact Fb|].
    unfold valid_upto in Vb. apply andb_prop in Vb. destruct Vb as [_ Vb]. apply N.leb_le. exact Vb.
  - destruct (Hf eq_refl) as (Tp & _). unfold tf. rewrite Tp. eapply lvl_ge_setState; eassumption.
Qed.

Lemma tf_connect : forall s i par dup gs s', tf s -> c_connect s i par dup gs = Ok s' -> tf s'.
Proof.
  intros s i par dup gs s' (b & Fb & Hl) H. unfold c_connect, connect in H.
  destruct (bfind (blocks pstate ccmd s) par) as [pb|]; [|discriminate].
  destruct (bfind (blocks pstate ccmd s) i); [discriminate|]. inversion H; subst. unfold tf, lvl_ge. cbn [blocks tip with_blocks].
  exists b. split; [apply find_app_some; exact Fb|exact Hl].
Qed.

Lemma winv_apply_range : forall s a b s' ok, winv s -> apply pstate ccmd cexec cunexec s a b = Ok (s', ok) -> winv s'.
Proof. intros s a b s' ok. apply (Inv_apply_range pstate ccmd cexec cunexec winv winv_apply winv_unapply). Qed.
Lemma winv_unapply_range : forall s a b s', winv s -> unapply pstate ccmd cunexec s a b = Ok s' -> winv s'.
Proof. intros s a b s'. apply (Inv_unapply_range pstate ccmd cunexec winv winv_unapply). Qed.
Lemma winv_uw : forall fuel s cur to pred s' w, winv s -> unapplyWhile pstate ccmd cunexec fuel s cur to pred = Ok (s', w) -> winv s'.
Proof. intros fuel s cur to pred s' w. apply (Inv_unapplyWhile pstate ccmd cunexec winv winv_unapply). Qed.

Lemma tf_compare : forall sc cr s c s' r,
    quiet s -> scoh s -> tf s -> c_compare sc cr s c = Ok (s', r) -> tf s'.
Proof.
  intros sc cr s c s' r Q C T H. pose proof Q as (W & Ta & Hn).
  destruct (Z_lt_le_dec r 0) as [Hneg|Hpos].
  2:{ destruct (quiet_compare _ _ _ _ _ _ Q H) as (_ & _ & _ & Hp & _). destruct (Hp Hpos) as [Tp _].
      unfold tf. rewrite Tp. eapply lvl_ge_compare; eassumption. }
  unfold c_compare, compare in H.
  destruct c as [c|]; [|inversion H; lia].
  destruct (bfind (blocks pstate ccmd s) c) as [bc|] eqn:Fc; [|discriminate].
  destruct (bfind (blocks pstate ccmd s) (tip pstate ccmd s)) as [bt|] eqn:Ft; [|discriminate].
  destruct (is_failed ccmd bc); [inversion H; lia|].
  destruct (N.eqb (tip pstate ccmd s) c) eqn:Etc; [inversion H; lia|].
  destruct (on_active_chain pstate ccmd s c); [inversion H; lia|].
  assert (Fork : compare_fork pstate ccmd cexec cunexec sc cr s c bc bt = Ok (s', r) -> tf s').
  { intros HF. destruct (quiet_compare_fork _ _ _ _ _ _ _ _ Q HF) as (_ & _ & _ & _ & Htr).
    destruct (Htr Hneg) as (fork & s1 & s2 & vf & s3 & s4 & E & E0 & E1 & E2 & -> & Hvf3 & Hn3 & F1 & F2 & F3 & Hvfork).
    assert (WI1 : winv s1) by (eapply winv_apply_range; [split; eassumption|exact E]).
    assert (WI2 : winv s2) by (eapply winv_uw; eassumption).
    assert (WI3 : winv s3) by (eapply winv_unapply_range; eassumption).
    assert (Lvf3 : lvl_ge L_FULL vf s3).
    { destruct (uw_stop _ _ _ _ _ _ _ E0) as [Heq|(bw & Fbw & Hbw)].
      - destruct (Hvfork Heq) as (k & Hk). rewrite Heq, Hk.
        eapply lvl_ge_unapply_range; [|exact E1]. eapply lvl_ge_uw; [|exact E0]. eapply lvl_ge_apply_range; [|exact E].
        apply chain_lvl; assumption.
      - eapply lvl_ge_unapply_range; [|exact E1]. exists bw. split; [exact Fbw|].
        unfold not_full in Hbw. apply negb_false_iff in Hbw. unfold valid_upto in Hbw. apply andb_prop in Hbw. apply N.leb_le. apply Hbw. }
    assert (Lc4 : lvl_ge L_FULL c s4).
    { eapply (apply_full s3 vf c s4 WI3 Hvf3 Lvf3); [|exact E2].
      pose proof (fun j => frame_hgt _ _ j F3) as HS. rewrite (fr_root _ _ F3), ?HS. exact Hn3. }
    exact Lc4. }
  destruct (anc_at ccmd (blocks pstate ccmd s) _ c (b_h ccmd bt)) as [a|]; [|exact (Fork H)].
  destruct (N.eqb a (tip pstate ccmd s)); [|exact (Fork H)].
  dbind H. destruct a0 as [s1 ok]. destruct ok; inversion H; subst s' r; [|lia].
  unfold tf. cbn [tip blocks]. eapply (apply_full s (tip _ _ s) c s1 (conj W C) Ta T Hn E).
Qed.

(** all invariants together, over every history *)
Definition good (base : pstate) (s : cst) : Prop :=
  quiet s /\ canon base s /\ scoh s /\ tf s /\ truthful base s.

Lemma good_run : forall base ops s s', good base s -> run s ops = Ok s' -> good base s'.
Proof.
  induction ops as [|o r IH]; intros s s' G H; cbn in H.
  - inversion H; subst. exact G.
  - destruct (step_op s o) as [s1|] eqn:E; cbn in H; [|discriminate].
    eapply IH; [|exact H]. destruct G as (Q & C & K & T & U).
    destruct o as [i par dup gs|to|c sc cr]; cbn in E.
    + split; [eapply quiet_connect; eassumption|]. split; [eapply canon_connect; eassumption|].
      split; [eapply scoh_connect; eassumption|]. split; [eapply tf_connect; eassumption|].
      eapply truthful_connect; [exact (proj1 Q)|exact U|exact E].
    + destruct (c_setState s to) as [[s2 ok]|] eqn:E2; cbn in E; [|discriminate]. inversion E; subst.
      split; [eapply quiet_setState; eassumption|]. split; [eapply canon_setState; eassumption|].
      split; [eapply scoh_setState; eassumption|]. split; [eapply tf_setState; eassumption|].
      eapply truthful_setState; eassumption.
    + destruct (c_compare sc cr s c) as [[s2 rr]|] eqn:E2; cbn in E; [|discriminate]. inversion E; subst.
      split; [eapply quiet_compare; eassumption|]. split; [eapply canon_compare; eassumption|].
      split; [eapply scoh_compare; eassumption|]. split; [eapply tf_compare; eassumption|].
      eapply SmAll.truthful_compare; eassumption.
Qed.

Lemma good_init : forall r h base, good base (c_init r h base).
Proof.
  intros r h base. split; [apply quiet_init|]. split; [split; cbn; [reflexivity|constructor; [intros []|constructor]]|].
  split; [apply scoh_init|]. split.
  - unfold tf, lvl_ge, c_init, init. cbn. rewrite N.eqb_refl. eexists. split; [reflexivity|cbn; lia].
  - intros b [<-|[]] _. exists base. unfold depth, bgs, hgt, cores, c_init, init. cbn [blocks root map core b_id b_par b_h b_act cfind e_id fst snd].
    rewrite N.eqb_refl. cbn [e_h snd fst]. rewrite Z.sub_diag. cbn [Z.to_nat anc_list map rev app].
    unfold gs_of. cbn [blocks bfind b_id]. rewrite N.eqb_refl. reflexivity.
Qed.

Theorem reachable_good : forall base s, reachable base s -> good base s.
Proof. intros base s (r & h & ops & R). eapply good_run; [apply good_init|exact R]. Qed.

(** ** consequences *)
Lemma anc_list_up : forall l n i j, In j (anc_list l n i) -> exists k, (k <= n)%nat /\ j = up l k i.
Proof.
  intros l n. induction n as [|n IH]; intros i j H; cbn in H.
  - destruct H as [<-|[]]. exists O. split; [lia|reflexivity].
  - destruct H as [<-|H]; [exists O; split; [lia|reflexivity]|]. destruct (IH _ _ H) as (k & Hk & ->). exists (S k). split; [lia|reflexivity].
Qed.

Lemma quiet_depth_nonneg : forall s, quiet s -> 0 <= hgt (cores s) (tip _ _ s) - hgt (cores s) (root _ _ s).
Proof. intros s (W & _ & Hn). pose proof (wf_napp_pos s W). lia. Qed.

(** the active chain is fully valid: every block of root..tip is applied, not failed and at the fully-valid level *)
Theorem chain_full : forall base s, reachable base s ->
    forall j, In j (chain s) -> exists b, bfind (blocks _ _ s) j = Some b /\ b_act _ b = true /\ valid_upto _ b L_FULL = true.
Proof.
  intros base s R j Hj. destruct (reachable_good _ _ R) as (Q & _ & K & T & _).
  pose proof (proj2 (applied_exactly s Q j) Hj) as Ha. destruct (is_act_find _ _ Ha) as (b & Fb & Ab).
  exists b. split; [exact Fb|]. split; [exact Ab|].
  unfold chain in Hj. destruct (anc_list_up _ _ _ _ Hj) as (k & _ & ->).
  destruct (chain_lvl s Q K T k) as (b2 & Fb2 & Hl). rewrite Fb in Fb2. inversion Fb2; subst b2.
  destruct K as (_ & _ & _ & _ & C3 & _). destruct (C3 _ _ Fb Ab) as [Hv _].
  unfold valid_upto. rewrite Hv. cbn. apply N.leb_le. exact Hl.
Qed.

(** what property C04 needs: in every reachable state every applied block was executed successfully, all groups,
    on top of the state obtained by replaying its parent's chain root..parent alone from the bootstrap state.
    With [valid c p := cexec c p <> None] as the contextual validity of a payload command. *)
Definition cvalid (c : ccmd) (p : pstate) : Prop := cexec c p <> None.
Lemma cexec_iff_valid : forall c p, (exists p', cexec c p = Some p') <-> cvalid c p.
Proof. intros c p. unfold cvalid. destruct (cexec c p); split; intros H; [discriminate|eexists; reflexivity|destruct H; discriminate|congruence]. Qed.

Theorem applied_blocks_executed : forall base s, reachable base s ->
    forall j b, bfind (blocks _ _ s) j = Some b -> b_act _ b = true -> j <> root _ _ s ->
    exists pp p', replay (bgs s (depth s (b_par _ b)) (b_par _ b)) base = Some pp /\
                  gsexec pstate ccmd cexec cunexec [] (b_gs _ b) pp = (p', true).
Proof.
  intros base s R j b Fb Ab Hjr. pose proof (reachable_good _ _ R) as (Q & _ & K & T & U). pose proof Q as (W & Ta & Hn).
  assert (Ha : is_act (cores s) j) by (exists (core b); split; [apply find_cfind; exact Fb|exact Ab]).
  pose proof (proj1 (applied_exactly s Q j) Ha) as Hj. unfold chain in Hj.
  pose proof (quiet_depth_nonneg s Q) as Hd0.
  destruct (anc_list_active s (Z.to_nat (hgt (cores s) (tip _ _ s) - hgt (cores s) (root _ _ s))) (tip _ _ s) W Ta) as [Abounds _];
    [rewrite Z2Nat.id by lia; lia|].
  destruct (Abounds j Hj) as (_ & Hlo & _). rewrite Z2Nat.id in Hlo by lia.
  destruct (anc_list_up _ _ _ _ Hj) as (k & _ & Hk).
  destruct (chain_lvl s Q K T k) as (b2 & Fb2 & Hl). rewrite <- Hk, Fb in Fb2. inversion Fb2; subst b2.
  pose proof (find_some_in _ _ _ Fb) as [Hin Hid].
  assert (Hl' : N.leb L_FULL (b_lvl ccmd b) = true) by (apply N.leb_le; exact Hl).
  destruct (U b Hin Hl') as (p' & Hp'). rewrite Hid in Hp'.
  pose proof (find_cfind _ _ _ Fb) as Cb.
  pose proof (wf_parent_height _ _ _ W Cb Hjr) as Hph. change (e_par (core b)) with (b_par ccmd b) in Hph.
  (* the parent is applied as well, hence not below the root *)
  destruct (wf_act_closed _ W) as (_ & _ & Cl). destruct (Cl _ _ Fb Ab Hjr) as (pb & Fpb & Apb).
  assert (Hap : is_act (cores s) (b_par ccmd b)) by (exists (core pb); split; [apply find_cfind; exact Fpb|exact Apb]).
  pose proof (proj1 (applied_exactly s Q _) Hap) as Hjp. unfold chain in Hjp.
  destruct (Abounds _ Hjp) as (_ & Hlop & _). rewrite Z2Nat.id in Hlop by lia.
  assert (Hd : depth s j = S (depth s (b_par ccmd b))).
  { unfold depth. rewrite Hph.
    replace (hgt (cores s) (b_par ccmd b) + 1 - hgt (cores s) (root pstate ccmd s)) with (Z.succ (hgt (cores s) (b_par ccmd b) - hgt (cores s) (root pstate ccmd s))) by lia.
    rewrite Z2Nat.inj_succ by lia. reflexivity. }
  rewrite Hd in Hp'. unfold bgs in Hp'. cbn [anc_list map rev] in Hp'.
  assert (Hpar : parent (cores s) j = b_par ccmd b) by (unfold parent; rewrite Cb; reflexivity).
  rewrite Hpar in Hp'. fold (bgs s (depth s (b_par ccmd b)) (b_par ccmd b)) in Hp'. rewrite replay_app in Hp'.
  destruct (replay (bgs s (depth s (b_par ccmd b)) (b_par ccmd b)) base) as [pp|]; [|discriminate].
  assert (Hg : gs_of s j = b_gs ccmd b) by (unfold gs_of; rewrite Fb; reflexivity).
  rewrite Hg in Hp'. cbn in Hp'.
  destruct (gsexec pstate ccmd cexec cunexec [] (b_gs ccmd b) pp) as [q ok] eqn:E. destruct ok; [|discriminate].
  exists pp, q. split; [reflexivity|exact E].
Qed.
