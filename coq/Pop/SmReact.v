(** POP state machine — C20 re-activation: setState to a fully valid block succeeds from every reachable state. *)
From Coq Require Import List ZArith NArith Bool Lia Permutation.
Import ListNotations.
From VB Require Import Pop.SmDefs Pop.SmProofs Pop.SmWf Pop.SmTruth Pop.SmCmp Pop.SmAll Pop.SmCoh Pop.SmFull Pop.SmMarks Pop.SmTree.
Local Open Scope Z_scope.

(** the state seen from block [cur]: nothing but root..cur is applied *)
Definition at_blk (s : cst) (cur : N) : cst := mkSt pstate ccmd (blocks _ _ s) (root _ _ s) cur (napp _ _ s) (pst _ _ s).
Definition alone (s : cst) (cur : N) : Prop := quiet (at_blk s cur).

Lemma alone_unfold : forall s cur, alone s cur <->
    wf s /\ is_act (cores s) cur /\ Z.of_N (napp _ _ s) = hgt (cores s) cur - hgt (cores s) (root _ _ s) + 1.
Proof. intros. reflexivity. Qed.

Lemma alone_active : forall s cur j, alone s cur -> is_act (cores s) j ->
    hgt (cores s) (root _ _ s) <= hgt (cores s) j <= hgt (cores s) cur.
Proof.
  intros s cur j A Hj. pose proof (proj1 (applied_exactly (at_blk s cur) A j) Hj) as Hin. unfold chain in Hin.
  pose proof (quiet_depth_nonneg _ A) as H0. destruct A as (W & Ta & Hn).
  destruct (anc_list_active (at_blk s cur) (Z.to_nat (hgt (cores s) cur - hgt (cores s) (root _ _ s))) cur W Ta) as [Ab _].
  { cbn [root tip at_blk] in *. change (cores (at_blk s cur)) with (cores s) in *. rewrite Z2Nat.id by exact H0. lia. }
  cbn [root tip at_blk] in *. change (cores (at_blk s cur)) with (cores s) in *.
  destruct (Ab j Hin) as (_ & Hlo & Hhi). rewrite Z2Nat.id in Hlo by exact H0. lia.
Qed.

Lemma no_active_child : forall s cur x, alone s cur -> x <> root _ _ s ->
    hgt (cores s) cur <= hgt (cores s) x -> child_active ccmd (blocks _ _ s) x = false.
Proof.
  intros s cur x A Hxr Hh. apply not_true_iff_false. intro H. unfold child_active in H. apply existsb_exists in H.
  destruct H as (c & Hin & Hc). apply andb_prop in Hc. destruct Hc as [Hc Ac]. apply andb_prop in Hc. destruct Hc as [Pc Nc].
  apply N.eqb_eq in Pc. apply negb_true_iff in Nc. apply N.eqb_neq in Nc.
  pose proof (proj1 (alone_unfold _ _) A) as (W & _ & _).
  assert (ND : NoDup (ids (blocks _ _ s))) by (destruct W as (ND & _); unfold ids; unfold cores in ND; rewrite map_map in ND; exact ND).
  pose proof (find_in_blocks _ _ ND Hin) as Fc. pose proof (find_cfind _ _ _ Fc) as Cc.
  assert (Hca : is_act (cores s) (b_id ccmd c)) by (exists (core c); split; [exact Cc|exact Ac]).
  pose proof (alone_active _ _ _ A Hca) as [_ Hhi].
  assert (Hcr : b_id ccmd c <> root _ _ s).
  { intro Heq. destruct (wf_act_closed _ W) as (_ & Pr & _). apply Hxr. rewrite <- Pc. pose proof Fc as Fc2. rewrite Heq in Fc2. exact (Pr c Fc2). }
  pose proof (wf_parent_height _ _ _ W Cc Hcr) as Hph. change (e_par (core c)) with (b_par ccmd c) in Hph. rewrite Pc in Hph. lia.
Qed.

Ltac dbind H :=
  match type of H with
  | bind ?e _ = Ok _ => let E := fresh "E" in destruct e eqn:E; cbn [bind] in H; [|discriminate]
  end.

(** unapplying the top block of the only applied chain never aborts *)
Lemma unapplyBlock_total : forall s cur, alone s cur -> cur <> root _ _ s ->
    exists s', c_unapplyBlock s cur = Ok s' /\ alone s' (parent (cores s) cur) /\ frame s s'.
Proof.
  intros s cur A Hr. pose proof (proj1 (alone_unfold _ _) A) as (W & Ta & Hn).
  destruct (is_act_find _ _ Ta) as (b & Fb & Ab). pose proof (find_cfind _ _ _ Fb) as Cb.
  destruct (wf_act_closed _ W) as (_ & _ & Cl). destruct (Cl _ _ Fb Ab Hr) as (pb & Fpb & Apb).
  pose proof (wf_parent_height _ _ _ W Cb Hr) as Hph. change (e_par (core b)) with (b_par ccmd b) in Hph.
  assert (Hpar : parent (cores s) cur = b_par ccmd b) by (unfold parent; rewrite Cb; reflexivity).
  pose proof (no_active_child s cur cur A Hr (Z.le_refl _)) as Hnc.
  assert (Hn0 : napp _ _ s <> 0%N).
  { pose proof (alone_active _ _ _ A Ta). assert (is_act (cores s) (b_par ccmd b)) by (exists (core pb); split; [apply find_cfind; exact Fpb|exact Apb]).
    pose proof (alone_active _ _ _ A H0). lia. }
  assert (E : exists s', c_unapplyBlock s cur = Ok s').
  { unfold c_unapplyBlock, unapplyBlock. rewrite Fb. apply N.eqb_neq in Hr. rewrite Hr. rewrite Ab. cbn [negb]. rewrite Fpb, Apb. cbn [negb].
    rewrite Hnc. apply N.eqb_neq in Hn0. rewrite Hn0. eexists. reflexivity. }
  destruct E as (s' & E). exists s'. split; [exact E|].
  destruct (unapply_core _ _ _ W E) as (W1 & C1 & N1 & R1 & T1 & _ & _).
  assert (S1 : same_static (cores s) (cores s')) by (rewrite C1; apply same_static_cupd).
  split; [|constructor; assumption].
  pose proof (fun j => hgt_static _ _ j S1) as HS.
  apply alone_unfold. split; [exact W1|]. split.
  - rewrite Hpar, C1. apply is_act_cupd_other; [exists (core pb); split; [apply find_cfind; exact Fpb|exact Apb]|right].
    intro Heq. rewrite Heq in Hph. lia.
  - rewrite R1, ?HS, Hpar. lia.
Qed.

Lemma unapply_total : forall m s cur fuel,
    alone s cur -> scoh s -> Z.of_nat m <= dep s cur -> (m <= fuel)%nat ->
    exists s', unapplyWhile pstate ccmd cunexec fuel s cur (up (cores s) m cur) (fun _ => true) = Ok (s', up (cores s) m cur) /\
               alone s' (up (cores s) m cur) /\ frame s s'.
Proof.
  induction m as [|m IH]; intros s cur fuel A C Hm Hf.
  - cbn [up]. exists s. split; [|split; [exact A|apply frame_refl; exact (proj1 A)]].
    destruct fuel; cbn; rewrite N.eqb_refl; reflexivity.
  - pose proof (proj1 (alone_unfold _ _) A) as (W & Ta & Hn). destruct Ta as (e & He & Hact).
    destruct (dep_facts s cur e W C He) as (_ & _ & Hmin).
    assert (Hr : cur <> root _ _ s) by (apply (Hmin O); lia).
    destruct (up_hgt_dep s cur e (S m) W C He Hm) as (Hh & (et & Het)).
    destruct (unapplyBlock_total s cur A Hr) as (s1 & E1 & A1 & F1).
    destruct fuel as [|f]; [lia|]. cbn [unapplyWhile].
    assert (Hne : N.eqb cur (up (cores s) (S m) cur) = false).
    { apply N.eqb_neq. intro Heq. rewrite <- Heq in Hh. lia. }
    rewrite Hne. destruct (core_find _ _ _ He) as (bc & Fc & Cc). destruct (core_find _ _ _ Het) as (bt & Ft & Ct).
    rewrite Fc, Ft.
    assert (Hlt : Z.leb (b_h ccmd bc) (b_h ccmd bt) = false).
    { apply Z.leb_gt. assert (hgt (cores s) cur = b_h ccmd bc) by (unfold hgt; rewrite He, <- Cc; reflexivity).
      assert (hgt (cores s) (up (cores s) (S m) cur) = b_h ccmd bt) by (unfold hgt; rewrite Het, <- Ct; reflexivity). lia. }
    rewrite Hlt. cbn [negb]. change (unapplyBlock pstate ccmd cunexec s cur) with (c_unapplyBlock s cur). rewrite E1. cbn [bind].
    assert (Hp : parent (cores s) cur = b_par ccmd bc) by (unfold parent; rewrite He, <- Cc; reflexivity).
    rewrite <- Hp.
    pose proof (fr_static _ _ F1) as S1.
    assert (C1 : scoh s1) by (eapply scoh_unapply; eassumption).
    assert (Hd1 : Z.of_nat m <= dep s1 (parent (cores s) cur)).
    { destruct (dep_parent s cur e W He Hr) as (Dp & _). unfold dep in *. rewrite (fr_root _ _ F1), !(hgt_static _ _ _ S1). lia. }
    destruct (IH s1 (parent (cores s) cur) f A1 C1 Hd1 ltac:(lia)) as (s' & E' & A' & F').
    rewrite (up_static _ _ m _ S1) in E', A'. change (up (cores s) m (parent (cores s) cur)) with (up (cores s) (S m) cur) in E', A'.
    exists s'. split; [exact E'|split; [exact A'|eapply frame_trans; eassumption]].
Qed.

(** ** applying a fully valid block on top of the only applied chain succeeds *)
Definition ginv (base : pstate) (s : cst) : Prop := winv s /\ canon base s /\ truthful base s.
Lemma ginv_apply : forall base s i s' ok, ginv base s -> c_applyBlock s i = Ok (s', ok) -> ginv base s'.
Proof.
  intros base s i s' ok (WI & C & T) H. split; [eapply winv_apply; eassumption|].
  split; [eapply canon_apply; eassumption|eapply truthful_apply; [exact (proj1 WI)|exact C|exact T|exact H]].
Qed.
Lemma ginv_unapply : forall base s i s', ginv base s -> c_unapplyBlock s i = Ok s' -> ginv base s'.
Proof.
  intros base s i s' (WI & C & T) H. split; [eapply winv_unapply; eassumption|].
  split; [eapply canon_unapply; eassumption|eapply truthful_unapply; eassumption].
Qed.

Lemma md_nobody_failed : forall s s' j b b', md nobody s s' ->
    bfind (blocks _ _ s) j = Some b -> bfind (blocks _ _ s') j = Some b' -> is_failed _ b' = is_failed _ b /\ b_lvl _ b' = b_lvl _ b.
Proof.
  intros s s' j b b' (_ & H) F F'. destruct (H j b b' F F') as (A & B & C & D & E & G & I).
  assert (Hl : b_lvl ccmd b' = b_lvl ccmd b).
  { destruct (N.eq_dec (b_lvl ccmd b) (b_lvl ccmd b')) as [e|n]; [symmetry; exact e|destruct (C n)]. }
  split; [|exact Hl]. unfold is_failed. rewrite A.
  assert (b_fp ccmd b' = b_fp ccmd b).
  { destruct (b_fp ccmd b) eqn:P; [apply D; reflexivity|]. destruct (b_fp ccmd b') eqn:P'; [|reflexivity]. destruct (E eq_refl) as [e|[]]. discriminate e. }
  assert (b_fc ccmd b' = b_fc ccmd b).
  { destruct (b_fc ccmd b) eqn:P; [apply G; reflexivity|]. destruct (b_fc ccmd b') eqn:P'; [|reflexivity].
    destruct (I eq_refl) as [e|(x & k & [] & _)]. discriminate e. }
  rewrite H0, H1. reflexivity.
Qed.

(* the command groups of a fully valid block succeed on the state of its parent's chain *)
Lemma groups_succeed : forall base s cur x b,
    alone s cur -> canon base s -> truthful base s ->
    bfind (blocks _ _ s) x = Some b -> b_par _ b = cur -> x <> root _ _ s -> N.le L_FULL (b_lvl _ b) ->
    exists p', gsexec pstate ccmd cexec cunexec [] (b_gs _ b) (pst _ _ s) = (p', true).
Proof.
  intros base s cur x b A C T Fb Hp Hxr Hl.
  pose proof (proj1 (alone_unfold _ _) A) as (W & Ta & Hn).
  pose proof (find_cfind _ _ _ Fb) as Cb. pose proof (find_some_in _ _ _ Fb) as [Hin Hid].
  pose proof (wf_parent_height _ _ _ W Cb Hxr) as Hph. change (e_par (core b)) with (b_par ccmd b) in Hph. rewrite Hp in Hph.
  assert (Hl' : N.leb L_FULL (b_lvl ccmd b) = true) by (apply N.leb_le; exact Hl).
  destruct (T b Hin Hl') as (p' & Hp'). rewrite Hid in Hp'.
  pose proof (alone_active _ _ _ A Ta) as [Hlo _].
  assert (Hd : depth s x = S (depth s cur)).
  { unfold depth. rewrite Hph.
    replace (hgt (cores s) cur + 1 - hgt (cores s) (root pstate ccmd s)) with (Z.succ (hgt (cores s) cur - hgt (cores s) (root pstate ccmd s))) by lia.
    rewrite Z2Nat.inj_succ by lia. reflexivity. }
  rewrite Hd in Hp'. unfold bgs in Hp'. cbn [anc_list map rev] in Hp'.
  assert (Hpar : parent (cores s) x = cur) by (unfold parent; rewrite Cb; exact Hp).
  rewrite Hpar in Hp'. fold (bgs s (depth s cur) cur) in Hp'. rewrite replay_app in Hp'.
  destruct (replay (bgs s (depth s cur) cur) base) as [pr0|] eqn:Hr0; [|discriminate].
  assert (Hg : gs_of s x = b_gs ccmd b) by (unfold gs_of; rewrite Fb; reflexivity).
  rewrite Hg in Hp'. cbn in Hp'.
  destruct (gsexec pstate ccmd cexec cunexec [] (b_gs ccmd b) pr0) as [q ok] eqn:E. destruct ok; [|discriminate].
  (* P is a permutation of pr0 *)
  pose proof (active_items_chain (at_blk s cur) A) as HA. change (blocks pstate ccmd (at_blk s cur)) with (blocks pstate ccmd s) in HA.
  assert (Hcg : chain_gs (at_blk s cur) = map (gs_of s) (anc_list (cores s) (depth s cur) cur)) by reflexivity.
  rewrite Hcg in HA.
  assert (HP : Permutation pr0 (pst _ _ s)).
  { destruct C as [CP _]. symmetry. eapply perm_trans; [exact CP|]. symmetry. eapply perm_trans; [apply replay_items; exact Hr0|].
    apply Permutation_app_tail. unfold bgs. eapply perm_trans; [apply flat_map_rev_perm|]. symmetry. exact HA. }
  destruct (gsexec_perm _ [] [] _ _ _ HP E) as (q' & E' & _). exists q'. exact E'.
Qed.

Lemma applyBlock_alone : forall base s cur x b,
    alone s cur -> ginv base s ->
    bfind (blocks _ _ s) x = Some b -> b_par _ b = cur -> x <> root _ _ s ->
    N.le L_FULL (b_lvl _ b) -> is_failed _ b = false ->
    exists s', c_applyBlock s x = Ok (s', true) /\ alone s' x /\ ginv base s' /\ frame s s' /\ md nobody s s'.
Proof.
  intros base s cur x b A (WI & C & T) Fb Hp Hxr Hl Hnf.
  pose proof (proj1 (alone_unfold _ _) A) as (W & Ta & Hn).
  destruct (is_act_find _ _ Ta) as (pb & Fpb & Apb).
  pose proof (find_cfind _ _ _ Fb) as Cb.
  pose proof (wf_parent_height _ _ _ W Cb Hxr) as Hph. change (e_par (core b)) with (b_par ccmd b) in Hph. rewrite Hp in Hph.
  assert (Hina : b_act ccmd b = false).
  { destruct (b_act ccmd b) eqn:Ab; [|reflexivity]. exfalso.
    assert (is_act (cores s) x) by (exists (core b); split; [exact Cb|exact Ab]). pose proof (alone_active _ _ _ A H). lia. }
  pose proof (no_active_child s cur x A Hxr ltac:(lia)) as Hnc.
  destruct (groups_succeed base s cur x b A C T Fb Hp Hxr Hl) as (p' & Eg).
  assert (Hfc : b_fc ccmd b = false).
  { unfold is_failed in Hnf. apply orb_false_iff in Hnf. apply Hnf. }
  assert (E : exists s', c_applyBlock s x = Ok (s', true)).
  { unfold c_applyBlock, applyBlock. rewrite Fb. apply N.eqb_neq in Hxr. rewrite Hxr. rewrite Hp, Fpb, Apb. cbn [negb].
    rewrite Hina, Hnc, Hfc, Hnf.
    assert (N.ltb (b_lvl ccmd b) L_CONNECTED = false) by (apply N.ltb_ge; unfold L_CONNECTED, L_FULL in *; lia). rewrite H.
    rewrite Eg. cbn [negb].
    match goal with |- context [N.ltb (b_lvl ccmd b) ?u && _] => assert (Hu : N.ltb (b_lvl ccmd b) u = false) end.
    { apply N.ltb_ge. destruct (valid_upto ccmd pb L_FULL && _); unfold L_FULL, L_MAYBE in *; lia. }
    rewrite Hu. cbn. eexists. reflexivity. }
  destruct E as (s' & E). exists s'. split; [exact E|].
  destruct (apply_ok_core _ _ _ W E) as (W1 & C1 & N1 & R1 & T1 & (e0 & He0 & _)).
  assert (S1 : same_static (cores s) (cores s')) by (rewrite C1; apply same_static_cupd).
  pose proof (fun j => hgt_static _ _ j S1) as HS.
  split; [|split; [eapply ginv_apply; [split; [exact WI|split; eassumption]|exact E]|split; [constructor; assumption|]]].
  - apply alone_unfold. split; [exact W1|]. split.
    + rewrite C1. exists (setact x true e0). rewrite cfind_cupd', He0. split; [reflexivity|].
      unfold setact. apply cfind_some in He0. destruct He0 as [Hid _]. rewrite Hid, N.eqb_refl. reflexivity.
    + rewrite N1, R1, ?HS. lia.
  - apply (proj2 (md_apply_ok _ _ _ E)). exists b. split; [exact Fb|exact Hl].
Qed.

Definition okblk (s : cst) (x : N) : Prop :=
  x <> root _ _ s /\ exists b, bfind (blocks _ _ s) x = Some b /\ N.le L_FULL (b_lvl _ b) /\ is_failed _ b = false.

Lemma okblk_md : forall s s' x, md nobody s s' -> root _ _ s' = root _ _ s -> okblk s x -> okblk s' x.
Proof.
  intros s s' x M R (Hr & b & Fb & Hl & Hf). split; [rewrite R; exact Hr|].
  destruct (static_find _ _ x b (proj1 M) Fb) as (b' & Fb'). destruct (md_nobody_failed _ _ _ _ _ M Fb Fb') as [A B].
  exists b'. split; [exact Fb'|]. rewrite A, B. split; assumption.
Qed.

Lemma apply_path_alone : forall base path s from cur,
    alone s cur -> ginv base s -> linked (cores s) cur path -> (forall x, In x path -> okblk s x) ->
    exists s', apply_path pstate ccmd cexec cunexec s from path = Ok (s', true) /\ alone s' (last path cur) /\
               ginv base s' /\ frame s s' /\ md nobody s s'.
Proof.
  intros base path. induction path as [|x r IH]; intros s from cur A G L Hok.
  - exists s. cbn. split; [reflexivity|]. split; [exact A|]. split; [exact G|]. split; [apply frame_refl; exact (proj1 (proj1 (alone_unfold _ _) A))|apply md_refl].
  - destruct L as [(e & He & Hp) Lr]. destruct (Hok x (or_introl eq_refl)) as (Hxr & b & Fb & Hl & Hf).
    pose proof (find_cfind _ _ _ Fb) as Cb. rewrite He in Cb. inversion Cb; subst e. change (e_par (core b)) with (b_par ccmd b) in Hp.
    destruct (applyBlock_alone base s cur x b A G Fb Hp Hxr Hl Hf) as (s1 & E1 & A1 & G1 & F1 & M1).
    assert (Hok1 : forall y, In y r -> okblk s1 y) by (intros y Hy; eapply okblk_md; [exact M1|exact (fr_root _ _ F1)|apply Hok; right; exact Hy]).
    destruct (IH s1 from x A1 G1 (linked_static _ _ _ _ (fr_static _ _ F1) Lr) Hok1) as (s' & E' & A' & G' & F' & M').
    exists s'. split.
    + cbn [apply_path]. change (applyBlock pstate ccmd cexec cunexec s x) with (c_applyBlock s x). rewrite E1. cbn [bind]. exact E'.
    + split; [|split; [exact G'|split; [eapply frame_trans; eassumption|eapply md_trans; eassumption]]].
      destruct r as [|y r']; [exact A'|]. change (last (x :: y :: r') cur) with (last (y :: r') cur).
      rewrite (last_cons_default r' y cur x). exact A'.
Qed.

Lemma path_up_seq : forall s n b,
    (forall i, (i < n)%nat -> exists e, cfind (cores s) (up (cores s) i b) = Some e) ->
    path_up ccmd (blocks _ _ s) n b = Some (map (fun i => up (cores s) i b) (seq 0 n)).
Proof.
  intros s n. induction n as [|n IH]; intros b H; [reflexivity|]. cbn [path_up].
  destruct (H O ltac:(lia)) as (e & He). cbn in He. destruct (core_find _ _ _ He) as (bb & Fb & Cb). rewrite Fb.
  assert (Hp : parent (cores s) b = b_par ccmd bb) by (unfold parent; rewrite He, <- Cb; reflexivity).
  rewrite <- Hp. rewrite IH.
  - cbn [option_map seq map]. f_equal. f_equal. rewrite <- seq_shift, map_map. apply map_ext. intros i. reflexivity.
  - intros i Hi. specialize (H (S i) ltac:(lia)). cbn in H. exact H.
Qed.

Lemma apply_alone_total : forall base s a b m eb,
    alone s a -> ginv base s -> scoh s -> cfind (cores s) b = Some eb ->
    a = up (cores s) m b -> Z.of_nat m <= dep s b ->
    (forall i, (i < m)%nat -> okblk s (up (cores s) i b)) ->
    exists s', apply pstate ccmd cexec cunexec s a b = Ok (s', true) /\ alone s' b /\ ginv base s' /\ frame s s' /\ md nobody s s'.
Proof.
  intros base s a b m eb A G C Hb Ha Hm Hok. pose proof (proj1 (alone_unfold _ _) A) as (W & Ta & Hn).
  destruct m as [|m].
  { cbn in Ha. subst a. exists s. unfold apply. rewrite N.eqb_refl. split; [reflexivity|]. split; [exact A|]. split; [exact G|].
    split; [apply frame_refl; exact W|apply md_refl]. }
  destruct (up_hgt_dep s b eb (S m) W C Hb Hm) as (Hha & (ea & Hea)). rewrite <- Ha in Hha, Hea.
  assert (Hfound : forall i, (i < S m)%nat -> exists e, cfind (cores s) (up (cores s) i b) = Some e).
  { intros i Hi. apply (up_hgt_dep s b eb i W C Hb). lia. }
  unfold apply.
  assert (Hab : N.eqb a b = false).
  { apply N.eqb_neq. intro Heq. rewrite Heq in Hha. lia. }
  rewrite Hab. destruct (core_find _ _ _ Hea) as (ba & Fa & Ca). destruct (core_find _ _ _ Hb) as (bb & Fb & Cbb). rewrite Fa, Fb.
  destruct (Hok O ltac:(lia)) as (_ & b0 & Fb0 & _ & Hf0). cbn in Fb0. rewrite Fb in Fb0. inversion Fb0; subst b0. rewrite Hf0.
  assert (Hhb : hgt (cores s) b = b_h ccmd bb) by (unfold hgt; rewrite Hb, <- Cbb; reflexivity).
  assert (Hha' : hgt (cores s) a = b_h ccmd ba) by (unfold hgt; rewrite Hea, <- Ca; reflexivity).
  assert (Hlt : negb (Z.ltb (b_h ccmd ba) (b_h ccmd bb)) = false) by (apply negb_false_iff; apply Z.ltb_lt; lia).
  rewrite Hlt.
  assert (Hn' : Z.to_nat (b_h ccmd bb - b_h ccmd ba) = S m) by lia. rewrite Hn'.
  rewrite (path_up_seq s (S m) b Hfound).
  set (upl := map (fun i => up (cores s) i b) (seq 0 (S m))).
  assert (Eup : path_up ccmd (blocks pstate ccmd s) (S m) b = Some upl) by (apply path_up_seq; exact Hfound).
  assert (Hne : upl <> []) by (unfold upl; cbn; discriminate).
  assert (Hlast : last upl b = up (cores s) m b).
  { unfold upl. rewrite seq_S, map_app. cbn. apply last_last. }
  destruct (rev upl) as [|x r] eqn:Erev.
  { exfalso. apply Hne. rewrite <- (rev_involutive upl), Erev. reflexivity. }
  assert (Hx : x = up (cores s) m b).
  { rewrite <- Hlast. rewrite <- (rev_involutive upl), Erev. cbn [rev]. symmetry. apply last_last. }
  destruct (Hfound m ltac:(lia)) as (ex & Hex). rewrite <- Hx in Hex. destruct (core_find _ _ _ Hex) as (bx & Fx & Cx). rewrite Fx.
  assert (Hpx : b_par ccmd bx = a).
  { rewrite Ha. rewrite up_succ_r, <- Hx. unfold parent. rewrite Hex, <- Cx. reflexivity. }
  apply N.eqb_eq in Hpx. rewrite Hpx. apply N.eqb_eq in Hpx.
  destruct (path_up_linked s (S m) b upl a Eup (fun _ _ _ _ _ => I)) as [L Lb].
  { exists bx. rewrite Hlast, <- Hx. split; assumption. }
  { exact Hne. }
  rewrite Erev in L, Lb.
  assert (Hokp : forall y, In y (x :: r) -> okblk s y).
  { intros y Hy. rewrite <- Erev in Hy. apply in_rev in Hy. unfold upl in Hy. apply in_map_iff in Hy. destruct Hy as (i & <- & Hi).
    apply in_seq in Hi. apply Hok. lia. }
  destruct (apply_path_alone base (x :: r) s a a A G L Hokp) as (s' & E' & A' & G' & F' & M').
  exists s'. split; [exact E'|]. split; [rewrite Lb in A'; exact A'|]. split; [exact G'|split; assumption].
Qed.

(** ** ancestors of a fully valid block are fully valid *)
Lemma anc_ok : forall s to bto, wf s -> scoh s ->
    bfind (blocks _ _ s) to = Some bto -> valid_upto _ bto L_FULL = true ->
    forall i, Z.of_nat i <= dep s to ->
    exists b, bfind (blocks _ _ s) (up (cores s) i to) = Some b /\ N.le L_FULL (b_lvl _ b) /\ is_failed _ b = false.
Proof.
  intros s to bto W C Fto Hv. pose proof (find_cfind _ _ _ Fto) as Cto.
  destruct (dep_facts s to _ W C Cto) as (_ & _ & Hmin).
  induction i as [|i IH]; intros Hi.
  - exists bto. cbn. split; [exact Fto|]. unfold valid_upto in Hv. apply andb_prop in Hv. destruct Hv as [Hf Hl].
    split; [apply N.leb_le; exact Hl|apply negb_true_iff; exact Hf].
  - destruct IH as (b & Fb & Hl & Hf); [lia|].
    assert (Hnr : up (cores s) i to <> root _ _ s) by (apply Hmin; lia).
    pose proof (find_cfind _ _ _ Fb) as Cb. destruct (wf_closed s W _ _ Cb) as (pe & Hpe). destruct (core_find _ _ _ Hpe) as (pb & Fpb & _).
    change (e_par (core b)) with (b_par ccmd b) in Fpb.
    rewrite up_succ_r. unfold parent. rewrite Cb. change (e_par (core b)) with (b_par ccmd b).
    exists pb. split; [exact Fpb|]. destruct C as (_ & _ & C1 & C2 & _). split.
    + specialize (C2 _ _ _ Fb Hnr Fpb). lia.
    + destruct (is_failed ccmd pb) eqn:Fp; [|reflexivity]. exfalso. pose proof (C1 _ _ _ Fb Hnr Fpb Fp) as Hfc.
      unfold is_failed in Hf. rewrite Hfc in Hf. rewrite !orb_true_r in Hf. discriminate.
Qed.

Lemma ginv_unapply_range : forall base s a b s', ginv base s -> unapply pstate ccmd cunexec s a b = Ok s' -> ginv base s'.
Proof. intros base s a b s'. apply (Inv_unapply_range pstate ccmd cunexec (ginv base) (ginv_unapply base)). Qed.

(** C20: re-activation. From every reachable state, setState to a block that is at the fully-valid level and not
    invalidated (neither itself nor - by coherence - any ancestor) returns true; no assert is hit on the way. *)
Theorem reactivation : forall base s to bto,
    reachable base s -> bfind (blocks _ _ s) to = Some bto -> valid_upto _ bto L_FULL = true ->
    exists s', c_setState s to = Ok (s', true).
Proof.
  intros base s to bto R Fto Hv. destruct (reachable_good _ _ R) as (Q & C & K & T & U).
  pose proof Q as (W & Ta & Hn). assert (G : ginv base s) by (split; [split; assumption|split; assumption]).
  destruct (is_act_find _ _ Ta) as (bt & Ft & At). pose proof (find_cfind _ _ _ Ft) as Ct. pose proof (find_cfind _ _ _ Fto) as Cto.
  unfold c_setState, setState. rewrite Ft, Fto.
  assert (Hchk : negb (Z.eqb (b_h ccmd bt + 1) (root_h pstate ccmd s + Z.of_N (napp pstate ccmd s))) = false).
  { apply negb_false_iff. apply Z.eqb_eq. rewrite root_h_hgt. assert (hgt (cores s) (tip _ _ s) = b_h ccmd bt) by (unfold hgt; rewrite Ct; reflexivity). lia. }
  rewrite Hchk.
  destruct (N.eqb (tip pstate ccmd s) to) eqn:Ett.
  { cbn [bind]. rewrite Fto, Hv. eexists. reflexivity. }
  apply N.eqb_neq in Ett.
  (* the fork block *)
  pose proof (dep_bound s _ _ W K Ct) as Db1. pose proof (dep_bound s _ _ W K Cto) as Db2.
  destruct (dep_facts s _ _ W K Ct) as (D1 & _ & _). destruct (dep_facts s _ _ W K Cto) as (D2 & _ & Hmin2).
  destruct (lca_spec s W K (2 * fuel_of pstate ccmd s) (tip _ _ s) to _ _ Ct Cto) as (fork & ka & kb & Hl & Hf1 & Hf2 & Ka & Kb & _).
  { unfold fuel_of. lia. }
  unfold sm_setState. apply N.eqb_neq in Ett. rewrite Ett. rewrite Hl.
  (* unapply down to the fork *)
  destruct (unapply_total ka s (tip _ _ s) (fuel_of pstate ccmd s) Q K Ka) as (s1 & E1 & A1 & F1).
  { unfold fuel_of. lia. }
  rewrite <- Hf1 in E1, A1.
  assert (Eu : unapply pstate ccmd cunexec s (tip pstate ccmd s) fork = Ok s1).
  { unfold unapply. rewrite E1. cbn. rewrite N.eqb_refl. reflexivity. }
  rewrite Eu. cbn [bind].
  pose proof (ginv_unapply_range _ _ _ _ _ G Eu) as G1. pose proof (md_unapply_range _ _ _ _ Eu) as M1.
  pose proof (fr_static _ _ F1) as S1.
  assert (K1 : scoh s1) by (exact (proj2 (proj1 G1))).
  (* apply the target branch alone *)
  assert (Cto1 : exists e1, cfind (cores s1) to = Some e1).
  { destruct (static_find _ _ to bto (proj1 M1) Fto) as (b1 & Fb1). exists (core b1). apply find_cfind. exact Fb1. }
  destruct Cto1 as (e1 & Cto1).
  assert (Hdep1 : dep s1 to = dep s to) by (unfold dep; rewrite (fr_root _ _ F1), !(hgt_static _ _ _ S1); reflexivity).
  destruct (apply_alone_total base s1 fork to kb e1 A1 G1 K1 Cto1) as (s2 & E2 & A2 & G2 & F2 & M2).
  { rewrite (up_static _ _ kb to S1). exact Hf2. }
  { rewrite Hdep1. exact Kb. }
  { intros i Hi. rewrite (up_static _ _ i to S1). eapply okblk_md; [exact M1|exact (fr_root _ _ F1)|].
    split; [apply Hmin2; lia|]. apply (anc_ok s to bto W K Fto Hv). lia. }
  rewrite E2. cbn [bind].
  (* the target is still fully valid *)
  pose proof (md_trans _ _ _ _ M1 M2) as M12.
  destruct (static_find _ _ to bto (proj1 M12) Fto) as (b2 & Fb2). rewrite Fb2.
  destruct (md_nobody_failed _ _ _ _ _ M12 Fto Fb2) as [Hf Hlv].
  assert (Hv2 : valid_upto ccmd b2 L_FULL = true).
  { unfold valid_upto in *. rewrite Hf, Hlv. exact Hv. }
  rewrite Hv2. eexists. reflexivity.
Qed.
