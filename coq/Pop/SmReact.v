(** POP state machine — C20 re-activation: setState to a fully valid block succeeds from every reachable state. *)
From Coq Require Import List ZArith NArith Bool Lia Permutation.
Import ListNotations.
From VB Require Import Pop.SmDefs Pop.SmProofs Pop.SmWf Pop.SmTruth Pop.SmCmp Pop.SmAll Pop.SmCoh Pop.SmFull Pop.SmMarks Pop.SmTree.
Local Open Scope Z_scope.

(** the state seen from block [cur]: nothing but root..cur is applied *)
Definition at_blk (s : cst) (cur : N) : cst := mkSt pstate ccmd (blocks _ _ s) (root _ _ s) cur (napp _ _ s) (pst _ _ s).
Definition alone (s : cst) (cur : N) : Prop := quiet (at_blk s cur).

Lemma alone_unfold : forall s cur, alone s cur <->
    wf s /\ is_act (cores s) cur /\ Z.of_N (napp _ _ s) = hgt (cores s) cur - hgt (cores s) (root _ _ s) + 1.
Proof. intros. reflexivity. Qed.

Lemma alone_active : forall s cur j, alone s cur -> is_act (cores s) j ->
    hgt (cores s) (root _ _ s) <= hgt (cores s) j <= hgt (cores s) cur.
Proof.
  intros s cur j A Hj. pose proof (proj1 (applied_exactly (at_blk s cur) A j) Hj) as Hin. unfold chain in Hin.
  pose proof (quiet_depth_nonneg _ A) as H0. destruct A as (W & Ta & Hn).
  destruct (anc_list_active (at_blk s cur) (Z.to_nat (hgt (cores s) cur - hgt (cores s) (root _ _ s))) cur W Ta) as [Ab _].
  { cbn [root tip at_blk] in *. change (cores (at_blk s cur)) with (cores s) in *. rewrite Z2Nat.id by exact H0. lia. }
  cbn [root tip at_blk] in *. change (cores (at_blk s cur)) with (cores s) in *.
  destruct (Ab j Hin) as (_ & Hlo & Hhi). rewrite Z2Nat.id in Hlo by exact H0. lia.
Qed.

Lemma no_active_child : forall s cur x, alone s cur -> x <> root _ _ s ->
    hgt (cores s) cur <= hgt (cores s) x -> child_active ccmd (blocks _ _ s) x = false.
Proof.
  intros s cur x A Hxr Hh. apply not_true_iff_false. intro H. unfold child_active in H. apply existsb_exists in H.
  destruct H as (c & Hin & Hc). apply andb_prop in Hc. destruct Hc as [Hc Ac]. apply andb_prop in Hc. destruct Hc as [Pc Nc].
  apply N.eqb_eq in Pc. apply negb_true_iff in Nc. apply N.eqb_neq in Nc.
  pose proof (proj1 (alone_unfold _ _) A) as (W & _ & _).
  assert (ND : NoDup (ids (blocks _ _ s))) by (destruct W as (ND & _); unfold ids; unfold cores in ND; rewrite map_map in ND; exact ND).
  pose proof (find_in_blocks _ _ ND Hin) as Fc. pose proof (find_cfind _ _ _ Fc) as Cc.
  assert (Hca : is_act (cores s) (b_id ccmd c)) by (exists (core c); split; [exact Cc|exact Ac]).
  pose proof (alone_active _ _ _ A Hca) as [_ Hhi].
  assert (Hcr : b_id ccmd c <> root _ _ s).
  { intro Heq. destruct (wf_act_closed _ W) as (_ & Pr & _). apply Hxr. rewrite <- Pc. pose proof Fc as Fc2. rewrite Heq in Fc2. exact (Pr c Fc2). }
  pose proof (wf_parent_height _ _ _ W Cc Hcr) as Hph. change (e_par (core c)) with (b_par ccmd c) in Hph. rewrite Pc in Hph. lia.
Qed.

Ltac dbind H :=
  match type of H with
  | bind ?e _ = Ok _ => let E := fresh "E" in destruct e eqn:E; cbn [bind] in H; [|discriminate]
  end.

(** unapplying the top block of the only applied chain never aborts *)
Lemma unapplyBlock_total : forall s cur, alone s cur -> cur <> root _ _ s ->
    exists s', c_unapplyBlock s cur = Ok s' /\ alone s' (parent (cores s) cur) /\ frame s s'.
Proof.
  intros s cur A Hr. pose proof (proj1 (alone_unfold _ _) A) as (W & Ta & Hn).
  destruct (is_act_find _ _ Ta) as (b & Fb & Ab). pose proof (find_cfind _ _ _ Fb) as Cb.
  destruct (wf_act_closed _ W) as (_ & _ & Cl). destruct (Cl _ _ Fb Ab Hr) as (pb & Fpb & Apb).
  pose proof (wf_parent_height _ _ _ W Cb Hr) as Hph. change (e_par (core b)) with (b_par ccmd b) in Hph.
  assert (Hpar : parent (cores s) cur = b_par ccmd b) by (unfold parent; rewrite Cb; reflexivity).
  pose proof (no_active_child s cur cur A Hr (Z.le_refl _)) as Hnc.
  assert (Hn0 : napp _ _ s <> 0%N).
  { pose proof (alone_active _ _ _ A Ta). assert (is_act (cores s) (b_par ccmd b)) by (exists (core pb); split; [apply find_cfind; exact Fpb|exact Apb]).
    pose proof (alone_active _ _ _ A H0). lia. }
  assert (E : exists s', c_unapplyBlock s cur = Ok s').
  { unfold c_unapplyBlock, unapplyBlock. rewrite Fb. apply N.eqb_neq in Hr. rewrite Hr. rewrite Ab. cbn [negb]. rewrite Fpb, Apb. cbn [negb].
    rewrite Hnc. apply N.eqb_neq in Hn0. rewrite Hn0. eexists. reflexivity. }
  destruct E as (s' & E). exists s'. split; [exact E|].
  destruct (unapply_core _ _ _ W E) as (W1 & C1 & N1 & R1 & T1 & _ & _).
  assert (S1 : same_static (cores s) (cores s')) by (rewrite C1; apply same_static_cupd).
  split; [|constructor; assumption].
  pose proof (fun j => hgt_static _ _ j S1) as HS.
  apply alone_unfold. split; [exact W1|]. split.
  - rewrite Hpar, C1. apply is_act_cupd_other; [exists (core pb); split; [apply find_cfind; exact Fpb|exact Apb]|right].
    intro Heq. rewrite Heq in Hph. lia.
  - rewrite R1, ?HS, Hpar. lia.
Qed.

Lemma unapply_total : forall m s cur fuel,
    alone s cur -> scoh s -> Z.of_nat m <= dep s cur -> (m <= fuel)%nat ->
    exists s', unapplyWhile pstate ccmd cunexec fuel s cur (up (cores s) m cur) (fun _ => true) = Ok (s', up (cores s) m cur) /\
               alone s' (up (cores s) m cur) /\ frame s s'.
Proof.
  induction m as [|m IH]; intros s cur fuel A C Hm Hf.
  - cbn [up]. exists s. split; [|split; [exact A|apply frame_refl; exact (proj1 A)]].
    destruct fuel; cbn; rewrite N.eqb_refl; reflexivity.
  - pose proof (proj1 (alone_unfold _ _) A) as (W & Ta & Hn). destruct Ta as (e & He & Hact).
    destruct (dep_facts s cur e W C He) as (_ & _ & Hmin).
    assert (Hr : cur <> root _ _ s) by (apply (Hmin O); lia).
    destruct (up_hgt_dep s cur e (S m) W C He Hm) as (Hh & (et & Het)).
    destruct (unapplyBlock_total s cur A Hr) as (s1 & E1 & A1 & F1).
    destruct fuel as [|f]; [lia|]. cbn [unapplyWhile].
    assert (Hne : N.eqb cur (up (cores s) (S m) cur) = false).
    { apply N.eqb_neq. intro Heq. rewrite <- Heq in Hh. lia. }
    rewrite Hne. destruct (core_find _ _ _ He) as (bc & Fc & Cc). destruct (core_find _ _ _ Het) as (bt & Ft & Ct).
    rewrite Fc, Ft.
    assert (Hlt : Z.leb (b_h ccmd bc) (b_h ccmd bt) = false).
    { apply Z.leb_gt. assert (hgt (cores s) cur = b_h ccmd bc) by (unfold hgt; rewrite He, <- Cc; reflexivity).
      assert (hgt (cores s) (up (cores s) (S m) cur) = b_h ccmd bt) by (unfold hgt; rewrite Het, <- Ct; reflexivity). lia. }
    rewrite Hlt. cbn [negb]. change (unapplyBlock pstate ccmd cunexec s cur) with (c_unapplyBlock s cur). rewrite E1. cbn [bind].
    assert (Hp : parent (cores s) cur = b_par ccmd bc) by (unfold parent; rewrite He, <- Cc; reflexivity).
    rewrite <- Hp.
    pose proof (fr_static _ _ F1) as S1.
    assert (C1 : scoh s1) by (eapply scoh_unapply; eassumption).
    assert (Hd1 : Z.of_nat m <= dep s1 (parent (cores s) cur)).
    { destruct (dep_parent s cur e W He Hr) as (Dp & _). unfold dep in *. rewrite (fr_root _ _ F1), !(hgt_static _ _ _ S1). lia. }
    destruct (IH s1 (parent (cores s) cur) f A1 C1 Hd1 ltac:(lia)) as (s' & E' & A' & F').
    rewrite (up_static _ _ m _ S1) in E', A'. change (up (cores s) m (parent (cores s) cur)) with (up (cores s) (S m) cur) in E', A'.
    exists s'. split; [exact E'|split; [exact A'|eapply frame_trans; eassumption]].
Qed.
