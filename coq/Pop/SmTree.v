(** POP state machine — tree facts: every block reaches the root, depth bound, correctness of the fork search. *)
From Coq Require Import List ZArith NArith Bool Lia Permutation.
Import ListNotations.
From VB Require Import Pop.SmDefs Pop.SmProofs Pop.SmWf Pop.SmTruth Pop.SmCmp Pop.SmAll Pop.SmCoh Pop.SmFull.
Local Open Scope Z_scope.

(** heights along parent pointers *)
Lemma up_hgt : forall s k j,
    wf s -> (exists e, cfind (cores s) j = Some e) ->
    (forall i, (i < k)%nat -> up (cores s) i j <> root _ _ s) ->
    hgt (cores s) (up (cores s) k j) = hgt (cores s) j - Z.of_nat k /\ exists e, cfind (cores s) (up (cores s) k j) = Some e.
Proof.
  intros s k. induction k as [|k IH]; intros j W (e & He) Hnr.
  - cbn. split; [lia|exists e; exact He].
  - destruct (IH j W (ex_intro _ e He)) as (Hh & (ek & Hek)); [intros i Hi; apply Hnr; lia|].
    rewrite up_succ_r. assert (Hk : up (cores s) k j <> root _ _ s) by (apply Hnr; lia).
    pose proof (wf_parent_height _ _ _ W Hek Hk) as Hp. unfold parent. rewrite Hek.
    destruct (wf_closed s W _ _ Hek) as (pe & Hpe). split; [lia|exists pe; exact Hpe].
Qed.

(** every block descends from the root (parents come first in the list) *)
Lemma reach_root : forall s, wf s -> scoh s -> forall j e, cfind (cores s) j = Some e ->
    exists k, up (cores s) k j = root _ _ s /\ (forall i, (i < k)%nat -> up (cores s) i j <> root _ _ s).
Proof.
  intros s W (ND & OR & _) .
  (* induction on the prefix of the list in which j lives *)
  assert (G : forall n l1 l2, blocks _ _ s = l1 ++ l2 -> length l1 = n ->
              forall j, In j (ids l1) -> exists k, up (cores s) k j = root _ _ s /\ (forall i, (i < k)%nat -> up (cores s) i j <> root _ _ s)).
  { induction n as [|n IH]; intros l1 l2 Hl Hn j Hj.
    - destruct l1; [destruct Hj|discriminate].
    - destruct (exists_last (l := l1)) as (l1' & c & ->); [intro; subst; discriminate|].
      rewrite app_length in Hn. cbn in Hn. unfold ids in Hj. rewrite map_app in Hj. apply in_app_or in Hj.
      assert (Hl' : blocks pstate ccmd s = l1' ++ c :: l2) by (rewrite Hl, <- app_assoc; reflexivity).
      destruct Hj as [Hj|[<-|[]]].
      + eapply (IH l1' (c :: l2)); [exact Hl'|lia|exact Hj].
      + destruct (N.eq_dec (b_id ccmd c) (root _ _ s)) as [Heq|Hne].
        * exists O. split; [exact Heq|intros i Hi; lia].
        * pose proof (ord_ok_split _ _ [] _ _ _ OR Hl' Hne) as Hp. cbn in Hp.
          destruct (IH l1' (c :: l2) Hl' ltac:(lia) _ Hp) as (k & Hk & Hmin).
          assert (Fc : bfind (blocks pstate ccmd s) (b_id ccmd c) = Some c).
          { apply find_in_blocks; [exact ND|]. rewrite Hl'. apply in_or_app. right. left. reflexivity. }
          assert (Hpar : parent (cores s) (b_id ccmd c) = b_par ccmd c) by (unfold parent; rewrite (find_cfind _ _ _ Fc); reflexivity).
          exists (S k). split; [cbn; rewrite Hpar; exact Hk|].
          intros i Hi. destruct i as [|i]; [cbn; exact Hne|]. cbn. rewrite Hpar. apply Hmin. lia. }
  intros j e He. destruct (core_find _ _ _ He) as (b & Fb & _). pose proof (find_some_in _ _ _ Fb) as [Hin Hid].
  eapply (G (length (blocks pstate ccmd s)) (blocks pstate ccmd s) []); [rewrite app_nil_r; reflexivity|reflexivity|].
  rewrite <- Hid. apply in_map. exact Hin.
Qed.

Definition dep (s : cst) (j : N) : Z := hgt (cores s) j - hgt (cores s) (root _ _ s).

Lemma dep_facts : forall s j e, wf s -> scoh s -> cfind (cores s) j = Some e ->
    0 <= dep s j /\ up (cores s) (Z.to_nat (dep s j)) j = root _ _ s /\
    (forall i, (i < Z.to_nat (dep s j))%nat -> up (cores s) i j <> root _ _ s).
Proof.
  intros s j e W C He. destruct (reach_root s W C j e He) as (k & Hk & Hmin).
  destruct (up_hgt s k j W (ex_intro _ e He) Hmin) as (Hh & _). rewrite Hk in Hh.
  assert (dep s j = Z.of_nat k) by (unfold dep; lia). rewrite H, Nat2Z.id. split; [lia|split; assumption].
Qed.

Lemma up_add : forall l a b j, up l (a + b) j = up l b (up l a j).
Proof. intros l a. induction a as [|a IH]; intros b j; [reflexivity|]. cbn. apply IH. Qed.

Lemma NoDup_map_inj_in : forall (A B : Type) (f : A -> B) (l : list A),
    (forall a b, In a l -> In b l -> f a = f b -> a = b) -> NoDup l -> NoDup (map f l).
Proof.
  intros A B f l. induction l as [|x r IH]; intros Hinj ND; cbn; [constructor|]. inversion ND as [|? ? Hn ND']; subst.
  constructor.
  - intro Hin. apply in_map_iff in Hin. destruct Hin as (y & Hy & Hyin). apply Hn.
    rewrite (Hinj x y (or_introl eq_refl) (or_intror Hyin) (eq_sym Hy)). exact Hyin.
  - apply IH; [|exact ND']. intros a b Ha Hb. apply Hinj; right; assumption.
Qed.

(** the depth of a block is smaller than the number of blocks *)
Lemma dep_bound : forall s j e, wf s -> scoh s -> cfind (cores s) j = Some e -> dep s j < Z.of_nat (length (blocks _ _ s)).
Proof.
  intros s j e W C He. destruct (dep_facts s j e W C He) as (H0 & Hr & Hmin).
  set (n := Z.to_nat (dep s j)) in *.
  (* the n+1 blocks j, up 1 j, .. have pairwise different heights *)
  assert (Hh : forall i, (i <= n)%nat -> hgt (cores s) (up (cores s) i j) = hgt (cores s) j - Z.of_nat i /\ exists e', cfind (cores s) (up (cores s) i j) = Some e').
  { intros i Hi. apply up_hgt; [exact W|exists e; exact He|]. intros i' Hi'. apply Hmin. lia. }
  set (L := map (fun i => up (cores s) i j) (seq 0 (S n))).
  assert (NDL : NoDup L).
  { unfold L. apply NoDup_map_inj_in; [|apply seq_NoDup].
    intros a b Ha Hb Hab. apply in_seq in Ha. apply in_seq in Hb.
    destruct (Hh a ltac:(lia)) as [Ea _]. destruct (Hh b ltac:(lia)) as [Eb _]. rewrite Hab in Ea. lia. }
  assert (Hincl : incl L (map e_id (cores s))).
  { intros x Hx. unfold L in Hx. apply in_map_iff in Hx. destruct Hx as (i & <- & Hi). apply in_seq in Hi.
    destruct (Hh i ltac:(lia)) as [_ (e' & He')]. apply cfind_some in He'. destruct He' as [Hid Hin]. rewrite <- Hid. apply in_map. exact Hin. }
  pose proof (NoDup_incl_length NDL Hincl) as Hlen. unfold L in Hlen. rewrite !map_length, seq_length in Hlen.
  unfold cores in Hlen. rewrite map_length in Hlen. unfold n in Hlen. lia.
Qed.
