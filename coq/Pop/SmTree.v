(** POP state machine — tree facts: every block reaches the root, depth bound, correctness of the fork search. *)
From Coq Require Import List ZArith NArith Bool Lia Permutation.
Import ListNotations.
From VB Require Import Pop.SmDefs Pop.SmProofs Pop.SmWf Pop.SmTruth Pop.SmCmp Pop.SmAll Pop.SmCoh Pop.SmFull.
Local Open Scope Z_scope.

(** heights along parent pointers *)
Lemma up_hgt : forall s k j,
    wf s -> (exists e, cfind (cores s) j = Some e) ->
    (forall i, (i < k)%nat -> up (cores s) i j <> root _ _ s) ->
    hgt (cores s) (up (cores s) k j) = hgt (cores s) j - Z.of_nat k /\ exists e, cfind (cores s) (up (cores s) k j) = Some e.
Proof.
  intros s k. induction k as [|k IH]; intros j W (e & He) Hnr.
  - cbn. split; [lia|exists e; exact He].
  - destruct (IH j W (ex_intro _ e He)) as (Hh & (ek & Hek)); [intros i Hi; apply Hnr; lia|].
    rewrite up_succ_r. assert (Hk : up (cores s) k j <> root _ _ s) by (apply Hnr; lia).
    pose proof (wf_parent_height _ _ _ W Hek Hk) as Hp. unfold parent. rewrite Hek.
    destruct (wf_closed s W _ _ Hek) as (pe & Hpe). split; [lia|exists pe; exact Hpe].
Qed.

(** every block descends from the root (parents come first in the list) *)
Lemma reach_root : forall s, wf s -> scoh s -> forall j e, cfind (cores s) j = Some e ->
    exists k, up (cores s) k j = root _ _ s /\ (forall i, (i < k)%nat -> up (cores s) i j <> root _ _ s).
Proof.
  intros s W (ND & OR & _) .
  (* induction on the prefix of the list in which j lives *)
  assert (G : forall n l1 l2, blocks _ _ s = l1 ++ l2 -> length l1 = n ->
              forall j, In j (ids l1) -> exists k, up (cores s) k j = root _ _ s /\ (forall i, (i < k)%nat -> up (cores s) i j <> root _ _ s)).
  { induction n as [|n IH]; intros l1 l2 Hl Hn j Hj.
    - destruct l1; [destruct Hj|discriminate].
    - destruct (exists_last (l := l1)) as (l1' & c & ->); [intro; subst; discriminate|].
      rewrite app_length in Hn. cbn in Hn. unfold ids in Hj. rewrite map_app in Hj. apply in_app_or in Hj.
      assert (Hl' : blocks pstate ccmd s = l1' ++ c :: l2) by (rewrite Hl, <- app_assoc; reflexivity).
      destruct Hj as [Hj|[<-|[]]].
      + eapply (IH l1' (c :: l2)); [exact Hl'|lia|exact Hj].
      + destruct (N.eq_dec (b_id ccmd c) (root _ _ s)) as [Heq|Hne].
        * exists O. split; [exact Heq|intros i Hi; lia].
        * pose proof (ord_ok_split _ _ [] _ _ _ OR Hl' Hne) as Hp. cbn in Hp.
          destruct (IH l1' (c :: l2) Hl' ltac:(lia) _ Hp) as (k & Hk & Hmin).
          assert (Fc : bfind (blocks pstate ccmd s) (b_id ccmd c) = Some c).
          { apply find_in_blocks; [exact ND|]. rewrite Hl'. apply in_or_app. right. left. reflexivity. }
          assert (Hpar : parent (cores s) (b_id ccmd c) = b_par ccmd c) by (unfold parent; rewrite (find_cfind _ _ _ Fc); reflexivity).
          exists (S k). split; [cbn; rewrite Hpar; exact Hk|].
          intros i Hi. destruct i as [|i]; [cbn; exact Hne|]. cbn. rewrite Hpar. apply Hmin. lia. }
  intros j e He. destruct (core_find _ _ _ He) as (b & Fb & _). pose proof (find_some_in _ _ _ Fb) as [Hin Hid].
  eapply (G (length (blocks pstate ccmd s)) (blocks pstate ccmd s) []); [rewrite app_nil_r; reflexivity|reflexivity|].
  rewrite <- Hid. apply in_map. exact Hin.
Qed.

Definition dep (s : cst) (j : N) : Z := hgt (cores s) j - hgt (cores s) (root _ _ s).

Lemma dep_facts : forall s j e, wf s -> scoh s -> cfind (cores s) j = Some e ->
    0 <= dep s j /\ up (cores s) (Z.to_nat (dep s j)) j = root _ _ s /\
    (forall i, (i < Z.to_nat (dep s j))%nat -> up (cores s) i j <> root _ _ s).
Proof.
  intros s j e W C He. destruct (reach_root s W C j e He) as (k & Hk & Hmin).
  destruct (up_hgt s k j W (ex_intro _ e He) Hmin) as (Hh & _). rewrite Hk in Hh.
  assert (dep s j = Z.of_nat k) by (unfold dep; lia). rewrite H, Nat2Z.id. split; [lia|split; assumption].
Qed.

Lemma up_add : forall l a b j, up l (a + b) j = up l b (up l a j).
Proof. intros l a. induction a as [|a IH]; intros b j; [reflexivity|]. cbn. apply IH. Qed.

Lemma NoDup_map_inj_in : forall (A B : Type) (f : A -> B) (l : list A),
    (forall a b, In a l -> In b l -> f a = f b -> a = b) -> NoDup l -> NoDup (map f l).
Proof.
  intros A B f l. induction l as [|x r IH]; intros Hinj ND; cbn; [constructor|]. inversion ND as [|? ? Hn ND']; subst.
  constructor.
  - intro Hin. apply in_map_iff in Hin. destruct Hin as (y & Hy & Hyin). apply Hn.
    rewrite (Hinj x y (or_introl eq_refl) (or_intror Hyin) (eq_sym Hy)). exact Hyin.
  - apply IH; [|exact ND']. intros a b Ha Hb. apply Hinj; right; assumption.
Qed.

(** the depth of a block is smaller than the number of blocks *)
Lemma dep_bound : forall s j e, wf s -> scoh s -> cfind (cores s) j = Some e -> dep s j < Z.of_nat (length (blocks _ _ s)).
Proof.
  intros s j e W C He. destruct (dep_facts s j e W C He) as (H0 & Hr & Hmin).
  set (n := Z.to_nat (dep s j)) in *.
  (* the n+1 blocks j, up 1 j, .. have pairwise different heights *)
  assert (Hh : forall i, (i <= n)%nat -> hgt (cores s) (up (cores s) i j) = hgt (cores s) j - Z.of_nat i /\ exists e', cfind (cores s) (up (cores s) i j) = Some e').
  { intros i Hi. apply up_hgt; [exact W|exists e; exact He|]. intros i' Hi'. apply Hmin. lia. }
  set (L := map (fun i => up (cores s) i j) (seq 0 (S n))).
  assert (NDL : NoDup L).
  { unfold L. apply NoDup_map_inj_in; [|apply seq_NoDup].
    intros a b Ha Hb Hab. apply in_seq in Ha. apply in_seq in Hb.
    destruct (Hh a ltac:(lia)) as [Ea _]. destruct (Hh b ltac:(lia)) as [Eb _]. rewrite Hab in Ea. lia. }
  assert (Hincl : incl L (map e_id (cores s))).
  { intros x Hx. unfold L in Hx. apply in_map_iff in Hx. destruct Hx as (i & <- & Hi). apply in_seq in Hi.
    destruct (Hh i ltac:(lia)) as [_ (e' & He')]. apply cfind_some in He'. destruct He' as [Hid Hin]. rewrite <- Hid. apply in_map. exact Hin. }
  pose proof (NoDup_incl_length NDL Hincl) as Hlen. unfold L in Hlen. rewrite !map_length, seq_length in Hlen.
  unfold cores in Hlen. rewrite map_length in Hlen. unfold n in Hlen. lia.
Qed.

Lemma up_hgt_dep : forall s j e i, wf s -> scoh s -> cfind (cores s) j = Some e -> Z.of_nat i <= dep s j ->
    hgt (cores s) (up (cores s) i j) = hgt (cores s) j - Z.of_nat i /\ exists e', cfind (cores s) (up (cores s) i j) = Some e'.
Proof.
  intros s j e i W C He Hi. destruct (dep_facts s j e W C He) as (H0 & _ & Hmin).
  apply up_hgt; [exact W|exists e; exact He|]. intros i' Hi'. apply Hmin. lia.
Qed.

Lemma dep_parent : forall s j e, wf s -> cfind (cores s) j = Some e -> j <> root _ _ s ->
    dep s (parent (cores s) j) = dep s j - 1 /\ exists pe, cfind (cores s) (parent (cores s) j) = Some pe.
Proof.
  intros s j e W He Hr. pose proof (wf_parent_height _ _ _ W He Hr) as Hh. unfold parent. rewrite He.
  destruct (wf_closed s W _ _ He) as (pe & Hpe). split; [unfold dep; lia|exists pe; exact Hpe].
Qed.

Lemma dep_zero_root : forall s j e, wf s -> scoh s -> cfind (cores s) j = Some e -> dep s j = 0 -> j = root _ _ s.
Proof. intros s j e W C He H0. destruct (dep_facts s j e W C He) as (_ & Hr & _). rewrite H0 in Hr. exact Hr. Qed.

(** getForkBlock / findFork returns the highest common ancestor *)
Lemma lca_spec : forall s, wf s -> scoh s -> forall fuel a b ea eb,
    cfind (cores s) a = Some ea -> cfind (cores s) b = Some eb ->
    (Z.to_nat (dep s a) + Z.to_nat (dep s b) < fuel)%nat ->
    exists f ka kb, lca ccmd (blocks _ _ s) fuel a b = Some f /\
      f = up (cores s) ka a /\ f = up (cores s) kb b /\ Z.of_nat ka <= dep s a /\ Z.of_nat kb <= dep s b /\
      (forall g i j, g = up (cores s) i a -> g = up (cores s) j b -> Z.of_nat i <= dep s a -> Z.of_nat j <= dep s b ->
                     hgt (cores s) g <= hgt (cores s) f).
Proof.
  intros s W C fuel. induction fuel as [|f IH]; intros a b ea eb Ha Hb Hm; [lia|].
  destruct (dep_facts s a ea W C Ha) as (Da0 & _ & _). destruct (dep_facts s b eb W C Hb) as (Db0 & _ & _).
  cbn [lca]. destruct (N.eqb a b) eqn:Eab.
  { apply N.eqb_eq in Eab. subst b. exists a, O, O. repeat split; try reflexivity; try lia.
    intros g i j -> _ Hi _. destruct (up_hgt_dep s a ea i W C Ha Hi) as [Hh _]. lia. }
  apply N.eqb_neq in Eab.
  destruct (core_find _ _ _ Ha) as (ba & Fa & Ca). destruct (core_find _ _ _ Hb) as (bb & Fb & Cb). rewrite Fa, Fb.
  assert (Hha : hgt (cores s) a = b_h ccmd ba) by (unfold hgt; rewrite Ha, <- Ca; reflexivity).
  assert (Hhb : hgt (cores s) b = b_h ccmd bb) by (unfold hgt; rewrite Hb, <- Cb; reflexivity).
  assert (Hpa : parent (cores s) a = b_par ccmd ba) by (unfold parent; rewrite Ha, <- Ca; reflexivity).
  assert (Hpb : parent (cores s) b = b_par ccmd bb) by (unfold parent; rewrite Hb, <- Cb; reflexivity).
  assert (Hup : forall x ex i, cfind (cores s) x = Some ex -> Z.of_nat i <= dep s x -> hgt (cores s) (up (cores s) i x) = hgt (cores s) x - Z.of_nat i)
    by (intros x ex i Hx Hi; exact (proj1 (up_hgt_dep s x ex i W C Hx Hi))).
  destruct (Z.ltb (b_h ccmd ba) (b_h ccmd bb)) eqn:E1.
  - apply Z.ltb_lt in E1.
    assert (Hbr : b <> root _ _ s) by (intro; subst b; unfold dep in *; lia).
    assert (Hdb : 1 <= dep s b) by (unfold dep in *; lia).
    destruct (dep_parent s b eb W Hb Hbr) as (Dp & (pe & Hpe)). rewrite Hpb in Dp, Hpe.
    destruct (IH a (b_par ccmd bb) ea pe Ha Hpe) as (fk & ka & kb & Hl & H1 & H2 & K1 & K2 & Hmax); [lia|].
    exists fk, ka, (S kb). split; [exact Hl|]. split; [exact H1|]. split; [cbn; rewrite Hpb; exact H2|]. split; [exact K1|]. split; [lia|].
    intros g i j Hg1 Hg2 Hi Hj. destruct j as [|j].
    + exfalso. cbn in Hg2. rewrite Hg1 in Hg2. pose proof (Hup a ea i Ha Hi) as Hh. rewrite Hg2 in Hh. lia.
    + apply (Hmax g i j Hg1); [cbn in Hg2; rewrite Hpb in Hg2; exact Hg2|exact Hi|lia].
  - destruct (Z.ltb (b_h ccmd bb) (b_h ccmd ba)) eqn:E2.
    + apply Z.ltb_lt in E2.
      assert (Har : a <> root _ _ s) by (intro; subst a; unfold dep in *; lia).
      assert (Hda : 1 <= dep s a) by (unfold dep in *; lia).
      destruct (dep_parent s a ea W Ha Har) as (Dp & (pe & Hpe)). rewrite Hpa in Dp, Hpe.
      destruct (IH (b_par ccmd ba) b pe eb Hpe Hb) as (fk & ka & kb & Hl & H1 & H2 & K1 & K2 & Hmax); [lia|].
      exists fk, (S ka), kb. split; [exact Hl|]. split; [cbn; rewrite Hpa; exact H1|]. split; [exact H2|]. split; [lia|]. split; [exact K2|].
      intros g i j Hg1 Hg2 Hi Hj. destruct i as [|i].
      * exfalso. cbn in Hg1. rewrite Hg2 in Hg1. pose proof (Hup b eb j Hb Hj) as Hh. rewrite Hg1 in Hh. lia.
      * apply (Hmax g i j); [cbn in Hg1; rewrite Hpa in Hg1; exact Hg1|exact Hg2|lia|exact Hj].
    + apply Z.ltb_ge in E1, E2.
      assert (Har : a <> root _ _ s).
      { intro. subst a. assert (dep s b = 0) by (unfold dep in *; lia). apply Eab. symmetry. eapply dep_zero_root; eassumption. }
      assert (Hbr : b <> root _ _ s).
      { intro. subst b. assert (dep s a = 0) by (unfold dep in *; lia). apply Eab. eapply dep_zero_root; eassumption. }
      assert (Hda : 1 <= dep s a).
      { destruct (Z.eq_dec (dep s a) 0) as [e0|n0]; [exfalso; apply Har; eapply dep_zero_root; eassumption|lia]. }
      assert (Hdb : 1 <= dep s b).
      { destruct (Z.eq_dec (dep s b) 0) as [e0|n0]; [exfalso; apply Hbr; eapply dep_zero_root; eassumption|lia]. }
      destruct (dep_parent s a ea W Ha Har) as (Dpa & (pea & Hpea)). rewrite Hpa in Dpa, Hpea.
      destruct (dep_parent s b eb W Hb Hbr) as (Dpb & (peb & Hpeb)). rewrite Hpb in Dpb, Hpeb.
      destruct (IH (b_par ccmd ba) (b_par ccmd bb) pea peb Hpea Hpeb) as (fk & ka & kb & Hl & H1 & H2 & K1 & K2 & Hmax); [lia|].
      exists fk, (S ka), (S kb). split; [exact Hl|]. split; [cbn; rewrite Hpa; exact H1|]. split; [cbn; rewrite Hpb; exact H2|]. split; [lia|]. split; [lia|].
      intros g i j Hg1 Hg2 Hi Hj.
      pose proof (Hup a ea i Ha Hi) as Hh1. pose proof (Hup b eb j Hb Hj) as Hh2. rewrite <- Hg1 in Hh1. rewrite <- Hg2 in Hh2.
      destruct i as [|i]; [exfalso; cbn in Hg1; destruct j as [|j]; [cbn in Hg2; congruence|lia]|].
      destruct j as [|j]; [exfalso; lia|].
      apply (Hmax g i j); [cbn in Hg1; rewrite Hpa in Hg1; exact Hg1|cbn in Hg2; rewrite Hpb in Hg2; exact Hg2|lia|lia].
Qed.
