(** C20 — the re-activation sweep of the check (harness/h_sm.cpp `react`), as an executable model function.
    No proofs in this file. *)
From Coq Require Import List ZArith NArith Bool.
Import ListNotations.
From VB Require Import Pop.SmDefs.

(** the blocks that report the fully-valid level (BlockIndex::isValid(BLOCK_CAN_BE_APPLIED)) *)
Definition full_ids (s : cst) : list N :=
  map (b_id ccmd) (filter (fun b => valid_upto ccmd b L_FULL) (blocks _ _ s)).

(** setState to each of [ids] in turn, the state is carried along; answers in order *)
Fixpoint react_seq (s : cst) (ids : list N) : res (cst * list (N * bool)) :=
  match ids with
  | [] => Ok (s, [])
  | t :: r =>
    a <- c_setState s t ;;
    b <- react_seq (fst a) r ;;
    Ok (fst b, (t, snd a) :: snd b)
  end.

(** the whole sweep: every id, then back to the tip the sweep started from *)
Definition react (s : cst) (ids : list N) : res (cst * list (N * bool) * bool) :=
  a <- react_seq s ids ;;
  b <- c_setState (fst a) (tip _ _ s) ;;
  Ok (fst b, snd a, snd b).
