(** C01 by composition: the premises of the payout / verdict theorems are satisfiable by a non-trivial pair of
    histories, and the verdict statement without the "no cached failed mark" premise fails on the model
    (the listed finding C01:verdict-0-vs-1-cached-invalid). *)
From Coq Require Import List ZArith NArith Bool Lia Permutation.
Import ListNotations.
From VB Require Import Pop.SmDefs Pop.SmProofs Pop.SmWf Pop.SmTruth Pop.SmCmp Pop.SmAll Pop.SmCoh Pop.SmFull Pop.SmMarks Pop.SmTree
     Pop.SmReact Pop.SmAbort Pop.C01Compose Pop.C01Verdict Pop.C01Fork.
From VB Require Rewards.BoundsDefs Score.CmpDefs.
Local Open Scope Z_scope.

(** concrete adapters: the payout info is the block of proof's id; every known SP block is on the best SP chain at
    height = its id; all timestamps 0, no time adjustment *)
Definition ex_pinfo (e c b : N) : Z := Z.of_N b.
Definition ex_spv (refs : N -> nat) (b : N) : option Z := if (0 <? refs b)%nat then Some (Z.of_N b) else None.
Definition ex_times (refs : N -> nat) : list Z := [].
Lemma ex_spv_determined : sp_determined ex_spv.
Proof. intros f g H b. unfold ex_spv. rewrite H. reflexivity. Qed.
Lemma ex_times_determined : sp_times_determined ex_times.
Proof. intros f g H. reflexivity. Qed.

(** history 1 = [ex_ops] of SmProofs.v: two abandoned forks, a failing switch, comparisons with either verdict, a
    back-and-forth reorg, ends on a1-a2.  History 2 = a fresh instance: it is shown a1, a2 (and the candidate a5)
    and activates a2. *)
Definition fresh_ops : list op :=
  [ OConnect 3 0 false [[AddRef 4 1]; [AddRef 7 4; AddEnd 3 3 7]];
    OConnect 6 3 false [[AddRef 10 7]];
    OConnect 15 3 false [[AddRef 22 7]];
    OSetState 6 ].
Definition st_of (ops : list op) : cst :=
  match run (c_init 0 0 ex_base) ops with Ok s => s | Abort _ => c_init 0 0 ex_base end.
Definition ex_s1 : cst := st_of ex_ops.
Definition ex_s2 : cst := st_of fresh_ops.

Lemma ex_s1_run : run (c_init 0 0 ex_base) ex_ops = Ok ex_s1.
Proof. vm_compute. reflexivity. Qed.
Lemma ex_s2_run : run (c_init 0 0 ex_base) fresh_ops = Ok ex_s2.
Proof. vm_compute. reflexivity. Qed.
Lemma ex_s1_reachable : reachable ex_base ex_s1.
Proof. exists 0%N, 0, ex_ops. exact ex_s1_run. Qed.
Lemma ex_s2_reachable : reachable ex_base ex_s2.
Proof. exists 0%N, 0, fresh_ops. exact ex_s2_run. Qed.
Lemma fresh_ops_fresh : fresh_history fresh_ops.
Proof. exists (firstn 3 fresh_ops), 6%N. split; [reflexivity|]. cbn. exact I. Qed.

(** two different histories, the same active chain a0-a1-a2 with a non-empty endorsement list on a1, the side
    conditions of the calculator hold for the library's default parameters *)
Example compose_premises_satisfiable :
  ex_ops <> fresh_ops /\
  reachable ex_base ex_s1 /\ reachable ex_base ex_s2 /\ fresh_history fresh_ops /\
  active_chain ex_s1 = active_chain ex_s2 /\
  map (fun t => fst (fst t)) (active_chain ex_s1) = [6; 3; 0]%N /\
  ends_of (pst _ _ ex_s1) 3 = [(3, 3, 7)]%N /\
  sp_determined ex_spv /\
  VB.Rewards.BoundsDefs.params_okb VB.Rewards.BoundsDefs.default_params = true /\
  VB.Rewards.BoundsDefs.chain_okb (payout_input ex_pinfo ex_spv ex_s1) = true /\
  map (fun b => length (VB.Rewards.CalcDefs.b_ends b)) (payout_input ex_pinfo ex_spv ex_s1) = [0; 1; 0]%nat.
Proof.
  split; [intro H; apply (f_equal (@length _)) in H; discriminate|].
  split; [exact ex_s1_reachable|]. split; [exact ex_s2_reachable|]. split; [exact fresh_ops_fresh|].
  split; [vm_compute; reflexivity|]. split; [vm_compute; reflexivity|]. split; [vm_compute; reflexivity|].
  split; [exact ex_spv_determined|]. split; [vm_compute; reflexivity|]. split; vm_compute; reflexivity.
Qed.

(** the candidate a5 (on a1, fork block a1): same chain in both states, no failed mark, its branch applies in both *)
Example verdict_premises_satisfiable :
  chain_of ex_s1 15 = chain_of ex_s2 15 /\
  (exists b, bfind (blocks _ _ ex_s1) 15 = Some b) /\ (exists b, bfind (blocks _ _ ex_s2) 15 = Some b) /\
  In 3%N (map (fun t => fst (fst t)) (chain_of ex_s1 15)) /\
  clean ex_s1 15 (Z.to_nat (hgt (cores ex_s1) 15 - hgt (cores ex_s1) 3)) /\
  clean ex_s2 15 (Z.to_nat (hgt (cores ex_s1) 15 - hgt (cores ex_s1) 3)) /\
  (exists t1, apply pstate ccmd cexec cunexec ex_s1 3 15 = Ok (t1, true)) /\
  (exists t2, apply pstate ccmd cexec cunexec ex_s2 3 15 = Ok (t2, true)).
Proof.
  split; [vm_compute; reflexivity|]. split; [vm_compute; eexists; reflexivity|]. split; [vm_compute; eexists; reflexivity|].
  split; [vm_compute; tauto|].
  assert (Hn : Z.to_nat (hgt (cores ex_s1) 15 - hgt (cores ex_s1) 3) = 1%nat) by (vm_compute; reflexivity). rewrite Hn.
  split; [|split].
  - intros k b Hk. assert (k = O) by lia. subst k. vm_compute. intros H. inversion H. reflexivity.
  - intros k b Hk. assert (k = O) by lia. subst k. vm_compute. intros H. inversion H. reflexivity.
  - split; vm_compute; eexists; reflexivity.
Qed.

(** ... and no block of its chain carries a failed mark in either state ([clean_all], the premise of the fork-case
    verdict theorem) *)
Lemma clean_all_3 : forall s c, wf s -> up (cores s) 3 c = root _ _ s ->
    (forall k b, (k <= 3)%nat -> bfind (blocks _ _ s) (up (cores s) k c) = Some b -> is_failed _ b = false) -> clean_all s c.
Proof.
  intros s c W Hr H n k b _ F. destruct (Nat.le_gt_cases k 3) as [Hk|Hk]; [exact (H k b Hk F)|].
  replace k with (3 + (k - 3))%nat in F by lia. rewrite up_add, Hr, (up_root s _ W), <- Hr in F. exact (H 3%nat b (Nat.le_refl _) F).
Qed.
Example verdict_clean_all_satisfiable : clean_all ex_s1 15 /\ clean_all ex_s2 15.
Proof.
  split.
  - apply clean_all_3; [exact (proj1 (proj1 (reachable_good _ _ ex_s1_reachable)))|vm_compute; reflexivity|].
    intros k b Hk. destruct k as [|[|[|[|k]]]]; try lia; vm_compute; intros H; inversion H; reflexivity.
  - apply clean_all_3; [exact (proj1 (proj1 (reachable_good _ _ ex_s2_reachable)))|vm_compute; reflexivity|].
    intros k b Hk. destruct k as [|[|[|[|k]]]]; try lia; vm_compute; intros H; inversion H; reflexivity.
Qed.

(** * the verdict statement WITHOUT the premise "no cached failed mark" is false on the model
    Instance 1 tried to activate a4 (its body carries a contextually invalid payload) and cached BLOCK_FAILED_POP;
    instance 2 was only shown the blocks.  Same active chain, same candidate chain; neither chain crosses a keystone
    boundary (ki = 1000).  Instance 1 answers 1 (candidate invalid), instance 2 answers 0 (the keystone short-cut
    returns before the candidate is validated): finding C01:verdict-0-vs-1-cached-invalid. *)
Definition rf_blocks : list op :=
  [ OConnect 3 0 false [[AddRef 4 1]; [AddRef 7 4; AddEnd 3 3 7]];
    OConnect 6 3 false [[AddRef 10 7]];
    OConnect 9 0 false [[AddRef 4 1]; [AddRef 13 4]];
    OConnect 12 9 false [[AddRef 16 13]; [AddRef 19 16; Poison]] ].
Definition rf_ops1 : list op := rf_blocks ++ [OSetState 6; OSetState 12].
Definition rf_ops2 : list op := rf_blocks ++ [OSetState 6].
Definition rf_cfg : VB.Score.CmpDefs.config := {| VB.Score.CmpDefs.fd := 11; VB.Score.CmpDefs.table := [100; 100; 95] |}.
Definition rf_sc := score_of rf_cfg 1000 false (fun _ => 0) ex_spv ex_times.
Definition rf_cr := crossed_of 1000.

Example verdict_without_clean_premise_refuted :
  reachable ex_base (st_of rf_ops1) /\ reachable ex_base (st_of rf_ops2) /\
  active_chain (st_of rf_ops1) = active_chain (st_of rf_ops2) /\
  chain_of (st_of rf_ops1) 12 = chain_of (st_of rf_ops2) 12 /\
  (exists b, bfind (blocks _ _ (st_of rf_ops1)) 12 = Some b /\ b_fp _ b = true) /\
  (exists b, bfind (blocks _ _ (st_of rf_ops2)) 12 = Some b /\ is_failed _ b = false) /\
  ~ clean (st_of rf_ops1) 12 1 /\
  match c_compare rf_sc rf_cr (st_of rf_ops1) (Some 12%N), c_compare rf_sc rf_cr (st_of rf_ops2) (Some 12%N) with
  | Ok (_, r1), Ok (_, r2) => r1 = 1 /\ r2 = 0
  | _, _ => False
  end.
Proof.
  split; [exists 0%N, 0, rf_ops1; vm_compute; reflexivity|]. split; [exists 0%N, 0, rf_ops2; vm_compute; reflexivity|].
  split; [vm_compute; reflexivity|]. split; [vm_compute; reflexivity|].
  split; [vm_compute; eexists; split; reflexivity|]. split; [vm_compute; eexists; split; reflexivity|].
  split.
  - intros H. destruct (bfind (blocks _ _ (st_of rf_ops1)) 12) as [b|] eqn:F; [|revert F; vm_compute; discriminate].
    pose proof (H O b ltac:(lia) F) as Hc. revert F Hc. vm_compute. intros F Hc. inversion F; subst b. discriminate.
  - vm_compute. split; reflexivity.
Qed.

(** * a scored comparison: the candidate a5-a6 (a5 endorsed in SP block 22) against the active chain a1-a2 with ki = 1.
    Instance 1 went through a fork, activated a5 once (a5 is cached fully valid, a6 is not) and came back; instance 2 is
    fresh (nothing of the branch validated).  Same active chain, same candidate chain, no failed mark; the validated part
    of the branch differs (the case handled by the re-validation theorem).  Both answer -100 and activate a6. *)
Definition vx_blocks : list op :=
  [ OConnect 3 0 false [[AddRef 4 1]; [AddRef 7 4; AddEnd 3 3 7]];
    OConnect 6 3 false [[AddRef 10 7]];
    OConnect 15 3 false [[AddRef 22 7; AddEnd 15 15 22]];
    OConnect 18 15 false [[AddRef 25 22]] ].
Definition vx_ops1 : list op :=
  vx_blocks ++ [OConnect 9 0 false [[AddRef 4 1]; [AddRef 13 4]]; OSetState 6; OSetState 9; OSetState 15; OSetState 6].
Definition vx_ops2 : list op := vx_blocks ++ [OSetState 6].
Definition vx_sc := score_of rf_cfg 1 false (fun _ => 0) ex_spv ex_times.
Definition vx_cr := crossed_of 1.

Example verdict_scored_example :
  reachable ex_base (st_of vx_ops1) /\ reachable ex_base (st_of vx_ops2) /\ fresh_history vx_ops2 /\
  active_chain (st_of vx_ops1) = active_chain (st_of vx_ops2) /\
  chain_of (st_of vx_ops1) 18 = chain_of (st_of vx_ops2) 18 /\
  clean_all (st_of vx_ops1) 18 /\ clean_all (st_of vx_ops2) 18 /\
  option_map (b_lvl _) (bfind (blocks _ _ (st_of vx_ops1)) 15) = Some L_FULL /\
  option_map (b_lvl _) (bfind (blocks _ _ (st_of vx_ops2)) 15) = Some L_CONNECTED /\
  match c_compare vx_sc vx_cr (st_of vx_ops1) (Some 18%N), c_compare vx_sc vx_cr (st_of vx_ops2) (Some 18%N) with
  | Ok (t1, r1), Ok (t2, r2) => r1 = -100 /\ r2 = -100 /\ tip _ _ t1 = 18%N /\ tip _ _ t2 = 18%N
  | _, _ => False
  end.
Proof.
  assert (R1 : reachable ex_base (st_of vx_ops1)) by (exists 0%N, 0, vx_ops1; vm_compute; reflexivity).
  assert (R2 : reachable ex_base (st_of vx_ops2)) by (exists 0%N, 0, vx_ops2; vm_compute; reflexivity).
  split; [exact R1|]. split; [exact R2|].
  split; [exists vx_blocks, 6%N; split; [reflexivity|cbn; exact I]|].
  split; [vm_compute; reflexivity|]. split; [vm_compute; reflexivity|].
  split; [|split].
  - apply clean_all_3; [exact (proj1 (proj1 (reachable_good _ _ R1)))|vm_compute; reflexivity|].
    intros k b Hk. destruct k as [|[|[|[|k]]]]; try lia; vm_compute; intros H; inversion H; reflexivity.
  - apply clean_all_3; [exact (proj1 (proj1 (reachable_good _ _ R2)))|vm_compute; reflexivity|].
    intros k b Hk. destruct k as [|[|[|[|k]]]]; try lia; vm_compute; intros H; inversion H; reflexivity.
  - split; [vm_compute; reflexivity|]. split; [vm_compute; reflexivity|]. vm_compute. repeat split; reflexivity.
Qed.
