(** POP state machine — comparePopScore never hits an assert from a reachable state. *)
From Coq Require Import List ZArith NArith Bool Lia Permutation.
Import ListNotations.
From VB Require Import Pop.SmDefs Pop.SmProofs Pop.SmWf Pop.SmTruth Pop.SmCmp Pop.SmAll Pop.SmCoh Pop.SmFull Pop.SmMarks Pop.SmTree Pop.SmReact Pop.SmAbort Pop.SmTwin.
Local Open Scope Z_scope.

Lemma frame_cfind : forall s s' x e, frame s s' -> cfind (cores s) x = Some e -> exists e', cfind (cores s') x = Some e'.
Proof.
  intros s s' x e F He. pose proof (fr_static _ _ F x) as Sx. unfold sfind in Sx. rewrite He in Sx.
  destruct (cfind (cores s') x); [eexists; reflexivity|discriminate].
Qed.
Lemma frame_dep : forall s s' x, frame s s' -> dep s' x = dep s x.
Proof. intros s s' x F. unfold dep. rewrite (fr_root _ _ F), !(hgt_static _ _ _ (fr_static _ _ F)). reflexivity. Qed.
Lemma frame_len : forall s s', wf s -> frame s s' -> length (blocks _ _ s') = length (blocks _ _ s).
Proof.
  intros s s' W0 F. pose proof (fr_static _ _ F) as H.
  destruct F as [W _ _ _]. destruct W as (ND & _). destruct W0 as (ND0 & _).
  assert (I1 : incl (map e_id (cores s')) (map e_id (cores s))).
  { intros j Hj. apply in_map_iff in Hj. destruct Hj as (e & <- & He). pose proof (cfind_in _ _ ND He) as Fe.
    specialize (H (e_id e)). unfold sfind in H. rewrite Fe in H. destruct (cfind (cores s) (e_id e)) as [e'|] eqn:E'; [|discriminate].
    apply cfind_some in E'. destruct E' as [Hid Hin]. rewrite <- Hid. apply in_map. exact Hin. }
  assert (I2 : incl (map e_id (cores s)) (map e_id (cores s'))).
  { intros j Hj. apply in_map_iff in Hj. destruct Hj as (e & <- & He). pose proof (cfind_in _ _ ND0 He) as Fe.
    specialize (H (e_id e)). unfold sfind in H. rewrite Fe in H. destruct (cfind (cores s') (e_id e)) as [e'|] eqn:E'; [|discriminate].
    apply cfind_some in E'. destruct E' as [Hid Hin]. rewrite <- Hid. apply in_map. exact Hin. }
  pose proof (NoDup_incl_length ND I1) as L1. pose proof (NoDup_incl_length ND0 I2) as L2.
  rewrite !map_length in L1, L2. unfold cores in L1, L2. rewrite !map_length in L1, L2. lia.
Qed.

Theorem compare_fork_total : forall base sc cr s c bc bt,
    reachable base s -> bfind (blocks _ _ s) c = Some bc -> bfind (blocks _ _ s) (tip _ _ s) = Some bt ->
    exists s' r, compare_fork pstate ccmd cexec cunexec sc cr s c bc bt = Ok (s', r).
Proof.
  intros base sc cr s c bc bt R Fc Ft. pose proof (reachable_good _ _ R) as G0. pose proof G0 as (Q & C & K & T & U).
  pose proof Q as (W & Ta & Hn). assert (G : ginv base s) by (split; [split; assumption|split; assumption]).
  pose proof (find_cfind _ _ _ Ft) as Ct. pose proof (find_cfind _ _ _ Fc) as Cc.
  pose proof (dep_bound s _ _ W K Ct) as Db1. pose proof (dep_bound s _ _ W K Cc) as Db2.
  destruct (dep_facts s _ _ W K Ct) as (D1 & _ & Hmin1). destruct (dep_facts s _ _ W K Cc) as (D2 & _ & _).
  destruct (lca_spec s W K (2 * fuel_of pstate ccmd s) (tip _ _ s) c _ _ Ct Cc) as (fork & ka & kb & Hl & Hf1 & Hf2 & Ka & Kb & Hmax).
  { unfold fuel_of. lia. }
  unfold compare_fork. rewrite Hl.
  destruct (up_hgt_dep s _ _ ka W K Ct Ka) as (_ & (ef & Hef)). rewrite <- Hf1 in Hef. destruct (core_find _ _ _ Hef) as (bf & Ff & _). rewrite Ff.
  destruct (negb (cr _ _) && negb (cr _ _)); [eexists; eexists; reflexivity|].
  (* apply the candidate next to the active chain *)
  pose proof (twin_init base s G0 c fork ka kb Hf1 Hf2) as T0.
  destruct (twin_apply base s G0 c fork ka kb (core bc) Cc Hf1 Hf2 Ka Kb Hmax s O T0) as (s1 & ok1 & E & Ht1 & Hf1').
  rewrite E. cbn [bind]. destruct ok1; cbn [negb]; [|eexists; eexists; reflexivity].
  specialize (Ht1 eq_refl). pose proof Ht1 as (F1 & G1 & _).
  destruct (Z.leb 0 (sc s1 c)).
  - destruct (twin_unapplyB_range base s G0 c fork ka kb (core bc) Cc Hf1 Hf2 Ka Kb Hmax s1 O O Ht1) as (s2 & E2 & _).
    cbn [up] in E2. rewrite E2. cbn [bind]. eexists. eexists. reflexivity.
  - destruct (twin_uwB base s G0 c fork ka kb (core bc) Cc Hf1 Hf2 Ka Kb Hmax kb s1 O O (not_full ccmd) (fuel_of pstate ccmd s1) Ht1) as (s2 & j & E2 & T2 & Hj & _).
    { lia. }
    { unfold fuel_of. rewrite (frame_len s s1 W F1). lia. }
    cbn [up] in E2. rewrite E2. cbn [bind]. pose proof T2 as (F2 & G2 & _).
    destruct (twin_unapplyA_range base s G0 c fork ka kb (core bc) Cc Hf1 Hf2 Ka Kb Hmax ka s2 O j (fuel_of pstate ccmd s2) T2) as (s3 & E3 & T3).
    { lia. }
    { unfold fuel_of. rewrite (frame_len s s2 W F2). lia. }
    cbn [up] in E3.
    assert (Eu3 : unapply pstate ccmd cunexec s2 (tip pstate ccmd s) fork = Ok s3) by (unfold unapply; rewrite E3; cbn; rewrite N.eqb_refl; reflexivity).
    rewrite Eu3. cbn [bind]. pose proof T3 as (F3 & G3 & _).
    pose proof (twin_alone_B base s G0 c fork ka kb (core bc) Cc Hf1 Hf2 Ka Kb s3 j T3) as A3.
    pose proof (fr_static _ _ F3) as S3.
    destruct (frame_cfind _ _ _ _ F3 Cc) as (ec3 & Cc3).
    destruct (apply_gen base s3 (up (cores s) j c) c j ec3 A3 G3 Cc3) as (s4 & ok2 & E4 & G4 & F4 & Ht4 & Hf4).
    { symmetry. apply up_static. exact S3. }
    { rewrite (frame_dep _ _ _ F3). lia. }
    { intros i Hi. rewrite (up_static _ _ i c S3). apply (twin_oac base s G0 c fork ka kb (core bc) Cc Hf1 Hf2 Ka Kb Hmax s3 i F3). lia. }
    rewrite E4. cbn [bind]. destruct ok2; [eexists; eexists; reflexivity|].
    destruct (Hf4 eq_refl) as (A4 & _).
    assert (F14 : frame s s4) by (eapply frame_trans; eassumption).
    pose proof (fr_static _ _ F14) as S4. pose proof G4 as ((W4 & K4) & _ & _).
    (* back to the fork, then re-apply the old chain, which is untouched *)
    assert (Hd4 : Z.of_nat (kb - j) <= dep s4 (up (cores s) j c)).
    { rewrite (frame_dep _ _ _ F14). destruct (up_hgt_dep s c _ j W K Cc ltac:(lia)) as (Hh & _). unfold dep in *. lia. }
    destruct (unapply_total (kb - j) s4 (up (cores s) j c) (fuel_of pstate ccmd s4) A4 K4 Hd4) as (s5 & E5 & A5 & F5).
    { unfold fuel_of. rewrite (frame_len s s4 W F14). lia. }
    assert (Hfk : up (cores s4) (kb - j) (up (cores s) j c) = fork).
    { rewrite (up_static _ _ _ _ S4), <- up_add. replace (j + (kb - j))%nat with kb by lia. symmetry. exact Hf2. }
    rewrite Hfk in E5, A5.
    assert (Eu5 : unapply pstate ccmd cunexec s4 (up (cores s) j c) fork = Ok s5) by (unfold unapply; rewrite E5; cbn; rewrite N.eqb_refl; reflexivity).
    rewrite Eu5. cbn [bind].
    assert (F15 : frame s s5) by (eapply frame_trans; eassumption).
    pose proof (fr_static _ _ F15) as S5.
    pose proof (ginv_unapply_range _ _ _ _ _ G4 Eu5) as G5. pose proof G5 as ((W5 & K5) & _ & _).
    (* marks changed only on the candidate branch *)
    assert (M15 : md (branch s c) s s5).
    { destruct (md_apply_range _ _ _ _ _ (proj1 G) E) as [M1 _].
      pose proof (md_uw _ _ _ _ _ _ _ E2) as M2. pose proof (md_unapply_range _ _ _ _ Eu3) as M3.
      destruct (md_apply_range _ _ _ _ _ (proj1 G3) E4) as [M4 _]. pose proof (md_unapply_range _ _ _ _ Eu5) as M5.
      eapply md_trans; [exact M1|]. eapply md_trans; [eapply md_weaken; [|exact M2]; intros x []|].
      eapply md_trans; [eapply md_weaken; [|exact M3]; intros x []|].
      eapply md_trans; [eapply md_weaken; [|exact M4]; intros x Hx; exact (branch_static s s3 c x S3 Hx)|].
      eapply md_weaken; [|exact M5]. intros x []. }
    destruct (frame_cfind _ _ _ _ F15 Ct) as (et5 & Ct5).
    destruct (apply_alone_total base s5 fork (tip _ _ s) ka et5 A5 G5 K5 Ct5) as (s6 & E6 & _).
    { rewrite (up_static _ _ ka _ S5). exact Hf1. }
    { rewrite (frame_dep _ _ _ F15). exact Ka. }
    { intros i Hi. rewrite (up_static _ _ i _ S5).
      eapply (old_chain_ok s s5 (tip _ _ s) c fork ka kb W K W5 K5 A5 (ex_intro _ _ Ct) (ex_intro _ _ Cc) Hf1 Hf2 Ka Kb Hmax M15 (fr_root _ _ F15) i Hi).
      split; [apply Hmin1; lia|]. destruct (chain_lvl s Q K T i) as (bi & Fbi & Hli).
      exists bi. split; [exact Fbi|]. split; [exact Hli|].
      pose proof (chain_up_active s Q i) as Hai. destruct (is_act_find _ _ Hai) as (bi2 & Fbi2 & Abi). rewrite Fbi in Fbi2. inversion Fbi2; subst bi2.
      destruct K as (_ & _ & _ & _ & C3 & _). exact (proj1 (C3 _ _ Fbi Abi)). }
    rewrite E6. cbn [bind]. eexists. eexists. reflexivity.
Qed.

Lemma oac_above_tip : forall s x bx bt, bfind (blocks _ _ s) x = Some bx -> bfind (blocks _ _ s) (tip _ _ s) = Some bt ->
    b_h _ bt < b_h _ bx -> on_active_chain pstate ccmd s x = false.
Proof.
  intros s x bx bt Fx Ft Hlt. unfold on_active_chain, fuel_of. rewrite Fx. cbn [anc_at]. rewrite Ft.
  assert (E1 : Z.eqb (b_h ccmd bt) (b_h ccmd bx) = false) by (apply Z.eqb_neq; lia).
  assert (E2 : Z.ltb (b_h ccmd bt) (b_h ccmd bx) = true) by (apply Z.ltb_lt; lia).
  rewrite E1, E2. reflexivity.
Qed.

(** C02: comparePopScore never hits an assert. From every reachable state, for every candidate (unknown, invalid, the
    tip, on the active chain, a successor of the tip, on a fork; failing at any position next to the active chain or
    alone) and every scorer, comparePopScore returns a verdict and never Abort. *)
Theorem compare_total : forall base sc cr s cand,
    reachable base s -> (forall c, cand = Some c -> exists bc, bfind (blocks _ _ s) c = Some bc) ->
    exists s' r, c_compare sc cr s cand = Ok (s', r).
Proof.
  intros base sc cr s cand R Hcand. unfold c_compare, compare.
  destruct cand as [c|]; [|eexists; eexists; reflexivity].
  destruct (Hcand c eq_refl) as (bc & Fc). rewrite Fc.
  pose proof (reachable_good _ _ R) as G0. pose proof G0 as (Q & C & K & T & U). pose proof Q as (W & Ta & Hn).
  assert (G : ginv base s) by (split; [split; assumption|split; assumption]).
  destruct (is_act_find _ _ Ta) as (bt & Ft & At). rewrite Ft.
  destruct (is_failed ccmd bc); [eexists; eexists; reflexivity|].
  destruct (N.eqb (tip pstate ccmd s) c); [eexists; eexists; reflexivity|].
  destruct (on_active_chain pstate ccmd s c); [eexists; eexists; reflexivity|].
  destruct (anc_at ccmd (blocks pstate ccmd s) (fuel_of pstate ccmd s) c (b_h ccmd bt)) as [a|] eqn:Ea;
    [|exact (compare_fork_total base sc cr s c bc bt R Fc Ft)].
  destruct (N.eqb a (tip pstate ccmd s)) eqn:Eat; [|exact (compare_fork_total base sc cr s c bc bt R Fc Ft)].
  apply N.eqb_eq in Eat. subst a.
  destruct (anc_at_sound s W _ _ _ _ Ea) as (k & Hk & Hh1 & Hh2).
  pose proof (find_cfind _ _ _ Fc) as Cc. pose proof (find_cfind _ _ _ Ft) as Ct.
  destruct (dep_facts s _ _ W K Ct) as (D1 & _ & _).
  assert (Hkd : Z.of_nat k <= dep s c) by (unfold dep in *; lia).
  destruct (apply_gen base s (tip _ _ s) c k (core bc) Q G Cc Hk Hkd) as (s1 & ok & E & _).
  { intros i Hi. destruct (up_hgt_dep s c _ i W K Cc ltac:(lia)) as (Hhi & (ei & Hei)). destruct (core_find _ _ _ Hei) as (bi & Fbi & Cbi).
    apply (oac_above_tip s _ bi bt Fbi Ft).
    assert (b_h ccmd bi = hgt (cores s) (up (cores s) i c)) by (unfold hgt; rewrite Hei, <- Cbi; reflexivity).
    assert (b_h ccmd bt = hgt (cores s) (tip pstate ccmd s)) by (unfold hgt; rewrite Ct; reflexivity). lia. }
  rewrite E. cbn [bind]. destruct ok; eexists; eexists; reflexivity.
Qed.

Theorem connect_total : forall s i par pb dup gs,
    bfind (blocks _ _ s) par = Some pb -> bfind (blocks _ _ s) i = None -> exists s', c_connect s i par dup gs = Ok s'.
Proof. intros s i par pb dup gs Fp Fi. unfold c_connect, connect. rewrite Fp, Fi. eexists. reflexivity. Qed.
