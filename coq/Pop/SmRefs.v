(** POP state machine — the reference list of one BTC block (BtcBlockAddon::refs).

    Every executed AddBtcBlock command of a VTB contained in a VBK block of height h appends h to the list of the
    BTC block, its un-execute removes the first entry EQUAL to h. Releases are not always LIFO (comparePopScore
    reverts the losing chain underneath the still applied winner). Whatever the order, the list holds exactly the
    multiset of heights of the commands that are still applied ([refs_are_applied_multiset]); the temporal check of a
    VTB's BTC context ("block-referenced-too-early": some reference <= containing height) reads this list.
    Removing "the last entry <= h" instead is LIFO-correct but drops the wrong entry otherwise
    ([remove_last_le_refuted]: [9;3] minus 9 gives [9] instead of [3]). *)
From Coq Require Import List ZArith Bool Lia.
Import ListNotations.
Local Open Scope Z_scope.

Fixpoint rem_eq (h : Z) (l : list Z) : list Z :=
  match l with
  | [] => []
  | x :: r => if Z.eqb h x then r else x :: rem_eq h r
  end.

Fixpoint cnt (k : Z) (l : list Z) : Z :=
  match l with
  | [] => 0
  | x :: r => (if Z.eqb k x then 1 else 0) + cnt k r
  end.

Lemma cnt_app : forall k a b, cnt k (a ++ b) = cnt k a + cnt k b.
Proof. intros k a b; induction a as [|x r IH]; simpl; [reflexivity|]. rewrite IH. lia. Qed.

Lemma cnt_rem_eq : forall h k l, In h l -> cnt k (rem_eq h l) = cnt k l - (if Z.eqb k h then 1 else 0).
Proof.
  intros h k l; induction l as [|x r IH]; simpl; intro H; [contradiction|].
  destruct (Z.eqb h x) eqn:E.
  - apply Z.eqb_eq in E; subst x. lia.
  - simpl. destruct H as [H|H]; [subst x; rewrite Z.eqb_refl in E; discriminate|].
    rewrite (IH H). lia.
Qed.

Inductive rop : Type := Add (h : Z) | Rel (h : Z).

Fixpoint run (ops : list rop) (l : list Z) : list Z :=
  match ops with
  | [] => l
  | Add h :: r => run r (l ++ [h])
  | Rel h :: r => run r (rem_eq h l)
  end.

(** a release is only issued for a command that is applied: its height is in the list at that moment *)
Fixpoint wf (ops : list rop) (l : list Z) : Prop :=
  match ops with
  | [] => True
  | Add h :: r => wf r (l ++ [h])
  | Rel h :: r => In h l /\ wf r (rem_eq h l)
  end.

(** number of still applied commands of height k *)
Fixpoint bal (k : Z) (ops : list rop) : Z :=
  match ops with
  | [] => 0
  | Add h :: r => (if Z.eqb k h then 1 else 0) + bal k r
  | Rel h :: r => bal k r - (if Z.eqb k h then 1 else 0)
  end.

Theorem refs_are_applied_multiset_from : forall ops l k, wf ops l -> cnt k (run ops l) = cnt k l + bal k ops.
Proof.
  induction ops as [|o r IH]; intros l k H; simpl in *; [lia|].
  destruct o as [h|h].
  - rewrite (IH _ k H), cnt_app. simpl. lia.
  - destruct H as [Hin Hw]. rewrite (IH _ k Hw), (cnt_rem_eq h k l Hin). lia.
Qed.

(** any interleaving of executes and (non-LIFO) un-executes, starting from no reference *)
Theorem refs_are_applied_multiset : forall ops k, wf ops [] -> cnt k (run ops []) = bal k ops.
Proof. intros ops k H. rewrite (refs_are_applied_multiset_from ops [] k H). reflexivity. Qed.

(** ** the variant "erase the last entry <= h" *)
Fixpoint rem_first_le (h : Z) (l : list Z) : list Z :=     (* on the reversed list *)
  match l with
  | [] => []
  | x :: r => if Z.leb x h then r else x :: rem_first_le h r
  end.
Definition rem_last_le (h : Z) (l : list Z) : list Z := rev (rem_first_le h (rev l)).

(** chain A (VTB in VBK 9) is active, the better chain B (VTB in VBK 3, same BTC block) is applied next to it and
    stays, A is reverted underneath: the reference that must remain is 3 *)
Example remove_last_le_refuted :
  let ops := [Add 9; Add 3; Rel 9] in
  wf ops [] /\ run ops [] = [3] /\ cnt 3 (run ops []) = bal 3 ops /\
  rem_last_le 9 [9; 3] = [9] /\ cnt 3 (rem_last_le 9 [9; 3]) <> bal 3 ops /\
  (* LIFO releases agree *) rem_last_le 3 [9; 3] = rem_eq 3 [9; 3].
Proof. simpl. repeat split; auto; try discriminate. Qed.
