(** POP state machine — setState never hits an assert from a reachable state (any target, failing or not). *)
From Coq Require Import List ZArith NArith Bool Lia Permutation.
Import ListNotations.
From VB Require Import Pop.SmDefs Pop.SmProofs Pop.SmWf Pop.SmTruth Pop.SmCmp Pop.SmAll Pop.SmCoh Pop.SmFull Pop.SmMarks Pop.SmTree Pop.SmReact.
Local Open Scope Z_scope.

Lemma up_root : forall s k, wf s -> up (cores s) k (root _ _ s) = root _ _ s.
Proof.
  intros s k W. induction k as [|k IH]; [reflexivity|]. cbn. destruct W as (_ & (hr & HR) & _).
  unfold parent. rewrite HR. exact IH.
Qed.

(** soundness of Chain::operator[] / getAncestor as modelled by [anc_at] *)
Lemma anc_at_sound : forall s, wf s -> forall fuel i h a,
    anc_at ccmd (blocks _ _ s) fuel i h = Some a ->
    exists k, a = up (cores s) k i /\ hgt (cores s) a = h /\ hgt (cores s) a = hgt (cores s) i - Z.of_nat k.
Proof.
  intros s W fuel. induction fuel as [|f IH]; intros i h a H; cbn in H.
  - destruct (bfind (blocks pstate ccmd s) i) as [b|] eqn:Fb; [|discriminate].
    destruct (Z.eqb (b_h ccmd b) h) eqn:E; [|destruct (Z.ltb (b_h ccmd b) h); discriminate].
    inversion H; subst a. apply Z.eqb_eq in E. exists O. cbn. unfold hgt. rewrite (find_cfind _ _ _ Fb). cbn. split; [reflexivity|split; lia].
  - destruct (bfind (blocks pstate ccmd s) i) as [b|] eqn:Fb; [|discriminate].
    assert (Hh : hgt (cores s) i = b_h ccmd b) by (unfold hgt; rewrite (find_cfind _ _ _ Fb); reflexivity).
    destruct (Z.eqb (b_h ccmd b) h) eqn:E.
    { inversion H; subst a. apply Z.eqb_eq in E. exists O. cbn. split; [reflexivity|split; lia]. }
    apply Z.eqb_neq in E. destruct (Z.ltb (b_h ccmd b) h); [discriminate|].
    destruct (IH _ _ _ H) as (k & Ha & Hh1 & Hh2).
    assert (Hp : parent (cores s) i = b_par ccmd b) by (unfold parent; rewrite (find_cfind _ _ _ Fb); reflexivity).
    destruct (N.eq_dec i (root _ _ s)) as [Hr|Hr].
    + exfalso. subst i. destruct (wf_act_closed _ W) as (_ & Pr & _). rewrite (Pr _ Fb) in Ha, Hh2.
      rewrite (up_root s k W) in Ha. subst a. lia.
    + pose proof (wf_parent_height _ _ _ W (find_cfind _ _ _ Fb) Hr) as Hph. change (e_par (core b)) with (b_par ccmd b) in Hph.
      exists (S k). split; [cbn; rewrite Hp; exact Ha|]. split; [exact Hh1|]. rewrite Nat2Z.inj_succ. lia.
Qed.

(** blocks strictly above the fork on the target branch are not on the active chain *)
Lemma above_fork_not_active_chain : forall s t to fork ka kb i,
    wf s -> scoh s ->
    (exists e, cfind (cores s) t = Some e) -> (exists e, cfind (cores s) to = Some e) ->
    fork = up (cores s) ka t -> fork = up (cores s) kb to -> Z.of_nat ka <= dep s t -> Z.of_nat kb <= dep s to ->
    (forall g i j, g = up (cores s) i t -> g = up (cores s) j to -> Z.of_nat i <= dep s t -> Z.of_nat j <= dep s to ->
                   hgt (cores s) g <= hgt (cores s) fork) ->
    (i < kb)%nat ->
    forall fuel, anc_at ccmd (blocks _ _ s) fuel t (hgt (cores s) (up (cores s) i to)) <> Some (up (cores s) i to).
Proof.
  intros s t to fork ka kb i W C (et & Het) (eto & Heto) Hf1 Hf2 Ka Kb Hmax Hi fuel Hanc.
  destruct (anc_at_sound s W _ _ _ _ Hanc) as (k & Hk & _ & Hhk).
  destruct (up_hgt_dep s to eto i W C Heto ltac:(lia)) as (Hhi & (ei & Hei)).
  destruct (up_hgt_dep s to eto kb W C Heto Kb) as (Hhf & _). rewrite <- Hf2 in Hhf.
  destruct (dep_facts s _ _ W C Hei) as (Dx & _ & _).
  assert (Hkd : Z.of_nat k <= dep s t) by (unfold dep in *; lia).
  pose proof (Hmax _ k i Hk eq_refl Hkd ltac:(lia)) as Hle. lia.
Qed.

(** ** one applyBlock on top of the only applied chain never aborts *)
Lemma applyBlock_alone_gen : forall base s cur x b,
    alone s cur -> ginv base s ->
    bfind (blocks _ _ s) x = Some b -> b_par _ b = cur -> x <> root _ _ s -> is_failed _ b = false ->
    on_active_chain pstate ccmd s x = false ->
    exists s' ok, c_applyBlock s x = Ok (s', ok) /\ ginv base s' /\ frame s s' /\
                  (ok = true -> alone s' x) /\ (ok = false -> alone s' cur).
Proof.
  intros base s cur x b A G Fb Hp Hxr Hnf Hoac. pose proof G as (WI & C & T). pose proof WI as (_ & K).
  pose proof (proj1 (alone_unfold _ _) A) as (W & Ta & Hn).
  destruct (is_act_find _ _ Ta) as (pb & Fpb & Apb).
  pose proof (find_cfind _ _ _ Fb) as Cb.
  pose proof (wf_parent_height _ _ _ W Cb Hxr) as Hph. change (e_par (core b)) with (b_par ccmd b) in Hph. rewrite Hp in Hph.
  assert (Hina : b_act ccmd b = false).
  { destruct (b_act ccmd b) eqn:Ab; [|reflexivity]. exfalso.
    assert (is_act (cores s) x) by (exists (core b); split; [exact Cb|exact Ab]). pose proof (alone_active _ _ _ A H). lia. }
  pose proof (no_active_child s cur x A Hxr ltac:(lia)) as Hnc.
  assert (Hfc : b_fc ccmd b = false) by (unfold is_failed in Hnf; apply orb_false_iff in Hnf; apply Hnf).
  assert (Hfp : b_fp ccmd b = false).
  { unfold is_failed in Hnf. apply orb_false_iff in Hnf. destruct Hnf as [Hnf _]. apply orb_false_iff in Hnf. apply Hnf. }
  assert (Hl2 : N.ltb (b_lvl ccmd b) L_CONNECTED = false).
  { apply N.ltb_ge. destruct K as (_ & _ & _ & _ & _ & C5). exact (C5 _ _ Fb). }
  assert (Hpl : N.le L_MAYBE (b_lvl ccmd pb)).
  { destruct K as (_ & _ & _ & _ & C3 & _). rewrite <- Hp in Fpb. exact (proj2 (C3 _ _ Fpb Apb)). }
  assert (E : exists s' ok, c_applyBlock s x = Ok (s', ok)).
  { unfold c_applyBlock, applyBlock. rewrite Fb. pose proof Hxr as Hxr'. apply N.eqb_neq in Hxr'. rewrite Hxr'. rewrite Hp, Fpb, Apb. cbn [negb].
    rewrite Hina, Hnc, Hfc, Hnf, Hl2.
    destruct (gsexec pstate ccmd cexec cunexec [] (b_gs ccmd b) (pst pstate ccmd s)) as [p' okg] eqn:Eg.
    destruct okg; cbn [negb].
    - match goal with |- context [N.ltb (b_lvl ccmd b) ?u && N.ltb (b_lvl ccmd pb) ?u] => assert (Hu : N.ltb (b_lvl ccmd b) u && N.ltb (b_lvl ccmd pb) u = false) end.
      { destruct (valid_upto ccmd pb L_FULL) eqn:Vp; cbn [andb].
        - destruct (Z.eqb (b_h ccmd b) _).
          + apply andb_false_iff. right. apply N.ltb_ge. unfold valid_upto in Vp. apply andb_prop in Vp. apply N.leb_le. apply Vp.
          + apply andb_false_iff. right. apply N.ltb_ge. exact Hpl.
        - apply andb_false_iff. right. apply N.ltb_ge. exact Hpl. }
      rewrite Hu. eexists. eexists. reflexivity.
    - unfold invalidate_pop. cbn [blocks with_pst]. rewrite Fb, Hfp, Hnf.
      match goal with |- context [on_active_chain pstate ccmd ?S x] => replace (on_active_chain pstate ccmd S x) with false by (symmetry; exact Hoac) end.
      destruct (N.eqb (b_lvl ccmd b) L_FULL) eqn:El.
      + exfalso. apply N.eqb_eq in El.
        destruct (groups_succeed base s cur x b A C T Fb Hp Hxr ltac:(lia)) as (p'' & Eg'). rewrite Eg in Eg'. discriminate.
      + cbn [bind]. eexists. eexists. reflexivity. }
  destruct E as (s' & ok & E). exists s', ok. split; [exact E|]. split; [eapply ginv_apply; eassumption|].
  destruct ok.
  - destruct (apply_ok_core _ _ _ W E) as (W1 & C1 & N1 & R1 & T1 & (e0 & He0 & _)).
    assert (S1 : same_static (cores s) (cores s')) by (rewrite C1; apply same_static_cupd).
    pose proof (fun j => hgt_static _ _ j S1) as HS.
    split; [constructor; assumption|]. split; [|discriminate]. intros _.
    apply alone_unfold. split; [exact W1|]. split.
    + rewrite C1. exists (setact x true e0). rewrite cfind_cupd', He0. split; [reflexivity|].
      unfold setact. apply cfind_some in He0. destruct He0 as [Hid _]. rewrite Hid, N.eqb_refl. reflexivity.
    + rewrite N1, R1, ?HS. lia.
  - destruct (apply_fail_core _ _ _ E) as (C1 & N1 & R1 & T1).
    assert (W1 : wf s') by (unfold wf; rewrite C1, R1, N1; exact W).
    split; [constructor; [exact W1|rewrite C1; apply same_static_refl|exact R1|exact T1]|]. split; [discriminate|]. intros _.
    apply alone_unfold. split; [exact W1|]. rewrite C1, N1, R1. split; assumption.
Qed.

(** ** helpers: what depends only on the static part of the tree *)
Lemma find_static_hp : forall (l l' : list cblk) j b b',
    map (static ccmd) l' = map (static ccmd) l -> bfind l j = Some b -> bfind l' j = Some b' ->
    b_h _ b' = b_h _ b /\ b_par _ b' = b_par _ b /\ b_id _ b' = b_id _ b.
Proof.
  induction l as [|x r IH]; intros l' j b b' H F F'; destruct l' as [|x' r']; cbn in H; try discriminate.
  assert (Hx : static ccmd x' = static ccmd x) by exact (f_equal (fun t => hd (static ccmd x) t) H).
  assert (Hr : map (static ccmd) r' = map (static ccmd) r) by exact (f_equal (@tl _) H).
  assert (Hid : b_id ccmd x' = b_id ccmd x) by exact (f_equal (fun t => fst (fst (fst t))) Hx).
  cbn in F, F'. rewrite Hid in F'. destruct (N.eqb (b_id ccmd x) j).
  - inversion F; inversion F'; subst. split; [exact (f_equal (fun t => snd (fst t)) Hx)|split; [exact (f_equal (fun t => snd (fst (fst t))) Hx)|exact Hid]].
  - eapply IH; eassumption.
Qed.

Lemma anc_at_static : forall (l l' : list cblk) fuel i h,
    map (static ccmd) l' = map (static ccmd) l -> anc_at ccmd l' fuel i h = anc_at ccmd l fuel i h.
Proof.
  intros l l' fuel. induction fuel as [|f IH]; intros i h H; cbn.
  - destruct (bfind l i) as [b|] eqn:F.
    + destruct (static_find _ _ i b H F) as (b' & F'). rewrite F'. destruct (find_static_hp _ _ _ _ _ H F F') as (A & _). rewrite A. reflexivity.
    + destruct (bfind l' i) as [b'|] eqn:F'; [|reflexivity]. symmetry in H. destruct (static_find _ _ i b' H F') as (b & F2). congruence.
  - destruct (bfind l i) as [b|] eqn:F.
    + destruct (static_find _ _ i b H F) as (b' & F'). rewrite F'. destruct (find_static_hp _ _ _ _ _ H F F') as (A & B & _). rewrite A, B.
      destruct (Z.eqb (b_h ccmd b) h); [reflexivity|]. destruct (Z.ltb (b_h ccmd b) h); [reflexivity|]. apply IH. exact H.
    + destruct (bfind l' i) as [b'|] eqn:F'; [|reflexivity]. symmetry in H. destruct (static_find _ _ i b' H F') as (b & F2). congruence.
Qed.

Lemma oac_static : forall s s' x,
    map (static ccmd) (blocks _ _ s') = map (static ccmd) (blocks _ _ s) -> tip _ _ s' = tip _ _ s ->
    on_active_chain pstate ccmd s' x = on_active_chain pstate ccmd s x.
Proof.
  intros s s' x H T. unfold on_active_chain, fuel_of. rewrite T.
  assert (Hlen : length (blocks pstate ccmd s') = length (blocks pstate ccmd s)).
  { rewrite <- (map_length (static ccmd) (blocks pstate ccmd s')), H, map_length. reflexivity. }
  rewrite Hlen.
  destruct (bfind (blocks pstate ccmd s) x) as [b|] eqn:F.
  - destruct (static_find _ _ x b H F) as (b' & F'). rewrite F'. destruct (find_static_hp _ _ _ _ _ H F F') as (A & _). rewrite A.
    rewrite (anc_at_static _ _ _ _ _ H). reflexivity.
  - destruct (bfind (blocks pstate ccmd s') x) as [b'|] eqn:F'; [|reflexivity]. symmetry in H. destruct (static_find _ _ x b' H F') as (b & F2). congruence.
Qed.

Lemma frame_static_blocks : forall T s s', md T s s' -> map (static ccmd) (blocks _ _ s') = map (static ccmd) (blocks _ _ s).
Proof. intros T s s' (H & _). exact H. Qed.

(** flags after one applyBlock *)
Lemma apply_ok_flags : forall s i s' j b b', c_applyBlock s i = Ok (s', true) ->
    bfind (blocks _ _ s) j = Some b -> bfind (blocks _ _ s') j = Some b' -> is_failed _ b' = is_failed _ b.
Proof.
  intros s i s' j b b' H F F'. unfold c_applyBlock, applyBlock in H.
  destruct (bfind (blocks pstate ccmd s) i) as [bi|]; [|discriminate].
  destruct (N.eqb i (root pstate ccmd s)); [discriminate|].
  destruct (bfind (blocks pstate ccmd s) (b_par ccmd bi)) as [pb|]; [|discriminate].
  destruct (negb (b_act ccmd pb)); [discriminate|].
  destruct (b_act ccmd bi); [discriminate|].
  destruct (child_active ccmd (blocks pstate ccmd s) i); [discriminate|].
  destruct (b_fc ccmd bi); [discriminate|].
  destruct (is_failed ccmd bi); [discriminate|].
  destruct (N.ltb (b_lvl ccmd bi) L_CONNECTED); [discriminate|].
  destruct (gsexec pstate ccmd cexec cunexec [] (b_gs ccmd bi) (pst pstate ccmd s)) as [p' okg].
  destruct okg; cbn [negb] in H; [|destruct (invalidate_pop pstate ccmd _ i); cbn in H; [inversion H|discriminate]].
  match type of H with (if ?c then _ else _) = _ => destruct c end; [discriminate|]. inversion H; subst s'; clear H.
  cbn [blocks] in F'. rewrite find_upd_any in F' by reflexivity. rewrite F in F'. cbn in F'. inversion F'; subst b'.
  destruct (N.eqb (b_id ccmd b) i); reflexivity.
Qed.

Lemma apply_fail_failed : forall s x s', wf s -> c_applyBlock s x = Ok (s', false) ->
    exists b', bfind (blocks _ _ s') x = Some b' /\ is_failed _ b' = true.
Proof.
  intros s x s' W H. destruct (md_apply_fail s x s' W H) as (HS & M).
  pose proof H as H0. unfold c_applyBlock, applyBlock in H0.
  destruct (bfind (blocks pstate ccmd s) x) as [b|] eqn:Fb; [|discriminate].
  destruct (static_find _ _ x b HS Fb) as (b' & Fb'). exists b'. split; [exact Fb'|].
  destruct (M x b b' Fb Fb') as (A & _ & _ & D & _ & G & _).
  destruct (is_failed ccmd b) eqn:Hf.
  - unfold is_failed in *. rewrite A. apply orb_true_iff in Hf. destruct Hf as [Hf|Hf]; [apply orb_true_iff in Hf; destruct Hf as [Hf|Hf]|].
    + rewrite Hf. reflexivity.
    + rewrite (D Hf). rewrite orb_true_r. reflexivity.
    + rewrite (G Hf). apply orb_true_r.
  - (* the block was valid: it got FAILED_POP *)
    destruct (N.eqb x (root pstate ccmd s)); [discriminate|].
    destruct (bfind (blocks pstate ccmd s) (b_par ccmd b)) as [pb|]; [|discriminate].
    destruct (negb (b_act ccmd pb)); [discriminate|].
    destruct (b_act ccmd b); [discriminate|].
    destruct (child_active ccmd (blocks pstate ccmd s) x); [discriminate|].
    destruct (b_fc ccmd b); [discriminate|].
    destruct (N.ltb (b_lvl ccmd b) L_CONNECTED); [discriminate|].
    destruct (gsexec pstate ccmd cexec cunexec [] (b_gs ccmd b) (pst pstate ccmd s)) as [p' okg].
    destruct okg; cbn [negb] in H0.
    { match type of H0 with (if ?c then _ else _) = _ => destruct c end; discriminate. }
    unfold invalidate_pop in H0. cbn [blocks with_pst] in H0. rewrite Fb in H0.
    assert (Hfp : b_fp ccmd b = false).
    { unfold is_failed in Hf. apply orb_false_iff in Hf. destruct Hf as [Hf _]. apply orb_false_iff in Hf. apply Hf. }
    rewrite Hfp, Hf in H0.
    destruct (on_active_chain pstate ccmd _ x); [discriminate|].
    destruct (N.eqb (b_lvl ccmd b) L_FULL); cbn in H0; inversion H0; subst s'; clear H0.
    cbn [blocks with_blocks with_pst] in Fb'.
    assert (ND : NoDup (ids (blocks _ _ s))) by (destruct W as (ND & _); unfold ids; unfold cores in ND; rewrite map_map in ND; exact ND).
    rewrite find_mark_desc in Fb' by (rewrite ids_upd by reflexivity; exact ND).
    rewrite find_upd_any in Fb' by reflexivity. rewrite Fb in Fb'. cbn in Fb'. rewrite (bfind_id _ _ _ Fb), N.eqb_refl in Fb'.
    inversion Fb'; subst b'. unfold is_failed. destruct (existsb _ _); cbn; rewrite ?orb_true_r; reflexivity.
Qed.

(** ** apply_path / apply on top of the only applied chain never abort *)
Definition tryblk (s : cst) (x : N) : Prop :=
  x <> root _ _ s /\ (exists b, bfind (blocks _ _ s) x = Some b /\ is_failed _ b = false) /\
  on_active_chain pstate ccmd s x = false.

Lemma failed_in (s : cst) (x : N) : Prop.
Proof. exact (exists b, bfind (blocks _ _ s) x = Some b /\ is_failed _ b = true). Defined.

Lemma apply_path_gen : forall base path s from cur k,
    alone s cur -> ginv base s -> linked (cores s) cur path ->
    from = up (cores s) k cur -> Z.of_nat k <= dep s cur ->
    (forall x, In x path -> tryblk s x) ->
    exists s' ok, apply_path pstate ccmd cexec cunexec s from path = Ok (s', ok) /\ ginv base s' /\ frame s s' /\
                  (ok = true -> alone s' (last path cur)) /\
                  (ok = false -> alone s' from /\ exists x, In x path /\ failed_in s' x).
Proof.
  intros base path. induction path as [|x r IH]; intros s from cur k A G L Hfrom Hk Htry.
  - exists s, true. cbn. split; [reflexivity|]. split; [exact G|].
    split; [apply frame_refl; exact (proj1 (proj1 (alone_unfold _ _) A))|]. split; [intros _; exact A|discriminate].
  - destruct L as [(e & He & Hp) Lr]. destruct (Htry x (or_introl eq_refl)) as (Hxr & (b & Fb & Hnf) & Hoac).
    pose proof (find_cfind _ _ _ Fb) as Cb. rewrite He in Cb. inversion Cb; subst e. change (e_par (core b)) with (b_par ccmd b) in Hp.
    pose proof (proj1 (alone_unfold _ _) A) as (W & Ta & Hn). pose proof G as ((_ & K) & _ & _).
    destruct (applyBlock_alone_gen base s cur x b A G Fb Hp Hxr Hnf Hoac) as (s1 & ok1 & E1 & G1 & F1 & Ht1 & Hf1).
    pose proof (fr_static _ _ F1) as S1.
    assert (HSb : map (static ccmd) (blocks _ _ s1) = map (static ccmd) (blocks _ _ s)).
    { exact (staticInv_apply _ _ _ _ _ (eq_refl : staticInv (map (static ccmd) (blocks _ _ s)) s) E1). }
    cbn [apply_path]. change (applyBlock pstate ccmd cexec cunexec s x) with (c_applyBlock s x). rewrite E1. cbn [bind].
    destruct ok1.
    + specialize (Ht1 eq_refl).
      assert (Hpx : parent (cores s) x = cur) by (unfold parent; rewrite He; exact Hp).
      pose proof (wf_parent_height _ _ _ W He Hxr) as Hph. change (e_par (core b)) with (b_par ccmd b) in Hph. rewrite Hp in Hph.
      assert (Htry1 : forall y, In y r -> tryblk s1 y).
      { intros y Hy. destruct (Htry y (or_intror Hy)) as (Hyr & (by0 & Fy & Hyf) & Hyo). split; [rewrite (fr_root _ _ F1); exact Hyr|]. split.
        - destruct (static_find _ _ y by0 HSb Fy) as (by1 & Fy1). exists by1. split; [exact Fy1|]. rewrite (apply_ok_flags _ _ _ _ _ _ E1 Fy Fy1). exact Hyf.
        - rewrite (oac_static s s1 y HSb (fr_tip _ _ F1)). exact Hyo. }
      destruct (IH s1 from x (S k) Ht1 G1 (linked_static _ _ _ _ S1 Lr)) as (s' & ok & E' & G' & F' & Ht' & Hf').
      { rewrite (up_static _ _ (S k) x S1). cbn [up]. rewrite Hpx. exact Hfrom. }
      { unfold dep in *. rewrite (fr_root _ _ F1), !(hgt_static _ _ _ S1). lia. }
      { exact Htry1. }
      exists s', ok. split; [exact E'|]. split; [exact G'|]. split; [eapply frame_trans; eassumption|]. split.
      * intros Hok. specialize (Ht' Hok). destruct r as [|y r']; [exact Ht'|]. change (last (x :: y :: r') cur) with (last (y :: r') cur).
        rewrite (last_cons_default r' y cur x). exact Ht'.
      * intros Hok. destruct (Hf' Hok) as (Af & (y & Hy & Fy)). split; [exact Af|]. exists y. split; [right; exact Hy|exact Fy].
    + specialize (Hf1 eq_refl).
      destruct (static_find _ _ x b HSb Fb) as (bx & Fx). rewrite Fx.
      destruct (find_static_hp _ _ _ _ _ HSb Fb Fx) as (_ & Hpx & _). rewrite Hpx, Hp.
      pose proof G1 as ((W1 & K1) & _ & _).
      assert (Hk1 : Z.of_nat k <= dep s1 cur) by (unfold dep in *; rewrite (fr_root _ _ F1), !(hgt_static _ _ _ S1); exact Hk).
      destruct Ta as (ec & Hec & _).
      pose proof (dep_bound s _ _ W K Hec) as Hdb.
      destruct (unapply_total k s1 cur (fuel_of pstate ccmd s1) Hf1 K1 Hk1) as (s2 & E2 & A2 & F2).
      { unfold fuel_of. assert (length (blocks pstate ccmd s1) = length (blocks pstate ccmd s)) by (rewrite <- (map_length (static ccmd) (blocks pstate ccmd s1)), HSb, map_length; reflexivity). lia. }
      rewrite (up_static _ _ k cur S1), <- Hfrom in E2, A2.
      assert (Eu : unapply pstate ccmd cunexec s1 cur from = Ok s2) by (unfold unapply; rewrite E2; cbn; rewrite N.eqb_refl; reflexivity).
      rewrite Eu. cbn [bind]. exists s2, false. split; [reflexivity|]. split; [eapply ginv_unapply_range; eassumption|].
      split; [eapply frame_trans; eassumption|]. split; [discriminate|]. intros _. split; [exact A2|].
      exists x. split; [left; reflexivity|].
      destruct (apply_fail_failed s x s1 W E1) as (bx1 & Fx1 & Hfx1).
      pose proof (md_unapply_range _ _ _ _ Eu) as M2. destruct (static_find _ _ x bx1 (proj1 M2) Fx1) as (bx2 & Fx2).
      exists bx2. split; [exact Fx2|]. rewrite (proj1 (md_nobody_failed _ _ _ _ _ M2 Fx1 Fx2)). exact Hfx1.
Qed.

Lemma anc_valid : forall s to bto, wf s -> scoh s ->
    bfind (blocks _ _ s) to = Some bto -> is_failed _ bto = false ->
    forall i, Z.of_nat i <= dep s to ->
    exists b, bfind (blocks _ _ s) (up (cores s) i to) = Some b /\ is_failed _ b = false.
Proof.
  intros s to bto W C Fto Hv. pose proof (find_cfind _ _ _ Fto) as Cto.
  destruct (dep_facts s to _ W C Cto) as (_ & _ & Hmin).
  induction i as [|i IH]; intros Hi.
  - exists bto. cbn. split; assumption.
  - destruct IH as (b & Fb & Hf); [lia|].
    assert (Hnr : up (cores s) i to <> root _ _ s) by (apply Hmin; lia).
    pose proof (find_cfind _ _ _ Fb) as Cb. destruct (wf_closed s W _ _ Cb) as (pe & Hpe). destruct (core_find _ _ _ Hpe) as (pb & Fpb & _).
    change (e_par (core b)) with (b_par ccmd b) in Fpb.
    rewrite up_succ_r. unfold parent. rewrite Cb. change (e_par (core b)) with (b_par ccmd b).
    exists pb. split; [exact Fpb|]. destruct C as (_ & _ & C1 & _).
    destruct (is_failed ccmd pb) eqn:Fp; [|reflexivity]. exfalso. pose proof (C1 _ _ _ Fb Hnr Fpb Fp) as Hfc.
    unfold is_failed in Hf. rewrite Hfc in Hf. rewrite !orb_true_r in Hf. discriminate.
Qed.

Lemma failed_down : forall s b eb, wf s -> scoh s -> cfind (cores s) b = Some eb ->
    forall i, Z.of_nat i <= dep s b -> failed_in s (up (cores s) i b) -> failed_in s b.
Proof.
  intros s b eb W C Hb. destruct (dep_facts s b _ W C Hb) as (_ & _ & Hmin).
  induction i as [|i IH]; intros Hi Hf; [exact Hf|]. apply IH; [lia|].
  destruct (up_hgt_dep s b eb i W C Hb ltac:(lia)) as (_ & (ei & Hei)). destruct (core_find _ _ _ Hei) as (bi & Fbi & Cbi).
  assert (Hnr : up (cores s) i b <> root _ _ s) by (apply Hmin; lia).
  destruct Hf as (pb & Fpb & Hpf). rewrite up_succ_r in Fpb. unfold parent in Fpb. rewrite Hei, <- Cbi in Fpb. change (e_par (core bi)) with (b_par ccmd bi) in Fpb.
  exists bi. split; [exact Fbi|]. destruct C as (_ & _ & C1 & _). pose proof (C1 _ _ _ Fbi Hnr Fpb Hpf) as Hfc.
  unfold is_failed. rewrite Hfc. apply orb_true_r.
Qed.

Lemma apply_gen : forall base s a b m eb,
    alone s a -> ginv base s -> cfind (cores s) b = Some eb ->
    a = up (cores s) m b -> Z.of_nat m <= dep s b ->
    (forall i, (i < m)%nat -> on_active_chain pstate ccmd s (up (cores s) i b) = false) ->
    exists s' ok, apply pstate ccmd cexec cunexec s a b = Ok (s', ok) /\ ginv base s' /\ frame s s' /\
                  (ok = true -> alone s' b) /\ (ok = false -> alone s' a /\ failed_in s' b).
Proof.
  intros base s a b m eb A G Hb Ha Hm Hoac. pose proof (proj1 (alone_unfold _ _) A) as (W & Ta & Hn). pose proof G as ((_ & C) & _ & _).
  destruct m as [|m].
  { cbn in Ha. subst a. exists s, true. unfold apply. rewrite N.eqb_refl. split; [reflexivity|]. split; [exact G|].
    split; [apply frame_refl; exact W|]. split; [intros _; exact A|discriminate]. }
  destruct (up_hgt_dep s b eb (S m) W C Hb Hm) as (Hha & (ea & Hea)). rewrite <- Ha in Hha, Hea.
  assert (Hfound : forall i, (i < S m)%nat -> exists e, cfind (cores s) (up (cores s) i b) = Some e).
  { intros i Hi. apply (up_hgt_dep s b eb i W C Hb). lia. }
  unfold apply.
  assert (Hab : N.eqb a b = false) by (apply N.eqb_neq; intro Heq; rewrite Heq in Hha; lia).
  rewrite Hab. destruct (core_find _ _ _ Hea) as (ba & Fa & Ca). destruct (core_find _ _ _ Hb) as (bb & Fb & Cbb). rewrite Fa, Fb.
  destruct (is_failed ccmd bb) eqn:Hfb.
  { exists s, false. split; [reflexivity|]. split; [exact G|]. split; [apply frame_refl; exact W|]. split; [discriminate|].
    intros _. split; [exact A|]. exists bb. split; assumption. }
  assert (Hhb : hgt (cores s) b = b_h ccmd bb) by (unfold hgt; rewrite Hb, <- Cbb; reflexivity).
  assert (Hha' : hgt (cores s) a = b_h ccmd ba) by (unfold hgt; rewrite Hea, <- Ca; reflexivity).
  assert (Hlt : negb (Z.ltb (b_h ccmd ba) (b_h ccmd bb)) = false) by (apply negb_false_iff; apply Z.ltb_lt; lia).
  rewrite Hlt.
  assert (Hn' : Z.to_nat (b_h ccmd bb - b_h ccmd ba) = S m) by lia. rewrite Hn'.
  rewrite (path_up_seq s (S m) b Hfound).
  set (upl := map (fun i => up (cores s) i b) (seq 0 (S m))).
  assert (Eup : path_up ccmd (blocks pstate ccmd s) (S m) b = Some upl) by (apply path_up_seq; exact Hfound).
  assert (Hne : upl <> []) by (unfold upl; cbn; discriminate).
  assert (Hlast : last upl b = up (cores s) m b) by (unfold upl; rewrite seq_S, map_app; cbn; apply last_last).
  destruct (rev upl) as [|x r] eqn:Erev.
  { exfalso. apply Hne. rewrite <- (rev_involutive upl), Erev. reflexivity. }
  assert (Hx : x = up (cores s) m b).
  { rewrite <- Hlast. rewrite <- (rev_involutive upl), Erev. cbn [rev]. symmetry. apply last_last. }
  destruct (Hfound m ltac:(lia)) as (ex & Hex). rewrite <- Hx in Hex. destruct (core_find _ _ _ Hex) as (bx & Fx & Cx). rewrite Fx.
  assert (Hpx : b_par ccmd bx = a).
  { rewrite Ha. rewrite up_succ_r, <- Hx. unfold parent. rewrite Hex, <- Cx. reflexivity. }
  apply N.eqb_eq in Hpx. rewrite Hpx. apply N.eqb_eq in Hpx.
  destruct (path_up_linked s (S m) b upl a Eup (fun _ _ _ _ _ => I)) as [L Lb].
  { exists bx. rewrite Hlast, <- Hx. split; assumption. }
  { exact Hne. }
  rewrite Erev in L, Lb.
  destruct (dep_facts s b _ W C Hb) as (_ & _ & Hmin).
  assert (Hidx : forall y, In y (x :: r) -> exists i, (i < S m)%nat /\ y = up (cores s) i b).
  { intros y Hy. rewrite <- Erev in Hy. apply in_rev in Hy. unfold upl in Hy. apply in_map_iff in Hy. destruct Hy as (i & <- & Hi).
    apply in_seq in Hi. exists i. split; [lia|reflexivity]. }
  assert (Htry : forall y, In y (x :: r) -> tryblk s y).
  { intros y Hy. destruct (Hidx y Hy) as (i & Hi & ->). split; [apply Hmin; lia|]. split; [|apply Hoac; exact Hi].
    apply (anc_valid s b bb W C Fb Hfb). lia. }
  destruct (apply_path_gen base (x :: r) s a a O A G L eq_refl) as (s' & ok & E' & G' & F' & Ht' & Hf').
  { destruct (dep_facts s a _ W C Hea) as (D0 & _). lia. }
  { exact Htry. }
  exists s', ok. split; [exact E'|]. split; [exact G'|]. split; [exact F'|]. split.
  - intros Hok. rewrite <- Lb. apply Ht'. exact Hok.
  - intros Hok. destruct (Hf' Hok) as (Af & (y & Hy & Fy)). split; [exact Af|].
    destruct (Hidx y Hy) as (i & Hi & ->). pose proof G' as ((W' & C') & _ & _). pose proof (fr_static _ _ F') as S'.
    rewrite <- (up_static _ _ i b S') in Fy.
    assert (Hb' : exists eb', cfind (cores s') b = Some eb').
    { pose proof (S' b) as Sb. unfold sfind in Sb. rewrite Hb in Sb. destruct (cfind (cores s') b); [eexists; reflexivity|discriminate]. }
    destruct Hb' as (eb' & Hb').
    eapply (failed_down s' b eb' W' C' Hb' i); [|exact Fy].
    unfold dep in *. rewrite (fr_root _ _ F'), !(hgt_static _ _ _ S'). lia.
Qed.

Lemma up_beyond : forall s b eb j, wf s -> scoh s -> cfind (cores s) b = Some eb -> dep s b <= Z.of_nat j ->
    up (cores s) j b = root _ _ s.
Proof.
  intros s b eb j W C Hb Hj. destruct (dep_facts s b _ W C Hb) as (D0 & Hr & _).
  replace j with (Z.to_nat (dep s b) + (j - Z.to_nat (dep s b)))%nat by lia. rewrite up_add, Hr. apply up_root. exact W.
Qed.

(** after a failed attempt on the target branch the blocks of the old chain above the fork are untouched *)
Lemma old_chain_ok : forall s s2 t to fork ka kb,
    wf s -> scoh s -> wf s2 -> scoh s2 -> alone s2 fork ->
    (exists e, cfind (cores s) t = Some e) -> (exists e, cfind (cores s) to = Some e) ->
    fork = up (cores s) ka t -> fork = up (cores s) kb to -> Z.of_nat ka <= dep s t -> Z.of_nat kb <= dep s to ->
    (forall g i j, g = up (cores s) i t -> g = up (cores s) j to -> Z.of_nat i <= dep s t -> Z.of_nat j <= dep s to ->
                   hgt (cores s) g <= hgt (cores s) fork) ->
    md (branch s to) s s2 -> root _ _ s2 = root _ _ s ->
    forall i, (i < ka)%nat -> okblk s (up (cores s) i t) -> okblk s2 (up (cores s) i t).
Proof.
  intros s s2 t to fork ka kb W C W2 C2 A2 (et & Het) (eto & Heto) Hf1 Hf2 Ka Kb Hmax M R2 i Hi (Hyr & by0 & Fy & Hyl & Hyf).
  set (y := up (cores s) i t) in *.
  pose proof (md_static _ _ _ M) as S2.
  destruct (static_find _ _ y by0 (proj1 M) Fy) as (by2 & Fy2).
  destruct (proj2 M y by0 by2 Fy Fy2) as (Afb & Alv & _ & _ & Afp & _ & Afc).
  destruct (up_hgt_dep s t et i W C Het ltac:(lia)) as (Hhy & _). fold y in Hhy.
  destruct (up_hgt_dep s t et ka W C Het Ka) as (Hhf & _). rewrite <- Hf1 in Hhf.
  (* a block of the target branch that is an ancestor-or-self of y lies at or below the fork *)
  assert (Hcommon : forall x j k, x = up (cores s) j to -> x = up (cores s) k y -> x <> root _ _ s -> hgt (cores s) x <= hgt (cores s) fork).
  { intros x j k Hx1 Hx2 Hxr.
    assert (Hj : Z.of_nat j <= dep s to).
    { destruct (Z_le_gt_dec (Z.of_nat j) (dep s to)) as [l|g]; [exact l|]. exfalso. apply Hxr. rewrite Hx1. eapply up_beyond; try eassumption. lia. }
    assert (Hx3 : x = up (cores s) (i + k) t) by (rewrite up_add; exact Hx2).
    assert (Hk : Z.of_nat (i + k) <= dep s t).
    { destruct (Z_le_gt_dec (Z.of_nat (i + k)) (dep s t)) as [l|g]; [exact l|]. exfalso. apply Hxr. rewrite Hx3. eapply up_beyond; try eassumption. lia. }
    exact (Hmax x (i + k)%nat j Hx3 Hx1 Hk Hj). }
  split; [rewrite R2; exact Hyr|]. exists by2. split; [exact Fy2|]. split; [lia|].
  unfold is_failed in *. rewrite Afb.
  apply orb_false_iff in Hyf. destruct Hyf as [Hyf Hyfc]. apply orb_false_iff in Hyf. destruct Hyf as [Hyfb Hyfp].
  assert (Hfp2 : b_fp ccmd by2 = false).
  { destruct (b_fp ccmd by2) eqn:P; [|reflexivity]. exfalso. destruct (Afp eq_refl) as [e|(j & Hj)]; [congruence|].
    pose proof (Hcommon y j O Hj eq_refl Hyr). lia. }
  assert (Hfc2 : b_fc ccmd by2 = false).
  { destruct (b_fc ccmd by2) eqn:P; [|reflexivity]. exfalso. destruct (Afc eq_refl) as [e|(x & k & (j & Hj) & (_ & (bx2 & Fx2 & Px2)) & Hk & Hux)]; [congruence|].
    (* x is failed in s2; but it is an applied block there *)
    assert (Hxact : is_act (cores s2) x).
    { destruct (N.eq_dec x (root _ _ s)) as [Hxr|Hxr].
      - rewrite Hxr, <- R2. destruct W2 as (_ & (hr & HR) & _). exists (root pstate ccmd s2, root pstate ccmd s2, hr, true). split; [exact HR|reflexivity].
      - pose proof (Hcommon x j k Hj (eq_sym Hux) Hxr) as Hle.
        assert (Hx3 : x = up (cores s) (i + k) t) by (rewrite up_add; symmetry; exact Hux).
        assert (Hkd : Z.of_nat (i + k) <= dep s t).
        { destruct (Z_le_gt_dec (Z.of_nat (i + k)) (dep s t)) as [l|g]; [exact l|]. exfalso. apply Hxr. rewrite Hx3. eapply up_beyond; try eassumption. lia. }
        destruct (up_hgt_dep s t et (i + k) W C Het Hkd) as (Hhx & _). rewrite <- Hx3 in Hhx.
        assert (Hge : (ka <= i + k)%nat) by lia.
        assert (Hx4 : x = up (cores s) (i + k - ka) fork).
        { rewrite Hf1, <- up_add. replace (ka + (i + k - ka))%nat with (i + k)%nat by lia. exact Hx3. }
        rewrite Hx4, <- (up_static _ _ _ fork S2).
        exact (chain_up_active (at_blk s2 fork) A2 (i + k - ka)). }
    destruct (is_act_find _ _ Hxact) as (bx & Fx & Ax). rewrite Fx2 in Fx. inversion Fx; subst bx.
    destruct C2 as (_ & _ & _ & _ & C3 & _). destruct (C3 _ _ Fx2 Ax) as [Hv _]. unfold is_failed in Hv. rewrite Px2 in Hv. rewrite orb_true_r in Hv. discriminate. }
  rewrite Hyfb, Hfp2, Hfc2. reflexivity.
Qed.

Lemma ginv_apply_range : forall base s a b s' ok, ginv base s -> apply pstate ccmd cexec cunexec s a b = Ok (s', ok) -> ginv base s'.
Proof. intros base s a b s' ok. apply (Inv_apply_range pstate ccmd cexec cunexec (ginv base) (ginv_apply base) (ginv_unapply base)). Qed.

(** C02 / C20: setState never hits an assert. From every reachable state, for every known target (valid, failing at any
    position, already invalid, ahead, behind, on a fork), setState returns - true or false - and never Abort. *)
Theorem setState_total : forall base s to bto,
    reachable base s -> bfind (blocks _ _ s) to = Some bto -> exists s' ok, c_setState s to = Ok (s', ok).
Proof.
  intros base s to bto R Fto. destruct (reachable_good _ _ R) as (Q & C & K & T & U).
  pose proof Q as (W & Ta & Hn). assert (G : ginv base s) by (split; [split; assumption|split; assumption]).
  destruct (is_act_find _ _ Ta) as (bt & Ft & At). pose proof (find_cfind _ _ _ Ft) as Ct. pose proof (find_cfind _ _ _ Fto) as Cto.
  unfold c_setState, setState. rewrite Ft, Fto.
  assert (Hchk : negb (Z.eqb (b_h ccmd bt + 1) (root_h pstate ccmd s + Z.of_N (napp pstate ccmd s))) = false).
  { apply negb_false_iff. apply Z.eqb_eq. rewrite root_h_hgt. assert (hgt (cores s) (tip _ _ s) = b_h ccmd bt) by (unfold hgt; rewrite Ct; reflexivity). lia. }
  rewrite Hchk.
  destruct (N.eqb (tip pstate ccmd s) to) eqn:Ett.
  { cbn [bind]. rewrite Fto. apply N.eqb_eq in Ett. subst to. rewrite Ft in Fto. inversion Fto; subst bto.
    assert (Hv : valid_upto ccmd bt L_FULL = true).
    { destruct T as (b2 & F2 & Hl). rewrite Ft in F2. inversion F2; subst b2. destruct K as (_ & _ & _ & _ & C3 & _). destruct (C3 _ _ Ft At) as [Hv _].
      unfold valid_upto. rewrite Hv. cbn. apply N.leb_le. exact Hl. }
    rewrite Hv. eexists. eexists. reflexivity. }
  pose proof (dep_bound s _ _ W K Ct) as Db1. pose proof (dep_bound s _ _ W K Cto) as Db2.
  destruct (dep_facts s _ _ W K Ct) as (D1 & _ & Hmin1). destruct (dep_facts s _ _ W K Cto) as (D2 & _ & Hmin2).
  destruct (lca_spec s W K (2 * fuel_of pstate ccmd s) (tip _ _ s) to _ _ Ct Cto) as (fork & ka & kb & Hl & Hf1 & Hf2 & Ka & Kb & Hmax).
  { unfold fuel_of. lia. }
  unfold sm_setState. rewrite Ett, Hl.
  destruct (unapply_total ka s (tip _ _ s) (fuel_of pstate ccmd s) Q K Ka) as (s1 & E1 & A1 & F1).
  { unfold fuel_of. lia. }
  rewrite <- Hf1 in E1, A1.
  assert (Eu : unapply pstate ccmd cunexec s (tip pstate ccmd s) fork = Ok s1) by (unfold unapply; rewrite E1; cbn; rewrite N.eqb_refl; reflexivity).
  rewrite Eu. cbn [bind].
  pose proof (ginv_unapply_range _ _ _ _ _ G Eu) as G1. pose proof (md_unapply_range _ _ _ _ Eu) as M1.
  pose proof (fr_static _ _ F1) as S1. pose proof (frame_static_blocks _ _ _ M1) as HS1.
  assert (Cto1 : exists e1, cfind (cores s1) to = Some e1).
  { destruct (static_find _ _ to bto HS1 Fto) as (b1 & Fb1). exists (core b1). apply find_cfind. exact Fb1. }
  destruct Cto1 as (e1 & Cto1).
  assert (Hdep1 : forall j, dep s1 j = dep s j) by (intro j; unfold dep; rewrite (fr_root _ _ F1), !(hgt_static _ _ _ S1); reflexivity).
  (* apply the target branch: it may fail, it never aborts *)
  destruct (apply_gen base s1 fork to kb e1 A1 G1 Cto1) as (s2 & ok2 & E2 & G2 & F2 & Ht2 & Hf2').
  { rewrite (up_static _ _ kb to S1). exact Hf2. }
  { rewrite Hdep1. exact Kb. }
  { intros i Hi. rewrite (up_static _ _ i to S1). rewrite (oac_static s s1 _ HS1 (fr_tip _ _ F1)).
    destruct (up_hgt_dep s to _ i W K Cto ltac:(lia)) as (Hhi & (ei & Hei)). destruct (core_find _ _ _ Hei) as (bi & Fbi & Cbi).
    unfold on_active_chain. rewrite Fbi.
    assert (Hbh : b_h ccmd bi = hgt (cores s) (up (cores s) i to)) by (unfold hgt; rewrite Hei, <- Cbi; reflexivity).
    rewrite Hbh.
    destruct (anc_at ccmd (blocks pstate ccmd s) (fuel_of pstate ccmd s) (tip pstate ccmd s) (hgt (cores s) (up (cores s) i to))) as [a|] eqn:Ea; [|reflexivity].
    apply N.eqb_neq. intro Heq. subst a.
    exact (above_fork_not_active_chain s (tip _ _ s) to fork ka kb i W K (ex_intro _ _ Ct) (ex_intro _ _ Cto) Hf1 Hf2 Ka Kb Hmax Hi _ Ea). }
  rewrite E2. cbn [bind].
  pose proof (fr_static _ _ F2) as S2.
  assert (F12 : frame s s2) by (eapply frame_trans; eassumption).
  pose proof (fr_static _ _ F12) as S12.
  pose proof G2 as ((W2 & K2) & _ & _).
  destruct (md_apply_range _ _ _ _ _ (proj1 G1) E2) as [M2 _].
  assert (M12 : md (branch s to) s s2).
  { eapply md_trans; [eapply md_weaken; [|exact M1]; intros j []|]. eapply md_weaken; [|exact M2]. intros j Hj. exact (branch_static s s1 to j S1 Hj). }
  destruct (static_find _ _ to bto (proj1 M12) Fto) as (b2 & Fb2).
  destruct ok2.
  - (* switched *)
    cbn [bind]. rewrite Fb2. specialize (Ht2 eq_refl).
    assert (Lto : lvl_ge L_FULL to s2).
    { eapply (apply_full s1 fork to s2 (proj1 G1)); [exact (proj1 (proj2 (proj1 (alone_unfold _ _) A1)))| | |exact E2].
      - rewrite Hf1. eapply lvl_ge_unapply_range; [|exact Eu]. apply chain_lvl; assumption.
      - exact (proj2 (proj2 (proj1 (alone_unfold _ _) A1))). }
    destruct Lto as (b2' & Fb2' & Hl2). rewrite Fb2 in Fb2'. inversion Fb2'; subst b2'.
    pose proof (proj1 (alone_unfold _ _) Ht2) as (_ & Tact & _). destruct (is_act_find _ _ Tact) as (b3 & Fb3 & Ab3). rewrite Fb2 in Fb3. inversion Fb3; subst b3.
    destruct K2 as (_ & _ & _ & _ & C3 & _). destruct (C3 _ _ Fb2 Ab3) as [Hv _].
    assert (Hv2 : valid_upto ccmd b2 L_FULL = true) by (unfold valid_upto; rewrite Hv; cbn; apply N.leb_le; exact Hl2).
    rewrite Hv2. eexists. eexists. reflexivity.
  - (* the target failed: roll back to the old chain, which is fully valid and untouched *)
    cbn [bind]. destruct (Hf2' eq_refl) as (A2 & (bf & Fbf & Hbf)). rewrite Fb2 in Fbf. inversion Fbf; subst bf.
    assert (Ct2 : exists e2, cfind (cores s2) (tip _ _ s) = Some e2).
    { destruct (static_find _ _ _ bt (proj1 M12) Ft) as (bt2 & Fbt2). exists (core bt2). apply find_cfind. exact Fbt2. }
    destruct Ct2 as (e2 & Ct2).
    assert (Hdep2 : forall j, dep s2 j = dep s j) by (intro j; unfold dep; rewrite (fr_root _ _ F12), !(hgt_static _ _ _ S12); reflexivity).
    destruct (apply_alone_total base s2 fork (tip _ _ s) ka e2 A2 G2 K2 Ct2) as (s3 & E3 & A3 & G3 & F3 & M3).
    { rewrite (up_static _ _ ka _ S12). exact Hf1. }
    { rewrite Hdep2. exact Ka. }
    { intros i Hi. rewrite (up_static _ _ i _ S12).
      eapply (old_chain_ok s s2 (tip _ _ s) to fork ka kb W K W2 K2 A2 (ex_intro _ _ Ct) (ex_intro _ _ Cto) Hf1 Hf2 Ka Kb Hmax M12 (fr_root _ _ F12) i Hi).
      split; [apply Hmin1; lia|]. destruct (chain_lvl s Q K T i) as (bi & Fbi & Hli).
      exists bi. split; [exact Fbi|]. split; [exact Hli|].
      pose proof (chain_up_active s Q i) as Hai. destruct (is_act_find _ _ Hai) as (bi2 & Fbi2 & Abi). rewrite Fbi in Fbi2. inversion Fbi2; subst bi2.
      destruct K as (_ & _ & _ & _ & C3 & _). exact (proj1 (C3 _ _ Fbi Abi)). }
    rewrite E3. cbn [bind].
    destruct (static_find _ _ to b2 (proj1 M3) Fb2) as (b3 & Fb3). rewrite Fb3.
    destruct (md_nobody_failed _ _ _ _ _ M3 Fb2 Fb3) as [Hf3 _]. rewrite Hf3, Hbf. cbn [negb].
    (* the counter equals the length of the restored chain *)
    pose proof (proj1 (alone_unfold _ _) A3) as (W3 & Ta3 & Hn3).
    assert (F13 : frame s s3) by (eapply frame_trans; eassumption).
    assert (Hcnt : N.eqb (napp pstate ccmd s3) (chain_count pstate ccmd s3 (tip pstate ccmd s3)) = true).
    { apply N.eqb_eq. rewrite (fr_tip _ _ F13). unfold chain_count.
      destruct (is_act_find _ _ Ta3) as (bt3 & Fbt3 & _). rewrite Fbt3. rewrite root_h_hgt.
      assert (hgt (cores s3) (tip pstate ccmd s) = b_h ccmd bt3) by (unfold hgt; rewrite (find_cfind _ _ _ Fbt3); reflexivity).
      apply N2Z.inj. rewrite Z2N.id by lia. lia. }
    rewrite Hcnt. cbn [negb]. eexists. eexists. reflexivity.
Qed.
