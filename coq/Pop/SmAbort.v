(** POP state machine — setState never hits an assert from a reachable state (any target, failing or not). *)
From Coq Require Import List ZArith NArith Bool Lia Permutation.
Import ListNotations.
From VB Require Import Pop.SmDefs Pop.SmProofs Pop.SmWf Pop.SmTruth Pop.SmCmp Pop.SmAll Pop.SmCoh Pop.SmFull Pop.SmMarks Pop.SmTree Pop.SmReact.
Local Open Scope Z_scope.

Lemma up_root : forall s k, wf s -> up (cores s) k (root _ _ s) = root _ _ s.
Proof.
  intros s k W. induction k as [|k IH]; [reflexivity|]. cbn. destruct W as (_ & (hr & HR) & _).
  unfold parent. rewrite HR. exact IH.
Qed.

(** soundness of Chain::operator[] / getAncestor as modelled by [anc_at] *)
Lemma anc_at_sound : forall s, wf s -> forall fuel i h a,
    anc_at ccmd (blocks _ _ s) fuel i h = Some a ->
    exists k, a = up (cores s) k i /\ hgt (cores s) a = h /\ hgt (cores s) a = hgt (cores s) i - Z.of_nat k.
Proof.
  intros s W fuel. induction fuel as [|f IH]; intros i h a H; cbn in H.
  - destruct (bfind (blocks pstate ccmd s) i) as [b|] eqn:Fb; [|discriminate].
    destruct (Z.eqb (b_h ccmd b) h) eqn:E; [|destruct (Z.ltb (b_h ccmd b) h); discriminate].
    inversion H; subst a. apply Z.eqb_eq in E. exists O. cbn. unfold hgt. rewrite (find_cfind _ _ _ Fb). cbn. split; [reflexivity|split; lia].
  - destruct (bfind (blocks pstate ccmd s) i) as [b|] eqn:Fb; [|discriminate].
    assert (Hh : hgt (cores s) i = b_h ccmd b) by (unfold hgt; rewrite (find_cfind _ _ _ Fb); reflexivity).
    destruct (Z.eqb (b_h ccmd b) h) eqn:E.
    { inversion H; subst a. apply Z.eqb_eq in E. exists O. cbn. split; [reflexivity|split; lia]. }
    apply Z.eqb_neq in E. destruct (Z.ltb (b_h ccmd b) h); [discriminate|].
    destruct (IH _ _ _ H) as (k & Ha & Hh1 & Hh2).
    assert (Hp : parent (cores s) i = b_par ccmd b) by (unfold parent; rewrite (find_cfind _ _ _ Fb); reflexivity).
    destruct (N.eq_dec i (root _ _ s)) as [Hr|Hr].
    + exfalso. subst i. destruct (wf_act_closed _ W) as (_ & Pr & _). rewrite (Pr _ Fb) in Ha, Hh2.
      rewrite (up_root s k W) in Ha. subst a. lia.
    + pose proof (wf_parent_height _ _ _ W (find_cfind _ _ _ Fb) Hr) as Hph. change (e_par (core b)) with (b_par ccmd b) in Hph.
      exists (S k). split; [cbn; rewrite Hp; exact Ha|]. split; [exact Hh1|]. rewrite Nat2Z.inj_succ. lia.
Qed.

(** blocks strictly above the fork on the target branch are not on the active chain *)
Lemma above_fork_not_active_chain : forall s t to fork ka kb i,
    wf s -> scoh s ->
    (exists e, cfind (cores s) t = Some e) -> (exists e, cfind (cores s) to = Some e) ->
    fork = up (cores s) ka t -> fork = up (cores s) kb to -> Z.of_nat ka <= dep s t -> Z.of_nat kb <= dep s to ->
    (forall g i j, g = up (cores s) i t -> g = up (cores s) j to -> Z.of_nat i <= dep s t -> Z.of_nat j <= dep s to ->
                   hgt (cores s) g <= hgt (cores s) fork) ->
    (i < kb)%nat ->
    forall fuel, anc_at ccmd (blocks _ _ s) fuel t (hgt (cores s) (up (cores s) i to)) <> Some (up (cores s) i to).
Proof.
  intros s t to fork ka kb i W C (et & Het) (eto & Heto) Hf1 Hf2 Ka Kb Hmax Hi fuel Hanc.
  destruct (anc_at_sound s W _ _ _ _ Hanc) as (k & Hk & _ & Hhk).
  destruct (up_hgt_dep s to eto i W C Heto ltac:(lia)) as (Hhi & (ei & Hei)).
  destruct (up_hgt_dep s to eto kb W C Heto Kb) as (Hhf & _). rewrite <- Hf2 in Hhf.
  destruct (dep_facts s _ _ W C Hei) as (Dx & _ & _).
  assert (Hkd : Z.of_nat k <= dep s t) by (unfold dep in *; lia).
  pose proof (Hmax _ k i Hk eq_refl Hkd ltac:(lia)) as Hle. lia.
Qed.
