(** C01 by composition, part 4: the structural tests of the outer comparePopScore ([compare] of the POP machine:
    candidate invalid / is the tip / on the active chain / a successor of the tip / general fork case) characterised
    independently of fuel, and the outcomes of [compare] read off the code. *)
From Coq Require Import List ZArith NArith Bool Lia Permutation.
Import ListNotations.
From VB Require Import Pop.SmDefs Pop.SmProofs Pop.SmWf Pop.SmTruth Pop.SmCmp Pop.SmAll Pop.SmCoh Pop.SmFull Pop.SmMarks Pop.SmTree
     Pop.SmReact Pop.SmAbort Pop.C01Compose Pop.C01Verdict Pop.C01Fork.
Local Open Scope Z_scope.

(** completeness of [anc_at] (Chain::operator[] / getAncestor) with enough fuel *)
Lemma anc_at_complete : forall s, wf s -> scoh s -> forall k fuel i e,
    cfind (cores s) i = Some e -> Z.of_nat k <= dep s i -> (k <= fuel)%nat ->
    anc_at ccmd (blocks _ _ s) fuel i (hgt (cores s) i - Z.of_nat k) = Some (up (cores s) k i).
Proof.
  intros s W K. induction k as [|k IH]; intros fuel i e Ci Hk Hf.
  - destruct (core_find _ _ _ Ci) as (b & Fb & _). rewrite Z.sub_0_r.
    destruct fuel; cbn [anc_at]; rewrite Fb, <- (hgt_find _ _ _ Fb), Z.eqb_refl; reflexivity.
  - destruct fuel as [|f]; [lia|]. destruct (core_find _ _ _ Ci) as (b & Fb & Cb). cbn [anc_at]. rewrite Fb, <- (hgt_find _ _ _ Fb).
    assert (E1 : Z.eqb (hgt (cores s) i) (hgt (cores s) i - Z.of_nat (S k)) = false) by (apply Z.eqb_neq; lia).
    assert (E2 : Z.ltb (hgt (cores s) i) (hgt (cores s) i - Z.of_nat (S k)) = false) by (apply Z.ltb_ge; lia).
    rewrite E1, E2.
    assert (Hir : i <> root _ _ s) by (intro; subst i; unfold dep in Hk; lia).
    pose proof (wf_parent_height _ _ _ W Ci Hir) as Hph.
    destruct (wf_closed s W i e Ci) as (pe & Cp).
    assert (Hp : parent (cores s) i = b_par ccmd b) by (unfold parent; rewrite Ci, <- Cb; reflexivity).
    assert (Hpe : e_par e = b_par ccmd b) by (rewrite <- Cb; reflexivity). rewrite Hpe in Hph, Cp.
    cbn [up]. rewrite Hp.
    replace (hgt (cores s) i - Z.of_nat (S k)) with (hgt (cores s) (b_par ccmd b) - Z.of_nat k) by lia.
    apply (IH f _ pe Cp); [unfold dep in *; lia|lia].
Qed.

Lemma in_chain_iff : forall s x, In x (chain s) <-> exists k, (k <= depth s (tip _ _ s))%nat /\ x = up (cores s) k (tip _ _ s).
Proof.
  intros s x. unfold chain. change (Z.to_nat (hgt (cores s) (tip _ _ s) - hgt (cores s) (root _ _ s))) with (depth s (tip _ _ s)).
  rewrite anc_list_ups, in_map_iff. split.
  - intros (k & Hk & Hin). apply in_seq in Hin. exists k. split; [lia|symmetry; exact Hk].
  - intros (k & Hk & ->). exists k. split; [reflexivity|apply in_seq; lia].
Qed.

(** activeChain_.contains(x) says whether x is one of root..tip *)
Lemma oac_iff : forall base s x, reachable base s -> (exists b, bfind (blocks _ _ s) x = Some b) ->
    (on_active_chain pstate ccmd s x = true <-> In x (chain s)).
Proof.
  intros base s x R (bx & Fx). destruct (reachable_good _ _ R) as (Q & _ & K & _). pose proof Q as (W & (et & Ct & _) & _).
  destruct (dep_facts s _ _ W K Ct) as (Dt & _). destruct (dep_facts s _ _ W K (find_cfind _ _ _ Fx)) as (Dx & _).
  pose proof (dep_bound s _ _ W K Ct) as Bt.
  rewrite in_chain_iff. unfold on_active_chain. rewrite Fx, <- (hgt_find _ _ _ Fx). split.
  - destruct (anc_at ccmd (blocks pstate ccmd s) (fuel_of pstate ccmd s) (tip pstate ccmd s) (hgt (cores s) x)) as [a|] eqn:Ea; [|discriminate].
    intros E. apply N.eqb_eq in E. subst a. destruct (anc_at_sound s W _ _ _ _ Ea) as (k & Hk & _ & Hh).
    exists k. split; [|exact Hk]. unfold depth. fold (dep s (tip _ _ s)). unfold dep in *. lia.
  - intros (k & Hk & ->). assert (Hkd : Z.of_nat k <= dep s (tip _ _ s)) by (unfold depth in Hk; fold (dep s (tip _ _ s)) in Hk; lia).
    destruct (up_hgt_dep s _ _ k W K Ct Hkd) as (Hh & _). rewrite Hh.
    rewrite (anc_at_complete s W K k _ _ _ Ct Hkd); [apply N.eqb_refl|]. unfold fuel_of. lia.
Qed.

(** candidate.getAncestor(bestTip->getHeight()) == bestTip *)
Definition succb (s : cst) (c : N) (bt : cblk) : bool :=
  match anc_at ccmd (blocks _ _ s) (fuel_of _ _ s) c (b_h _ bt) with Some a => N.eqb a (tip _ _ s) | None => false end.

Lemma succb_iff : forall base s c bt, reachable base s -> (exists b, bfind (blocks _ _ s) c = Some b) ->
    bfind (blocks _ _ s) (tip _ _ s) = Some bt ->
    (succb s c bt = true <-> exists k, (k <= depth s c)%nat /\ tip _ _ s = up (cores s) k c).
Proof.
  intros base s c bt R (bc & Fc) Ft. destruct (reachable_good _ _ R) as (Q & _ & K & _). pose proof Q as (W & _).
  pose proof (find_cfind _ _ _ Fc) as Cc. pose proof (find_cfind _ _ _ Ft) as Ct.
  destruct (dep_facts s _ _ W K Ct) as (Dt & _). destruct (dep_facts s _ _ W K Cc) as (Dc & _).
  pose proof (dep_bound s _ _ W K Cc) as Bc.
  unfold succb. rewrite <- (hgt_find _ _ _ Ft). split.
  - destruct (anc_at ccmd (blocks pstate ccmd s) (fuel_of pstate ccmd s) c (hgt (cores s) (tip pstate ccmd s))) as [a|] eqn:Ea; [|discriminate].
    intros E. apply N.eqb_eq in E. subst a. destruct (anc_at_sound s W _ _ _ _ Ea) as (k & Hk & _ & Hh).
    exists k. split; [|exact Hk]. unfold depth. fold (dep s c). unfold dep in *. lia.
  - intros (k & Hk & Hu). assert (Hkd : Z.of_nat k <= dep s c) by (unfold depth in Hk; fold (dep s c) in Hk; lia).
    destruct (up_hgt_dep s _ _ k W K Cc Hkd) as (Hh & _). rewrite Hu at 1. rewrite Hh.
    rewrite (anc_at_complete s W K k _ _ _ Cc Hkd); [rewrite <- Hu; apply N.eqb_refl|]. unfold fuel_of. lia.
Qed.

(** the outcomes of the outer comparePopScore, read off the code *)
Lemma compare_shape : forall sc cr s c bc bt s' r,
    bfind (blocks _ _ s) c = Some bc -> bfind (blocks _ _ s) (tip _ _ s) = Some bt ->
    c_compare sc cr s (Some c) = Ok (s', r) ->
    (is_failed _ bc = true /\ r = 1) \/
    (is_failed _ bc = false /\
     ((N.eqb (tip _ _ s) c = true /\ r = 1) \/
      (N.eqb (tip _ _ s) c = false /\
       ((on_active_chain pstate ccmd s c = true /\ r = 1) \/
        (on_active_chain pstate ccmd s c = false /\
         ((succb s c bt = true /\ exists t ok, apply pstate ccmd cexec cunexec s (tip _ _ s) c = Ok (t, ok) /\
                                               r = if ok then -1 else 1) \/
          (succb s c bt = false /\ compare_fork pstate ccmd cexec cunexec sc cr s c bc bt = Ok (s', r)))))))).
Proof.
  intros sc cr s c bc bt s' r Fc Ft H. unfold c_compare, compare in H. rewrite Fc, Ft in H.
  destruct (is_failed ccmd bc); [inversion H; left; split; reflexivity|]. right. split; [reflexivity|].
  destruct (N.eqb (tip pstate ccmd s) c); [inversion H; left; split; reflexivity|]. right. split; [reflexivity|].
  destruct (on_active_chain pstate ccmd s c); [inversion H; left; split; reflexivity|]. right. split; [reflexivity|].
  unfold succb. destruct (anc_at ccmd (blocks pstate ccmd s) (fuel_of pstate ccmd s) c (b_h ccmd bt)) as [a|]; [|right; split; [reflexivity|exact H]].
  destruct (N.eqb a (tip pstate ccmd s)); [|right; split; [reflexivity|exact H]].
  left. split; [reflexivity|]. dbind H. destruct a0 as [t ok]. exists t, ok. split; [reflexivity|].
  destruct ok; inversion H; reflexivity.
Qed.

Lemma bool_iff_eq : forall a b : bool, (a = true <-> b = true) -> a = b.
Proof. intros [|] [|] H; try reflexivity; [symmetry; apply H; reflexivity|apply H; reflexivity]. Qed.
