(** C01 by composition, part 6: the verdict of comparePopScore against a given candidate is a function of the active
    chain and the candidate's chain - full statement (no exception), for candidates without a cached failed mark. *)
From Coq Require Import List ZArith NArith Bool Lia Permutation.
Import ListNotations.
From VB Require Import Pop.SmDefs Pop.SmProofs Pop.SmWf Pop.SmTruth Pop.SmCmp Pop.SmAll Pop.SmCoh Pop.SmFull Pop.SmMarks Pop.SmTree
     Pop.SmReact Pop.SmAbort Pop.C01Compose Pop.C01Verdict Pop.C01Fork Pop.C01Alone Pop.C01Outer.
Local Open Scope Z_scope.

(** the trace of the general fork case *)
Lemma compare_fork_trace : forall sc cr s c bc bt s' r,
    compare_fork pstate ccmd cexec cunexec sc cr s c bc bt = Ok (s', r) ->
    exists fork bf,
      lca ccmd (blocks _ _ s) (2 * fuel_of _ _ s) (tip _ _ s) c = Some fork /\ bfind (blocks _ _ s) fork = Some bf /\
      ((negb (cr (b_h _ bf) (b_h _ bt)) && negb (cr (b_h _ bf) (b_h _ bc)) = true /\ r = 0) \/
       (negb (cr (b_h _ bf) (b_h _ bt)) && negb (cr (b_h _ bf) (b_h _ bc)) = false /\
        exists t ok, apply pstate ccmd cexec cunexec s fork c = Ok (t, ok) /\
          ((ok = false /\ r = 1) \/
           (ok = true /\
            ((0 <= sc t c /\ r = sc t c) \/
             (sc t c < 0 /\ exists s2 vf s3 s4 ok2,
                 unapplyWhile pstate ccmd cunexec (fuel_of _ _ t) t c fork (not_full ccmd) = Ok (s2, vf) /\
                 unapply pstate ccmd cunexec s2 (tip _ _ s) fork = Ok s3 /\
                 apply pstate ccmd cexec cunexec s3 vf c = Ok (s4, ok2) /\
                 r = if ok2 then sc t c else 1)))))).
Proof.
  intros sc cr s c bc bt s' r H. unfold compare_fork in H.
  destruct (lca ccmd (blocks pstate ccmd s) _ (tip pstate ccmd s) c) as [fork|] eqn:El; [|discriminate].
  destruct (bfind (blocks pstate ccmd s) fork) as [bf|] eqn:Ef; [|discriminate].
  exists fork, bf. split; [reflexivity|]. split; [exact Ef|].
  destruct (negb (cr _ _) && negb (cr _ _)).
  { inversion H. left. split; reflexivity. }
  right. split; [reflexivity|].
  dbind H. destruct a as [t ok]. exists t, ok. split; [reflexivity|].
  destruct ok; cbn [negb] in H; [|inversion H; left; split; reflexivity].
  right. split; [reflexivity|].
  destruct (Z.leb 0 (sc t c)) eqn:Sg.
  - apply Z.leb_le in Sg. dbind H. inversion H. left. split; [exact Sg|reflexivity].
  - apply Z.leb_gt in Sg. right. split; [exact Sg|].
    dbind H. destruct a as [s2 vf]. dbind H. dbind H. destruct a0 as [s4 ok2].
    exists s2, vf, a, s4, ok2. split; [first [reflexivity|exact E0]|]. split; [first [reflexivity|exact E1]|]. split; [first [reflexivity|exact E2]|].
    destruct ok2; [inversion H; reflexivity|].
    dbind H. dbind H. destruct a1 as [s6 ok3]. destruct ok3; [inversion H; reflexivity|discriminate].
Qed.

Lemma bgs_chain_of : forall s c, bgs s (depth s c) c = rev (map snd (chain_of s c)).
Proof. intros s c. unfold bgs, chain_of. rewrite map_map. reflexivity. Qed.

Section FullVerdict.
  Variable cfg : VB.Score.CmpDefs.config.
  Variable ki : Z.
  Variable ta : bool.
  Variable alt_time : N -> Z.
  Variable spv : (N -> nat) -> N -> option Z.
  Variable sp_times : (N -> nat) -> list Z.
  Hypothesis SD : sp_determined spv.
  Hypothesis TD : sp_times_determined sp_times.

  Notation sc := (score_of cfg ki ta alt_time spv sp_times).
  Notation cr := (crossed_of ki).

  (** the general fork case, full statement *)
  Theorem fork_verdict_history_independent : forall base s1 s2 c bc1 bt1 bc2 bt2 s1' r1 s2' r2,
      reachable base s1 -> reachable base s2 -> active_chain s1 = active_chain s2 ->
      bfind (blocks _ _ s1) c = Some bc1 -> bfind (blocks _ _ s2) c = Some bc2 ->
      bfind (blocks _ _ s1) (tip _ _ s1) = Some bt1 -> bfind (blocks _ _ s2) (tip _ _ s2) = Some bt2 ->
      chain_of s1 c = chain_of s2 c ->
      clean_all s1 c -> clean_all s2 c ->
      compare_fork pstate ccmd cexec cunexec sc cr s1 c bc1 bt1 = Ok (s1', r1) ->
      compare_fork pstate ccmd cexec cunexec sc cr s2 c bc2 bt2 = Ok (s2', r2) ->
      r1 = r2.
  Proof.
    intros base s1 s2 c bc1 bt1 bc2 bt2 s1' r1 s2' r2 R1 R2 HA Fc1 Fc2 Ft1 Ft2 HC Cl1 Cl2 H1 H2.
    destruct (compare_fork_trace _ _ _ _ _ _ _ _ H1) as (f1 & bf1 & L1 & Ff1 & O1).
    destruct (compare_fork_trace _ _ _ _ _ _ _ _ H2) as (f2 & bf2 & L2 & Ff2 & O2).
    destruct (fork_agree base s1 s2 c f1 f2 R1 R2 HA (ex_intro _ _ Fc1) (ex_intro _ _ Fc2) HC L1 L2) as (Ef & Ht & Hin & Ehf & Eht & Ehc).
    subst f2. rewrite <- Ht in Ft2.
    rewrite <- (hgt_find _ _ _ Ff1), <- (hgt_find _ _ _ Ft1), <- (hgt_find _ _ _ Fc1) in O1.
    rewrite <- (hgt_find _ _ _ Ff2), <- (hgt_find _ _ _ Ft2), <- (hgt_find _ _ _ Fc2), <- Ehf, <- Eht, <- Ehc in O2.
    destruct O1 as [[C1 ->]|[C1 (t1 & ok1 & A1 & O1)]]; destruct O2 as [[C2 ->]|[C2 (t2 & ok2 & A2 & O2)]]; try congruence.
    destruct (candidate_validation_history_independent base s1 s2 c f1 t1 ok1 t2 ok2 R1 R2 HA
                (ex_intro _ _ Fc1) (ex_intro _ _ Fc2) HC Hin (Cl1 _) (Cl2 _) A1 A2) as (Hok & _).
    subst ok2. destruct ok1.
    2:{ destruct O1 as [[_ ->]|[? _]]; [|discriminate]. destruct O2 as [[_ ->]|[? _]]; [|discriminate]. reflexivity. }
    destruct O1 as [[? _]|[_ O1]]; [discriminate|]. destruct O2 as [[? _]|[_ O2]]; [discriminate|].
    destruct (candidate_score_history_independent cfg ki ta alt_time spv sp_times SD TD base s1 s2 c f1 t1 t2 R1 R2 HA
                (ex_intro _ _ Fc1) (ex_intro _ _ Fc2) HC Hin (Cl1 _) (Cl2 _) A1 A2) as (_ & _ & Es).
    rewrite <- Es in O2.
    destruct O1 as [[G1 ->]|[G1 (a2 & vf1 & a3 & a4 & o1 & U12 & U13 & A14 & ->)]];
      destruct O2 as [[G2 ->]|[G2 (b2 & vf2 & b3 & b4 & o2 & U22 & U23 & A24 & ->)]]; try lia.
    rewrite <- Ht in U23.
    pose proof (revalidation_replay base s1 c bc1 f1 t1 a2 vf1 a3 a4 o1 R1 Fc1 L1 Cl1 A1 U12 U13 A14) as V1.
    rewrite <- Ht in L2.
    pose proof (revalidation_replay base s2 c bc2 f1 t2 b2 vf2 b3 b4 o2 R2 Fc2 ltac:(rewrite <- Ht; exact L2) Cl2 A2 U22 ltac:(rewrite <- Ht; exact U23) A24) as V2.
    rewrite !bgs_chain_of, <- HC in V2. rewrite !bgs_chain_of in V1.
    assert (Eo : o1 = o2) by (apply bool_iff_eq; rewrite V1, V2; reflexivity).
    rewrite Eo. reflexivity.
  Qed.

  (** C01: the verdict of comparePopScore against a given candidate *)
  Theorem verdict_history_independent : forall base s1 s2 c s1' r1 s2' r2,
      reachable base s1 -> reachable base s2 -> active_chain s1 = active_chain s2 ->
      (exists b, bfind (blocks _ _ s1) c = Some b) -> (exists b, bfind (blocks _ _ s2) c = Some b) ->
      chain_of s1 c = chain_of s2 c ->
      clean_all s1 c -> clean_all s2 c ->
      c_compare sc cr s1 (Some c) = Ok (s1', r1) ->
      c_compare sc cr s2 (Some c) = Ok (s2', r2) ->
      r1 = r2.
  Proof.
    intros base s1 s2 c s1' r1 s2' r2 R1 R2 HA (bc1 & Fc1) (bc2 & Fc2) HC Cl1 Cl2 H1 H2.
    destruct (reachable_good _ _ R1) as (Q1 & _ & K1 & _). destruct (reachable_good _ _ R2) as (Q2 & _ & K2 & _).
    pose proof Q1 as (W1 & Ta1 & _). pose proof Q2 as (W2 & Ta2 & _).
    destruct (is_act_find _ _ Ta1) as (bt1 & Ft1 & _). destruct (is_act_find _ _ Ta2) as (bt2 & Ft2 & _).
    assert (Ht : tip _ _ s1 = tip _ _ s2).
    { pose proof (active_chain_ids _ _ HA) as Hi. unfold chain in Hi. rewrite !anc_list_ups in Hi. cbn in Hi. inversion Hi. reflexivity. }
    destruct (chain_of_agree s1 s2 c _ _ W1 K1 W2 K2 (find_cfind _ _ _ Fc1) (find_cfind _ _ _ Fc2) HC) as (Hd & Hag).
    assert (Ef1 : is_failed _ bc1 = false) by (apply (Cl1 1%nat O bc1); [lia|exact Fc1]).
    assert (Ef2 : is_failed _ bc2 = false) by (apply (Cl2 1%nat O bc2); [lia|exact Fc2]).
    assert (Eo : on_active_chain pstate ccmd s1 c = on_active_chain pstate ccmd s2 c).
    { apply bool_iff_eq. rewrite (oac_iff base s1 c R1 (ex_intro _ _ Fc1)), (oac_iff base s2 c R2 (ex_intro _ _ Fc2)).
      rewrite (active_chain_ids _ _ HA). reflexivity. }
    assert (Es : succb s1 c bt1 = succb s2 c bt2).
    { apply bool_iff_eq. rewrite (succb_iff base s1 c bt1 R1 (ex_intro _ _ Fc1) Ft1), (succb_iff base s2 c bt2 R2 (ex_intro _ _ Fc2) Ft2).
      rewrite <- Ht, <- Hd. split; intros (k & Hk & Hu); exists k; (split; [exact Hk|]); destruct (Hag k Hk) as (U & _); congruence. }
    destruct (compare_shape _ _ _ _ _ _ _ _ Fc1 Ft1 H1) as [[A1 _]|[_ O1]]; [congruence|].
    destruct (compare_shape _ _ _ _ _ _ _ _ Fc2 Ft2 H2) as [[A2 _]|[_ O2]]; [congruence|].
    rewrite <- Ht in O2.
    destruct O1 as [[T1 ->]|[T1 O1]]; destruct O2 as [[T2 ->]|[T2 O2]]; try congruence.
    rewrite <- Eo in O2.
    destruct O1 as [[B1 ->]|[B1 O1]]; destruct O2 as [[B2 ->]|[B2 O2]]; try congruence.
    rewrite <- Es in O2.
    destruct O1 as [[S1 (t1 & ok1 & A1 & ->)]|[S1 F1]]; destruct O2 as [[S2 (t2 & ok2 & A2 & ->)]|[S2 F2]]; try congruence.
    - destruct (proj1 (succb_iff base s1 c bt1 R1 (ex_intro _ _ Fc1) Ft1) S1) as (k & Hk & Hu).
      assert (Hin : In (tip _ _ s1) (map (fun t => fst (fst t)) (chain_of s1 c))).
      { unfold chain_of. rewrite anc_list_ups, !map_map. apply in_map_iff. exists k. split; [cbn; symmetry; exact Hu|apply in_seq; lia]. }
      destruct (candidate_validation_history_independent base s1 s2 c _ t1 ok1 t2 ok2 R1 R2 HA
                  (ex_intro _ _ Fc1) (ex_intro _ _ Fc2) HC Hin (Cl1 _) (Cl2 _) A1 A2) as (-> & _). reflexivity.
    - exact (fork_verdict_history_independent base s1 s2 c bc1 bt1 bc2 bt2 s1' r1 s2' r2
               R1 R2 HA Fc1 Fc2 Ft1 Ft2 HC Cl1 Cl2 F1 F2).
  Qed.

  (** ... in particular against the fresh instance (connects + one setState) *)
  Corollary verdict_fresh_instance : forall base s1 r h ops s2 c s1' r1 s2' r2,
      reachable base s1 -> fresh_history ops -> run (c_init r h base) ops = Ok s2 ->
      active_chain s1 = active_chain s2 ->
      (exists b, bfind (blocks _ _ s1) c = Some b) -> (exists b, bfind (blocks _ _ s2) c = Some b) ->
      chain_of s1 c = chain_of s2 c ->
      clean_all s1 c -> clean_all s2 c ->
      c_compare sc cr s1 (Some c) = Ok (s1', r1) ->
      c_compare sc cr s2 (Some c) = Ok (s2', r2) ->
      r1 = r2.
  Proof.
    intros base s1 r h ops s2 c s1' r1 s2' r2 R1 _ R2. apply (verdict_history_independent base s1 s2 c s1' r1 s2' r2 R1).
    exists r, h, ops. exact R2.
  Qed.
End FullVerdict.
