(** POP state machine — C07 on the as-coded machine: in EVERY reachable state
      * a block carries BLOCK_ACTIVE iff it is on the active chain root..tip (nothing off the chain stays applied),
      * appliedBlockCount = |chain| = number of blocks flagged applied,
      * the chain is exactly the parent path root..tip.
    Everything is a consequence of the quiet invariant (SmWf/SmCmp: preserved by connect / setState / comparePopScore
    through all inner unapply / apply / rollback walks), the counting argument [applied_exactly] and the tree facts of
    SmTree (every block reaches the root by parent pointers). *)
From Coq Require Import List ZArith NArith Bool Lia Permutation.
Import ListNotations.
From VB Require Import Pop.SmDefs Pop.SmProofs Pop.SmWf Pop.SmTruth Pop.SmCmp Pop.SmAll Pop.SmCoh Pop.SmFull Pop.SmTree.
Local Open Scope Z_scope.

(** ** blocks vs. cores *)
Lemma wf_nodup_ids : forall s, wf s -> NoDup (ids (blocks _ _ s)).
Proof. intros s (ND & _). unfold ids. unfold cores in ND. rewrite map_map in ND. exact ND. Qed.

Lemma block_act_is_act : forall s b,
    wf s -> In b (blocks _ _ s) -> (b_act _ b = true <-> is_act (cores s) (b_id _ b)).
Proof.
  intros s b W Hin. pose proof (find_in_blocks _ _ (wf_nodup_ids s W) Hin) as F. pose proof (find_cfind _ _ _ F) as C.
  split.
  - intros Ha. exists (core b). split; [exact C|exact Ha].
  - intros (e & He & Ha). rewrite C in He. inversion He; subst e. exact Ha.
Qed.

Lemma is_act_block : forall s j,
    is_act (cores s) j <-> exists b, find ccmd (blocks _ _ s) j = Some b /\ b_act _ b = true.
Proof.
  intros s j. split.
  - intros (e & He & Ha). destruct (core_find _ _ _ He) as (b & Fb & Cb). exists b. split; [exact Fb|].
    rewrite <- Cb in Ha. exact Ha.
  - intros (b & Fb & Ha). exists (core b). split; [apply find_cfind; exact Fb|exact Ha].
Qed.

Lemma nact_cores : forall s, nact (cores s) = length (filter (b_act ccmd) (blocks _ _ s)).
Proof.
  intros s. unfold nact, cores. induction (blocks pstate ccmd s) as [|b r IH]; [reflexivity|].
  cbn [map filter]. change (e_act (core b)) with (b_act ccmd b).
  destruct (b_act ccmd b); [cbn [length]; f_equal; exact IH|exact IH].
Qed.

Lemma act_ids_cores : forall s, act_ids (cores s) = map (b_id ccmd) (filter (b_act ccmd) (blocks _ _ s)).
Proof.
  intros s. unfold act_ids, cores. induction (blocks pstate ccmd s) as [|b r IH]; [reflexivity|].
  cbn [map filter]. change (e_act (core b)) with (b_act ccmd b).
  destruct (b_act ccmd b); [cbn [map]; f_equal; exact IH|exact IH].
Qed.

(** ** 1. ACTIVE <=> on the active chain *)
Theorem active_iff_on_chain : forall base s, reachable base s ->
    forall b, In b (blocks _ _ s) -> (b_act _ b = true <-> In (b_id _ b) (chain s)).
Proof.
  intros base s R b Hin. destruct (reachable_quiet _ _ R) as [Q AE].
  rewrite <- AE. apply block_act_is_act; [exact (proj1 Q)|exact Hin].
Qed.

(* the same by ids: the chain consists of known blocks, and exactly of the applied ones *)
Theorem chain_iff_applied_block : forall base s, reachable base s ->
    forall j, In j (chain s) <-> exists b, find ccmd (blocks _ _ s) j = Some b /\ b_act _ b = true.
Proof. intros base s R j. destruct (reachable_quiet _ _ R) as [_ AE]. rewrite <- AE. apply is_act_block. Qed.

Theorem off_chain_not_applied : forall base s, reachable base s ->
    forall b, In b (blocks _ _ s) -> ~ In (b_id _ b) (chain s) -> b_act _ b = false.
Proof.
  intros base s R b Hin Hn. destruct (b_act ccmd b) eqn:A; [|reflexivity].
  exfalso. apply Hn. apply (active_iff_on_chain base s R b Hin). exact A.
Qed.

(** ** 2. the applied-block counter *)
Lemma quiet_tip_above_root : forall s, quiet s -> 0 <= hgt (cores s) (tip _ _ s) - hgt (cores s) (root _ _ s).
Proof.
  intros s (W & _ & Hn). destruct W as (_ & (hr & HR) & _ & HN0). apply cfind_some in HR. destruct HR as [_ Hin].
  assert (In (root pstate ccmd s, root pstate ccmd s, hr, true) (filter e_act (cores s))) by (apply filter_In; split; [exact Hin|reflexivity]).
  assert (1 <= nact (cores s))%nat by (unfold nact; destruct (filter e_act (cores s)); [destruct H|cbn [length]; lia]).
  assert (1 <= Z.of_N (napp pstate ccmd s)) by (rewrite HN0, nat_N_Z; lia). lia.
Qed.

Lemma chain_length : forall s, quiet s -> N.of_nat (length (chain s)) = napp _ _ s.
Proof.
  intros s Q. pose proof (quiet_tip_above_root s Q) as H0. destruct Q as (_ & _ & Hn).
  unfold chain. rewrite anc_list_length. apply N2Z.inj. rewrite nat_N_Z, Nat2Z.inj_succ, Z2Nat.id by lia. lia.
Qed.

Theorem applied_count_exact : forall base s, reachable base s ->
    napp _ _ s = N.of_nat (length (chain s)) /\
    napp _ _ s = N.of_nat (length (filter (b_act ccmd) (blocks _ _ s))).
Proof.
  intros base s R. destruct (reachable_quiet _ _ R) as [Q _]. split.
  - symmetry. apply chain_length. exact Q.
  - destruct Q as ((_ & _ & _ & HN) & _). rewrite <- nact_cores. exact HN.
Qed.

(* the applied blocks, as a set, are the chain *)
Theorem applied_set_is_chain : forall base s, reachable base s ->
    Permutation (map (b_id ccmd) (filter (b_act ccmd) (blocks _ _ s))) (chain s).
Proof.
  intros base s R. destruct (reachable_quiet _ _ R) as [Q AE]. pose proof (quiet_tip_above_root s Q) as H0.
  destruct Q as (W & Ta & Hn). pose proof W as (ND & _).
  rewrite <- act_ids_cores. apply NoDup_Permutation.
  - apply act_ids_nodup. exact ND.
  - unfold chain. apply anc_list_active; [exact W|exact Ta|]. rewrite Z2Nat.id by lia. lia.
  - intros j. rewrite (act_ids_in _ _ ND). apply AE.
Qed.

(** ** 3. the chain is the parent path root..tip *)
Lemma anc_list_nth : forall l n i k d, (k <= n)%nat -> nth k (anc_list l n i) d = up l k i.
Proof.
  intros l n. induction n as [|n IH]; intros i k d Hk.
  - assert (k = 0)%nat by lia. subst k. reflexivity.
  - destruct k as [|k]; [reflexivity|]. cbn [anc_list nth up]. apply IH. lia.
Qed.
Lemma anc_list_last : forall l n i d, last (anc_list l n i) d = up l n i.
Proof.
  intros l n. induction n as [|n IH]; intros i d; [reflexivity|]. cbn [anc_list up].
  destruct (anc_list l n (parent l i)) as [|y r] eqn:E.
  - pose proof (anc_list_length l n (parent l i)) as H. rewrite E in H. discriminate.
  - change (last (i :: y :: r) d) with (last (y :: r) d). rewrite <- E. apply IH.
Qed.
Lemma anc_list_hd : forall l n i, exists r, anc_list l n i = i :: r.
Proof. intros l n i. destruct n; cbn [anc_list]; eexists; reflexivity. Qed.

Lemma hd_error_rev_last : forall (l : list N) d, l <> [] -> hd_error (rev l) = Some (last l d).
Proof.
  intros l d Hne. destruct (exists_last Hne) as (l' & a & ->). rewrite rev_app_distr, last_last. reflexivity.
Qed.

(** [p] lists root..tip: it starts at the root and ends at the tip, every element is a known block, the parent of each
    element is the element before it, its height is root height + position, and no block occurs twice *)
Definition is_parent_path (s : cst) (p : list N) : Prop :=
  hd_error p = Some (root _ _ s) /\
  last p (root _ _ s) = tip _ _ s /\
  NoDup p /\
  (forall j, In j p -> exists b, find ccmd (blocks _ _ s) j = Some b) /\
  (forall k, (S k < length p)%nat ->
     exists b, find ccmd (blocks _ _ s) (nth (S k) p 0%N) = Some b /\ b_par _ b = nth k p 0%N /\
               b_h _ b = root_h _ _ s + Z.of_nat (S k)).

Theorem chain_is_parent_path : forall base s, reachable base s -> is_parent_path s (rev (chain s)).
Proof.
  intros base s R. destruct (reachable_quiet _ _ R) as [Q AE]. pose proof (reachable_coherent _ _ R) as C.
  pose proof (quiet_tip_above_root s Q) as H0. pose proof Q as (W & Ta & Hn).
  destruct Ta as (et & Het & Hat).
  destruct (dep_facts s (tip _ _ s) et W C Het) as (_ & Hroot & _).
  set (n := Z.to_nat (hgt (cores s) (tip _ _ s) - hgt (cores s) (root _ _ s))).
  assert (Hch : chain s = anc_list (cores s) n (tip _ _ s)) by reflexivity.
  assert (Hlen : length (chain s) = S n) by (rewrite Hch; apply anc_list_length).
  assert (Hnth : forall k, (k <= n)%nat -> nth k (chain s) 0%N = up (cores s) k (tip _ _ s))
    by (intros k Hk; rewrite Hch; apply anc_list_nth; exact Hk).
  assert (Hne : chain s <> []) by (intro E; rewrite E in Hlen; discriminate).
  assert (Hrevnth : forall k, (k <= n)%nat -> nth k (rev (chain s)) 0%N = up (cores s) (n - k) (tip _ _ s)).
  { intros k Hk. rewrite rev_nth by (rewrite Hlen; lia). rewrite Hlen. replace (S n - S k)%nat with (n - k)%nat by lia.
    apply Hnth. lia. }
  split; [|split; [|split; [|split]]].
  - rewrite (hd_error_rev_last _ 0%N Hne). f_equal.
    rewrite Hch, anc_list_last. exact Hroot.
  - destruct (anc_list_hd (cores s) n (tip _ _ s)) as (r & Er). rewrite Hch, Er. cbn [rev]. apply last_last.
  - apply NoDup_rev. rewrite Hch. apply anc_list_active; [exact W|exists et; split; assumption|].
    unfold n. rewrite Z2Nat.id by lia. lia.
  - intros j Hj. apply in_rev in Hj. apply AE in Hj. destruct Hj as (e & He & _).
    destruct (core_find _ _ _ He) as (b & Fb & _). exists b. exact Fb.
  - intros k Hk. rewrite rev_length, Hlen in Hk.
    rewrite (Hrevnth (S k)) by lia. rewrite (Hrevnth k) by lia.
    replace (n - k)%nat with (S (n - S k)) by lia. rewrite up_succ_r.
    set (m := (n - S k)%nat).
    destruct (chain_up_active s Q m) as (e & He & _).
    destruct (core_find _ _ _ He) as (b & Fb & Cb). exists b. split; [exact Fb|]. split.
    + unfold parent. rewrite He, <- Cb. reflexivity.
    + destruct (up_hgt_dep s (tip _ _ s) et m W C Het) as [Hh _]; [unfold dep; fold n; unfold m; lia|].
      unfold hgt at 1 in Hh. rewrite He, <- Cb in Hh. change (e_h (core b)) with (b_h ccmd b) in Hh.
      rewrite Hh, root_h_hgt. unfold m. unfold n in *. lia.
Qed.

(* ... and it is the only one: every parent path of the state is rev (chain s) *)
Lemma last_is_nth : forall (l : list N) d, l <> [] -> last l d = nth (length l - 1) l d.
Proof.
  intros l d Hne. destruct (exists_last Hne) as (l' & a & ->). rewrite last_last, app_length. cbn [length].
  rewrite app_nth2 by lia. replace (length l' + 1 - 1 - length l')%nat with 0%nat by lia. reflexivity.
Qed.

Theorem parent_path_unique : forall base s, reachable base s -> forall p, is_parent_path s p -> p = rev (chain s).
Proof.
  intros base s R p (P1 & P2 & _ & _ & P5). destruct (reachable_quiet _ _ R) as [Q _].
  pose proof (quiet_tip_above_root s Q) as H0. pose proof Q as (W & (et & Het & _) & _).
  set (n := Z.to_nat (hgt (cores s) (tip _ _ s) - hgt (cores s) (root _ _ s))).
  assert (Hch : chain s = anc_list (cores s) n (tip _ _ s)) by reflexivity.
  assert (Hlenc : length (chain s) = S n) by (rewrite Hch; apply anc_list_length).
  assert (Hne : p <> []) by (intro E; rewrite E in P1; discriminate).
  assert (Hlast : nth (length p - 1) p 0%N = tip _ _ s).
  { rewrite <- (last_is_nth p 0%N Hne). destruct p as [|x r]; [congruence|]. rewrite <- P2. apply last_cons_default. }
  assert (Hlen : length p = S n).
  { destruct p as [|x r]; [congruence|]. destruct r as [|y r].
    - cbn in P1, Hlast. injection P1 as P1. rewrite P1 in Hlast. unfold n. rewrite <- Hlast, Z.sub_diag. reflexivity.
    - destruct (P5 (length r)) as (b & Fb & _ & Hh); [cbn [length]; lia|].
      cbn [length] in Hlast. replace (S (S (length r)) - 1)%nat with (S (length r)) in Hlast by lia.
      rewrite Hlast in Fb. pose proof (find_cfind _ _ _ Fb) as Cb.
      assert (hgt (cores s) (tip _ _ s) = b_h ccmd b) by (unfold hgt; rewrite Cb; reflexivity).
      rewrite root_h_hgt in Hh. unfold n. cbn [length]. lia. }
  rewrite Hlen in Hlast. replace (S n - 1)%nat with n in Hlast by lia.
  assert (Hdown : forall i, (i <= n)%nat -> nth (n - i) p 0%N = up (cores s) i (tip _ _ s)).
  { induction i as [|i IH]; intros Hi.
    - rewrite Nat.sub_0_r. exact Hlast.
    - destruct (P5 (n - S i)%nat) as (b & Fb & Pb & _); [lia|].
      replace (S (n - S i)) with (n - i)%nat in Fb by lia. rewrite IH in Fb by lia.
      rewrite <- Pb, up_succ_r. unfold parent. rewrite (find_cfind _ _ _ Fb). reflexivity. }
  apply (nth_ext _ _ 0%N 0%N); [rewrite rev_length, Hlen, Hlenc; reflexivity|].
  intros k Hk. rewrite Hlen in Hk. rewrite rev_nth by (rewrite Hlenc; lia). rewrite Hlenc.
  replace (S n - S k)%nat with (n - k)%nat by lia. rewrite Hch, anc_list_nth by lia.
  replace k with (n - (n - k))%nat at 1 by lia. apply Hdown. lia.
Qed.

(** ** 4. non-vacuity: the history [ex_ops] of SmProofs (tree 0 <- 3 <- {6, 15}, 0 <- 9 <- 12 with a poisoned block 12;
    switches, a failing switch that is rolled back, comparisons with either verdict). What is shown per state:
    (chain, root..tip, tip, appliedBlockCount, [(id, parent, ACTIVE)]) *)
Definition ex_view (k : nat) : option (list N * list N * N * N * list (N * N * bool)) :=
  match run (c_init 0 0%Z ex_base) (firstn k ex_ops) with
  | Ok s => Some (chain s, rev (chain s), tip _ _ s, napp _ _ s,
                  map (fun b => (b_id _ b, b_par _ b, b_act _ b)) (blocks _ _ s))
  | Abort _ => None
  end.

(* after setState 6, setState 9 and the FAILING setState 12 (Poison in block 12; rolled back): the chain is 0-9, the
   abandoned fork 3-6, the failed block 12 and the fork 15 are off the chain and not applied *)
Example ex_after_failed_setState :
  ex_view 8 = Some ([9; 0], [0; 9], 9, 2,
                    [(0, 0, true); (3, 0, false); (6, 3, false); (9, 0, true); (12, 9, false); (15, 3, false)])%N.
Proof. vm_compute. reflexivity. Qed.
(* after comparePopScore(15) with verdict "candidate wins": the tree switched from 0-9 to 0-3-15 *)
Example ex_after_compare_switch :
  ex_view 12 = Some ([15; 3; 0], [0; 3; 15], 15, 3,
                     [(0, 0, true); (3, 0, true); (6, 3, false); (9, 0, false); (12, 9, false); (15, 3, true)])%N.
Proof. vm_compute. reflexivity. Qed.
(* after comparePopScore(6) with verdict "current chain wins": candidate 6 was applied next to 15 and unapplied again *)
Example ex_after_compare_kept :
  ex_view 13 = Some ([15; 3; 0], [0; 3; 15], 15, 3,
                     [(0, 0, true); (3, 0, true); (6, 3, false); (9, 0, false); (12, 9, false); (15, 3, true)])%N.
Proof. vm_compute. reflexivity. Qed.

(* the theorems instantiated on a reachable state with two forks off the chain *)
Example ex_fork_state :
  exists s, reachable ex_base s /\ chain s = [15; 3; 0]%N /\ napp _ _ s = 3%N /\ length (blocks _ _ s) = 6%nat /\
            is_parent_path s [0; 3; 15]%N /\
            (exists b, In b (blocks _ _ s) /\ b_id _ b = 6%N /\ ~ In (b_id _ b) (chain s) /\ b_act _ b = false) /\
            (exists b, In b (blocks _ _ s) /\ b_id _ b = 15%N /\ In (b_id _ b) (chain s) /\ b_act _ b = true).
Proof.
  destruct (run (c_init 0 0%Z ex_base) (firstn 13 ex_ops)) as [s|] eqn:E; [|revert E; vm_compute; discriminate].
  assert (R : reachable ex_base s) by (exists 0%N, 0%Z, (firstn 13 ex_ops); exact E).
  assert (Hc : chain s = [15; 3; 0]%N) by (revert E; vm_compute; intro E; inversion E; reflexivity).
  exists s. split; [exact R|]. split; [exact Hc|].
  split; [revert E; vm_compute; intro E; inversion E; reflexivity|].
  split; [revert E; vm_compute; intro E; inversion E; reflexivity|].
  split; [pose proof (chain_is_parent_path _ _ R) as P; rewrite Hc in P; exact P|].
  assert (F : forall j, (exists b, find ccmd (blocks _ _ s) j = Some b) -> exists b, In b (blocks _ _ s) /\ b_id _ b = j).
  { intros j (b & Fb). exists b. apply find_some_in. exact Fb. }
  split.
  - destruct (F 6%N) as (b & Hin & Hid); [revert E; vm_compute; intro E; inversion E; eexists; reflexivity|].
    exists b. split; [exact Hin|]. split; [exact Hid|].
    assert (Hn : ~ In (b_id ccmd b) (chain s)) by (rewrite Hid, Hc; cbn; intuition discriminate).
    split; [exact Hn|]. exact (off_chain_not_applied _ _ R b Hin Hn).
  - destruct (F 15%N) as (b & Hin & Hid); [revert E; vm_compute; intro E; inversion E; eexists; reflexivity|].
    exists b. split; [exact Hin|]. split; [exact Hid|].
    assert (Hy : In (b_id ccmd b) (chain s)) by (rewrite Hid, Hc; left; reflexivity).
    split; [exact Hy|]. exact (proj2 (active_iff_on_chain _ _ R b Hin) Hy).
Qed.
