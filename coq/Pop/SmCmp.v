(** POP state machine — the quiet invariant through comparePopScore (apply both chains, unapplyWhile the not fully
    valid part, unapply the loser, re-apply alone). *)
From Coq Require Import List ZArith NArith Bool Lia Permutation.
Import ListNotations.
From VB Require Import Pop.SmDefs Pop.SmProofs Pop.SmWf.
Local Open Scope Z_scope.

(** k-fold parent *)
Fixpoint up (l : list ent) (k : nat) (a : N) : N :=
  match k with O => a | S k' => up l k' (parent l a) end.

Lemma parent_static : forall l l' j, same_static l l' -> parent l' j = parent l j.
Proof.
  intros l l' j S. specialize (S j). unfold sfind in S. unfold parent.
  destruct (cfind l' j), (cfind l j); cbn in S; try discriminate; [inversion S; reflexivity|reflexivity].
Qed.
Lemma up_static : forall l l' k a, same_static l l' -> up l' k a = up l k a.
Proof. intros l l' k. induction k as [|k IH]; intros a S; [reflexivity|]. cbn. rewrite (parent_static _ _ _ S). apply IH. exact S. Qed.

Ltac dbind H :=
  match type of H with
  | bind ?e _ = Ok _ => let E := fresh "E" in destruct e eqn:E; cbn [bind] in H; [|discriminate]
  end.

(** an unapply walk only deactivates the blocks it walks over *)
Lemma up_succ_r : forall l k a, up l (S k) a = parent l (up l k a).
Proof. intros l k. induction k as [|k IH]; intros a; [reflexivity|]. change (up l (S (S k)) a) with (up l (S k) (parent l a)). rewrite IH. reflexivity. Qed.

Lemma uw_keep : forall fuel s cur to pred s' w,
    wf s -> unapplyWhile pstate ccmd cunexec fuel s cur to pred = Ok (s', w) ->
    hgt (cores s) w <= hgt (cores s) cur /\
    (w = to \/ hgt (cores s) to < hgt (cores s) w) /\
    w = up (cores s) (Z.to_nat (hgt (cores s) cur - hgt (cores s) w)) cur /\
    (forall k, (k < Z.to_nat (hgt (cores s) cur - hgt (cores s) w))%nat -> up (cores s) k cur <> root _ _ s) /\
    forall j, is_act (cores s) j ->
              (forall k, (k < Z.to_nat (hgt (cores s) cur - hgt (cores s) w))%nat -> up (cores s) k cur <> j) ->
              is_act (cores s') j.
Proof.
  induction fuel as [|f IH]; intros s cur to pred s' w W H; cbn in H.
  - destruct (N.eqb cur to) eqn:E; [|discriminate]. inversion H; subst. apply N.eqb_eq in E. subst.
    rewrite Z.sub_diag. cbn. split; [lia|]. split; [left; reflexivity|]. split; [reflexivity|]. split; [intros k Hk; lia|auto].
  - destruct (N.eqb cur to) eqn:E.
    { inversion H; subst. apply N.eqb_eq in E. subst. rewrite Z.sub_diag. cbn.
      split; [lia|]. split; [left; reflexivity|]. split; [reflexivity|]. split; [intros k Hk; lia|auto]. }
    destruct (find ccmd (blocks pstate ccmd s) cur) as [bc|] eqn:Fc; [|discriminate].
    destruct (find ccmd (blocks pstate ccmd s) to) as [bt|] eqn:Ft; [|discriminate].
    destruct (Z.leb (b_h ccmd bc) (b_h ccmd bt)) eqn:Hle0; [discriminate|]. apply Z.leb_gt in Hle0.
    assert (Hhc : hgt (cores s) cur = b_h ccmd bc) by (unfold hgt; rewrite (find_cfind _ _ _ Fc); reflexivity).
    assert (Hht : hgt (cores s) to = b_h ccmd bt) by (unfold hgt; rewrite (find_cfind _ _ _ Ft); reflexivity).
    destruct (negb (pred bc)).
    { inversion H; subst. rewrite Z.sub_diag. cbn. split; [lia|]. split; [right; lia|]. split; [reflexivity|]. split; [intros k Hk; lia|auto]. }
    dbind H. destruct (unapply_core _ _ _ W E0) as (W1 & C1 & N1 & R1 & T1 & Hr & _).
    destruct (IH _ _ _ _ _ _ W1 H) as (Hle & Hto & Hup & Hnr & K).
    assert (S1 : same_static (cores s) (cores a)) by (rewrite C1; apply same_static_cupd).
    pose proof (wf_parent_height _ _ _ W (find_cfind _ _ _ Fc) Hr) as Hh.
    change (e_par (core bc)) with (b_par ccmd bc) in Hh.
    assert (Hp : parent (cores s) cur = b_par ccmd bc) by (unfold parent; rewrite (find_cfind _ _ _ Fc); reflexivity).
    assert (HS : forall j, hgt (cores a) j = hgt (cores s) j) by (intro; apply hgt_static; exact S1).
    rewrite !HS in Hle, Hto, Hup, Hnr, K. rewrite R1 in Hnr.
    assert (Hn : Z.to_nat (hgt (cores s) cur - hgt (cores s) w) = S (Z.to_nat (hgt (cores s) (b_par ccmd bc) - hgt (cores s) w))).
    { rewrite Hh. replace (hgt (cores s) (b_par ccmd bc) + 1 - hgt (cores s) w) with (Z.succ (hgt (cores s) (b_par ccmd bc) - hgt (cores s) w)) by lia.
      apply Z2Nat.inj_succ. lia. }
    split; [lia|]. split; [exact Hto|]. split; [|split].
    + rewrite Hn. cbn [up]. rewrite Hp. rewrite (up_static _ _ _ _ S1) in Hup. exact Hup.
    + intros k Hk. rewrite Hn in Hk. destruct k as [|k']; [cbn; exact Hr|]. cbn [up]. rewrite Hp.
      rewrite <- (up_static _ _ _ _ S1). apply Hnr. lia.
    + intros j Hj Hk. rewrite Hn in Hk. apply K.
      * rewrite C1. apply is_act_cupd_other; [exact Hj|right]. intro Heq. apply (Hk O); [lia|cbn; congruence].
      * intros k Hlt. rewrite (up_static _ _ _ _ S1). rewrite <- Hp.
        change (up (cores s) k (parent (cores s) cur)) with (up (cores s) (S k) cur). apply Hk. lia.
Qed.

Lemma unapply_keep : forall s a b s',
    wf s -> unapply pstate ccmd cunexec s a b = Ok s' ->
    forall j, is_act (cores s) j ->
              (forall k, (k < Z.to_nat (hgt (cores s) a - hgt (cores s) b))%nat -> up (cores s) k a <> j) ->
              is_act (cores s') j.
Proof.
  intros s a b s' W H. unfold unapply in H. dbind H. destruct a0 as [s1 w]. cbn in H.
  destruct (N.eqb w b) eqn:Ew; inversion H; subst. apply N.eqb_eq in Ew. subst.
  exact (proj2 (proj2 (proj2 (proj2 (uw_keep _ _ _ _ _ _ _ W E))))).
Qed.

Lemma unapply_up : forall s a b s',
    wf s -> unapply pstate ccmd cunexec s a b = Ok s' ->
    b = up (cores s) (Z.to_nat (hgt (cores s) a - hgt (cores s) b)) a.
Proof.
  intros s a b s' W H. unfold unapply in H. dbind H. destruct a0 as [s1 w]. cbn in H.
  destruct (N.eqb w b) eqn:Ew; inversion H; subst. apply N.eqb_eq in Ew. subst.
  exact (proj1 (proj2 (proj2 (uw_keep _ _ _ _ _ _ _ W E)))).
Qed.

(** a failing apply_path restores every block that was applied before; a successful one only applies blocks that were
    not applied before *)
Lemma ap_keep : forall path s from s' ok cur,
    wf s -> linked (cores s) cur path -> hgt (cores s) from <= hgt (cores s) cur ->
    apply_path pstate ccmd cexec cunexec s from path = Ok (s', ok) ->
    (ok = false -> forall j, is_act (cores s) j ->
                   (forall k, (k < Z.to_nat (hgt (cores s) cur - hgt (cores s) from))%nat -> up (cores s) k cur <> j) ->
                   is_act (cores s') j) /\
    (ok = true -> forall x, In x path -> ~ is_act (cores s) x).
Proof.
  induction path as [|x r IH]; intros s from s' ok cur W L Hle H; cbn in H.
  - inversion H; subst. split; [discriminate|]. intros _ x [].
  - dbind H. destruct a as [s1 ok1]. destruct L as [(e & He & Hp) Lr]. destruct ok1.
    + destruct (apply_ok_core _ _ _ W E) as (W1 & C1 & N1 & R1 & T1 & (e0 & He0 & Ha0)).
      assert (S1 : same_static (cores s) (cores s1)) by (rewrite C1; apply same_static_cupd).
      assert (Hxr : x <> root _ _ s).
      { intro. subst x. unfold c_applyBlock, applyBlock in E.
        destruct (find ccmd (blocks pstate ccmd s) (root pstate ccmd s)); [|discriminate].
        rewrite N.eqb_refl in E. discriminate. }
      pose proof (wf_parent_height _ _ _ W He Hxr) as Hh. rewrite Hp in Hh.
      assert (Hninact : ~ is_act (cores s) x).
      { intros (e1 & He1 & Ha1). rewrite He0 in He1. inversion He1; subst. congruence. }
      assert (HS : forall j, hgt (cores s1) j = hgt (cores s) j) by (intro; apply hgt_static; exact S1).
      assert (Hle1 : hgt (cores s1) from <= hgt (cores s1) x) by (rewrite !HS; lia).
      destruct (IH _ _ _ _ x W1 (linked_static _ _ _ _ S1 Lr) Hle1 H) as (Kf & Kt). split.
      * intros Hok j Hj Hk. apply (Kf Hok).
        -- rewrite C1. apply is_act_cupd_other; [exact Hj|left; reflexivity].
        -- intros k Hlt. rewrite !HS in Hlt. rewrite (up_static _ _ _ _ S1).
           destruct k as [|k'].
           ++ cbn. intro Heq. subst j. exact (Hninact Hj).
           ++ cbn. assert (Hpx : parent (cores s) x = cur) by (unfold parent; rewrite He; exact Hp). rewrite Hpx. apply Hk.
              apply Nat2Z.inj_lt. rewrite Z2Nat.id by lia. apply Nat2Z.inj_lt in Hlt. rewrite Z2Nat.id in Hlt by lia.
              rewrite Nat2Z.inj_succ in Hlt. lia.
      * intros Hok y [<-|Hy]; [exact Hninact|]. intro Hact. apply (Kt Hok y Hy).
        rewrite C1. apply is_act_cupd_other; [exact Hact|left; reflexivity].
    + destruct (apply_fail_core _ _ _ E) as (C1 & N1 & R1 & T1).
      assert (W1 : wf s1) by (unfold wf; rewrite C1, R1, N1; exact W).
      destruct (find ccmd (blocks pstate ccmd s1) x) as [bx|] eqn:Fx; [|discriminate].
      dbind H. inversion H; subst s' ok; clear H. split; [|discriminate]. intros _ j Hj Hk.
      pose proof (find_cfind _ _ _ Fx) as Hx. rewrite C1, He in Hx. inversion Hx; subst e.
      change (e_par (core bx)) with (b_par ccmd bx) in Hp. rewrite Hp in E0.
      eapply (unapply_keep _ _ _ _ W1 E0); rewrite C1; assumption.
Qed.

Lemma path_up_up : forall s n c upl,
    path_up ccmd (blocks _ _ s) n c = Some upl -> forall k, (k < n)%nat -> In (up (cores s) k c) upl.
Proof.
  intros s n. induction n as [|n IH]; intros c upl H k Hk; [lia|]. cbn in H.
  destruct (find ccmd (blocks pstate ccmd s) c) as [b|] eqn:Fc; [|discriminate].
  destruct (path_up ccmd (blocks pstate ccmd s) n (b_par ccmd b)) as [upl'|] eqn:E; cbn in H; [|discriminate].
  inversion H; subst. destruct k as [|k']; [left; reflexivity|]. right. cbn [up].
  assert (Hp : parent (cores s) c = b_par ccmd b) by (unfold parent; rewrite (find_cfind _ _ _ Fc); reflexivity).
  rewrite Hp. apply (IH _ _ E). lia.
Qed.

Lemma apply_keep : forall s a b s' ok,
    wf s -> apply pstate ccmd cexec cunexec s a b = Ok (s', ok) ->
    (ok = false -> forall j, is_act (cores s) j -> is_act (cores s') j) /\
    (ok = true -> forall k, (k < Z.to_nat (hgt (cores s) b - hgt (cores s) a))%nat -> ~ is_act (cores s) (up (cores s) k b)).
Proof.
  intros s a b s' ok W H. unfold apply in H.
  destruct (N.eqb a b) eqn:Eab.
  { inversion H; subst. apply N.eqb_eq in Eab. subst. split; [discriminate|]. intros _ k Hk. rewrite Z.sub_diag in Hk. cbn in Hk. lia. }
  destruct (find ccmd (blocks pstate ccmd s) a) as [bf|] eqn:Fa; [|discriminate].
  destruct (find ccmd (blocks pstate ccmd s) b) as [bt|] eqn:Fb; [|discriminate].
  destruct (is_failed ccmd bt).
  { inversion H; subst. split; [auto|discriminate]. }
  destruct (negb (Z.ltb (b_h ccmd bf) (b_h ccmd bt))) eqn:Hlt; [discriminate|].
  destruct (path_up ccmd (blocks pstate ccmd s) _ b) as [upl|] eqn:Eup; [|discriminate].
  destruct (rev upl) as [|x r] eqn:Erev; [discriminate|].
  destruct (find ccmd (blocks pstate ccmd s) x) as [bx|] eqn:Fx; [|discriminate].
  destruct (N.eqb (b_par ccmd bx) a) eqn:Epx; [|discriminate]. apply N.eqb_eq in Epx.
  assert (Hne : upl <> []) by (intro; subst upl; discriminate).
  assert (Hlast : last upl b = x) by (rewrite <- (rev_involutive upl), Erev; cbn [rev]; apply last_last).
  destruct (path_up_linked s _ b upl a Eup (fun _ _ _ _ _ => I)) as [L _].
  { exists bx. rewrite Hlast. split; assumption. }
  { exact Hne. }
  rewrite Erev in L.
  destruct (ap_keep _ _ _ _ _ a W L (Z.le_refl _) H) as (Kf & Kt). split.
  - intros Hok j Hj. apply (Kf Hok j Hj). intros k Hk. rewrite Z.sub_diag in Hk. cbn in Hk. lia.
  - intros Hok k Hk. apply (Kt Hok). rewrite <- Erev. apply -> in_rev.
    apply (path_up_up s _ b upl Eup).
    assert (hgt (cores s) b = b_h ccmd bt) by (unfold hgt; rewrite (find_cfind _ _ _ Fb); reflexivity).
    assert (hgt (cores s) a = b_h ccmd bf) by (unfold hgt; rewrite (find_cfind _ _ _ Fa); reflexivity).
    rewrite H0, H1 in Hk. exact Hk.
Qed.

(** in a quiet state every block reached from the tip by parent pointers is applied *)
Lemma chain_up_active : forall s, quiet s -> forall k, is_act (cores s) (up (cores s) k (tip _ _ s)).
Proof.
  intros s (W & Ta & _) k. induction k as [|k IH]; [exact Ta|]. rewrite up_succ_r.
  destruct IH as (e & He & Ha). unfold parent. rewrite He.
  destruct W as (ND & (hr & HR) & HP & _). pose proof (cfind_some _ _ _ He) as [Hid Hin].
  destruct (N.eq_dec (e_id e) (root _ _ s)) as [Heq|Hne].
  - pose proof (cfind_in _ _ ND Hin) as F. rewrite Heq, HR in F. inversion F; subst e. cbn.
    exists (root pstate ccmd s, root pstate ccmd s, hr, true). split; [exact HR|reflexivity].
  - destruct (HP e Hin Hne) as (pe & Hpe & _ & Hpa). exists pe. split; [exact Hpe|apply Hpa; exact Ha].
Qed.

Lemma frame_hgt : forall s s' j, frame s s' -> hgt (cores s') j = hgt (cores s) j.
Proof. intros s s' j F. apply hgt_static. exact (fr_static _ _ F). Qed.
Lemma frame_up : forall s s' k a, frame s s' -> up (cores s') k a = up (cores s) k a.
Proof. intros s s' k a F. apply up_static. exact (fr_static _ _ F). Qed.

(** the general fork case of comparePopScore keeps the quiet invariant, whatever the scorer says *)
Lemma quiet_compare_fork : forall sc cr s c bc bt s' r,
    quiet s -> compare_fork pstate ccmd cexec cunexec sc cr s c bc bt = Ok (s', r) ->
    quiet s' /\ frame s (mkSt pstate ccmd (blocks _ _ s') (root _ _ s') (tip _ _ s) (napp _ _ s') (pst _ _ s')) /\
    (0 <= r -> tip _ _ s' = tip _ _ s) /\ (r < 0 -> tip _ _ s' = c) /\
    (* the trace of a won comparison, for the invariants proved elsewhere *)
    (r < 0 -> exists fork s1 s2 vf s3 s4,
        apply pstate ccmd cexec cunexec s fork c = Ok (s1, true) /\
        unapplyWhile pstate ccmd cunexec (fuel_of pstate ccmd s1) s1 c fork (not_full ccmd) = Ok (s2, vf) /\
        unapply pstate ccmd cunexec s2 (tip _ _ s) fork = Ok s3 /\
        apply pstate ccmd cexec cunexec s3 vf c = Ok (s4, true) /\
        s' = mkSt pstate ccmd (blocks _ _ s4) (root _ _ s4) c (napp _ _ s4) (pst _ _ s4) /\
        is_act (cores s3) vf /\
        Z.of_N (napp _ _ s3) = hgt (cores s) vf - hgt (cores s) (root _ _ s) + 1 /\
        frame s s1 /\ frame s s2 /\ frame s s3 /\
        (vf = fork -> exists k, fork = up (cores s) k (tip _ _ s))).
Proof.
  intros sc cr s c bc bt s' r Q H. pose proof Q as (W & Ta & Hn). unfold compare_fork in H.
  destruct (lca ccmd (blocks pstate ccmd s) _ (tip pstate ccmd s) c) as [fork|]; [|discriminate].
  destruct (find ccmd (blocks pstate ccmd s) fork) as [bf|]; [|discriminate].
  destruct (negb (cr _ _) && negb (cr _ _)).
  { inversion H; subst s' r. split; [exact Q|]. split; [destruct s; apply frame_refl; exact W|]. split; [reflexivity|split; lia]. }
  dbind H. destruct a as [s1 ok1].
  destruct (apply_arith _ _ _ _ _ W E) as (F1 & T1 & N1f). destruct (apply_keep _ _ _ _ _ W E) as (K1f & K1t).
  pose proof (fr_wf _ _ F1) as W1. pose proof (fun j => frame_hgt _ _ j F1) as HS1. pose proof (fr_tip _ _ F1) as Tp1. pose proof (fr_root _ _ F1) as R1.
  destruct ok1; cbn [negb] in H.
  2:{ inversion H; subst s' r. destruct (N1f eq_refl) as [A1 _]. pose proof (K1f eq_refl _ Ta) as Ta1.
      split; [|split; [|split; [intros _; exact Tp1|split; lia]]].
      - split; [exact W1|]. rewrite Tp1, R1, A1, ?HS1. split; [exact Ta1|exact Hn].
      - rewrite <- Tp1. destruct s1; exact F1. }
  destruct (T1 eq_refl) as (A1 & B1 & C1). specialize (K1t eq_refl).
  pose proof (C1 _ Ta) as Ta1.
  assert (NT : forall k, (k < Z.to_nat (hgt (cores s) c - hgt (cores s) fork))%nat -> up (cores s) k c <> tip _ _ s).
  { intros k Hk Heq. apply (K1t k Hk). rewrite Heq. exact Ta. }
  destruct (Z.leb 0 (sc s1 c)) eqn:Sg.
  - (* chain A remains the best one *)
    dbind H. inversion H; subst s' r. rename a into s2.
    destruct (unapply_arith _ _ _ _ W1 E0) as (F2 & A2 & _).
    assert (Ta2 : is_act (cores s2) (tip _ _ s)).
    { apply (unapply_keep _ _ _ _ W1 E0 _ Ta1). intros k Hk. rewrite ?HS1 in Hk. rewrite (frame_up _ _ _ _ F1). apply NT. exact Hk. }
    pose proof (frame_trans _ _ _ F1 F2) as F12. pose proof (fun j => frame_hgt _ _ j F12) as HS12.
    split; [|split; [|split; [intros _; rewrite (fr_tip _ _ F12); reflexivity|apply Z.leb_le in Sg; split; lia]]].
    + split; [exact (fr_wf _ _ F12)|]. rewrite (fr_tip _ _ F12), (fr_root _ _ F12), ?HS12. split; [exact Ta2|].
      rewrite ?HS1 in A2. lia.
    + rewrite <- (fr_tip _ _ F12). destruct s2; exact F12.
  - (* chain B is better *)
    apply Z.leb_gt in Sg.
    dbind H. destruct a as [s2 vf].
    destruct (uw_arith _ _ _ _ _ _ _ W1 E0) as (F2 & A2 & IA2).
    destruct (uw_keep _ _ _ _ _ _ _ W1 E0) as (Hle2 & Hto2 & Hup2 & _ & K2).
    rewrite ?HS1 in A2, Hle2, Hto2, Hup2. rewrite (frame_up _ _ _ _ F1) in Hup2.
    pose proof (frame_trans _ _ _ F1 F2) as F12. pose proof (fun j => frame_hgt _ _ j F12) as HS12. pose proof (fr_wf _ _ F12) as W2.
    assert (Hfv : hgt (cores s) fork <= hgt (cores s) vf) by (destruct Hto2 as [->|Hlt]; lia).
    assert (Ta2 : is_act (cores s2) (tip _ _ s)).
    { apply (K2 _ Ta1). intros k Hk. rewrite ?HS1 in Hk. rewrite (frame_up _ _ _ _ F1). apply NT. lia. }
    dbind H. rename a into s3.
    destruct (unapply_arith _ _ _ _ W2 E1) as (F3 & A3 & IA3).
    pose proof (unapply_keep _ _ _ _ W2 E1) as K3.
    rewrite ?HS12 in A3.
    pose proof (frame_trans _ _ _ F12 F3) as F13. pose proof (fun j => frame_hgt _ _ j F13) as HS13. pose proof (fr_wf _ _ F13) as W3.
    assert (Hvf3 : is_act (cores s3) vf).
    { destruct Hto2 as [->|Hlt]; [apply IA3; exact Ta2|].
      assert (Hfc : fork <> c) by (intro; subst fork; lia).
      apply K3; [apply IA2; apply B1; exact Hfc|].
      intros k Hk Heq. rewrite (frame_up _ _ _ _ F12) in Heq.
      pose proof (chain_up_active s Q k) as Hact. rewrite Heq, Hup2 in Hact.
      apply (K1t (Z.to_nat (hgt (cores s) c - hgt (cores s) vf))); [|exact Hact].
      apply Nat2Z.inj_lt. rewrite !Z2Nat.id by lia. lia. }
    dbind H. destruct a as [s4 ok2].
    destruct (apply_arith _ _ _ _ _ W3 E2) as (F4 & T4 & N4f).
    pose proof (frame_trans _ _ _ F13 F4) as F14. pose proof (fun j => frame_hgt _ _ j F14) as HS14. pose proof (fr_wf _ _ F14) as W4.
    destruct ok2.
    + inversion H; subst s' r. destruct (T4 eq_refl) as (A4 & B4 & C4). rewrite ?HS13 in A4.
      split; [|split; [|split; [lia|split; [intros _; reflexivity|]]]].
      3:{ intros _. exists fork, s1, s2, vf, s3, s4. rewrite ?HS1 in A2.
          split; [exact E|]. split; [exact E0|]. split; [exact E1|]. split; [exact E2|]. split; [reflexivity|].
          split; [exact Hvf3|]. split; [lia|]. split; [exact F1|]. split; [exact F12|]. split; [exact F13|].
          intros Hv. exists (Z.to_nat (hgt (cores s) (tip pstate ccmd s) - hgt (cores s) fork)).
          pose proof (unapply_up _ _ _ _ W2 E1) as Hu. rewrite ?HS12 in Hu. rewrite (frame_up _ _ _ _ F12) in Hu. exact Hu. }
      * unfold quiet, wf, cores. cbn [blocks root tip napp]. fold (cores s4). split; [exact W4|].
        rewrite (fr_root _ _ F14), ?HS14. split.
        -- destruct (N.eq_dec vf c) as [Heq|Hne]; [apply C4; rewrite <- Heq; exact Hvf3|apply B4; exact Hne].
        -- lia.
      * cbn [blocks root tip napp pst]. rewrite <- (fr_tip _ _ F14). destruct s4; exact F14.
    + destruct (N4f eq_refl) as (A4 & B4).
      dbind H. rename a into s5.
      destruct (unapply_arith _ _ _ _ W4 E3) as (F5 & A5 & IA5). rewrite ?HS14 in A5.
      pose proof (frame_trans _ _ _ F14 F5) as F15. pose proof (fun j => frame_hgt _ _ j F15) as HS15. pose proof (fr_wf _ _ F15) as W5.
      dbind H. destruct a as [s6 ok3].
      destruct (apply_arith _ _ _ _ _ W5 E4) as (F6 & T6 & _).
      destruct ok3; inversion H; subst s' r. destruct (T6 eq_refl) as (A6 & B6 & C6). rewrite ?HS15 in A6.
      pose proof (frame_trans _ _ _ F15 F6) as F16. pose proof (fun j => frame_hgt _ _ j F16) as HS16.
      split; [|split; [|split; [intros _; exact (fr_tip _ _ F16)|split; lia]]].
      * split; [exact (fr_wf _ _ F16)|]. rewrite (fr_tip _ _ F16), (fr_root _ _ F16), ?HS16. split.
        -- destruct (N.eq_dec fork (tip _ _ s)) as [Heq|Hne]; [|apply B6; exact Hne].
           apply C6. rewrite <- Heq. apply IA5. apply B4. exact Hvf3.
        -- lia.
      * rewrite <- (fr_tip _ _ F16). destruct s6; exact F16.
Qed.

(** comparePopScore as a whole *)
Lemma quiet_compare : forall sc cr s c s' r,
    quiet s -> c_compare sc cr s c = Ok (s', r) ->
    quiet s' /\ same_static (cores s) (cores s') /\ root _ _ s' = root _ _ s /\
    (0 <= r -> tip _ _ s' = tip _ _ s /\ napp _ _ s' = napp _ _ s) /\ (r < 0 -> c = Some (tip _ _ s')).
Proof.
  intros sc cr s c s' r Q H. pose proof Q as (W & Ta & Hn). unfold c_compare, compare in H.
  destruct c as [c|]; [|inversion H; subst; split; [exact Q|split; [apply same_static_refl|split; [reflexivity|split; [auto|lia]]]]].
  destruct (find ccmd (blocks pstate ccmd s) c) as [bc|] eqn:Fc; [|discriminate].
  destruct (find ccmd (blocks pstate ccmd s) (tip pstate ccmd s)) as [bt|] eqn:Ft; [|discriminate].
  assert (Triv : forall x : cst * Z, Ok (s, 1) = Ok x -> quiet (fst x) /\ same_static (cores s) (cores (fst x)) /\ root _ _ (fst x) = root _ _ s /\
                 (0 <= snd x -> tip _ _ (fst x) = tip _ _ s /\ napp _ _ (fst x) = napp _ _ s) /\ (snd x < 0 -> Some c = Some (tip _ _ (fst x)))).
  { intros x Hx. inversion Hx; subst x. cbn. split; [exact Q|split; [apply same_static_refl|split; [reflexivity|split; [auto|lia]]]]. }
  destruct (is_failed ccmd bc); [exact (Triv (s', r) H)|].
  destruct (N.eqb (tip pstate ccmd s) c) eqn:Etc; [exact (Triv (s', r) H)|]. apply N.eqb_neq in Etc.
  destruct (on_active_chain pstate ccmd s c); [exact (Triv (s', r) H)|].
  assert (Fork : compare_fork pstate ccmd cexec cunexec sc cr s c bc bt = Ok (s', r) ->
                 quiet s' /\ same_static (cores s) (cores s') /\ root _ _ s' = root _ _ s /\
                 (0 <= r -> tip _ _ s' = tip _ _ s /\ napp _ _ s' = napp _ _ s) /\ (r < 0 -> Some c = Some (tip _ _ s'))).
  { intros HF. destruct (quiet_compare_fork _ _ _ _ _ _ _ _ Q HF) as (Q' & F & Hp & Hm & _).
    destruct F as [_ FS FR _]. cbn [blocks root] in FS, FR. unfold cores in FS. cbn [blocks] in FS. fold (cores s') in FS.
    split; [exact Q'|]. split; [exact FS|]. split; [exact FR|]. split.
    - intros Hr. specialize (Hp Hr). split; [exact Hp|].
      destruct Q' as (W' & _ & Hn'). rewrite Hp, FR in Hn'. pose proof (fun j => hgt_static _ _ j FS) as HS.
      rewrite ?HS in Hn'. apply N2Z.inj. change (map core (blocks pstate ccmd s)) with (cores s) in Hn'. lia.
    - intros Hr. rewrite (Hm Hr). reflexivity. }
  destruct (anc_at ccmd (blocks pstate ccmd s) _ c (b_h ccmd bt)) as [a|]; [|exact (Fork H)].
  destruct (N.eqb a (tip pstate ccmd s)); [|exact (Fork H)].
  (* the candidate is a successor of the tip *)
  dbind H. destruct a0 as [s1 ok].
  destruct (apply_arith _ _ _ _ _ W E) as (F1 & T1 & N1f). destruct F1 as [W1 S1 R1 Tp1].
  destruct ok; inversion H; subst s' r; clear H.
  - destruct (T1 eq_refl) as (A1 & B1 & C1).
    split; [|split; [exact S1|split; [exact R1|split; [lia|reflexivity]]]].
    unfold quiet, wf, cores. cbn [blocks root tip napp]. fold (cores s1). split; [exact W1|]. split; [apply B1; exact Etc|].
    pose proof (fun j => hgt_static _ _ j S1) as HS. rewrite R1, ?HS. lia.
  - destruct (N1f eq_refl) as (A1 & B1).
    split; [|split; [exact S1|split; [exact R1|split; [intros _; split; [exact Tp1|exact A1]|lia]]]].
    pose proof (fun j => hgt_static _ _ j S1) as HS.
    split; [exact W1|]. rewrite Tp1, R1, A1, ?HS. split; [apply B1; exact Ta|exact Hn].
Qed.

(** ** every history keeps the quiet invariant *)
Lemma quiet_run_all : forall ops s s', quiet s -> run s ops = Ok s' -> quiet s'.
Proof.
  induction ops as [|o r IH]; intros s s' Q H; cbn in H.
  - inversion H; subst. exact Q.
  - destruct (step_op s o) as [s1|] eqn:E; cbn in H; [|discriminate].
    eapply IH; [|exact H]. destruct o as [i par dup gs|to|c sc cr]; cbn in E.
    + eapply quiet_connect; eassumption.
    + destruct (c_setState s to) as [[s2 ok]|] eqn:E2; cbn in E; [|discriminate]. inversion E; subst.
      eapply quiet_setState; eassumption.
    + destruct (c_compare sc cr s c) as [[s2 rr]|] eqn:E2; cbn in E; [|discriminate]. inversion E; subst.
      eapply quiet_compare; eassumption.
Qed.

Theorem reachable_quiet : forall base s, reachable base s -> quiet s /\ forall j, is_act (cores s) j <-> In j (chain s).
Proof.
  intros base s (r & h & ops & R). assert (Q : quiet s) by (eapply quiet_run_all; [apply quiet_init|exact R]).
  split; [exact Q|apply applied_exactly; exact Q].
Qed.

(** C01, for ALL histories (connectBlock, setState, comparePopScore with any scorer) *)
Theorem history_independence : forall base s1 s2,
    reachable base s1 -> reachable base s2 -> chain_gs s1 = chain_gs s2 ->
    Permutation (pst _ _ s1) (pst _ _ s2) /\ (forall x, count_ref x (pst _ _ s1) = count_ref x (pst _ _ s2)).
Proof.
  intros base s1 s2 R1 R2 Hc. apply history_independence_applied with (base := base); [exact R1|exact R2|].
  eapply perm_trans; [apply active_items_chain; exact (proj1 (reachable_quiet _ _ R1))|].
  rewrite Hc. symmetry. apply active_items_chain. exact (proj1 (reachable_quiet _ _ R2)).
Qed.
