(** POP state machine — coherence of validity marks: list order (parents first), FAILED_CHILD below every failed
    block, levels non-increasing towards the leaves; the marking pass of invalidateSubtree. *)
From Coq Require Import List ZArith NArith Bool Lia Permutation.
Import ListNotations.
From VB Require Import Pop.SmDefs Pop.SmProofs Pop.SmWf Pop.SmTruth Pop.SmCmp.
Local Open Scope Z_scope.

Notation cblk := (blk ccmd).
Notation bfind := (find ccmd).

(** ids marked by [mark_desc] *)
Fixpoint marks (x : N) (expand : list N) (l : list cblk) : list N :=
  match l with
  | [] => []
  | b :: r =>
    if N.eqb (b_par _ b) x || existsb (N.eqb (b_par _ b)) expand
    then b_id _ b :: marks x (if is_failed _ b then expand else b_id _ b :: expand) r
    else marks x expand r
  end.

Lemma find_mark_desc : forall l x e j,
    NoDup (ids l) ->
    bfind (mark_desc ccmd x e l) j =
    option_map (fun b => if existsb (N.eqb j) (marks x e l) then set_fc _ b else b) (bfind l j).
Proof.
  induction l as [|b r IH]; intros x e j ND; [reflexivity|]. cbn in ND. inversion ND as [|? ? Hn ND']; subst.
  cbn [mark_desc marks bfind].
  destruct (N.eqb (b_par ccmd b) x || existsb (N.eqb (b_par ccmd b)) e) eqn:C.
  - cbn [bfind]. change (b_id ccmd (set_fc ccmd b)) with (b_id ccmd b).
    destruct (N.eqb (b_id ccmd b) j) eqn:E.
    + cbn. apply N.eqb_eq in E. rewrite E, N.eqb_refl. reflexivity.
    + rewrite IH by exact ND'. destruct (bfind r j) as [bj|] eqn:F; [|reflexivity]. cbn.
      rewrite N.eqb_sym, E. reflexivity.
  - cbn [bfind]. destruct (N.eqb (b_id ccmd b) j) eqn:E.
    + cbn. apply N.eqb_eq in E.
      assert (Hnot : existsb (N.eqb j) (marks x e r) = false).
      { apply not_true_iff_false. intro Hex. apply existsb_exists in Hex. destruct Hex as (k & Hk & Ek). apply N.eqb_eq in Ek. subst k.
        apply Hn. rewrite E. clear - Hk. revert e Hk. induction r as [|y r IHr]; intros e Hk; cbn in *; [destruct Hk|].
        destruct (N.eqb (b_par ccmd y) x || existsb (N.eqb (b_par ccmd y)) e); [destruct Hk as [Hk|Hk]; [left; exact Hk|right; eapply IHr; exact Hk]|right; eapply IHr; exact Hk]. }
      rewrite Hnot. reflexivity.
    + apply IH. exact ND'.
Qed.

Lemma marks_in_ids : forall l x e j, In j (marks x e l) -> In j (ids l).
Proof.
  induction l as [|y r IH]; intros x e j H; cbn in *; [destruct H|].
  destruct (N.eqb (b_par ccmd y) x || existsb (N.eqb (b_par ccmd y)) e); [destruct H as [H|H]; [left; exact H|right; eapply IH; exact H]|right; eapply IH; exact H].
Qed.

(* a child of x, or of a block of [expand], is marked *)
Lemma marks_direct : forall l x e c,
    In c l -> (b_par _ c = x \/ In (b_par _ c) e) -> In (b_id _ c) (marks x e l).
Proof.
  induction l as [|y r IH]; intros x e c Hin Hc; [destruct Hin|]. cbn [marks]. destruct Hin as [->|Hin].
  - assert (C : N.eqb (b_par ccmd c) x || existsb (N.eqb (b_par ccmd c)) e = true).
    { destruct Hc as [->|Hc]; [rewrite N.eqb_refl; reflexivity|]. apply orb_true_iff. right. apply existsb_exists. exists (b_par ccmd c). split; [exact Hc|apply N.eqb_refl]. }
    rewrite C. left. reflexivity.
  - destruct (N.eqb (b_par ccmd y) x || existsb (N.eqb (b_par ccmd y)) e).
    + right. apply IH; [exact Hin|]. destruct Hc as [Hc|Hc]; [left; exact Hc|right]. destruct (is_failed ccmd y); [exact Hc|right; exact Hc].
    + apply IH; assumption.
Qed.

(* a child (later in the list) of a marked, previously unfailed block is marked *)
Lemma marks_child : forall l x e p c l1 l2,
    l = l1 ++ p :: l2 -> In (b_id _ p) (marks x e l) -> NoDup (ids l) -> is_failed _ p = false ->
    In c l2 -> b_par _ c = b_id _ p -> In (b_id _ c) (marks x e l).
Proof.
  induction l as [|y r IH]; intros x e p c l1 l2 Hl Hp ND Hf Hc Hpar.
  - destruct l1; discriminate.
  - cbn in ND. inversion ND as [|? ? Hn ND']; subst. destruct l1 as [|z l1]; cbn in Hl; inversion Hl; subst.
    + (* p is the head *)
      cbn [marks] in *. destruct (N.eqb (b_par ccmd p) x || existsb (N.eqb (b_par ccmd p)) e) eqn:C.
      * right. rewrite Hf. apply marks_direct; [exact Hc|right; left; symmetry; exact Hpar].
      * exfalso. apply Hn. eapply marks_in_ids. exact Hp.
    + cbn [marks] in *. destruct (N.eqb (b_par ccmd z) x || existsb (N.eqb (b_par ccmd z)) e) eqn:C.
      * right. destruct Hp as [Hp|Hp].
        -- exfalso. apply Hn. rewrite Hp. unfold ids. rewrite map_app. apply in_or_app. right. left. reflexivity.
        -- eapply IH; [reflexivity|exact Hp|exact ND'|exact Hf|exact Hc|exact Hpar].
      * eapply IH; [reflexivity|exact Hp|exact ND'|exact Hf|exact Hc|exact Hpar].
Qed.

(* conversely: the parent of a marked block is x, in expand, or an earlier marked block *)
Lemma marks_parent : forall l x e j,
    In j (marks x e l) ->
    exists c, In c l /\ b_id _ c = j /\ (b_par _ c = x \/ In (b_par _ c) e \/ In (b_par _ c) (marks x e l)).
Proof.
  induction l as [|y r IH]; intros x e j H; cbn [marks] in *; [destruct H|].
  destruct (N.eqb (b_par ccmd y) x || existsb (N.eqb (b_par ccmd y)) e) eqn:C.
  - destruct H as [<-|H].
    + exists y. split; [left; reflexivity|split; [reflexivity|]]. apply orb_true_iff in C. destruct C as [C|C].
      * left. apply N.eqb_eq. exact C.
      * right. left. apply existsb_exists in C. destruct C as (k & Hk & Ek). apply N.eqb_eq in Ek. subst k. exact Hk.
    + destruct (is_failed ccmd y).
      * destruct (IH _ _ _ H) as (c & Hin & Hid & Hc). exists c. split; [right; exact Hin|split; [exact Hid|]].
        destruct Hc as [Hc|[Hc|Hc]]; [left; exact Hc|right; left; exact Hc|right; right; right; exact Hc].
      * destruct (IH _ _ _ H) as (c & Hin & Hid & Hc). exists c. split; [right; exact Hin|split; [exact Hid|]].
        destruct Hc as [Hc|[[Hc|Hc]|Hc]]; [left; exact Hc|right; right; left; exact Hc|right; left; exact Hc|right; right; right; exact Hc].
  - destruct (IH _ _ _ H) as (c & Hin & Hid & Hc). exists c. split; [right; exact Hin|split; [exact Hid|]].
    destruct Hc as [Hc|[Hc|Hc]]; [left; exact Hc|right; left; exact Hc|right; right; exact Hc].
Qed.

(** ** list order: every non-root block comes after its parent *)
Fixpoint ord_ok (r : N) (seen : list N) (l : list (N * N)) : Prop :=
  match l with
  | [] => True
  | (i, p) :: t => (i = r \/ In p seen) /\ ord_ok r (i :: seen) t
  end.
Definition idpar (b : cblk) : N * N := (b_id _ b, b_par _ b).

Lemma ord_ok_split : forall r l seen l1 c l2,
    ord_ok r seen (map idpar l) -> l = l1 ++ c :: l2 -> b_id _ c <> r -> In (b_par _ c) (seen ++ ids l1).
Proof.
  intros r l. induction l as [|y t IH]; intros seen l1 c l2 H Hl Hr.
  - destruct l1; discriminate.
  - cbn in H. destruct H as [Hy Ht]. destruct l1 as [|z l1]; cbn in Hl; inversion Hl; subst.
    + cbn. rewrite app_nil_r. destruct Hy as [Hy|Hy]; [contradiction|exact Hy].
    + specialize (IH _ _ _ _ Ht eq_refl Hr). cbn in IH. apply in_or_app. cbn [ids map].
      destruct IH as [IH|IH]; [right; left; exact IH|]. apply in_app_or in IH.
      destruct IH as [IH|IH]; [left; exact IH|right; right; exact IH].
Qed.
Lemma ord_ok_mono : forall r l seen seen', (forall x, In x seen -> In x seen') -> ord_ok r seen l -> ord_ok r seen' l.
Proof.
  intros r l. induction l as [|[i p] t IH]; intros seen seen' Hs H; [exact I|]. cbn in *. destruct H as [H1 H2]. split.
  - destruct H1 as [H1|H1]; [left; exact H1|right; apply Hs; exact H1].
  - eapply IH; [|exact H2]. intros x [Hx|Hx]; [left; exact Hx|right; apply Hs; exact Hx].
Qed.
Lemma ord_ok_snoc : forall r l seen i p,
    ord_ok r seen l -> In p (seen ++ map fst l) -> ord_ok r seen (l ++ [(i, p)]).
Proof.
  intros r l. induction l as [|[j q] t IH]; intros seen i p H Hp; cbn in *.
  - rewrite app_nil_r in Hp. split; [right; exact Hp|exact I].
  - destruct H as [H1 H2]. split; [exact H1|]. apply IH; [exact H2|]. apply in_app_or in Hp. apply in_or_app.
    destruct Hp as [Hp|[Hp|Hp]]; [left; right; exact Hp|left; left; exact Hp|right; exact Hp].
Qed.

(** ** coherence of the marks *)
Definition coh (l : list cblk) (r : N) : Prop :=
  NoDup (ids l) /\
  ord_ok r [] (map idpar l) /\
  (* FAILED_CHILD below every failed block *)
  (forall i c p, bfind l i = Some c -> i <> r -> bfind l (b_par _ c) = Some p -> is_failed _ p = true -> b_fc _ c = true) /\
  (* levels do not increase towards the leaves *)
  (forall i c p, bfind l i = Some c -> i <> r -> bfind l (b_par _ c) = Some p -> N.le (b_lvl _ c) (b_lvl _ p)) /\
  (* applied blocks are valid and at least at the MAYBE level *)
  (forall i b, bfind l i = Some b -> b_act _ b = true -> is_failed _ b = false /\ N.le L_MAYBE (b_lvl _ b)) /\
  (forall i b, bfind l i = Some b -> N.le L_CONNECTED (b_lvl _ b)).

Lemma find_upd_any : forall (l : list cblk) i f j,
    (forall b, b_id _ (f b) = b_id _ b) ->
    bfind (upd ccmd l i f) j = option_map (fun b => if N.eqb (b_id _ b) i then f b else b) (bfind l j).
Proof.
  induction l as [|y r IH]; intros i f j Hf; [reflexivity|]. cbn [upd map bfind]. fold (upd ccmd r i f).
  destruct (N.eqb (b_id ccmd y) i) eqn:E.
  - rewrite Hf. destruct (N.eqb (b_id ccmd y) j); cbn; [rewrite E; reflexivity|apply IH; exact Hf].
  - destruct (N.eqb (b_id ccmd y) j); cbn; [rewrite E; reflexivity|apply IH; exact Hf].
Qed.
Lemma idpar_upd : forall (l : list cblk) i f,
    (forall b, b_id _ (f b) = b_id _ b /\ b_par _ (f b) = b_par _ b) -> map idpar (upd ccmd l i f) = map idpar l.
Proof.
  intros l i f Hf. unfold upd. rewrite map_map. apply map_ext. intros b. destruct (N.eqb (b_id ccmd b) i); [|reflexivity].
  unfold idpar. destruct (Hf b) as [A B]. rewrite A, B. reflexivity.
Qed.
Lemma idpar_strip_eq : forall l l' : list cblk, map (strip ccmd) l = map (strip ccmd) l' -> map idpar l = map idpar l'.
Proof.
  intros l l' H. assert (E : forall x : list cblk, map idpar x = map idpar (map (strip ccmd) x)).
  { intros x. rewrite map_map. apply map_ext. intros. reflexivity. }
  rewrite (E l), (E l'), H. reflexivity.
Qed.
Lemma bfind_id : forall (l : list cblk) i b, bfind l i = Some b -> b_id _ b = i.
Proof. intros l i b H. apply find_some_in in H. apply H. Qed.

(** unapplyBlock and the successful applyBlock only touch level / ACTIVE of one block *)
Lemma coh_unapply : forall l r i, coh l r -> coh (upd ccmd l i (set_act ccmd false)) r.
Proof.
  intros l r i (ND & OR & C1 & C2 & C3 & C5).
  assert (F : forall j, bfind (upd ccmd l i (set_act ccmd false)) j
                        = option_map (fun b => if N.eqb (b_id ccmd b) i then set_act ccmd false b else b) (bfind l j))
    by (intro; apply find_upd_any; reflexivity).
  split; [rewrite ids_upd by reflexivity; exact ND|]. split; [rewrite idpar_upd by (intros; split; reflexivity); exact OR|].
  split; [|split; [|split]].
  - intros j c p Hc Hr Hp Hf. rewrite F in Hc, Hp.
    destruct (bfind l j) as [c0|] eqn:Fc; [|discriminate]. cbn in Hc. inversion Hc; subst c; clear Hc.
    assert (Hpar : b_par ccmd (if N.eqb (b_id ccmd c0) i then set_act ccmd false c0 else c0) = b_par ccmd c0) by (destruct (N.eqb (b_id ccmd c0) i); reflexivity).
    rewrite Hpar in Hp. destruct (bfind l (b_par ccmd c0)) as [p0|] eqn:Fp; [|discriminate]. cbn in Hp. inversion Hp; subst p; clear Hp.
    assert (b_fc ccmd (if N.eqb (b_id ccmd c0) i then set_act ccmd false c0 else c0) = b_fc ccmd c0) by (destruct (N.eqb (b_id ccmd c0) i); reflexivity).
    rewrite H. eapply C1; [exact Fc|exact Hr|exact Fp|]. destruct (N.eqb (b_id ccmd p0) i); exact Hf.
  - intros j c p Hc Hr Hp. rewrite F in Hc, Hp.
    destruct (bfind l j) as [c0|] eqn:Fc; [|discriminate]. cbn in Hc. inversion Hc; subst c; clear Hc.
    assert (Hpar : b_par ccmd (if N.eqb (b_id ccmd c0) i then set_act ccmd false c0 else c0) = b_par ccmd c0) by (destruct (N.eqb (b_id ccmd c0) i); reflexivity).
    rewrite Hpar in Hp. destruct (bfind l (b_par ccmd c0)) as [p0|] eqn:Fp; [|discriminate]. cbn in Hp. inversion Hp; subst p; clear Hp.
    specialize (C2 _ _ _ Fc Hr Fp). destruct (N.eqb (b_id ccmd c0) i), (N.eqb (b_id ccmd p0) i); exact C2.
  - intros j b Hb Ha. rewrite F in Hb. destruct (bfind l j) as [b0|] eqn:Fb; [|discriminate]. cbn in Hb. inversion Hb; subst b; clear Hb.
    destruct (N.eqb (b_id ccmd b0) i); [discriminate Ha|]. eapply C3; eassumption.
  - intros j b Hb. rewrite F in Hb. destruct (bfind l j) as [b0|] eqn:Fb; [|discriminate]. cbn in Hb. inversion Hb; subst b; clear Hb.
    specialize (C5 _ _ Fb). destruct (N.eqb (b_id ccmd b0) i); exact C5.
Qed.

Definition apf (upTo : N) (x : cblk) : cblk := set_act ccmd true (raise_lvl ccmd upTo x).
Lemma apf_lvl_ge : forall u x, N.le (b_lvl _ x) (b_lvl _ (apf u x)).
Proof. intros u x. unfold apf. cbn. destruct (N.ltb (b_lvl ccmd x) u) eqn:E; [apply N.ltb_lt in E; lia|lia]. Qed.
Lemma apf_lvl_upto : forall u x, N.le u (b_lvl _ (apf u x)).
Proof. intros u x. unfold apf. cbn. destruct (N.ltb (b_lvl ccmd x) u) eqn:E; [lia|apply N.ltb_ge in E; exact E]. Qed.

Lemma coh_apply_ok : forall l r i b pb upTo,
    coh l r -> bfind l i = Some b -> bfind l (b_par _ b) = Some pb -> i <> r -> is_failed _ b = false ->
    N.ltb (b_lvl _ b) upTo && N.ltb (b_lvl _ pb) upTo = false -> N.le L_MAYBE upTo ->
    coh (upd ccmd l i (apf upTo)) r.
Proof.
  intros l r i b pb upTo (ND & OR & C1 & C2 & C3 & C5) Fi Fpb Hir Hnf Hraise Hup.
  assert (F : forall j, bfind (upd ccmd l i (apf upTo)) j
                        = option_map (fun x => if N.eqb (b_id ccmd x) i then apf upTo x else x) (bfind l j))
    by (intro; apply find_upd_any; reflexivity).
  set (g := fun x : cblk => if N.eqb (b_id ccmd x) i then apf upTo x else x) in *.
  assert (Gpar : forall x, b_par ccmd (g x) = b_par ccmd x) by (intro x; unfold g; destruct (N.eqb (b_id ccmd x) i); reflexivity).
  assert (Gfail : forall x, is_failed ccmd (g x) = is_failed ccmd x) by (intro x; unfold g; destruct (N.eqb (b_id ccmd x) i); reflexivity).
  assert (Gfc : forall x, b_fc ccmd (g x) = b_fc ccmd x) by (intro x; unfold g; destruct (N.eqb (b_id ccmd x) i); reflexivity).
  assert (Gge : forall x, N.le (b_lvl ccmd x) (b_lvl ccmd (g x))) by (intro x; unfold g; destruct (N.eqb (b_id ccmd x) i); [apply apf_lvl_ge|lia]).
  split; [rewrite ids_upd by reflexivity; exact ND|]. split; [rewrite idpar_upd by (intros; split; reflexivity); exact OR|].
  split; [|split; [|split]].
  - intros j c p Hc Hr Hp Hf. rewrite F in Hc, Hp.
    destruct (bfind l j) as [c0|] eqn:Fc; [|discriminate]. cbn in Hc. inversion Hc; subst c; clear Hc. rewrite Gpar in Hp.
    destruct (bfind l (b_par ccmd c0)) as [p0|] eqn:Fp; [|discriminate]. cbn in Hp. inversion Hp; subst p; clear Hp.
    rewrite Gfc. rewrite Gfail in Hf. eapply C1; eassumption.
  - intros j c p Hc Hr Hp. rewrite F in Hc, Hp.
    destruct (bfind l j) as [c0|] eqn:Fc; [|discriminate]. cbn in Hc. inversion Hc; subst c; clear Hc. rewrite Gpar in Hp.
    destruct (bfind l (b_par ccmd c0)) as [p0|] eqn:Fp; [|discriminate]. cbn in Hp. inversion Hp; subst p; clear Hp.
    specialize (C2 _ _ _ Fc Hr Fp). pose proof (Gge p0) as Hp0.
    unfold g at 1. destruct (N.eqb (b_id ccmd c0) i) eqn:E; [|lia].
    apply N.eqb_eq in E. rewrite (bfind_id _ _ _ Fc) in E. subst j. rewrite Fi in Fc. inversion Fc; subst c0. rewrite Fpb in Fp. inversion Fp; subst p0.
    unfold apf. cbn. destruct (N.ltb (b_lvl ccmd b) upTo) eqn:E1; [|lia].
    cbn in Hraise. apply N.ltb_ge in Hraise. lia.
  - intros j x Hx Ha. rewrite F in Hx. destruct (bfind l j) as [x0|] eqn:Fx; [|discriminate]. cbn in Hx. inversion Hx; subst x; clear Hx.
    rewrite Gfail. unfold g in *. destruct (N.eqb (b_id ccmd x0) i) eqn:E.
    + apply N.eqb_eq in E. rewrite (bfind_id _ _ _ Fx) in E. subst j. rewrite Fi in Fx. inversion Fx; subst x0.
      split; [exact Hnf|]. pose proof (apf_lvl_upto upTo b). lia.
    + eapply C3; eassumption.
  - intros j x Hx. rewrite F in Hx. destruct (bfind l j) as [x0|] eqn:Fx; [|discriminate]. cbn in Hx. inversion Hx; subst x; clear Hx.
    specialize (C5 _ _ Fx). pose proof (Gge x0). lia.
Qed.

Lemma coh_connect : forall l r i par pb dup gs,
    coh l r -> bfind l par = Some pb -> bfind l i = None ->
    coh (l ++ [mkBlk ccmd i par (b_h _ pb + 1) L_CONNECTED false dup (is_failed _ pb) false gs]) r.
Proof.
  intros l r i par pb dup gs (ND & OR & C1 & C2 & C3 & C5) Fp Fi.
  set (nb := mkBlk ccmd i par (b_h ccmd pb + 1) L_CONNECTED false dup (is_failed ccmd pb) false gs).
  assert (Hni : ~ In i (ids l)) by (apply find_none_notin; exact Fi).
  assert (Fapp : forall j x, bfind l j = Some x -> bfind (l ++ [nb]) j = Some x).
  { intros j x. clear. induction l as [|y t IH]; intros H; cbn in *; [discriminate|]. destruct (N.eqb (b_id ccmd y) j); [exact H|apply IH; exact H]. }
  assert (Fnew : forall j x, bfind (l ++ [nb]) j = Some x -> bfind l j = Some x \/ (bfind l j = None /\ j = i /\ x = nb)).
  { intros j x. clear. induction l as [|y t IH]; intros H; cbn in *.
    - destruct (N.eqb i j) eqn:E; [|discriminate]. inversion H. apply N.eqb_eq in E. right. auto.
    - destruct (N.eqb (b_id ccmd y) j); [left; exact H|apply IH; exact H]. }
  assert (Hold : forall j c, bfind l j = Some c -> j <> r -> b_par ccmd c <> i).
  { intros j c Hc0 Hr He. pose proof (find_some_in _ _ _ Hc0) as [Hcin Hcid]. apply in_split in Hcin. destruct Hcin as (l1 & l2 & Hl).
    pose proof (ord_ok_split r l [] l1 c l2 OR Hl) as Ho. rewrite Hcid in Ho. specialize (Ho Hr). cbn in Ho.
    apply Hni. rewrite <- He. rewrite Hl. unfold ids. rewrite map_app. apply in_or_app. left. exact Ho. }
  split; [unfold ids; rewrite map_app; apply NoDup_snoc; assumption|]. split; [|split; [|split; [|split]]].
  - rewrite map_app. apply ord_ok_snoc; [exact OR|]. cbn. apply find_some_in in Fp. destruct Fp as [Hin Hid].
    apply in_map_iff. exists (idpar pb). split; [exact Hid|apply in_map; exact Hin].
  - intros j c p Hc Hr Hp Hf. destruct (Fnew _ _ Hc) as [Hc0|(_ & -> & ->)].
    + destruct (Fnew _ _ Hp) as [Hp0|(Hn & He & ->)]; [eapply C1; eassumption|]. exfalso. exact (Hold _ _ Hc0 Hr He).
    + cbn in Hp |- *. rewrite (Fapp _ _ Fp) in Hp. inversion Hp; subst p. exact Hf.
  - intros j c p Hc Hr Hp. destruct (Fnew _ _ Hc) as [Hc0|(_ & -> & ->)].
    + destruct (Fnew _ _ Hp) as [Hp0|(Hn & He & ->)]; [eapply C2; eassumption|].
      exfalso. exact (Hold _ _ Hc0 Hr He).
    + cbn in Hp |- *. rewrite (Fapp _ _ Fp) in Hp. inversion Hp; subst p. apply (C5 _ _ Fp).
  - intros j x Hx Ha. destruct (Fnew _ _ Hx) as [Hx0|(_ & _ & ->)]; [eapply C3; eassumption|discriminate Ha].
  - intros j x Hx. destruct (Fnew _ _ Hx) as [Hx0|(_ & _ & ->)]; [eapply C5; eassumption|cbn; unfold L_CONNECTED; lia].
Qed.

(** ** the failing applyBlock: FAILED_POP on the block, FAILED_CHILD on everything below it *)
Definition actid (l : list cblk) (k : N) : Prop := exists c, bfind l k = Some c /\ b_act _ c = true.
(* parent-closedness of the applied set, as provided by [wf] *)
Definition act_closed (l : list cblk) (r : N) : Prop :=
  actid l r /\ (forall c, bfind l r = Some c -> b_par _ c = r) /\
  (forall j c, bfind l j = Some c -> b_act _ c = true -> j <> r -> actid l (b_par _ c)).

Lemma marks_inactive : forall l r i t e,
    NoDup (ids l) -> act_closed l r -> ~ actid l i ->
    (forall y, In y t -> exists y0, bfind l (b_id _ y) = Some y0 /\ b_par _ y0 = b_par _ y) ->
    (forall k, In k e -> ~ actid l k) ->
    forall j, In j (marks i e t) -> ~ actid l j.
Proof.
  intros l r i t. induction t as [|y t IH]; intros e ND AC Hi Ht He j Hj; cbn [marks] in Hj; [destruct Hj|].
  assert (Ht' : forall y0, In y0 t -> exists y1, bfind l (b_id ccmd y0) = Some y1 /\ b_par ccmd y1 = b_par ccmd y0)
    by (intros; apply Ht; right; assumption).
  destruct (N.eqb (b_par ccmd y) i || existsb (N.eqb (b_par ccmd y)) e) eqn:C.
  - assert (Hpy : ~ actid l (b_par ccmd y)).
    { apply orb_true_iff in C. destruct C as [C|C]; [apply N.eqb_eq in C; rewrite C; exact Hi|].
      apply existsb_exists in C. destruct C as (k & Hk & Ek). apply N.eqb_eq in Ek. subst k. apply He. exact Hk. }
    assert (Hy : ~ actid l (b_id ccmd y)).
    { intros (c & Fc & Ac). destruct (Ht y (or_introl eq_refl)) as (y0 & Fy & Py). rewrite Fy in Fc. inversion Fc; subst c.
      destruct AC as (Ar & Pr & Cl). destruct (N.eq_dec (b_id ccmd y) r) as [Heq|Hne].
      - rewrite Heq in Fy. rewrite <- Py, (Pr _ Fy) in Hpy. exact (Hpy Ar).
      - apply Hpy. rewrite <- Py. eapply Cl; eassumption. }
    destruct Hj as [<-|Hj]; [exact Hy|].
    eapply IH; [exact ND|exact AC|exact Hi|exact Ht'| |exact Hj].
    intros k Hk. destruct (is_failed ccmd y); [apply He; exact Hk|]. destruct Hk as [<-|Hk]; [exact Hy|apply He; exact Hk].
  - eapply IH; [exact ND|exact AC|exact Hi|exact Ht'|exact He|exact Hj].
Qed.

Lemma coh_apply_fail : forall l r i b,
    coh l r -> act_closed l r -> bfind l i = Some b -> is_failed _ b = false -> b_act _ b = false -> i <> r ->
    coh (mark_desc ccmd i [] (upd ccmd l i (set_fp ccmd))) r.
Proof.
  intros l r i b (ND & OR & C1 & C2 & C3 & C5) AC Fi Hnf Hna Hir.
  set (l1 := upd ccmd l i (set_fp ccmd)).
  set (M := marks i [] l1).
  assert (ND1 : NoDup (ids l1)) by (unfold l1; rewrite ids_upd by reflexivity; exact ND).
  set (g := fun x : cblk => if N.eqb (b_id ccmd x) i then set_fp ccmd x else x).
  assert (F1 : forall j, bfind l1 j = option_map g (bfind l j)) by (intro; unfold l1; apply find_upd_any; reflexivity).
  set (h := fun (j : N) (x : cblk) => if existsb (N.eqb j) M then set_fc ccmd (g x) else g x).
  assert (F : forall j, bfind (mark_desc ccmd i [] l1) j = option_map (h j) (bfind l j)).
  { intros j. rewrite find_mark_desc by exact ND1. rewrite F1. destruct (bfind l j); reflexivity. }
  assert (Hpar : forall j x, b_par ccmd (h j x) = b_par ccmd x) by (intros; unfold h, g; destruct (existsb (N.eqb j) M), (N.eqb (b_id ccmd x) i); reflexivity).
  assert (Hlvl : forall j x, b_lvl ccmd (h j x) = b_lvl ccmd x) by (intros; unfold h, g; destruct (existsb (N.eqb j) M), (N.eqb (b_id ccmd x) i); reflexivity).
  assert (Hact : forall j x, b_act ccmd (h j x) = b_act ccmd x) by (intros; unfold h, g; destruct (existsb (N.eqb j) M), (N.eqb (b_id ccmd x) i); reflexivity).
  assert (HinM : forall j, existsb (N.eqb j) M = true <-> In j M).
  { intros j. rewrite existsb_exists. split; [intros (k & Hk & Ek); apply N.eqb_eq in Ek; subst; exact Hk|intros Hj; exists j; split; [exact Hj|apply N.eqb_refl]]. }
  assert (Hfail : forall j x, bfind l j = Some x -> is_failed ccmd (h j x) = true -> is_failed ccmd x = true \/ j = i \/ In j M).
  { intros j x Fx Hf. unfold h, g in Hf. destruct (existsb (N.eqb j) M) eqn:EM; [right; right; apply HinM; exact EM|].
    destruct (N.eqb (b_id ccmd x) i) eqn:E; [right; left; apply N.eqb_eq in E; rewrite (bfind_id _ _ _ Fx) in E; exact E|left; exact Hf]. }
  assert (Hfc : forall j x, b_fc ccmd (h j x) = true <-> b_fc ccmd x = true \/ In j M).
  { intros j x. unfold h, g. destruct (existsb (N.eqb j) M) eqn:EM.
    - split; [intros _; right; apply HinM; exact EM|intros _; reflexivity].
    - assert (~ In j M) by (intro Hj; apply HinM in Hj; congruence).
      destruct (N.eqb (b_id ccmd x) i); cbn; split; intros; tauto. }
  split; [rewrite <- (ids_strip (mark_desc ccmd i [] l1)), strip_mark_desc, ids_strip; exact ND1|].
  split; [rewrite (idpar_strip_eq _ _ (strip_mark_desc ccmd l1 i [])); unfold l1; rewrite idpar_upd by (intros; split; reflexivity); exact OR|].
  split; [|split; [|split]].
  - intros j c p Hc Hr Hp Hf. rewrite F in Hc, Hp.
    destruct (bfind l j) as [c0|] eqn:Fc; [|discriminate]. cbn in Hc. inversion Hc; subst c; clear Hc. rewrite Hpar in Hp.
    destruct (bfind l (b_par ccmd c0)) as [p0|] eqn:Fp; [|discriminate]. cbn in Hp. inversion Hp; subst p; clear Hp.
    apply Hfc. destruct (is_failed ccmd p0) eqn:Fp0; [left; eapply C1; eassumption|]. right.
    assert (Hc1 : bfind l1 j = Some (g c0)) by (rewrite F1, Fc; reflexivity).
    pose proof (find_some_in _ _ _ Hc1) as [Hc1in Hc1id].
    assert (Hgpar : forall x, b_par ccmd (g x) = b_par ccmd x) by (intro x; unfold g; destruct (N.eqb (b_id ccmd x) i); reflexivity).
    destruct (Hfail _ _ Fp Hf) as [Hx|[Hx|Hx]]; [congruence| |].
    + (* child of the failing block *)
      rewrite <- Hc1id. apply marks_direct; [exact Hc1in|left; rewrite Hgpar; exact Hx].
    + (* child of a newly marked block: it comes later in the list *)
      destruct (N.eq_dec (b_par ccmd c0) i) as [Heq|Hqi].
      { rewrite <- Hc1id. apply marks_direct; [exact Hc1in|left; rewrite Hgpar; exact Heq]. }
      assert (Hp1 : bfind l1 (b_par ccmd c0) = Some p0).
      { rewrite F1, Fp. cbn. unfold g. rewrite (bfind_id _ _ _ Fp). destruct (N.eqb (b_par ccmd c0) i) eqn:E; [apply N.eqb_eq in E; contradiction|reflexivity]. }
      apply in_split in Hc1in. destruct Hc1in as (la & lb & Hl).
      assert (OR1 : ord_ok r [] (map idpar l1)) by (unfold l1; rewrite idpar_upd by (intros; split; reflexivity); exact OR).
      pose proof (ord_ok_split r l1 [] la (g c0) lb OR1 Hl) as Ho. rewrite Hc1id in Ho. specialize (Ho Hr). cbn in Ho. rewrite Hgpar in Ho.
      unfold ids in Ho. apply in_map_iff in Ho. destruct Ho as (p1 & Hp1id & Hp1in).
      assert (p1 = p0).
      { assert (In p1 l1) by (rewrite Hl; apply in_or_app; left; exact Hp1in).
        pose proof (find_in_blocks _ _ ND1 H) as Fq. rewrite Hp1id, Hp1 in Fq. inversion Fq. reflexivity. }
      subst p1. apply in_split in Hp1in. destruct Hp1in as (lc & ld & Hla).
      rewrite <- Hc1id.
      eapply (marks_child l1 i [] p0 (g c0) lc (ld ++ g c0 :: lb)).
      * rewrite Hl, Hla. rewrite <- app_assoc. reflexivity.
      * rewrite (bfind_id _ _ _ Fp). exact Hx.
      * exact ND1.
      * exact Fp0.
      * apply in_or_app. right. left. reflexivity.
      * rewrite Hgpar. symmetry. apply (bfind_id _ _ _ Fp).
  - intros j c p Hc Hr Hp. rewrite F in Hc, Hp.
    destruct (bfind l j) as [c0|] eqn:Fc; [|discriminate]. cbn in Hc. inversion Hc; subst c; clear Hc. rewrite Hpar in Hp.
    destruct (bfind l (b_par ccmd c0)) as [p0|] eqn:Fp; [|discriminate]. cbn in Hp. inversion Hp; subst p; clear Hp.
    rewrite !Hlvl. eapply C2; eassumption.
  - intros j x Hx Ha. rewrite F in Hx. destruct (bfind l j) as [x0|] eqn:Fx; [|discriminate]. cbn in Hx. inversion Hx; subst x; clear Hx.
    rewrite Hact in Ha. rewrite Hlvl. destruct (C3 _ _ Fx Ha) as [Hv Hl]. split; [|exact Hl].
    destruct (is_failed ccmd (h j x0)) eqn:Hf; [|reflexivity]. exfalso.
    destruct (Hfail _ _ Fx Hf) as [Hq|[Hq|Hq]]; [congruence| |].
    + subst j. rewrite Fi in Fx. inversion Fx; subst x0. congruence.
    + assert (Hn : ~ actid l j).
      { eapply (marks_inactive l r i l1 []); [exact ND|exact AC| | |intros k []|exact Hq].
        - intros (c & Fc & Ac). rewrite Fi in Fc. inversion Fc; subst c. congruence.
        - intros y Hy. unfold l1 in Hy. apply in_upd in Hy. destruct Hy as (y0 & Hy0 & ->).
          exists y0. assert (Hid : b_id ccmd (if N.eqb (b_id ccmd y0) i then set_fp ccmd y0 else y0) = b_id ccmd y0) by (destruct (N.eqb (b_id ccmd y0) i); reflexivity).
          rewrite Hid. split; [apply find_in_blocks; assumption|destruct (N.eqb (b_id ccmd y0) i); reflexivity]. }
      apply Hn. exists x0. split; assumption.
  - intros j x Hx. rewrite F in Hx. destruct (bfind l j) as [x0|] eqn:Fx; [|discriminate]. cbn in Hx. inversion Hx; subst x; clear Hx.
    rewrite Hlvl. eapply C5; eassumption.
Qed.

(** ** coherence in every reachable state *)
Definition scoh (s : cst) : Prop := coh (blocks _ _ s) (root _ _ s).

Lemma core_find : forall s j e, cfind (cores s) j = Some e -> exists b, bfind (blocks _ _ s) j = Some b /\ core b = e.
Proof.
  intros s j e H. unfold cores in H. rewrite cfind_core in H. destruct (bfind (blocks pstate ccmd s) j) as [b|]; [|discriminate].
  cbn in H. inversion H. exists b. split; reflexivity.
Qed.

Lemma wf_act_closed : forall s, wf s -> act_closed (blocks _ _ s) (root _ _ s).
Proof.
  intros s (ND & (hr & HR) & HP & _). split; [|split].
  - destruct (core_find _ _ _ HR) as (b & Fb & Cb). exists b. split; [exact Fb|]. apply (f_equal e_act) in Cb. exact Cb.
  - intros c Fc. pose proof (find_cfind _ _ _ Fc) as Cc. rewrite HR in Cc. inversion Cc. reflexivity.
  - intros j c Fc Ac Hr. pose proof (find_cfind _ _ _ Fc) as Cc. pose proof (cfind_some _ _ _ Cc) as [Hid Hin].
    destruct (HP _ Hin) as (pe & Hpe & _ & Hpa); [cbn; rewrite (bfind_id _ _ _ Fc); exact Hr|].
    destruct (core_find _ _ _ Hpe) as (pb & Fpb & Cpb). exists pb. split; [exact Fpb|].
    specialize (Hpa Ac). rewrite <- Cpb in Hpa. exact Hpa.
Qed.

Lemma scoh_apply : forall s i s' ok, wf s -> scoh s -> c_applyBlock s i = Ok (s', ok) -> scoh s'.
Proof.
  intros s i s' ok W C H. unfold c_applyBlock, applyBlock in H.
  destruct (bfind (blocks pstate ccmd s) i) as [b|] eqn:Fi; [|discriminate].
  destruct (N.eqb i (root pstate ccmd s)) eqn:R; [discriminate|]. apply N.eqb_neq in R.
  destruct (bfind (blocks pstate ccmd s) (b_par ccmd b)) as [pb|] eqn:Fp; [|discriminate].
  destruct (negb (b_act ccmd pb)); [discriminate|].
  destruct (b_act ccmd b) eqn:Ha; [discriminate|].
  destruct (child_active ccmd (blocks pstate ccmd s) i); [discriminate|].
  destruct (b_fc ccmd b); [discriminate|].
  destruct (is_failed ccmd b) eqn:Hf.
  { inversion H; subst. exact C. }
  destruct (N.ltb (b_lvl ccmd b) L_CONNECTED); [discriminate|].
  destruct (gsexec pstate ccmd cexec cunexec [] (b_gs ccmd b) (pst pstate ccmd s)) as [p' okg].
  destruct okg; cbn [negb] in H.
  - match type of H with (if ?c then _ else _) = _ => destruct c eqn:Hr end; [discriminate|].
    inversion H; subst s' ok; clear H. unfold scoh. cbn [blocks root].
    eapply (coh_apply_ok _ _ _ _ _ _ C Fi Fp R Hf Hr).
    destruct (valid_upto ccmd pb L_FULL && _); unfold L_MAYBE, L_FULL; lia.
  - unfold invalidate_pop in H. cbn [blocks with_pst] in H. rewrite Fi in H.
    assert (Hfp : b_fp ccmd b = false).
    { unfold is_failed in Hf. apply orb_false_iff in Hf. destruct Hf as [Hf _]. apply orb_false_iff in Hf. apply Hf. }
    rewrite Hfp, Hf in H.
    destruct (on_active_chain pstate ccmd _ i); [discriminate|].
    destruct (N.eqb (b_lvl ccmd b) L_FULL); cbn in H; inversion H; subst s' ok; clear H.
    unfold scoh. cbn [blocks root with_blocks with_pst]. eapply coh_apply_fail; try eassumption. apply wf_act_closed. exact W.
Qed.

Lemma scoh_unapply : forall s i s', scoh s -> c_unapplyBlock s i = Ok s' -> scoh s'.
Proof.
  intros s i s' C H. unfold c_unapplyBlock, unapplyBlock in H.
  destruct (bfind (blocks pstate ccmd s) i) as [b|]; [|discriminate].
  destruct (N.eqb i (root pstate ccmd s)); [discriminate|].
  destruct (negb (b_act ccmd b)); [discriminate|].
  destruct (bfind (blocks pstate ccmd s) (b_par ccmd b)) as [pb|]; [|discriminate].
  destruct (negb (b_act ccmd pb)); [discriminate|].
  destruct (child_active ccmd (blocks pstate ccmd s) i); [discriminate|].
  destruct (N.eqb (napp pstate ccmd s) 0); [discriminate|].
  inversion H; subst. unfold scoh. cbn [blocks root]. apply coh_unapply. exact C.
Qed.

Definition winv (s : cst) : Prop := wf s /\ scoh s.
Lemma winv_apply : forall s i s' ok, winv s -> c_applyBlock s i = Ok (s', ok) -> winv s'.
Proof.
  intros s i s' ok (W & C) H. split; [|eapply scoh_apply; eassumption].
  destruct ok; [exact (proj1 (apply_ok_core _ _ _ W H))|].
  destruct (apply_fail_core _ _ _ H) as (C1 & N1 & R1 & _). unfold wf. rewrite C1, R1, N1. exact W.
Qed.
Lemma winv_unapply : forall s i s', winv s -> c_unapplyBlock s i = Ok s' -> winv s'.
Proof.
  intros s i s' (W & C) H. split; [exact (proj1 (unapply_core _ _ _ W H))|eapply scoh_unapply; eassumption].
Qed.
Lemma winv_tip_only : forall (s : cst) t, winv s -> winv (mkSt pstate ccmd (blocks _ _ s) (root _ _ s) t (napp _ _ s) (pst _ _ s)).
Proof. intros s t H. exact H. Qed.

Lemma scoh_setState : forall s to s' ok, quiet s -> scoh s -> c_setState s to = Ok (s', ok) -> scoh s'.
Proof.
  intros s to s' ok (W & _) C H. unfold c_setState, setState in H.
  destruct (bfind (blocks pstate ccmd s) (tip pstate ccmd s)) as [bt|]; [|discriminate].
  destruct (bfind (blocks pstate ccmd s) to) as [b0|]; [|discriminate].
  destruct (negb _); [discriminate|].
  match type of H with bind ?e _ = _ => destruct e as [[s1 ok1]|] eqn:E end; cbn [bind] in H; [|discriminate].
  assert (T1 : winv s1).
  { destruct (N.eqb (tip pstate ccmd s) to); [inversion E; subst; split; assumption|].
    exact (Inv_sm_setState pstate ccmd cexec cunexec winv winv_apply winv_unapply s _ _ s1 ok1 (conj W C) E). }
  destruct T1 as (_ & C1).
  destruct (bfind (blocks pstate ccmd s1) to) as [bto|]; [|discriminate].
  destruct ok1.
  - destruct (valid_upto ccmd bto L_FULL); inversion H; subst. exact C1.
  - destruct (negb (is_failed ccmd bto)); [discriminate|]. destruct (negb _); inversion H; subst. exact C1.
Qed.

Lemma scoh_compare : forall sc cr s c s' r, quiet s -> scoh s -> c_compare sc cr s c = Ok (s', r) -> scoh s'.
Proof.
  intros sc cr s c s' r (W & _) C H.
  exact (proj2 (Inv_compare pstate ccmd cexec cunexec winv winv_apply winv_unapply sc cr winv_tip_only s c s' r (conj W C) H)).
Qed.

Lemma scoh_connect : forall s i par dup gs s', scoh s -> c_connect s i par dup gs = Ok s' -> scoh s'.
Proof.
  intros s i par dup gs s' C H. unfold c_connect, connect in H.
  destruct (bfind (blocks pstate ccmd s) par) as [pb|] eqn:Fp; [|discriminate].
  destruct (bfind (blocks pstate ccmd s) i) eqn:Fi; [discriminate|].
  inversion H; subst. unfold scoh. cbn [blocks root with_blocks]. apply coh_connect; assumption.
Qed.

Lemma scoh_init : forall r h base, scoh (c_init r h base).
Proof.
  intros r h base. unfold scoh, c_init, init. cbn [blocks root].
  split; [cbn; constructor; [intros []|constructor]|]. split; [cbn; split; [left; reflexivity|exact I]|].
  split; [|split; [|split]].
  - intros i c p Hc Hr. cbn in Hc. destruct (N.eqb r i) eqn:E; [apply N.eqb_eq in E; congruence|discriminate].
  - intros i c p Hc Hr. cbn in Hc. destruct (N.eqb r i) eqn:E; [apply N.eqb_eq in E; congruence|discriminate].
  - intros i b Hb Ha. cbn in Hb. destruct (N.eqb r i); [|discriminate]. inversion Hb; subst. cbn. split; [reflexivity|unfold L_MAYBE, L_FULL; lia].
  - intros i b Hb. cbn in Hb. destruct (N.eqb r i); [|discriminate]. inversion Hb; subst. cbn. unfold L_CONNECTED, L_FULL. lia.
Qed.

Lemma qc_run : forall ops s s', quiet s -> scoh s -> run s ops = Ok s' -> quiet s' /\ scoh s'.
Proof.
  induction ops as [|o r IH]; intros s s' Q C H; cbn in H.
  - inversion H; subst. auto.
  - destruct (step_op s o) as [s1|] eqn:E; cbn in H; [|discriminate].
    destruct o as [i par dup gs|to|c sc cr]; cbn in E.
    + eapply IH; [| |exact H]; [eapply quiet_connect; eassumption|eapply scoh_connect; eassumption].
    + destruct (c_setState s to) as [[s2 ok]|] eqn:E2; cbn in E; [|discriminate]. inversion E; subst.
      eapply IH; [| |exact H]; [eapply quiet_setState; eassumption|eapply scoh_setState; eassumption].
    + destruct (c_compare sc cr s c) as [[s2 rr]|] eqn:E2; cbn in E; [|discriminate]. inversion E; subst.
      eapply IH; [| |exact H]; [eapply quiet_compare; eassumption|eapply scoh_compare; eassumption].
Qed.

Theorem reachable_coherent : forall base s, reachable base s -> scoh s.
Proof.
  intros base s (r & h & ops & R). eapply qc_run; [apply quiet_init|apply scoh_init|exact R].
Qed.
