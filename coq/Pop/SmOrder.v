(** POP state machine — un-executing a command erases ITS item in place.

    The implementation keeps, per VBK block, the VTB ids as an ordered list; the VBK state machine re-executes
    (and, reversed, un-executes) the block's VTB command groups in that order on every SP reorg, and VTBs of one
    block may depend on each other. Removal is not always LIFO: comparePopScore unapplies the losing chain
    UNDER the still applied winner. In the model the protecting state is a list (newest item first) and
    [cunexec] removes with [remove1]: the first occurrence is erased in place, every other item keeps its
    position relative to the others - from ANY state, LIFO or not. A removal that moves the newest item into
    the freed slot ("swap and pop") does not have this property ([swap_and_pop_keeps_order_refuted]). *)
From Coq Require Import List NArith Bool.
Import ListNotations.
From VB Require Import Pop.SmDefs.

Lemma remove1_absent : forall x p, mem x p = false -> remove1 x p = p.
Proof.
  intros x p; induction p as [|y r IH]; simpl; intro H; [reflexivity|].
  apply orb_false_iff in H; destruct H as [H1 H2]. rewrite H1, (IH H2). reflexivity.
Qed.

(** erased in place: p = l1 ++ y :: l2 with y the first match, and the result is l1 ++ l2 *)
Lemma remove1_in_place : forall x p, mem x p = true ->
  exists l1 y l2, p = l1 ++ y :: l2 /\ item_eqb x y = true /\ mem x l1 = false /\ remove1 x p = l1 ++ l2.
Proof.
  intros x p; induction p as [|y r IH]; simpl; intro H; [discriminate|].
  destruct (item_eqb x y) eqn:E.
  - exists [], y, r. simpl. rewrite E. repeat split; reflexivity.
  - simpl in H. destruct (IH H) as (l1 & z & l2 & Hp & Hz & Hm & Hr).
    exists (y :: l1), z, l2. simpl. rewrite E, Hm, Hr, Hp. repeat split; try reflexivity. exact Hz.
Qed.

(** the other items, in order *)
Definition others (x : item) (p : pstate) : pstate := filter (fun y => negb (item_eqb x y)) p.

Lemma remove1_keeps_order : forall x p, others x (remove1 x p) = others x p.
Proof.
  intros x p; induction p as [|y r IH]; simpl; [reflexivity|].
  destruct (item_eqb x y) eqn:E; simpl.
  - reflexivity.
  - rewrite E. simpl. rewrite IH. reflexivity.
Qed.

(** items different from x are untouched as a SEQUENCE also with respect to any third item z *)
Lemma remove1_keeps_order_of : forall x z p, item_eqb z x = false ->
  filter (item_eqb z) (remove1 x p) = filter (item_eqb z) p.
Proof.
  intros x z p Hzx; induction p as [|y r IH]; simpl; [reflexivity|].
  destruct (item_eqb x y) eqn:E.
  - destruct (item_eqb z y) eqn:Z; [|reflexivity].
    exfalso.
    assert (item_eqb z x = true) as K.
    { destruct x, y, z; simpl in *; try discriminate;
      repeat match goal with
             | H : (_ && _)%bool = true |- _ => apply andb_true_iff in H; destruct H
             | H : N.eqb _ _ = true |- _ => apply N.eqb_eq in H; subst
             end; rewrite ?N.eqb_refl; reflexivity. }
    rewrite K in Hzx; discriminate.
  - simpl. destruct (item_eqb z y); rewrite IH; reflexivity.
Qed.

Definition item_of (c : ccmd) : option item :=
  match c with
  | AddRef v _ => Some (IRef v)
  | AddEnd e c b => Some (IEnd e c b)
  | _ => None
  end.

(** un-executing ANY command from ANY state keeps the relative order of all other items *)
Theorem cunexec_keeps_order : forall c p,
  match item_of c with
  | Some x => others x (cunexec c p) = others x p /\
              (mem x p = true -> exists l1 y l2, p = l1 ++ y :: l2 /\ item_eqb x y = true /\ mem x l1 = false /\
                                                 cunexec c p = l1 ++ l2)
  | None => cunexec c p = p
  end.
Proof.
  intros c p; destruct c; simpl; try reflexivity; split;
    try apply remove1_keeps_order; apply remove1_in_place.
Qed.

(** the inverse of a successful execute is exact also under later items (non-LIFO): the items added after it stay
    where they are *)
Theorem cunexec_under_later : forall c p p' later,
  cexec c p = Some p' -> (forall x, item_of c = Some x -> mem x later = false) ->
  cunexec c (later ++ p') = later ++ p.
Proof.
  intros c p p' later H Hl; destruct c; simpl in *.
  - destruct (mem (IRef v) p || mem (IRef par) p)%bool; [|discriminate]. inversion H; subst; clear H.
    specialize (Hl _ eq_refl). induction later as [|y r IH]; simpl.
    + rewrite N.eqb_refl. reflexivity.
    + simpl in Hl. apply orb_false_iff in Hl; destruct Hl as [H1 H2]. rewrite H1, (IH H2). reflexivity.
  - destruct (mem (IRef b) p); [|discriminate]. inversion H; subst; clear H.
    specialize (Hl _ eq_refl). induction later as [|y r IH]; simpl.
    + rewrite !N.eqb_refl. reflexivity.
    + simpl in Hl. apply orb_false_iff in Hl; destruct Hl as [H1 H2]. rewrite H1, (IH H2). reflexivity.
  - destruct (mem (IRef v) p); [|discriminate]. inversion H; subst. reflexivity.
  - discriminate.
Qed.

(** ** swap-and-pop removal (newest item = head moved into the freed slot) reorders the others *)
Fixpoint replace_first (x h : item) (r : pstate) : pstate :=
  match r with
  | [] => []
  | y :: t => if item_eqb x y then h :: t else y :: replace_first x h t
  end.
Definition remove_swap (x : item) (p : pstate) : pstate :=
  match p with
  | [] => []
  | h :: r => if item_eqb x h then r else replace_first x h r
  end.

(** VBK block 10 holds vA (fork a1), then v1, v2 (chain b; v2 depends on v1): newest first [v2; v1; vA].
    Un-executing vA under the still applied v1, v2: in place -> [v2; v1]; swap-and-pop -> [v1; v2]. *)
Example swap_and_pop_keeps_order_refuted :
  let vA := IEnd 1 10 21 in let v1 := IEnd 2 10 22 in let v2 := IEnd 3 10 23 in
  let p := [v2; v1; vA] in
  remove1 vA p = [v2; v1] /\ others vA (remove1 vA p) = others vA p /\
  remove_swap vA p = [v1; v2] /\ others vA (remove_swap vA p) <> others vA p.
Proof. simpl. repeat split; try reflexivity. discriminate. Qed.
