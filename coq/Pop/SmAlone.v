(** C20 — the comparison clause as an invariant over ALL reachable states: the fully-valid level is carried only by
    blocks that were validated on their own ancestry alone. *)
From Coq Require Import List ZArith NArith Bool Lia.
Import ListNotations.
From VB Require Import Pop.SmDefs Pop.SmProofs Pop.SmWf Pop.SmTruth Pop.SmCmp Pop.SmAll Pop.SmCoh Pop.SmFull Pop.SmTree Pop.SmReact.
Local Open Scope Z_scope.

(** a block reporting full validity: every block of root..b is at the fully-valid level without a failure mark, and the
    bodies of root..b executed from the bootstrap state - nothing of any other chain present - all succeed *)
Theorem full_means_validated_alone : forall base s to bto,
    reachable base s -> bfind (blocks _ _ s) to = Some bto -> valid_upto _ bto L_FULL = true ->
    (forall i, Z.of_nat i <= dep s to ->
               exists b, bfind (blocks _ _ s) (up (cores s) i to) = Some b /\ N.le L_FULL (b_lvl _ b) /\ is_failed _ b = false) /\
    exists p', replay (bgs s (depth s to) to) base = Some p'.
Proof.
  intros base s to bto R F Hv. destruct (reachable_good _ _ R) as (Q & C & K & T & U). pose proof Q as (W & _).
  split; [exact (anc_ok s to bto W K F Hv)|].
  destruct (find_some_in _ _ _ F) as [Hin Hid]. rewrite <- Hid. apply U; [exact Hin|].
  unfold valid_upto in Hv. apply andb_prop in Hv. exact (proj2 Hv).
Qed.

(** the comparison clause: a block whose own ancestry does NOT replay from the bootstrap state (e.g. a candidate whose
    payloads are valid only thanks to payloads of the competing chain, next to which comparePopScore applied it) is not
    at the fully-valid level in ANY reachable state - whatever comparisons, switches and failed switches happened *)
Theorem never_full_unless_valid_alone : forall base s b,
    reachable base s -> In b (blocks _ _ s) ->
    replay (bgs s (depth s (b_id _ b)) (b_id _ b)) base = None ->
    N.leb L_FULL (b_lvl _ b) = false.
Proof.
  intros base s b R Hin Hr. destruct (N.leb L_FULL (b_lvl ccmd b)) eqn:E; [|reflexivity].
  destruct (full_validity_truthful_all base s R b Hin E) as (p' & Hp). rewrite Hp in Hr. discriminate.
Qed.

(** non-vacuity: candidate 6 contains [Need 13]; 13 is delivered only by block 3 of the competing chain. A comparison
    applies 6 next to 3 (succeeds there), the candidate wins the score, is re-validated alone, fails, and ends below the
    fully-valid level - with FAILED_POP; its own-ancestry replay is None. *)
Definition ex_alone_ops : list op :=
  [OConnect 3 0 false [[AddRef 13 1]]; OConnect 6 0 false [[Need 13]]; OSetState 3;
   OCompare (Some 6%N) (fun _ _ => (-1)%Z) (fun _ _ => true)]%N.
Example never_full_example :
  match run (c_init 0 0 [IRef 1]%N) ex_alone_ops with
  | Ok s => match bfind (blocks _ _ s) 6%N with
            | Some b => (tip _ _ s, b_lvl _ b, b_fp _ b, b_act _ b, replay (bgs s (depth s 6%N) 6%N) [IRef 1]%N)
                        = (3%N, L_MAYBE, true, false, None)
            | None => False
            end
  | Abort _ => False
  end.
Proof. vm_compute. reflexivity. Qed.
