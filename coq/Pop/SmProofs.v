(** POP state machine — lemmas about the as-coded model (Pop/SmDefs.v). *)
From Coq Require Import List ZArith NArith Bool Lia Permutation Relations.
Import ListNotations.
From VB Require Import Pop.SmDefs.

Section Generic.
  Variable P : Type.
  Variable cmd : Type.
  Variable exec : cmd -> P -> option P.
  Variable unexec : cmd -> P -> P.
  (** every command has an exact inverse *)
  Hypothesis inv_law : forall c p p', exec c p = Some p' -> unexec c p' = p.

  Notation undo := (undo P cmd unexec).
  Notation gexec := (gexec P cmd exec unexec).
  Notation group_execute := (group_execute P cmd exec unexec).
  Notation group_unexecute := (group_unexecute P cmd unexec).
  Notation gsundo := (gsundo P cmd unexec).
  Notation gsexec := (gsexec P cmd exec unexec).
  Notation st := (st P cmd).
  Notation blk := (blk cmd).

  Lemma undo_app : forall a b p, undo (a ++ b) p = undo b (undo a p).
  Proof. intros. unfold SmDefs.undo. apply fold_left_app. Qed.

  Lemma gexec_fail : forall todo done p p0 p',
      undo done p = p0 -> gexec done todo p = (p', false) -> p' = p0.
  Proof.
    induction todo as [|c r IH]; intros done p p0 p' Hu H; cbn in H.
    - discriminate.
    - destruct (exec c p) as [p1|] eqn:E.
      + eapply IH; [|exact H]. cbn. rewrite (inv_law _ _ _ E). exact Hu.
      + inversion H; subst. reflexivity.
  Qed.

  Lemma gexec_ok : forall todo done p p',
      gexec done todo p = (p', true) -> undo (rev todo ++ done) p' = undo done p.
  Proof.
    induction todo as [|c r IH]; intros done p p' H; cbn in H.
    - inversion H; subst. reflexivity.
    - destruct (exec c p) as [p1|] eqn:E; [|discriminate].
      apply IH in H. cbn [rev]. rewrite <- app_assoc. cbn [app]. rewrite H.
      cbn. rewrite (inv_law _ _ _ E). reflexivity.
  Qed.

  (** C02: CommandGroup::execute is atomic *)
  Lemma group_exec_atomic : forall g p p',
      group_execute g p = (p', false) -> p' = p.
  Proof. intros g p p' H. eapply gexec_fail; [|exact H]. reflexivity. Qed.

  Lemma group_unexec_exec : forall g p p',
      group_execute g p = (p', true) -> group_unexecute g p' = p.
  Proof.
    intros g p p' H. apply gexec_ok in H. rewrite app_nil_r in H. exact H.
  Qed.

  Lemma gsundo_app : forall a b p, gsundo (a ++ b) p = gsundo b (gsundo a p).
  Proof. intros. unfold SmDefs.gsundo. apply fold_left_app. Qed.

  Lemma gsexec_fail : forall todo done p p0 p',
      gsundo done p = p0 -> gsexec done todo p = (p', false) -> p' = p0.
  Proof.
    induction todo as [|g r IH]; intros done p p0 p' Hu H; cbn in H.
    - discriminate.
    - destruct (group_execute g p) as [p1 ok] eqn:E. destruct ok.
      + eapply IH; [|exact H]. cbn. rewrite (group_unexec_exec _ _ _ E). exact Hu.
      + apply group_exec_atomic in E. subst p1. inversion H; subst. reflexivity.
  Qed.

  Lemma gsexec_ok : forall todo done p p',
      gsexec done todo p = (p', true) -> gsundo (rev todo ++ done) p' = gsundo done p.
  Proof.
    induction todo as [|g r IH]; intros done p p' H; cbn in H.
    - inversion H; subst. reflexivity.
    - destruct (group_execute g p) as [p1 ok] eqn:E. destruct ok; [|discriminate].
      apply IH in H. cbn [rev]. rewrite <- app_assoc. cbn [app]. rewrite H.
      cbn. rewrite (group_unexec_exec _ _ _ E). reflexivity.
  Qed.

  (** the command groups of a block: all or nothing, and unapplying restores P exactly *)
  Lemma block_groups_atomic : forall gs p p', gsexec [] gs p = (p', false) -> p' = p.
  Proof. intros. eapply gsexec_fail; [|eassumption]. reflexivity. Qed.
  Lemma block_groups_inverse : forall gs p p', gsexec [] gs p = (p', true) -> gsundo (rev gs) p' = p.
  Proof. intros gs p p' H. apply gsexec_ok in H. rewrite app_nil_r in H. exact H. Qed.

  (** ** what never changes: ids, parents, heights, payloads; only marks *)
  Definition static (b : blk) : N * N * Z * list (list cmd) := (b_id _ b, b_par _ b, b_h _ b, b_gs _ b).
  (* everything but the FAILED_POP / FAILED_CHILD marks *)
  Definition strip (b : blk) : blk :=
    mkBlk cmd (b_id _ b) (b_par _ b) (b_h _ b) (b_lvl _ b) (b_fb _ b) false false (b_act _ b) (b_gs _ b).

  Lemma strip_upd_fp : forall l i, map strip (upd cmd l i (set_fp cmd)) = map strip l.
  Proof.
    intros. unfold upd. rewrite map_map. apply map_ext. intros b.
    destruct (N.eqb (b_id cmd b) i); reflexivity.
  Qed.
  Lemma strip_mark_desc : forall l x e, map strip (mark_desc cmd x e l) = map strip l.
  Proof.
    induction l as [|b r IH]; intros; cbn; [reflexivity|].
    destruct (N.eqb (b_par cmd b) x || existsb (N.eqb (b_par cmd b)) e); cbn; rewrite IH; reflexivity.
  Qed.

  Lemma invalidate_pop_frame : forall s i s',
      invalidate_pop P cmd s i = Ok s' ->
      pst _ _ s' = pst _ _ s /\ napp _ _ s' = napp _ _ s /\ tip _ _ s' = tip _ _ s /\ root _ _ s' = root _ _ s /\
      map strip (blocks _ _ s') = map strip (blocks _ _ s).
  Proof.
    intros s i s' H. unfold invalidate_pop in H.
    destruct (find cmd (blocks P cmd s) i) as [b|]; [|discriminate].
    destruct (b_fp cmd b).
    { inversion H; subst. auto. }
    destruct (is_failed cmd b).
    { destruct (N.eqb (b_lvl cmd b) L_FULL); inversion H; subst; cbn. rewrite strip_upd_fp. auto. }
    destruct (on_active_chain P cmd s i); [discriminate|].
    destruct (N.eqb (b_lvl cmd b) L_FULL); inversion H; subst; cbn.
    rewrite strip_mark_desc, strip_upd_fp. auto.
  Qed.

  (** C02: applyBlock is atomic — a failing block leaves P, the applied count and the tip untouched, and
      changes nothing in the tree but FAILED_POP / FAILED_CHILD marks *)
  Lemma applyBlock_atomic : forall s i s',
      applyBlock P cmd exec unexec s i = Ok (s', false) ->
      pst _ _ s' = pst _ _ s /\ napp _ _ s' = napp _ _ s /\ tip _ _ s' = tip _ _ s /\ root _ _ s' = root _ _ s /\
      map strip (blocks _ _ s') = map strip (blocks _ _ s).
  Proof.
    intros s i s' H. unfold applyBlock in H.
    destruct (find cmd (blocks P cmd s) i) as [b|]; [|discriminate].
    destruct (N.eqb i (root P cmd s)); [discriminate|].
    destruct (find cmd (blocks P cmd s) (b_par cmd b)) as [pb|]; [|discriminate].
    destruct (negb (b_act cmd pb)); [discriminate|].
    destruct (b_act cmd b); [discriminate|].
    destruct (child_active cmd (blocks P cmd s) i); [discriminate|].
    destruct (b_fc cmd b); [discriminate|].
    destruct (is_failed cmd b).
    { inversion H; subst. auto. }
    destruct (N.ltb (b_lvl cmd b) L_CONNECTED); [discriminate|].
    destruct (gsexec [] (b_gs cmd b) (pst P cmd s)) as [p' ok] eqn:E.
    destruct ok; cbn [negb] in H.
    - destruct (N.ltb (b_lvl cmd b) _ && N.ltb (b_lvl cmd pb) _); discriminate.
    - apply block_groups_atomic in E. subst p'.
      destruct (invalidate_pop P cmd (with_pst P cmd s (pst P cmd s)) i) as [s1|] eqn:E1; cbn in H; [|discriminate].
      inversion H; subst. apply invalidate_pop_frame in E1. cbn in E1. exact E1.
  Qed.

  (** ** lifting: whatever every block-level step preserves is preserved by every compound operation
      (unapplyWhile / unapply / apply / PopStateMachine::setState / setState / comparePopScore), for ANY tree and
      ANY outcome. No reasoning about the shape of the tree is needed. *)
  Section Lift.
    Variable Inv : st -> Prop.
    Hypothesis Inv_apply : forall s i s' ok, Inv s -> applyBlock P cmd exec unexec s i = Ok (s', ok) -> Inv s'.
    Hypothesis Inv_unapply : forall s i s', Inv s -> unapplyBlock P cmd unexec s i = Ok s' -> Inv s'.
    (* the invariant does not mention the tip pointer and the applied counter *)
    Hypothesis Inv_tip : forall s t n, Inv s -> Inv (mkSt P cmd (blocks _ _ s) (root _ _ s) t n (pst _ _ s)).

    Ltac dbind H :=
      match type of H with
      | bind ?e _ = Ok _ => let E := fresh "E" in destruct e eqn:E; cbn [bind] in H; [|discriminate]
      end.

    Lemma Inv_unapplyWhile : forall fuel s cur to pred s' w,
        Inv s -> unapplyWhile P cmd unexec fuel s cur to pred = Ok (s', w) -> Inv s'.
    Proof.
      induction fuel as [|f IH]; intros s cur to pred s' w HI H; cbn in H.
      - destruct (N.eqb cur to); [inversion H; subst; exact HI|discriminate].
      - destruct (N.eqb cur to); [inversion H; subst; exact HI|].
        destruct (find cmd (blocks P cmd s) cur) as [bc|]; [|discriminate].
        destruct (find cmd (blocks P cmd s) to) as [bt|]; [|discriminate].
        destruct (Z.leb (b_h cmd bc) (b_h cmd bt)); [discriminate|].
        destruct (negb (pred bc)); [inversion H; subst; exact HI|].
        dbind H. eapply IH; [|exact H]. eapply Inv_unapply; eassumption.
    Qed.

    Lemma Inv_unapply_range : forall s a b s', Inv s -> unapply P cmd unexec s a b = Ok s' -> Inv s'.
    Proof.
      intros s a b s' HI H. unfold unapply in H. dbind H. destruct a0 as [s1 w]. cbn in H.
      destruct (N.eqb w b); inversion H; subst. eapply Inv_unapplyWhile; eassumption.
    Qed.

    Lemma Inv_apply_path : forall path s from s' ok,
        Inv s -> apply_path P cmd exec unexec s from path = Ok (s', ok) -> Inv s'.
    Proof.
      induction path as [|x r IH]; intros s from s' ok HI H; cbn in H.
      - inversion H; subst. exact HI.
      - dbind H. destruct a as [s1 ok1]. pose proof (Inv_apply _ _ _ _ HI E) as HI1.
        destruct ok1.
        + eapply IH; eassumption.
        + destruct (find cmd (blocks P cmd s1) x) as [bx|]; [|discriminate].
          dbind H. inversion H; subst. eapply Inv_unapply_range; eassumption.
    Qed.

    Lemma Inv_apply_range : forall s a b s' ok,
        Inv s -> apply P cmd exec unexec s a b = Ok (s', ok) -> Inv s'.
    Proof.
      intros s a b s' ok HI H. unfold apply in H.
      destruct (N.eqb a b); [inversion H; subst; exact HI|].
      destruct (find cmd (blocks P cmd s) a) as [bf|]; [|discriminate].
      destruct (find cmd (blocks P cmd s) b) as [bt|]; [|discriminate].
      destruct (is_failed cmd bt); [inversion H; subst; exact HI|].
      destruct (negb (Z.ltb (b_h cmd bf) (b_h cmd bt))); [discriminate|].
      destruct (path_up cmd (blocks P cmd s) _ b) as [up|]; [|discriminate].
      destruct (rev up) as [|x r]; [discriminate|].
      destruct (find cmd (blocks P cmd s) x) as [bx|]; [|discriminate].
      destruct (N.eqb (b_par cmd bx) a); [|discriminate].
      eapply Inv_apply_path; eassumption.
    Qed.

    Lemma Inv_sm_setState : forall s a b s' ok,
        Inv s -> sm_setState P cmd exec unexec s a b = Ok (s', ok) -> Inv s'.
    Proof.
      intros s a b s' ok HI H. unfold sm_setState in H.
      destruct (N.eqb a b); [inversion H; subst; exact HI|].
      destruct (lca cmd (blocks P cmd s) _ a b) as [fork|]; [|discriminate].
      dbind H. pose proof (Inv_unapply_range _ _ _ _ HI E) as H1.
      dbind H. destruct a1 as [s2 ok2]. pose proof (Inv_apply_range _ _ _ _ _ H1 E0) as H2.
      destruct ok2; [inversion H; subst; exact H2|].
      dbind H. destruct a1 as [s3 ok3]. pose proof (Inv_apply_range _ _ _ _ _ H2 E1) as H3.
      destruct ok3; inversion H; subst. exact H3.
    Qed.

    Lemma Inv_setState : forall s to s' ok,
        Inv s -> setState P cmd exec unexec s to = Ok (s', ok) -> Inv s'.
    Proof.
      intros s to s' ok HI H. unfold setState in H.
      destruct (find cmd (blocks P cmd s) (tip P cmd s)) as [bt|]; [|discriminate].
      destruct (find cmd (blocks P cmd s) to) as [b0|]; [|discriminate].
      destruct (negb _); [discriminate|].
      dbind H. destruct a as [s1 ok1].
      assert (HI1 : Inv s1).
      { destruct (N.eqb (tip P cmd s) to); [inversion E; subst; exact HI|].
        eapply Inv_sm_setState; eassumption. }
      destruct (find cmd (blocks P cmd s1) to) as [bto|]; [|discriminate].
      destruct ok1.
      - destruct (valid_upto cmd bto L_FULL); inversion H; subst. apply Inv_tip. exact HI1.
      - destruct (negb (is_failed cmd bto)); [discriminate|].
        destruct (negb _); inversion H; subst. exact HI1.
    Qed.

    Variable score : st -> N -> Z.
    Variable crossed : Z -> Z -> bool.
    (* comparePopScore only moves the tip pointer (activeChain_.setTip), the counter is untouched *)
    Hypothesis Inv_tip_only : forall s t, Inv s -> Inv (mkSt P cmd (blocks _ _ s) (root _ _ s) t (napp _ _ s) (pst _ _ s)).

    Lemma Inv_compare_fork : forall s c bc bt s' r,
        Inv s -> compare_fork P cmd exec unexec score crossed s c bc bt = Ok (s', r) -> Inv s'.
    Proof.
      intros s c bc bt s' r HI H. unfold compare_fork in H.
      destruct (lca cmd (blocks P cmd s) _ (tip P cmd s) c) as [fork|]; [|discriminate].
      destruct (find cmd (blocks P cmd s) fork) as [bf|]; [|discriminate].
      destruct (negb (crossed _ _) && negb (crossed _ _)); [inversion H; subst; exact HI|].
      dbind H. destruct a as [s1 ok]. pose proof (Inv_apply_range _ _ _ _ _ HI E) as H1.
      destruct ok; cbn [negb] in H; [|inversion H; subst; exact H1].
      destruct (Z.leb 0 (score s1 c)).
      - dbind H. inversion H; subst. eapply Inv_unapply_range; eassumption.
      - dbind H. destruct a as [s2 vf]. pose proof (Inv_unapplyWhile _ _ _ _ _ _ _ H1 E0) as H2.
        dbind H. pose proof (Inv_unapply_range _ _ _ _ H2 E1) as H3.
        dbind H. destruct a0 as [s4 ok2]. pose proof (Inv_apply_range _ _ _ _ _ H3 E2) as H4.
        destruct ok2; [inversion H; subst; apply Inv_tip_only; exact H4|].
        dbind H. pose proof (Inv_unapply_range _ _ _ _ H4 E3) as H5.
        dbind H. destruct a1 as [s6 ok3]. pose proof (Inv_apply_range _ _ _ _ _ H5 E4) as H6.
        destruct ok3; inversion H; subst. exact H6.
    Qed.

    Lemma Inv_compare : forall s c s' r,
        Inv s -> compare P cmd exec unexec score crossed s c = Ok (s', r) -> Inv s'.
    Proof.
      intros s c s' r HI H. unfold compare in H.
      destruct c as [c|]; [|inversion H; subst; exact HI].
      destruct (find cmd (blocks P cmd s) c) as [bc|]; [|discriminate].
      destruct (find cmd (blocks P cmd s) (tip P cmd s)) as [bt|]; [|discriminate].
      destruct (is_failed cmd bc); [inversion H; subst; exact HI|].
      destruct (N.eqb (tip P cmd s) c); [inversion H; subst; exact HI|].
      destruct (on_active_chain P cmd s c); [inversion H; subst; exact HI|].
      destruct (anc_at cmd (blocks P cmd s) _ c (b_h cmd bt)) as [a|].
      - destruct (N.eqb a (tip P cmd s)).
        + dbind H. destruct a0 as [s1 ok]. pose proof (Inv_apply_range _ _ _ _ _ HI E) as H1.
          destruct ok; inversion H; subst; [apply Inv_tip_only|]; exact H1.
        + eapply Inv_compare_fork; eassumption.
      - eapply Inv_compare_fork; eassumption.
    Qed.
  End Lift.
End Generic.

(** * The concrete reference-count machine *)
Lemma item_eqb_eq : forall a b, item_eqb a b = true <-> a = b.
Proof.
  intros [x|e c b] [y|e' c' b']; cbn; split; intro H; try discriminate.
  - apply N.eqb_eq in H. subst. reflexivity.
  - inversion H. apply N.eqb_refl.
  - apply andb_prop in H. destruct H as [H H3]. apply andb_prop in H. destruct H as [H1 H2].
    apply N.eqb_eq in H1, H2, H3. subst. reflexivity.
  - inversion H. rewrite !N.eqb_refl. reflexivity.
Qed.
Lemma item_eqb_refl : forall a, item_eqb a a = true.
Proof. intros. apply item_eqb_eq. reflexivity. Qed.

(** the inverse law for the concrete commands *)
Lemma cinv_law : forall c p p', cexec c p = Some p' -> cunexec c p' = p.
Proof.
  intros [v par|e c b|v|] p p' H; cbn in H.
  - destruct (mem (IRef v) p || mem (IRef par) p); inversion H; subst. cbn. rewrite N.eqb_refl. reflexivity.
  - destruct (mem (IRef b) p); inversion H; subst. cbn. rewrite !N.eqb_refl. reflexivity.
  - destruct (mem (IRef v) p); inversion H; subst. reflexivity.
  - discriminate.
Qed.

Lemma remove1_perm : forall x l l', Permutation l l' -> Permutation (remove1 x l) (remove1 x l').
Proof.
  intros x l l' H. induction H as [|y l l' H IH|y z l|l l' l'' H1 IH1 H2 IH2]; cbn.
  - constructor.
  - destruct (item_eqb x y); [exact H|constructor; exact IH].
  - destruct (item_eqb x y) eqn:Ey, (item_eqb x z) eqn:Ez.
    + apply item_eqb_eq in Ey, Ez. subst. reflexivity.
    + reflexivity.
    + reflexivity.
    + apply perm_swap.
  - eapply perm_trans; eassumption.
Qed.

Definition remove_all (xs : list item) (p : pstate) : pstate := fold_left (fun q x => remove1 x q) xs p.
Lemma remove_all_perm : forall ys p q, Permutation p (ys ++ q) -> Permutation (remove_all ys p) q.
Proof.
  induction ys as [|y r IH]; intros p q H; cbn.
  - exact H.
  - apply IH. apply (remove1_perm y) in H. cbn in H. rewrite item_eqb_refl in H. exact H.
Qed.

Definition cmd_items (c : ccmd) : list item :=
  match c with AddRef v _ => [IRef v] | AddEnd e c b => [IEnd e c b] | _ => [] end.
Definition group_items (g : list ccmd) : list item := flat_map cmd_items g.
Definition block_items (gs : list (list ccmd)) : list item := flat_map group_items gs.
(** what the applied blocks contribute to the protecting state *)
Definition active_items (l : list (blk ccmd)) : list item :=
  flat_map (fun b => if b_act _ b then block_items (b_gs _ b) else []) l.

Lemma cexec_items : forall c p p', cexec c p = Some p' -> p' = rev (cmd_items c) ++ p.
Proof.
  intros [v par|e c b|v|] p p' H; cbn in H.
  - destruct (mem (IRef v) p || mem (IRef par) p); inversion H; reflexivity.
  - destruct (mem (IRef b) p); inversion H; reflexivity.
  - destruct (mem (IRef v) p); inversion H; reflexivity.
  - discriminate.
Qed.
Lemma gexec_items : forall todo done p p',
    gexec pstate ccmd cexec cunexec done todo p = (p', true) -> p' = rev (group_items todo) ++ p.
Proof.
  induction todo as [|c r IH]; intros done p p' H; cbn in H.
  - inversion H; reflexivity.
  - destruct (cexec c p) as [p1|] eqn:E; [|discriminate].
    apply IH in H. apply cexec_items in E. subst. cbn [group_items flat_map].
    rewrite rev_app_distr, <- app_assoc. reflexivity.
Qed.
Lemma gsexec_items : forall todo done p p',
    gsexec pstate ccmd cexec cunexec done todo p = (p', true) -> p' = rev (block_items todo) ++ p.
Proof.
  induction todo as [|g r IH]; intros done p p' H; cbn in H.
  - inversion H; reflexivity.
  - destruct (group_execute pstate ccmd cexec cunexec g p) as [p1 ok] eqn:E. destruct ok; [|discriminate].
    apply IH in H. apply gexec_items in E. subst. cbn [block_items flat_map].
    rewrite rev_app_distr, <- app_assoc. reflexivity.
Qed.

Lemma cundo_items : forall g p, undo pstate ccmd cunexec g p = remove_all (flat_map cmd_items g) p.
Proof.
  induction g as [|c r IH]; intros p; [reflexivity|].
  change (undo pstate ccmd cunexec (c :: r) p) with (undo pstate ccmd cunexec r (cunexec c p)).
  rewrite IH. destruct c; reflexivity.
Qed.
Lemma remove_all_app : forall a b p, remove_all (a ++ b) p = remove_all b (remove_all a p).
Proof. intros. apply fold_left_app. Qed.
Lemma gsundo_items : forall gs p,
    gsundo pstate ccmd cunexec gs p = remove_all (flat_map (fun g => flat_map cmd_items (rev g)) gs) p.
Proof.
  induction gs as [|g r IH]; intros p; [reflexivity|].
  change (gsundo pstate ccmd cunexec (g :: r) p) with (gsundo pstate ccmd cunexec r (group_unexecute pstate ccmd cunexec g p)).
  rewrite IH. unfold group_unexecute. rewrite cundo_items. cbn [flat_map]. rewrite remove_all_app. reflexivity.
Qed.
Lemma flat_map_rev_perm : forall (A B : Type) (f : A -> list B) l, Permutation (flat_map f (rev l)) (flat_map f l).
Proof.
  intros. rewrite !flat_map_concat_map. rewrite map_rev.
  induction (map f l) as [|x r IH]; cbn; [constructor|].
  rewrite concat_app. cbn. rewrite app_nil_r. rewrite Permutation_app_comm. apply Permutation_app_head. exact IH.
Qed.
Lemma block_undo_perm : forall gs p q,
    Permutation p (block_items gs ++ q) -> Permutation (gsundo pstate ccmd cunexec (rev gs) p) q.
Proof.
  intros gs p q H. rewrite gsundo_items. apply remove_all_perm.
  eapply perm_trans; [exact H|]. apply Permutation_app_tail.
  eapply perm_trans; [|symmetry; apply flat_map_rev_perm].
  unfold block_items, group_items. clear.
  induction gs as [|g r IH]; cbn; [constructor|].
  apply Permutation_app; [symmetry; apply flat_map_rev_perm|exact IH].
Qed.

(** ** the canonical-state invariant (C01) *)
Notation cblk := (blk ccmd).
Definition ids (l : list cblk) : list N := map (b_id ccmd) l.

Lemma find_in_ids : forall (l : list cblk) i b, find ccmd l i = Some b -> b_id _ b = i /\ In i (ids l).
Proof.
  induction l as [|h r IH]; intros i b H; cbn in H; [discriminate|].
  destruct (N.eqb (b_id ccmd h) i) eqn:E.
  - inversion H; subst. apply N.eqb_eq in E. split; [exact E|left; exact E].
  - apply IH in H. destruct H. split; [assumption|right; assumption].
Qed.
Lemma find_none_notin : forall (l : list cblk) i, find ccmd l i = None -> ~ In i (ids l).
Proof.
  induction l as [|h r IH]; intros i H; cbn in *; [tauto|].
  destruct (N.eqb (b_id ccmd h) i) eqn:E; [discriminate|].
  apply N.eqb_neq in E. intros [A|A]; [contradiction|]. exact (IH _ H A).
Qed.
Lemma upd_notin : forall (l : list cblk) i f, ~ In i (ids l) -> upd ccmd l i f = l.
Proof.
  induction l as [|h r IH]; intros i f H; cbn in *; [reflexivity|].
  destruct (N.eqb (b_id ccmd h) i) eqn:E.
  - apply N.eqb_eq in E. tauto.
  - f_equal. apply IH. tauto.
Qed.
Lemma ids_upd : forall (l : list cblk) i f, (forall x, b_id _ (f x) = b_id _ x) -> ids (upd ccmd l i f) = ids l.
Proof.
  intros l i f Hf. unfold ids, upd. rewrite map_map. apply map_ext. intros x.
  destruct (N.eqb (b_id ccmd x) i); [apply Hf|reflexivity].
Qed.

Lemma active_items_upd_on : forall (l : list cblk) i b f,
    NoDup (ids l) -> find ccmd l i = Some b -> b_act _ b = false ->
    (forall x, b_gs _ (f x) = b_gs _ x /\ b_act _ (f x) = true) ->
    Permutation (active_items (upd ccmd l i f)) (block_items (b_gs _ b) ++ active_items l).
Proof.
  induction l as [|h r IH]; intros i b f ND Hf Ha Hp; cbn in Hf; [discriminate|].
  inversion ND as [|? ? Hn ND']; subst. cbn [upd map].
  destruct (N.eqb (b_id ccmd h) i) eqn:E.
  - inversion Hf; subst. apply N.eqb_eq in E. subst i.
    fold (upd ccmd r (b_id ccmd b) f). rewrite upd_notin by exact Hn.
    cbn [active_items flat_map]. destruct (Hp b) as [Hg Hact]. rewrite Hact, Hg, Ha. cbn. reflexivity.
  - fold (upd ccmd r i f). cbn [active_items flat_map].
    fold (active_items (upd ccmd r i f)). fold (active_items r).
    eapply perm_trans; [apply Permutation_app_head; eapply IH; eassumption|].
    rewrite !app_assoc. apply Permutation_app_tail. apply Permutation_app_comm.
Qed.
Lemma active_items_upd_off : forall (l : list cblk) i b,
    NoDup (ids l) -> find ccmd l i = Some b -> b_act _ b = true ->
    Permutation (active_items l) (block_items (b_gs _ b) ++ active_items (upd ccmd l i (set_act ccmd false))).
Proof.
  induction l as [|h r IH]; intros i b ND Hf Ha; cbn in Hf; [discriminate|].
  inversion ND as [|? ? Hn ND']; subst. cbn [upd map].
  destruct (N.eqb (b_id ccmd h) i) eqn:E.
  - inversion Hf; subst. apply N.eqb_eq in E. subst i.
    fold (upd ccmd r (b_id ccmd b) (set_act ccmd false)). rewrite upd_notin by exact Hn.
    cbn [active_items flat_map]. rewrite Ha. cbn. reflexivity.
  - fold (upd ccmd r i (set_act ccmd false)). cbn [active_items flat_map].
    fold (active_items (upd ccmd r i (set_act ccmd false))). fold (active_items r).
    eapply perm_trans; [apply Permutation_app_head; eapply IH; eassumption|].
    rewrite !app_assoc. apply Permutation_app_tail. apply Permutation_app_comm.
Qed.

Lemma active_items_strip : forall l : list cblk, active_items (map (strip ccmd) l) = active_items l.
Proof. induction l as [|h r IH]; cbn; [reflexivity|]. fold (active_items (map (strip ccmd) r)). rewrite IH. reflexivity. Qed.
Lemma ids_strip : forall l : list cblk, ids (map (strip ccmd) l) = ids l.
Proof. intros. unfold ids. rewrite map_map. reflexivity. Qed.

Definition canon (base : pstate) (s : cst) : Prop :=
  Permutation (pst _ _ s) (active_items (blocks _ _ s) ++ base) /\ NoDup (ids (blocks _ _ s)).

Lemma canon_apply : forall base s i s' ok,
    canon base s -> c_applyBlock s i = Ok (s', ok) -> canon base s'.
Proof.
  intros base s i s' ok [HP ND] H. destruct ok.
  - unfold c_applyBlock, applyBlock in H.
    destruct (find ccmd (blocks pstate ccmd s) i) as [b|] eqn:Fi; [|discriminate].
    destruct (N.eqb i (root pstate ccmd s)); [discriminate|].
    destruct (find ccmd (blocks pstate ccmd s) (b_par ccmd b)) as [pb|]; [|discriminate].
    destruct (negb (b_act ccmd pb)); [discriminate|].
    destruct (b_act ccmd b) eqn:Ha; [discriminate|].
    destruct (child_active ccmd (blocks pstate ccmd s) i); [discriminate|].
    destruct (b_fc ccmd b); [discriminate|].
    destruct (is_failed ccmd b); [discriminate|].
    destruct (N.ltb (b_lvl ccmd b) L_CONNECTED); [discriminate|].
    destruct (gsexec pstate ccmd cexec cunexec [] (b_gs ccmd b) (pst pstate ccmd s)) as [p' ok] eqn:E.
    destruct ok; cbn [negb] in H.
    + destruct (N.ltb (b_lvl ccmd b) _ && N.ltb (b_lvl ccmd pb) _); [discriminate|].
      inversion H; subst; clear H. apply gsexec_items in E. subst p'. split; cbn.
      * eapply perm_trans; [|apply Permutation_app_tail; symmetry; eapply active_items_upd_on; try eassumption; intros; split; reflexivity].
        rewrite <- app_assoc. apply Permutation_app; [symmetry; apply Permutation_rev|exact HP].
      * rewrite ids_upd by reflexivity. exact ND.
    + destruct (invalidate_pop pstate ccmd _ i); cbn in H; [|discriminate]. inversion H.
  - apply applyBlock_atomic in H; [|exact cinv_law].
    destruct H as (Hp & _ & _ & _ & Hs). split.
    + rewrite Hp. rewrite <- (active_items_strip (blocks _ _ s')), Hs, active_items_strip. exact HP.
    + rewrite <- (ids_strip (blocks _ _ s')), Hs, ids_strip. exact ND.
Qed.

Lemma canon_unapply : forall base s i s', canon base s -> c_unapplyBlock s i = Ok s' -> canon base s'.
Proof.
  intros base s i s' [HP ND] H. unfold c_unapplyBlock, unapplyBlock in H.
  destruct (find ccmd (blocks pstate ccmd s) i) as [b|] eqn:Fi; [|discriminate].
  destruct (N.eqb i (root pstate ccmd s)); [discriminate|].
  destruct (negb (b_act ccmd b)) eqn:Ha; [discriminate|]. apply negb_false_iff in Ha.
  destruct (find ccmd (blocks pstate ccmd s) (b_par ccmd b)) as [pb|]; [|discriminate].
  destruct (negb (b_act ccmd pb)); [discriminate|].
  destruct (child_active ccmd (blocks pstate ccmd s) i); [discriminate|].
  destruct (N.eqb (napp pstate ccmd s) 0); [discriminate|].
  inversion H; subst; clear H. split; cbn.
  - apply block_undo_perm. eapply perm_trans; [exact HP|].
    rewrite app_assoc. apply Permutation_app_tail. eapply active_items_upd_off; eassumption.
  - rewrite ids_upd by reflexivity. exact ND.
Qed.

Lemma canon_tip : forall base (s : cst) t n,
    canon base s -> canon base (mkSt pstate ccmd (blocks _ _ s) (root _ _ s) t n (pst _ _ s)).
Proof. intros base s t n H. exact H. Qed.

Lemma NoDup_snoc : forall (A : Type) (l : list A) x, NoDup l -> ~ In x l -> NoDup (l ++ [x]).
Proof.
  induction l as [|h r IH]; intros x ND Hn; cbn.
  - constructor; [intros []|constructor].
  - inversion ND; subst. constructor.
    + rewrite in_app_iff. cbn. intros [A0|[A0|[]]]; [contradiction|]. subst. apply Hn. left. reflexivity.
    + apply IH; [assumption|]. intro. apply Hn. right. assumption.
Qed.

Lemma canon_connect : forall base s i par dup gs s', canon base s -> c_connect s i par dup gs = Ok s' -> canon base s'.
Proof.
  intros base s i par dup gs s' [HP ND] H. unfold c_connect, connect in H.
  destruct (find ccmd (blocks pstate ccmd s) par) as [pb|]; [|discriminate].
  destruct (find ccmd (blocks pstate ccmd s) i) eqn:Fi; [discriminate|].
  inversion H; subst; clear H. split; cbn.
  - unfold active_items. rewrite flat_map_app. cbn. rewrite app_nil_r. exact HP.
  - unfold ids. rewrite map_app. cbn. apply find_none_notin in Fi.
    apply NoDup_snoc; assumption.
Qed.

(** ** histories *)
Inductive op : Type :=
| OConnect (i par : N) (dup : bool) (gs : list (list ccmd))          (* acceptBlock -> connectBlock *)
| OSetState (to : N)
| OCompare (cand : option N) (score : cst -> N -> Z) (crossed : Z -> Z -> bool).   (* any scorer *)

Definition step_op (s : cst) (o : op) : res cst :=
  match o with
  | OConnect i par dup gs => c_connect s i par dup gs
  | OSetState to => r <- c_setState s to ;; Ok (fst r)
  | OCompare c sc cr => r <- c_compare sc cr s c ;; Ok (fst r)
  end.
Fixpoint run (s : cst) (ops : list op) : res cst :=
  match ops with
  | [] => Ok s
  | o :: r => s1 <- step_op s o ;; run s1 r
  end.
(** reachable from the bootstrapped tree (root r at height h, bootstrap protecting state [base]) *)
Definition reachable (base : pstate) (s : cst) : Prop := exists r h ops, run (c_init r h base) ops = Ok s.

Lemma canon_setState : forall base s to s' ok, canon base s -> c_setState s to = Ok (s', ok) -> canon base s'.
Proof.
  intros base s to s' ok HC H.
  exact (Inv_setState pstate ccmd cexec cunexec (canon base) (canon_apply base) (canon_unapply base) (canon_tip base) s to s' ok HC H).
Qed.
Lemma canon_compare : forall base sc cr s c s' r, canon base s -> c_compare sc cr s c = Ok (s', r) -> canon base s'.
Proof.
  intros base sc cr s c s' r HC H.
  exact (Inv_compare pstate ccmd cexec cunexec (canon base) (canon_apply base) (canon_unapply base) sc cr
           (fun s0 t H0 => canon_tip base s0 t _ H0) s c s' r HC H).
Qed.

Lemma canon_run : forall base ops s s', canon base s -> run s ops = Ok s' -> canon base s'.
Proof.
  induction ops as [|o r IH]; intros s s' HC H; cbn in H.
  - inversion H; subst. exact HC.
  - destruct (step_op s o) as [s1|] eqn:E; cbn in H; [|discriminate].
    eapply IH; [|exact H]. destruct o as [i par dup gs|to|c sc cr]; cbn in E.
    + eapply canon_connect; eassumption.
    + destruct (c_setState s to) as [[s2 ok]|] eqn:E2; cbn in E; [|discriminate]. inversion E; subst.
      eapply canon_setState; eassumption.
    + destruct (c_compare sc cr s c) as [[s2 rr]|] eqn:E2; cbn in E; [|discriminate]. inversion E; subst.
      eapply canon_compare; eassumption.
Qed.

(** C01 key invariant: in EVERY reachable state (any tree, any payloads, any history of connects, setStates and
    comparisons with any scorer, successful or failing at any position) the protecting state is, as a multiset,
    the bootstrap state plus exactly the effects of the currently applied blocks: nothing of an abandoned or
    rolled-back block is left. *)
Lemma applied_canonical : forall base s, reachable base s ->
    Permutation (pst _ _ s) (active_items (blocks _ _ s) ++ base) /\ NoDup (ids (blocks _ _ s)).
Proof.
  intros base s (r & h & ops & H). eapply canon_run; [|exact H].
  split; cbn; [reflexivity|]. constructor; [intros []|constructor].
Qed.

Lemma count_ref_perm : forall x p q, Permutation p q -> count_ref x p = count_ref x q.
Proof.
  intros x p q H. unfold count_ref.
  induction H as [|y l l' H IH|y z l|l l' l'' H1 IH1 H2 IH2]; cbn.
  - reflexivity.
  - destruct y as [y|e c b]; cbn; [destruct (N.eqb x y); cbn|]; congruence.
  - destruct y as [y|e c b], z as [z|e' c' b']; cbn; try reflexivity;
      try (destruct (N.eqb x y)); try (destruct (N.eqb x z)); reflexivity.
  - rewrite IH1. exact IH2.
Qed.

(** two histories (on possibly different trees) whose applied blocks carry the same payloads end with the same
    protecting state: same reference count for every SP block, same endorsement multiset *)
Lemma history_independence_applied : forall base s1 s2,
    reachable base s1 -> reachable base s2 ->
    Permutation (active_items (blocks _ _ s1)) (active_items (blocks _ _ s2)) ->
    Permutation (pst _ _ s1) (pst _ _ s2) /\ (forall x, count_ref x (pst _ _ s1) = count_ref x (pst _ _ s2)).
Proof.
  intros base s1 s2 R1 R2 HA.
  assert (HP : Permutation (pst _ _ s1) (pst _ _ s2)).
  { destruct (applied_canonical _ _ R1) as [P1 _]. destruct (applied_canonical _ _ R2) as [P2 _].
    eapply perm_trans; [exact P1|]. eapply perm_trans; [|symmetry; exact P2]. apply Permutation_app_tail. exact HA. }
  split; [exact HP|]. intros x. apply count_ref_perm. exact HP.
Qed.

(** ** C02 at the level of setState *)
Lemma find_upd_same : forall (l : list cblk) i f b,
    (forall x, b_id _ (f x) = b_id _ x) -> find ccmd l i = Some b -> find ccmd (upd ccmd l i f) i = Some (f b).
Proof.
  induction l as [|h r IH]; intros i f b Hf H; cbn in *; [discriminate|].
  destruct (N.eqb (b_id ccmd h) i) eqn:E.
  - inversion H; subst. rewrite Hf, E. reflexivity.
  - rewrite E. apply IH; assumption.
Qed.

Definition tipInv (t : N) (s : cst) : Prop := tip _ _ s = t.
Lemma tip_apply : forall t s i s' ok, tipInv t s -> c_applyBlock s i = Ok (s', ok) -> tipInv t s'.
Proof.
  intros t s i s' ok HT H. destruct ok.
  - unfold c_applyBlock, applyBlock in H.
    destruct (find ccmd (blocks pstate ccmd s) i) as [b|]; [|discriminate].
    destruct (N.eqb i (root pstate ccmd s)); [discriminate|].
    destruct (find ccmd (blocks pstate ccmd s) (b_par ccmd b)) as [pb|]; [|discriminate].
    destruct (negb (b_act ccmd pb)); [discriminate|].
    destruct (b_act ccmd b); [discriminate|].
    destruct (child_active ccmd (blocks pstate ccmd s) i); [discriminate|].
    destruct (b_fc ccmd b); [discriminate|].
    destruct (is_failed ccmd b); [discriminate|].
    destruct (N.ltb (b_lvl ccmd b) L_CONNECTED); [discriminate|].
    destruct (gsexec pstate ccmd cexec cunexec [] (b_gs ccmd b) (pst pstate ccmd s)) as [p' ok].
    destruct ok; cbn [negb] in H.
    + destruct (N.ltb (b_lvl ccmd b) _ && N.ltb (b_lvl ccmd pb) _); [discriminate|]. inversion H; subst. exact HT.
    + destruct (invalidate_pop pstate ccmd _ i); cbn in H; [|discriminate]. inversion H.
  - apply applyBlock_atomic in H; [|exact cinv_law]. destruct H as (_ & _ & Ht & _). unfold tipInv. congruence.
Qed.
Lemma tip_unapply : forall t s i s', tipInv t s -> c_unapplyBlock s i = Ok s' -> tipInv t s'.
Proof.
  intros t s i s' HT H. unfold c_unapplyBlock, unapplyBlock in H.
  destruct (find ccmd (blocks pstate ccmd s) i) as [b|]; [|discriminate].
  destruct (N.eqb i (root pstate ccmd s)); [discriminate|].
  destruct (negb (b_act ccmd b)); [discriminate|].
  destruct (find ccmd (blocks pstate ccmd s) (b_par ccmd b)) as [pb|]; [|discriminate].
  destruct (negb (b_act ccmd pb)); [discriminate|].
  destruct (child_active ccmd (blocks pstate ccmd s) i); [discriminate|].
  destruct (N.eqb (napp pstate ccmd s) 0); [discriminate|].
  inversion H; subst. exact HT.
Qed.

(** setState: the outcomes as far as they are proved for all trees (see Properties_C02.v for the gap) *)
Lemma setState_outcome : forall base s to s' ok,
    canon base s -> c_setState s to = Ok (s', ok) ->
    (Permutation (pst _ _ s') (active_items (blocks _ _ s') ++ base)) /\
    (ok = true -> tip _ _ s' = to /\ napp _ _ s' = chain_count _ _ s' to /\
                  exists b, find ccmd (blocks _ _ s') to = Some b /\ valid_upto _ b L_FULL = true) /\
    (ok = false -> tip _ _ s' = tip _ _ s /\ napp _ _ s' = chain_count _ _ s' (tip _ _ s') /\
                   exists b, find ccmd (blocks _ _ s') to = Some b /\ is_failed _ b = true).
Proof.
  intros base s to s' ok HC H. split; [exact (proj1 (canon_setState _ _ _ _ _ HC H))|].
  unfold c_setState, setState in H.
  destruct (find ccmd (blocks pstate ccmd s) (tip pstate ccmd s)) as [bt|]; [|discriminate].
  destruct (find ccmd (blocks pstate ccmd s) to) as [b0|]; [|discriminate].
  destruct (negb _); [discriminate|].
  match type of H with bind ?e _ = _ => destruct e as [[s1 ok1]|] eqn:E end; cbn [bind] in H; [|discriminate].
  assert (HT : tip _ _ s1 = tip _ _ s).
  { destruct (N.eqb (tip pstate ccmd s) to); [inversion E; reflexivity|].
    exact (Inv_sm_setState pstate ccmd cexec cunexec (tipInv (tip _ _ s)) (tip_apply _) (tip_unapply _) s _ _ s1 ok1 eq_refl E). }
  destruct (find ccmd (blocks pstate ccmd s1) to) as [bto|] eqn:Fto; [|discriminate].
  destruct ok1.
  - destruct (valid_upto ccmd bto L_FULL) eqn:V; inversion H; subst. split; [|discriminate].
    intros _. cbn. split; [reflexivity|]. split; [reflexivity|]. exists bto. split; assumption.
  - destruct (negb (is_failed ccmd bto)) eqn:F; [discriminate|]. apply negb_false_iff in F.
    destruct (negb (N.eqb (napp pstate ccmd s1) (chain_count pstate ccmd s1 (tip pstate ccmd s1)))) eqn:C; inversion H; subst.
    split; [discriminate|]. intros _. split; [exact HT|]. split.
    + apply negb_false_iff in C. apply N.eqb_eq in C. exact C.
    + exists bto. split; assumption.
Qed.

(** ** C20: the level logic of applyBlock *)
Lemma applyBlock_level : forall s i s' b pb,
    c_applyBlock s i = Ok (s', true) ->
    find ccmd (blocks _ _ s) i = Some b -> find ccmd (blocks _ _ s) (b_par _ b) = Some pb ->
    let full := valid_upto _ pb L_FULL && Z.eqb (b_h _ b) (root_h _ _ s + Z.of_N (napp _ _ s)) in
    exists b', find ccmd (blocks _ _ s') i = Some b' /\ b_act _ b' = true /\
               b_lvl _ b' = (let up := if full then L_FULL else L_MAYBE in if N.ltb (b_lvl _ b) up then up else b_lvl _ b).
Proof.
  intros s i s' b pb H Fi Fp full. unfold c_applyBlock, applyBlock in H. rewrite Fi in H.
  destruct (N.eqb i (root pstate ccmd s)); [discriminate|]. rewrite Fp in H.
  destruct (negb (b_act ccmd pb)); [discriminate|].
  destruct (b_act ccmd b); [discriminate|].
  destruct (child_active ccmd (blocks pstate ccmd s) i); [discriminate|].
  destruct (b_fc ccmd b); [discriminate|].
  destruct (is_failed ccmd b); [discriminate|].
  destruct (N.ltb (b_lvl ccmd b) L_CONNECTED); [discriminate|].
  destruct (gsexec pstate ccmd cexec cunexec [] (b_gs ccmd b) (pst pstate ccmd s)) as [p' ok].
  destruct ok; cbn [negb] in H.
  - fold full in H. destruct (N.ltb (b_lvl ccmd b) _ && N.ltb (b_lvl ccmd pb) _); [discriminate|].
    inversion H; subst; clear H. cbn [blocks].
    eexists. split; [apply find_upd_same; [reflexivity|exact Fi]|]. split; reflexivity.
  - destruct (invalidate_pop pstate ccmd _ i); cbn in H; [|discriminate]. inversion H.
Qed.

(** a block applied while another chain is applied (or on a parent that is not fully valid) is never reported as
    fully valid by that application *)
Lemma maybe_level_never_reported_full : forall s i s' b pb b',
    c_applyBlock s i = Ok (s', true) ->
    find ccmd (blocks _ _ s) i = Some b -> find ccmd (blocks _ _ s) (b_par _ b) = Some pb ->
    find ccmd (blocks _ _ s') i = Some b' ->
    b_lvl _ b <> L_FULL ->
    (valid_upto _ pb L_FULL = false \/ b_h _ b <> (root_h _ _ s + Z.of_N (napp _ _ s))%Z) ->
    b_lvl _ b' <> L_FULL.
Proof.
  intros s i s' b pb b' H Fi Fp Fi' Hl Hc.
  destruct (applyBlock_level _ _ _ _ _ H Fi Fp) as (b'' & F'' & _ & L). rewrite Fi' in F''. inversion F''; subst b''.
  assert (Hf : valid_upto ccmd pb L_FULL && Z.eqb (b_h ccmd b) (root_h pstate ccmd s + Z.of_N (napp pstate ccmd s)) = false).
  { destruct Hc as [Hc|Hc]; [rewrite Hc; reflexivity|]. apply Z.eqb_neq in Hc. rewrite Hc. apply andb_false_r. }
  cbv zeta in L. rewrite Hf in L. rewrite L.
  destruct (N.ltb (b_lvl ccmd b) L_MAYBE); [discriminate|exact Hl].
Qed.

(** conversely the fully-valid level is only ever raised on top of a fully valid parent when the applied block
    count says that nothing but root..parent is applied *)
Lemma full_level_guard : forall s i s' b pb b',
    c_applyBlock s i = Ok (s', true) ->
    find ccmd (blocks _ _ s) i = Some b -> find ccmd (blocks _ _ s) (b_par _ b) = Some pb ->
    find ccmd (blocks _ _ s') i = Some b' ->
    b_lvl _ b <> L_FULL -> b_lvl _ b' = L_FULL ->
    valid_upto _ pb L_FULL = true /\ b_h _ b = (root_h _ _ s + Z.of_N (napp _ _ s))%Z.
Proof.
  intros s i s' b pb b' H Fi Fp Fi' Hl Hl'.
  destruct (valid_upto ccmd pb L_FULL) eqn:V.
  - split; [reflexivity|]. destruct (Z.eq_dec (b_h ccmd b) (root_h pstate ccmd s + Z.of_N (napp pstate ccmd s))) as [e|n]; [exact e|].
    exfalso. eapply (maybe_level_never_reported_full s i s' b pb b'); try eassumption. right. exact n.
  - exfalso. eapply (maybe_level_never_reported_full s i s' b pb b'); try eassumption. left. exact V.
Qed.

(** unapply order: a block is only ever unapplied while it is applied, its parent is applied and none of its
    children is (stack discipline per branch); otherwise the model aborts like the asserts of the code *)
Lemma unapply_order : forall s i s',
    c_unapplyBlock s i = Ok s' ->
    exists b pb, find ccmd (blocks _ _ s) i = Some b /\ b_act _ b = true /\
                 find ccmd (blocks _ _ s) (b_par _ b) = Some pb /\ b_act _ pb = true /\
                 child_active _ (blocks _ _ s) i = false /\ i <> root _ _ s.
Proof.
  intros s i s' H. unfold c_unapplyBlock, unapplyBlock in H.
  destruct (find ccmd (blocks pstate ccmd s) i) as [b|] eqn:Fi; [|discriminate].
  destruct (N.eqb i (root pstate ccmd s)) eqn:R; [discriminate|].
  destruct (negb (b_act ccmd b)) eqn:Ha; [discriminate|]. apply negb_false_iff in Ha.
  destruct (find ccmd (blocks pstate ccmd s) (b_par ccmd b)) as [pb|] eqn:Fp; [|discriminate].
  destruct (negb (b_act ccmd pb)) eqn:Hp; [discriminate|]. apply negb_false_iff in Hp.
  destruct (child_active ccmd (blocks pstate ccmd s) i) eqn:C; [discriminate|].
  exists b, pb. apply N.eqb_neq in R. repeat split; try assumption; reflexivity.
Qed.

(** ** closed statements about the concrete machine (no hypothesis left) *)
Lemma c_group_exec_atomic : forall g p p',
    group_execute pstate ccmd cexec cunexec g p = (p', false) -> p' = p.
Proof. exact (group_exec_atomic pstate ccmd cexec cunexec cinv_law). Qed.

Lemma c_group_unexec_exec : forall g p p',
    group_execute pstate ccmd cexec cunexec g p = (p', true) -> group_unexecute pstate ccmd cunexec g p' = p.
Proof. exact (group_unexec_exec pstate ccmd cexec cunexec cinv_law). Qed.

Lemma c_applyBlock_atomic : forall s i s',
    c_applyBlock s i = Ok (s', false) ->
    pst _ _ s' = pst _ _ s /\ napp _ _ s' = napp _ _ s /\ tip _ _ s' = tip _ _ s /\ root _ _ s' = root _ _ s /\
    map (strip ccmd) (blocks _ _ s') = map (strip ccmd) (blocks _ _ s).
Proof. exact (applyBlock_atomic pstate ccmd cexec cunexec cinv_law). Qed.

(** applying a block and unapplying it again restores the protecting state EXACTLY (not only as a multiset) *)
Lemma c_unapply_apply : forall s i s1 s2,
    c_applyBlock s i = Ok (s1, true) -> c_unapplyBlock s1 i = Ok s2 ->
    pst _ _ s2 = pst _ _ s /\ napp _ _ s2 = napp _ _ s /\ tip _ _ s2 = tip _ _ s.
Proof.
  intros s i s1 s2 H1 H2. unfold c_applyBlock, applyBlock in H1.
  destruct (find ccmd (blocks pstate ccmd s) i) as [b|] eqn:Fi; [|discriminate].
  destruct (N.eqb i (root pstate ccmd s)); [discriminate|].
  destruct (find ccmd (blocks pstate ccmd s) (b_par ccmd b)) as [pb|]; [|discriminate].
  destruct (negb (b_act ccmd pb)); [discriminate|].
  destruct (b_act ccmd b); [discriminate|].
  destruct (child_active ccmd (blocks pstate ccmd s) i); [discriminate|].
  destruct (b_fc ccmd b); [discriminate|].
  destruct (is_failed ccmd b); [discriminate|].
  destruct (N.ltb (b_lvl ccmd b) L_CONNECTED); [discriminate|].
  destruct (gsexec pstate ccmd cexec cunexec [] (b_gs ccmd b) (pst pstate ccmd s)) as [p' ok] eqn:E.
  destruct ok; cbn [negb] in H1.
  - destruct (N.ltb (b_lvl ccmd b) _ && N.ltb (b_lvl ccmd pb) _); [discriminate|].
    inversion H1; subst; clear H1. unfold c_unapplyBlock, unapplyBlock in H2. cbn [blocks root napp pst tip] in H2.
    erewrite find_upd_same in H2; [|reflexivity|exact Fi].
    destruct (N.eqb i (root pstate ccmd s)); [discriminate|].
    cbn [b_act set_act raise_lvl negb b_par] in H2.
    destruct (find ccmd _ (b_par ccmd b)) as [pb2|]; [|discriminate].
    destruct (negb (b_act ccmd pb2)); [discriminate|].
    destruct (child_active ccmd _ i); [discriminate|].
    destruct (N.eqb (N.succ (napp pstate ccmd s)) 0); [discriminate|].
    inversion H2; subst; clear H2. cbn. rewrite N.pred_succ.
    apply (block_groups_inverse pstate ccmd cexec cunexec cinv_law) in E. rewrite E. auto.
  - destruct (invalidate_pop pstate ccmd _ i); cbn in H1; [|discriminate]. inversion H1.
Qed.

(** * non-vacuity: concrete histories *)
(* ids: ALT a_n = 3n, SP blocks v_n = 3n+1 *)
Definition ex_base : pstate := [IRef 1].
Definition ex_ops : list op :=
  [ OConnect 3 0 false [[AddRef 4 1]; [AddRef 7 4; AddEnd 3 3 7]];        (* a1 on a0 *)
    OConnect 6 3 false [[AddRef 10 7]];                                     (* a2 on a1 *)
    OConnect 9 0 false [[AddRef 4 1]; [AddRef 13 4]];                       (* a3 on a0: fork 1 *)
    OConnect 12 9 false [[AddRef 16 13]; [AddRef 19 16; Poison]];           (* a4 on a3: Poison at (block 2, group 2, cmd 2) *)
    OConnect 15 3 false [[AddRef 22 7]];                                    (* a5 on a1: fork 2 *)
    OSetState 6; OSetState 9; OSetState 12; OSetState 15; OSetState 6; OSetState 9;
    OCompare (Some 15%N) (fun _ _ => (-1)%Z) (fun _ _ => true); OCompare (Some 6%N) (fun _ _ => 1%Z) (fun _ _ => true);
    OSetState 6 ].
Definition ex_final : res (N * N * pstate * list (N * N * bool * bool)) :=
  match run (c_init 0 0%Z ex_base) ex_ops with
  | Ok s => Ok (tip _ _ s, napp _ _ s, pst _ _ s, map (fun b => (b_id _ b, b_lvl _ b, b_fp _ b, b_act _ b)) (blocks _ _ s))
  | Abort c => Abort c
  end.
(** a history with two abandoned forks, a failing switch (Poison in the 2nd group of the 2nd block of the branch),
    comparisons with either verdict and a back-and-forth reorg ends, without Abort, on a1-a2 with exactly that
    chain's effects in P; the poisoned block is FAILED_POP, the block below it fully valid *)
Example ex_history :
  ex_final = Ok (6%N, 3%N, [IRef 10; IEnd 3 3 7; IRef 7; IRef 4; IRef 1]%N,
                 [(0, 4, false, true); (3, 4, false, true); (6, 4, false, true); (9, 4, false, false);
                  (12, 2, true, false); (15, 4, false, false)]%N).
Proof. vm_compute. reflexivity. Qed.
Example ex_reachable : exists s, reachable ex_base s /\ tip _ _ s = 6%N.
Proof.
  destruct (run (c_init 0 0%Z ex_base) ex_ops) as [s|] eqn:E.
  - exists s. split; [exists 0%N, 0%Z, ex_ops; exact E|].
    revert E. vm_compute. intro E. inversion E. reflexivity.
  - revert E. vm_compute. discriminate.
Qed.
(** the failing setState to the poisoned branch is atomic on this instance *)
Example ex_poison_atomic :
  match run (c_init 0 0%Z ex_base) (firstn 7 ex_ops) with
  | Ok s => match c_setState s 12 with
            | Ok (s', ok) => ok = false /\ pst _ _ s' = pst _ _ s /\ tip _ _ s' = tip _ _ s
            | Abort _ => False
            end
  | Abort _ => False
  end.
Proof. vm_compute. repeat split. Qed.

Lemma setState_true_outcome : forall base s to s',
    canon base s -> c_setState s to = Ok (s', true) ->
    tip _ _ s' = to /\ napp _ _ s' = chain_count _ _ s' to /\
    exists b, find ccmd (blocks _ _ s') to = Some b /\ valid_upto _ b L_FULL = true.
Proof. intros base s to s' HC H. exact (proj1 (proj2 (setState_outcome base s to s' true HC H)) eq_refl). Qed.
