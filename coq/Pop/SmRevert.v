(** C20 — effects are applied in body order on top of the state left by the parent and reverted in exactly the reverse
    order (command by command, across the command groups of a block), at full strength: equalities of protecting
    states, for every state and block. Only definitions of Pop/SmDefs.v are used ([gexec], [undo]). *)
From Coq Require Import List ZArith NArith Bool Lia.
Import ListNotations.
From VB Require Import Pop.SmDefs Pop.SmProofs Pop.SmWf Pop.SmCoh Pop.SmFull.
Local Open Scope Z_scope.

Notation gex := (gexec pstate ccmd cexec cunexec).
Notation und := (undo pstate ccmd cunexec).

Lemma gexec_ok_app : forall todo d p p', gex d todo p = (p', true) ->
    forall d' rest, gex d' (todo ++ rest) p = gex (rev todo ++ d') rest p'.
Proof.
  induction todo as [|c r IH]; intros d p p' H d' rest; cbn in *.
  - inversion H; subst. reflexivity.
  - destruct (cexec c p) as [p1|]; [|inversion H].
    rewrite (IH _ _ _ H (c :: d') rest). rewrite <- app_assoc. reflexivity.
Qed.

Lemma gsexec_ok_flat : forall gs done p p', gsexec pstate ccmd cexec cunexec done gs p = (p', true) ->
    forall d, gex d (concat gs) p = (p', true).
Proof.
  induction gs as [|g r IH]; intros done p p' H d; cbn in *.
  - inversion H; subst. reflexivity.
  - unfold group_execute in H. destruct (gex [] g p) as [p1 ok] eqn:E. destruct ok; [|inversion H].
    rewrite (gexec_ok_app _ _ _ _ E d (concat r)). eapply IH. exact H.
Qed.

Lemma undo_app : forall a b p, und (a ++ b) p = und b (und a p).
Proof. intros. unfold undo. apply fold_left_app. Qed.

Lemma gsundo_flat : forall l p, gsundo pstate ccmd cunexec l p = und (concat (map (@rev ccmd) l)) p.
Proof.
  induction l as [|g r IH]; intros p; [reflexivity|].
  cbn [map concat]. rewrite undo_app, <- IH. reflexivity.
Qed.

Lemma concat_map_rev_rev : forall gs : list (list ccmd), concat (map (@rev ccmd) (rev gs)) = rev (concat gs).
Proof.
  induction gs as [|g r IH]; cbn; [reflexivity|].
  rewrite map_app, concat_app, IH, rev_app_distr. cbn. rewrite app_nil_r. reflexivity.
Qed.

(** a successful applyBlock executes the commands of the block, in body order, on the state it found (which - by the
    assert "follows an applied block" and C20_unapply_order - is the state left by the parent and the blocks applied next
    to it), and leaves exactly that state *)
Theorem apply_executes_in_order : forall s i s' b,
    c_applyBlock s i = Ok (s', true) -> bfind (blocks _ _ s) i = Some b ->
    gex [] (concat (b_gs _ b)) (pst _ _ s) = (pst _ _ s', true).
Proof.
  intros s i s' b H Fi. unfold c_applyBlock, applyBlock in H. rewrite Fi in H.
  destruct (N.eqb i (root pstate ccmd s)); [discriminate|].
  destruct (bfind (blocks pstate ccmd s) (b_par ccmd b)) as [pb|]; [|discriminate].
  destruct (negb (b_act ccmd pb)); [discriminate|].
  destruct (b_act ccmd b); [discriminate|].
  destruct (child_active ccmd (blocks pstate ccmd s) i); [discriminate|].
  destruct (b_fc ccmd b); [discriminate|].
  destruct (is_failed ccmd b); [discriminate|].
  destruct (N.ltb (b_lvl ccmd b) L_CONNECTED); [discriminate|].
  destruct (gsexec pstate ccmd cexec cunexec [] (b_gs ccmd b) (pst pstate ccmd s)) as [p' ok] eqn:E.
  destruct ok; cbn [negb] in H.
  - destruct (N.ltb (b_lvl ccmd b) _ && N.ltb (b_lvl ccmd pb) _); [discriminate|].
    inversion H; subst; clear H. cbn [pst]. eapply gsexec_ok_flat. exact E.
  - destruct (invalidate_pop pstate ccmd _ i); cbn in H; [|discriminate]. inversion H.
Qed.

(** unapplyBlock reverts the commands of the block one by one in exactly the reverse order *)
Theorem unapply_reverts_in_reverse : forall s i s' b,
    c_unapplyBlock s i = Ok s' -> bfind (blocks _ _ s) i = Some b ->
    pst _ _ s' = und (rev (concat (b_gs _ b))) (pst _ _ s).
Proof.
  intros s i s' b H Fi. unfold c_unapplyBlock, unapplyBlock in H. rewrite Fi in H.
  destruct (N.eqb i (root pstate ccmd s)); [discriminate|].
  destruct (negb (b_act ccmd b)); [discriminate|].
  destruct (bfind (blocks pstate ccmd s) (b_par ccmd b)) as [pb|]; [|discriminate].
  destruct (negb (b_act ccmd pb)); [discriminate|].
  destruct (child_active ccmd (blocks pstate ccmd s) i); [discriminate|].
  destruct (N.eqb (napp pstate ccmd s) 0); [discriminate|].
  inversion H; subst; clear H. cbn [pst]. rewrite gsundo_flat, concat_map_rev_rev. reflexivity.
Qed.

(** the not-yet-validated part goes first: the unapplyWhile(not fully valid) of comparePopScore, which runs before the
    losing chain is unapplied, stops only at the fork block or at a block that IS fully valid *)
Theorem unvalidated_unapplied_first : forall fuel s cur to s' w,
    unapplyWhile pstate ccmd cunexec fuel s cur to (not_full ccmd) = Ok (s', w) ->
    w = to \/ exists bw, bfind (blocks _ _ s') w = Some bw /\ valid_upto _ bw L_FULL = true.
Proof.
  intros fuel s cur to s' w H. destruct (uw_stop _ _ _ _ _ _ _ H) as [E|(bw & F & P)]; [left; exact E|].
  right. exists bw. split; [exact F|]. unfold not_full in P. apply negb_false_iff in P. exact P.
Qed.

(** non-vacuity: a block with two command groups whose second group needs the first *)
Example revert_example :
  let gs := [[AddRef 4 1; AddRef 7 4]; [AddEnd 10 4 2; Need 7]]%N in
  let base := [IRef 1; IRef 2]%N in
  let s0 := c_init 0 0 base in
  match c_connect s0 3 0 false gs with
  | Ok s1 => match c_applyBlock s1 3 with
             | Ok (s2, true) =>
               pst _ _ s2 = [IEnd 10 4 2; IRef 7; IRef 4; IRef 1; IRef 2]%N /\
               match c_unapplyBlock s2 3 with Ok s3 => pst _ _ s3 = base | Abort _ => False end
             | _ => False
             end
  | Abort _ => False
  end.
Proof. vm_compute. split; reflexivity. Qed.
