(** C01 by composition, part 1: POP payouts are a function of the active chain.

    The POP state machine model (Pop/Sm*.v) keeps the protecting state P as a multiset of items
    ([IRef x]: one reference to SP block x, [IEnd e c b]: an endorsement of ALT block e, contained in ALT block c,
    with block of proof b).  The payout calculator model (Rewards/CalcDefs.v) consumes, for the blocks
    tip, parent(tip), ..., root of the active chain, the height of the block and its endorsements
    ([getEndorsedBy()]) as (payout info, height of the block of proof on the best SP chain if it is there).

    This file defines the projection of a POP state that the calculator reads ([payout_input]) with two explicit
    adapters for what the POP model does not contain, and proves that it is - per block, up to the order of the
    endorsements - the same in any two reachable states with the same active chain, hence (order independence of the
    calculator, C14) that the payouts are equal.

    Adapters (Section variables, visible in every statement):
      [pinfo e c b]  payout info of the endorsement (e, c, b): a function of the endorsement's identity.  The POP
                     model identifies an endorsement with its (endorsed, containing, block of proof) triple.
      [spv refs b]   [Some h] when SP block b lies on the best SP chain at height h, [None] otherwise, where
                     [refs x] is the reference count of SP block x (x is known iff refs x > 0).  The premise
                     [sp_determined spv] says that the best SP chain is determined by the known SP blocks: this is
                     the carve-out of the property text (no exact ties between SP forks, fewer than three endorsed SP
                     forks); without it first-seen tie-breaking makes the SP best chain history dependent. *)
From Coq Require Import List ZArith NArith Bool Lia Permutation.
Import ListNotations.
From VB Require Import Pop.SmDefs Pop.SmProofs Pop.SmWf Pop.SmCmp.
From VB Require Rewards.BigDecDefs Rewards.CalcDefs Rewards.SpecDefs Rewards.BoundsDefs Rewards.ArithProofs
     Rewards.PayoutProofs Rewards.FinalProofs.
Local Open Scope Z_scope.

Notation RBlock := VB.Rewards.CalcDefs.Block.
Notation REnd := VB.Rewards.CalcDefs.Endorsement.
Notation r_height := VB.Rewards.CalcDefs.b_height.
Notation r_ends := VB.Rewards.CalcDefs.b_ends.
Notation get_pop_payout256 := (VB.Rewards.CalcDefs.get_pop_payout VB.Rewards.BigDecDefs.wrap256).
Notation params_okb := VB.Rewards.BoundsDefs.params_okb.
Notation block_okb := VB.Rewards.BoundsDefs.block_okb.
Notation chain_okb := VB.Rewards.BoundsDefs.chain_okb.

(** * the active chain with identities: (id, height, payloads) of tip, parent(tip), ..., root *)
Definition active_chain (s : cst) : list (N * Z * list (list ccmd)) :=
  map (fun j => (j, hgt (cores s) j, gs_of s j)) (chain s).

Lemma active_chain_gs : forall s1 s2, active_chain s1 = active_chain s2 -> chain_gs s1 = chain_gs s2.
Proof.
  intros s1 s2 H. unfold chain_gs.
  assert (E : forall s, map (gs_of s) (chain s) = map snd (active_chain s)).
  { intros s. unfold active_chain. rewrite map_map. reflexivity. }
  rewrite !E, H. reflexivity.
Qed.

Lemma active_chain_ids : forall s1 s2, active_chain s1 = active_chain s2 -> chain s1 = chain s2.
Proof.
  intros s1 s2 H.
  assert (E : forall s, chain s = map (fun t : N * Z * list (list ccmd) => fst (fst t)) (active_chain s)).
  { intros s. unfold active_chain. rewrite map_map. cbn. symmetry. apply map_id. }
  rewrite (E s1), (E s2), H. reflexivity.
Qed.

(** * what the calculator reads off P *)
(** the endorsements of ALT block j ([getEndorsedBy()] of j) *)
Definition ends_of (p : pstate) (j : N) : list (N * N * N) :=
  flat_map (fun it => match it with IEnd e c b => if N.eqb e j then [(e, c, b)] else [] | IRef _ => [] end) p.
(** reference counts *)
Definition refs (p : pstate) : N -> nat := fun x => count_ref x p.

Definition sp_determined (spv : (N -> nat) -> N -> option Z) : Prop :=
  forall f g : N -> nat, (forall x, f x = g x) -> forall b, spv f b = spv g b.

Definition block_equiv (b b' : RBlock) : Prop :=
  r_height b = r_height b' /\ Permutation (r_ends b) (r_ends b').

Section Payout.
  Variable pinfo : N -> N -> N -> Z.
  Variable spv : (N -> nat) -> N -> option Z.

  Definition to_endorsement (p : pstate) (t : N * N * N) : REnd :=
    let '(e, c, b) := t in
    {| VB.Rewards.CalcDefs.e_pid := pinfo e c b; VB.Rewards.CalcDefs.e_bop := spv (refs p) b |}.

  (** one block of the calculator's input: height and endorsements of block j at height h *)
  Definition payout_block (p : pstate) (jh : N * Z) : RBlock :=
    {| VB.Rewards.CalcDefs.b_height := snd jh;
       VB.Rewards.CalcDefs.b_ends := map (to_endorsement p) (ends_of p (fst jh)) |}.

  (** the calculator's input for the active chain of s: tip first *)
  Definition payout_input (s : cst) : list RBlock :=
    map (fun t => payout_block (pst _ _ s) (fst t)) (active_chain s).

  (** getPopPayout for the block k positions below the tip of the active chain (k = 0: the tip) *)
  Definition payouts (params : VB.Rewards.CalcDefs.Params) (s : cst) (k : nat) :=
    get_pop_payout256 params (skipn k (payout_input s)).

  Lemma ends_of_perm : forall p q j, Permutation p q -> Permutation (ends_of p j) (ends_of q j).
  Proof. intros p q j H. unfold ends_of. apply flat_map_perm. exact H. Qed.

  Lemma to_endorsement_ext : forall p q, sp_determined spv -> (forall x, refs p x = refs q x) ->
      forall t, to_endorsement p t = to_endorsement q t.
  Proof. intros p q SD H [[e c] b]. unfold to_endorsement. rewrite (SD _ _ H b). reflexivity. Qed.

  Lemma payout_block_equiv : forall p q jh, sp_determined spv -> Permutation p q ->
      block_equiv (payout_block p jh) (payout_block q jh).
  Proof.
    intros p q jh SD H. split; [reflexivity|]. cbn.
    rewrite (map_ext _ _ (to_endorsement_ext p q SD (fun x => count_ref_perm x _ _ H))).
    apply Permutation_map. apply ends_of_perm. exact H.
  Qed.

  (** the calculator's input is, block by block, the same multiset of endorsements at the same height *)
  Theorem payout_input_history_independent : forall base s1 s2,
      sp_determined spv ->
      reachable base s1 -> reachable base s2 -> active_chain s1 = active_chain s2 ->
      Forall2 block_equiv (payout_input s1) (payout_input s2).
  Proof.
    intros base s1 s2 SD R1 R2 HA.
    destruct (history_independence base s1 s2 R1 R2 (active_chain_gs _ _ HA)) as [HP _].
    unfold payout_input. rewrite HA. clear HA. generalize (active_chain s2).
    induction l as [|t r IH]; cbn; [constructor|]. constructor; [|exact IH].
    apply payout_block_equiv; assumption.
  Qed.
End Payout.

(** * the calculator does not distinguish equivalent inputs (composition with C14) *)
Lemma Forall2_nth_error : forall (A : Type) (R : A -> A -> Prop) l l' n, Forall2 R l l' ->
    match nth_error l n, nth_error l' n with
    | Some a, Some b => R a b
    | None, None => True
    | _, _ => False
    end.
Proof.
  intros A R l l' n H. revert n. induction H; intros [|n]; cbn; auto. apply IHForall2.
Qed.
Lemma Forall2_skipn : forall (A : Type) (R : A -> A -> Prop) l l' n, Forall2 R l l' -> Forall2 R (skipn n l) (skipn n l').
Proof. intros A R l l' n H. revert n. induction H; intros [|n]; cbn; auto. Qed.
Lemma Forall2_firstn : forall (A : Type) (R : A -> A -> Prop) l l' n, Forall2 R l l' -> Forall2 R (firstn n l) (firstn n l').
Proof. intros A R l l' n H. revert n. induction H; intros [|n]; cbn; auto. Qed.
Lemma Forall2_map_eq : forall (A B : Type) (R : A -> A -> Prop) (f : A -> B) l l',
    (forall a b, R a b -> f a = f b) -> Forall2 R l l' -> map f l = map f l'.
Proof. intros A B R f l l' Hf H. induction H; cbn; [reflexivity|]. rewrite (Hf _ _ H), IHForall2. reflexivity. Qed.

Lemma forallb_perm : forall (A : Type) (f : A -> bool) l l', Permutation l l' -> forallb f l = true -> forallb f l' = true.
Proof.
  intros A f l l' H E. rewrite forallb_forall in *. intros x Hx. apply E. eapply Permutation_in; [symmetry; exact H|exact Hx].
Qed.

Lemma block_okb_equiv : forall b b', block_equiv b b' -> block_okb b = true -> block_okb b' = true.
Proof.
  intros b b' [Hh Hp] H. unfold VB.Rewards.BoundsDefs.block_okb, VB.Rewards.BoundsDefs.ends_okb in *.
  rewrite <- Hh, <- (Permutation_length Hp).
  rewrite !andb_true_iff in *. destruct H as [[H1 H2] [H3 H4]]. repeat split; try assumption.
  eapply forallb_perm; eassumption.
Qed.
Lemma chain_okb_equiv : forall c c', Forall2 block_equiv c c' -> chain_okb c = true -> chain_okb c' = true.
Proof.
  intros c c' H. unfold VB.Rewards.BoundsDefs.chain_okb. induction H; cbn; [auto|].
  rewrite !andb_true_iff. intros [A B]. split; [eapply block_okb_equiv; eassumption|apply IHForall2; exact B].
Qed.
Lemma chain_okb_skipn : forall c n, chain_okb c = true -> chain_okb (skipn n c) = true.
Proof.
  unfold VB.Rewards.BoundsDefs.chain_okb. induction c as [|b r IH]; intros [|n] H; cbn in *; auto.
  apply andb_true_iff in H. apply IH. exact (proj2 H).
Qed.
Lemma chain_okb_nth : forall c n b, chain_okb c = true -> nth_error c n = Some b -> block_okb b = true.
Proof.
  unfold VB.Rewards.BoundsDefs.chain_okb. intros c n b H E. rewrite forallb_forall in H. apply H. eapply nth_error_In. exact E.
Qed.

Lemma spec_difficulty_equiv : forall p prevs prevs', Forall2 block_equiv prevs prevs' ->
    VB.Rewards.SpecDefs.spec_difficulty p prevs = VB.Rewards.SpecDefs.spec_difficulty p prevs'.
Proof.
  intros p prevs prevs' H. unfold VB.Rewards.SpecDefs.spec_difficulty. do 3 f_equal.
  apply (Forall2_map_eq _ _ block_equiv); [|apply Forall2_firstn; exact H].
  intros a b [_ Hp]. apply VB.Rewards.FinalProofs.spec_score_perm. exact Hp.
Qed.

Lemma calc_payouts_equiv : forall p e e' prevs prevs',
    params_okb p = true -> block_okb e = true -> chain_okb prevs = true ->
    block_equiv e e' -> Forall2 block_equiv prevs prevs' ->
    VB.Rewards.CalcDefs.calc_payouts VB.Rewards.BigDecDefs.wrap256 p e prevs =
    VB.Rewards.CalcDefs.calc_payouts VB.Rewards.BigDecDefs.wrap256 p e' prevs'.
Proof.
  intros p e e' prevs prevs' Hp He Hc Ee Ep.
  pose proof (block_okb_equiv _ _ Ee He) as He'. pose proof (chain_okb_equiv _ _ Ep Hc) as Hc'.
  destruct Ee as [Hh Hperm].
  rewrite (VB.Rewards.FinalProofs.payout_order_independent p e e' prevs Hp He He' Hc Hh Hperm).
  pose proof (VB.Rewards.ArithProofs.params_okb_ok p Hp) as Hpp.
  rewrite (VB.Rewards.PayoutProofs.calc_payouts_spec _ VB.Rewards.PayoutProofs.wrap256_small p Hpp e' prevs
             (VB.Rewards.PayoutProofs.block_okb_ok _ He') (VB.Rewards.PayoutProofs.chain_okb_ok _ Hc)).
  rewrite (VB.Rewards.PayoutProofs.calc_payouts_spec _ VB.Rewards.PayoutProofs.wrap256_small p Hpp e' prevs'
             (VB.Rewards.PayoutProofs.block_okb_ok _ He') (VB.Rewards.PayoutProofs.chain_okb_ok _ Hc')).
  unfold VB.Rewards.SpecDefs.spec_payout_map. rewrite (spec_difficulty_equiv p prevs prevs' Ep). reflexivity.
Qed.

(** getPopPayout on two chains that agree block by block up to the order of the endorsements *)
Theorem get_pop_payout_equiv : forall p c c',
    params_okb p = true -> chain_okb c = true -> Forall2 block_equiv c c' ->
    get_pop_payout256 p c = get_pop_payout256 p c'.
Proof.
  intros p c c' Hp Hc H. unfold VB.Rewards.CalcDefs.get_pop_payout.
  destruct H as [|tip tip' rest rest' Ht Hr]; [reflexivity|].
  pose proof (Forall2_cons _ _ Ht Hr) as Hall.
  destruct Ht as [Hth Htp]. rewrite <- Hth.
  destruct ((VB.Rewards.CalcDefs.p_delay p - 1 <? 0) || (r_height tip <? VB.Rewards.CalcDefs.p_delay p - 1)); [reflexivity|].
  pose proof (Forall2_nth_error _ _ _ _ (Z.to_nat (VB.Rewards.CalcDefs.p_delay p - 1)) Hall) as Hn.
  destruct (nth_error (tip :: rest) _) as [e|] eqn:E1; destruct (nth_error (tip' :: rest') _) as [e'|] eqn:E2;
    try contradiction; [|reflexivity].
  rewrite <- (proj1 Hn).
  destruct (_ <? _); [reflexivity|].
  apply calc_payouts_equiv; [exact Hp|eapply chain_okb_nth; eassumption|apply chain_okb_skipn; exact Hc|exact Hn|].
  apply Forall2_skipn. exact Hall.
Qed.

(** * C01, payouts *)
Theorem payouts_history_independent :
  forall (pinfo : N -> N -> N -> Z) (spv : (N -> nat) -> N -> option Z) params base s1 s2,
    sp_determined spv ->
    reachable base s1 -> reachable base s2 -> active_chain s1 = active_chain s2 ->
    params_okb params = true -> chain_okb (payout_input pinfo spv s1) = true ->
    Forall2 block_equiv (payout_input pinfo spv s1) (payout_input pinfo spv s2) /\
    forall k, payouts pinfo spv params s1 k = payouts pinfo spv params s2 k.
Proof.
  intros pinfo spv params base s1 s2 SD R1 R2 HA Hp Hc.
  pose proof (payout_input_history_independent pinfo spv base s1 s2 SD R1 R2 HA) as HE.
  split; [exact HE|]. intros k. unfold payouts.
  apply get_pop_payout_equiv; [exact Hp|apply chain_okb_skipn; exact Hc|apply Forall2_skipn; exact HE].
Qed.

(** the fresh instance: a history that only connects blocks and then activates one tip *)
Fixpoint only_connects (ops : list op) : Prop :=
  match ops with
  | [] => True
  | OConnect _ _ _ _ :: r => only_connects r
  | _ => False
  end.
Definition fresh_history (ops : list op) : Prop :=
  exists cs to, ops = cs ++ [OSetState to] /\ only_connects cs.

Corollary payouts_fresh_instance :
  forall (pinfo : N -> N -> N -> Z) (spv : (N -> nat) -> N -> option Z) params base s1 r h ops s2,
    sp_determined spv ->
    reachable base s1 ->
    fresh_history ops -> run (c_init r h base) ops = Ok s2 ->
    active_chain s1 = active_chain s2 ->
    params_okb params = true -> chain_okb (payout_input pinfo spv s1) = true ->
    forall k, payouts pinfo spv params s1 k = payouts pinfo spv params s2 k.
Proof.
  intros pinfo spv params base s1 r h ops s2 SD R1 _ R2 HA Hp Hc.
  apply (payouts_history_independent pinfo spv params base s1 s2 SD R1 (ex_intro _ r (ex_intro _ h (ex_intro _ ops R2))) HA Hp Hc).
Qed.
