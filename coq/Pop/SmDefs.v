(** POP state machine — executable model, AS CODED (no proofs in this file).

    pop_state_machine.hpp : applyBlock / unapplyBlock / unapplyWhile / unapply / apply / setState
    command_group.hpp     : CommandGroup::execute (rollback on failure) / unExecute
    fork_resolution.hpp   : PopAwareForkResolutionComparator::setState / comparePopScore
    alt_block_tree.cpp    : AltBlockTree::setState / comparePopScore / overrideTip / connectBlock
    base_block_tree.hpp   : invalidateSubtree(.., BLOCK_FAILED_POP, no fork resolution), doInvalidate

    The protecting tree appears only through an abstract state [P] and commands
    [exec : cmd -> P -> option P], [unexec : cmd -> P -> P].  Every VBK_ASSERT of
    the modelled code is an explicit [Abort] outcome (with the code of the assert).
    Finalization, the tip-candidate set and SP fork resolution are outside this model. *)
From Coq Require Import List ZArith NArith Bool.
Import ListNotations.
Local Open Scope Z_scope.

Inductive res (A : Type) : Type := Ok (a : A) | Abort (code : N).
Arguments Ok {A} a.
Arguments Abort {A} code.
Definition bind {A B} (r : res A) (f : A -> res B) : res B :=
  match r with Ok a => f a | Abort c => Abort c end.
Notation "x <- e ;; f" := (bind e (fun x => f)) (at level 61, e at next level, right associativity).

(** assert codes *)
Definition A_UNKNOWN : N := 1.       (* block index not found (never by construction of the callers) *)
Definition A_ROOT : N := 2.          (* cannot (un)apply the root block *)
Definition A_PREV_UNAPPLIED : N := 3. (* follows an unapplied block *)
Definition A_ALREADY : N := 4.       (* already applied / already unapplied *)
Definition A_DESC : N := 5.          (* a descendant is applied (VBK_ASSERT_MSG_DEBUG) *)
Definition A_FCHILD : N := 6.        (* attempted to apply a block that has an invalid ancestor *)
Definition A_UNCONNECTED : N := 7.
Definition A_RAISE : N := 8.         (* raiseValidity beyond the level of the ancestor *)
Definition A_COUNT : N := 9.         (* appliedBlockCount underflow / mismatch *)
Definition A_NOTCHAIN : N := 10.     (* [from, to) is not a chain *)
Definition A_FUEL : N := 11.         (* out of fuel: excluded in the theorems (fuel = number of blocks) *)
Definition A_UNAPPLY_END : N := 12.  (* unapply: firstUnprocessed != to *)
Definition A_CHAINFIRST : N := 13.   (* chain.first()->pprev != from *)
Definition A_NOFORK : N := 14.       (* fork block must exist *)
Definition A_ROLLBACK : N := 15.     (* state corruption: failed to rollback the state *)
Definition A_EXCL_FLAGS : N := 16.   (* BLOCK_CAN_BE_APPLIED and BLOCK_FAILED_POP are mutually exclusive *)
Definition A_NESTED : N := 17.       (* invalidateSubtree of an active-chain block during a state change *)
Definition A_TIP_NOT_FULL : N := 18. (* overrideTip: the active chain tip must be fully valid *)
Definition A_FAILED_VALID : N := 19. (* if setState failed, then `to` must be invalid *)
Definition A_NOT_APPLIED : N := 20.  (* the tree must have the best chain applied *)
Definition A_HEIGHTS : N := 21.      (* from.getHeight() < to.getHeight() *)

(** validity levels (block_status.hpp) *)
Definition L_TREE : N := 1.
Definition L_CONNECTED : N := 2.
Definition L_MAYBE : N := 3.
Definition L_FULL : N := 4.

Section Machine.
  Variable P : Type.
  Variable cmd : Type.
  Variable exec : cmd -> P -> option P.
  Variable unexec : cmd -> P -> P.

  (** ** CommandGroup *)
  Definition undo (done : list cmd) (p : P) : P := fold_left (fun q d => unexec d q) done p.

  (* [done]: executed commands, most recent first *)
  Fixpoint gexec (done todo : list cmd) (p : P) : P * bool :=
    match todo with
    | [] => (p, true)
    | c :: r => match exec c p with
                | Some p' => gexec (c :: done) r p'
                | None => (undo done p, false)
                end
    end.
  Definition group_execute (g : list cmd) (p : P) : P * bool := gexec [] g p.
  Definition group_unexecute (g : list cmd) (p : P) : P := undo (rev g) p.

  Definition gsundo (done : list (list cmd)) (p : P) : P :=
    fold_left (fun q g => group_unexecute g q) done p.

  (* the command groups of one block; [done]: executed groups, most recent first *)
  Fixpoint gsexec (done todo : list (list cmd)) (p : P) : P * bool :=
    match todo with
    | [] => (p, true)
    | g :: r => let '(p', ok) := group_execute g p in
                if ok then gsexec (g :: done) r p' else (gsundo done p', false)
    end.

  (** ** protected tree *)
  Record blk : Type := mkBlk {
    b_id : N; b_par : N; b_h : Z; b_lvl : N;
    b_fb : bool;   (* BLOCK_FAILED_BLOCK *)
    b_fp : bool;   (* BLOCK_FAILED_POP *)
    b_fc : bool;   (* BLOCK_FAILED_CHILD *)
    b_act : bool;  (* BLOCK_ACTIVE *)
    b_gs : list (list cmd) }.

  Record st : Type := mkSt {
    blocks : list blk;   (* connected blocks, parents before children; the root's parent is the root *)
    root : N;
    tip : N;
    napp : N;            (* appliedBlockCount *)
    pst : P }.

  Fixpoint find (l : list blk) (i : N) : option blk :=
    match l with
    | [] => None
    | b :: r => if N.eqb (b_id b) i then Some b else find r i
    end.
  Definition upd (l : list blk) (i : N) (f : blk -> blk) : list blk :=
    map (fun b => if N.eqb (b_id b) i then f b else b) l.

  Definition is_failed (b : blk) : bool := b_fb b || b_fp b || b_fc b.
  Definition valid_upto (b : blk) (l : N) : bool := negb (is_failed b) && N.leb l (b_lvl b).

  Definition set_fp (b : blk) := mkBlk (b_id b) (b_par b) (b_h b) (b_lvl b) (b_fb b) true (b_fc b) (b_act b) (b_gs b).
  Definition set_fc (b : blk) := mkBlk (b_id b) (b_par b) (b_h b) (b_lvl b) (b_fb b) (b_fp b) true (b_act b) (b_gs b).
  Definition set_act (v : bool) (b : blk) := mkBlk (b_id b) (b_par b) (b_h b) (b_lvl b) (b_fb b) (b_fp b) (b_fc b) v (b_gs b).
  Definition raise_lvl (l : N) (b : blk) :=
    mkBlk (b_id b) (b_par b) (b_h b) (if N.ltb (b_lvl b) l then l else b_lvl b) (b_fb b) (b_fp b) (b_fc b) (b_act b) (b_gs b).

  Definition with_blocks (s : st) (l : list blk) := mkSt l (root s) (tip s) (napp s) (pst s).
  Definition with_pst (s : st) (p : P) := mkSt (blocks s) (root s) (tip s) (napp s) p.

  Definition root_h (s : st) : Z := match find (blocks s) (root s) with Some b => b_h b | None => 0 end.
  Definition fuel_of (s : st) : nat := S (length (blocks s)).

  (* ancestor of i at height h (Chain / getAncestor) *)
  Fixpoint anc_at (l : list blk) (fuel : nat) (i : N) (h : Z) : option N :=
    match find l i with
    | None => None
    | Some b =>
      if Z.eqb (b_h b) h then Some i
      else if Z.ltb (b_h b) h then None
      else match fuel with O => None | S f => anc_at l f (b_par b) h end
    end.
  (* activeChain_.contains(x) *)
  Definition on_active_chain (s : st) (x : N) : bool :=
    match find (blocks s) x with
    | None => false
    | Some b => match anc_at (blocks s) (fuel_of s) (tip s) (b_h b) with Some a => N.eqb a x | None => false end
    end.

  (* getForkBlock / findFork: lowest common ancestor *)
  Fixpoint lca (l : list blk) (fuel : nat) (a b : N) : option N :=
    if N.eqb a b then Some a else
    match fuel with
    | O => None
    | S f =>
      match find l a, find l b with
      | Some ba, Some bb =>
        if Z.ltb (b_h ba) (b_h bb) then lca l f a (b_par bb)
        else if Z.ltb (b_h bb) (b_h ba) then lca l f (b_par ba) b
        else lca l f (b_par ba) (b_par bb)
      | _, _ => None
      end
    end.

  (* forEachNodePreorder below x: doInvalidate(BLOCK_FAILED_CHILD), descending only through blocks that were not
     failed before. [l] lists parents before children; [expand] = visited blocks whose children are visited too *)
  Fixpoint mark_desc (x : N) (expand : list N) (l : list blk) : list blk :=
    match l with
    | [] => []
    | b :: r =>
      if N.eqb (b_par b) x || existsb (N.eqb (b_par b)) expand
      then set_fc b :: mark_desc x (if is_failed b then expand else b_id b :: expand) r
      else b :: mark_desc x expand r
    end.

  (* ed_.invalidateSubtree(index, BLOCK_FAILED_POP, false) *)
  Definition invalidate_pop (s : st) (i : N) : res st :=
    match find (blocks s) i with
    | None => Abort A_UNKNOWN
    | Some b =>
      if b_fp b then Ok s
      else if is_failed b then
        (if N.eqb (b_lvl b) L_FULL then Abort A_EXCL_FLAGS else Ok (with_blocks s (upd (blocks s) i set_fp)))
      else if on_active_chain s i then Abort A_NESTED
      else if N.eqb (b_lvl b) L_FULL then Abort A_EXCL_FLAGS
      else Ok (with_blocks s (mark_desc i [] (upd (blocks s) i set_fp)))
    end.

  Definition child_active (l : list blk) (i : N) : bool :=
    existsb (fun c => N.eqb (b_par c) i && negb (N.eqb (b_id c) i) && b_act c) l.

  (** ** PopStateMachine::applyBlock *)
  Definition applyBlock (s : st) (i : N) : res (st * bool) :=
    match find (blocks s) i with
    | None => Abort A_UNKNOWN
    | Some b =>
      if N.eqb i (root s) then Abort A_ROOT else
      match find (blocks s) (b_par b) with
      | None => Abort A_UNKNOWN
      | Some pb =>
        if negb (b_act pb) then Abort A_PREV_UNAPPLIED else
        if b_act b then Abort A_ALREADY else
        if child_active (blocks s) i then Abort A_DESC else
        if b_fc b then Abort A_FCHILD else
        if is_failed b then Ok (s, false) else
        if N.ltb (b_lvl b) L_CONNECTED then Abort A_UNCONNECTED else
        let '(p', ok) := gsexec [] (b_gs b) (pst s) in
        if negb ok then
          s' <- invalidate_pop (with_pst s p') i ;; Ok (s', false)
        else
          let full := valid_upto pb L_FULL && Z.eqb (b_h b) (root_h s + Z.of_N (napp s)) in
          let upTo := if full then L_FULL else L_MAYBE in
          if N.ltb (b_lvl b) upTo && N.ltb (b_lvl pb) upTo then Abort A_RAISE else
          Ok (mkSt (upd (blocks s) i (fun x => set_act true (raise_lvl upTo x))) (root s) (tip s) (N.succ (napp s)) p', true)
      end
    end.

  (** ** PopStateMachine::unapplyBlock *)
  Definition unapplyBlock (s : st) (i : N) : res st :=
    match find (blocks s) i with
    | None => Abort A_UNKNOWN
    | Some b =>
      if N.eqb i (root s) then Abort A_ROOT else
      if negb (b_act b) then Abort A_ALREADY else
      match find (blocks s) (b_par b) with
      | None => Abort A_UNKNOWN
      | Some pb =>
        if negb (b_act pb) then Abort A_PREV_UNAPPLIED else
        if child_active (blocks s) i then Abort A_DESC else
        if N.eqb (napp s) 0 then Abort A_COUNT else
        Ok (mkSt (upd (blocks s) i (set_act false)) (root s) (tip s) (N.pred (napp s)) (gsundo (rev (b_gs b)) (pst s)))
      end
    end.

  (** ** unapplyWhile / unapply *)
  Fixpoint unapplyWhile (fuel : nat) (s : st) (cur to : N) (pred : blk -> bool) : res (st * N) :=
    if N.eqb cur to then Ok (s, to) else
    match fuel with
    | O => Abort A_FUEL
    | S f =>
      match find (blocks s) cur, find (blocks s) to with
      | Some bc, Some bt =>
        if Z.leb (b_h bc) (b_h bt) then Abort A_NOTCHAIN else
        if negb (pred bc) then Ok (s, cur) else
        s1 <- unapplyBlock s cur ;; unapplyWhile f s1 (b_par bc) to pred
      | _, _ => Abort A_UNKNOWN
      end
    end.
  Definition unapply (s : st) (from to : N) : res st :=
    r <- unapplyWhile (fuel_of s) s from to (fun _ => true) ;;
    if N.eqb (snd r) to then Ok (fst r) else Abort A_UNAPPLY_END.

  (** ** apply *)
  (* [i; parent i; ...], n elements *)
  Fixpoint path_up (l : list blk) (n : nat) (i : N) : option (list N) :=
    match n with
    | O => Some []
    | S m => match find l i with
             | None => None
             | Some b => option_map (cons i) (path_up l m (b_par b))
             end
    end.

  Fixpoint apply_path (s : st) (from : N) (path : list N) : res (st * bool) :=
    match path with
    | [] => Ok (s, true)
    | x :: r =>
      a <- applyBlock s x ;;
      let '(s1, ok) := a in
      if ok then apply_path s1 from r
      else match find (blocks s1) x with
           | None => Abort A_UNKNOWN
           | Some bx => s2 <- unapply s1 (b_par bx) from ;; Ok (s2, false)   (* rollback the applied slice *)
           end
    end.

  Definition apply (s : st) (from to : N) : res (st * bool) :=
    if N.eqb from to then Ok (s, true) else
    match find (blocks s) from, find (blocks s) to with
    | Some bf, Some bt =>
      if is_failed bt then Ok (s, false) else
      if negb (Z.ltb (b_h bf) (b_h bt)) then Abort A_HEIGHTS else
      match path_up (blocks s) (Z.to_nat (b_h bt - b_h bf)) to with
      | None => Abort A_CHAINFIRST
      | Some up =>
        match rev up with
        | [] => Abort A_CHAINFIRST
        | (x :: _) as path =>
          match find (blocks s) x with
          | Some bx => if N.eqb (b_par bx) from then apply_path s from path else Abort A_CHAINFIRST
          | None => Abort A_UNKNOWN
          end
        end
      end
    | _, _ => Abort A_UNKNOWN
    end.

  (** ** PopStateMachine::setState *)
  Definition sm_setState (s : st) (from to : N) : res (st * bool) :=
    if N.eqb from to then Ok (s, true) else
    match lca (blocks s) (2 * fuel_of s) from to with
    | None => Abort A_NOFORK
    | Some fork =>
      s1 <- unapply s from fork ;;
      a <- apply s1 fork to ;;
      let '(s2, ok) := a in
      if ok then Ok (s2, true)
      else
        b <- apply s2 fork from ;;
        let '(s3, ok2) := b in
        if ok2 then Ok (s3, false) else Abort A_ROLLBACK
    end.

  Definition chain_count (s : st) (i : N) : N :=
    match find (blocks s) i with Some b => Z.to_N (b_h b - root_h s + 1) | None => 0%N end.

  (** ** comparator.setState + AltBlockTree::setState + overrideTip *)
  Definition setState (s : st) (to : N) : res (st * bool) :=
    match find (blocks s) (tip s), find (blocks s) to with
    | Some bt, Some _ =>
      if negb (Z.eqb (b_h bt + 1) (root_h s + Z.of_N (napp s))) then Abort A_NOT_APPLIED else
      a <- (if N.eqb (tip s) to then Ok (s, true) else sm_setState s (tip s) to) ;;
      let '(s1, ok) := a in
      match find (blocks s1) to with
      | None => Abort A_UNKNOWN
      | Some bto =>
        if ok then
          if valid_upto bto L_FULL
          then Ok (mkSt (blocks s1) (root s1) to (chain_count s1 to) (pst s1), true)
          else Abort A_TIP_NOT_FULL
        else
          if negb (is_failed bto) then Abort A_FAILED_VALID
          else if negb (N.eqb (napp s1) (chain_count s1 (tip s1))) then Abort A_COUNT
          else Ok (s1, false)
      end
    | _, _ => Abort A_UNKNOWN
    end.

  (** ** comparePopScore (comparator + AltBlockTree), score comparison and keystone crossing as oracles *)
  Variable score : st -> N -> Z.          (* comparePopScoreImpl on the two applied chains: property C03 *)
  Variable crossed : Z -> Z -> bool.      (* isCrossedKeystoneBoundary(fork height, tip height, ki) *)

  Definition not_full (b : blk) : bool := negb (valid_upto b L_FULL).

  (* the general fork case of comparePopScore *)
  Definition compare_fork (s : st) (c : N) (bc bt : blk) : res (st * Z) :=
    match lca (blocks s) (2 * fuel_of s) (tip s) c with
    | None => Abort A_NOFORK
    | Some fork =>
      match find (blocks s) fork with
      | None => Abort A_UNKNOWN
      | Some bf =>
        if negb (crossed (b_h bf) (b_h bt)) && negb (crossed (b_h bf) (b_h bc)) then Ok (s, 0) else
        (* apply all payloads of chain B next to chain A *)
        r <- apply s fork c ;;
        let '(s1, ok) := r in
        if negb ok then Ok (s1, 1) else
        let result := score s1 c in
        if Z.leb 0 result then
          (* chain A remains the best one: unapply B *)
          s2 <- unapply s1 c fork ;; Ok (s2, result)
        else
          (* chain B is better: unapply its not fully valid part first, then A, then validate B alone *)
          w <- unapplyWhile (fuel_of s1) s1 c fork not_full ;;
          let '(s2, validFrom) := w in
          s3 <- unapply s2 (tip s) fork ;;
          r2 <- apply s3 validFrom c ;;
          let '(s4, ok2) := r2 in
          if ok2 then Ok (mkSt (blocks s4) (root s4) c (napp s4) (pst s4), result)
          else
            s5 <- unapply s4 validFrom fork ;;
            r3 <- apply s5 fork (tip s) ;;
            let '(s6, ok3) := r3 in
            if ok3 then Ok (s6, 1) else Abort A_ROLLBACK
      end
    end.

  Definition compare (s : st) (cand : option N) : res (st * Z) :=
    match cand with
    | None => Ok (s, 1)                   (* unknown block B *)
    | Some c =>
      match find (blocks s) c, find (blocks s) (tip s) with
      | Some bc, Some bt =>
        if is_failed bc then Ok (s, 1) else
        if N.eqb (tip s) c then Ok (s, 1) else
        if on_active_chain s c then Ok (s, 1) else
        match anc_at (blocks s) (fuel_of s) c (b_h bt) with
        | Some a =>
          if N.eqb a (tip s) then
            (* candidate is on top of our best tip *)
            r <- apply s (tip s) c ;;
            let '(s1, ok) := r in
            if ok then Ok (mkSt (blocks s1) (root s1) c (napp s1) (pst s1), -1) else Ok (s1, 1)
          else compare_fork s c bc bt
        | None => compare_fork s c bc bt
        end
      | _, _ => Abort A_UNKNOWN
      end
    end.

  (** ** AltBlockTree::connectBlock: the block enters the model when it becomes connected.
      [dup]: hasStatefulDuplicates (a payload id already contained in an ancestor) *)
  Definition connect (s : st) (i par : N) (dup : bool) (gs : list (list cmd)) : res st :=
    match find (blocks s) par, find (blocks s) i with
    | Some pb, None =>
      let b := mkBlk i par (b_h pb + 1) L_CONNECTED false dup (is_failed pb) false gs in
      Ok (with_blocks s (blocks s ++ [b]))
    | _, _ => Abort A_UNKNOWN
    end.

  Definition init (r : N) (h : Z) (p : P) : st :=
    mkSt [mkBlk r r h L_FULL false false false true []] r r 1 p.
End Machine.

(** * The concrete protecting state: a reference-count machine
    P = multiset (list) of items: a reference to an SP block, or an endorsement triple.
    The reference count of an SP block is the number of [IRef] items; a block is known iff its count is > 0. *)
Inductive item : Type := IRef (x : N) | IEnd (e c b : N).
Definition item_eqb (a b : item) : bool :=
  match a, b with
  | IRef x, IRef y => N.eqb x y
  | IEnd e c b, IEnd e' c' b' => N.eqb e e' && N.eqb c c' && N.eqb b b'
  | _, _ => false
  end.
Definition pstate := list item.
Definition mem (x : item) (p : pstate) : bool := existsb (item_eqb x) p.
Fixpoint remove1 (x : item) (p : pstate) : pstate :=
  match p with
  | [] => []
  | y :: r => if item_eqb x y then r else y :: remove1 x r
  end.

Inductive ccmd : Type :=
| AddRef (v par : N)     (* AddBlock: fails iff the parent is unknown (and v itself is); creates v or increments *)
| AddEnd (e c b : N)     (* AddEndorsement: fails iff the block of proof is unknown. As coded there is NO
                            already-present check: the containing map is a multimap and the same VTB may be
                            applied by two ALT forks at once; duplicates on one chain are refused by connectBlock *)
| Need (v : N)           (* no effect; fails iff v is unknown (AddVTB needs its containing block) *)
| Poison.                (* ANY contextually invalid payload at this position *)

Definition cexec (c : ccmd) (p : pstate) : option pstate :=
  match c with
  | AddRef v par => if mem (IRef v) p || mem (IRef par) p then Some (IRef v :: p) else None
  | AddEnd e c b => if mem (IRef b) p then Some (IEnd e c b :: p) else None
  | Need v => if mem (IRef v) p then Some p else None
  | Poison => None
  end.
Definition cunexec (c : ccmd) (p : pstate) : pstate :=
  match c with
  | AddRef v _ => remove1 (IRef v) p
  | AddEnd e c b => remove1 (IEnd e c b) p
  | Need _ => p
  | Poison => p
  end.

Definition cst := st pstate ccmd.
Definition c_init (r : N) (h : Z) (p : pstate) : cst := init pstate ccmd r h p.
Definition c_connect : cst -> N -> N -> bool -> list (list ccmd) -> res cst := connect pstate ccmd.
Definition c_setState : cst -> N -> res (cst * bool) := setState pstate ccmd cexec cunexec.
Definition c_compare (score : cst -> N -> Z) (crossed : Z -> Z -> bool) : cst -> option N -> res (cst * Z) :=
  compare pstate ccmd cexec cunexec score crossed.
Definition c_applyBlock : cst -> N -> res (cst * bool) := applyBlock pstate ccmd cexec cunexec.
Definition c_unapplyBlock : cst -> N -> res cst := unapplyBlock pstate ccmd cunexec.
Definition count_ref (x : N) (p : pstate) : nat := length (filter (item_eqb (IRef x)) p).
