(** POP state machine — the C02 / C20 statements over all histories (including comparePopScore). *)
From Coq Require Import List ZArith NArith Bool Lia Permutation.
Import ListNotations.
From VB Require Import Pop.SmDefs Pop.SmProofs Pop.SmWf Pop.SmTruth Pop.SmCmp.
Local Open Scope Z_scope.

Lemma static_compare : forall sc cr s c s' r,
    c_compare sc cr s c = Ok (s', r) -> map (static ccmd) (blocks _ _ s') = map (static ccmd) (blocks _ _ s).
Proof.
  intros sc cr s c s' r H.
  exact (Inv_compare pstate ccmd cexec cunexec (staticInv (map (static ccmd) (blocks _ _ s)))
           (staticInv_apply _) (staticInv_unapply _) sc cr (fun s0 t H0 => H0) s c s' r eq_refl H).
Qed.

(** C02, comparePopScore from any reachable (quiet) state, any scorer: the result is a quiet state again (exactly
    root..tip applied); a non-negative result leaves the tip, the counter, the applied flag of every block and P (as a
    multiset) unchanged; a negative result makes the candidate the tip. *)
Theorem compare_atomic : forall base sc cr s c s' r,
    quiet s -> canon base s -> c_compare sc cr s c = Ok (s', r) ->
    quiet s' /\ (forall j, is_act (cores s') j <-> In j (chain s')) /\
    (0 <= r -> tip _ _ s' = tip _ _ s /\ napp _ _ s' = napp _ _ s /\ cores s' = cores s /\
               Permutation (pst _ _ s') (pst _ _ s)) /\
    (r < 0 -> c = Some (tip _ _ s')).
Proof.
  intros base sc cr s c s' r Q C H.
  destruct (quiet_compare _ _ _ _ _ _ Q H) as (Q' & S & R & Hp & Hm).
  split; [exact Q'|]. split; [apply applied_exactly; exact Q'|]. split; [|exact Hm].
  intros Hr. destruct (Hp Hr) as [T Nn]. split; [exact T|]. split; [exact Nn|].
  pose proof (static_compare _ _ _ _ _ _ H) as Hs.
  assert (Hact : forall j, is_act (cores s') j <-> is_act (cores s) j).
  { intros j. rewrite (applied_exactly _ Q'), (applied_exactly _ Q). unfold chain.
    pose proof (fun k => hgt_static _ _ k S) as HS. rewrite T, R, ?HS, (anc_list_static _ _ _ _ S). reflexivity. }
  assert (Hc : cores s' = cores s).
  { apply cores_eq_of_act; [|destruct Q as ((ND & _) & _); exact ND|exact Hact].
    unfold cores. rewrite !map_map.
    assert (E : forall x : list (blk ccmd), map (fun b => (e_id (core b), e_par (core b), e_h (core b))) x
                                         = map (fun t : N * N * Z * list (list ccmd) => fst t) (map (static ccmd) x)).
    { intros x. rewrite map_map. reflexivity. }
    rewrite (E (blocks _ _ s')), (E (blocks _ _ s)), Hs. reflexivity. }
  split; [exact Hc|].
  pose proof (canon_compare _ _ _ _ _ _ _ C H) as [P' _]. destruct C as [P0 _].
  eapply perm_trans; [exact P'|]. eapply perm_trans; [|symmetry; exact P0].
  apply Permutation_app_tail. rewrite (active_items_ext _ _ Hc Hs). reflexivity.
Qed.

(** ** C20 over all histories *)
Lemma tinv_tip_only : forall base (s : cst) t,
    tinv base s -> tinv base (mkSt pstate ccmd (blocks _ _ s) (root _ _ s) t (napp _ _ s) (pst _ _ s)).
Proof.
  intros base s t (W & C & T). split; [exact W|]. split; [exact C|].
  eapply truthful_ext; [reflexivity|reflexivity| |exact T].
  intros b' Hin Hl. exists b'. split; [exact Hin|split; [reflexivity|exact Hl]].
Qed.

Lemma truthful_compare : forall base sc cr s c s' r,
    quiet s -> canon base s -> truthful base s -> c_compare sc cr s c = Ok (s', r) -> truthful base s'.
Proof.
  intros base sc cr s c s' r (W & _) C T H.
  exact (proj2 (proj2 (Inv_compare pstate ccmd cexec cunexec (tinv base) (tinv_apply base) (tinv_unapply base) sc cr
                         (tinv_tip_only base) s c s' r (conj W (conj C T)) H))).
Qed.

Lemma tq_run_all : forall base ops s s',
    quiet s -> canon base s -> truthful base s -> run s ops = Ok s' ->
    quiet s' /\ canon base s' /\ truthful base s'.
Proof.
  induction ops as [|o r IH]; intros s s' Q C T H; cbn in H.
  - inversion H; subst. auto.
  - destruct (step_op s o) as [s1|] eqn:E; cbn in H; [|discriminate].
    destruct o as [i par dup gs|to|c sc cr]; cbn in E.
    + eapply IH; [| | |exact H].
      * eapply quiet_connect; eassumption.
      * eapply canon_connect; eassumption.
      * eapply truthful_connect; [exact (proj1 Q)|exact T|exact E].
    + destruct (c_setState s to) as [[s2 ok]|] eqn:E2; cbn in E; [|discriminate]. inversion E; subst.
      eapply IH; [| | |exact H].
      * eapply quiet_setState; eassumption.
      * eapply canon_setState; eassumption.
      * eapply truthful_setState; eassumption.
    + destruct (c_compare sc cr s c) as [[s2 rr]|] eqn:E2; cbn in E; [|discriminate]. inversion E; subst.
      eapply IH; [| | |exact H].
      * eapply quiet_compare; eassumption.
      * eapply canon_compare; eassumption.
      * eapply truthful_compare; eassumption.
Qed.

(** C20: in EVERY reachable state (histories of connectBlock / setState / comparePopScore with any scorer, any tree,
    any payloads, any failing position) a block at the fully-valid level replays successfully alone *)
Theorem full_validity_truthful_all : forall base s,
    reachable base s ->
    forall b, In b (blocks _ _ s) -> N.leb L_FULL (b_lvl _ b) = true ->
              exists p', replay (bgs s (depth s (b_id _ b)) (b_id _ b)) base = Some p'.
Proof.
  intros base s (r & h & ops & R).
  assert (X : quiet s /\ canon base s /\ truthful base s).
  { eapply tq_run_all; [apply quiet_init| | |exact R].
    - split; cbn; [reflexivity|constructor; [intros []|constructor]].
    - intros b [<-|[]] _. exists base. unfold depth, bgs, hgt, cores, c_init, init. cbn [blocks root map core b_id b_par b_h b_act cfind e_id fst snd].
      rewrite N.eqb_refl. cbn [e_h snd fst]. rewrite Z.sub_diag. cbn [Z.to_nat anc_list map rev app].
      unfold gs_of. cbn [blocks find b_id]. rewrite N.eqb_refl. reflexivity. }
  exact (proj2 (proj2 X)).
Qed.
