(** The wire types of transaction.hpp / block.hpp satisfy [codec_ok]: OutPoint, TxIn, TxOut, ScriptWitness,
    Transaction (both stream versions, with the witness flag format), BlockHeader, Block. *)
From Coq Require Import NArith ZArith List Bool Lia Strings.Byte.
From VB Require Import Bfi.BfiDefs Bfi.BfiProofs.
Import ListNotations.
Local Open Scope N_scope.
Ltac Zify.zify_post_hook ::= Z.div_mod_to_equations.

Lemma codec_ok_ext : forall A (c : codec A) (wf wf' : A -> Prop),
  codec_ok c wf -> (forall a, wf a <-> wf' a) -> codec_ok c wf'.
Proof.
  intros A c wf wf' (R & S & C) E. split; [|split].
  - intros a tl H. apply R. now apply E.
  - exact S.
  - intros bs a rest H. destruct (C bs a rest H) as [W B]. split; [now apply E | exact B].
Qed.

Lemma outpoint_ok : codec_ok c_outpoint wf_outpoint.
Proof.
  unfold c_outpoint. apply map_ok with (wa := wf_pair (wf_blob 32) (wf_uint 4)).
  - apply pair_ok; [apply blob_ok | apply uint_ok].
  - intros [h n] [H1 H2]. cbn [op_hash op_n fst snd] in *. split; [split; assumption | reflexivity].
  - intros [h n] [H1 H2]. cbn [op_hash op_n fst snd] in *. split; [split; assumption | reflexivity].
Qed.

Lemma core_ok : codec_ok c_core wf_core.
Proof.
  unfold c_core. apply codec_ok_ext with (wf := wf_pair (wf_pair wf_outpoint wf_bytes) (wf_uint 4)).
  - apply pair_ok; [apply pair_ok; [apply outpoint_ok | apply bytes_ok] | apply uint_ok].
  - intros [[o s] q]. unfold wf_core, wf_pair. cbn [fst snd]. tauto.
Qed.

Lemma core_of_txin_of : forall c w, core_of (txin_of c w) = c.
Proof. intros [[o s] q] w. reflexivity. Qed.

Lemma txin_ok : codec_ok c_txin wf_txin.
Proof.
  unfold c_txin. apply map_ok with (wa := wf_core).
  - apply core_ok.
  - intros [p s q w] [H1 H2]. cbn [ti_wit] in H2. subst w. split; [exact H1 | reflexivity].
  - intros c H. unfold wf_txin. rewrite core_of_txin_of. split; [split; [exact H | reflexivity] | reflexivity].
Qed.

Lemma txout_ok : codec_ok c_txout wf_txout.
Proof.
  unfold c_txout. apply map_ok with (wa := wf_pair (wf_sint 8) wf_bytes).
  - apply pair_ok; [apply sint_ok | apply bytes_ok].
  - intros [v s] [H1 H2]. cbn [to_value to_script fst snd] in *. split; [split; assumption | reflexivity].
  - intros [v s] [H1 H2]. cbn [to_value to_script fst snd] in *. split; [split; assumption | reflexivity].
Qed.

Lemma wstack_ok : codec_ok c_wstack wf_wstack.
Proof. apply vec_ok. apply bytes_ok. Qed.

Lemma header_ok : codec_ok c_header wf_header.
Proof.
  unfold c_header.
  apply map_ok with (wa := wf_pair (wf_pair (wf_pair (wf_pair (wf_pair (wf_sint 4) (wf_blob 32)) (wf_blob 32)) (wf_uint 4)) (wf_uint 4)) (wf_uint 4)).
  - repeat apply pair_ok; try apply uint_ok; try apply blob_ok; apply sint_ok.
  - intros [v p m t b n]. unfold wf_header, wf_pair.
    cbn [h_version h_prev h_merkle h_time h_bits h_nonce fst snd]. intros (H1 & H2 & H3 & H4 & H5 & H6).
    split; [tauto | reflexivity].
  - intros [[[[[v p] m] t] b] n]. unfold wf_header, wf_pair.
    cbn [h_version h_prev h_merkle h_time h_bits h_nonce fst snd]. intros (((((H1 & H2) & H3) & H4) & H5) & H6).
    split; [tauto | reflexivity].
Qed.

(** ** Transaction *)
Lemma zip_in_id : forall l, zip_in (map core_of l) (map ti_wit l) = l.
Proof.
  induction l as [|[p s q w] l IH]; [reflexivity|].
  cbn [map zip_in hd tl]. rewrite IH. reflexivity.
Qed.

Lemma zip_in_proj : forall cs ws, length ws = length cs ->
  map core_of (zip_in cs ws) = cs /\ map ti_wit (zip_in cs ws) = ws.
Proof.
  induction cs as [|c cs IH]; intros ws L.
  - destruct ws; [split; reflexivity | discriminate].
  - destruct ws as [|w ws]; [discriminate|]. cbn [length] in L.
    destruct (IH ws) as [E1 E2]; [lia|].
    cbn [zip_in hd tl map]. rewrite core_of_txin_of, E1, E2. destruct c as [[o s] q]. split; reflexivity.
Qed.

Definition nils (cs : list txin_core) : list (list (list byte)) := map (fun _ => []) cs.

Lemma nils_length : forall cs, length (nils cs) = length cs.
Proof. intro cs. unfold nils. apply map_length. Qed.

Lemma has_witness_nils : forall cs, has_witness (nils cs) = false.
Proof. induction cs as [|c cs IH]; [reflexivity|]. unfold nils, has_witness in *. cbn [map existsb is_nil negb orb]. exact IH. Qed.

Lemma no_witness_nils : forall ws cs, has_witness ws = false -> length cs = length ws -> ws = nils cs.
Proof.
  induction ws as [|w ws IH]; intros cs H L.
  - destruct cs; [reflexivity | discriminate].
  - destruct cs as [|c cs]; [discriminate|]. unfold has_witness in H. cbn [existsb] in H.
    apply orb_false_iff in H. destruct H as [H1 H2]. destruct w; [|discriminate].
    unfold nils. cbn [map]. f_equal. apply IH; [exact H2 | cbn [length] in L; lia].
Qed.

Lemma wstack_nils : forall cs, Forall wf_wstack (nils cs).
Proof.
  induction cs as [|c cs IH]; [constructor|]. unfold nils. cbn [map]. constructor; [|exact IH].
  unfold wf_wstack, wf_vec, nlen, MAX_SIZE. cbn [length]. split; [lia | constructor].
Qed.

Lemma bind_ok : forall A B (r : res A) (f : A -> list byte -> res B) b rest,
  bind r f = Ok b rest -> exists a r', r = Ok a r' /\ f a r' = Ok b rest.
Proof. intros A B [a r'|e] f b rest H; [|discriminate]. exists a, r'. split; [reflexivity | exact H]. Qed.

Lemma enc_vec_nil : forall A (c : codec A), enc (c_vec c) [] = [x00].
Proof. reflexivity. Qed.

Lemma enc_u8_0 : enc c_u8 0 = [x00]. Proof. reflexivity. Qed.
Lemma enc_u8_1 : enc c_u8 1 = [x01]. Proof. reflexivity. Qed.

Lemma dec_u8_cons : forall b r, dec c_u8 (b :: r) = Ok (Byte.to_N b) r.
Proof. intros. apply read_le1_cons. Qed.

Lemma finish_run : forall allow ver cores vout wits lt tl,
  length wits = length cores -> Forall wf_wstack wits -> wf_uint 4 lt ->
  dec_tx_finish allow ver cores vout (if allow && has_witness wits then 1 else 0)
    ((if allow && has_witness wits then enc_all c_wstack wits else []) ++ enc c_u32 lt ++ tl)
  = Ok (mk_tx (zip_in cores (if allow && has_witness wits then wits else nils cores)) vout ver lt) tl.
Proof.
  intros allow ver cores vout wits lt tl L W Hl. unfold dec_tx_finish.
  destruct (uint_ok 4) as (R32 & _ & _).
  destruct (allow && has_witness wits) eqn:F.
  - apply andb_true_iff in F. destruct F as [-> F].
    change (N.testbit 1 0 && true) with true. cbv iota.
    rewrite <- L. rewrite (dec_rep_enc_all _ c_wstack wf_wstack wstack_ok wits _ W). cbn [bind].
    rewrite F. cbn [bind fst snd]. change (N.lxor 1 1 =? 0) with true. cbv iota.
    unfold c_u32. rewrite R32 by exact Hl. reflexivity.
  - change (N.testbit 0 0) with false. cbn [andb app bind fst snd]. change (0 =? 0) with true. cbv iota.
    unfold c_u32. rewrite R32 by exact Hl. reflexivity.
Qed.

Lemma tx_round_trip : forall allow t tl, wf_tx allow t -> dec_tx allow (enc_tx allow t ++ tl) = Ok t tl.
Proof.
  intros allow [vin vout ver lt] tl (Wv & Wc & Ww & Wo & Wl & Wx).
  cbn [tx_vin tx_vout tx_version tx_locktime] in *.
  destruct (sint_ok 4) as (R32s & _ & _).
  destruct (vec_ok _ c_core wf_core core_ok) as (RC & _ & _).
  destruct (vec_ok _ c_txout wf_txout txout_ok) as (RO & _ & _).
  unfold enc_tx, dec_tx. cbn [tx_vin tx_vout tx_version tx_locktime].
  set (cores := map core_of vin) in *. set (wits := map ti_wit vin) in *.
  assert (L : length wits = length cores) by (unfold wits, cores; now rewrite !map_length).
  assert (Z : zip_in cores wits = vin) by apply zip_in_id.
  pose proof (finish_run allow ver cores vout wits lt tl L Ww Wl) as FR.
  unfold c_i32. repeat rewrite <- app_assoc. rewrite R32s by exact Wv. cbn [bind].
  destruct (allow && has_witness wits) eqn:F.
  - (* extended format *)
    apply andb_true_iff in F. destruct F as [-> F].
    repeat rewrite <- app_assoc.
    rewrite (RC [] _) by (unfold wf_vec, nlen, MAX_SIZE; cbn [length]; split; [lia | constructor]).
    cbn [bind is_nil andb]. rewrite enc_u8_1. cbn [app]. rewrite dec_u8_cons. cbn [bind].
    change (Byte.to_N x01 =? 0) with false. cbv iota.
    rewrite RC by exact Wc. cbn [bind]. rewrite RO by exact Wo. cbn [bind].
    change (Byte.to_N x01) with 1. rewrite FR, Z. reflexivity.
  - cbn [app]. rewrite RC by exact Wc. cbn [bind].
    destruct allow.
    + (* witnesses allowed, none present *)
      cbn [andb] in F.
      assert (N0 : nils cores = wits) by (symmetry; apply no_witness_nils; [exact F | now rewrite L]).
      destruct vin as [|i vin'].
      * pose proof (Wx eq_refl) as E0. subst vout. cbn [map is_nil andb] in *. subst cores wits.
        rewrite enc_vec_nil. cbn [app]. rewrite dec_u8_cons. cbn [bind].
        change (Byte.to_N x00 =? 0) with true. cbv iota. change (Byte.to_N x00) with 0.
        cbn [app] in FR. exact FR.
      * unfold cores at 1. cbn [map is_nil andb]. rewrite RO by exact Wo. cbn [bind].
        cbn [app] in FR. rewrite FR, N0, Z. reflexivity.
    + rewrite andb_false_r. rewrite RO by exact Wo. cbn [bind].
      cbn [app] in FR. rewrite FR.
      assert (N0 : nils cores = wits) by (symmetry; apply no_witness_nils; [exact Wx | now rewrite L]).
      rewrite N0, Z. reflexivity.
Qed.

Lemma lxor1_zero : forall f, N.lxor f 1 = 0 -> f = 1.
Proof. intros f H. apply N.lxor_eq in H. exact H. Qed.

Lemma finish_inv : forall allow ver cores vout flags bs t rest,
  dec_tx_finish allow ver cores vout flags bs = Ok t rest ->
  exists wits lt, t = mk_tx (zip_in cores wits) vout ver lt /\ length wits = length cores /\
    Forall wf_wstack wits /\ wf_uint 4 lt /\
    ((flags = 1 /\ allow = true /\ has_witness wits = true /\ bs = enc_all c_wstack wits ++ enc c_u32 lt ++ rest) \/
     (flags = 0 /\ wits = nils cores /\ bs = enc c_u32 lt ++ rest)).
Proof.
  intros allow ver cores vout flags bs t rest H. unfold dec_tx_finish in H.
  destruct (uint_ok 4) as (_ & _ & C32).
  apply bind_ok in H. destruct H as ([wits fl] & r & H1 & H2). cbn [fst snd] in H2.
  destruct (N.eqb_spec fl 0) as [->|]; [|discriminate].
  apply bind_ok in H2. destruct H2 as (lt & r' & H2 & H3). inversion H3; subst t r'; clear H3.
  apply C32 in H2. destruct H2 as [Wl ->].
  exists wits, lt.
  destruct (N.testbit flags 0 && allow) eqn:F.
  - apply andb_true_iff in F. destruct F as [_ ->].
    apply bind_ok in H1. destruct H1 as (ws & r1 & H1 & H4).
    destruct (has_witness ws) eqn:HW; [|discriminate]. inversion H4; subst; clear H4.
    apply (dec_rep_inv _ c_wstack wf_wstack wstack_ok) in H1. destruct H1 as (W & -> & L).
    match goal with E : N.lxor _ 1 = 0 |- _ => apply lxor1_zero in E; subst flags end.
    split; [reflexivity|]. split; [assumption|]. split; [assumption|]. split; [assumption|]. left.
    split; [reflexivity|]. split; [reflexivity|]. split; [assumption|]. reflexivity.
  - inversion H1; subst; clear H1.
    split; [reflexivity|]. split; [apply nils_length|]. split; [apply wstack_nils|]. split; [assumption|]. right.
    split; [reflexivity|]. split; reflexivity.
Qed.

Lemma tx_canonical : forall allow bs t rest, dec_tx allow bs = Ok t rest ->
  wf_tx allow t /\ bs = enc_tx allow t ++ rest.
Proof.
  intros allow bs t rest H. unfold dec_tx in H.
  destruct (sint_ok 4) as (_ & _ & C32s).
  destruct (vec_ok _ c_core wf_core core_ok) as (_ & _ & CC).
  destruct (vec_ok _ c_txout wf_txout txout_ok) as (_ & _ & CO).
  destruct (uint_ok 1) as (_ & _ & C8).
  apply bind_ok in H. destruct H as (ver & r0 & H0 & H). apply C32s in H0. destruct H0 as [Wv ->].
  apply bind_ok in H. destruct H as (cores & r1 & H1 & H). apply CC in H1. destruct H1 as [Wc ->].
  destruct (is_nil cores && allow) eqn:B.
  - apply andb_true_iff in B. destruct B as [B ->]. destruct cores; [|discriminate]. clear B.
    apply bind_ok in H. destruct H as (flags & r2 & H2 & H). apply C8 in H2. destruct H2 as [W8 ->].
    destruct (N.eqb_spec flags 0) as [->|NZ].
    + apply finish_inv in H. destruct H as (wits & lt & -> & L & Ww & Wl & [(F & _)|(_ & -> & ->)]); [discriminate|].
      cbn [nils map zip_in]. split.
      * unfold wf_tx. cbn [tx_vin tx_vout tx_version tx_locktime map].
        assert (VN : forall A (w : A -> Prop), wf_vec w [])
          by (intros; unfold wf_vec, nlen, MAX_SIZE; cbn [length]; split; [lia | constructor]).
        split; [exact Wv|]. split; [apply VN|]. split; [constructor|]. split; [apply VN|]. split; [exact Wl|].
        intros _. reflexivity.
      * unfold enc_tx. cbn [tx_vin tx_vout tx_version tx_locktime map has_witness existsb andb app].
        rewrite (enc_vec_nil _ c_txout), <- enc_u8_0. repeat rewrite <- app_assoc. reflexivity.
    + apply bind_ok in H. destruct H as (cores' & r3 & H3 & H). apply CC in H3. destruct H3 as [Wc' ->].
      apply bind_ok in H. destruct H as (vout & r4 & H4 & H). apply CO in H4. destruct H4 as [Wo ->].
      apply finish_inv in H.
      destruct H as (wits & lt & -> & L & Ww & Wl & [(-> & _ & HW & ->)|(-> & _)]); [|contradiction].
      destruct (zip_in_proj cores' wits L) as [E1 E2].
      split.
      * unfold wf_tx. cbn [tx_vin tx_vout tx_version tx_locktime]. rewrite E1, E2.
        split; [exact Wv|]. split; [exact Wc'|]. split; [exact Ww|]. split; [exact Wo|]. split; [exact Wl|].
        intro Z. destruct cores' as [|c cs]; [destruct wits; [discriminate HW | discriminate L] | discriminate Z].
      * unfold enc_tx. cbn [tx_vin tx_vout tx_version tx_locktime]. rewrite E1, E2, HW. cbn [andb].
        repeat rewrite <- app_assoc. reflexivity.
  - apply bind_ok in H. destruct H as (vout & r2 & H2 & H). apply CO in H2. destruct H2 as [Wo ->].
    apply finish_inv in H.
    destruct H as (wits & lt & -> & L & Ww & Wl & [(F & _)|(_ & -> & ->)]); [discriminate|].
    destruct (zip_in_proj cores (nils cores) (nils_length cores)) as [E1 E2].
    split.
    + unfold wf_tx. cbn [tx_vin tx_vout tx_version tx_locktime]. rewrite E1, E2.
      split; [exact Wv|]. split; [exact Wc|]. split; [apply wstack_nils|]. split; [exact Wo|]. split; [exact Wl|].
      destruct allow.
      * intro Z. destruct cores; [discriminate B | discriminate Z].
      * apply has_witness_nils.
    + unfold enc_tx. cbn [tx_vin tx_vout tx_version tx_locktime]. rewrite E1, E2, has_witness_nils.
      rewrite andb_false_r. cbn [app]. repeat rewrite <- app_assoc. reflexivity.
Qed.

Lemma tx_ok : forall allow, codec_ok (c_tx allow) (wf_tx allow).
Proof.
  intro allow. unfold codec_ok, c_tx. cbn [enc dec ssize]. split; [|split].
  - intros t tl W. now apply tx_round_trip.
  - reflexivity.
  - intros bs t rest H. now apply tx_canonical.
Qed.

Lemma block_ok : forall allow, codec_ok (c_block allow) (wf_block allow).
Proof.
  intro allow. unfold c_block. apply map_ok with (wa := wf_pair wf_header (wf_vec (wf_tx allow))).
  - apply pair_ok; [apply header_ok | apply vec_ok; apply tx_ok].
  - intros [h v] [H1 H2]. cbn [b_header b_vtx fst snd] in *. split; [split; assumption | reflexivity].
  - intros [h v] [H1 H2]. cbn [b_header b_vtx fst snd] in *. split; [split; assumption | reflexivity].
Qed.

(** the round-trip premise on transactions is needed: with witnesses allowed, a transaction without inputs but
    with an output is written in the plain format and read back as the extended-format marker *)
Example tx_empty_vin_with_output_refuted :
  let t := mk_tx [] [mk_txout 1%Z []] 1%Z 0 in
  dec_tx true (enc_tx true t) <> Ok t [] /\ dec_tx false (enc_tx false t) = Ok t [].
Proof. cbv zeta. split; [vm_compute; discriminate | vm_compute; reflexivity]. Qed.

(** the premises are satisfiable by a transaction with a witness, and by one without under both stream versions
    (well-formedness obtained from the decoder through tx_canonical) *)
Example tx_nontrivial :
  let o := mk_outpoint (repeat x11 32) 1 in
  let tw := mk_tx [mk_txin o [xaa] 4294967295 [[xff; x4c]; []]; mk_txin o [] 0 []] [mk_txout (-5)%Z [xbb]] 2%Z 7 in
  let tp := mk_tx [mk_txin o [xaa] 4294967295 []] [mk_txout 4999990000%Z (repeat xcc 253)] 1%Z 0 in
  wf_tx true tw /\ wf_tx true tp /\ wf_tx false tp /\
  dec_tx true (enc_tx true tw ++ [x01]) = Ok tw [x01] /\ enc_tx true tp = enc_tx false tp.
Proof.
  cbv zeta.
  match goal with |- wf_tx true ?tw /\ wf_tx true ?tp /\ _ =>
    assert (H1 : dec_tx true (enc_tx true tw ++ [x01]) = Ok tw [x01]) by (vm_compute; reflexivity);
    assert (H2 : dec_tx true (enc_tx true tp) = Ok tp []) by (vm_compute; reflexivity);
    assert (H3 : dec_tx false (enc_tx false tp) = Ok tp []) by (vm_compute; reflexivity)
  end.
  split; [exact (proj1 (tx_canonical _ _ _ _ H1))|].
  split; [exact (proj1 (tx_canonical _ _ _ _ H2))|].
  split; [exact (proj1 (tx_canonical _ _ _ _ H3))|].
  split; [exact H1 | vm_compute; reflexivity].
Qed.
