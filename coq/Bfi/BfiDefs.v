(** BFI bitcoin wire format as coded in /repo/include/veriblock/bfi/bitcoin/serialize.hpp,
    transaction.hpp and block.hpp — executable model, no proofs.

    Streams are byte lists.  A C++ exception (std::ios_base::failure) is the explicit outcome [Err kind]:
      EEof          the ReadStream had fewer bytes than requested (ReadLE / s.read failed)
      ENonCanonical "non-canonical ReadCompactSize()"
      ETooLarge     "ReadCompactSize(): size too large"
      ESuperfluous  "Superfluous witness record"
      EUnknownOpt   "Unknown transaction optional data"
    Integers are N (unsigned C++ types) or Z (signed ones); the fixed widths of the C++ types appear as
    [le_bytes k] keeping the low k bytes (the casts (uint8_t)/(uint16_t)/(uint32_t) in WriteCompactSize,
    the implicit conversion of int32_t/int64_t arguments to the unsigned parameter of ser_writedataNN). *)
From Coq Require Import NArith ZArith List Bool Strings.Byte.
Import ListNotations.
Local Open Scope N_scope.

Inductive berr : Type := EEof | ENonCanonical | ETooLarge | ESuperfluous | EUnknownOpt.

Inductive res (A : Type) : Type :=
| Ok (a : A) (rest : list byte)
| Err (e : berr).
Arguments Ok {A} a rest.
Arguments Err {A} e.

Definition bind {A B : Type} (r : res A) (f : A -> list byte -> res B) : res B :=
  match r with Ok a rest => f a rest | Err e => Err e end.

(** static const uint64_t MAX_SIZE = 0x02000000 (cross-checked against the compiled header on every run) *)
Definition MAX_SIZE : N := 33554432.

Definition byte_of_N (n : N) : byte :=
  match Byte.of_N (n mod 256) with Some b => b | None => x00 end.

Definition blen (l : list byte) : N := N.of_nat (length l).

(** WriteStream::writeLE<T>: sizeof(T) bytes, (num >> 8i) & 0xff *)
Fixpoint le_bytes (k : nat) (n : N) : list byte :=
  match k with O => [] | S k' => byte_of_N n :: le_bytes k' (n / 256) end.

(** ReadStream::readLE<T>: sum of byte_i << 8i *)
Fixpoint le_val (bs : list byte) : N :=
  match bs with [] => 0 | b :: r => Byte.to_N b + 256 * le_val r end.

(** the first k bytes and the rest, or nothing when fewer than k remain (hasMore); the count is never turned
    into a unary number and the length of the remaining stream is never computed (BfiProofs.take_spec,
    take_n_spec: equal to the firstn/skipn formulation) *)
Fixpoint take (k : nat) (bs : list byte) : option (list byte * list byte) :=
  match k with
  | O => Some ([], bs)
  | S k' => match bs with
            | [] => None
            | b :: r => match take k' r with Some (h, t) => Some (b :: h, t) | None => None end
            end
  end.
Fixpoint take_n (n : N) (bs : list byte) {struct bs} : option (list byte * list byte) :=
  if n =? 0 then Some ([], bs)
  else match bs with
       | [] => None
       | b :: r => match take_n (N.pred n) r with Some (h, t) => Some (b :: h, t) | None => None end
       end.

(** ReadLE<Stream,T>: throws when fewer than sizeof(T) bytes remain *)
Definition read_le (k : nat) (bs : list byte) : res N :=
  match take k bs with None => Err EEof | Some (h, t) => Ok (le_val h) t end.

(** s.read(n, out, state): n bytes or failure *)
Definition read_bytes (n : N) (bs : list byte) : res (list byte) :=
  match take_n n bs with None => Err EEof | Some (h, t) => Ok h t end.

(** ** Compact size *)
Definition size_of_compact (n : N) : N :=
  if n <? 253 then 1 else if n <=? 65535 then 3 else if n <=? 4294967295 then 5 else 9.

Definition write_compact (n : N) : list byte :=
  if n <? 253 then le_bytes 1 n
  else if n <=? 65535 then byte_of_N 253 :: le_bytes 2 n
  else if n <=? 4294967295 then byte_of_N 254 :: le_bytes 4 n
  else byte_of_N 255 :: le_bytes 8 n.

Definition read_le_min (k : nat) (lo : N) (bs : list byte) : res N :=
  bind (read_le k bs) (fun v r => if v <? lo then Err ENonCanonical else Ok v r).

Definition read_compact (bs : list byte) : res N :=
  bind (read_le 1 bs) (fun ch r1 =>
  bind (if ch <? 253 then Ok ch r1
        else if ch =? 253 then read_le_min 2 253 r1
        else if ch =? 254 then read_le_min 4 65536 r1
        else read_le_min 8 4294967296 r1)
       (fun v r => if MAX_SIZE <? v then Err ETooLarge else Ok v r)).

(** the writer of the seeded change C11-6 (`nSize <= 253` takes the one-byte branch); used only by the
    _refuted example *)
Definition write_compact_le253 (n : N) : list byte :=
  if n <=? 253 then le_bytes 1 n
  else if n <=? 65535 then byte_of_N 253 :: le_bytes 2 n
  else if n <=? 4294967295 then byte_of_N 254 :: le_bytes 4 n
  else byte_of_N 255 :: le_bytes 8 n.

(** ** Codecs: Serialize / Unserialize / GetSerializeSize (CSizeComputer) of one C++ type *)
Record codec (A : Type) : Type := mk_codec {
  enc : A -> list byte;
  dec : list byte -> res A;
  ssize : A -> N
}.
Arguments mk_codec {A}.
Arguments enc {A}.
Arguments dec {A}.
Arguments ssize {A}.

(** unsigned integer of k bytes (uint8_t/uint16_t/uint32_t/uint64_t) *)
Definition c_uint (k : nat) : codec N :=
  mk_codec (le_bytes k) (read_le k) (fun _ => N.of_nat k).

(** signed integer of k bytes (int8_t..int64_t): converted to the unsigned type on the way out, back on the way in *)
Definition to_unsigned (k : nat) (z : Z) : N := Z.to_N (z mod Z.of_N (256 ^ N.of_nat k)).
Definition to_signed (k : nat) (n : N) : Z :=
  if 2 * n <? 256 ^ N.of_nat k then Z.of_N n else (Z.of_N n - Z.of_N (256 ^ N.of_nat k))%Z.
Definition c_sint (k : nat) : codec Z :=
  mk_codec (fun z => le_bytes k (to_unsigned k z))
           (fun bs => bind (read_le k bs) (fun v r => Ok (to_signed k v) r))
           (fun _ => N.of_nat k).

Definition c_compact : codec N := mk_codec write_compact read_compact size_of_compact.

(** Blob<N> / unsigned char[N]: raw bytes, no prefix (uint256 = Blob<32>) *)
Definition c_blob (k : nat) : codec (list byte) :=
  mk_codec (fun l => l) (read_bytes (N.of_nat k)) blen.

(** std::vector<unsigned char> and std::basic_string<char>: compact size + bytes.
    The reader's 5,000,000-byte batches only bound the allocation: every batch is read with the same
    failure (EEof) as one read of the whole length. *)
Definition c_bytes : codec (list byte) :=
  mk_codec (fun l => write_compact (blen l) ++ l)
           (fun bs => bind (read_compact bs) read_bytes)
           (fun l => size_of_compact (blen l) + blen l).

(** n consecutive elements, the literal loop `for (; i < nMid; i++) Unserialize(is, v[i])` *)
Fixpoint dec_rep {A : Type} (d : list byte -> res A) (n : nat) (bs : list byte) : res (list A) :=
  match n with
  | O => Ok [] bs
  | S k => bind (d bs) (fun a r => bind (dec_rep d k r) (fun l r' => Ok (a :: l) r'))
  end.

(** the same loop driven by the binary count (no unary number of the size of a hostile count is built);
    BfiProofs.dec_count_rep: dec_count d n = dec_rep d (N.to_nat n) *)
Fixpoint dec_pos {A : Type} (d : list byte -> res A) (p : positive) (bs : list byte) : res (list A) :=
  match p with
  | xH => bind (d bs) (fun a r => Ok [a] r)
  | xO q => bind (dec_pos d q bs) (fun l1 r1 => bind (dec_pos d q r1) (fun l2 r2 => Ok (l1 ++ l2) r2))
  | xI q => bind (d bs) (fun a r => bind (dec_pos d q r) (fun l1 r1 =>
            bind (dec_pos d q r1) (fun l2 r2 => Ok (a :: l1 ++ l2) r2)))
  end.
Definition dec_count {A : Type} (d : list byte -> res A) (n : N) (bs : list byte) : res (list A) :=
  match n with N0 => Ok [] bs | Npos p => dec_pos d p bs end.

Definition enc_all {A : Type} (c : codec A) (l : list A) : list byte := concat (map (enc c) l).
Definition size_all {A : Type} (c : codec A) (l : list A) : N := fold_right (fun a s => ssize c a + s) 0 l.
Definition nlen {A : Type} (l : list A) : N := N.of_nat (length l).

(** std::vector<T>, T not unsigned char: compact size + elements *)
Definition c_vec {A : Type} (c : codec A) : codec (list A) :=
  mk_codec (fun l => write_compact (nlen l) ++ enc_all c l)
           (fun bs => bind (read_compact bs) (dec_count (dec c)))
           (fun l => size_of_compact (nlen l) + size_all c l).

(** READWRITE(a); READWRITE(b) *)
Definition c_pair {A B : Type} (ca : codec A) (cb : codec B) : codec (A * B) :=
  mk_codec (fun x => enc ca (fst x) ++ enc cb (snd x))
           (fun bs => bind (dec ca bs) (fun a r => bind (dec cb r) (fun b r' => Ok (a, b) r')))
           (fun x => ssize ca (fst x) + ssize cb (snd x)).

(** the C++ struct behind a tuple of fields *)
Definition c_map {A B : Type} (f : A -> B) (g : B -> A) (c : codec A) : codec B :=
  mk_codec (fun b => enc c (g b)) (fun bs => bind (dec c bs) (fun a r => Ok (f a) r)) (fun b => ssize c (g b)).

(** ** Wire types of transaction.hpp / block.hpp *)
Record outpoint : Type := mk_outpoint { op_hash : list byte; op_n : N }.
Record txin : Type := mk_txin {
  ti_prevout : outpoint; ti_script : list byte; ti_seq : N;
  ti_wit : list (list byte)   (* scriptWitness: "Only serialized through CTransaction" *)
}.
Record txout : Type := mk_txout { to_value : Z; to_script : list byte }.
Record tx : Type := mk_tx { tx_vin : list txin; tx_vout : list txout; tx_version : Z; tx_locktime : N }.
Record header : Type := mk_header {
  h_version : Z; h_prev : list byte; h_merkle : list byte; h_time : N; h_bits : N; h_nonce : N }.
Record block : Type := mk_block { b_header : header; b_vtx : list tx }.

Definition c_u8 := c_uint 1.
Definition c_u32 := c_uint 4.
Definition c_i32 := c_sint 4.
Definition c_i64 := c_sint 8.
Definition c_u256 := c_blob 32.

Definition c_outpoint : codec outpoint :=
  c_map (fun p => mk_outpoint (fst p) (snd p)) (fun o => (op_hash o, op_n o)) (c_pair c_u256 c_u32).

(** TxIn::SerializationOp: prevout, scriptSig, nSequence — the witness is not part of it *)
Definition txin_core : Type := (outpoint * list byte * N)%type.
Definition core_of (i : txin) : txin_core := (ti_prevout i, ti_script i, ti_seq i).
Definition txin_of (c : txin_core) (w : list (list byte)) : txin := mk_txin (fst (fst c)) (snd (fst c)) (snd c) w.
Definition c_core : codec txin_core := c_pair (c_pair c_outpoint c_bytes) c_u32.
Definition c_txin : codec txin := c_map (fun c => txin_of c []) core_of c_core.

Definition c_txout : codec txout :=
  c_map (fun p => mk_txout (fst p) (snd p)) (fun o => (to_value o, to_script o)) (c_pair c_i64 c_bytes).

(** ScriptWitness = std::vector<std::vector<uint8_t>> *)
Definition c_wstack : codec (list (list byte)) := c_vec c_bytes.

Definition is_nil {A : Type} (l : list A) : bool := match l with [] => true | _ => false end.
(** Transaction::HasWitness on the list of witness stacks *)
Definition has_witness (ws : list (list (list byte))) : bool := existsb (fun w => negb (is_nil w)) ws.

Fixpoint zip_in (cs : list txin_core) (ws : list (list (list byte))) : list txin :=
  match cs with
  | [] => []
  | c :: cs' => txin_of c (hd [] ws) :: zip_in cs' (tl ws)
  end.

(** SerializeTransaction; [allow] = (s.getVersion() & SERIALIZE_TRANSACTION_NO_WITNESS) == 0 *)
Definition enc_tx (allow : bool) (t : tx) : list byte :=
  let cores := map core_of (tx_vin t) in
  let wits := map ti_wit (tx_vin t) in
  let flag := allow && has_witness wits in
  enc c_i32 (tx_version t)
  ++ (if flag then enc (c_vec c_core) [] ++ enc c_u8 1 else [])
  ++ enc (c_vec c_core) cores
  ++ enc (c_vec c_txout) (tx_vout t)
  ++ (if flag then enc_all c_wstack wits else [])
  ++ enc c_u32 (tx_locktime t).

(** the tail of UnserializeTransaction once vin, vout and the flags byte are known *)
Definition dec_tx_finish (allow : bool) (ver : Z) (cores : list txin_core) (vout : list txout) (flags : N)
           (bs : list byte) : res tx :=
  bind (if N.testbit flags 0 && allow
        then bind (dec_rep (dec c_wstack) (length cores) bs) (fun wits r =>
               if has_witness wits then Ok (wits, N.lxor flags 1) r else Err ESuperfluous)
        else Ok (map (fun _ => []) cores, flags) bs)
       (fun wf r =>
          if snd wf =? 0
          then bind (dec c_u32 r) (fun lt r' => Ok (mk_tx (zip_in cores (fst wf)) vout ver lt) r')
          else Err EUnknownOpt).

Definition dec_tx (allow : bool) (bs : list byte) : res tx :=
  bind (dec c_i32 bs) (fun ver r0 =>
  bind (dec (c_vec c_core) r0) (fun cores r1 =>
  if is_nil cores && allow
  then bind (dec c_u8 r1) (fun flags r2 =>
         if flags =? 0 then dec_tx_finish allow ver [] [] flags r2
         else bind (dec (c_vec c_core) r2) (fun cores' r3 =>
              bind (dec (c_vec c_txout) r3) (fun vout r4 =>
              dec_tx_finish allow ver cores' vout flags r4)))
  else bind (dec (c_vec c_txout) r1) (fun vout r2 => dec_tx_finish allow ver cores vout 0 r2))).

(** Transaction has no CSizeComputer path (CSizeComputer has GetVersion, SerializeTransaction asks getVersion):
    the size figure of the model is the encoded length by definition *)
Definition c_tx (allow : bool) : codec tx := mk_codec (enc_tx allow) (dec_tx allow) (fun t => blen (enc_tx allow t)).

Definition c_header : codec header :=
  c_map (fun p => match p with (v, pr, mr, t, b, n) => mk_header v pr mr t b n end)
        (fun h => (h_version h, h_prev h, h_merkle h, h_time h, h_bits h, h_nonce h))
        (c_pair (c_pair (c_pair (c_pair (c_pair c_i32 c_u256) c_u256) c_u32) c_u32) c_u32).

Definition c_block (allow : bool) : codec block :=
  c_map (fun p => mk_block (fst p) (snd p)) (fun b => (b_header b, b_vtx b)) (c_pair c_header (c_vec (c_tx allow))).

(** ** The specification every codec is proved against (BfiProofs.v)
    [wf] = the values the C++ type can hold and the reader accepts (widths, container sizes <= MAX_SIZE). *)
Definition codec_ok {A : Type} (c : codec A) (wf : A -> Prop) : Prop :=
  (forall a tl, wf a -> dec c (enc c a ++ tl) = Ok a tl) /\
  (forall a, ssize c a = blen (enc c a)) /\
  (forall bs a rest, dec c bs = Ok a rest -> wf a /\ bs = enc c a ++ rest).

Definition wf_uint (k : nat) (n : N) : Prop := n < 256 ^ N.of_nat k.
Definition wf_sint (k : nat) (z : Z) : Prop :=
  (- Z.of_N (256 ^ N.of_nat k) <= 2 * z < Z.of_N (256 ^ N.of_nat k))%Z.
Definition wf_compact (n : N) : Prop := n <= MAX_SIZE.
Definition wf_blob (k : nat) (l : list byte) : Prop := length l = k.
Definition wf_bytes (l : list byte) : Prop := blen l <= MAX_SIZE.
Definition wf_vec {A : Type} (wf : A -> Prop) (l : list A) : Prop := nlen l <= MAX_SIZE /\ Forall wf l.
Definition wf_pair {A B : Type} (wa : A -> Prop) (wb : B -> Prop) (x : A * B) : Prop := wa (fst x) /\ wb (snd x).

Definition wf_outpoint (o : outpoint) : Prop := wf_blob 32 (op_hash o) /\ wf_uint 4 (op_n o).
Definition wf_core (c : txin_core) : Prop :=
  wf_outpoint (fst (fst c)) /\ wf_bytes (snd (fst c)) /\ wf_uint 4 (snd c).
(** a TxIn serialized on its own loses its witness: the round trip holds for inputs without one *)
Definition wf_txin (i : txin) : Prop := wf_core (core_of i) /\ ti_wit i = [].
Definition wf_txout (o : txout) : Prop := wf_sint 8 (to_value o) /\ wf_bytes (to_script o).
Definition wf_wstack : list (list byte) -> Prop := wf_vec wf_bytes.
(** with witnesses allowed an empty vin is read as the marker of the extended format: a transaction with no
    inputs round-trips only when it has no outputs either; with SERIALIZE_TRANSACTION_NO_WITNESS the witness
    stacks are not written at all *)
Definition wf_tx (allow : bool) (t : tx) : Prop :=
  wf_sint 4 (tx_version t) /\ wf_vec wf_core (map core_of (tx_vin t)) /\ Forall wf_wstack (map ti_wit (tx_vin t)) /\
  wf_vec wf_txout (tx_vout t) /\ wf_uint 4 (tx_locktime t) /\
  (if allow then tx_vin t = [] -> tx_vout t = [] else has_witness (map ti_wit (tx_vin t)) = false).
Definition wf_header (h : header) : Prop :=
  wf_sint 4 (h_version h) /\ wf_blob 32 (h_prev h) /\ wf_blob 32 (h_merkle h) /\
  wf_uint 4 (h_time h) /\ wf_uint 4 (h_bits h) /\ wf_uint 4 (h_nonce h).
Definition wf_block (allow : bool) (b : block) : Prop := wf_header (b_header b) /\ wf_vec (wf_tx allow) (b_vtx b).
