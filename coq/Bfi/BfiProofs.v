(** Proofs about the BFI wire-format model (BfiDefs.v): bytes, little-endian integers, compact size,
    codec combinators. Wire types are in BfiWire.v-free form below (same file keeps the dependency chain short). *)
From Coq Require Import NArith ZArith List Bool Lia Strings.Byte.
From VB Require Import Bfi.BfiDefs.
Import ListNotations.
Local Open Scope N_scope.
Ltac Zify.zify_post_hook ::= Z.div_mod_to_equations.

(** ** bytes *)
Lemma to_N_lt : forall b, Byte.to_N b < 256.
Proof. intro b. pose proof (Byte.to_N_bounded b). lia. Qed.

Lemma byte_of_to_N : forall b, byte_of_N (Byte.to_N b) = b.
Proof.
  intro b. unfold byte_of_N. rewrite N.mod_small by apply to_N_lt. now rewrite Byte.of_to_N.
Qed.

Lemma to_N_byte_of : forall n, Byte.to_N (byte_of_N n) = n mod 256.
Proof.
  intro n. unfold byte_of_N.
  destruct (Byte.of_N (n mod 256)) eqn:E.
  - now apply Byte.to_of_N.
  - apply Byte.of_N_None_iff in E. assert (n mod 256 < 256) by (apply N.mod_lt; lia). lia.
Qed.

(** ** little-endian integers *)
Lemma le_bytes_length : forall k n, length (le_bytes k n) = k.
Proof. induction k; intro n; cbn [le_bytes length]; [reflexivity | now rewrite IHk]. Qed.

Lemma pow256_succ : forall k : nat, 256 ^ N.of_nat (S k) = 256 * 256 ^ N.of_nat k.
Proof. intro k. rewrite Nat2N.inj_succ. apply N.pow_succ_r'. Qed.

Lemma pow256_pos : forall k : nat, 0 < 256 ^ N.of_nat k.
Proof. intro k. apply N.neq_0_lt_0. apply N.pow_nonzero. lia. Qed.

Lemma le_val_bytes : forall k n, le_val (le_bytes k n) = n mod 256 ^ N.of_nat k.
Proof.
  induction k; intro n.
  - cbn [le_bytes le_val]. change (256 ^ N.of_nat 0) with 1. now rewrite N.mod_1_r.
  - cbn [le_bytes le_val]. rewrite IHk, to_N_byte_of, pow256_succ.
    pose proof (pow256_pos k) as Hp. set (P := 256 ^ N.of_nat k) in *.
    rewrite N.mod_mul_r by lia. reflexivity.
Qed.

Lemma le_val_lt : forall bs, le_val bs < 256 ^ N.of_nat (length bs).
Proof.
  induction bs as [|b r IH].
  - cbn. lia.
  - cbn [le_val length]. rewrite pow256_succ. pose proof (to_N_lt b). lia.
Qed.

Lemma le_bytes_val : forall bs, le_bytes (length bs) (le_val bs) = bs.
Proof.
  induction bs as [|b r IH].
  - reflexivity.
  - cbn [le_val length le_bytes]. pose proof (to_N_lt b) as Hb.
    assert (E1 : byte_of_N (Byte.to_N b + 256 * le_val r) = b).
    { rewrite <- (byte_of_to_N b) at 2. unfold byte_of_N.
      replace ((Byte.to_N b + 256 * le_val r) mod 256) with (Byte.to_N b mod 256); [reflexivity|].
      rewrite (N.mul_comm 256 (le_val r)), N.mod_add by lia. reflexivity. }
    assert (E2 : (Byte.to_N b + 256 * le_val r) / 256 = le_val r) by lia.
    now rewrite E1, E2, IH.
Qed.

Lemma take_spec : forall k bs,
  take k bs = if (length bs <? k)%nat then None else Some (firstn k bs, skipn k bs).
Proof.
  induction k as [|k IH]; intros bs.
  - cbn [take firstn skipn]. destruct (Nat.ltb_spec (length bs) 0); [lia|reflexivity].
  - destruct bs as [|b r]; [reflexivity|]. cbn [take length firstn skipn]. rewrite IH.
    change (S (length r) <? S k)%nat with (length r <? k)%nat.
    destruct (length r <? k)%nat; reflexivity.
Qed.

Lemma take_n_spec : forall bs n,
  take_n n bs = if blen bs <? n then None else Some (firstn (N.to_nat n) bs, skipn (N.to_nat n) bs).
Proof.
  induction bs as [|b r IH]; intros n.
  - cbn [take_n]. unfold blen. cbn [length]. destruct (N.eqb_spec n 0) as [->|Hn].
    + reflexivity.
    + destruct (N.ltb_spec (N.of_nat 0) n); [reflexivity|lia].
  - cbn [take_n]. destruct (N.eqb_spec n 0) as [->|Hn].
    + reflexivity.
    + rewrite IH. unfold blen. cbn [length].
      replace (N.to_nat n) with (S (N.to_nat (N.pred n))) by lia. cbn [firstn skipn].
      destruct (N.ltb_spec (N.of_nat (length r)) (N.pred n)); destruct (N.ltb_spec (N.of_nat (S (length r))) n);
        try lia; reflexivity.
Qed.

Lemma read_le_eq : forall k bs,
  read_le k bs = if (length bs <? k)%nat then Err EEof else Ok (le_val (firstn k bs)) (skipn k bs).
Proof. intros. unfold read_le. rewrite take_spec. destruct (length bs <? k)%nat; reflexivity. Qed.

Lemma read_bytes_eq : forall n bs,
  read_bytes n bs = if blen bs <? n then Err EEof else Ok (firstn (N.to_nat n) bs) (skipn (N.to_nat n) bs).
Proof. intros. unfold read_bytes. rewrite take_n_spec. destruct (blen bs <? n); reflexivity. Qed.

Lemma read_le_app : forall k n tl, read_le k (le_bytes k n ++ tl) = Ok (n mod 256 ^ N.of_nat k) tl.
Proof.
  intros k n tl. rewrite read_le_eq.
  assert (L : length (le_bytes k n) = k) by apply le_bytes_length.
  rewrite app_length, L.
  destruct (Nat.ltb_spec (k + length tl) k); [lia|].
  rewrite <- L at 1. rewrite firstn_app, L, Nat.sub_diag. cbn [firstn]. rewrite app_nil_r.
  rewrite <- L at 1. rewrite firstn_all, le_val_bytes.
  rewrite <- L at 2. rewrite skipn_app, L, Nat.sub_diag. cbn [skipn].
  rewrite <- L at 2. now rewrite skipn_all.
Qed.

Lemma read_le_inv : forall k bs v r, read_le k bs = Ok v r ->
  bs = le_bytes k v ++ r /\ v < 256 ^ N.of_nat k.
Proof.
  intros k bs v r H. rewrite read_le_eq in H.
  destruct (Nat.ltb_spec (length bs) k); [discriminate|]. inversion H; subst; clear H.
  assert (L : length (firstn k bs) = k) by (rewrite firstn_length; lia).
  split.
  - rewrite <- L at 1. rewrite le_bytes_val. symmetry. apply firstn_skipn.
  - rewrite <- L at 2. apply le_val_lt.
Qed.

Lemma read_le_eof_or_ok : forall k bs, (length bs < k)%nat -> read_le k bs = Err EEof.
Proof. intros k bs H. rewrite read_le_eq. destruct (Nat.ltb_spec (length bs) k); [reflexivity | lia]. Qed.

Lemma blen_app : forall a b, blen (a ++ b) = blen a + blen b.
Proof. intros. unfold blen. rewrite app_length. lia. Qed.

Lemma blen_le_bytes : forall k n, blen (le_bytes k n) = N.of_nat k.
Proof. intros. unfold blen. now rewrite le_bytes_length. Qed.

Lemma read_bytes_app : forall l tl, read_bytes (blen l) (l ++ tl) = Ok l tl.
Proof.
  intros l tl. rewrite read_bytes_eq. rewrite blen_app.
  destruct (N.ltb_spec (blen l + blen tl) (blen l)); [lia|].
  unfold blen. rewrite Nat2N.id.
  rewrite firstn_app, Nat.sub_diag, firstn_all. cbn [firstn]. rewrite app_nil_r.
  rewrite skipn_app, Nat.sub_diag, skipn_all. reflexivity.
Qed.

Lemma read_bytes_inv : forall n bs l r, read_bytes n bs = Ok l r -> bs = l ++ r /\ blen l = n.
Proof.
  intros n bs l r H. rewrite read_bytes_eq in H.
  destruct (N.ltb_spec (blen bs) n); [discriminate|]. inversion H; subst; clear H.
  split; [symmetry; apply firstn_skipn|].
  unfold blen in *. rewrite firstn_length. lia.
Qed.

(** ** compact size *)
Lemma b253 : Byte.to_N (byte_of_N 253) = 253. Proof. reflexivity. Qed.
Lemma b254 : Byte.to_N (byte_of_N 254) = 254. Proof. reflexivity. Qed.
Lemma b255 : Byte.to_N (byte_of_N 255) = 255. Proof. reflexivity. Qed.

Lemma p1 : 256 ^ N.of_nat 1 = 256. Proof. reflexivity. Qed.
Lemma p2 : 256 ^ N.of_nat 2 = 65536. Proof. reflexivity. Qed.
Lemma p4 : 256 ^ N.of_nat 4 = 4294967296. Proof. reflexivity. Qed.
Lemma p8 : 256 ^ N.of_nat 8 = 18446744073709551616. Proof. reflexivity. Qed.

Lemma read_le1_cons : forall b r, read_le 1 (b :: r) = Ok (Byte.to_N b) r.
Proof. intros. unfold read_le. cbn [take le_val]. f_equal. lia. Qed.

Lemma compact_size_length : forall n, blen (write_compact n) = size_of_compact n.
Proof.
  intro n. unfold write_compact, size_of_compact, blen.
  destruct (n <? 253); [now rewrite le_bytes_length|].
  destruct (n <=? 65535); [cbn [length]; now rewrite le_bytes_length|].
  destruct (n <=? 4294967295); cbn [length]; now rewrite le_bytes_length.
Qed.

Lemma compact_round_trip : forall n tl, n <= MAX_SIZE -> read_compact (write_compact n ++ tl) = Ok n tl.
Proof.
  intros n tl Hn. unfold MAX_SIZE in Hn. unfold write_compact.
  destruct (N.ltb_spec n 253) as [H1|H1].
  - unfold read_compact. rewrite read_le_app, p1. cbn [bind].
    rewrite N.mod_small by lia.
    destruct (N.ltb_spec n 253); [|lia]. cbn [bind].
    unfold MAX_SIZE. destruct (N.ltb_spec 33554432 n); [lia|reflexivity].
  - destruct (N.leb_spec n 65535) as [H2|H2].
    + cbn [app]. unfold read_compact. rewrite read_le1_cons. cbn [bind]. rewrite b253.
      change (253 <? 253) with false. change (253 =? 253) with true. cbv iota.
      unfold read_le_min. rewrite read_le_app, p2. cbn [bind]. rewrite N.mod_small by lia.
      destruct (N.ltb_spec n 253); [lia|]. cbn [bind].
      unfold MAX_SIZE. destruct (N.ltb_spec 33554432 n); [lia|reflexivity].
    + destruct (N.leb_spec n 4294967295) as [H3|H3]; [|lia].
      cbn [app]. unfold read_compact. rewrite read_le1_cons. cbn [bind]. rewrite b254.
      change (254 <? 253) with false. change (254 =? 253) with false. change (254 =? 254) with true. cbv iota.
      unfold read_le_min. rewrite read_le_app, p4. cbn [bind]. rewrite N.mod_small by lia.
      destruct (N.ltb_spec n 65536); [lia|]. cbn [bind].
      unfold MAX_SIZE. destruct (N.ltb_spec 33554432 n); [lia|reflexivity].
Qed.

Lemma read_le_min_inv : forall k lo bs v r, read_le_min k lo bs = Ok v r ->
  bs = le_bytes k v ++ r /\ v < 256 ^ N.of_nat k /\ lo <= v.
Proof.
  intros k lo bs v r H. unfold read_le_min in H.
  destruct (read_le k bs) as [v' r'|] eqn:E; cbn [bind] in H; [|discriminate].
  destruct (N.ltb_spec v' lo); [discriminate|]. inversion H; subst.
  apply read_le_inv in E. destruct E. auto.
Qed.

Lemma compact_canonical : forall bs n rest, read_compact bs = Ok n rest ->
  n <= MAX_SIZE /\ bs = write_compact n ++ rest.
Proof.
  intros bs n rest H. unfold read_compact in H.
  destruct bs as [|b r1]; [discriminate|].
  rewrite read_le1_cons in H. cbn [bind] in H.
  pose proof (to_N_lt b) as Hb. pose proof (byte_of_to_N b) as Eb.
  remember (Byte.to_N b) as ch eqn:Ech.
  assert (K : forall v r (X : res N), X = Ok v r ->
            bind X (fun v r => if MAX_SIZE <? v then Err ETooLarge else Ok v r) = Ok n rest ->
            v = n /\ r = rest /\ n <= MAX_SIZE).
  { intros v r X -> HX. cbn [bind] in HX. destruct (N.ltb_spec MAX_SIZE v); [discriminate|].
    inversion HX; subst. auto. }
  destruct (N.ltb_spec ch 253) as [H1|H1].
  - destruct (K _ _ _ eq_refl H) as (-> & -> & Hm). split; [exact Hm|].
    unfold write_compact. destruct (N.ltb_spec n 253); [|lia].
    cbn [le_bytes app]. now rewrite Eb.
  - destruct (N.eqb_spec ch 253) as [H2|H2].
    + destruct (read_le_min 2 253 r1) as [v r|] eqn:E; [|discriminate].
      destruct (K _ _ _ eq_refl H) as (-> & -> & Hm). split; [exact Hm|].
      apply read_le_min_inv in E. destruct E as (-> & Hv & Hlo). rewrite p2 in Hv.
      unfold write_compact. destruct (N.ltb_spec n 253); [lia|].
      destruct (N.leb_spec n 65535); [|lia].
      cbn [app]. now rewrite <- H2, Eb.
    + destruct (N.eqb_spec ch 254) as [H3|H3].
      * destruct (read_le_min 4 65536 r1) as [v r|] eqn:E; [|discriminate].
        destruct (K _ _ _ eq_refl H) as (-> & -> & Hm). split; [exact Hm|].
        apply read_le_min_inv in E. destruct E as (-> & Hv & Hlo). rewrite p4 in Hv.
        unfold write_compact. destruct (N.ltb_spec n 253); [lia|].
        destruct (N.leb_spec n 65535); [lia|].
        destruct (N.leb_spec n 4294967295); [|lia].
        cbn [app]. now rewrite <- H3, Eb.
      * destruct (read_le_min 8 4294967296 r1) as [v r|] eqn:E; [|discriminate].
        destruct (K _ _ _ eq_refl H) as (-> & -> & Hm).
        apply read_le_min_inv in E. destruct E as (_ & _ & Hlo). unfold MAX_SIZE in Hm. lia.
Qed.

Lemma compact_injective : forall n m r r', n <= MAX_SIZE -> m <= MAX_SIZE ->
  write_compact n ++ r = write_compact m ++ r' -> n = m /\ r = r'.
Proof.
  intros n m r r' Hn Hm E.
  pose proof (compact_round_trip n r Hn) as A. rewrite E, (compact_round_trip m r' Hm) in A.
  inversion A; auto.
Qed.

(** ** codecs *)
Lemma uint_ok : forall k, codec_ok (c_uint k) (wf_uint k).
Proof.
  intro k. unfold codec_ok, c_uint, wf_uint. cbn [enc dec ssize]. repeat split.
  - intros a tl Ha. rewrite read_le_app. now rewrite N.mod_small.
  - intro a. now rewrite blen_le_bytes.
  - apply read_le_inv in H. tauto.
  - apply read_le_inv in H. tauto.
Qed.

Lemma signed_unsigned : forall k z, wf_sint k z -> to_signed k (to_unsigned k z) = z.
Proof.
  intros k z H. unfold wf_sint, to_signed, to_unsigned in *.
  pose proof (pow256_pos k) as Hp. set (P := 256 ^ N.of_nat k) in *.
  destruct (Z.ltb_spec z 0).
  - assert (E : (z mod Z.of_N P = z + Z.of_N P)%Z).
    { replace z with ((z + Z.of_N P) + (-1) * Z.of_N P)%Z at 1 by lia.
      rewrite Z.mod_add by lia. apply Z.mod_small. lia. }
    rewrite E. destruct (N.ltb_spec (2 * Z.to_N (z + Z.of_N P)) P); lia.
  - assert (E : (z mod Z.of_N P = z)%Z) by (apply Z.mod_small; lia).
    rewrite E. destruct (N.ltb_spec (2 * Z.to_N z) P); lia.
Qed.

Lemma unsigned_signed : forall k n, n < 256 ^ N.of_nat k -> to_unsigned k (to_signed k n) = n /\ wf_sint k (to_signed k n).
Proof.
  intros k n H. unfold wf_sint, to_signed, to_unsigned in *.
  pose proof (pow256_pos k) as Hp. set (P := 256 ^ N.of_nat k) in *.
  destruct (N.ltb_spec (2 * n) P); split; try lia.
  - rewrite Z.mod_small by lia. lia.
  - replace (Z.of_N n - Z.of_N P)%Z with (Z.of_N n + (-1) * Z.of_N P)%Z by lia.
    rewrite Z.mod_add by lia. rewrite Z.mod_small by lia. lia.
Qed.

Lemma to_unsigned_lt : forall k z, to_unsigned k z < 256 ^ N.of_nat k.
Proof.
  intros k z. unfold to_unsigned. pose proof (pow256_pos k) as Hp. set (P := 256 ^ N.of_nat k) in *.
  pose proof (Z.mod_pos_bound z (Z.of_N P)). lia.
Qed.

Lemma sint_ok : forall k, codec_ok (c_sint k) (wf_sint k).
Proof.
  intro k. unfold codec_ok, c_sint. cbn [enc dec ssize]. split; [|split].
  - intros a tl Ha. rewrite read_le_app. cbn [bind].
    rewrite N.mod_small by apply to_unsigned_lt. now rewrite signed_unsigned.
  - intro a. now rewrite blen_le_bytes.
  - intros bs a rest H.
    destruct (read_le k bs) as [v r|] eqn:E; cbn [bind] in H; [|discriminate]. inversion H; subst.
    apply read_le_inv in E. destruct E as [-> Hv]. destruct (unsigned_signed k v Hv) as [E W].
    split; [exact W|]. now rewrite E.
Qed.

Lemma compact_ok : codec_ok c_compact wf_compact.
Proof.
  unfold codec_ok, c_compact, wf_compact. cbn [enc dec ssize]. repeat split.
  - intros. now apply compact_round_trip.
  - intro a. symmetry. apply compact_size_length.
  - now apply compact_canonical in H.
  - now apply compact_canonical in H.
Qed.

Lemma blob_ok : forall k, codec_ok (c_blob k) (wf_blob k).
Proof.
  intro k. unfold codec_ok, c_blob, wf_blob. cbn [enc dec ssize]. repeat split.
  - intros a tl Ha. rewrite <- Ha. apply read_bytes_app.
  - apply read_bytes_inv in H. destruct H as [_ H]. unfold blen in H. lia.
  - apply read_bytes_inv in H. tauto.
Qed.

Lemma bytes_ok : codec_ok c_bytes wf_bytes.
Proof.
  unfold codec_ok, c_bytes, wf_bytes. cbn [enc dec ssize]. repeat split.
  - intros a tl Ha. rewrite <- app_assoc, compact_round_trip by exact Ha. cbn [bind]. apply read_bytes_app.
  - intro a. now rewrite blen_app, compact_size_length.
  - destruct (read_compact bs) as [n r|] eqn:E; cbn [bind] in H; [|discriminate].
    apply compact_canonical in E. apply read_bytes_inv in H. destruct H as [_ ->]. tauto.
  - destruct (read_compact bs) as [n r|] eqn:E; cbn [bind] in H; [|discriminate].
    apply compact_canonical in E. apply read_bytes_inv in H. destruct E as [_ ->]. destruct H as [-> <-].
    now rewrite <- app_assoc.
Qed.

(** the element loop *)
Lemma dec_rep_app : forall A (d : list byte -> res A) n m bs,
  dec_rep d (n + m) bs =
  bind (dec_rep d n bs) (fun l1 r1 => bind (dec_rep d m r1) (fun l2 r2 => Ok (l1 ++ l2) r2)).
Proof.
  intros A d. induction n as [|n IH]; intros m bs.
  - cbn [Nat.add dec_rep bind]. destruct (dec_rep d m bs); reflexivity.
  - cbn [Nat.add dec_rep]. destruct (d bs) as [a r|]; cbn [bind]; [|reflexivity].
    rewrite IH. destruct (dec_rep d n r) as [l1 r1|]; cbn [bind]; [|reflexivity].
    destruct (dec_rep d m r1); reflexivity.
Qed.

Lemma dec_pos_rep : forall A (d : list byte -> res A) p bs, dec_pos d p bs = dec_rep d (Pos.to_nat p) bs.
Proof.
  intros A d. induction p as [q IH|q IH|]; intro bs.
  - rewrite Pos2Nat.inj_xI. cbn [dec_pos]. replace (S (2 * Pos.to_nat q))%nat with (S (Pos.to_nat q + Pos.to_nat q)) by lia.
    cbn [dec_rep]. destruct (d bs) as [a r|]; cbn [bind]; [|reflexivity].
    rewrite dec_rep_app, <- IH. destruct (dec_pos d q r) as [l1 r1|]; cbn [bind]; [|reflexivity].
    rewrite <- IH. destruct (dec_pos d q r1); reflexivity.
  - rewrite Pos2Nat.inj_xO. cbn [dec_pos]. replace (2 * Pos.to_nat q)%nat with (Pos.to_nat q + Pos.to_nat q)%nat by lia.
    rewrite dec_rep_app, <- IH. destruct (dec_pos d q bs) as [l1 r1|]; cbn [bind]; [|reflexivity].
    rewrite <- IH. reflexivity.
  - cbn [dec_pos]. change (Pos.to_nat 1) with 1%nat. cbn [dec_rep].
    destruct (d bs); reflexivity.
Qed.

Lemma dec_count_rep : forall A (d : list byte -> res A) n bs, dec_count d n bs = dec_rep d (N.to_nat n) bs.
Proof. intros A d [|p] bs; [reflexivity|]. cbn [dec_count N.to_nat]. apply dec_pos_rep. Qed.

Lemma dec_rep_enc_all : forall A (c : codec A) wf, codec_ok c wf -> forall l tl, Forall wf l ->
  dec_rep (dec c) (length l) (enc_all c l ++ tl) = Ok l tl.
Proof.
  intros A c wf [R _] l tl. induction 1 as [|a l Ha Hl IH].
  - reflexivity.
  - unfold enc_all in *. cbn [map concat length dec_rep]. rewrite <- app_assoc, R by exact Ha. cbn [bind].
    now rewrite IH.
Qed.

Lemma dec_rep_inv : forall A (c : codec A) wf, codec_ok c wf -> forall n bs l rest,
  dec_rep (dec c) n bs = Ok l rest -> Forall wf l /\ bs = enc_all c l ++ rest /\ length l = n.
Proof.
  intros A c wf (_ & _ & C). induction n as [|n IH]; intros bs l rest H.
  - cbn [dec_rep] in H. inversion H; subst. repeat split; constructor.
  - cbn [dec_rep] in H. destruct (dec c bs) as [a r|] eqn:E; cbn [bind] in H; [|discriminate].
    destruct (dec_rep (dec c) n r) as [l' r'|] eqn:E'; cbn [bind] in H; [|discriminate].
    inversion H; subst. apply C in E. destruct E as [Ha ->]. apply IH in E'. destruct E' as (Hl & -> & <-).
    repeat split; [now constructor|]. unfold enc_all. cbn [map concat]. now rewrite <- app_assoc.
Qed.

Lemma size_all_len : forall A (c : codec A) wf, codec_ok c wf -> forall l, size_all c l = blen (enc_all c l).
Proof.
  intros A c wf (_ & S & _) l. induction l as [|a l IH]; [reflexivity|].
  unfold enc_all in *. cbn [size_all fold_right map concat]. fold (size_all c l). now rewrite blen_app, IH, S.
Qed.

Lemma vec_ok : forall A (c : codec A) wf, codec_ok c wf -> codec_ok (c_vec c) (wf_vec wf).
Proof.
  intros A c wf Hc. unfold codec_ok, c_vec, wf_vec. cbn [enc dec ssize]. repeat split.
  - intros l tl [Hn Hl]. rewrite <- app_assoc, compact_round_trip by exact Hn. cbn [bind].
    rewrite dec_count_rep. unfold nlen. rewrite Nat2N.id. now apply dec_rep_enc_all with (wf := wf).
  - intro l. now rewrite blen_app, compact_size_length, (size_all_len _ c wf Hc).
  - destruct (read_compact bs) as [n r|] eqn:E; cbn [bind] in H; [|discriminate].
    apply compact_canonical in E. rewrite dec_count_rep in H. apply (dec_rep_inv _ c wf Hc) in H.
    destruct H as (_ & _ & L). unfold nlen. rewrite L. lia.
  - destruct (read_compact bs) as [n r|] eqn:E; cbn [bind] in H; [|discriminate].
    rewrite dec_count_rep in H. apply (dec_rep_inv _ c wf Hc) in H. tauto.
  - destruct (read_compact bs) as [n r|] eqn:E; cbn [bind] in H; [|discriminate].
    apply compact_canonical in E. rewrite dec_count_rep in H. apply (dec_rep_inv _ c wf Hc) in H.
    destruct E as [_ ->]. destruct H as (_ & -> & L). unfold nlen. rewrite L, N2Nat.id. now rewrite <- app_assoc.
Qed.

Lemma pair_ok : forall A B (ca : codec A) (cb : codec B) wa wb, codec_ok ca wa -> codec_ok cb wb ->
  codec_ok (c_pair ca cb) (wf_pair wa wb).
Proof.
  intros A B ca cb wa wb (Ra & Sa & Ca) (Rb & Sb & Cb). unfold codec_ok, c_pair, wf_pair. cbn [enc dec ssize]. repeat split.
  - intros [a b] tl [Ha Hb]. cbn [fst snd] in *. rewrite <- app_assoc, Ra by exact Ha. cbn [bind].
    now rewrite Rb by exact Hb.
  - intros [a b]. cbn [fst snd]. now rewrite blen_app, Sa, Sb.
  - destruct (dec ca bs) as [x r|] eqn:E; cbn [bind] in H; [|discriminate].
    destruct (dec cb r) as [y r'|] eqn:E'; cbn [bind] in H; [|discriminate]. inversion H; subst. cbn [fst].
    now apply Ca in E.
  - destruct (dec ca bs) as [x r|] eqn:E; cbn [bind] in H; [|discriminate].
    destruct (dec cb r) as [y r'|] eqn:E'; cbn [bind] in H; [|discriminate]. inversion H; subst. cbn [snd].
    now apply Cb in E'.
  - destruct (dec ca bs) as [x r|] eqn:E; cbn [bind] in H; [|discriminate].
    destruct (dec cb r) as [y r'|] eqn:E'; cbn [bind] in H; [|discriminate]. inversion H; subst. cbn [fst snd].
    apply Ca in E. apply Cb in E'. destruct E as [_ ->]. destruct E' as [_ ->]. now rewrite <- app_assoc.
Qed.

Lemma map_ok : forall A B (f : A -> B) (g : B -> A) (c : codec A) (wa : A -> Prop) (wb : B -> Prop),
  codec_ok c wa ->
  (forall b, wb b -> wa (g b) /\ f (g b) = b) ->
  (forall a, wa a -> wb (f a) /\ g (f a) = a) ->
  codec_ok (c_map f g c) wb.
Proof.
  intros A B f g c wa wb (R & S & C) Hb Ha. unfold codec_ok, c_map. cbn [enc dec ssize]. split; [|split].
  - intros b tl Wb. destruct (Hb b Wb) as [W E]. rewrite R by exact W. cbn [bind]. now rewrite E.
  - intro b. apply S.
  - intros bs b rest H.
    destruct (dec c bs) as [x r|] eqn:E; cbn [bind] in H; [|discriminate]. inversion H; subst.
    apply C in E. destruct E as [W ->]. destruct (Ha x W) as [Wb E]. split; [exact Wb|]. now rewrite E.
Qed.

(** consequences used as the property statements *)
Lemma codec_injective : forall A (c : codec A) wf, codec_ok c wf -> forall x y r r',
  wf x -> wf y -> enc c x ++ r = enc c y ++ r' -> x = y /\ r = r'.
Proof.
  intros A c wf (R & _ & _) x y r r' Hx Hy E.
  pose proof (R x r Hx) as P. rewrite E, (R y r' Hy) in P. inversion P; auto.
Qed.

Lemma codec_reencode_stable : forall A (c : codec A) wf, codec_ok c wf -> forall bs x rest tl,
  dec c bs = Ok x rest -> dec c (enc c x ++ tl) = Ok x tl.
Proof. intros A c wf (R & _ & C) bs x rest tl H. apply C in H. apply R. tauto. Qed.

(** ** the seeded writer (`nSize <= 253` takes the one-byte branch) violates all three compact-size facts at 253 *)
Example compact_le253_refuted :
  ~ (forall n tl, n <= MAX_SIZE -> read_compact (write_compact_le253 n ++ tl) = Ok n tl) /\
  ~ (forall n, blen (write_compact_le253 n) = size_of_compact n) /\
  ~ (forall n, n <= MAX_SIZE -> exists rest, read_compact (write_compact_le253 n) = Ok n rest).
Proof.
  split; [|split].
  - intro H. assert (L : 253 <= MAX_SIZE) by (unfold MAX_SIZE; lia).
    specialize (H 253 [] L). vm_compute in H. discriminate.
  - intro H. specialize (H 253). vm_compute in H. discriminate.
  - intro H. assert (L : 253 <= MAX_SIZE) by (unfold MAX_SIZE; lia).
    destruct (H 253 L) as [rest E]. vm_compute in E. discriminate.
Qed.

(** the premises of the codec theorems are satisfiable by non-trivial values: a vector of byte vectors with an
    empty and a 253-byte element (3-byte prefix) decodes back, with the tail untouched *)
Example vec_bytes_nontrivial :
  let v := [[x01; x02]; []; repeat xff 253] in
  wf_vec wf_bytes v /\
  dec (c_vec c_bytes) (enc (c_vec c_bytes) v ++ [xaa]) = Ok v [xaa] /\
  ssize (c_vec c_bytes) v = 261 /\ blen (enc (c_vec c_bytes) v) = 261.
Proof.
  cbv zeta. split; [|split; [|split]]; [| vm_compute; reflexivity ..].
  unfold wf_vec, wf_bytes, MAX_SIZE. split; [vm_compute; discriminate|].
  repeat constructor; vm_compute; discriminate.
Qed.
