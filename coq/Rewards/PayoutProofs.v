(** Score, difficulty, miner shares and the payout map: the calculator (any
    wrap function that is the identity below 2^256) equals the specification,
    for endorsement lists and chains of any length within the stated bounds. *)
From Coq Require Import ZArith List Bool Lia Permutation.
From VB Require Import Rewards.BigDecDefs Rewards.CalcDefs Rewards.SpecDefs Rewards.BoundsDefs
     Rewards.ArithProofs Rewards.MapProofs.
Import ListNotations.
Local Open Scope Z_scope.

(** ** side conditions on inputs as propositions *)
Definition heights_ok (ends : list Endorsement) : Prop :=
  forall e h, In e ends -> e_bop e = Some h -> 0 <= h < 2 ^ 31.
Definition ends_ok (ends : list Endorsement) : Prop :=
  Z.of_nat (length ends) < 2 ^ 32 /\ heights_ok ends.
Definition block_ok (b : Block) : Prop := 0 <= b_height b < 2 ^ 31 /\ ends_ok (b_ends b).
Definition chain_ok (c : list Block) : Prop := forall b, In b c -> block_ok b.

Lemma ends_okb_ok ends : ends_okb ends = true -> ends_ok ends.
Proof.
  unfold ends_okb. rewrite andb_true_iff, Z.ltb_lt, forallb_forall. intros [H1 H2]. split; [exact H1|].
  intros e h He Hb. specialize (H2 e He). rewrite Hb in H2.
  rewrite andb_true_iff, Z.leb_le, Z.ltb_lt in H2. exact H2.
Qed.

Lemma block_okb_ok b : block_okb b = true -> block_ok b.
Proof.
  unfold block_okb. rewrite !andb_true_iff, Z.leb_le, Z.ltb_lt. intros [[H1 H2] H3].
  split; [lia|apply ends_okb_ok, H3].
Qed.

Lemma chain_okb_ok c : chain_okb c = true -> chain_ok c.
Proof. unfold chain_okb. rewrite forallb_forall. intros H b Hb. apply block_okb_ok, H, Hb. Qed.

(** ** best publication height *)
Lemma fold_min_min h bp hs : fold_right Z.min (Z.min h bp) hs = Z.min h (fold_right Z.min bp hs).
Proof. induction hs as [|x r IH]; cbn [fold_right]; [reflexivity|]. rewrite IH. lia. Qed.

Lemma fold_min_le bp hs : fold_right Z.min bp hs <= bp /\ forall x, In x hs -> fold_right Z.min bp hs <= x.
Proof.
  induction hs as [|y r [IH1 IH2]]; cbn [fold_right]; split; try lia.
  - intros x [].
  - intros x [->|H]; [lia|]. specialize (IH2 x H). lia.
Qed.

Lemma fold_min_nonneg bp hs : 0 <= bp -> (forall x, In x hs -> 0 <= x) -> 0 <= fold_right Z.min bp hs.
Proof.
  intros Hb. induction hs as [|y r IH]; cbn [fold_right]; intros H; [exact Hb|].
  pose proof (H y (or_introl eq_refl)). specialize (IH (fun x Hx => H x (or_intror Hx))). lia.
Qed.

Lemma on_chain_heights ends : heights_ok ends -> forall ph, In ph (on_chain ends) -> 0 <= snd ph < 2 ^ 31.
Proof.
  induction ends as [|e r IH]; intros H ph; cbn [on_chain]; [intros []|].
  assert (Hr : heights_ok r) by (intros e' h' He'; apply (H e' h'); right; exact He').
  destruct (e_bop e) eqn:E; [|apply IH, Hr].
  intros [<-|Hin]; [cbn [snd]; apply (H e z); [left; reflexivity|exact E]|apply IH; assumption].
Qed.

Lemma best_pub_nonneg ends : forall bp, 0 <= bp -> heights_ok ends ->
  best_pub ends bp = fold_right Z.min bp (map snd (on_chain ends)).
Proof.
  induction ends as [|e r IH]; intros bp Hb H; cbn [best_pub on_chain]; [reflexivity|].
  assert (Hr : heights_ok r) by (intros e' h' He'; apply (H e' h'); right; exact He').
  destruct (e_bop e) eqn:E; [|apply IH; assumption].
  pose proof (H e z (or_introl eq_refl) E) as Hz.
  cbn [map snd fold_right].
  assert ((bp <? 0) = false) as -> by (apply Z.ltb_ge; lia). rewrite orb_false_r.
  assert ((if z <? bp then z else bp) = Z.min z bp) as ->.
  { destruct (z <? bp) eqn:E2; [apply Z.ltb_lt in E2|apply Z.ltb_ge in E2]; lia. }
  rewrite IH by (try assumption; lia). apply fold_min_min.
Qed.

Lemma best_pub_spec ends : heights_ok ends -> best_pub ends (-1) = spec_best (on_chain ends).
Proof.
  induction ends as [|e r IH]; intros H; cbn [best_pub on_chain]; [reflexivity|].
  assert (Hr : heights_ok r) by (intros e' h' He'; apply (H e' h'); right; exact He').
  destruct (e_bop e) eqn:E; [|apply IH, Hr].
  pose proof (H e z (or_introl eq_refl) E) as Hz.
  change (-1 <? 0) with true. rewrite orb_true_r. cbn [spec_best].
  apply best_pub_nonneg; [lia|exact Hr].
Qed.

Lemma spec_best_props v : (forall ph, In ph v -> 0 <= snd ph < 2 ^ 31) -> v <> [] ->
  0 <= spec_best v /\ forall ph, In ph v -> spec_best v <= snd ph.
Proof.
  destruct v as [|[pid h] r]; [congruence|]. intros H _. cbn [spec_best].
  pose proof (H (pid, h) (or_introl eq_refl)) as Hh. cbn [snd] in Hh.
  destruct (fold_min_le h (map snd r)) as [L1 L2]. split.
  - apply fold_min_nonneg; [lia|]. intros x Hx. apply in_map_iff in Hx. destruct Hx as (ph & <- & Hph).
    apply (H ph). right. exact Hph.
  - intros ph [<-|Hin]; [exact L1|]. apply L2, in_map, Hin.
Qed.

(** ** lookup table *)
Lemma weight_eq p rel : score_multiplier p rel = spec_weight p rel.
Proof.
  unfold score_multiplier, spec_weight.
  destruct (rel <? 0) eqn:E1, (Z.of_nat (length (p_table p)) <=? rel) eqn:E2, (0 <=? rel) eqn:E3,
           (rel <? Z.of_nat (length (p_table p))) eqn:E4; cbn [orb andb]; try reflexivity;
    apply Z.ltb_lt in E1 || apply Z.ltb_ge in E1; apply Z.leb_le in E2 || apply Z.leb_gt in E2;
    apply Z.leb_le in E3 || apply Z.leb_gt in E3; apply Z.ltb_lt in E4 || apply Z.ltb_ge in E4; lia.
Qed.

Lemma weight_u64 p rel : params_ok p -> u64 (spec_weight p rel).
Proof.
  intros Hp. unfold spec_weight.
  destruct ((0 <=? rel) && (rel <? Z.of_nat (length (p_table p)))) eqn:E; [|unfold u64; change (2 ^ 64) with 18446744073709551616; lia].
  rewrite andb_true_iff, Z.leb_le, Z.ltb_lt in E.
  apply (ok_table p Hp). apply nth_In. lia.
Qed.

Lemma zsum_app a l : zsum (a :: l) = a + zsum l. Proof. reflexivity. Qed.

Lemma zsum_bound (l : list Z) c : 0 <= c -> (forall x, In x l -> 0 <= x < c) -> 0 <= zsum l <= c * Z.of_nat (length l).
Proof.
  intros Hc. induction l as [|a r IH]; intros H.
  - unfold zsum. cbn. lia.
  - rewrite zsum_app. cbn [length]. specialize (IH (fun x Hx => H x (or_intror Hx))).
    pose proof (H a (or_introl eq_refl)). lia.
Qed.

Lemma on_chain_length ends : (length (on_chain ends) <= length ends)%nat.
Proof. induction ends as [|e r IH]; cbn [on_chain length]; [lia|]. destruct (e_bop e); cbn [length]; lia. Qed.

Section Payout.
  Variable w : Z -> Z.
  Hypothesis Hw : forall x, 0 <= x < two256 -> w x = x.
  Variable p : Params.
  Hypothesis Hp : params_ok p.

  Definition wsum (bp : Z) (v : list (Z * Z)) : Z := zsum (map (fun ph => spec_weight p (snd ph - bp)) v).

  Lemma wsum_bound bp v : 0 <= wsum bp v <= 2 ^ 64 * Z.of_nat (length v).
  Proof.
    unfold wsum. rewrite <- (map_length (fun ph => spec_weight p (snd ph - bp)) v).
    apply zsum_bound; [lia|]. intros x Hx. apply in_map_iff in Hx. destruct Hx as (ph & <- & _).
    apply (weight_u64 p _ Hp).
  Qed.

  (** *** scoreFromEndorsements *)
  Lemma score_loop_spec bp ends : forall t,
    (forall e h, In e ends -> e_bop e = Some h -> bp <= h) ->
    0 <= t -> t + 2 ^ 64 * Z.of_nat (length ends) < 2 ^ 128 ->
    score_loop w p bp ends t = Ok (t + wsum bp (on_chain ends)).
  Proof.
    induction ends as [|e r IH]; intros t Hb Ht Hlen; cbn [score_loop on_chain].
    - unfold wsum, zsum. cbn. f_equal. lia.
    - assert (Hbr : forall e' h', In e' r -> e_bop e' = Some h' -> bp <= h') by (intros e' h' He'; apply (Hb e' h'); right; exact He').
      cbn [length] in Hlen. rewrite Nat2Z.inj_succ in Hlen.
      destruct (e_bop e) eqn:E.
      + pose proof (Hb e z (or_introl eq_refl) E).
        assert ((z - bp <? 0) = false) as -> by (apply Z.ltb_ge; lia).
        rewrite weight_eq. pose proof (weight_u64 p (z - bp) Hp) as Hwt. unfold u64 in Hwt.
        unfold bd_add. rewrite (w_small w Hw) by lia.
        rewrite IH by (try assumption; lia).
        f_equal. unfold wsum. cbn [map snd]. rewrite zsum_app. lia.
      + apply IH; try assumption. lia.
  Qed.

  Lemma score_spec ends : ends_ok ends ->
    score_from_endorsements w p ends = Ok (spec_score p ends) /\ 0 <= spec_score p ends < 2 ^ 96.
  Proof.
    intros [Hlen Hh]. unfold score_from_endorsements, spec_score. rewrite (best_pub_spec _ Hh).
    pose proof (wsum_bound (spec_best (on_chain ends)) (on_chain ends)) as Hb. fold (wsum (spec_best (on_chain ends)) (on_chain ends)).
    pose proof (on_chain_length ends) as Hl.
    assert (Hlt : wsum (spec_best (on_chain ends)) (on_chain ends) < 2 ^ 96).
    { change (2 ^ 96) with (2 ^ 64 * 2 ^ 32). change (2 ^ 64) with 18446744073709551616 in *. change (2 ^ 32) with 4294967296 in *. nia. }
    split; [|lia].
    destruct (on_chain ends) as [|ph v] eqn:Ev.
    - cbn [spec_best]. change (-1 <? 0) with true. cbv iota. reflexivity.
    - destruct (spec_best_props (ph :: v)) as [S1 S2]; [rewrite <- Ev; apply on_chain_heights, Hh|congruence|].
      assert ((spec_best (ph :: v) <? 0) = false) as -> by (apply Z.ltb_ge; exact S1).
      rewrite score_loop_spec.
      + rewrite Ev. reflexivity.
      + intros e h He Hb'. apply (S2 (e_pid e, h)). rewrite <- Ev.
        clear - He Hb'. induction ends as [|e0 r IH]; [destruct He|]. cbn [on_chain].
        destruct He as [->|He]; [rewrite Hb'; left; reflexivity|].
        destruct (e_bop e0); [right|]; apply IH, He.
      + lia.
      + change (2 ^ 128) with (2 ^ 64 * 2 ^ 64). change (2 ^ 64) with 18446744073709551616 in *. change (2 ^ 32) with 4294967296 in *. lia.
  Qed.

  (** *** calculateDifficulty *)
  Definition ssum (bs : list Block) : Z := zsum (map (fun b => spec_score p (b_ends b)) bs).

  Lemma difficulty_loop_spec : forall n prevs t, chain_ok prevs ->
    0 <= t -> t + 2 ^ 96 * Z.of_nat n < 2 ^ 128 ->
    difficulty_loop w p n prevs t = Ok (t + ssum (firstn n prevs)) /\
    0 <= ssum (firstn n prevs) <= 2 ^ 96 * Z.of_nat n.
  Proof.
    induction n as [|n IH]; intros prevs t Hc Ht Hb.
    - cbn [difficulty_loop firstn]. unfold ssum, zsum. cbn. split; [f_equal; lia|lia].
    - destruct prevs as [|b r]; cbn [difficulty_loop firstn].
      + unfold ssum, zsum. cbn [map fold_right]. split; [f_equal; lia|lia].
      + destruct (score_spec (b_ends b)) as [Hs Hsb]; [apply (Hc b), or_introl, eq_refl|].
        rewrite Hs. cbn [bind]. rewrite Nat2Z.inj_succ in Hb.
        unfold bd_add. rewrite (w_small w Hw) by lia.
        destruct (IH r (t + spec_score p (b_ends b))) as [I1 I2]; [intros b' Hb'; apply Hc; right; exact Hb'|lia|lia|].
        rewrite I1. unfold ssum in *. cbn [map]. rewrite zsum_app. rewrite Nat2Z.inj_succ. split; [f_equal; lia|lia].
  Qed.

  Lemma difficulty_spec prevs : chain_ok prevs ->
    calc_difficulty w p prevs = Ok (spec_difficulty p prevs) /\ 0 <= spec_difficulty p prevs.
  Proof.
    intros Hc. pose proof (ok_interval p Hp) as Hi.
    unfold calc_difficulty, spec_difficulty. fold (ssum (firstn (Z.to_nat (p_interval p)) prevs)).
    destruct (difficulty_loop_spec (Z.to_nat (p_interval p)) prevs 0 Hc) as [D1 D2]; [lia| |].
    { rewrite Z2Nat.id by lia. change (2 ^ 128) with (2 ^ 96 * 2 ^ 32). change (2 ^ 96) with 79228162514264337593543950336.
      change (2 ^ 32) with 4294967296 in *. lia. }
    rewrite D1. cbn [bind]. rewrite Z.add_0_l. rewrite Z2Nat.id in D2 by lia.
    set (tot := ssum (firstn (Z.to_nat (p_interval p)) prevs)) in *.
    assert (Htot : 0 <= tot < 2 ^ 128).
    { change (2 ^ 128) with (2 ^ 96 * 2 ^ 32). change (2 ^ 96) with 79228162514264337593543950336 in *.
      change (2 ^ 32) with 4294967296 in *. lia. }
    unfold bd_of_u64. rewrite (w_mul w Hw) by (try apply DEC_128; change (2 ^ 128) with 340282366920938463463374607431768211456; change (2 ^ 32) with 4294967296 in *; lia).
    unfold bd_div. assert ((p_interval p * DEC =? 0) = false) as -> by (apply Z.eqb_neq; rewrite DEC_val; lia).
    rewrite (w_mul w Hw) by (try apply DEC_128; assumption). cbn [bind].
    rewrite Z.div_mul_cancel_r by (rewrite ?DEC_val; lia).
    assert (Hmax : forall d, (if d <? ONE then ONE else d) = Z.max ONE d).
    { intros d. destruct (d <? ONE) eqn:E; [apply Z.ltb_lt in E|apply Z.ltb_ge in E]; lia. }
    rewrite Hmax. split; [reflexivity|]. change ONE with 100000000. lia.
  Qed.

  (** *** calculateMinerReward *)
  Lemma miner_spec rel s br : 0 <= rel < 2 ^ 31 -> 0 <= s < 2 ^ 128 -> 0 <= br < 2 ^ 64 ->
    miner_reward w p (wrap32 rel) s br = Ok (spec_share br s (spec_weight p rel)).
  Proof.
    intros Hr Hs Hb. unfold miner_reward, spec_share.
    destruct (s =? 0) eqn:E0; [reflexivity|]. apply Z.eqb_neq in E0.
    assert (to_int32 (wrap32 rel) = rel) as ->.
    { unfold to_int32, wrap32, two32. change (2 ^ 31) with 2147483648 in *. change (2 ^ 32) with 4294967296.
      rewrite Z.mod_mod by lia. rewrite Z.mod_small by lia.
      assert ((rel <? 2147483648) = true) as -> by (apply Z.ltb_lt; lia). reflexivity. }
    rewrite weight_eq. pose proof (weight_u64 p rel Hp) as Hwt64. pose proof (u64_128 _ Hwt64) as Hwt.
    assert (Hb128 : 0 <= br < 2 ^ 128) by (apply u64_128; exact Hb).
    rewrite (bd_mul_fx w Hw) by assumption.
    apply (bd_div_fx w Hw); [|lia].
    split; [apply fx_mul_nonneg; lia|].
    unfold fx_mul. apply Z.div_lt_upper_bound; [rewrite DEC_val; lia|].
    unfold u64 in *. change (2 ^ 128) with (2 ^ 64 * 2 ^ 64).
    change (2 ^ 64) with 18446744073709551616 in *. rewrite DEC_val. nia.
  Qed.

  (** one share never exceeds its exact proportion *)
  Lemma share_le br s wgt : 0 <= br -> 0 <= s -> 0 <= wgt ->
    0 <= spec_share br s wgt /\ s * spec_share br s wgt <= br * wgt.
  Proof.
    intros Hb Hs Hwg. unfold spec_share. destruct (s =? 0) eqn:E0; [split; nia|]. apply Z.eqb_neq in E0.
    unfold fx_div, fx_mul. rewrite DEC_val.
    assert (H1 : 0 <= br * wgt / 100000000) by (apply Z.div_pos; nia).
    assert (H2 : br * wgt / 100000000 * 100000000 <= br * wgt).
    { rewrite Z.mul_comm. apply Z.mul_div_le. lia. }
    split; [apply Z.div_pos; nia|].
    pose proof (Z.mul_div_le (br * wgt / 100000000 * 100000000) s ltac:(lia)). lia.
  Qed.

  (** *** payout loop *)
  Definition share_of (bp s br : Z) (ph : Z * Z) : Z := low64 (spec_share br s (spec_weight p (snd ph - bp))).

  Lemma payout_loop_spec bp s br ends : forall m,
    (forall e h, In e ends -> e_bop e = Some h -> bp <= h < 2 ^ 31) -> 0 <= bp ->
    0 <= s < 2 ^ 128 -> 0 <= br < 2 ^ 64 ->
    payout_loop w p bp s br ends m = Ok (fold_left (step (share_of bp s br)) (on_chain ends) m).
  Proof.
    induction ends as [|e r IH]; intros m Hb Hbp Hs Hbr; cbn [payout_loop on_chain fold_left]; [reflexivity|].
    assert (Hbr' : forall e' h', In e' r -> e_bop e' = Some h' -> bp <= h' < 2 ^ 31) by (intros e' h' He'; apply (Hb e' h'); right; exact He').
    destruct (e_bop e) eqn:E; [|apply IH; assumption].
    pose proof (Hb e z (or_introl eq_refl) E).
    assert ((z - bp <? 0) = false) as -> by (apply Z.ltb_ge; lia).
    rewrite miner_spec by (try assumption; lia). cbn [bind fold_left].
    rewrite IH by assumption. reflexivity.
  Qed.

  (** *** calculatePayouts = specification *)
  Lemma calc_payouts_spec b prevs : block_ok b -> chain_ok prevs ->
    calc_payouts w p b prevs = Ok (spec_payout_map p b prevs).
  Proof.
    intros [Hh [Hlen Hhs]] Hc. unfold calc_payouts, spec_payout_map.
    destruct (score_spec (b_ends b) (conj Hlen Hhs)) as [Hs Hsb]. rewrite Hs. cbn [bind].
    destruct (difficulty_spec prevs Hc) as [Hd Hdb]. rewrite Hd. cbn [bind].
    unfold payouts_inner. rewrite (best_pub_spec _ Hhs).
    destruct (on_chain (b_ends b)) as [|ph v] eqn:Ev.
    - cbn [spec_best]. change (-1 <? 0) with true. reflexivity.
    - destruct (spec_best_props (ph :: v)) as [S1 S2]; [rewrite <- Ev; apply on_chain_heights, Hhs|congruence|].
      assert ((spec_best (ph :: v) <? 0) = false) as -> by (apply Z.ltb_ge; exact S1).
      assert (wrap32 (b_height b) = b_height b) as ->.
      { unfold wrap32, two32. apply Z.mod_small. change (2 ^ 31) with 2147483648 in *. change (2 ^ 32) with 4294967296. lia. }
      assert (Hs128 : 0 <= spec_score p (b_ends b) < 2 ^ 128).
      { change (2 ^ 96) with 79228162514264337593543950336 in *. change (2 ^ 128) with 340282366920938463463374607431768211456. lia. }
      rewrite (block_reward_spec w Hw p Hp) by assumption. cbn [bind].
      destruct (block_reward_cap p Hp (b_height b) (spec_score p (b_ends b)) (spec_difficulty p prevs)) as [[C1 C2] C3]; try lia.
      rewrite payout_loop_spec; try assumption; try lia.
      + rewrite Ev. reflexivity.
      + intros e h He Hb'. split.
        * apply (S2 (e_pid e, h)). rewrite <- Ev.
          clear - He Hb'. induction (b_ends b) as [|e0 r IH]; [destruct He|]. cbn [on_chain].
          destruct He as [->|He]; [rewrite Hb'; left; reflexivity|].
          destruct (e_bop e0); [right|]; apply IH, He.
        * apply (Hhs e h He Hb').
  Qed.
End Payout.

(** u256_refines_Z: under the bounds the library's 256-bit arithmetic and exact
    integer arithmetic give the same payouts *)
Lemma wrap256_small x : 0 <= x < two256 -> wrap256 x = x.
Proof. intros. unfold wrap256. apply Z.mod_small. assumption. Qed.

Lemma calc_payouts_refines p b prevs : params_ok p -> block_ok b -> chain_ok prevs ->
  calc_payouts wrap256 p b prevs = calc_payouts (fun z => z) p b prevs.
Proof.
  intros Hp Hb Hc.
  rewrite (calc_payouts_spec wrap256 wrap256_small p Hp b prevs Hb Hc).
  rewrite (calc_payouts_spec (fun z => z) (fun x _ => eq_refl) p Hp b prevs Hb Hc). reflexivity.
Qed.

Lemma block_reward_refines p h s d : params_ok p -> 0 <= h < 2 ^ 31 -> 0 <= s < 2 ^ 128 -> 0 <= d ->
  block_reward wrap256 p h s d = block_reward (fun z => z) p h s d.
Proof.
  intros Hp Hh Hs Hd.
  rewrite (block_reward_spec wrap256 wrap256_small p Hp h s d Hh Hs Hd).
  rewrite (block_reward_spec (fun z => z) (fun x _ => eq_refl) p Hp h s d Hh Hs Hd). reflexivity.
Qed.
