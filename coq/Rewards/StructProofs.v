(** Structural facts about the calculator model that hold for EVERY wrap
    function, parameter set and input (no bounds): endorsements whose block of
    proof is not on the best VBK chain are ignored; a block without counted
    endorsements pays nothing; the payout map adds up equal payout infos. *)
From Coq Require Import ZArith List Bool Lia Permutation.
From VB Require Import Rewards.BigDecDefs Rewards.CalcDefs Rewards.SpecDefs.
Import ListNotations.
Local Open Scope Z_scope.

Definition counted (e : Endorsement) : bool := match e_bop e with Some _ => true | None => false end.
Definition strip_block (b : Block) : Block := {| b_height := b_height b; b_ends := filter counted (b_ends b) |}.

Lemma best_pub_strip ends : forall bp, best_pub (filter counted ends) bp = best_pub ends bp.
Proof.
  induction ends as [|e r IH]; intros bp; cbn [filter best_pub]; [reflexivity|].
  unfold counted at 1. destruct (e_bop e) eqn:E; cbn [best_pub]; rewrite ?E; apply IH.
Qed.

Lemma best_pub_none ends bp : (forall e, In e ends -> e_bop e = None) -> best_pub ends bp = bp.
Proof.
  induction ends as [|e r IH]; intros H; cbn [best_pub]; [reflexivity|].
  rewrite (H e (or_introl eq_refl)). apply IH. intros e' He'. apply H. right. exact He'.
Qed.

Section AnyWrap.
  Variable w : Z -> Z.

  Lemma score_loop_strip p bp ends : forall t,
    score_loop w p bp (filter counted ends) t = score_loop w p bp ends t.
  Proof.
    induction ends as [|e r IH]; intros t; cbn [filter score_loop]; [reflexivity|].
    unfold counted at 1. destruct (e_bop e) eqn:E; cbn [score_loop]; rewrite ?E.
    - destruct (z - bp <? 0); [reflexivity|apply IH].
    - apply IH.
  Qed.

  Lemma score_strip p ends :
    score_from_endorsements w p (filter counted ends) = score_from_endorsements w p ends.
  Proof. unfold score_from_endorsements. rewrite best_pub_strip, score_loop_strip. reflexivity. Qed.

  Lemma payout_loop_strip p bp s br ends : forall m,
    payout_loop w p bp s br (filter counted ends) m = payout_loop w p bp s br ends m.
  Proof.
    induction ends as [|e r IH]; intros m; cbn [filter payout_loop]; [reflexivity|].
    unfold counted at 1. destruct (e_bop e) eqn:E; cbn [payout_loop]; rewrite ?E.
    - destruct (z - bp <? 0); [reflexivity|].
      destruct (miner_reward w p (wrap32 (z - bp)) s br); cbn [bind]; try reflexivity. apply IH.
    - apply IH.
  Qed.

  Lemma difficulty_loop_strip p : forall n prevs t,
    difficulty_loop w p n (map strip_block prevs) t = difficulty_loop w p n prevs t.
  Proof.
    induction n as [|n IH]; intros prevs t; destruct prevs as [|b r]; cbn [map difficulty_loop]; try reflexivity.
    cbn [strip_block b_ends]. rewrite score_strip.
    destruct (score_from_endorsements w p (b_ends b)); cbn [bind]; try reflexivity. apply IH.
  Qed.

  Lemma payouts_inner_strip p b s d : payouts_inner w p (strip_block b) s d = payouts_inner w p b s d.
  Proof.
    unfold payouts_inner. cbn [strip_block b_ends b_height]. rewrite best_pub_strip.
    destruct (best_pub (b_ends b) (-1) <? 0); [reflexivity|].
    destruct (block_reward w p (wrap32 (b_height b)) s d); cbn [bind]; try reflexivity.
    apply payout_loop_strip.
  Qed.

  Lemma calc_payouts_strip p b prevs :
    calc_payouts w p (strip_block b) (map strip_block prevs) = calc_payouts w p b prevs.
  Proof.
    unfold calc_payouts. cbn [strip_block b_ends]. rewrite score_strip.
    destruct (score_from_endorsements w p (b_ends b)); cbn [bind]; try reflexivity.
    unfold calc_difficulty. rewrite difficulty_loop_strip.
    destruct (difficulty_loop w p (Z.to_nat (p_interval p)) prevs 0); cbn [bind]; try reflexivity.
    destruct (bd_div w a0 (bd_of_u64 w (p_interval p))); cbn [bind]; try reflexivity.
    apply (payouts_inner_strip p b).
  Qed.

  (** only_best_chain_endorsements: deleting every endorsement whose block of
      proof is not on the best VBK chain, anywhere in the chain, changes nothing *)
  Lemma get_pop_payout_strip p chain :
    get_pop_payout w p (map strip_block chain) = get_pop_payout w p chain.
  Proof.
    unfold get_pop_payout. destruct chain as [|tip r]; [reflexivity|].
    change (map strip_block (tip :: r)) with (strip_block tip :: map strip_block r).
    cbn [strip_block b_height].
    destruct ((p_delay p - 1 <? 0) || (b_height tip <? p_delay p - 1)); [reflexivity|].
    change (strip_block tip :: map strip_block r) with (map strip_block (tip :: r)).
    rewrite nth_error_map. destruct (nth_error (tip :: r) (Z.to_nat (p_delay p - 1))) as [e|]; cbn [option_map]; [|reflexivity].
    cbn [strip_block b_height].
    destruct (wrap32 (b_height tip) <? wrap32 (b_height e + p_settle p - 1)); [reflexivity|].
    rewrite skipn_map. apply calc_payouts_strip.
  Qed.

  (** no_endorsement_no_pay *)
  Lemma payouts_inner_none p b s d :
    (forall e, In e (b_ends b) -> e_bop e = None) -> payouts_inner w p b s d = Ok [].
  Proof. intros H. unfold payouts_inner. rewrite (best_pub_none _ _ H). reflexivity. Qed.

  Lemma calc_payouts_none p b prevs m :
    (forall e, In e (b_ends b) -> e_bop e = None) -> calc_payouts w p b prevs = Ok m -> m = [].
  Proof.
    intros H. unfold calc_payouts.
    destruct (score_from_endorsements w p (b_ends b)); cbn [bind]; try discriminate.
    destruct (calc_difficulty w p prevs); cbn [bind]; try discriminate.
    rewrite (payouts_inner_none p b a a0 H). intros E. inversion E. reflexivity.
  Qed.

  Lemma get_pop_payout_none p chain m :
    (forall e b, nth_error chain (Z.to_nat (p_delay p - 1)) = Some b -> In e (b_ends b) -> e_bop e = None) ->
    get_pop_payout w p chain = Ok m -> m = [].
  Proof.
    intros H. unfold get_pop_payout. destruct chain as [|tip r]; [discriminate|].
    destruct ((p_delay p - 1 <? 0) || (b_height tip <? p_delay p - 1)); [intros E; inversion E; reflexivity|].
    destruct (nth_error (tip :: r) (Z.to_nat (p_delay p - 1))) as [e|] eqn:En; [|intros E; inversion E; reflexivity].
    destruct (wrap32 (b_height tip) <? wrap32 (b_height e + p_settle p - 1)); [discriminate|].
    apply calc_payouts_none. intros e0 He0. exact (H e0 e eq_refl He0).
  Qed.
End AnyWrap.

