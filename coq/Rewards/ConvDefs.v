(** PopRewardsBigDecimal(double b) : value((uint64_t)(b * decimals)) with Coq's
    primitive binary64 floats: one IEEE multiplication by 1e8 (exact double),
    truncation toward zero, [None] where the C++ conversion is undefined
    (NaN, infinities, truncated value outside uint64_t).  Not extractable
    (primitive floats): evaluated inside Coq on the doubles of every run.
    [lit_double num den] is the double a compiler produces for the decimal
    literal whose value is num/(den*1e8): both operands of the division are
    exactly representable when num, den*1e8 < 2^53, and IEEE division rounds the
    exact quotient to nearest, as the literal conversion does.  No proofs here. *)
From Coq Require Import ZArith Bool List Floats Uint63.
Import ListNotations.
Local Open Scope Z_scope.

Definition cv_1e8 : float := 0x1.7d784p+26%float.

Definition cv_trunc (x : float) : option Z :=
  match Prim2SF x with
  | S754_zero _ => Some 0
  | S754_finite s m e =>
    let v := if 0 <=? e then Zpos m * 2 ^ e else Zpos m / 2 ^ (- e) in
    Some (if s then - v else v)
  | _ => None
  end.

Definition conv_double (d : float) : option Z :=
  match cv_trunc (PrimFloat.mul d cv_1e8) with
  | Some v => if (0 <=? v) && (v <? 2 ^ 64) then Some v else None
  | None => None
  end.

Definition lit_double (num den : Z) : float :=
  PrimFloat.div (PrimFloat.of_uint63 (Uint63.of_Z num))
                (PrimFloat.mul (PrimFloat.of_uint63 (Uint63.of_Z den)) cv_1e8).

Definition conv_lit (num den : Z) : option Z :=
  if (0 <=? num) && (num <? 2 ^ 53) && (0 <? den) && (den <? 2 ^ 26) then conv_double (lit_double num den) else None.

Fixpoint conv_lits (nums dens : list Z) : list (option Z) :=
  match nums, dens with
  | n :: nr, d :: dr => conv_lit n d :: conv_lits nr dr
  | _, _ => []
  end.
