(** Default parameter set (from the generated constants) and the decidable
    side conditions under which the theorems of C14 are stated.  No proofs. *)
From Coq Require Import ZArith List Bool.
From VB Require Import Gen.RewardParams Rewards.BigDecDefs Rewards.CalcDefs Rewards.SpecDefs.
Import ListNotations.
Local Open Scope Z_scope.

(** PopPayoutsParams{} inside AltChainParams defaults, as the library converts them *)
Definition default_params : Params := {|
  p_ki := gen_keystoneInterval;
  p_settle := gen_endorsementSettlementInterval;
  p_delay := gen_popPayoutDelay;
  p_start := gen_startOfSlope_conv;
  p_slopeN := gen_slopeNormal_conv;
  p_slopeK := gen_slopeKeystone_conv;
  p_kround := gen_keystoneRound;
  p_rounds := gen_payoutRounds;
  p_flatround := gen_flatScoreRound;
  p_useflat := gen_useFlatScoreRound;
  p_ratios := gen_roundRatios_conv;
  p_thrN := gen_maxScoreThresholdNormal_conv;
  p_thrK := gen_maxScoreThresholdKeystone_conv;
  p_interval := gen_difficultyAveragingInterval;
  p_table := gen_lookupTable_conv
|}.

Definition in_u64 (z : Z) : bool := (0 <=? z) && (z <? 2 ^ 64).
Definition in_u32 (z : Z) : bool := (0 <=? z) && (z <? 2 ^ 32).

(** parameter bounds: every converted double is a uint64_t (always true of
    (uint64_t)(d*1e8)); counters are uint32_t; keystone interval and averaging
    interval are positive; the thresholds are not below the start of the slope
    (otherwise calculateSlopeRatio's VBK_ASSERT can fire); every round that can
    occur has a ratio (otherwise vector::at throws); the capped block reward of
    every round fits 64 bits (payout amounts are uint64_t). *)
Definition params_okb (p : Params) : bool :=
  (0 <? p_ki p) && in_u32 (p_ki p) && in_u32 (p_kround p) && in_u32 (p_rounds p) && in_u32 (p_flatround p) &&
  (0 <? p_interval p) && in_u32 (p_interval p) &&
  in_u64 (p_start p) && in_u64 (p_slopeN p) && in_u64 (p_slopeK p) && in_u64 (p_thrN p) && in_u64 (p_thrK p) &&
  forallb in_u64 (p_ratios p) && forallb in_u64 (p_table p) &&
  (p_start p <=? p_thrN p) && (p_start p <=? p_thrK p) &&
  (p_kround p <? Z.of_nat (length (p_ratios p))) &&
  (0 <? Z.of_nat (length (p_ratios p))) && (p_rounds p - 1 <=? Z.of_nat (length (p_ratios p))) &&
  (Z.of_nat (length (p_table p)) <? 2 ^ 31) &&
  forallb (fun rr => fx_mul (Z.max (p_start p) (Z.max (p_thrN p) (p_thrK p))) rr <? 2 ^ 64) (p_ratios p).

(** endorsement bounds: VBK heights are non-negative ints, fewer than 2^32 endorsements per block *)
Definition ends_okb (ends : list Endorsement) : bool :=
  (Z.of_nat (length ends) <? 2 ^ 32) &&
  forallb (fun e => match e_bop e with None => true | Some h => (0 <=? h) && (h <? 2 ^ 31) end) ends.

Definition block_okb (b : Block) : bool :=
  (0 <=? b_height b) && (b_height b <? 2 ^ 31) && ends_okb (b_ends b).

Definition chain_okb (c : list Block) : bool := forallb block_okb c.
