(** PopRewardsBigDecimal (include/veriblock/pop/rewards/poprewards_bigdecimal.hpp)
    as coded: a fixed-point decimal with scale 10^8 whose [value] is an
    ArithUint256.  Values are [Z] in [0, 2^256); every ArithUint256 operation
    that can wrap is written with an explicit wrap function [w], so that the
    same text instantiated with [w := wrap256] is the library's arithmetic and
    with [w := id] is exact integer arithmetic (used to state "no wrap").
    ArithUint256::operator/= throws uint_error on a zero divisor: [Throw].
    Executable; no proofs in this file. *)
From Coq Require Import ZArith List.
Local Open Scope Z_scope.

Definition two256 : Z := 2 ^ 256.
Definition two64 : Z := 2 ^ 64.
Definition two32 : Z := 2 ^ 32.
Definition wrap256 (z : Z) : Z := z mod two256.
Definition wrap64 (z : Z) : Z := z mod two64.
Definition wrap32 (z : Z) : Z := z mod two32.
(** uint32_t -> int (two's complement reinterpretation, gcc) *)
Definition to_int32 (z : Z) : Z := let u := wrap32 z in if u <? 2 ^ 31 then u else u - two32.

(** PopRewardsBigDecimal::decimals *)
Definition DEC : Z := 100000000.
(** PopRewardsBigDecimal(1.0).value, PopRewardsBigDecimal(0.0).value *)
Definition ONE : Z := 100000000.

(** what a call can do besides returning: an exception escapes ([Throw]:
    uint_error "Division by zero", std::out_of_range of vector::at), a
    VBK_ASSERT / assert fires and the process terminates ([Abort]), an integer
    [%] or [/] by zero is executed ([Fpe], undefined behaviour / SIGFPE) *)
Inductive outcome (A : Type) : Type :=
| Ok (a : A)
| Throw
| Abort
| Fpe.
Arguments Ok {A} a.
Arguments Throw {A}.
Arguments Abort {A}.
Arguments Fpe {A}.

Definition bind {A B : Type} (x : outcome A) (f : A -> outcome B) : outcome B :=
  match x with Ok a => f a | Throw => Throw | Abort => Abort | Fpe => Fpe end.
Notation "'do' x <- e ; f" := (bind e (fun x => f)) (at level 200, x name, e at level 100, f at level 200).

Section BigDec.
  (** the wrap of ArithUint256: [wrap256] for the library, [id] for exact arithmetic *)
  Variable w : Z -> Z.

  (** PopRewardsBigDecimal(uint64_t b) : value(ArithUint256(b) * decimals) *)
  Definition bd_of_u64 (b : Z) : Z := w (b * DEC).
  (** operator+= : value += b.value *)
  Definition bd_add (a b : Z) : Z := w (a + b).
  (** operator-= : value -= b.value (wraps below zero) *)
  Definition bd_sub (a b : Z) : Z := w (a - b).
  (** operator*= : value *= b.value; value /= decimals *)
  Definition bd_mul (a b : Z) : Z := w (a * b) / DEC.
  (** operator/= : value *= decimals; value /= b.value  (throws on b = 0) *)
  Definition bd_div (a b : Z) : outcome Z :=
    if b =? 0 then Throw else Ok (w (a * DEC) / b).
End BigDec.

(** ArithUint256::getLow64 *)
Definition low64 (v : Z) : Z := wrap64 v.
(** getIntegerFraction / getDecimalFraction *)
Definition bd_integer_fraction (v : Z) : Z := low64 (v / DEC).
Definition bd_decimal_fraction (v : Z) : Z := low64 (wrap256 (v - wrap256 (bd_integer_fraction v * DEC))).
