(** The POP reward SPECIFICATION, written independently of the calculator's
    control flow: by regime, over exact integers (no 256-bit wrap), in the 1e8
    fixed point of the library ("evaluated in the library's fixed-point
    arithmetic": every product of two fixed-point numbers is divided by 1e8
    rounding down, every quotient is the numerator times 1e8 divided rounding
    down).  No outcome type: the specification is a total function; the theorems
    say for which inputs the calculator returns exactly this.  No proofs here.

    Reward formula (VeriBlock POP payout, per endorsed ALT block at height h):
      round(h)      = keystone round when h is a keystone, else (h mod ki) mod (rounds-1)
      x             = score / max(1, difficulty)                    (relative score)
      flat round    : x = 1 whatever score and difficulty are
      x <= start    : reward = x * ratio(round)                     (linear part)
      x >  start    : xc = min(x, threshold(round));                 (threshold cap)
                      penalty = min(1, slope(round) * (xc - start))
                      reward = (1 - penalty) * xc * ratio(round)
      score = sum of weight(relative VBK publication height) over the endorsements
              whose block of proof is on the best VBK chain; relative to the
              lowest such height; weight = lookup table, 0 beyond the table
      difficulty = max(1, (sum of the scores of the [interval] preceding blocks) / interval)
      miner share = reward * weight / score;  equal payout infos are added up. *)
From Coq Require Import ZArith List Bool.
From VB Require Import Rewards.BigDecDefs Rewards.CalcDefs.
Import ListNotations.
Local Open Scope Z_scope.

(** fixed-point product and quotient, exact *)
Definition fx_mul (a b : Z) : Z := a * b / DEC.
Definition fx_div (a b : Z) : Z := a * DEC / b.

Definition spec_round (p : Params) (h : Z) : Z :=
  if h mod p_ki p =? 0 then p_kround p
  else if p_rounds p <=? 1 then 0
  else (h mod p_ki p) mod (p_rounds p - 1).

(** the flat-score rule applies in the flat round, but only inside the first
    [rounds] blocks after a keystone *)
Definition spec_is_flat (p : Params) (h : Z) : bool :=
  p_useflat p && (spec_round p h =? p_flatround p) &&
  ((p_rounds p =? 0) || (h mod p_ki p <? p_rounds p)).

Definition spec_ratio (p : Params) (r : Z) : Z := nth (Z.to_nat r) (p_ratios p) 0.
Definition spec_threshold (p : Params) (r : Z) : Z := if r =? p_kround p then p_thrK p else p_thrN p.
Definition spec_slope (p : Params) (r : Z) : Z := if r =? p_kround p then p_slopeK p else p_slopeN p.

(** reward as a function of the relative score [x] in round [r] *)
Definition spec_curve (p : Params) (r x : Z) : Z :=
  if x <=? p_start p then fx_mul x (spec_ratio p r)
  else
    let xc := Z.min x (spec_threshold p r) in
    let penalty := Z.min ONE (fx_mul (spec_slope p r) (xc - p_start p)) in
    fx_mul (fx_mul (ONE - penalty) xc) (spec_ratio p r).

Definition spec_block_reward (p : Params) (h score diff : Z) : Z :=
  let r := spec_round p h in
  if spec_is_flat p h then spec_curve p r ONE
  else if score =? 0 then 0
  else spec_curve p r (fx_div score (Z.max ONE diff)).

(** the capped block reward of round [r]: the curve never exceeds it *)
Definition spec_cap (p : Params) (r : Z) : Z :=
  fx_mul (Z.max (p_start p) (spec_threshold p r)) (spec_ratio p r).

(** endorsements that count: block of proof on the best VBK chain *)
Fixpoint on_chain (ends : list Endorsement) : list (Z * Z) :=
  match ends with
  | [] => []
  | e :: r => match e_bop e with Some h => (e_pid e, h) :: on_chain r | None => on_chain r end
  end.

(** lowest publication height; -1 when nothing counts *)
Definition spec_best (v : list (Z * Z)) : Z :=
  match v with [] => -1 | (_, h) :: r => fold_right Z.min h (map snd r) end.

Definition spec_weight (p : Params) (rel : Z) : Z :=
  if (0 <=? rel) && (rel <? Z.of_nat (length (p_table p))) then nth (Z.to_nat rel) (p_table p) 0 else 0.

Definition zsum (l : list Z) : Z := fold_right Z.add 0 l.

Definition spec_score (p : Params) (ends : list Endorsement) : Z :=
  let v := on_chain ends in
  zsum (map (fun ph => spec_weight p (snd ph - spec_best v)) v).

Definition spec_difficulty (p : Params) (prevs : list Block) : Z :=
  Z.max ONE (zsum (map (fun b => spec_score p (b_ends b)) (firstn (Z.to_nat (p_interval p)) prevs)) / p_interval p).

(** share of one endorsement with table weight [wgt] *)
Definition spec_share (breward score wgt : Z) : Z :=
  if score =? 0 then 0 else fx_div (fx_mul breward wgt) score.

(** total paid to payout info [pid] for endorsed block [b] whose predecessors are [prevs] *)
Definition spec_paid (p : Params) (b : Block) (prevs : list Block) (pid : Z) : Z :=
  let v := on_chain (b_ends b) in
  let s := spec_score p (b_ends b) in
  let br := spec_block_reward p (b_height b) s (spec_difficulty p prevs) in
  zsum (map (fun ph => spec_share br s (spec_weight p (snd ph - spec_best v)))
            (filter (fun ph => fst ph =? pid) v)).

(** the payout map: shares inserted per endorsement, equal payout infos added
    up in uint64_t, keys kept sorted *)
Definition spec_payout_map (p : Params) (b : Block) (prevs : list Block) : list (Z * Z) :=
  let v := on_chain (b_ends b) in
  let s := spec_score p (b_ends b) in
  let br := spec_block_reward p (b_height b) s (spec_difficulty p prevs) in
  fold_left (fun m ph => map_add (fst ph) (low64 (spec_share br s (spec_weight p (snd ph - spec_best v)))) m) v [].

(** who is paid *)
Definition spec_payees (b : Block) : list Z := map fst (on_chain (b_ends b)).

(** the endorsed block of getPopPayout: [delay - 1] blocks behind the tip *)
Definition spec_endorsed (p : Params) (chain : list Block) : option (Block * list Block) :=
  if p_delay p <=? 0 then None
  else match skipn (Z.to_nat (p_delay p - 1)) chain with
       | [] => None
       | e :: prevs => Some (e, prevs)
       end.
