(** Facts about the double -> fixed-point conversion model. *)
From Coq Require Import ZArith Bool List Floats Lia.
From VB Require Import Gen.RewardParams Rewards.BigDecDefs Rewards.CalcDefs Rewards.SpecDefs Rewards.BoundsDefs Rewards.ConvDefs.
Import ListNotations.
Local Open Scope Z_scope.

(** whenever the conversion is defined its result is a uint64_t: the in_u64 conjuncts of params_okb
    hold for every converted parameter *)
Lemma conv_double_u64 d z : conv_double d = Some z -> in_u64 z = true.
Proof.
  unfold conv_double, in_u64. destruct (cv_trunc (d * cv_1e8)) as [v|]; [|discriminate].
  destruct ((0 <=? v) && (v <? 2 ^ 64)) eqn:E; [|discriminate]. intros H; injection H as <-. exact E.
Qed.

(** the converted defaults of Gen/RewardParams.v (computed by the generator's mirror) are what the float
    model computes from the decimal literals of the source *)
Lemma default_conversion :
  conv_lit gen_startOfSlope_lit_num gen_startOfSlope_lit_den = Some (p_start default_params) /\
  conv_lit gen_slopeNormal_lit_num gen_slopeNormal_lit_den = Some (p_slopeN default_params) /\
  conv_lit gen_slopeKeystone_lit_num gen_slopeKeystone_lit_den = Some (p_slopeK default_params) /\
  conv_lit gen_maxScoreThresholdNormal_lit_num gen_maxScoreThresholdNormal_lit_den = Some (p_thrN default_params) /\
  conv_lit gen_maxScoreThresholdKeystone_lit_num gen_maxScoreThresholdKeystone_lit_den = Some (p_thrK default_params) /\
  conv_lits gen_roundRatios_lit_num gen_roundRatios_lit_den = map Some (p_ratios default_params) /\
  conv_lits gen_lookupTable_lit_num gen_lookupTable_lit_den = map Some (p_table default_params).
Proof. vm_compute. repeat split; reflexivity. Qed.

(** "the converted value is the decimal literal times 1e8" is false: the product is rounded, then truncated *)
Lemma conversion_exact_refuted :
  exists num den z, In (num, den) (combine gen_lookupTable_lit_num gen_lookupTable_lit_den) /\
    conv_lit num den = Some z /\ z * den < num.
Proof.
  exists 6766428, 1, 6766427. split; [|split; [vm_compute; reflexivity|lia]].
  vm_compute. tauto.
Qed.

Example conv_satisfiable :
  conv_double 0x1.b4bc6a7ef9db2p-3%float = Some 21325000 /\ conv_double 0x1p-1%float = Some 50000000 /\
  conv_double (-0x1p+0)%float = None /\ conv_double 0x1p+40%float = None /\ conv_double nan = None.
Proof. vm_compute. repeat split; reflexivity. Qed.
