(** Block reward: the calculator (any wrap function that is the identity below
    2^256, in particular [wrap256] and [id]) equals the specification; the
    specification never exceeds the capped block reward. *)
From Coq Require Import ZArith List Bool Lia.
From VB Require Import Rewards.BigDecDefs Rewards.CalcDefs Rewards.SpecDefs Rewards.BoundsDefs.
Import ListNotations.
Local Open Scope Z_scope.

(** ** the side conditions as propositions *)
Definition u64 (z : Z) : Prop := 0 <= z < 2 ^ 64.

Record params_ok (p : Params) : Prop := {
  ok_ki : 0 < p_ki p < 2 ^ 32;
  ok_kround : 0 <= p_kround p < 2 ^ 32;
  ok_rounds : 0 <= p_rounds p < 2 ^ 32;
  ok_flat : 0 <= p_flatround p < 2 ^ 32;
  ok_interval : 0 < p_interval p < 2 ^ 32;
  ok_start : u64 (p_start p);
  ok_slopeN : u64 (p_slopeN p);
  ok_slopeK : u64 (p_slopeK p);
  ok_thrN : u64 (p_thrN p);
  ok_thrK : u64 (p_thrK p);
  ok_ratios : forall x, In x (p_ratios p) -> u64 x;
  ok_table : forall x, In x (p_table p) -> u64 x;
  ok_start_thrN : p_start p <= p_thrN p;
  ok_start_thrK : p_start p <= p_thrK p;
  ok_kround_ratio : p_kround p < Z.of_nat (length (p_ratios p));
  ok_some_ratio : 0 < Z.of_nat (length (p_ratios p));
  ok_rounds_ratio : p_rounds p - 1 <= Z.of_nat (length (p_ratios p));
  ok_table_len : Z.of_nat (length (p_table p)) < 2 ^ 31;
  ok_cap : forall rr, In rr (p_ratios p) ->
           fx_mul (Z.max (p_start p) (Z.max (p_thrN p) (p_thrK p))) rr < 2 ^ 64
}.

Lemma in_u64_spec z : in_u64 z = true -> u64 z.
Proof. unfold in_u64, u64. rewrite andb_true_iff, Z.leb_le, Z.ltb_lt. tauto. Qed.

Lemma in_u32_spec z : in_u32 z = true -> 0 <= z < 2 ^ 32.
Proof. unfold in_u32. rewrite andb_true_iff, Z.leb_le, Z.ltb_lt. tauto. Qed.

Lemma params_okb_ok p : params_okb p = true -> params_ok p.
Proof.
  unfold params_okb. rewrite !andb_true_iff.
  intros [[[[[[[[[[[[[[[[[[[[H1 H2] H3] H4] H5] H6] H7] H8] H9] H10] H11] H12] H13] H14] H15] H16] H17] H18] H19] H20] H21].
  apply Z.ltb_lt in H1, H6, H17, H18, H20. apply Z.leb_le in H15, H16, H19.
  apply in_u32_spec in H2, H3, H4, H5, H7. apply in_u64_spec in H8, H9, H10, H11, H12.
  rewrite forallb_forall in H13, H14, H21.
  constructor; try assumption; try lia.
  - intros x Hx. apply in_u64_spec, H13, Hx.
  - intros x Hx. apply in_u64_spec, H14, Hx.
  - intros rr Hrr. apply Z.ltb_lt, H21, Hrr.
Qed.

(** ** small arithmetic facts *)
Lemma DEC_val : DEC = 100000000. Proof. reflexivity. Qed.
Lemma ONE_DEC : ONE = DEC. Proof. reflexivity. Qed.

Lemma mul128 a b : 0 <= a < 2 ^ 128 -> 0 <= b < 2 ^ 128 -> 0 <= a * b < two256.
Proof.
  intros Ha Hb. split; [nia|].
  unfold two256. change (2 ^ 256) with (2 ^ 128 * 2 ^ 128).
  apply Z.mul_lt_mono_nonneg; lia.
Qed.

Lemma div_DEC_le a : 0 <= a -> 0 <= a / DEC <= a.
Proof.
  intros Ha. rewrite DEC_val. split.
  - apply Z.div_pos; lia.
  - apply Z.div_le_upper_bound; lia.
Qed.

Lemma fx_mul_nonneg a b : 0 <= a -> 0 <= b -> 0 <= fx_mul a b.
Proof. intros. unfold fx_mul. rewrite DEC_val. apply Z.div_pos; nia. Qed.

Lemma fx_mul_mono_l a a' b : 0 <= a <= a' -> 0 <= b -> fx_mul a b <= fx_mul a' b.
Proof. intros. unfold fx_mul. rewrite DEC_val. apply Z.div_le_mono; nia. Qed.

Lemma fx_mul_le_r a b : 0 <= a <= ONE -> 0 <= b -> fx_mul a b <= b.
Proof.
  intros Ha Hb. unfold fx_mul. rewrite DEC_val. change ONE with 100000000 in Ha.
  apply Z.div_le_upper_bound; nia.
Qed.

Lemma u64_128 z : u64 z -> 0 <= z < 2 ^ 128.
Proof. unfold u64. intros. change (2 ^ 64) with 18446744073709551616 in *. change (2 ^ 128) with 340282366920938463463374607431768211456. lia. Qed.

Lemma DEC_128 : 0 <= DEC < 2 ^ 128.
Proof. rewrite DEC_val. change (2 ^ 128) with 340282366920938463463374607431768211456. lia. Qed.

Section Arith.
  Variable w : Z -> Z.
  Hypothesis Hw : forall x, 0 <= x < two256 -> w x = x.

  Lemma w_mul a b : 0 <= a < 2 ^ 128 -> 0 <= b < 2 ^ 128 -> w (a * b) = a * b.
  Proof. intros. apply Hw, mul128; assumption. Qed.

  Lemma w_small a : 0 <= a < 2 ^ 128 -> w a = a.
  Proof.
    intros. apply Hw. unfold two256. change (2 ^ 256) with (2 ^ 128 * 2 ^ 128).
    change (2 ^ 128) with 340282366920938463463374607431768211456 in *. lia.
  Qed.

  Lemma bd_mul_fx a b : 0 <= a < 2 ^ 128 -> 0 <= b < 2 ^ 128 -> bd_mul w a b = fx_mul a b.
  Proof. intros. unfold bd_mul, fx_mul. rewrite w_mul by assumption. reflexivity. Qed.

  Lemma bd_div_fx a b : 0 <= a < 2 ^ 128 -> 0 < b -> bd_div w a b = Ok (fx_div a b).
  Proof.
    intros Ha Hb. unfold bd_div, fx_div.
    assert ((b =? 0) = false) as -> by (apply Z.eqb_neq; lia).
    rewrite w_mul by (auto using DEC_128). reflexivity.
  Qed.

  Variable p : Params.
  Hypothesis Hp : params_ok p.

  (** *** rounds *)
  Lemma round_ok h : 0 <= h < 2 ^ 31 ->
    round_for_block p h = Ok (spec_round p h) /\
    0 <= spec_round p h < Z.of_nat (length (p_ratios p)).
  Proof.
    intros Hh. pose proof (ok_ki p Hp) as Hki. pose proof (ok_kround p Hp) as Hkr.
    pose proof (ok_kround_ratio p Hp). pose proof (ok_some_ratio p Hp). pose proof (ok_rounds_ratio p Hp).
    unfold round_for_block, is_keystone, spec_round, to_int32, wrap32, two32.
    change (2 ^ 31) with 2147483648 in *. change (2 ^ 32) with 4294967296 in *.
    rewrite (Z.mod_small h 4294967296) by lia.
    assert ((h <? 2147483648) = true) as -> by (apply Z.ltb_lt; lia).
    assert ((h <? 0) = false) as -> by (apply Z.ltb_ge; lia).
    assert ((p_ki p =? 0) = false) as -> by (apply Z.eqb_neq; lia).
    rewrite (Z.mod_small h 4294967296) by lia. cbn [bind].
    destruct (h mod p_ki p =? 0) eqn:Hk; [split; [reflexivity|lia]|].
    destruct (p_rounds p <=? 1) eqn:Hr; [split; [reflexivity|lia]|].
    apply Z.leb_gt in Hr. apply Z.eqb_neq in Hk.
    assert ((h <=? 0) = false) as ->.
    { apply Z.leb_gt. destruct (Z.eq_dec h 0) as [->|]; [rewrite Z.mod_0_l in Hk by lia; lia|lia]. }
    split; [reflexivity|].
    pose proof (Z.mod_pos_bound (h mod p_ki p) (p_rounds p - 1) ltac:(lia)). lia.
  Qed.

  Lemma flat_ok h : 0 <= h < 2 ^ 31 ->
    (if p_useflat p && (spec_round p h =? p_flatround p) then first_round_after_keystone p h else Ok false)
    = Ok (spec_is_flat p h).
  Proof.
    intros Hh. pose proof (ok_ki p Hp) as Hki. pose proof (ok_rounds p Hp) as Hr.
    unfold spec_is_flat, first_round_after_keystone.
    destruct (p_useflat p && (spec_round p h =? p_flatround p)); [|reflexivity].
    assert ((p_ki p =? 0) = false) as -> by (apply Z.eqb_neq; lia).
    cbn [andb]. destruct (p_rounds p =? 0) eqn:H0; [reflexivity|].
    apply Z.eqb_neq in H0. cbn [orb]. f_equal.
    pose proof (Z.mod_pos_bound h (p_ki p) ltac:(lia)) as Hm.
    destruct (h mod p_ki p <? p_rounds p) eqn:Hlt.
    - apply Z.ltb_lt in Hlt. apply Z.eqb_eq. apply Z.div_small. lia.
    - apply Z.ltb_ge in Hlt. apply Z.eqb_neq. intros Hd.
      apply Z.div_small_iff in Hd; lia.
  Qed.

  Lemma ratio_ok r : 0 <= r < Z.of_nat (length (p_ratios p)) ->
    round_ratio p r = Ok (spec_ratio p r) /\ u64 (spec_ratio p r) /\ In (spec_ratio p r) (p_ratios p).
  Proof.
    intros Hr. unfold round_ratio, spec_ratio.
    assert (Hn : (Z.to_nat r < length (p_ratios p))%nat) by lia.
    destruct (nth_error (p_ratios p) (Z.to_nat r)) as [x|] eqn:E.
    - rewrite (nth_error_nth _ _ 0 E). pose proof (nth_error_In _ _ E) as Hin.
      split; [reflexivity|]. split; [apply (ok_ratios p Hp), Hin|exact Hin].
    - apply nth_error_None in E. lia.
  Qed.

  Lemma thr_ok r : u64 (spec_threshold p r) /\ p_start p <= spec_threshold p r /\
                   spec_threshold p r <= Z.max (p_thrN p) (p_thrK p).
  Proof.
    unfold spec_threshold. destruct (r =? p_kround p);
      [pose proof (ok_thrK p Hp); pose proof (ok_start_thrK p Hp)|pose proof (ok_thrN p Hp); pose proof (ok_start_thrN p Hp)];
      repeat split; try tauto; try lia; unfold u64 in *; lia.
  Qed.

  Lemma slope_okv r : u64 (spec_slope p r).
  Proof. unfold spec_slope. destruct (r =? p_kround p); [apply (ok_slopeK p Hp)|apply (ok_slopeN p Hp)]. Qed.

  (** *** the reward curve *)
  Lemma curve_ok r x : 0 <= r < Z.of_nat (length (p_ratios p)) -> 0 <= x < 2 ^ 128 ->
    (do sl <- (if p_start p <? x then
                 let thr := max_score_threshold p r in
                 let std := if thr <? x then thr else x in
                 do s <- slope_ratio w p std r; Ok (s, std)
               else Ok (ONE, x));
     Ok (bd_mul w (bd_mul w (fst sl) (snd sl)) (spec_ratio p r)))
    = Ok (spec_curve p r x).
  Proof.
    intros Hr Hx. destruct (ratio_ok r Hr) as (_ & Hrr & _). apply u64_128 in Hrr.
    pose proof (ok_start p Hp) as Hs. unfold u64 in Hs.
    unfold spec_curve.
    destruct (p_start p <? x) eqn:Hsx.
    - apply Z.ltb_lt in Hsx.
      assert ((x <=? p_start p) = false) as -> by (apply Z.leb_gt; lia).
      cbv zeta. change (max_score_threshold p r) with (spec_threshold p r).
      destruct (thr_ok r) as (Ht & Hst & _). apply u64_128 in Ht.
      assert (Hmin : (if spec_threshold p r <? x then spec_threshold p r else x) = Z.min x (spec_threshold p r)).
      { destruct (spec_threshold p r <? x) eqn:E; [apply Z.ltb_lt in E|apply Z.ltb_ge in E]; lia. }
      rewrite Hmin. set (xc := Z.min x (spec_threshold p r)).
      assert (Hxc : p_start p <= xc /\ 0 <= xc < 2 ^ 128) by (subst xc; lia).
      unfold slope_ratio.
      assert ((xc <? p_start p) = false) as -> by (apply Z.ltb_ge; lia).
      change (round_slope p r) with (spec_slope p r).
      pose proof (slope_okv r) as Hsl. apply u64_128 in Hsl.
      assert (Hsub : bd_sub w xc (p_start p) = xc - p_start p) by (unfold bd_sub; apply w_small; lia).
      rewrite !Hsub. rewrite !bd_mul_fx by lia.
      set (d := fx_mul (spec_slope p r) (xc - p_start p)).
      assert (Hd : 0 <= d) by (subst d; apply fx_mul_nonneg; lia).
      assert (Hmin2 : (if ONE <? d then ONE else d) = Z.min ONE d).
      { destruct (ONE <? d) eqn:E; [apply Z.ltb_lt in E|apply Z.ltb_ge in E]; lia. }
      rewrite Hmin2. set (pen := Z.min ONE d).
      assert (Hpen : 0 <= pen <= ONE) by (subst pen; change ONE with 100000000 in *; lia).
      assert (H1 : 0 <= ONE - pen < 2 ^ 128) by (change ONE with 100000000 in *; change (2 ^ 128) with 340282366920938463463374607431768211456; lia).
      assert (Hsub2 : bd_sub w ONE pen = ONE - pen) by (unfold bd_sub; apply w_small; exact H1).
      rewrite Hsub2. cbn [bind fst snd].
      rewrite (bd_mul_fx (ONE - pen) xc) by lia.
      assert (H2 : 0 <= fx_mul (ONE - pen) xc <= xc) by (split; [apply fx_mul_nonneg; lia|apply fx_mul_le_r; lia]).
      rewrite bd_mul_fx by lia. reflexivity.
    - apply Z.ltb_ge in Hsx.
      assert ((x <=? p_start p) = true) as -> by (apply Z.leb_le; lia).
      cbn [bind fst snd].
      assert (H1 : 0 <= ONE < 2 ^ 128) by (change ONE with 100000000; change (2 ^ 128) with 340282366920938463463374607431768211456; lia).
      rewrite (bd_mul_fx ONE x) by lia.
      assert (fx_mul ONE x = x) as ->.
      { unfold fx_mul. rewrite ONE_DEC, Z.mul_comm. apply Z.div_mul. rewrite DEC_val. lia. }
      rewrite bd_mul_fx by lia. reflexivity.
  Qed.

  Lemma curve_le_cap r x : 0 <= r < Z.of_nat (length (p_ratios p)) -> 0 <= x ->
    0 <= spec_curve p r x <= spec_cap p r.
  Proof.
    intros Hr Hx. destruct (ratio_ok r Hr) as (_ & Hrr & _). unfold u64 in Hrr.
    pose proof (ok_start p Hp) as Hs. unfold u64 in Hs.
    destruct (thr_ok r) as (Ht & Hst & _). unfold u64 in Ht.
    unfold spec_curve, spec_cap.
    destruct (x <=? p_start p) eqn:Hsx.
    - apply Z.leb_le in Hsx. split; [apply fx_mul_nonneg; lia|]. apply fx_mul_mono_l; lia.
    - apply Z.leb_gt in Hsx. cbv zeta.
      set (xc := Z.min x (spec_threshold p r)).
      set (d := fx_mul (spec_slope p r) (xc - p_start p)).
      pose proof (slope_okv r) as Hsl. unfold u64 in Hsl.
      assert (Hxc : p_start p <= xc <= spec_threshold p r) by (subst xc; lia).
      assert (Hd : 0 <= d) by (subst d; apply fx_mul_nonneg; lia).
      set (pen := Z.min ONE d).
      assert (Hpen : 0 <= pen <= ONE) by (subst pen; change ONE with 100000000 in *; lia).
      assert (H2 : 0 <= fx_mul (ONE - pen) xc <= xc) by (split; [apply fx_mul_nonneg; lia|apply fx_mul_le_r; lia]).
      split; [apply fx_mul_nonneg; lia|]. apply fx_mul_mono_l; lia.
  Qed.

  Lemma cap_u64 r : 0 <= r < Z.of_nat (length (p_ratios p)) -> spec_cap p r < 2 ^ 64.
  Proof.
    intros Hr. destruct (ratio_ok r Hr) as (_ & Hrr & Hin). unfold u64 in Hrr.
    pose proof (ok_cap p Hp _ Hin) as Hc. destruct (thr_ok r) as (Ht & Hst & Hmax). unfold u64 in Ht.
    pose proof (ok_start p Hp) as Hs. unfold u64 in Hs.
    unfold spec_cap. eapply Z.le_lt_trans; [|exact Hc]. apply fx_mul_mono_l; lia.
  Qed.

  (** *** calculateBlockReward = specification *)
  Lemma block_reward_spec h score diff :
    0 <= h < 2 ^ 31 -> 0 <= score < 2 ^ 128 -> 0 <= diff ->
    block_reward w p h score diff = Ok (spec_block_reward p h score diff).
  Proof.
    intros Hh Hs Hd. destruct (round_ok h Hh) as [Hr Hrr].
    unfold block_reward, spec_block_reward. rewrite Hr. cbn [bind].
    rewrite (flat_ok h Hh). cbn [bind].
    destruct (ratio_ok _ Hrr) as (Hrat & _ & _).
    destruct (spec_is_flat p h).
    - change (ONE =? 0) with false. change (ONE <? ONE) with false. cbv iota.
      assert (H1 : 0 <= ONE < 2 ^ 128) by (change ONE with 100000000; change (2 ^ 128) with 340282366920938463463374607431768211456; lia).
      rewrite bd_div_fx by (auto; reflexivity). cbn [bind]. rewrite Hrat. cbn [bind].
      assert (fx_div ONE ONE = ONE) as -> by reflexivity.
      apply curve_ok; [exact Hrr|lia].
    - destruct (score =? 0) eqn:H0; [reflexivity|]. apply Z.eqb_neq in H0.
      assert (Hmax : (if diff <? ONE then ONE else diff) = Z.max ONE diff).
      { destruct (diff <? ONE) eqn:E; [apply Z.ltb_lt in E|apply Z.ltb_ge in E]; lia. }
      rewrite Hmax.
      assert (Hpos : 0 < Z.max ONE diff) by (change ONE with 100000000; lia).
      rewrite bd_div_fx by (auto). cbn [bind]. rewrite Hrat. cbn [bind].
      apply curve_ok; [exact Hrr|].
      unfold fx_div. split; [apply Z.div_pos; rewrite ?DEC_val; lia|].
      apply Z.div_lt_upper_bound; [lia|].
      assert (DEC <= Z.max ONE diff) by (rewrite <- ONE_DEC; lia). nia.
  Qed.

  (** block_reward_le_cap *)
  Lemma block_reward_cap h score diff :
    0 <= h < 2 ^ 31 -> 0 <= score -> 0 <= diff ->
    0 <= spec_block_reward p h score diff <= spec_cap p (spec_round p h) /\
    spec_cap p (spec_round p h) < 2 ^ 64.
  Proof.
    intros Hh Hs Hd. destruct (round_ok h Hh) as [_ Hrr].
    split; [|apply cap_u64, Hrr].
    unfold spec_block_reward.
    destruct (spec_is_flat p h); [apply curve_le_cap; [exact Hrr|change ONE with 100000000; lia]|].
    destruct (score =? 0).
    - pose proof (curve_le_cap _ 0 Hrr ltac:(lia)). lia.
    - apply curve_le_cap; [exact Hrr|]. unfold fx_div.
      apply Z.div_pos; [rewrite DEC_val; lia|change ONE with 100000000; lia].
  Qed.
End Arith.
