(** The part of the ALT chain that calculateDifficulty / calculatePayouts /
    getPopPayout can look at: the [difficultyAveragingInterval] blocks preceding
    the endorsed block, and for getPopPayout the tip, the [delay-1] steps down to
    the endorsed block and that window.  The *_win256 functions evaluate the
    calculator model on the truncated chain only; WindowProofs.v proves them
    equal to the model on the full chain, the correspondence run compares them
    with the real calculator on the full tree.  Executable; no proofs here. *)
From Coq Require Import ZArith List.
From VB Require Import Rewards.BigDecDefs Rewards.CalcDefs.
Import ListNotations.
Local Open Scope Z_scope.

Definition window (p : Params) (prevs : list Block) : list Block :=
  firstn (Z.to_nat (p_interval p)) prevs.

Definition pay_window (p : Params) (chain : list Block) : list Block :=
  firstn (S (Z.to_nat (p_delay p - 1)) + Z.to_nat (p_interval p)) chain.

Definition difficulty_win256 (p : Params) (prevs : list Block) := calc_difficulty wrap256 p (window p prevs).
Definition calc_payouts_win256 (p : Params) (b : Block) (prevs : list Block) := calc_payouts wrap256 p b (window p prevs).
Definition get_pop_payout_win256 (p : Params) (chain : list Block) := get_pop_payout wrap256 p (pay_window p chain).
