(** Statements of the C14 theorems for the library's arithmetic ([wrap256]) with
    the decidable side conditions of BoundsDefs.v, order independence, and
    examples showing that the side conditions are satisfiable. *)
From Coq Require Import ZArith List Bool Lia Permutation.
From VB Require Import Gen.RewardParams Rewards.BigDecDefs Rewards.CalcDefs Rewards.SpecDefs Rewards.BoundsDefs
     Rewards.ArithProofs Rewards.MapProofs Rewards.PayoutProofs Rewards.TopProofs.
Import ListNotations.
Local Open Scope Z_scope.

Definition on_pid (pid : Z) (b : Block) : list (Z * Z) := filter (fun ph => fst ph =? pid) (on_chain (b_ends b)).

(** u256_refines_Z *)
Lemma u256_refines_Z p b prevs :
  params_okb p = true -> block_okb b = true -> chain_okb prevs = true ->
  calc_payouts wrap256 p b prevs = calc_payouts (fun z => z) p b prevs.
Proof. intros H1 H2 H3. apply calc_payouts_refines; auto using params_okb_ok, block_okb_ok, chain_okb_ok. Qed.

Lemma u256_refines_Z_block_reward p h s d :
  params_okb p = true -> 0 <= h < 2 ^ 31 -> 0 <= s < 2 ^ 128 -> 0 <= d ->
  block_reward wrap256 p h s d = block_reward (fun z => z) p h s d.
Proof. intros H1. apply block_reward_refines, params_okb_ok, H1. Qed.

(** reward_eq_spec, block reward *)
Lemma block_reward_eq_spec p h s d :
  params_okb p = true -> 0 <= h < 2 ^ 31 -> 0 <= s < 2 ^ 128 -> 0 <= d ->
  block_reward wrap256 p h s d = Ok (spec_block_reward p h s d).
Proof. intros H1. apply (block_reward_spec wrap256 wrap256_small p (params_okb_ok p H1)). Qed.

(** block_reward_le_cap *)
Lemma block_reward_le_cap p h s d br :
  params_okb p = true -> 0 <= h < 2 ^ 31 -> 0 <= s < 2 ^ 128 -> 0 <= d ->
  block_reward wrap256 p h s d = Ok br ->
  0 <= br <= spec_cap p (spec_round p h) /\ spec_cap p (spec_round p h) < 2 ^ 64.
Proof.
  intros H1 Hh Hs Hd E. rewrite (block_reward_eq_spec p h s d H1 Hh Hs Hd) in E. inversion E. subst br.
  apply (block_reward_cap p (params_okb_ok p H1)); lia.
Qed.

(** reward_eq_spec, payouts of one endorsed block (also same_payout_info_summed) *)
Lemma calc_payouts_eq_spec p b prevs :
  params_okb p = true -> block_okb b = true -> chain_okb prevs = true ->
  exists m, calc_payouts wrap256 p b prevs = Ok m /\
    forall pid, map_get pid m = match on_pid pid b with [] => None | _ => Some (spec_paid p b prevs pid) end.
Proof.
  intros H1 H2 H3. exists (spec_payout_map p b prevs). split.
  - apply (calc_payouts_spec wrap256 wrap256_small p (params_okb_ok p H1)); auto using block_okb_ok, chain_okb_ok.
  - intros pid. apply (payout_map_get p (params_okb_ok p H1)); auto using block_okb_ok, chain_okb_ok.
Qed.

(** reward_eq_spec, getPopPayout *)
Lemma reward_eq_spec p tip rest :
  params_okb p = true -> chain_okb (tip :: rest) = true ->
  Z.of_nat (length (tip :: rest)) <= b_height tip + 1 -> 1 <= p_settle p ->
  match spec_endorsed p (tip :: rest) with
  | None => get_pop_payout wrap256 p (tip :: rest) = Ok []
  | Some (e, prevs) =>
    b_height e + p_settle p - 1 <= b_height tip ->
    exists m, get_pop_payout wrap256 p (tip :: rest) = Ok m /\
      forall pid, map_get pid m = match on_pid pid e with [] => None | _ => Some (spec_paid p e prevs pid) end
  end.
Proof.
  intros H1 H2 Hlen Hset. pose proof (params_okb_ok p H1) as Hp. pose proof (chain_okb_ok _ H2) as Hc.
  pose proof (get_pop_payout_spec wrap256 wrap256_small p Hp tip rest Hc Hlen Hset) as H.
  unfold spec_endorsed in *. destruct (p_delay p <=? 0); [exact H|].
  pose proof (skipn_nth (Z.to_nat (p_delay p - 1)) (tip :: rest)) as Hn.
  destruct (skipn (Z.to_nat (p_delay p - 1)) (tip :: rest)) as [|e prevs] eqn:Es; [exact H|].
  intros Hfin. exists (spec_payout_map p e prevs). split; [apply H, Hfin|].
  destruct Hn as [Hn1 Hn2]. intros pid. apply (payout_map_get p Hp).
  - apply Hc. eapply nth_error_In. exact Hn1.
  - intros b Hb. apply Hc. rewrite <- Hn2 in Hb. clear - Hb.
    revert Hb. generalize (S (Z.to_nat (p_delay p - 1))). generalize (tip :: rest).
    intros l. induction l as [|a r IH]; intros n Hb; [destruct n; destruct Hb|].
    destruct n as [|n]; [exact Hb|]. right. apply (IH n). exact Hb.
Qed.

(** sum_le_block_reward *)
Lemma sum_le_block_reward p b prevs m :
  params_okb p = true -> block_okb b = true -> chain_okb prevs = true ->
  calc_payouts wrap256 p b prevs = Ok m ->
  exists s d br, score_from_endorsements wrap256 p (b_ends b) = Ok s /\ calc_difficulty wrap256 p prevs = Ok d /\
    block_reward wrap256 p (b_height b) s d = Ok br /\
    total m <= br /\ br <= spec_cap p (spec_round p (b_height b)).
Proof.
  intros H1 H2 H3 E. pose proof (params_okb_ok p H1) as Hp. pose proof (block_okb_ok _ H2) as Hb.
  pose proof (chain_okb_ok _ H3) as Hc.
  rewrite (calc_payouts_spec wrap256 wrap256_small p Hp b prevs Hb Hc) in E. inversion E. subst m.
  destruct Hb as [Hh He].
  destruct (score_spec wrap256 wrap256_small p Hp _ He) as [Hs Hsb].
  destruct (difficulty_spec wrap256 wrap256_small p Hp prevs Hc) as [Hd Hdb].
  exists (spec_score p (b_ends b)), (spec_difficulty p prevs),
         (spec_block_reward p (b_height b) (spec_score p (b_ends b)) (spec_difficulty p prevs)).
  split; [exact Hs|]. split; [exact Hd|]. split.
  - apply (block_reward_spec wrap256 wrap256_small p Hp); try lia.
  - apply (payout_total_le p Hp b prevs (conj Hh He) Hc).
Qed.

(** ** order independence *)
Lemma on_chain_perm l l' : Permutation l l' -> Permutation (on_chain l) (on_chain l').
Proof.
  induction 1; cbn [on_chain].
  - constructor.
  - destruct (e_bop x); [constructor|]; assumption.
  - destruct (e_bop x), (e_bop y); try apply perm_swap; apply Permutation_refl.
  - eapply perm_trans; eassumption.
Qed.

Lemma fold_min_attained h l : fold_right Z.min h l = h \/ In (fold_right Z.min h l) l.
Proof.
  induction l as [|x r IH]; cbn [fold_right]; [left; reflexivity|].
  destruct (Z.min_spec x (fold_right Z.min h r)) as [[_ ->]|[_ ->]]; [right; left; reflexivity|].
  destruct IH as [->|IH]; [left; reflexivity|right; right; exact IH].
Qed.

Lemma spec_best_min v : v <> [] ->
  In (spec_best v) (map snd v) /\ forall x, In x (map snd v) -> spec_best v <= x.
Proof.
  destruct v as [|[pid h] r]; [congruence|]. intros _. cbn [spec_best map snd].
  destruct (fold_min_le h (map snd r)) as [L1 L2]. split.
  - destruct (fold_min_attained h (map snd r)) as [->|H]; [left; reflexivity|right; exact H].
  - intros x [<-|Hx]; [exact L1|apply L2, Hx].
Qed.

Lemma spec_best_perm v v' : Permutation v v' -> spec_best v = spec_best v'.
Proof.
  intros H. destruct v as [|a r].
  - apply Permutation_nil in H. subst. reflexivity.
  - assert (Hne' : v' <> []) by (intros ->; apply Permutation_sym, Permutation_nil in H; discriminate).
    destruct (spec_best_min (a :: r) ltac:(congruence)) as [A1 A2]. destruct (spec_best_min v' Hne') as [B1 B2].
    pose proof (Permutation_map snd H) as Hs.
    pose proof (A2 _ (Permutation_in _ (Permutation_sym Hs) B1)).
    pose proof (B2 _ (Permutation_in _ Hs A1)). lia.
Qed.

Lemma spec_score_perm p l l' : Permutation l l' -> spec_score p l = spec_score p l'.
Proof.
  intros H. unfold spec_score. pose proof (on_chain_perm _ _ H) as Hv. rewrite (spec_best_perm _ _ Hv).
  apply zsum_perm. apply Permutation_map, Hv.
Qed.

(** the payouts do not depend on the order in which the endorsements are listed *)
Lemma payout_order_independent p b b' prevs :
  params_okb p = true -> block_okb b = true -> block_okb b' = true -> chain_okb prevs = true ->
  b_height b = b_height b' -> Permutation (b_ends b) (b_ends b') ->
  calc_payouts wrap256 p b prevs = calc_payouts wrap256 p b' prevs.
Proof.
  intros H1 H2 H2' H3 Hh Hperm. pose proof (params_okb_ok p H1) as Hp.
  rewrite (calc_payouts_spec wrap256 wrap256_small p Hp b prevs (block_okb_ok _ H2) (chain_okb_ok _ H3)).
  rewrite (calc_payouts_spec wrap256 wrap256_small p Hp b' prevs (block_okb_ok _ H2') (chain_okb_ok _ H3)).
  f_equal.
  (* two sorted maps with equal lookups are equal: shown through lookups + sortedness *)
  assert (Hget : forall pid, map_get pid (spec_payout_map p b prevs) = map_get pid (spec_payout_map p b' prevs)).
  { intros pid. unfold spec_payout_map. rewrite <- Hh, <- (spec_score_perm p _ _ Hperm).
    pose proof (on_chain_perm _ _ Hperm) as Hv. rewrite <- (spec_best_perm _ _ Hv).
    set (f := fun ph : Z * Z => low64 (spec_share (spec_block_reward p (b_height b) (spec_score p (b_ends b)) (spec_difficulty p prevs))
                                   (spec_score p (b_ends b)) (spec_weight p (snd ph - spec_best (on_chain (b_ends b)))))).
    change (map_get pid (fold_left (step f) (on_chain (b_ends b)) []) = map_get pid (fold_left (step f) (on_chain (b_ends b')) [])).
    apply fold_get_perm, Hv. }
  assert (S1 : sorted (spec_payout_map p b prevs)) by (apply fold_sorted; exact I).
  assert (S2 : sorted (spec_payout_map p b' prevs)) by (apply fold_sorted; exact I).
  revert S1 S2 Hget. generalize (spec_payout_map p b prevs) (spec_payout_map p b' prevs).
  clear. intros m. induction m as [|[k v] r IH]; intros m' S1 S2 Hget.
  - destruct m' as [|[k' v'] r']; [reflexivity|]. specialize (Hget k'). cbn [map_get] in Hget. rewrite Z.eqb_refl in Hget. discriminate.
  - destruct m' as [|[k' v'] r'].
    + specialize (Hget k). cbn [map_get] in Hget. rewrite Z.eqb_refl in Hget. discriminate.
    + cbn [sorted] in S1, S2.
      assert (Hk : k = k').
      { pose proof (Hget k) as G1. pose proof (Hget k') as G2. cbn [map_get] in G1, G2. rewrite Z.eqb_refl in G1, G2.
        destruct (Z.lt_trichotomy k k') as [L|[L|L]]; [|exact L|].
        - assert ((k =? k') = false) as E by (apply Z.eqb_neq; lia). rewrite E in G1.
          rewrite (keys_above_get k' r' k S2) in G1 by lia. discriminate.
        - assert ((k' =? k) = false) as E by (apply Z.eqb_neq; lia). rewrite E in G2.
          rewrite (keys_above_get k r k' S1) in G2 by lia. discriminate. }
      subst k'. pose proof (Hget k) as G. cbn [map_get] in G. rewrite Z.eqb_refl in G. inversion G. subst v'.
      f_equal. apply IH.
      * destruct r as [|[k2 v2] r2]; cbn [sorted]; [trivial|]. cbn [keys_above] in S1. tauto.
      * destruct r' as [|[k2 v2] r2]; cbn [sorted]; [trivial|]. cbn [keys_above] in S2. tauto.
      * intros pid. specialize (Hget pid). cbn [map_get] in Hget.
        destruct (pid =? k) eqn:E; [|exact Hget].
        apply Z.eqb_eq in E. subst pid.
        rewrite (keys_above_get k r k S1), (keys_above_get k r' k S2) by lia. reflexivity.
Qed.

(** ** the side conditions are satisfiable: the library's default parameters,
    a chain with duplicated payout infos, an endorsement off the best chain *)
Example default_params_ok : params_okb default_params = true.
Proof. vm_compute. reflexivity. Qed.

Definition example_block : Block :=
  {| b_height := 10;
     b_ends := [ {| e_pid := 1; e_bop := Some 20 |}; {| e_pid := 2; e_bop := Some 33 |};
                 {| e_pid := 1; e_bop := Some 21 |}; {| e_pid := 3; e_bop := None |} ] |}.
Definition example_chain : list Block :=
  map (fun h => if h =? 10 then example_block else {| b_height := h; b_ends := [] |})
      (map Z.of_nat (rev (seq 0 60))).

Example example_chain_ok : chain_okb example_chain = true /\
  Z.of_nat (length example_chain) <= b_height (hd example_block example_chain) + 1.
Proof. vm_compute. split; [reflexivity|discriminate]. Qed.

Example example_payout :
  get_pop_payout wrap256 default_params example_chain = Ok [(1, 431679610); (2, 68101114)].
Proof. vm_compute. reflexivity. Qed.
