(** Locality of the difficulty / payout computation (for every wrap function,
    parameter set and chain, no side condition) and monotonicity facts of the
    reward specification. *)
From Coq Require Import ZArith List Bool Lia.
From VB Require Import Rewards.BigDecDefs Rewards.CalcDefs Rewards.SpecDefs Rewards.BoundsDefs Rewards.WindowDefs
     Rewards.ArithProofs.
Import ListNotations.
Local Open Scope Z_scope.

Section Win.
  Variable w : Z -> Z.

  Lemma difficulty_loop_firstn p : forall n prevs t,
    difficulty_loop w p n (firstn n prevs) t = difficulty_loop w p n prevs t.
  Proof.
    induction n as [|n IH]; intros prevs t.
    - destruct prevs; reflexivity.
    - destruct prevs as [|b r]; [reflexivity|].
      cbn [firstn difficulty_loop].
      destruct (score_from_endorsements w p (b_ends b)); cbn [bind]; auto.
  Qed.

  Lemma difficulty_window p prevs : calc_difficulty w p (window p prevs) = calc_difficulty w p prevs.
  Proof. unfold calc_difficulty, window. rewrite difficulty_loop_firstn. reflexivity. Qed.

  Lemma difficulty_only_window p prevs prevs' :
    window p prevs = window p prevs' -> calc_difficulty w p prevs = calc_difficulty w p prevs'.
  Proof. intros H. rewrite <- (difficulty_window p prevs), <- (difficulty_window p prevs'), H. reflexivity. Qed.

  Lemma calc_payouts_window p b prevs : calc_payouts w p b (window p prevs) = calc_payouts w p b prevs.
  Proof. unfold calc_payouts. rewrite difficulty_window. reflexivity. Qed.

  Lemma calc_payouts_only_window p b prevs prevs' :
    window p prevs = window p prevs' -> calc_payouts w p b prevs = calc_payouts w p b prevs'.
  Proof. intros H. rewrite <- (calc_payouts_window p b prevs), <- (calc_payouts_window p b prevs'), H. reflexivity. Qed.

  Lemma nth_error_firstn_lt {A} : forall n m (l : list A), (n < m)%nat -> nth_error (firstn m l) n = nth_error l n.
  Proof.
    induction n as [|n IH]; intros m l Hlt; destruct m as [|m]; try lia; destruct l; cbn; auto.
    apply IH. lia.
  Qed.

  Lemma skipn_firstn_add {A} : forall n k (l : list A), skipn n (firstn (n + k) l) = firstn k (skipn n l).
  Proof.
    induction n as [|n IH]; intros k l; [reflexivity|].
    destruct l; cbn [Nat.add firstn skipn]; [destruct k; reflexivity | apply IH].
  Qed.

  Lemma get_pop_payout_window p chain : get_pop_payout w p (pay_window p chain) = get_pop_payout w p chain.
  Proof.
    unfold pay_window. destruct chain as [|tip rest]; [reflexivity|].
    set (n := Z.to_nat (p_delay p - 1)). set (k := Z.to_nat (p_interval p)).
    change (firstn (S n + k) (tip :: rest)) with (tip :: firstn (n + k) rest).
    unfold get_pop_payout. fold n.
    destruct ((p_delay p - 1 <? 0) || (b_height tip <? p_delay p - 1)); [reflexivity|].
    change (tip :: firstn (n + k) rest) with (firstn (S n + k) (tip :: rest)).
    rewrite nth_error_firstn_lt by lia.
    destruct (nth_error (tip :: rest) n) as [e|]; [|reflexivity].
    destruct (wrap32 (b_height tip) <? wrap32 (b_height e + p_settle p - 1)); [reflexivity|].
    rewrite (skipn_firstn_add (S n) k (tip :: rest)).
    apply (calc_payouts_window p e).
  Qed.

  Lemma get_pop_payout_only_window p chain chain' :
    pay_window p chain = pay_window p chain' -> get_pop_payout w p chain = get_pop_payout w p chain'.
  Proof. intros H. rewrite <- (get_pop_payout_window p chain), <- (get_pop_payout_window p chain'), H. reflexivity. Qed.
End Win.

(** monotonicity of the specification *)
Lemma share_mono_weight br s w1 w2 : 0 <= br -> 0 <= s -> 0 <= w1 <= w2 -> spec_share br s w1 <= spec_share br s w2.
Proof.
  intros Hb Hs Hw. unfold spec_share. destruct (s =? 0) eqn:E; [lia|].
  apply Z.eqb_neq in E. unfold fx_div, fx_mul.
  apply Z.div_le_mono; [lia|]. apply Z.mul_le_mono_nonneg_r; [unfold DEC; lia|].
  apply Z.div_le_mono; [unfold DEC; lia|]. apply Z.mul_le_mono_nonneg_l; lia.
Qed.

Lemma share_mono_reward br br' s wg : 0 <= br <= br' -> 0 <= s -> 0 <= wg -> spec_share br s wg <= spec_share br' s wg.
Proof.
  intros Hb Hs Hw. unfold spec_share. destruct (s =? 0) eqn:E; [lia|].
  apply Z.eqb_neq in E. unfold fx_div, fx_mul.
  apply Z.div_le_mono; [lia|]. apply Z.mul_le_mono_nonneg_r; [unfold DEC; lia|].
  apply Z.div_le_mono; [unfold DEC; lia|]. apply Z.mul_le_mono_nonneg_r; lia.
Qed.

(** below the start of the slope the reward grows with the relative score *)
Lemma curve_mono_linear p r x x' :
  0 <= spec_ratio p r -> 0 <= x <= x' -> x' <= p_start p -> spec_curve p r x <= spec_curve p r x'.
Proof.
  intros Hr Hx Hs. unfold spec_curve.
  destruct (Z.leb_spec x (p_start p)); [|lia]. destruct (Z.leb_spec x' (p_start p)); [|lia].
  apply fx_mul_mono_l; lia.
Qed.

Lemma ratio_nonneg p r : params_okb p = true -> 0 <= spec_ratio p r.
Proof.
  intros H. unfold params_okb in H. repeat (apply andb_prop in H; destruct H as [H ?]).
  unfold spec_ratio.
  destruct (nth_in_or_default (Z.to_nat r) (p_ratios p) 0) as [Hin|Heq]; [|rewrite Heq; lia].
  match goal with Hf : forallb in_u64 (p_ratios p) = true |- _ => rewrite forallb_forall in Hf; specialize (Hf _ Hin) end.
  unfold in_u64 in *. lia.
Qed.

(** ... and the block reward falls when the difficulty rises *)
Lemma block_reward_antitone_difficulty p h s d d' :
  params_okb p = true -> 0 <= s -> d <= d' -> fx_div s (Z.max ONE d) <= p_start p ->
  spec_block_reward p h s d' <= spec_block_reward p h s d.
Proof.
  intros Hp Hs Hd Hx. unfold spec_block_reward.
  destruct (spec_is_flat p h); [lia|]. destruct (s =? 0); [lia|].
  assert (Hq : fx_div s (Z.max ONE d') <= fx_div s (Z.max ONE d)).
  { unfold fx_div. apply Z.div_le_compat_l; unfold ONE, DEC; lia. }
  apply curve_mono_linear; [apply ratio_nonneg; exact Hp| |lia].
  split; [|exact Hq]. unfold fx_div. apply Z.div_pos; unfold ONE, DEC; lia.
Qed.

Lemma block_reward_monotone_score p h s s' d :
  params_okb p = true -> 0 < s <= s' -> fx_div s' (Z.max ONE d) <= p_start p ->
  spec_block_reward p h s d <= spec_block_reward p h s' d.
Proof.
  intros Hp Hs Hx. unfold spec_block_reward.
  destruct (spec_is_flat p h); [lia|].
  destruct (Z.eqb_spec s 0); [lia|]. destruct (Z.eqb_spec s' 0); [lia|].
  assert (Hq : fx_div s (Z.max ONE d) <= fx_div s' (Z.max ONE d)).
  { unfold fx_div. apply Z.div_le_mono; unfold ONE, DEC; lia. }
  apply curve_mono_linear; [apply ratio_nonneg; exact Hp| |lia].
  split; [|exact Hq]. unfold fx_div. apply Z.div_pos; unfold ONE, DEC; lia.
Qed.

(** above the start of the slope the curve is NOT monotone for every admissible
    parameter set: with slope 1.0 the penalty reaches 1 at relative score 2 *)
Definition steep_params : Params :=
  {| p_ki := 5; p_settle := 50; p_delay := 50; p_start := ONE; p_slopeN := ONE; p_slopeK := ONE;
     p_kround := 3; p_rounds := 4; p_flatround := 2; p_useflat := true;
     p_ratios := [ONE; ONE; ONE; ONE]; p_thrN := 3 * ONE; p_thrK := 3 * ONE; p_interval := 50; p_table := [ONE] |}.

Lemma curve_monotone_refuted :
  exists p r x x', params_okb p = true /\ 0 <= x <= x' /\ spec_curve p r x' < spec_curve p r x.
Proof.
  exists steep_params, 0, (3 * ONE / 2), (2 * ONE).
  split; [vm_compute; reflexivity|]. split; [vm_compute; split; discriminate|vm_compute; reflexivity].
Qed.

(** witnesses: the window really cuts something off, and the monotone regime is inhabited *)
Definition wit_block (h : Z) (hs : list Z) : Block := {| b_height := h; b_ends := map (fun v => {| e_pid := v; e_bop := Some v |}) hs |}.
Definition wit_params : Params :=
  {| p_ki := 5; p_settle := 2; p_delay := 2; p_start := ONE; p_slopeN := 20000000; p_slopeK := 21325000;
     p_kround := 3; p_rounds := 4; p_flatround := 2; p_useflat := true;
     p_ratios := [97000000; 103000000; 107000000; 3 * ONE]; p_thrN := 2 * ONE; p_thrK := 3 * ONE;
     p_interval := 2; p_table := [ONE; ONE; 50000000] |}.
Definition wit_chain : list Block :=
  [wit_block 9 []; wit_block 8 [10; 11; 12]; wit_block 7 [5; 5; 6; 7]; wit_block 6 [3; 4; 4]; wit_block 5 [1; 2]; wit_block 4 [1]].

Example window_satisfiable :
  params_okb wit_params = true /\ chain_okb wit_chain = true /\
  pay_window wit_params wit_chain <> wit_chain /\
  get_pop_payout wrap256 wit_params wit_chain = Ok [(10, 29846153); (11, 29846153); (12, 14923076)] /\
  calc_difficulty wrap256 wit_params (skipn 2 wit_chain) = Ok 325000000 /\
  get_pop_payout wrap256 wit_params (pay_window wit_params wit_chain) = get_pop_payout wrap256 wit_params wit_chain.
Proof. vm_compute. repeat split; discriminate. Qed.

Example monotone_satisfiable :
  params_okb wit_params = true /\ fx_div 250000000 (Z.max ONE 325000000) <= p_start wit_params /\
  spec_block_reward wit_params 8 250000000 650000000 < spec_block_reward wit_params 8 250000000 325000000 /\
  spec_share 74615384 250000000 50000000 < spec_share 74615384 250000000 ONE.
Proof. vm_compute. repeat split; discriminate. Qed.
