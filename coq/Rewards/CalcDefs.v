(** DefaultPopRewardsCalculator (src/pop/rewards/default_poprewards_calculator.cpp)
    AS CODED, over the fixed point of BigDecDefs.v.  Executable; no proofs here.

    Abstraction of the inputs (what the harness maps the real trees to):
    - a parameter set [Params]: the [double] members of PopPayoutsParams are
      given ALREADY CONVERTED by PopRewardsBigDecimal(double), i.e. as
      (uint64_t)(d * 1e8) (the conversion itself is binary64 arithmetic and is
      done by the C++ side / mirrored by the generator; it is re-checked by the
      correspondence run, not modelled here);
    - an endorsement = (payout info id, block of proof): [Some h] when the VBK
      block of proof is on the best VBK chain at height [h] (an int >= 0),
      [None] when it is not on the best chain;
    - an ALT block = (height, endorsements in getEndorsedBy() order);
    - the active ALT chain = list of blocks from the tip backwards to the root.
    Not modelled: failure of getATV (the payloads provider is assumed to hold
    every ATV of an applied endorsement), logging. *)
From Coq Require Import ZArith List Bool.
From VB Require Import Rewards.BigDecDefs.
Import ListNotations.
Local Open Scope Z_scope.

Record Params := {
  p_ki : Z;          (* AltChainParams::getKeystoneInterval()            uint32_t *)
  p_settle : Z;      (* getEndorsementSettlementInterval()                uint32_t *)
  p_delay : Z;       (* PopPayoutsParams::getPopPayoutDelay()             int32_t  *)
  p_start : Z;       (* startOfSlope()              converted double *)
  p_slopeN : Z;      (* slopeNormal()               converted double *)
  p_slopeK : Z;      (* slopeKeystone()             converted double *)
  p_kround : Z;      (* keystoneRound()             uint32_t *)
  p_rounds : Z;      (* payoutRounds()              uint32_t *)
  p_flatround : Z;   (* flatScoreRound()            uint32_t *)
  p_useflat : bool;  (* useFlatScoreRound() *)
  p_ratios : list Z; (* roundRatios()               converted doubles *)
  p_thrN : Z;        (* maxScoreThresholdNormal()   converted double *)
  p_thrK : Z;        (* maxScoreThresholdKeystone() converted double *)
  p_interval : Z;    (* difficultyAveragingInterval() uint32_t *)
  p_table : list Z   (* relativeScoreLookupTable()  converted doubles *)
}.

Record Endorsement := { e_pid : Z; e_bop : option Z }.
Record Block := { b_height : Z; b_ends : list Endorsement }.

(** PopPayouts::payouts : std::map<payout_info_t, uint64_t>, kept sorted by key
    as std::map iterates; [payouts[k] += v] in uint64_t *)
Fixpoint map_add (k v : Z) (m : list (Z * Z)) : list (Z * Z) :=
  match m with
  | [] => [(k, wrap64 v)]
  | (k', v') :: r =>
    if k <? k' then (k, wrap64 v) :: m
    else if k =? k' then (k, wrap64 (v' + v)) :: r
    else (k', v') :: map_add k v r
  end.

Fixpoint map_get (k : Z) (m : list (Z * Z)) : option Z :=
  match m with
  | [] => None
  | (k', v') :: r => if k =? k' then Some v' else map_get k r
  end.

(** getBestPublicationHeight: loop state [bp], initially -1 *)
Fixpoint best_pub (ends : list Endorsement) (bp : Z) : Z :=
  match ends with
  | [] => bp
  | e :: r =>
    match e_bop e with
    | None => best_pub r bp
    | Some h => best_pub r (if (h <? bp) || (bp <? 0) then h else bp)
    end
  end.

(** isKeystone(int32_t blockNumber, uint32_t keystoneInterval) called with a uint32_t height *)
Definition is_keystone (h ki : Z) : outcome bool :=
  let bn := to_int32 h in
  if bn <? 0 then Abort
  else if ki =? 0 then Fpe
  else Ok (wrap32 bn mod ki =? 0).

(** getRoundForBlockNumber(uint32_t height) *)
Definition round_for_block (p : Params) (h : Z) : outcome Z :=
  do k <- is_keystone h (p_ki p);
  if k then Ok (p_kround p)
  else if p_rounds p <=? 1 then Ok 0
  else if h <=? 0 then Abort
  else Ok ((h mod p_ki p) mod (p_rounds p - 1)).

(** isFirstRoundAfterKeystone(altParams, uint32_t height) *)
Definition first_round_after_keystone (p : Params) (h : Z) : outcome bool :=
  if p_ki p =? 0 then Fpe
  else if p_rounds p =? 0 then Ok true
  else Ok ((h mod p_ki p) / p_rounds p =? 0).

(** getRoundRatio: roundRatios().at(payoutRound) *)
Definition round_ratio (p : Params) (r : Z) : outcome Z :=
  match nth_error (p_ratios p) (Z.to_nat r) with
  | Some x => Ok x
  | None => Throw
  end.

Definition max_score_threshold (p : Params) (r : Z) : Z :=
  if r =? p_kround p then p_thrK p else p_thrN p.

Definition round_slope (p : Params) (r : Z) : Z :=
  if r =? p_kround p then p_slopeK p else p_slopeN p.

(** getScoreMultiplierFromRelativeBlock(int relativeBlock); the table has fewer
    than 2^31 entries (static_cast<int>(table.size())) *)
Definition score_multiplier (p : Params) (rel : Z) : Z :=
  if (rel <? 0) || (Z.of_nat (length (p_table p)) <=? rel) then 0
  else nth (Z.to_nat rel) (p_table p) 0.

Section Calc.
  Variable w : Z -> Z.

  (** calculateSlopeRatio *)
  Definition slope_ratio (p : Params) (score r : Z) : outcome Z :=
    if score <? p_start p then Abort
    else
      let dec := bd_mul w (round_slope p r) (bd_sub w score (p_start p)) in
      let dec := if ONE <? dec then ONE else dec in
      Ok (bd_sub w ONE dec).

  (** calculateBlockReward(uint32_t height, popscore, popdifficulty) *)
  Definition block_reward (p : Params) (h score diff : Z) : outcome Z :=
    do r <- round_for_block p h;
    do flat <- (if p_useflat p && (r =? p_flatround p) then first_round_after_keystone p h else Ok false);
    let score := if flat then ONE else score in
    let diff := if flat then ONE else diff in
    if score =? 0 then Ok 0
    else
      let diff := if diff <? ONE then ONE else diff in
      do std <- bd_div w score diff;
      do rr <- round_ratio p r;
      do sl <- (if p_start p <? std then
                  let thr := max_score_threshold p r in
                  let std := if thr <? std then thr else std in
                  do s <- slope_ratio p std r; Ok (s, std)
                else Ok (ONE, std));
      Ok (bd_mul w (bd_mul w (fst sl) (snd sl)) rr).

  (** calculateMinerReward(uint32_t vbkRelativeHeight, score, blockReward) *)
  Definition miner_reward (p : Params) (rel score breward : Z) : outcome Z :=
    if score =? 0 then Ok 0
    else bd_div w (bd_mul w breward (score_multiplier p (to_int32 rel))) score.

  (** second loop of scoreFromEndorsements; [bp] >= 0 is the best publication height *)
  Fixpoint score_loop (p : Params) (bp : Z) (ends : list Endorsement) (total : Z) : outcome Z :=
    match ends with
    | [] => Ok total
    | e :: r =>
      match e_bop e with
      | None => score_loop p bp r total
      | Some h =>
        let rel := h - bp in
        if rel <? 0 then Abort
        else score_loop p bp r (bd_add w total (score_multiplier p rel))
      end
    end.

  Definition score_from_endorsements (p : Params) (ends : list Endorsement) : outcome Z :=
    let bp := best_pub ends (-1) in
    if bp <? 0 then Ok 0 else score_loop p bp ends 0.

  (** loop of calculateDifficulty over tip.pprev, pprev->pprev, ...; [n] iterations left *)
  Fixpoint difficulty_loop (p : Params) (n : nat) (prevs : list Block) (total : Z) : outcome Z :=
    match n, prevs with
    | O, _ => Ok total
    | _, [] => Ok total
    | S n', b :: r =>
      do s <- score_from_endorsements p (b_ends b);
      difficulty_loop p n' r (bd_add w total s)
    end.

  Definition calc_difficulty (p : Params) (prevs : list Block) : outcome Z :=
    do total <- difficulty_loop p (Z.to_nat (p_interval p)) prevs 0;
    do d <- bd_div w total (bd_of_u64 w (p_interval p));
    Ok (if d <? ONE then ONE else d).

  (** payout loop of calculatePayoutsInner *)
  Fixpoint payout_loop (p : Params) (bp score breward : Z) (ends : list Endorsement)
           (m : list (Z * Z)) : outcome (list (Z * Z)) :=
    match ends with
    | [] => Ok m
    | e :: r =>
      match e_bop e with
      | None => payout_loop p bp score breward r m
      | Some h =>
        let rel := h - bp in
        if rel <? 0 then Abort
        else
          do mr <- miner_reward p (wrap32 rel) score breward;
          payout_loop p bp score breward r (map_add (e_pid e) (low64 mr) m)
      end
    end.

  Definition payouts_inner (p : Params) (b : Block) (score diff : Z) : outcome (list (Z * Z)) :=
    let bp := best_pub (b_ends b) (-1) in
    if bp <? 0 then Ok []
    else
      do br <- block_reward p (wrap32 (b_height b)) score diff;
      payout_loop p bp score br (b_ends b) [].

  (** calculatePayouts(endorsedBlock): [prevs] = endorsedBlock.pprev, its pprev, ... *)
  Definition calc_payouts (p : Params) (b : Block) (prevs : list Block) : outcome (list (Z * Z)) :=
    do score <- score_from_endorsements p (b_ends b);
    do diff <- calc_difficulty p prevs;
    payouts_inner p b score diff.

  (** getPopPayout(tip): [chain] = tip, tip.pprev, ... down to the root; heights
      are contiguous (BlockIndex::getPrev asserts it).  The VBK_ASSERTs about the
      tree being bootstrapped, [tip] being the connected best-chain tip are
      preconditions of the call and not part of the model. *)
  Definition get_pop_payout (p : Params) (chain : list Block) : outcome (list (Z * Z)) :=
    match chain with
    | [] => Abort
    | tip :: _ =>
      let steps := p_delay p - 1 in
      if (steps <? 0) || (b_height tip <? steps) then Ok []
      else
        match nth_error chain (Z.to_nat steps) with
        | None => Ok []
        | Some e =>
          if wrap32 (b_height tip) <? wrap32 (b_height e + p_settle p - 1) then Abort
          else calc_payouts p e (skipn (S (Z.to_nat steps)) chain)
        end
    end.
End Calc.

(** the library's arithmetic *)
Definition block_reward256 := block_reward wrap256.
Definition miner_reward256 := miner_reward wrap256.
Definition score256 := score_from_endorsements wrap256.
Definition difficulty256 := calc_difficulty wrap256.
Definition payouts_inner256 := payouts_inner wrap256.
Definition calc_payouts256 := calc_payouts wrap256.
Definition get_pop_payout256 := get_pop_payout wrap256.
Definition slope_ratio256 := slope_ratio wrap256.
