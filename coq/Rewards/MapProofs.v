(** The payout map (std::map<payout_info, uint64_t> with [+=]): sortedness,
    lookups after a sequence of insertions, order independence, total. *)
From Coq Require Import ZArith List Bool Lia Permutation.
From VB Require Import Rewards.BigDecDefs Rewards.CalcDefs Rewards.SpecDefs.
Import ListNotations.
Local Open Scope Z_scope.

Fixpoint keys_above (lo : Z) (m : list (Z * Z)) : Prop :=
  match m with [] => True | (k, _) :: r => lo < k /\ keys_above k r end.
Definition sorted (m : list (Z * Z)) : Prop :=
  match m with [] => True | (k, _) :: r => keys_above k r end.

Lemma keys_above_weaken lo lo' m : lo' <= lo -> keys_above lo m -> keys_above lo' m.
Proof. destruct m as [|[k v] r]; cbn; [trivial|]. intros ? [? ?]. split; [lia|assumption]. Qed.

Lemma keys_above_get lo m k : keys_above lo m -> k <= lo -> map_get k m = None.
Proof.
  revert lo. induction m as [|[k' v'] r IH]; intros lo; cbn [keys_above map_get]; [reflexivity|].
  intros [H1 H2] Hk. assert ((k =? k') = false) as -> by (apply Z.eqb_neq; lia).
  apply (IH k'); [assumption|lia].
Qed.

Lemma keys_above_add lo k v m : keys_above lo m -> lo < k -> keys_above lo (map_add k v m).
Proof.
  revert lo. induction m as [|[k' v'] r IH]; intros lo; cbn [keys_above map_add].
  - intros _ H. split; [exact H|exact I].
  - intros [H1 H2] Hk. destruct (k <? k') eqn:E1.
    + apply Z.ltb_lt in E1. cbn [keys_above]. tauto.
    + destruct (k =? k') eqn:E2.
      * apply Z.eqb_eq in E2. subst k'. cbn [keys_above]. tauto.
      * apply Z.ltb_ge in E1. apply Z.eqb_neq in E2. cbn [keys_above]. split; [exact H1|].
        apply IH; [exact H2|lia].
Qed.

Lemma sorted_add k v m : sorted m -> sorted (map_add k v m).
Proof.
  destruct m as [|[k' v'] r]; cbn [sorted map_add]; [trivial|].
  intros H. destruct (k <? k') eqn:E1.
  - apply Z.ltb_lt in E1. cbn [sorted keys_above]. tauto.
  - destruct (k =? k') eqn:E2.
    + apply Z.eqb_eq in E2. subst k'. exact H.
    + apply Z.ltb_ge in E1. apply Z.eqb_neq in E2. cbn [sorted]. apply keys_above_add; [exact H|lia].
Qed.

Definition opt0 (o : option Z) : Z := match o with Some a => a | None => 0 end.

Lemma map_get_add_same k v m : sorted m ->
  map_get k (map_add k v m) = Some (wrap64 (opt0 (map_get k m) + v)).
Proof.
  induction m as [|[k' v'] r IH]; intros Hs; cbn [map_add map_get opt0].
  - rewrite Z.eqb_refl. reflexivity.
  - destruct (k <? k') eqn:E1.
    + apply Z.ltb_lt in E1. cbn [map_get]. rewrite Z.eqb_refl.
      assert ((k =? k') = false) as -> by (apply Z.eqb_neq; lia).
      cbn [sorted] in Hs. rewrite (keys_above_get k' r k Hs) by lia. reflexivity.
    + destruct (k =? k') eqn:E2.
      * cbn [map_get]. rewrite Z.eqb_refl. reflexivity.
      * cbn [map_get]. rewrite E2. apply IH.
        cbn [sorted] in Hs. destruct r as [|[k2 v2] r2]; cbn [sorted]; [trivial|]. cbn [keys_above] in Hs. tauto.
Qed.

Lemma map_get_add_other k k' v m : k' <> k -> map_get k' (map_add k v m) = map_get k' m.
Proof.
  intros Hne. induction m as [|[k2 v2] r IH]; cbn [map_add map_get].
  - assert ((k' =? k) = false) as -> by (apply Z.eqb_neq; lia). reflexivity.
  - destruct (k <? k2); [|destruct (k =? k2) eqn:E2].
    + cbn [map_get]. assert ((k' =? k) = false) as -> by (apply Z.eqb_neq; lia). reflexivity.
    + apply Z.eqb_eq in E2. subst k2. cbn [map_get].
      assert ((k' =? k) = false) as -> by (apply Z.eqb_neq; lia). reflexivity.
    + cbn [map_get]. rewrite IH. reflexivity.
Qed.

Lemma wrap64_add_l a b : wrap64 (wrap64 a + b) = wrap64 (a + b).
Proof. unfold wrap64. apply Zplus_mod_idemp_l. Qed.

Section Fold.
  Variable f : Z * Z -> Z.
  Definition step (m : list (Z * Z)) (ph : Z * Z) : list (Z * Z) := map_add (fst ph) (f ph) m.
  Definition vals (pid : Z) (l : list (Z * Z)) : list Z := map f (filter (fun ph => fst ph =? pid) l).

  Lemma fold_sorted l : forall m0, sorted m0 -> sorted (fold_left step l m0).
  Proof. induction l as [|ph r IH]; intros m0 H; cbn [fold_left]; [exact H|]. apply IH, sorted_add, H. Qed.

  (** lookups after inserting [l]: the amounts of equal keys are added up (in uint64_t) *)
  Lemma fold_get pid l : forall m0, sorted m0 ->
    map_get pid (fold_left step l m0) =
    match vals pid l with
    | [] => map_get pid m0
    | vs => Some (wrap64 (opt0 (map_get pid m0) + zsum vs))
    end.
  Proof.
    induction l as [|ph r IH]; intros m0 Hs; cbn [fold_left]; [reflexivity|].
    rewrite IH by (apply sorted_add, Hs). unfold vals. cbn [filter].
    destruct (fst ph =? pid) eqn:E.
    - apply Z.eqb_eq in E.
      assert (Hg : map_get pid (step m0 ph) = Some (wrap64 (opt0 (map_get pid m0) + f ph))).
      { unfold step. rewrite E. apply map_get_add_same, Hs. }
      rewrite Hg. cbn [map opt0].
      destruct (map f (filter (fun ph0 : Z * Z => fst ph0 =? pid) r)) as [|v vs].
      + unfold zsum. cbn [fold_right]. rewrite Z.add_0_r. reflexivity.
      + rewrite wrap64_add_l. f_equal. f_equal. unfold zsum. cbn [fold_right]. lia.
    - apply Z.eqb_neq in E.
      assert (Hg : map_get pid (step m0 ph) = map_get pid m0).
      { unfold step. apply map_get_add_other. congruence. }
      rewrite Hg. reflexivity.
  Qed.

  Lemma zsum_perm l l' : Permutation l l' -> zsum l = zsum l'.
  Proof. induction 1; unfold zsum in *; cbn [fold_right]; lia. Qed.

  Lemma vals_perm pid l l' : Permutation l l' -> Permutation (vals pid l) (vals pid l').
  Proof.
    intros H. unfold vals. apply Permutation_map.
    induction H; cbn [filter].
    - constructor.
    - destruct (fst x =? pid); [constructor|]; assumption.
    - destruct (fst x =? pid), (fst y =? pid); try apply perm_swap; apply Permutation_refl.
    - eapply perm_trans; eassumption.
  Qed.

  (** order independence of every lookup *)
  Lemma fold_get_perm pid l l' : Permutation l l' ->
    map_get pid (fold_left step l []) = map_get pid (fold_left step l' []).
  Proof.
    intros H. rewrite !fold_get by exact I.
    pose proof (vals_perm pid _ _ H) as Hv. pose proof (zsum_perm _ _ Hv) as Hz.
    destruct (vals pid l) as [|a r] eqn:E1, (vals pid l') as [|a' r'] eqn:E2; try reflexivity.
    - apply Permutation_nil in Hv. discriminate.
    - apply Permutation_sym, Permutation_nil in Hv. discriminate.
    - rewrite Hz. reflexivity.
  Qed.

  (** total of the map never exceeds what was inserted (uint64_t wrap only loses) *)
  Definition total (m : list (Z * Z)) : Z := zsum (map snd m).
  Definition nonneg (m : list (Z * Z)) : Prop := forall k v, In (k, v) m -> 0 <= v.

  Lemma wrap64_le x : 0 <= x -> 0 <= wrap64 x <= x.
  Proof.
    intros. unfold wrap64, two64. split; [apply Z.mod_pos_bound; reflexivity|apply Z.mod_le; [lia|reflexivity]].
  Qed.

  Lemma add_total k v m : 0 <= v -> nonneg m ->
    nonneg (map_add k v m) /\ total (map_add k v m) <= total m + v.
  Proof.
    intros Hv. induction m as [|[k' v'] r IH]; intros Hn; cbn [map_add].
    - split.
      + intros k0 v0 [E|[]]. inversion E. apply wrap64_le, Hv.
      + unfold total, zsum. cbn [map snd fold_right]. pose proof (wrap64_le v Hv). lia.
    - assert (Hv' : 0 <= v') by (apply (Hn k'); left; reflexivity).
      assert (Hnr : nonneg r) by (intros k0 v0 H0; apply (Hn k0); right; exact H0).
      destruct (k <? k'); [|destruct (k =? k')].
      + split.
        * intros k0 v0 [E|H0]; [inversion E; apply wrap64_le, Hv|apply (Hn k0), H0].
        * unfold total, zsum. cbn [map snd fold_right]. pose proof (wrap64_le v Hv). lia.
      + split.
        * intros k0 v0 [E|H0]; [inversion E; apply wrap64_le; lia|apply (Hnr k0), H0].
        * unfold total, zsum. cbn [map snd fold_right]. pose proof (wrap64_le (v' + v) ltac:(lia)). lia.
      + destruct (IH Hnr) as [IH1 IH2]. split.
        * intros k0 v0 [E|H0]; [inversion E; subst; exact Hv'|apply (IH1 k0), H0].
        * unfold total, zsum in *. cbn [map snd fold_right]. lia.
  Qed.

  Lemma fold_total l : (forall ph, In ph l -> 0 <= f ph) -> forall m0, nonneg m0 ->
    total (fold_left step l m0) <= total m0 + zsum (map f l).
  Proof.
    induction l as [|ph r IH]; intros Hf m0 Hn; cbn [fold_left map].
    - unfold zsum. cbn [fold_right]. lia.
    - assert (H0 : 0 <= f ph) by (apply Hf; left; reflexivity).
      destruct (add_total (fst ph) (f ph) m0 H0 Hn) as [Hn1 Ht1].
      specialize (IH (fun ph' H' => Hf ph' (or_intror H')) (step m0 ph) Hn1).
      change (step m0 ph) with (map_add (fst ph) (f ph) m0) in *.
      change (zsum (f ph :: map f r)) with (f ph + zsum (map f r)). lia.
  Qed.
End Fold.
