(** getPopPayout = specification; totals; per-payout-info sums. *)
From Coq Require Import ZArith List Bool Lia Permutation.
From VB Require Import Rewards.BigDecDefs Rewards.CalcDefs Rewards.SpecDefs Rewards.BoundsDefs
     Rewards.ArithProofs Rewards.MapProofs Rewards.PayoutProofs.
Import ListNotations.
Local Open Scope Z_scope.

Lemma skipn_nth {A} : forall n (l : list A),
  match skipn n l with
  | [] => nth_error l n = None
  | e :: r => nth_error l n = Some e /\ skipn (S n) l = r
  end.
Proof.
  induction n as [|n IH]; intros l.
  - destruct l as [|a r]; cbn; [reflexivity|split; reflexivity].
  - destruct l as [|a r]; [cbn; reflexivity|]. cbn [skipn nth_error]. specialize (IH r).
    destruct (skipn n r) as [|e r'] eqn:E; [exact IH|]. destruct IH as [I1 I2]. split; [exact I1|].
    rewrite <- I2. reflexivity.
Qed.

Lemma skipn_all_nil {A} n (l : list A) : (length l <= n)%nat -> skipn n l = [].
Proof. intros. apply skipn_all2. assumption. Qed.

Section Top.
  Variable w : Z -> Z.
  Hypothesis Hw : forall x, 0 <= x < two256 -> w x = x.
  Variable p : Params.
  Hypothesis Hp : params_ok p.

  (** reward_eq_spec, top level: getPopPayout pays exactly what the specification
      says for the block [delay - 1] behind the tip, nothing when the chain is too
      short.  [Hlen]: the chain does not reach below height 0 (heights are
      contiguous); [Hfin]: the VBK_ASSERT "block is finalized for PoP payouts"
      holds (payout delay >= settlement interval). *)
  Lemma get_pop_payout_spec tip rest :
    chain_ok (tip :: rest) ->
    Z.of_nat (length (tip :: rest)) <= b_height tip + 1 ->
    1 <= p_settle p ->
    match spec_endorsed p (tip :: rest) with
    | None => get_pop_payout w p (tip :: rest) = Ok []
    | Some (e, prevs) =>
      b_height e + p_settle p - 1 <= b_height tip ->
      get_pop_payout w p (tip :: rest) = Ok (spec_payout_map p e prevs)
    end.
  Proof.
    intros Hc Hlen Hset. unfold spec_endorsed, get_pop_payout.
    destruct (p_delay p <=? 0) eqn:Hd.
    - apply Z.leb_le in Hd. assert ((p_delay p - 1 <? 0) = true) as -> by (apply Z.ltb_lt; lia). reflexivity.
    - apply Z.leb_gt in Hd. assert ((p_delay p - 1 <? 0) = false) as -> by (apply Z.ltb_ge; lia).
      cbn [orb]. destruct (b_height tip <? p_delay p - 1) eqn:Hs.
      + apply Z.ltb_lt in Hs. rewrite skipn_all_nil by lia. reflexivity.
      + pose proof (skipn_nth (Z.to_nat (p_delay p - 1)) (tip :: rest)) as Hn.
        destruct (skipn (Z.to_nat (p_delay p - 1)) (tip :: rest)) as [|e prevs] eqn:Es.
        * rewrite Hn. reflexivity.
        * destruct Hn as [Hn1 Hn2]. rewrite Hn1, Hn2. intros Hfin.
          assert (Hin : In e (tip :: rest)) by (eapply nth_error_In; exact Hn1).
          destruct (Hc e Hin) as [Heh _]. destruct (Hc tip (or_introl eq_refl)) as [Hth _].
          assert ((wrap32 (b_height tip) <? wrap32 (b_height e + p_settle p - 1)) = false) as ->.
          { apply Z.ltb_ge. unfold wrap32, two32. change (2 ^ 31) with 2147483648 in *. change (2 ^ 32) with 4294967296.
            rewrite !Z.mod_small by lia. lia. }
          apply (calc_payouts_spec w Hw p Hp); [apply Hc, Hin|].
          intros b Hb. apply Hc. rewrite <- Hn2 in Hb.
          clear - Hb. revert Hb. generalize (S (Z.to_nat (p_delay p - 1))). intros n.
          revert n. generalize (tip :: rest). intros l. induction l as [|a r IH]; intros n Hb; [destruct n; destruct Hb|].
          destruct n as [|n]; [exact Hb|]. right. apply (IH n). exact Hb.
  Qed.

  (** *** shares *)
  Definition share (b : Block) (prevs : list Block) (ph : Z * Z) : Z :=
    spec_share (spec_block_reward p (b_height b) (spec_score p (b_ends b)) (spec_difficulty p prevs))
               (spec_score p (b_ends b))
               (spec_weight p (snd ph - spec_best (on_chain (b_ends b)))).

  Lemma shares_sum br s bp (l : list (Z * Z)) : 0 <= br -> 0 <= s ->
    0 <= zsum (map (fun ph => spec_share br s (spec_weight p (snd ph - bp))) l) /\
    s * zsum (map (fun ph => spec_share br s (spec_weight p (snd ph - bp))) l)
    <= br * zsum (map (fun ph => spec_weight p (snd ph - bp)) l).
  Proof.
    intros Hb Hs. induction l as [|ph r [IH1 IH2]]; cbn [map]; [unfold zsum; cbn; lia|].
    rewrite !zsum_app. pose proof (weight_u64 p (snd ph - bp) Hp) as Hwt. unfold u64 in Hwt.
    destruct (share_le br s (spec_weight p (snd ph - bp)) Hb Hs ltac:(lia)) as [S1 S2]. split; lia.
  Qed.

  Lemma zsum_filter_le (f : Z * Z -> Z) (g : Z * Z -> bool) l : (forall ph, 0 <= f ph) ->
    0 <= zsum (map f (filter g l)) <= zsum (map f l).
  Proof.
    intros Hf. induction l as [|ph r IH]; cbn [filter map]; [unfold zsum; cbn; lia|].
    destruct (g ph); cbn [map]; rewrite ?zsum_app; pose proof (Hf ph); lia.
  Qed.

  Lemma zsum_member_le (f : Z * Z -> Z) l x : (forall y, 0 <= f y) -> In x l -> f x <= zsum (map f l).
  Proof.
    intros Hf. induction l as [|a r IH]; intros Hin; [destruct Hin|]. cbn [map]. rewrite zsum_app.
    assert (0 <= zsum (map f r)).
    { clear IH Hin. induction r as [|y r IH]; cbn [map]; [unfold zsum; cbn; lia|]. rewrite zsum_app. pose proof (Hf y). lia. }
    destruct Hin as [->|Hin]; [lia|]. pose proof (Hf a). specialize (IH Hin). lia.
  Qed.

  Section Block.
    Variable b : Block.
    Variable prevs : list Block.
    Hypothesis Hb : block_ok b.
    Hypothesis Hc : chain_ok prevs.

    Let v := on_chain (b_ends b).
    Let s := spec_score p (b_ends b).
    Let br := spec_block_reward p (b_height b) s (spec_difficulty p prevs).
    Let bp := spec_best v.

    Lemma br_bounds : 0 <= br <= spec_cap p (spec_round p (b_height b)) /\ spec_cap p (spec_round p (b_height b)) < 2 ^ 64.
    Proof.
      destruct Hb as [Hh He]. destruct (score_spec (fun z => z) (fun x _ => eq_refl) p Hp _ He) as [_ Hs].
      destruct (difficulty_spec (fun z => z) (fun x _ => eq_refl) p Hp prevs Hc) as [_ Hd].
      apply (block_reward_cap p Hp); lia.
    Qed.

    Lemma s_bounds : 0 <= s < 2 ^ 96.
    Proof. destruct Hb as [Hh He]. apply (score_spec (fun z => z) (fun x _ => eq_refl) p Hp _ He). Qed.

    (** all shares together never exceed the block reward *)
    Lemma all_shares_le : 0 <= zsum (map (share b prevs) v) <= br.
    Proof.
      destruct br_bounds as [[B1 _] _]. pose proof s_bounds as Hs.
      destruct (shares_sum br s bp v B1 ltac:(lia)) as [S1 S2]. split; [exact S1|].
      change (zsum (map (fun ph => spec_weight p (snd ph - bp)) v)) with s in S2.
      change (map (share b prevs) v) with (map (fun ph => spec_share br s (spec_weight p (snd ph - bp))) v).
      destruct (Z.eq_dec s 0) as [E|E].
      - assert (Hz : forall l : list (Z * Z), zsum (map (fun ph => spec_share br s (spec_weight p (snd ph - bp))) l) = 0).
        { induction l as [|ph r IH]; cbn [map]; [reflexivity|]. rewrite zsum_app, IH. unfold spec_share. rewrite E. reflexivity. }
        rewrite Hz. exact B1.
      - nia.
    Qed.

    Lemma share_range ph : 0 <= share b prevs ph.
    Proof.
      destruct br_bounds as [[B1 _] _]. pose proof s_bounds as Hs.
      pose proof (weight_u64 p (snd ph - bp) Hp) as Hwt. unfold u64 in Hwt.
      destruct (share_le br s (spec_weight p (snd ph - bp)) B1 ltac:(lia) ltac:(lia)) as [S1 _]. exact S1.
    Qed.

    Lemma paid_range pid : 0 <= spec_paid p b prevs pid <= br.
    Proof.
      unfold spec_paid. fold v s br bp.
      pose proof (zsum_filter_le (share b prevs) (fun ph => fst ph =? pid) v share_range) as H.
      pose proof all_shares_le. change (fun ph : Z * Z => spec_share br s (spec_weight p (snd ph - bp))) with (share b prevs). lia.
    Qed.

    Lemma low64_share ph : In ph v -> low64 (share b prevs ph) = share b prevs ph.
    Proof.
      intros Hin. destruct br_bounds as [[_ B2] B3]. pose proof all_shares_le as [_ Ha].
      assert (share b prevs ph <= zsum (map (share b prevs) v)) by (apply zsum_member_le; [exact share_range|exact Hin]).
      pose proof (share_range ph). unfold low64, wrap64, two64. apply Z.mod_small. lia.
    Qed.

    (** same_payout_info_summed + reward_eq_spec for the amounts: the map entry of a
        payout info is the (exact, unwrapped) sum of the specification shares of all
        counted endorsements carrying it; payout infos without a counted endorsement
        have no entry *)
    Lemma payout_map_get pid :
      map_get pid (spec_payout_map p b prevs) =
      match filter (fun ph => fst ph =? pid) v with
      | [] => None
      | _ => Some (spec_paid p b prevs pid)
      end.
    Proof.
      unfold spec_payout_map. fold v s br bp.
      change (fun (m : list (Z * Z)) (ph : Z * Z) => map_add (fst ph) (low64 (spec_share br s (spec_weight p (snd ph - bp)))) m)
        with (step (fun ph => low64 (share b prevs ph))).
      rewrite fold_get by exact I. unfold vals. cbn [map_get opt0].
      assert (Hv : map (fun ph => low64 (share b prevs ph)) (filter (fun ph => fst ph =? pid) v)
                   = map (share b prevs) (filter (fun ph => fst ph =? pid) v)).
      { apply map_ext_in. intros ph Hin. apply low64_share. apply filter_In in Hin. tauto. }
      rewrite Hv. destruct (filter (fun ph => fst ph =? pid) v) as [|a r] eqn:E; [reflexivity|].
      cbn [map]. rewrite Z.add_0_l.
      assert (Hp' : zsum (share b prevs a :: map (share b prevs) r) = spec_paid p b prevs pid).
      { unfold spec_paid. fold v s br bp. rewrite E. reflexivity. }
      rewrite Hp'. f_equal. destruct (paid_range pid). destruct br_bounds as [[_ B2] B3].
      unfold wrap64, two64. apply Z.mod_small. lia.
    Qed.

    (** sum_le_block_reward: what is paid in total never exceeds the block reward,
        which never exceeds the capped reward of the round (integer division only
        rounds down, so the inequality can be strict) *)
    Lemma payout_total_le :
      total (spec_payout_map p b prevs) <= br /\ br <= spec_cap p (spec_round p (b_height b)).
    Proof.
      destruct br_bounds as [[B1 B2] B3]. split; [|exact B2].
      unfold spec_payout_map. fold v s br bp.
      change (fun (m : list (Z * Z)) (ph : Z * Z) => map_add (fst ph) (low64 (spec_share br s (spec_weight p (snd ph - bp)))) m)
        with (step (fun ph => low64 (share b prevs ph))).
      pose proof (fold_total (fun ph => low64 (share b prevs ph)) v) as Ht.
      assert (Hnn : forall ph, In ph v -> 0 <= low64 (share b prevs ph)) by (intros ph Hin; rewrite low64_share by exact Hin; apply share_range).
      specialize (Ht Hnn [] (fun k x H => match H with end)).
      assert (Hv : map (fun ph => low64 (share b prevs ph)) v = map (share b prevs) v) by (apply map_ext_in; intros ph Hin; apply low64_share, Hin).
      rewrite Hv in Ht. pose proof all_shares_le as Ha. change (total []) with 0 in Ht. lia.
    Qed.
  End Block.
End Top.
