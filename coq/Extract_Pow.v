Require Extraction.
Require Import ExtrOcamlBasic.
From Coq Require Import ZArith NArith List.
From VB Require Import Arith.CompactDefs Pow.PowBase Pow.BtcDefs Pow.VbkDefs Pow.BestChainDefs Pow.AcceptDefs Gen.ChainParams.
Extraction "Pow_model.ml" Nat.pred N.succ Z.succ
  fromBits toBits
  btc_main btc_test btc_regtest vbk_main vbk_test vbk_regtest
  btc_median_time_span vbk_history_for_timestamp_average vbk_maximum_difficulty
  bp_interval btc_calc btc_calc_v0 btc_next_work btc_next_work_v0 btc_mtp btc_check_time btc_block_proof btc_target_ok
  vbk_K vbk_next_work vbk_next_work_v0 vbk_validate_keystones vbk_min_timestamp vbk_check_time vbk_block_proof vbk_target_ok
  find_blk chain_of to_bidx determine genesis_tree insert_header invalidate_fork in_subtree
  btc_precheck btc_accept vbk_precheck vbk_accept run_op.
