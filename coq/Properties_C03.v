(** C03 — property theorems only; each closed by [exact] of a lemma proved elsewhere. *)
From Coq Require Import ZArith List Bool.
From VB Require Import Score.CInt Gen.KeystoneGen Gen.ScoreParams Score.KeystoneDefs Score.KeystoneProofs
  Score.CmpDefs Score.CmpProofs Score.CmpSym Score.ViewDefs Score.ViewProofs.
Import ListNotations.
Local Open Scope Z_scope.

(** *** the scoring core as coded = the protocol scorer (sign), for all views *)

(** general form over extended heights: [Some (Fin h)] published at h, [Some Inf] present but
    never published, [None] no keystone at this position *)
Theorem C03_impl_sign_eq_spec_gen :
  forall c la lb,
    table_ok c -> fd_ok c -> profile_ok c la -> profile_ok c lb ->
    budget_ok c (Nat.max (length la) (length lb)) ->
    exists r, impl c (enc_view la) (enc_view lb) = Ok r /\ Z.sgn r = Z.sgn (spec c la lb).
Proof. exact impl_sign_eq_spec_gen. Qed.
Print Assumptions C03_impl_sign_eq_spec_gen.

(** views with holes (getKeystone = nullptr for a keystone nobody published; the unit tests' mock) *)
Theorem C03_impl_sign_eq_spec :
  forall c la lb,
    table_ok c -> fd_ok c -> heights_ok c la -> heights_ok c lb ->
    budget_ok c (Nat.max (length la) (length lb)) ->
    exists r, impl c (holes_view la) (holes_view lb) = Ok r /\
              Z.sgn r = Z.sgn (spec c (pub_profile la) (pub_profile lb)).
Proof. exact impl_sign_eq_spec. Qed.
Print Assumptions C03_impl_sign_eq_spec.

(** the real ReducedPublicationView (a context holding NO_ENDORSEMENT, never nullptr in range):
    an unpublished keystone counts as published infinitely late *)
Theorem C03_impl_real_sign_eq_spec :
  forall c la lb,
    table_ok c -> fd_ok c -> heights_ok c la -> heights_ok c lb ->
    budget_ok c (Nat.max (length la) (length lb)) ->
    exists r, impl c (real_view la) (real_view lb) = Ok r /\
              Z.sgn r = Z.sgn (spec c (inf_profile la) (inf_profile lb)).
Proof. exact impl_real_sign_eq_spec. Qed.
Print Assumptions C03_impl_real_sign_eq_spec.

(** FINDING: on the real view the verdict is not the "missing keystone" reading that the repo's
    unit tests pin on their mock view (witness: two chains with holes of different length tie) *)
Theorem C03_real_view_pub_reading_refuted :
  exists c la lb r,
    table_ok c /\ fd_ok c /\ heights_ok c la /\ heights_ok c lb /\
    budget_ok c (Nat.max (length la) (length lb)) /\
    impl c (real_view la) (real_view lb) = Ok r /\
    Z.sgn r <> Z.sgn (spec c (pub_profile la) (pub_profile lb)).
Proof. exact real_view_pub_reading_refuted. Qed.
Print Assumptions C03_real_view_pub_reading_refuted.

(** the table hypotheses hold for the defaults generated from /repo's current headers *)
Theorem C03_default_params_ok :
  table_ok alt_cfg /\ fd_ok alt_cfg /\ table_ok vbk_cfg /\ fd_ok vbk_cfg /\
  budget_ok alt_cfg 1000000 /\ budget_ok vbk_cfg 1000000.
Proof. exact default_params_ok. Qed.
Print Assumptions C03_default_params_ok.

(** *** antisymmetry (exact), zero without keystones *)

Theorem C03_impl_antisym :
  forall c la lb r, impl c la lb = Ok r -> r <> int32_min -> impl c lb la = Ok (- r).
Proof. exact impl_antisym. Qed.
Print Assumptions C03_impl_antisym.

Theorem C03_impl_antisym_ub :
  forall c la lb, impl c la lb = Ub -> impl c lb la = Ub \/ impl c lb la = Ok int32_min.
Proof. exact impl_antisym_ub. Qed.
Print Assumptions C03_impl_antisym_ub.

Theorem C03_cmp_zero_no_keystone :
  forall c fork tipA tipB ki la lb,
    0 < ki -> fork <= tipA -> fork <= tipB ->
    Z.of_nat (length la) = view_size fork tipA ki ->
    Z.of_nat (length lb) = view_size fork tipB ki ->
    m_crossed fork tipA ki = false -> m_crossed fork tipB ki = false ->
    impl c la lb = Ok 0.
Proof. exact cmp_zero_no_keystone. Qed.
Print Assumptions C03_cmp_zero_no_keystone.

(** *** outer comparePopScore short-cuts *)

Theorem C03_cmp_never_favours_finalized_or_invalid :
  forall i, outer_wf i ->
    cand_valid i = false \/ apply_ok i = false \/ forks_below_final i ->
    0 <= fst (outer_cmp i).
Proof. exact cmp_never_favours_finalized_or_invalid. Qed.
Print Assumptions C03_cmp_never_favours_finalized_or_invalid.

Theorem C03_outer_negative_only_if_valid :
  forall i, fst (outer_cmp i) < 0 ->
    cand_valid i = true /\ apply_ok i = true /\
    (cand_above_tip i = true \/ (core i < 0 /\ b_valid_alone i = true)).
Proof. exact outer_negative_only_if_valid. Qed.
Print Assumptions C03_outer_negative_only_if_valid.

(** *** keystone_util.cpp, regenerated from the source on every run, = keystone arithmetic *)

Theorem C03_gen_highestKeystoneAtOrBefore :
  forall h ki, height_ok h -> ki_ok ki ->
    highestKeystoneAtOrBefore h ki = Ok (ki * (h / ki)).
Proof. exact gen_highestKeystoneAtOrBefore. Qed.
Print Assumptions C03_gen_highestKeystoneAtOrBefore.

Theorem C03_gen_blockHeightToKeystoneNumber :
  forall h ki, height_ok h -> ki_ok ki -> blockHeightToKeystoneNumber h ki = Ok (h / ki).
Proof. exact gen_blockHeightToKeystoneNumber. Qed.
Print Assumptions C03_gen_blockHeightToKeystoneNumber.

Theorem C03_gen_isKeystone :
  forall h ki, height_ok h -> ki_ok ki -> isKeystone h ki = Ok (h mod ki =? 0).
Proof. exact gen_isKeystone. Qed.
Print Assumptions C03_gen_isKeystone.

Theorem C03_gen_firstKeystoneAfter :
  forall h ki, height_ok h -> ki_ok ki -> h + ki <= 2147483647 ->
    firstKeystoneAfter h ki = Ok (ki * (h / ki + 1)).
Proof. exact gen_firstKeystoneAfter. Qed.
Print Assumptions C03_gen_firstKeystoneAfter.

Theorem C03_gen_highestConnecting :
  forall k ki, height_ok k -> ki_ok ki -> k + ki + 1 <= 2147483647 -> m_isKeystone k ki = true ->
    highestBlockWhichConnectsKeystoneToPrevious k ki = Ok (k + ki + 1).
Proof. exact gen_highestConnecting. Qed.
Print Assumptions C03_gen_highestConnecting.

Theorem C03_gen_isCrossedKeystoneBoundary :
  forall b t ki, height_ok b -> height_ok t -> ki_ok ki ->
    isCrossedKeystoneBoundary b t ki = Ok (b / ki <? t / ki).
Proof. exact gen_isCrossedKeystoneBoundary. Qed.
Print Assumptions C03_gen_isCrossedKeystoneBoundary.

Theorem C03_gen_areOnSameKeystoneInterval :
  forall a b ki, height_ok a -> height_ok b -> ki_ok ki ->
    areOnSameKeystoneInterval a b ki = Ok (a / ki =? b / ki).
Proof. exact gen_areOnSameKeystoneInterval. Qed.
Print Assumptions C03_gen_areOnSameKeystoneInterval.

Theorem C03_gen_getPreviousKeystoneHeight :
  forall h ki n, height_ok h -> ki_ok ki -> 0 <= n -> (n + 1) * ki <= 2147483647 ->
    getPreviousKeystoneHeight h ki n = Ok (m_previousKeystone h ki n).
Proof. exact gen_getPreviousKeystoneHeight. Qed.
Print Assumptions C03_gen_getPreviousKeystoneHeight.

(** negative heights abort (the VBK_ASSERTs), they are not silently computed with *)
Theorem C03_gen_negative_height_aborts :
  forall h ki, h < 0 ->
    highestKeystoneAtOrBefore h ki = Abort /\ isKeystone h ki = Abort /\ firstKeystoneAfter h ki = Abort.
Proof.
  exact (fun h ki H => conj (gen_highestKeystoneAtOrBefore_neg h ki H)
                         (conj (gen_isKeystone_neg h ki H) (gen_firstKeystoneAfter_neg h ki H))).
Qed.
Print Assumptions C03_gen_negative_height_aborts.

(** the view of a chain slice is empty exactly when the slice crosses no keystone boundary *)
Theorem C03_view_empty_iff_not_crossed :
  forall fork tip ki, 0 < ki -> fork <= tip ->
    (view_size fork tip ki = 0 <-> m_crossed fork tip ki = false).
Proof. exact view_empty_iff_not_crossed. Qed.
Print Assumptions C03_view_empty_iff_not_crossed.

(** *** getKeystoneContext as coded (with the optional time adjustment) = minimum of the adjusted heights *)

Theorem C03_ktx_eq_spec :
  forall ta chain T hs, ktx ta chain T hs = ktx_spec ta chain T hs.
Proof. exact ktx_eq_spec. Qed.
Print Assumptions C03_ktx_eq_spec.

Theorem C03_ktx_is_min :
  forall ta chain T hs,
    (forall h j, In h hs -> adjust ta chain T h = Some j ->
       exists m, ktx ta chain T hs = Some m /\ (m <= j)%nat) /\
    (forall m, ktx ta chain T hs = Some m -> exists h, In h hs /\ adjust ta chain T h = Some m) /\
    (ktx ta chain T hs = None <-> forall h, In h hs -> adjust ta chain T h = None).
Proof. exact ktx_is_min. Qed.
Print Assumptions C03_ktx_is_min.

Theorem C03_ktx_order_independent :
  forall ta chain T hs hs', Permutation.Permutation hs hs' -> ktx ta chain T hs = ktx ta chain T hs'.
Proof. exact ktx_order_independent. Qed.
Print Assumptions C03_ktx_order_independent.

Theorem C03_adjust_ge :
  forall ta chain T h j, adjust ta chain T h = Some j -> (h <= j)%nat.
Proof. exact adjust_ge. Qed.
Print Assumptions C03_adjust_ge.

Theorem C03_adjust_later :
  forall chain T h j, adjust true chain T h = Some j -> T < nth j chain 0.
Proof. exact adjust_later. Qed.
Print Assumptions C03_adjust_later.

Theorem C03_adjust_mono :
  forall ta chain T h1 h2, (h1 <= h2)%nat -> (h2 < length chain)%nat ->
    match adjust ta chain T h1, adjust ta chain T h2 with
    | Some a, Some b => (a <= b)%nat
    | None, Some _ => False
    | _, None => True
    end.
Proof. exact adjust_mono. Qed.
Print Assumptions C03_adjust_mono.

Theorem C03_ktx_off :
  forall chain T hs, ktx false chain T hs = fold_left omin (map Some hs) None.
Proof. exact ktx_off. Qed.
Print Assumptions C03_ktx_off.

(** *** the TIP_IS_FINAL guard as coded has no height condition; the variant with one is refuted *)

Theorem C03_outer_below_final_is_one :
  forall i, outer_wf i -> cand_valid i = true -> cand_is_tip i = false -> cand_on_active i = false ->
    forks_below_final i -> outer_cmp i = (1, TIP_IS_FINAL).
Proof. exact outer_below_final_is_one. Qed.
Print Assumptions C03_outer_below_final_is_one.

Theorem C03_outer_height_guard_refuted :
  exists i, outer_wf i /\ forks_below_final i /\ fst (outer_cmp_gen next_to_fork_final_height i) < 0.
Proof. exact outer_height_guard_refuted. Qed.
Print Assumptions C03_outer_height_guard_refuted.
