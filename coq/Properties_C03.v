(** C03 — property theorems only; each closed by [exact] of a lemma proved elsewhere. *)
From Coq Require Import ZArith List Bool.
From VB Require Import Score.CInt Gen.KeystoneGen Score.KeystoneDefs Score.KeystoneProofs.
Local Open Scope Z_scope.

(** keystone_util.cpp as generated from the source = the mathematical keystone arithmetic *)
Theorem C03_gen_highestKeystoneAtOrBefore :
  forall h ki, height_ok h -> ki_ok ki ->
    highestKeystoneAtOrBefore h ki = Ok (ki * (h / ki)).
Proof. exact gen_highestKeystoneAtOrBefore. Qed.
Print Assumptions C03_gen_highestKeystoneAtOrBefore.
